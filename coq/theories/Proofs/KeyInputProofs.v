(* C05 - proofs about Model/KeyInput.v (process_keyqueue, KeyqueueTrie, Screen.parse_input). *)
From Coq Require Import ZArith List Bool Lia.
Import ListNotations.
From Urwid Require Import PyBase escape_table_gen KeyInput.
Open Scope Z_scope.

Arguments Z.add : simpl never.
Arguments Z.sub : simpl never.
Arguments Z.mul : simpl never.
Arguments Z.div : simpl never.
Arguments Z.modulo : simpl never.
Arguments Z.ltb : simpl never.
Arguments Z.leb : simpl never.
Arguments Z.eqb : simpl never.
Arguments Z.land : simpl never.
Arguments Z.shiftr : simpl never.
Arguments assoc : simpl never.

(* ------------------------------------------------------------------ *)
(* "extension" relations: what a result obtained on [c] says about the result on [c ++ d],
   both with more_available = True.  They carry decisiveness of Ok AND of errors. *)
Definition ext_opt (d : list Z) (o o' : outcome (option (event * list Z))) : Prop :=
  match o with
  | OOk None => o' = OOk None
  | OOk (Some (ev, rest)) => o' = OOk (Some (ev, rest ++ d))
  | OErr e => o' = OErr e
  | OMore => True
  end.

Definition ext_res (d : list Z) (o o' : outcome res) : Prop :=
  match o with
  | OOk (evs, rest) => o' = OOk (evs, rest ++ d)
  | OErr e => o' = OErr e
  | OMore => True
  end.

Definition ext_step (d : list Z) (s s' : option (outcome res)) : Prop :=
  match s with
  | None => s' = None
  | Some OMore => True
  | Some (OOk (evs, rest)) => s' = Some (OOk (evs, rest ++ d))
  | Some (OErr e) => s' = Some (OErr e)
  end.

Lemma read_mouse_info_ext keys d :
  ext_opt d (read_mouse_info keys true) (read_mouse_info (keys ++ d) true).
Proof.
  destruct keys as [|k0 [|k1 [|k2 rest]]]; cbn; auto.
Qed.

Lemma sgr_scan_ext keys d v t r :
  sgr_scan keys = Some (v, t, r) -> sgr_scan (keys ++ d) = Some (v, t, r ++ d).
Proof.
  revert v t r; induction keys as [|k keys IH]; intros v t r H; cbn in *; [discriminate|].
  destruct ((k =? 77) || (k =? 109)).
  - inversion H; subst; reflexivity.
  - destruct (sgr_scan keys) as [[[v' t'] r']|] eqn:E; [|discriminate].
    inversion H; subst. rewrite (IH _ _ _ eq_refl). reflexivity.
Qed.

Lemma read_sgrmouse_info_ext keys d :
  ext_opt d (read_sgrmouse_info keys true) (read_sgrmouse_info (keys ++ d) true).
Proof.
  destruct keys as [|k keys]; [cbn; auto|].
  unfold read_sgrmouse_info.
  change ((k :: keys) ++ d) with (k :: keys ++ d).
  destruct (sgr_scan (k :: keys)) as [[[v t] r]|] eqn:E; [|cbn; auto].
  change (k :: keys ++ d) with ((k :: keys) ++ d).
  rewrite (sgr_scan_ext _ d _ _ _ E).
  destruct (sgr_event v t) as [[ev|]| |e]; cbn; auto.
Qed.

Lemma get_recurse_leaf name keys more :
  get_recurse (TLeaf name) keys more =
    if zs_eqb name str_mouse then read_mouse_info keys more
    else if zs_eqb name str_sgrmouse then read_sgrmouse_info keys more
    else OOk (Some (Key name, keys)).
Proof. destruct keys; reflexivity. Qed.

Lemma get_recurse_node ch k keys more :
  get_recurse (TNode ch) (k :: keys) more =
    match assoc k ch with None => OOk None | Some sub => get_recurse sub keys more end.
Proof. reflexivity. Qed.

Lemma get_recurse_ext keys : forall root d,
  ext_opt d (get_recurse root keys true) (get_recurse root (keys ++ d) true).
Proof.
  induction keys as [|k keys IH]; intros root d.
  - destruct root as [name|ch].
    + rewrite !get_recurse_leaf.
      destruct (zs_eqb name str_mouse); [apply (read_mouse_info_ext [] d)|].
      destruct (zs_eqb name str_sgrmouse); [apply (read_sgrmouse_info_ext [] d)|].
      cbn. reflexivity.
    + cbn. auto.
  - destruct root as [name|ch].
    + rewrite !get_recurse_leaf.
      destruct (zs_eqb name str_mouse); [apply read_mouse_info_ext|].
      destruct (zs_eqb name str_sgrmouse); [apply read_sgrmouse_info_ext|].
      cbn. reflexivity.
    + change ((k :: keys) ++ d) with (k :: keys ++ d). rewrite !get_recurse_node.
      destruct (assoc k ch) as [sub|]; [apply IH|cbn; reflexivity].
Qed.

Lemma cpr_x_ext keys d : forall x,
  match cpr_x keys x with
  | CXNone => cpr_x (keys ++ d) x = CXNone
  | CXDone v rest => cpr_x (keys ++ d) x = CXDone v (rest ++ d)
  | CXEnd => True
  end.
Proof.
  induction keys as [|k keys IH]; intros x; cbn; auto.
  destruct (k =? 82); [destruct (x =? 0); reflexivity|].
  destruct ((k <? 48) || (57 <? k)); [reflexivity|].
  destruct ((x =? 0) && (k =? 48)); [reflexivity|].
  apply IH.
Qed.

Lemma cpr_y_ext keys d : forall y,
  match cpr_y keys y with
  | CYNone => cpr_y (keys ++ d) y = CYNone
  | CYBreak v rest => cpr_y (keys ++ d) y = CYBreak v (rest ++ d)
  | CYEnd _ => True
  end.
Proof.
  induction keys as [|k keys IH]; intros y; cbn; auto.
  destruct (k =? 59); [destruct (y =? 0); reflexivity|].
  destruct ((k <? 48) || (57 <? k)); [reflexivity|].
  destruct ((y =? 0) && (k =? 48)); [reflexivity|].
  apply IH.
Qed.

Lemma read_cursor_position_ext keys d :
  ext_opt d (read_cursor_position keys true) (read_cursor_position (keys ++ d) true).
Proof.
  destruct keys as [|k0 r]; [cbn; auto|].
  cbn [read_cursor_position app].
  destruct (negb (k0 =? 91)); [cbn; reflexivity|].
  pose proof (cpr_y_ext r d 0) as Hy.
  destruct (cpr_y r 0) as [|y r2|y]; [rewrite Hy; cbn; reflexivity| |cbn; auto].
  rewrite Hy.
  destruct r2 as [|k2 r2]; [cbn; auto|].
  cbn [app].
  pose proof (cpr_x_ext (k2 :: r2) d 0) as Hx.
  change (k2 :: r2 ++ d) with ((k2 :: r2) ++ d).
  destruct (cpr_x (k2 :: r2) 0) as [|x rest|]; [rewrite Hx; cbn; reflexivity|rewrite Hx; cbn; reflexivity|cbn; auto].
Qed.

Lemma trie_get_in_ext root keys d :
  ext_opt d (trie_get_in root keys true) (trie_get_in root (keys ++ d) true).
Proof.
  unfold trie_get_in.
  pose proof (get_recurse_ext keys root d) as H.
  destruct (get_recurse root keys true) as [[[ev rest]|]| |e]; cbn in H; rewrite ?H; cbn; auto.
  apply read_cursor_position_ext.
Qed.

Lemma utf8_check_ext n : forall tl d,
  utf8_check n tl <> U8Missing -> utf8_check n (tl ++ d) = utf8_check n tl.
Proof.
  induction n as [|n IH]; intros tl d H; cbn in *; [reflexivity|].
  destruct tl as [|k r]; [congruence|]. cbn.
  destruct ((256 <? k) || negb (Z.land k 192 =? 128)); [reflexivity|]. apply IH; exact H.
Qed.

Lemma utf8_check_good_len n : forall tl, utf8_check n tl = U8Good -> (n <= length tl)%nat.
Proof.
  induction n as [|n IH]; intros tl H; cbn in *; [lia|].
  destruct tl as [|k r]; [discriminate|]. cbn.
  destruct ((256 <? k) || negb (Z.land k 192 =? 128)); [discriminate|].
  specialize (IH _ H). lia.
Qed.

Lemma utf8_step_ext em code tl d :
  ext_step d (utf8_step em code tl true) (utf8_step em code (tl ++ d) true).
Proof.
  unfold utf8_step.
  destruct (enc_is_utf8 em && (127 <? code) && (code <? 256)); [|cbn; reflexivity].
  set (need := if Z.land code 224 =? 192 then Some 1%nat
               else if Z.land code 240 =? 224 then Some 2%nat
               else if Z.land code 248 =? 240 then Some 3%nat else None).
  destruct need as [n|]; [|cbn; reflexivity].
  destruct (utf8_check n tl) eqn:E.
  - cbn. auto.
  - rewrite utf8_check_ext by congruence. rewrite E. cbn. reflexivity.
  - rewrite utf8_check_ext by congruence. rewrite E.
    pose proof (utf8_check_good_len _ _ E) as Hl.
    rewrite firstn_app, skipn_app.
    replace (n - length tl)%nat with 0%nat by lia. cbn [firstn skipn]. rewrite app_nil_r.
    destruct (utf8_decode code n (firstn n tl)); cbn; reflexivity.
Qed.

Lemma wide_step_ext em code tl d :
  ext_step d (wide_step em code tl true) (wide_step em code (tl ++ d) true).
Proof.
  unfold wide_step.
  destruct (enc_is_wide em && (code <? 256)); [|cbn; reflexivity].
  destruct (within_double_byte [code] 0 0) as [r1|e]; [|cbn; reflexivity].
  destruct (negb (r1 =? 0)); [|cbn; reflexivity].
  destruct tl as [|k r]; [cbn; auto|].
  cbn [app].
  destruct (k <? 256); [|cbn; reflexivity].
  destruct (within_double_byte [code; k] 0 1) as [r2|e]; [|cbn; reflexivity].
  destruct (negb (r2 =? 0)); cbn; reflexivity.
Qed.

(* one unfolding step of the fixpoint, without unfolding anything else *)
Lemma process_eq em code tl more :
  process_keyqueue em (code :: tl) more =
      if (32 <=? code) && (code <=? 126) then OOk ([Key [code]], tl)
      else match assoc code keyconv with
      | Some v => OOk ([match v with Some n => Key n | None => KNone end], tl)
      | None =>
      if (0 <? code) && (code <? 27) then OOk ([Key (str_ctrl ++ [97 + code - 1])], tl)
      else if (27 <? code) && (code <? 32) then OOk ([Key (str_ctrl ++ [65 + code - 1])], tl)
      else match wide_step em code tl more with
      | Some o => o
      | None =>
      match utf8_step em code tl more with
      | Some o => o
      | None =>
      if (127 <? code) && (code <? 256) then OOk ([Key [code]], tl)
      else if negb (code =? 27) then OOk ([angle code], tl)
      else match trie_get tl more with
      | OMore => OMore
      | OErr e => OErr e
      | OOk (Some (ev, rest)) => OOk ([ev], rest)
      | OOk None =>
          match tl with
          | [] => OOk ([Key str_esc], tl)
          | _ :: _ =>
              match process_keyqueue em tl more with
              | OOk (run, rest) => meta_wrap run rest
              | OMore => OMore
              | OErr e => OErr e
              end
          end
      end end end end.
Proof. reflexivity. Qed.

Lemma meta_wrap_ext run rest d : ext_res d (meta_wrap run rest) (meta_wrap run (rest ++ d)).
Proof.
  unfold meta_wrap, ext_res. destruct run as [|r0 rt]; [reflexivity|].
  destruct r0; try reflexivity.
  destruct (zs_eqb name str_esc || contains_sub str_meta name); reflexivity.
Qed.

(* facts about the generated table, by computation (re-run whenever escape.py changes) *)
Lemma trie_build_ok : trie_build input_sequences = Ok input_trie.
Proof. vm_compute. reflexivity. Qed.

Lemma trie_get_nil_true : trie_get [] true = OMore.
Proof. vm_compute. reflexivity. Qed.

(* keep tactics from unfolding the big generated constants; vm_compute still sees through *)
Opaque input_trie keyconv input_sequences.

(* decisive (and error-decisive), one statement *)
Lemma process_ext em c : forall d, c <> [] ->
  ext_res d (process_keyqueue em c true) (process_keyqueue em (c ++ d) true).
Proof.
  induction c as [|code tl IH]; intros d Hne; [congruence|].
  change ((code :: tl) ++ d) with (code :: tl ++ d).
  rewrite !process_eq.
  destruct ((32 <=? code) && (code <=? 126)); [cbn; reflexivity|].
  destruct (assoc code keyconv); [cbn; reflexivity|].
  destruct ((0 <? code) && (code <? 27)); [cbn; reflexivity|].
  destruct ((27 <? code) && (code <? 32)); [cbn; reflexivity|].
  pose proof (wide_step_ext em code tl d) as Hw.
  destruct (wide_step em code tl true) as [[[evs rest]| |e]|]; cbn in Hw; try rewrite Hw; cbn; auto.
  pose proof (utf8_step_ext em code tl d) as Hu.
  destruct (utf8_step em code tl true) as [[[evs rest]| |e]|]; cbn in Hu; try rewrite Hu; cbn; auto.
  destruct ((127 <? code) && (code <? 256)); [cbn; reflexivity|].
  destruct (negb (code =? 27)); [cbn; reflexivity|].
  destruct tl as [|k tl'].
  { rewrite trie_get_nil_true. exact I. }
  pose proof (trie_get_in_ext input_trie (k :: tl') d) as Ht. fold trie_get in Ht.
  destruct (trie_get (k :: tl') true) as [[[ev rest]|]| |e]; cbn [ext_opt] in Ht; try rewrite Ht;
    try exact I; try reflexivity.
  change ((k :: tl') ++ d) with (k :: tl' ++ d).
  assert (Hne' : k :: tl' <> []) by congruence.
  specialize (IH d Hne'). change (k :: tl' ++ d) with ((k :: tl') ++ d).
  destruct (process_keyqueue em (k :: tl') true) as [[run rest]| |e]; cbn [ext_res] in IH; try rewrite IH;
    try exact I; try reflexivity.
  apply meta_wrap_ext.
Qed.

(* ------------------------------------------------------------------ *)
(* more_available = False: MoreInputRequired is never raised, and a result decided with
   more_available = True is the same with False *)
Ltac break_match :=
  repeat match goal with
         | |- context [match ?x with _ => _ end] => destruct x
         | |- context [if ?x then _ else _] => destruct x
         end.

Lemma sgr_event_not_more body t : sgr_event body t <> OMore.
Proof. unfold sgr_event. break_match; discriminate. Qed.

Lemma read_mouse_info_false keys : read_mouse_info keys false <> OMore.
Proof. destruct keys as [|k0 [|k1 [|k2 rest]]]; cbn; discriminate. Qed.

Lemma read_sgrmouse_info_false keys : read_sgrmouse_info keys false <> OMore.
Proof.
  unfold read_sgrmouse_info. destruct keys; [discriminate|].
  destruct (sgr_scan (z :: keys)) as [[[v t] r]|]; [|discriminate].
  pose proof (sgr_event_not_more v t). destruct (sgr_event v t) as [[ev|]| |e]; congruence.
Qed.

Lemma get_recurse_false keys : forall root, get_recurse root keys false <> OMore.
Proof.
  induction keys as [|k keys IH]; intros root; destruct root as [name|ch].
  - rewrite get_recurse_leaf. destruct (zs_eqb name str_mouse); [apply read_mouse_info_false|].
    destruct (zs_eqb name str_sgrmouse); [apply read_sgrmouse_info_false|discriminate].
  - cbn. discriminate.
  - rewrite get_recurse_leaf. destruct (zs_eqb name str_mouse); [apply read_mouse_info_false|].
    destruct (zs_eqb name str_sgrmouse); [apply read_sgrmouse_info_false|discriminate].
  - rewrite get_recurse_node. destruct (assoc k ch); [apply IH|discriminate].
Qed.

Lemma read_cursor_position_false keys : read_cursor_position keys false <> OMore.
Proof. unfold read_cursor_position. break_match; discriminate. Qed.

Lemma trie_get_in_false root keys : trie_get_in root keys false <> OMore.
Proof.
  unfold trie_get_in. pose proof (get_recurse_false keys root).
  destruct (get_recurse root keys false) as [[[ev rest]|]| |e]; try congruence; try discriminate.
  apply read_cursor_position_false.
Qed.

Lemma wide_step_false em code tl : wide_step em code tl false <> Some OMore.
Proof. unfold wide_step. break_match; discriminate. Qed.

Lemma utf8_step_false em code tl : utf8_step em code tl false <> Some OMore.
Proof. unfold utf8_step. break_match; discriminate. Qed.

Lemma meta_wrap_not_more run rest : meta_wrap run rest <> OMore.
Proof. unfold meta_wrap. break_match; discriminate. Qed.

Lemma process_false_not_more em c : process_keyqueue em c false <> OMore.
Proof.
  induction c as [|code tl IH]; [cbn; discriminate|].
  rewrite process_eq.
  destruct ((32 <=? code) && (code <=? 126)); [discriminate|].
  destruct (assoc code keyconv); [discriminate|].
  destruct ((0 <? code) && (code <? 27)); [discriminate|].
  destruct ((27 <? code) && (code <? 32)); [discriminate|].
  pose proof (wide_step_false em code tl) as Hw.
  destruct (wide_step em code tl false) as [[[evs rest]| |e]|]; try congruence; try discriminate.
  pose proof (utf8_step_false em code tl) as Hu.
  destruct (utf8_step em code tl false) as [[[evs rest]| |e]|]; try congruence; try discriminate.
  destruct ((127 <? code) && (code <? 256)); [discriminate|].
  destruct (negb (code =? 27)); [discriminate|].
  pose proof (trie_get_in_false input_trie tl) as Ht. fold trie_get in Ht.
  destruct (trie_get tl false) as [[[ev rest]|]| |e]; try congruence; try discriminate.
  destruct tl as [|k tl']; [discriminate|].
  destruct (process_keyqueue em (k :: tl') false) as [[run rest]| |e]; try congruence; try discriminate.
  apply meta_wrap_not_more.
Qed.

(* flag relation *)
Definition flag_opt {A} (ot of : outcome A) : Prop :=
  match ot with OMore => True | _ => of = ot end.
Definition flag_step (st sf : option (outcome res)) : Prop :=
  match st with Some OMore => True | _ => sf = st end.

Lemma read_mouse_info_flag keys : flag_opt (read_mouse_info keys true) (read_mouse_info keys false).
Proof. destruct keys as [|k0 [|k1 [|k2 rest]]]; cbn; auto. Qed.

Lemma read_sgrmouse_info_flag keys : flag_opt (read_sgrmouse_info keys true) (read_sgrmouse_info keys false).
Proof.
  unfold read_sgrmouse_info. destruct keys; [cbn; auto|].
  destruct (sgr_scan (z :: keys)) as [[[v t] r]|]; [|cbn; auto].
  destruct (sgr_event v t) as [[ev|]| |e]; cbn; auto.
Qed.

Lemma get_recurse_flag keys : forall root, flag_opt (get_recurse root keys true) (get_recurse root keys false).
Proof.
  induction keys as [|k keys IH]; intros root; destruct root as [name|ch].
  - rewrite !get_recurse_leaf. destruct (zs_eqb name str_mouse); [apply read_mouse_info_flag|].
    destruct (zs_eqb name str_sgrmouse); [apply read_sgrmouse_info_flag|]. cbn; auto.
  - cbn. auto.
  - rewrite !get_recurse_leaf. destruct (zs_eqb name str_mouse); [apply read_mouse_info_flag|].
    destruct (zs_eqb name str_sgrmouse); [apply read_sgrmouse_info_flag|]. cbn; auto.
  - rewrite !get_recurse_node. destruct (assoc k ch); [apply IH|cbn; auto].
Qed.

Lemma read_cursor_position_flag keys :
  flag_opt (read_cursor_position keys true) (read_cursor_position keys false).
Proof. unfold read_cursor_position. break_match; cbn; auto. Qed.

Lemma trie_get_in_flag root keys : flag_opt (trie_get_in root keys true) (trie_get_in root keys false).
Proof.
  unfold trie_get_in. pose proof (get_recurse_flag keys root) as H.
  destruct (get_recurse root keys true) as [[[ev rest]|]| |e]; cbn in H; try rewrite H; cbn; auto.
  apply read_cursor_position_flag.
Qed.

Lemma wide_step_flag em code tl : flag_step (wide_step em code tl true) (wide_step em code tl false).
Proof. unfold wide_step. break_match; cbn; auto. Qed.

Lemma utf8_step_flag em code tl : flag_step (utf8_step em code tl true) (utf8_step em code tl false).
Proof. unfold utf8_step. break_match; cbn; auto. Qed.

Lemma process_flag em c : flag_opt (process_keyqueue em c true) (process_keyqueue em c false).
Proof.
  induction c as [|code tl IH]; [cbn; auto|].
  rewrite !process_eq.
  destruct ((32 <=? code) && (code <=? 126)); [cbn; auto|].
  destruct (assoc code keyconv); [cbn; auto|].
  destruct ((0 <? code) && (code <? 27)); [cbn; auto|].
  destruct ((27 <? code) && (code <? 32)); [cbn; auto|].
  pose proof (wide_step_flag em code tl) as Hw.
  destruct (wide_step em code tl true) as [[[evs rest]| |e]|]; cbn in Hw; try rewrite Hw; cbn; auto.
  pose proof (utf8_step_flag em code tl) as Hu.
  destruct (utf8_step em code tl true) as [[[evs rest]| |e]|]; cbn in Hu; try rewrite Hu; cbn; auto.
  destruct ((127 <? code) && (code <? 256)); [cbn; auto|].
  destruct (negb (code =? 27)); [cbn; auto|].
  pose proof (trie_get_in_flag input_trie tl) as Ht. fold trie_get in Ht.
  destruct (trie_get tl true) as [[[ev rest]|]| |e]; cbn in Ht; try rewrite Ht; cbn; auto.
  destruct tl as [|k tl']; [cbn; auto|].
  destruct (process_keyqueue em (k :: tl') true) as [[run rest]| |e]; cbn [flag_opt] in IH; try rewrite IH;
    cbn [flag_opt]; auto.
  destruct (meta_wrap run rest) as [[a b]| |]; cbn [flag_opt]; auto.
Qed.

(* ------------------------------------------------------------------ *)
(* progress: what is returned as remaining codes is a suffix, at least one code is consumed,
   at least one event is reported *)
Definition is_suffix (rest keys : list Z) : Prop := exists p, keys = p ++ rest.

Lemma is_suffix_refl l : is_suffix l l.
Proof. exists []; reflexivity. Qed.

Lemma is_suffix_cons k rest keys : is_suffix rest keys -> is_suffix rest (k :: keys).
Proof. intros [p ->]. exists (k :: p); reflexivity. Qed.

Lemma is_suffix_skipn n (l : list Z) : is_suffix (skipn n l) l.
Proof. exists (firstn n l). symmetry; apply firstn_skipn. Qed.

Lemma sgr_scan_split keys : forall v t r, sgr_scan keys = Some (v, t, r) -> keys = v ++ t :: r.
Proof.
  induction keys as [|k keys IH]; intros v t r H; cbn in H; [discriminate|].
  destruct ((k =? 77) || (k =? 109)).
  - inversion H; subst; reflexivity.
  - destruct (sgr_scan keys) as [[[v' t'] r']|]; [|discriminate].
    inversion H; subst. cbn. f_equal. apply IH; reflexivity.
Qed.

Lemma sgr_scan_term keys : forall v t r, sgr_scan keys = Some (v, t, r) -> t = 77 \/ t = 109.
Proof.
  induction keys as [|k keys IH]; intros v t r H; cbn in H; [discriminate|].
  destruct ((k =? 77) || (k =? 109)) eqn:E.
  - inversion H; subst. apply orb_true_iff in E. destruct E as [E|E]; apply Z.eqb_eq in E; auto.
  - destruct (sgr_scan keys) as [[[v' t'] r']|]; [|discriminate].
    inversion H; subst. eapply IH; reflexivity.
Qed.

Lemma read_mouse_info_suffix keys more ev rest :
  read_mouse_info keys more = OOk (Some (ev, rest)) -> is_suffix rest keys.
Proof.
  destruct keys as [|k0 [|k1 [|k2 r]]]; cbn; try (destruct more; discriminate).
  intros H; inversion H; subst. exists [k0; k1; k2]; reflexivity.
Qed.

Lemma read_sgrmouse_info_suffix keys more ev rest :
  read_sgrmouse_info keys more = OOk (Some (ev, rest)) -> is_suffix rest keys.
Proof.
  unfold read_sgrmouse_info. destruct keys as [|k keys]; [destruct more; discriminate|].
  destruct (sgr_scan (k :: keys)) as [[[v t] r]|] eqn:E; [|destruct more; discriminate].
  destruct (sgr_event v t) as [[ev'|]| |e]; try discriminate.
  intros H; inversion H; subst. exists (v ++ [t]). rewrite <- app_assoc. apply sgr_scan_split; exact E.
Qed.

Lemma get_recurse_suffix keys : forall root more ev rest,
  get_recurse root keys more = OOk (Some (ev, rest)) -> is_suffix rest keys.
Proof.
  induction keys as [|k keys IH]; intros root more ev rest; destruct root as [name|ch].
  - rewrite get_recurse_leaf. destruct (zs_eqb name str_mouse); [apply read_mouse_info_suffix|].
    destruct (zs_eqb name str_sgrmouse); [apply read_sgrmouse_info_suffix|].
    intros H; inversion H; subst. apply is_suffix_refl.
  - cbn. destruct more; discriminate.
  - rewrite get_recurse_leaf. destruct (zs_eqb name str_mouse); [apply read_mouse_info_suffix|].
    destruct (zs_eqb name str_sgrmouse); [apply read_sgrmouse_info_suffix|].
    intros H; inversion H; subst. apply is_suffix_refl.
  - rewrite get_recurse_node. destruct (assoc k ch); [|discriminate].
    intros H. apply is_suffix_cons. eapply IH; exact H.
Qed.

Lemma cpr_x_suffix keys : forall x v rest, cpr_x keys x = CXDone v rest -> is_suffix rest keys.
Proof.
  induction keys as [|k keys IH]; intros x v rest; cbn; [discriminate|].
  destruct (k =? 82).
  - destruct (x =? 0); [discriminate|]. intros H; inversion H; subst. exists [k]; reflexivity.
  - destruct ((k <? 48) || (57 <? k)); [discriminate|].
    destruct ((x =? 0) && (k =? 48)); [discriminate|].
    intros H. apply is_suffix_cons. eapply IH; exact H.
Qed.

Lemma cpr_y_suffix keys : forall y v rest, cpr_y keys y = CYBreak v rest -> is_suffix rest keys.
Proof.
  induction keys as [|k keys IH]; intros y v rest; cbn; [discriminate|].
  destruct (k =? 59).
  - destruct (y =? 0); [discriminate|]. intros H; inversion H; subst. exists [k]; reflexivity.
  - destruct ((k <? 48) || (57 <? k)); [discriminate|].
    destruct ((y =? 0) && (k =? 48)); [discriminate|].
    intros H. apply is_suffix_cons. eapply IH; exact H.
Qed.

Lemma is_suffix_trans a b c : is_suffix a b -> is_suffix b c -> is_suffix a c.
Proof. intros [p ->] [q ->]. exists (q ++ p). apply app_assoc. Qed.

Lemma read_cursor_position_suffix keys more ev rest :
  read_cursor_position keys more = OOk (Some (ev, rest)) -> is_suffix rest keys.
Proof.
  unfold read_cursor_position. destruct keys as [|k0 r]; [destruct more; discriminate|].
  destruct (negb (k0 =? 91)); [discriminate|].
  destruct (cpr_y r 0) as [|y r2|y] eqn:Ey; try (destruct more; discriminate).
  destruct r2 as [|k2 r2]; [destruct more; discriminate|].
  destruct (cpr_x (k2 :: r2) 0) as [|x rest'|] eqn:Ex; try (destruct more; discriminate).
  intros H; inversion H; subst. apply is_suffix_cons.
  eapply is_suffix_trans; [eapply cpr_x_suffix; exact Ex | eapply cpr_y_suffix; exact Ey].
Qed.

Lemma trie_get_in_suffix root keys more ev rest :
  trie_get_in root keys more = OOk (Some (ev, rest)) -> is_suffix rest keys.
Proof.
  unfold trie_get_in. destruct (get_recurse root keys more) as [[[ev' rest']|]| |e] eqn:E; try discriminate.
  - intros H; inversion H; subst. eapply get_recurse_suffix; exact E.
  - apply read_cursor_position_suffix.
Qed.

Lemma wide_step_progress em code tl more evs rest :
  wide_step em code tl more = Some (OOk (evs, rest)) -> evs <> [] /\ is_suffix rest tl.
Proof.
  unfold wide_step. destruct (enc_is_wide em && (code <? 256)); [|discriminate].
  destruct (within_double_byte [code] 0 0) as [r1|e]; [|discriminate].
  destruct (negb (r1 =? 0)); [|discriminate].
  destruct tl as [|k r]; [destruct more; discriminate|].
  destruct (k <? 256); [|discriminate].
  destruct (within_double_byte [code; k] 0 1) as [r2|e]; [|discriminate].
  destruct (negb (r2 =? 0)); [|discriminate].
  intros H; inversion H; subst. split; [discriminate|]. exists [k]; reflexivity.
Qed.

Lemma utf8_step_progress em code tl more evs rest :
  utf8_step em code tl more = Some (OOk (evs, rest)) -> evs <> [] /\ is_suffix rest tl.
Proof.
  unfold utf8_step. destruct (enc_is_utf8 em && (127 <? code) && (code <? 256)); [|discriminate].
  set (need := if Z.land code 224 =? 192 then Some 1%nat
               else if Z.land code 240 =? 224 then Some 2%nat
               else if Z.land code 248 =? 240 then Some 3%nat else None).
  destruct need as [n|].
  - destruct (utf8_check n tl).
    + destruct more; [discriminate|]. intros H; inversion H; subst. split; [discriminate|apply is_suffix_refl].
    + intros H; inversion H; subst. split; [discriminate|apply is_suffix_refl].
    + destruct (utf8_decode code n (firstn n tl)); intros H; inversion H; subst;
        (split; [discriminate|]); [apply is_suffix_skipn|apply is_suffix_refl].
  - intros H; inversion H; subst. split; [discriminate|apply is_suffix_refl].
Qed.

Lemma meta_wrap_ok run rest evs rest' :
  meta_wrap run rest = OOk (evs, rest') -> evs <> [] /\ rest' = rest.
Proof.
  unfold meta_wrap. destruct run as [|r0 rt]; [discriminate|].
  destruct r0; try (intros H; inversion H; subst; split; [discriminate|reflexivity]).
  destruct (zs_eqb name str_esc || contains_sub str_meta name); intros H; inversion H; subst;
    (split; [discriminate|reflexivity]).
Qed.

Lemma process_progress em c : forall more evs rest,
  process_keyqueue em c more = OOk (evs, rest) ->
  evs <> [] /\ exists p, p <> [] /\ c = p ++ rest.
Proof.
  induction c as [|code tl IH]; intros more evs rest; [cbn; discriminate|].
  assert (G : forall (evs : list event) (rest : list Z), evs <> [] /\ is_suffix rest tl ->
              evs <> [] /\ exists p, p <> [] /\ code :: tl = p ++ rest).
  { intros e r [He [p ->]]. split; [exact He|]. exists (code :: p). split; [discriminate|reflexivity]. }
  assert (S1 : forall ev, OOk ([ev], tl) = OOk (evs, rest) -> evs <> [] /\ exists p, p <> [] /\ code :: tl = p ++ rest).
  { intros ev H; inversion H; subst. apply G. split; [discriminate|apply is_suffix_refl]. }
  rewrite process_eq.
  destruct ((32 <=? code) && (code <=? 126)); [apply S1|].
  destruct (assoc code keyconv); [apply S1|].
  destruct ((0 <? code) && (code <? 27)); [apply S1|].
  destruct ((27 <? code) && (code <? 32)); [apply S1|].
  destruct (wide_step em code tl more) as [[[evs' rest']| |e]|] eqn:Ew.
  2: discriminate.
  2: discriminate.
  { intros H; inversion H; subst. apply G. eapply wide_step_progress; exact Ew. }
  destruct (utf8_step em code tl more) as [[[evs' rest']| |e]|] eqn:Eu.
  2: discriminate.
  2: discriminate.
  { intros H; inversion H; subst. apply G. eapply utf8_step_progress; exact Eu. }
  destruct ((127 <? code) && (code <? 256)); [apply S1|].
  destruct (negb (code =? 27)); [apply S1|].
  destruct (trie_get tl more) as [[[ev rest']|]| |e] eqn:Et.
  3: discriminate. 3: discriminate.
  { intros H; inversion H; subst. apply G. split; [discriminate|]. eapply trie_get_in_suffix; exact Et. }
  destruct tl as [|k tl']; [apply S1|].
  destruct (process_keyqueue em (k :: tl') more) as [[run rest']| |e] eqn:Ep.
  2: discriminate. 2: discriminate.
  intros H. apply meta_wrap_ok in H. destruct H as [He ->]. apply G. split; [exact He|].
  destruct (IH _ _ _ Ep) as [_ [p [_ Hp]]]. exists p; exact Hp.
Qed.

Lemma process_shorter em c more evs rest :
  process_keyqueue em c more = OOk (evs, rest) -> (length rest < length c)%nat.
Proof.
  intros H. destruct (process_progress _ _ _ _ _ H) as [_ [p [Hp ->]]].
  rewrite app_length. destruct p; [congruence|cbn; lia].
Qed.

(* ------------------------------------------------------------------ *)
(* the parse_input loop *)
Definition decode (em : encoding) (codes : list Z) (more : bool) : ploop :=
  parse_loop (length codes) em codes more [].

Definition padd (acc : list event) (r : ploop) : ploop :=
  match r with
  | PDone d => PDone (acc ++ d)
  | PMore d rest => PMore (acc ++ d) rest
  | PErr e => PErr e
  | PFuel => PFuel
  end.

Lemma padd_nil r : padd [] r = r.
Proof. destruct r; reflexivity. Qed.

Lemma padd_padd a b r : padd a (padd b r) = padd (a ++ b) r.
Proof. destruct r; cbn; rewrite ?app_assoc; reflexivity. Qed.

Lemma list_len_ind (P : list Z -> Prop) :
  (forall l, (forall l', (length l' < length l)%nat -> P l') -> P l) -> forall l, P l.
Proof.
  intros H l. assert (G : forall n l, (length l <= n)%nat -> P l).
  { induction n as [|n IH]; intros l0 Hl; apply H; intros l' Hl'; [lia|apply IH; lia]. }
  apply (G (length l)); lia.
Qed.

Lemma parse_loop_acc em more fuel : forall codes acc,
  parse_loop fuel em codes more acc = padd acc (parse_loop fuel em codes more []).
Proof.
  induction fuel as [|f IH]; intros codes acc; destruct codes as [|c tl]; cbn [parse_loop padd];
    rewrite ?app_nil_r; try reflexivity.
  destruct (process_keyqueue em (c :: tl) more) as [[run rest]| |e]; cbn [padd]; rewrite ?app_nil_r; try reflexivity.
  rewrite (IH rest (acc ++ run)), (IH rest ([] ++ run)). cbn [app]. rewrite padd_padd. reflexivity.
Qed.

Lemma parse_loop_fuel em more f1 : forall f2 codes acc,
  (length codes <= f1)%nat -> (length codes <= f2)%nat ->
  parse_loop f1 em codes more acc = parse_loop f2 em codes more acc.
Proof.
  induction f1 as [|f1 IH]; intros f2 codes acc H1 H2; destruct codes as [|c tl]; cbn in H1, H2;
    try (destruct f2; reflexivity); try lia.
  destruct f2 as [|f2]; [lia|]. cbn [parse_loop].
  destruct (process_keyqueue em (c :: tl) more) as [[run rest]| |e] eqn:E; try reflexivity.
  apply process_shorter in E. cbn in E. apply IH; lia.
Qed.

Lemma decode_nil em more : decode em [] more = PDone [].
Proof. reflexivity. Qed.

Lemma decode_cons em codes more : codes <> [] ->
  decode em codes more =
    match process_keyqueue em codes more with
    | OOk (run, rest) => padd run (decode em rest more)
    | OMore => PMore [] codes
    | OErr e => PErr e
    end.
Proof.
  intros Hne. destruct codes as [|c tl]; [congruence|].
  unfold decode. cbn [length parse_loop].
  destruct (process_keyqueue em (c :: tl) more) as [[run rest]| |e] eqn:E; try reflexivity.
  cbn [app]. rewrite parse_loop_acc. f_equal.
  apply process_shorter in E. cbn in E. apply parse_loop_fuel; lia.
Qed.

(* termination: the loop never runs out of its len(codes) iterations *)
Lemma decode_not_fuel em more : forall codes, decode em codes more <> PFuel.
Proof.
  apply (list_len_ind (fun codes => decode em codes more <> PFuel)). intros codes IH.
  destruct codes as [|c tl]; [rewrite decode_nil; discriminate|].
  rewrite decode_cons by discriminate.
  destruct (process_keyqueue em (c :: tl) more) as [[run rest]| |e] eqn:E; try discriminate.
  apply process_shorter in E. specialize (IH rest E).
  destruct (decode em rest more); cbn; congruence.
Qed.

(* left to right: the pending codes are a suffix of the input, and they are pending because
   process_keyqueue asked for more *)
Lemma decode_more em more : forall codes d rest,
  decode em codes more = PMore d rest ->
  is_suffix rest codes /\ rest <> [] /\ process_keyqueue em rest more = OMore.
Proof.
  apply (list_len_ind (fun codes => forall d rest, decode em codes more = PMore d rest ->
     is_suffix rest codes /\ rest <> [] /\ process_keyqueue em rest more = OMore)).
  intros codes IH d rest. destruct codes as [|c tl]; [rewrite decode_nil; discriminate|].
  rewrite decode_cons by discriminate.
  destruct (process_keyqueue em (c :: tl) more) as [[run rest']| |e] eqn:E; try discriminate.
  - intros H. pose proof (process_shorter _ _ _ _ _ E) as Hs.
    destruct (decode em rest' more) as [d'|d' r'| |] eqn:Ed; cbn in H; try discriminate.
    inversion H; subst. destruct (IH rest' Hs _ _ Ed) as [Hsuf [Hne Hm]].
    split; [|split; assumption].
    destruct (process_progress _ _ _ _ _ E) as [_ [p [_ Hp]]].
    eapply is_suffix_trans; [exact Hsuf|]. exists p; exact Hp.
  - intros H; inversion H; subst. split; [apply is_suffix_refl|]. split; [discriminate|exact E].
Qed.

Lemma decode_false_not_more em codes d rest : decode em codes false <> PMore d rest.
Proof.
  intros H. apply decode_more in H. destruct H as [_ [_ H]].
  exact (process_false_not_more _ _ H).
Qed.

(* the key lemma behind fragmentation invariance *)
Lemma decode_split em b : forall a,
  decode em (a ++ b) true =
    match decode em a true with
    | PDone d => padd d (decode em b true)
    | PMore d p => padd d (decode em (p ++ b) true)
    | PErr e => PErr e
    | PFuel => PFuel
    end.
Proof.
  apply (list_len_ind (fun a => decode em (a ++ b) true =
    match decode em a true with
    | PDone d => padd d (decode em b true)
    | PMore d p => padd d (decode em (p ++ b) true)
    | PErr e => PErr e
    | PFuel => PFuel
    end)).
  intros a IH. destruct a as [|c tl]; [rewrite decode_nil, padd_nil; reflexivity|].
  rewrite (decode_cons em (c :: tl)) by discriminate.
  pose proof (process_ext em (c :: tl) b ltac:(discriminate)) as Hx.
  destruct (process_keyqueue em (c :: tl) true) as [[run rest]| |e] eqn:E; cbn [ext_res] in Hx.
  - rewrite (decode_cons em ((c :: tl) ++ b)) by discriminate. rewrite Hx.
    rewrite (IH rest (process_shorter _ _ _ _ _ E)).
    destruct (decode em rest true); cbn [padd]; rewrite ?padd_padd; reflexivity.
  - cbn [padd app]. rewrite padd_nil. reflexivity.
  - rewrite (decode_cons em ((c :: tl) ++ b)) by discriminate. rewrite Hx. reflexivity.
Qed.

(* ------------------------------------------------------------------ *)
(* Screen.parse_input and the Feed/Timeout machine *)
Definition keys_of (cs : list call) : list event := concat (map c_keys cs).
Definition raw_of (cs : list call) : list Z := concat (map c_raw cs).
Definition feed_bytes (o : op) : list Z := match o with Feed bs => bs | Timeout => [] end.

Lemma parse_input_spec em codes more :
  parse_input em codes more =
    match decode em codes more with
    | PDone d => Ok (mkcall d codes, [])
    | PMore d rest => Ok (mkcall d (firstn (length codes - length rest) codes), rest)
    | PErr e => Err e
    | PFuel => Err RuntimeErrorK
    end.
Proof. reflexivity. Qed.

Lemma firstn_suffix (p rest : list Z) : firstn (length (p ++ rest) - length rest) (p ++ rest) = p.
Proof.
  rewrite app_length. replace (length p + length rest - length rest)%nat with (length p) by lia.
  rewrite firstn_app, Nat.sub_diag, firstn_all. cbn. apply app_nil_r.
Qed.

Lemma parse_input_raw em codes more c p :
  parse_input em codes more = Ok (c, p) -> c_raw c ++ p = codes.
Proof.
  rewrite parse_input_spec. destruct (decode em codes more) as [d|d rest| |] eqn:E; try discriminate.
  - intros H; inversion H; subst. cbn. apply app_nil_r.
  - intros H; inversion H; subst. cbn.
    destruct (decode_more _ _ _ _ _ E) as [[q ->] _]. rewrite firstn_suffix. reflexivity.
Qed.

Definition pending_ok (em : encoding) (st : list Z) : Prop :=
  st = [] \/ process_keyqueue em st true = OMore.

Lemma decode_pending em st : pending_ok em st ->
  decode em st true = match st with [] => PDone [] | _ => PMore [] st end.
Proof.
  intros [->|H]; [reflexivity|]. destruct st as [|c tl]; [reflexivity|].
  rewrite decode_cons by discriminate. rewrite H. reflexivity.
Qed.

Lemma run_cons em st o ops :
  run em st (o :: ops) =
    match step em st o with
    | Err e => ([], [], Some e)
    | Ok (cs, st') => let '(cs', st'', e) := run em st' ops in (cs ++ cs', st'', e)
    end.
Proof. reflexivity. Qed.

Lemma step_feed em st bs :
  step em st (Feed bs) =
    match decode em (st ++ bs) true with
    | PDone d => Ok ([mkcall d (st ++ bs)], [])
    | PMore d rest => Ok ([mkcall d (firstn (length (st ++ bs) - length rest) (st ++ bs))], rest)
    | PErr e => Err e
    | PFuel => Err RuntimeErrorK
    end.
Proof.
  cbn [step]. rewrite parse_input_spec. destruct (decode em (st ++ bs) true); reflexivity.
Qed.

(* every cutting of the bytes into successive reads, described against one decode of the whole *)
Lemma feeds_against_whole em : forall pieces st, pending_ok em st ->
  match decode em (st ++ concat pieces) true with
  | PDone d => exists calls, run em st (map Feed pieces) = (calls, [], None) /\
                 keys_of calls = d /\ raw_of calls = st ++ concat pieces
  | PMore d r => exists calls, run em st (map Feed pieces) = (calls, r, None) /\
                 keys_of calls = d /\ raw_of calls ++ r = st ++ concat pieces
  | PErr _ => True
  | PFuel => True
  end.
Proof.
  induction pieces as [|b bs IH]; intros st Hst.
  - cbn [concat map]. rewrite app_nil_r, (decode_pending _ _ Hst).
    destruct st as [|c tl]; exists []; cbn; auto.
  - cbn [concat map]. rewrite app_assoc, decode_split, run_cons, step_feed.
    destruct (decode em (st ++ b) true) as [d1|d1 p1| |] eqn:E1; auto.
    + specialize (IH [] (or_introl eq_refl)). cbn [app] in IH.
      destruct (decode em (concat bs) true) as [d2|d2 r2| |]; cbn [padd]; auto.
      * destruct IH as [calls [Hr [Hk Hw]]]. rewrite Hr.
        eexists; split; [reflexivity|]. unfold keys_of, raw_of in *. cbn [map concat c_keys c_raw app].
        rewrite Hk, Hw. split; reflexivity.
      * destruct IH as [calls [Hr [Hk Hw]]]. rewrite Hr.
        eexists; split; [reflexivity|]. unfold keys_of, raw_of in *. cbn [map concat c_keys c_raw app].
        rewrite Hk. split; [reflexivity|]. rewrite <- app_assoc, Hw. reflexivity.
    + destruct (decode_more _ _ _ _ _ E1) as [[q Hq] [Hne Hm]].
      specialize (IH p1 (or_intror Hm)).
      rewrite Hq, firstn_suffix.
      destruct (decode em (p1 ++ concat bs) true) as [d2|d2 r2| |]; cbn [padd]; auto.
      * destruct IH as [calls [Hr [Hk Hw]]]. rewrite Hr.
        eexists; split; [reflexivity|]. unfold keys_of, raw_of in *. cbn [map concat c_keys c_raw app].
        rewrite Hk, Hw. split; [reflexivity|]. rewrite app_assoc. reflexivity.
      * destruct IH as [calls [Hr [Hk Hw]]]. rewrite Hr.
        eexists; split; [reflexivity|]. unfold keys_of, raw_of in *. cbn [map concat c_keys c_raw app].
        rewrite Hk. split; [reflexivity|]. rewrite <- !app_assoc, Hw. reflexivity.
Qed.

Lemma run_single em st w :
  run em st [Feed w] =
    match decode em (st ++ w) true with
    | PDone d => ([mkcall d (st ++ w)], [], None)
    | PMore d r => ([mkcall d (firstn (length (st ++ w) - length r) (st ++ w))], r, None)
    | PErr e => ([], [], Some e)
    | PFuel => ([], [], Some RuntimeErrorK)
    end.
Proof.
  rewrite run_cons, step_feed. destruct (decode em (st ++ w) true); cbn; rewrite ?app_nil_r; reflexivity.
Qed.

Lemma fragmentation_from_pending em pieces st calls_w p :
  pending_ok em st ->
  run em st [Feed (concat pieces)] = (calls_w, p, None) ->
  exists calls, run em st (map Feed pieces) = (calls, p, None) /\
    keys_of calls = keys_of calls_w /\ raw_of calls = raw_of calls_w.
Proof.
  intros Hst. rewrite run_single. pose proof (feeds_against_whole em pieces st Hst) as H.
  destruct (decode em (st ++ concat pieces) true) as [d|d r| |] eqn:E; intros Hw; inversion Hw; subst.
  - destruct H as [calls [Hr [Hk Hraw]]]. exists calls. split; [exact Hr|].
    unfold keys_of, raw_of in *. cbn. rewrite !app_nil_r. auto.
  - destruct H as [calls [Hr [Hk Hraw]]]. exists calls. split; [exact Hr|].
    unfold keys_of, raw_of in *. cbn. rewrite !app_nil_r. split; [exact Hk|].
    destruct (decode_more _ _ _ _ _ E) as [[q Hq] _]. rewrite Hq, firstn_suffix.
    rewrite Hq in Hraw. apply app_inv_tail in Hraw. exact Hraw.
Qed.

Lemma run_app em : forall ops1 ops2 st cs1 st1,
  run em st ops1 = (cs1, st1, None) ->
  run em st (ops1 ++ ops2) = let '(cs2, st2, e) := run em st1 ops2 in (cs1 ++ cs2, st2, e).
Proof.
  induction ops1 as [|o ops1 IH]; intros ops2 st cs1 st1 H.
  - cbn in H. inversion H; subst. cbn. destruct (run em st1 ops2) as [[a b] c]. reflexivity.
  - cbn [app]. rewrite run_cons in *. destruct (step em st o) as [[cs st']|e]; [|discriminate].
    destruct (run em st' ops1) as [[cs' st''] e'] eqn:E. inversion H; subst.
    rewrite (IH ops2 _ _ _ E). destruct (run em st1 ops2) as [[a b] c]. rewrite app_assoc. reflexivity.
Qed.

Lemma keys_of_app a b : keys_of (a ++ b) = keys_of a ++ keys_of b.
Proof. unfold keys_of. rewrite map_app, concat_app. reflexivity. Qed.
Lemma raw_of_app a b : raw_of (a ++ b) = raw_of a ++ raw_of b.
Proof. unfold raw_of. rewrite map_app, concat_app. reflexivity. Qed.

(* ... and whatever the event loop does afterwards (more reads, the alarm) sees the same thing *)
Lemma fragmentation_then em pieces later calls_w p :
  run em [] (Feed (concat pieces) :: later) = (calls_w, p, None) ->
  exists calls, run em [] (map Feed pieces ++ later) = (calls, p, None) /\
    keys_of calls = keys_of calls_w /\ raw_of calls = raw_of calls_w.
Proof.
  intros H. change (Feed (concat pieces) :: later) with ([Feed (concat pieces)] ++ later) in H.
  destruct (run em [] [Feed (concat pieces)]) as [[c1 p1] e1] eqn:E1.
  destruct e1 as [err|].
  - exfalso. rewrite run_single in E1. cbn [app] in H.
    rewrite run_cons, step_feed in H.
    destruct (decode em ([] ++ concat pieces) true); try discriminate; inversion E1.
  - destruct (fragmentation_from_pending em pieces [] c1 p1 (or_introl eq_refl) E1) as [calls1 [Hr [Hk Hraw]]].
    rewrite (run_app em _ later _ _ _ E1) in H. rewrite (run_app em _ later _ _ _ Hr).
    destruct (run em p1 later) as [[cs2 st2] e2]. inversion H; subst.
    eexists; split; [reflexivity|]. rewrite !keys_of_app, !raw_of_app, Hk, Hraw. auto.
Qed.

(* the completion alarm: exactly the pending codes, decoded with more_available = False,
   and nothing is left pending *)
Lemma timeout_step em st : st <> [] ->
  match decode em st false with
  | PDone d => step em st Timeout = Ok ([mkcall d st], [])
  | PErr e => step em st Timeout = Err e
  | PMore _ _ => False
  | PFuel => False
  end.
Proof.
  intros Hne. destruct st as [|c tl]; [congruence|]. cbn [step]. rewrite parse_input_spec.
  destruct (decode em (c :: tl) false) as [d|d r| |] eqn:E; try reflexivity.
  - exact (decode_false_not_more _ _ _ _ E).
  - exact (decode_not_fuel _ _ _ E).
Qed.

Lemma step_conserves em st o cs st' :
  step em st o = Ok (cs, st') -> raw_of cs ++ st' = st ++ feed_bytes o.
Proof.
  destruct o as [bs|]; cbn [step feed_bytes].
  - destruct (parse_input em (st ++ bs) true) as [[c p]|e] eqn:E; cbn; [|discriminate].
    intros H; inversion H; subst. unfold raw_of; cbn. rewrite app_nil_r. eapply parse_input_raw; exact E.
  - destruct st as [|c0 tl]; [intros H; inversion H; reflexivity|].
    destruct (parse_input em (c0 :: tl) false) as [[c p]|e] eqn:E; cbn; [|discriminate].
    intros H; inversion H; subst. unfold raw_of; cbn. rewrite !app_nil_r. eapply parse_input_raw; exact E.
Qed.

(* over any schedule of reads and alarms: the raw codes handed to the callback, in order, followed
   by what is still pending, are exactly the bytes read *)
Lemma run_conserves em : forall ops st calls p,
  run em st ops = (calls, p, None) -> raw_of calls ++ p = st ++ concat (map feed_bytes ops).
Proof.
  induction ops as [|o ops IH]; intros st calls p H.
  - cbn in H. inversion H; subst. cbn. rewrite app_nil_r. reflexivity.
  - rewrite run_cons in H. destruct (step em st o) as [[cs st']|e] eqn:E; [|discriminate].
    destruct (run em st' ops) as [[cs' st''] e'] eqn:E'. inversion H; subst.
    rewrite raw_of_app, <- app_assoc, (IH _ _ _ E'). cbn [map concat].
    rewrite !app_assoc. f_equal. eapply step_conserves; exact E.
Qed.

(* ------------------------------------------------------------------ *)
(* documented names: every table entry decodes to its name, whatever follows *)
Lemma zs_eqb_eq a : forall b, zs_eqb a b = true -> a = b.
Proof.
  induction a as [|x a IH]; intros [|y b] H; cbn in H; try discriminate; [reflexivity|].
  apply andb_true_iff in H. destruct H as [H1 H2]. apply Z.eqb_eq in H1. subst. f_equal. apply IH; exact H2.
Qed.

Definition check_key (o : outcome res) (name : list Z) : bool :=
  match o with
  | OOk ([Key n], []) => zs_eqb n name
  | _ => false
  end.

Definition entry_ok (em : encoding) (e : list Z * list Z) : bool :=
  let '(s, name) := e in
  if zs_eqb name str_mouse || zs_eqb name str_sgrmouse then true
  else check_key (process_keyqueue em (27 :: s) true) name.

Lemma table_ok : forall em, forallb (entry_ok em) input_sequences = true.
Proof. intros []; vm_compute; reflexivity. Qed.

Lemma check_key_eq o name : check_key o name = true -> o = OOk ([Key name], []).
Proof.
  unfold check_key. destruct o as [[evs rest]| |e]; try discriminate.
  destruct evs as [|[n| | |] [|? ?]]; try discriminate. destruct rest; try discriminate.
  intros H. apply zs_eqb_eq in H. subst. reflexivity.
Qed.

Lemma table_entries_decode_proof em s name rest more :
  In (s, name) input_sequences ->
  zs_eqb name str_mouse = false -> zs_eqb name str_sgrmouse = false ->
  process_keyqueue em (27 :: s ++ rest) more = OOk ([Key name], rest).
Proof.
  intros Hin Hm Hs. pose proof (table_ok em) as H. rewrite forallb_forall in H. specialize (H _ Hin).
  cbn [entry_ok] in H. rewrite Hm, Hs in H. cbn [orb] in H. apply check_key_eq in H.
  pose proof (process_ext em (27 :: s) rest ltac:(discriminate)) as Hx. rewrite H in Hx. cbn [ext_res app] in Hx.
  destruct more; [exact Hx|].
  pose proof (process_flag em (27 :: s ++ rest)) as Hf. rewrite Hx in Hf. exact Hf.
Qed.

(* ------------------------------------------------------------------ *)
(* ESC: the dispatch reaches the trie *)
Lemma keyconv_esc : assoc 27 keyconv = None.
Proof. vm_compute. reflexivity. Qed.

Lemma process_esc em tl more :
  process_keyqueue em (27 :: tl) more =
    match trie_get tl more with
    | OMore => OMore
    | OErr e => OErr e
    | OOk (Some (ev, rest)) => OOk ([ev], rest)
    | OOk None =>
        match tl with
        | [] => OOk ([Key str_esc], tl)
        | _ :: _ =>
            match process_keyqueue em tl more with
            | OOk (run, rest) => meta_wrap run rest
            | OMore => OMore
            | OErr e => OErr e
            end
        end
    end.
Proof.
  rewrite process_eq, keyconv_esc.
  assert (Ew : wide_step em 27 tl more = None).
  { destruct em; reflexivity. }
  assert (Eu : utf8_step em 27 tl more = None).
  { unfold utf8_step.
    assert (E : enc_is_utf8 em && (127 <? 27) && (27 <? 256) = false) by (destruct em; vm_compute; reflexivity).
    rewrite E. reflexivity. }
  rewrite Ew, Eu. reflexivity.
Qed.

Definition sub_trie (t : trie) (k : Z) : option trie :=
  match t with TNode ch => assoc k ch | TLeaf _ => None end.

Lemma get_recurse_sub t k t' keys more :
  sub_trie t k = Some t' -> get_recurse t (k :: keys) more = get_recurse t' keys more.
Proof. destruct t as [n|ch]; cbn [sub_trie]; [discriminate|]. intros H. rewrite get_recurse_node, H. reflexivity. Qed.

Lemma input_trie_mouse :
  match sub_trie input_trie 91 with Some t => sub_trie t 77 | None => None end = Some (TLeaf str_mouse).
Proof. vm_compute. reflexivity. Qed.

Lemma trie_get_mouse keys more :
  trie_get (91 :: 77 :: keys) more =
    match read_mouse_info keys more with
    | OOk None => read_cursor_position (91 :: 77 :: keys) more
    | o => o
    end.
Proof.
  unfold trie_get, trie_get_in. pose proof input_trie_mouse as H.
  destruct (sub_trie input_trie 91) as [t|] eqn:E1; [|discriminate].
  rewrite (get_recurse_sub _ _ _ _ _ E1), (get_recurse_sub _ _ _ _ _ H), get_recurse_leaf.
  change (zs_eqb str_mouse str_mouse) with true. cbn iota.
  destruct (read_mouse_info keys more) as [[[ev rest]|]| |e]; reflexivity.
Qed.

(* X10 mouse report: one event, coordinates byte - 33, nothing after it is touched *)
Lemma x10_mouse_decodes_proof em b x y rest more :
  process_keyqueue em (27 :: 91 :: 77 :: b :: x :: y :: rest) more = OOk ([x10_event b x y], rest).
Proof. rewrite process_esc, trie_get_mouse. reflexivity. Qed.

Lemma x10_event_coords b x y :
  exists name button, x10_event b x y = Mouse name button ((x - 33) mod 256) ((y - 33) mod 256).
Proof. unfold x10_event. break_match; eexists; eexists; reflexivity. Qed.

(* cursor position report, in terms of the digit strings *)
Definition digits_val (ds : list Z) : Z := fold_left (fun acc k => acc * 10 + k - 48) ds 0.
Definition is_digit (k : Z) : bool := (48 <=? k) && (k <=? 57).
(* a decimal numeral without a leading zero *)
Definition numeral (ds : list Z) : bool :=
  match ds with
  | [] => false
  | d :: _ => forallb is_digit ds && negb (d =? 48)
  end.

Lemma is_digit_range k : is_digit k = true -> 48 <= k <= 57.
Proof. unfold is_digit. intros H. apply andb_true_iff in H. destruct H as [H1 H2]. apply Z.leb_le in H1, H2. lia. Qed.

Lemma cpr_y_digits r : forall ds acc, forallb is_digit ds = true -> 0 < acc ->
  cpr_y (ds ++ 59 :: r) acc = CYBreak (fold_left (fun a k => a * 10 + k - 48) ds acc) r.
Proof.
  induction ds as [|d ds IH]; intros acc Hd Hacc; cbn [app cpr_y fold_left].
  - change (59 =? 59) with true. cbn iota. destruct (acc =? 0) eqn:E; [apply Z.eqb_eq in E; lia|reflexivity].
  - cbn [forallb] in Hd. apply andb_true_iff in Hd. destruct Hd as [Hd1 Hd2]. apply is_digit_range in Hd1.
    destruct (d =? 59) eqn:E1; [apply Z.eqb_eq in E1; lia|].
    destruct ((d <? 48) || (57 <? d)) eqn:E2.
    { apply orb_true_iff in E2. destruct E2 as [E2|E2]; apply Z.ltb_lt in E2; lia. }
    destruct ((acc =? 0) && (d =? 48)) eqn:E3.
    { apply andb_true_iff in E3. destruct E3 as [E3 _]. apply Z.eqb_eq in E3. lia. }
    apply IH; [exact Hd2|lia].
Qed.

Lemma cpr_x_digits r : forall ds acc, forallb is_digit ds = true -> 0 < acc ->
  cpr_x (ds ++ 82 :: r) acc = CXDone (fold_left (fun a k => a * 10 + k - 48) ds acc) r.
Proof.
  induction ds as [|d ds IH]; intros acc Hd Hacc; cbn [app cpr_x fold_left].
  - change (82 =? 82) with true. cbn iota. destruct (acc =? 0) eqn:E; [apply Z.eqb_eq in E; lia|reflexivity].
  - cbn [forallb] in Hd. apply andb_true_iff in Hd. destruct Hd as [Hd1 Hd2]. apply is_digit_range in Hd1.
    destruct (d =? 82) eqn:E1; [apply Z.eqb_eq in E1; lia|].
    destruct ((d <? 48) || (57 <? d)) eqn:E2.
    { apply orb_true_iff in E2. destruct E2 as [E2|E2]; apply Z.ltb_lt in E2; lia. }
    destruct ((acc =? 0) && (d =? 48)) eqn:E3.
    { apply andb_true_iff in E3. destruct E3 as [E3 _]. apply Z.eqb_eq in E3. lia. }
    apply IH; [exact Hd2|lia].
Qed.

Lemma numeral_first ds : numeral ds = true ->
  exists d ds', ds = d :: ds' /\ 49 <= d <= 57 /\ forallb is_digit ds' = true.
Proof.
  destruct ds as [|d ds']; cbn [numeral]; [discriminate|]. intros H.
  apply andb_true_iff in H. destruct H as [H1 H2]. cbn [forallb] in H1.
  apply andb_true_iff in H1. destruct H1 as [H1 H3]. apply is_digit_range in H1.
  apply negb_true_iff, Z.eqb_neq in H2. exists d, ds'. repeat split; try lia; exact H3.
Qed.

Lemma cpr_y_numeral ds r : numeral ds = true -> cpr_y (ds ++ 59 :: r) 0 = CYBreak (digits_val ds) r.
Proof.
  intros H. destruct (numeral_first _ H) as [d [ds' [-> [Hd Hds]]]].
  unfold digits_val. cbn [app cpr_y fold_left].
  destruct (d =? 59) eqn:E1; [apply Z.eqb_eq in E1; lia|].
  destruct ((d <? 48) || (57 <? d)) eqn:E2.
  { apply orb_true_iff in E2. destruct E2 as [E2|E2]; apply Z.ltb_lt in E2; lia. }
  destruct ((0 =? 0) && (d =? 48)) eqn:E3.
  { apply andb_true_iff in E3. destruct E3 as [_ E3]. apply Z.eqb_eq in E3. lia. }
  apply cpr_y_digits; [exact Hds|lia].
Qed.

Lemma cpr_x_numeral ds r : numeral ds = true -> cpr_x (ds ++ 82 :: r) 0 = CXDone (digits_val ds) r.
Proof.
  intros H. destruct (numeral_first _ H) as [d [ds' [-> [Hd Hds]]]].
  unfold digits_val. cbn [app cpr_x fold_left].
  destruct (d =? 82) eqn:E1; [apply Z.eqb_eq in E1; lia|].
  destruct ((d <? 48) || (57 <? d)) eqn:E2.
  { apply orb_true_iff in E2. destruct E2 as [E2|E2]; apply Z.ltb_lt in E2; lia. }
  destruct ((0 =? 0) && (d =? 48)) eqn:E3.
  { apply andb_true_iff in E3. destruct E3 as [_ E3]. apply Z.eqb_eq in E3. lia. }
  apply cpr_x_digits; [exact Hds|lia].
Qed.

(* ESC [ y ; x R with decimal numerals y, x (no leading zero), when no table entry matches
   (ESC [ 1 ; n R, n <= 8, is "modified F3" in the table) *)
Lemma cursor_position_decodes_proof em ys xs rest more :
  numeral ys = true -> numeral xs = true ->
  get_recurse input_trie (91 :: ys ++ 59 :: xs ++ 82 :: rest) more = OOk None ->
  process_keyqueue em (27 :: 91 :: ys ++ 59 :: xs ++ 82 :: rest) more
    = OOk ([CursorPos (digits_val xs - 1) (digits_val ys - 1)], rest).
Proof.
  intros Hy Hx Ht. rewrite process_esc. unfold trie_get, trie_get_in. rewrite Ht.
  cbn [read_cursor_position]. change (negb (91 =? 91)) with false. cbn iota.
  rewrite (cpr_y_numeral _ _ Hy).
  destruct (numeral_first _ Hx) as [d [xs' [Ex _]]].
  destruct (xs ++ 82 :: rest) as [|k2 r2] eqn:E; [subst xs; discriminate E|].
  rewrite <- E. rewrite (cpr_x_numeral _ _ Hx). reflexivity.
Qed.

(* ------------------------------------------------------------------ *)
(* unknown bytes pass through *)
Lemma byte_forall (f : Z -> bool) :
  forallb (fun n => f (Z.of_nat n)) (seq 0 256) = true -> forall b, 0 <= b < 256 -> f b = true.
Proof.
  intros H b Hb. rewrite forallb_forall in H. specialize (H (Z.to_nat b)).
  rewrite Z2Nat.id in H by lia. apply H. apply in_seq. lia.
Qed.

Definition passthrough_byte (em : encoding) (b : Z) : bool :=
  (0 <=? b) && (b <? 256) && negb (b =? 27) &&
  match em with
  | Utf8 => (b <? 192) || (248 <=? b)
  | Wide => b <? 128
  | Narrow => true
  end.

Lemma utf8_no_lead : forall b, 0 <= b < 256 ->
  implb ((b <? 192) || (248 <=? b))
        (negb (Z.land b 224 =? 192) && negb (Z.land b 240 =? 224) && negb (Z.land b 248 =? 240)) = true.
Proof. apply byte_forall. vm_compute. reflexivity. Qed.

Lemma wdb_low : forall b, 0 <= b < 256 ->
  implb (b <? 128) (match within_double_byte [b] 0 0 with Ok r => r =? 0 | Err _ => false end) = true.
Proof. apply byte_forall. vm_compute. reflexivity. Qed.

Lemma unknown_bytes_pass_through_proof em b tl more :
  passthrough_byte em b = true -> exists ev, process_keyqueue em (b :: tl) more = OOk ([ev], tl).
Proof.
  unfold passthrough_byte. intros H.
  apply andb_true_iff in H. destruct H as [H Hem].
  apply andb_true_iff in H. destruct H as [H Hesc].
  apply andb_true_iff in H. destruct H as [H0 H1]. apply Z.leb_le in H0. apply Z.ltb_lt in H1.
  rewrite process_eq.
  destruct ((32 <=? b) && (b <=? 126)); [eexists; reflexivity|].
  destruct (assoc b keyconv); [eexists; reflexivity|].
  destruct ((0 <? b) && (b <? 27)); [eexists; reflexivity|].
  destruct ((27 <? b) && (b <? 32)); [eexists; reflexivity|].
  assert (Ew : wide_step em b tl more = None).
  { unfold wide_step. destruct em; try reflexivity. cbn [enc_is_wide andb].
    pose proof (wdb_low b (conj H0 H1)) as Hw. rewrite Hem in Hw. cbn [implb] in Hw.
    destruct (b <? 256); [|reflexivity].
    destruct (within_double_byte [b] 0 0) as [r1|e1]; [|discriminate Hw].
    rewrite Hw. reflexivity. }
  rewrite Ew.
  destruct em.
  - (* utf8 *)
    unfold utf8_step. cbn [enc_is_utf8 andb].
    destruct ((127 <? b) && (b <? 256)) eqn:E.
    + pose proof (utf8_no_lead b (conj H0 H1)) as Hn. rewrite Hem in Hn. cbn [implb] in Hn.
      apply andb_true_iff in Hn. destruct Hn as [Hn Hn3]. apply andb_true_iff in Hn. destruct Hn as [Hn1 Hn2].
      apply negb_true_iff in Hn1, Hn2, Hn3. rewrite Hn1, Hn2, Hn3. eexists; reflexivity.
    + rewrite Hesc. eexists; reflexivity.
  - unfold utf8_step. cbn [enc_is_utf8 andb].
    destruct ((127 <? b) && (b <? 256)); [eexists; reflexivity|]. rewrite Hesc. eexists; reflexivity.
  - unfold utf8_step. cbn [enc_is_utf8 andb].
    destruct ((127 <? b) && (b <? 256)); [eexists; reflexivity|]. rewrite Hesc. eexists; reflexivity.
Qed.

(* a run of unknown bytes in front of anything: one event each, then what follows decodes as it would alone *)
Lemma unknown_prefix_proof em more s : forall g, forallb (passthrough_byte em) g = true ->
  exists evs, length evs = length g /\ decode em (g ++ s) more = padd evs (decode em s more).
Proof.
  induction g as [|b g IH]; intros H.
  - exists []. split; [reflexivity|]. rewrite padd_nil. reflexivity.
  - cbn [forallb] in H. apply andb_true_iff in H. destruct H as [Hb Hg].
    destruct (IH Hg) as [evs [Hl Hd]].
    destruct (unknown_bytes_pass_through_proof em b (g ++ s) more Hb) as [ev Hev].
    exists (ev :: evs). split; [cbn; lia|].
    cbn [app]. rewrite decode_cons by discriminate. rewrite Hev, Hd, padd_padd. reflexivity.
Qed.

(* ------------------------------------------------------------------ *)
(* exceptions *)
Definition is_byte (b : Z) : Prop := 0 <= b < 256.

Lemma sgr_event_no_err body t e : t = 77 \/ t = 109 -> sgr_event body t <> OErr e.
Proof.
  intros Ht. unfold sgr_event.
  destruct (map py_int (split_on 59 body)) as [|[b|] [|[x|] [|[y|] [|? ?]]]]; try discriminate.
  destruct Ht as [->| ->].
  - change (77 =? 77) with true. discriminate.
  - change (109 =? 77) with false. change (109 =? 109) with true. discriminate.
Qed.

Lemma read_sgrmouse_info_no_err keys more e : read_sgrmouse_info keys more <> OErr e.
Proof.
  unfold read_sgrmouse_info. destruct keys as [|k keys]; [destruct more; discriminate|].
  destruct (sgr_scan (k :: keys)) as [[[v t] r]|] eqn:E; [|destruct more; discriminate].
  pose proof (sgr_event_no_err v t e (sgr_scan_term _ _ _ _ E)) as Hn.
  destruct (sgr_event v t) as [[ev|]| |e']; try discriminate. congruence.
Qed.

Lemma read_mouse_info_no_err keys more e : read_mouse_info keys more <> OErr e.
Proof. destruct keys as [|k0 [|k1 [|k2 r]]]; cbn [read_mouse_info]; destruct more; discriminate. Qed.

Lemma get_recurse_no_err keys : forall root more e, get_recurse root keys more <> OErr e.
Proof.
  induction keys as [|k keys IH]; intros root more e; destruct root as [name|ch].
  - rewrite get_recurse_leaf. destruct (zs_eqb name str_mouse); [apply read_mouse_info_no_err|].
    destruct (zs_eqb name str_sgrmouse); [apply read_sgrmouse_info_no_err|discriminate].
  - cbn. destruct more; discriminate.
  - rewrite get_recurse_leaf. destruct (zs_eqb name str_mouse); [apply read_mouse_info_no_err|].
    destruct (zs_eqb name str_sgrmouse); [apply read_sgrmouse_info_no_err|discriminate].
  - rewrite get_recurse_node. destruct (assoc k ch); [apply IH|discriminate].
Qed.

Lemma read_cursor_position_no_err keys more e : read_cursor_position keys more <> OErr e.
Proof.
  unfold read_cursor_position. destruct keys as [|k0 r]; [destruct more; discriminate|].
  destruct (negb (k0 =? 91)); [discriminate|].
  destruct (cpr_y r 0) as [|y r2|y]; try (destruct more; discriminate); try discriminate.
  destruct r2 as [|k2 r2]; [destruct more; discriminate|].
  destruct (cpr_x (k2 :: r2) 0) as [|x rest|]; try (destruct more; discriminate); discriminate.
Qed.

(* the trie never raises *)
Lemma trie_get_no_err keys more e : trie_get keys more <> OErr e.
Proof.
  unfold trie_get, trie_get_in. pose proof (get_recurse_no_err keys input_trie more e) as H.
  destruct (get_recurse input_trie keys more) as [[[ev rest]|]| |e'].
  - discriminate.
  - apply read_cursor_position_no_err.
  - discriminate.
  - congruence.
Qed.

(* the translated within_double_byte on the one- and two-byte strings process_keyqueue hands it:
   its value for every pair of bytes, by computation over all 65536 pairs *)
Definition wdb1_spec (a : Z) : Z := if 128 <=? a then 1 else 0.
Definition wdb2_spec (a b : Z) : Z :=
  if (64 <=? b) && (b <? 127) then (if 129 <=? a then 2 else 0)
  else if b <? 128 then 0
  else if 128 <=? a then 2 else 1.
Definition res_is (r : result Z) (v : Z) : bool := match r with Ok x => x =? v | Err _ => false end.
Definition wdb_chk (a b : Z) : bool :=
  res_is (within_double_byte [a] 0 0) (wdb1_spec a) && res_is (within_double_byte [a; b] 0 1) (wdb2_spec a b).

Lemma byte_forall2 (f : Z -> Z -> bool) :
  forallb (fun n => forallb (fun m => f (Z.of_nat n) (Z.of_nat m)) (seq 0 256)) (seq 0 256) = true ->
  forall a b, 0 <= a < 256 -> 0 <= b < 256 -> f a b = true.
Proof.
  intros H a b Ha Hb.
  pose proof (byte_forall (fun a => forallb (fun m => f a (Z.of_nat m)) (seq 0 256)) H a Ha) as H1.
  cbv beta in H1. exact (byte_forall (fun b => f a b) H1 b Hb).
Qed.

Lemma wdb_table : forall a b, 0 <= a < 256 -> 0 <= b < 256 -> wdb_chk a b = true.
Proof. apply byte_forall2. vm_compute. reflexivity. Qed.

Lemma res_is_eq r v : res_is r v = true -> r = Ok v.
Proof. destruct r as [x|e]; cbn; [|discriminate]. intros H. apply Z.eqb_eq in H. subst. reflexivity. Qed.

Lemma wdb1_value a : 0 <= a < 256 -> within_double_byte [a] 0 0 = Ok (wdb1_spec a).
Proof.
  intros Ha. pose proof (wdb_table a 0 Ha ltac:(lia)) as H. unfold wdb_chk in H.
  apply andb_true_iff in H. destruct H as [H _]. apply res_is_eq; exact H.
Qed.

Lemma wdb2_value a b : 0 <= a < 256 -> 0 <= b < 256 -> within_double_byte [a; b] 0 1 = Ok (wdb2_spec a b).
Proof.
  intros Ha Hb. pose proof (wdb_table a b Ha Hb) as H. unfold wdb_chk in H.
  apply andb_true_iff in H. destruct H as [_ H]. apply res_is_eq; exact H.
Qed.

Lemma wide_step_no_err em code tl more e :
  is_byte code -> Forall is_byte tl -> wide_step em code tl more <> Some (OErr e).
Proof.
  intros Hc Ht. unfold wide_step. destruct (enc_is_wide em && (code <? 256)); [|discriminate].
  rewrite (wdb1_value code Hc). destruct (negb (wdb1_spec code =? 0)); [|discriminate].
  destruct tl as [|k r]; [destruct more; discriminate|].
  inversion Ht as [|? ? Hk Hr]; subst.
  destruct (k <? 256); [|discriminate]. rewrite (wdb2_value code k Hc Hk).
  destruct (negb (wdb2_spec code k =? 0)); discriminate.
Qed.

Lemma utf8_step_no_err em code tl more e : utf8_step em code tl more <> Some (OErr e).
Proof. unfold utf8_step. break_match; discriminate. Qed.

Lemma meta_wrap_err run rest e : meta_wrap run rest = OErr e -> run = [].
Proof.
  unfold meta_wrap. destruct run as [|r0 rt]; [reflexivity|].
  destruct r0; try discriminate.
  destruct (zs_eqb name str_esc || contains_sub str_meta name); discriminate.
Qed.

(* never_raises: on a non-empty byte string process_keyqueue returns or asks for more input *)
Lemma process_no_err em more : forall c e, Forall is_byte c -> c <> [] -> process_keyqueue em c more <> OErr e.
Proof.
  induction c as [|code tl IH]; intros e Hb Hne; [congruence|].
  inversion Hb as [|? ? Hcode Htl]; subst.
  rewrite process_eq.
  destruct ((32 <=? code) && (code <=? 126)); [discriminate|].
  destruct (assoc code keyconv); [discriminate|].
  destruct ((0 <? code) && (code <? 27)); [discriminate|].
  destruct ((27 <? code) && (code <? 32)); [discriminate|].
  pose proof (fun e0 => wide_step_no_err em code tl more e0 Hcode Htl) as Hw.
  destruct (wide_step em code tl more) as [[[evs' rest']| |e']|].
  1: discriminate. 1: discriminate. 1: intros _; eapply Hw; reflexivity.
  pose proof (utf8_step_no_err em code tl more) as Hu.
  destruct (utf8_step em code tl more) as [[[evs' rest']| |e']|].
  1: discriminate. 1: discriminate. 1: intros _; eapply Hu; reflexivity.
  destruct ((127 <? code) && (code <? 256)); [discriminate|].
  destruct (negb (code =? 27)); [discriminate|].
  pose proof (trie_get_no_err tl more) as Hr.
  destruct (trie_get tl more) as [[[ev rest']|]| |e'].
  1: discriminate. 2: discriminate. 2: intros _; eapply Hr; reflexivity.
  destruct tl as [|k tl']; [discriminate|].
  destruct (process_keyqueue em (k :: tl') more) as [[run rest']| |e'] eqn:Ep.
  - intros H. apply meta_wrap_err in H. subst run.
    destruct (process_progress _ _ _ _ _ Ep) as [Hn _]. congruence.
  - discriminate.
  - intros _. eapply (IH e'); [exact Htl|discriminate|reflexivity].
Qed.

Lemma decode_no_err em more : forall codes e, Forall is_byte codes -> decode em codes more <> PErr e.
Proof.
  apply (list_len_ind (fun codes => forall e, Forall is_byte codes -> decode em codes more <> PErr e)).
  intros codes IH e Hb. destruct codes as [|c tl]; [rewrite decode_nil; discriminate|].
  rewrite decode_cons by discriminate.
  pose proof (process_no_err em more (c :: tl)) as Hp.
  destruct (process_keyqueue em (c :: tl) more) as [[run rest]| |e'] eqn:E; try discriminate.
  - destruct (process_progress _ _ _ _ _ E) as [_ [p [_ Hpp]]].
    assert (Hb' : Forall is_byte rest) by (rewrite Hpp in Hb; apply Forall_app in Hb; tauto).
    pose proof (IH rest (process_shorter _ _ _ _ _ E) e Hb') as Hn.
    destruct (decode em rest more); cbn; congruence.
  - exfalso. eapply Hp; [exact Hb|discriminate|reflexivity].
Qed.

(* ------------------------------------------------------------------ *)
(* exported forms *)
Lemma decisive_proof em c evs rest :
  process_keyqueue em c true = OOk (evs, rest) ->
  forall d, process_keyqueue em (c ++ d) true = OOk (evs, rest ++ d).
Proof.
  intros H d. destruct c as [|code tl]; [cbn in H; discriminate|].
  pose proof (process_ext em (code :: tl) d ltac:(discriminate)) as Hx. rewrite H in Hx. exact Hx.
Qed.

Lemma more_is_prefix_proof em c :
  process_keyqueue em c true = OMore ->
  forall c' d, c = c' ++ d -> c' <> [] -> process_keyqueue em c' true = OMore.
Proof.
  intros H c' d -> Hne. pose proof (process_ext em c' d Hne) as Hx.
  destruct (process_keyqueue em c' true) as [[evs rest]| |e]; cbn [ext_res] in Hx; congruence.
Qed.

Lemma decided_ignores_flag_proof em c r :
  process_keyqueue em c true = OOk r -> process_keyqueue em c false = OOk r.
Proof. intros H. pose proof (process_flag em c) as Hf. rewrite H in Hf. exact Hf. Qed.

(* a hooked Screen never raises, whatever bytes are read and whenever the alarm fires *)
Lemma step_no_err em st o e : Forall is_byte (st ++ feed_bytes o) -> step em st o <> Err e.
Proof.
  intros Hb. destruct o as [bs|].
  - cbn [feed_bytes] in Hb. rewrite step_feed. pose proof (decode_no_err em true (st ++ bs)) as Hn.
    pose proof (decode_not_fuel em true (st ++ bs)) as Hf.
    destruct (decode em (st ++ bs) true) as [d|d r|e0|]; try discriminate; [exfalso; eapply Hn; [exact Hb|reflexivity]|congruence].
  - cbn [feed_bytes] in Hb. rewrite app_nil_r in Hb. destruct st as [|c0 tl]; [discriminate|].
    pose proof (timeout_step em (c0 :: tl) ltac:(discriminate)) as Ht.
    pose proof (decode_no_err em false (c0 :: tl)) as Hn.
    destruct (decode em (c0 :: tl) false) as [d|d r|e0|]; try contradiction;
      [rewrite Ht; discriminate|exfalso; eapply Hn; [exact Hb|reflexivity]].
Qed.

Lemma run_no_err em : forall ops st,
  Forall is_byte (st ++ concat (map feed_bytes ops)) -> snd (run em st ops) = None.
Proof.
  induction ops as [|o ops IH]; intros st Hb; [reflexivity|].
  rewrite run_cons. cbn [map concat] in Hb. rewrite app_assoc in Hb.
  pose proof Hb as Hb1. apply Forall_app in Hb1. destruct Hb1 as [Hb1 Hb2].
  pose proof (step_no_err em st o) as Hs.
  destruct (step em st o) as [[cs st']|e] eqn:E; [|exfalso; eapply Hs; [exact Hb1|reflexivity]].
  pose proof (step_conserves _ _ _ _ _ E) as Hc.
  assert (Hb' : Forall is_byte (st' ++ concat (map feed_bytes ops))).
  { apply Forall_app. split; [|exact Hb2]. rewrite <- Hc in Hb1. apply Forall_app in Hb1. tauto. }
  specialize (IH st' Hb'). destruct (run em st' ops) as [[a b] c]. exact IH.
Qed.
