(* C05 - proofs about Model/KeyInput.v (process_keyqueue, KeyqueueTrie, Screen.parse_input). *)
From Coq Require Import ZArith List Bool Lia.
Import ListNotations.
From Urwid Require Import PyBase escape_table_gen KeyInput.
Open Scope Z_scope.

Arguments Z.add : simpl never.
Arguments Z.sub : simpl never.
Arguments Z.mul : simpl never.
Arguments Z.div : simpl never.
Arguments Z.modulo : simpl never.
Arguments Z.ltb : simpl never.
Arguments Z.leb : simpl never.
Arguments Z.eqb : simpl never.
Arguments Z.land : simpl never.
Arguments Z.shiftr : simpl never.
Arguments assoc : simpl never.

(* ------------------------------------------------------------------ *)
(* "extension" relations: what a result obtained on [c] says about the result on [c ++ d],
   both with more_available = True.  They carry decisiveness of Ok AND of errors. *)
Definition ext_opt (d : list Z) (o o' : outcome (option (event * list Z))) : Prop :=
  match o with
  | OOk None => o' = OOk None
  | OOk (Some (ev, rest)) => o' = OOk (Some (ev, rest ++ d))
  | OErr e => o' = OErr e
  | OMore => True
  end.

Definition ext_res (d : list Z) (o o' : outcome res) : Prop :=
  match o with
  | OOk (evs, rest) => o' = OOk (evs, rest ++ d)
  | OErr e => o' = OErr e
  | OMore => True
  end.

Definition ext_step (d : list Z) (s s' : option (outcome res)) : Prop :=
  match s with
  | None => s' = None
  | Some OMore => True
  | Some (OOk (evs, rest)) => s' = Some (OOk (evs, rest ++ d))
  | Some (OErr e) => s' = Some (OErr e)
  end.

Lemma read_mouse_info_ext keys d :
  ext_opt d (read_mouse_info keys true) (read_mouse_info (keys ++ d) true).
Proof.
  destruct keys as [|k0 [|k1 [|k2 rest]]]; cbn; auto.
Qed.

Lemma sgr_scan_ext keys d v t r :
  sgr_scan keys = Some (v, t, r) -> sgr_scan (keys ++ d) = Some (v, t, r ++ d).
Proof.
  revert v t r; induction keys as [|k keys IH]; intros v t r H; cbn in *; [discriminate|].
  destruct ((k =? 77) || (k =? 109)).
  - inversion H; subst; reflexivity.
  - destruct (sgr_scan keys) as [[[v' t'] r']|] eqn:E; [|discriminate].
    inversion H; subst. rewrite (IH _ _ _ eq_refl). reflexivity.
Qed.

Lemma read_sgrmouse_info_ext keys d :
  ext_opt d (read_sgrmouse_info keys true) (read_sgrmouse_info (keys ++ d) true).
Proof.
  destruct keys as [|k keys]; [cbn; auto|].
  unfold read_sgrmouse_info.
  change ((k :: keys) ++ d) with (k :: keys ++ d).
  destruct (sgr_scan (k :: keys)) as [[[v t] r]|] eqn:E; [|cbn; auto].
  change (k :: keys ++ d) with ((k :: keys) ++ d).
  rewrite (sgr_scan_ext _ d _ _ _ E).
  destruct (sgr_event v t) as [[ev|]| |e]; cbn; auto.
Qed.

Lemma get_recurse_leaf name keys more :
  get_recurse (TLeaf name) keys more =
    if zs_eqb name str_mouse then read_mouse_info keys more
    else if zs_eqb name str_sgrmouse then read_sgrmouse_info keys more
    else OOk (Some (Key name, keys)).
Proof. destruct keys; reflexivity. Qed.

Lemma get_recurse_node ch k keys more :
  get_recurse (TNode ch) (k :: keys) more =
    match assoc k ch with None => OOk None | Some sub => get_recurse sub keys more end.
Proof. reflexivity. Qed.

Lemma get_recurse_ext keys : forall root d,
  ext_opt d (get_recurse root keys true) (get_recurse root (keys ++ d) true).
Proof.
  induction keys as [|k keys IH]; intros root d.
  - destruct root as [name|ch].
    + rewrite !get_recurse_leaf.
      destruct (zs_eqb name str_mouse); [apply (read_mouse_info_ext [] d)|].
      destruct (zs_eqb name str_sgrmouse); [apply (read_sgrmouse_info_ext [] d)|].
      cbn. reflexivity.
    + cbn. auto.
  - destruct root as [name|ch].
    + rewrite !get_recurse_leaf.
      destruct (zs_eqb name str_mouse); [apply read_mouse_info_ext|].
      destruct (zs_eqb name str_sgrmouse); [apply read_sgrmouse_info_ext|].
      cbn. reflexivity.
    + change ((k :: keys) ++ d) with (k :: keys ++ d). rewrite !get_recurse_node.
      destruct (assoc k ch) as [sub|]; [apply IH|cbn; reflexivity].
Qed.

Lemma cpr_x_ext keys d : forall x,
  match cpr_x keys x with
  | CXNone => cpr_x (keys ++ d) x = CXNone
  | CXDone v rest => cpr_x (keys ++ d) x = CXDone v (rest ++ d)
  | CXEnd => True
  end.
Proof.
  induction keys as [|k keys IH]; intros x; cbn; auto.
  destruct (k =? 82); [destruct (x =? 0); reflexivity|].
  destruct ((k <? 48) || (57 <? k)); [reflexivity|].
  destruct ((x =? 0) && (k =? 48)); [reflexivity|].
  apply IH.
Qed.

Lemma cpr_y_ext keys d : forall y,
  match cpr_y keys y with
  | CYNone => cpr_y (keys ++ d) y = CYNone
  | CYBreak v rest => cpr_y (keys ++ d) y = CYBreak v (rest ++ d)
  | CYEnd _ => True
  end.
Proof.
  induction keys as [|k keys IH]; intros y; cbn; auto.
  destruct (k =? 59); [destruct (y =? 0); reflexivity|].
  destruct ((k <? 48) || (57 <? k)); [reflexivity|].
  destruct ((y =? 0) && (k =? 48)); [reflexivity|].
  apply IH.
Qed.

Lemma read_cursor_position_ext keys d :
  ext_opt d (read_cursor_position keys true) (read_cursor_position (keys ++ d) true).
Proof.
  destruct keys as [|k0 r]; [cbn; auto|].
  cbn [read_cursor_position app].
  destruct (negb (k0 =? 91)); [cbn; reflexivity|].
  pose proof (cpr_y_ext r d 0) as Hy.
  destruct (cpr_y r 0) as [|y r2|y]; [rewrite Hy; cbn; reflexivity| |cbn; auto].
  rewrite Hy.
  destruct r2 as [|k2 r2]; [cbn; auto|].
  cbn [app].
  pose proof (cpr_x_ext (k2 :: r2) d 0) as Hx.
  change (k2 :: r2 ++ d) with ((k2 :: r2) ++ d).
  destruct (cpr_x (k2 :: r2) 0) as [|x rest|]; [rewrite Hx; cbn; reflexivity|rewrite Hx; cbn; reflexivity|cbn; auto].
Qed.

Lemma trie_get_in_ext root keys d :
  ext_opt d (trie_get_in root keys true) (trie_get_in root (keys ++ d) true).
Proof.
  unfold trie_get_in.
  pose proof (get_recurse_ext keys root d) as H.
  destruct (get_recurse root keys true) as [[[ev rest]|]| |e]; cbn in H; rewrite ?H; cbn; auto.
  apply read_cursor_position_ext.
Qed.

Lemma utf8_check_ext n : forall tl d,
  utf8_check n tl <> U8Missing -> utf8_check n (tl ++ d) = utf8_check n tl.
Proof.
  induction n as [|n IH]; intros tl d H; cbn in *; [reflexivity|].
  destruct tl as [|k r]; [congruence|]. cbn.
  destruct ((256 <? k) || negb (Z.land k 192 =? 128)); [reflexivity|]. apply IH; exact H.
Qed.

Lemma utf8_check_good_len n : forall tl, utf8_check n tl = U8Good -> (n <= length tl)%nat.
Proof.
  induction n as [|n IH]; intros tl H; cbn in *; [lia|].
  destruct tl as [|k r]; [discriminate|]. cbn.
  destruct ((256 <? k) || negb (Z.land k 192 =? 128)); [discriminate|].
  specialize (IH _ H). lia.
Qed.

Lemma utf8_step_ext em code tl d :
  ext_step d (utf8_step em code tl true) (utf8_step em code (tl ++ d) true).
Proof.
  unfold utf8_step.
  destruct (enc_is_utf8 em && (127 <? code) && (code <? 256)); [|cbn; reflexivity].
  set (need := if Z.land code 224 =? 192 then Some 1%nat
               else if Z.land code 240 =? 224 then Some 2%nat
               else if Z.land code 248 =? 240 then Some 3%nat else None).
  destruct need as [n|]; [|cbn; reflexivity].
  destruct (utf8_check n tl) eqn:E.
  - cbn. auto.
  - rewrite utf8_check_ext by congruence. rewrite E. cbn. reflexivity.
  - rewrite utf8_check_ext by congruence. rewrite E.
    pose proof (utf8_check_good_len _ _ E) as Hl.
    rewrite firstn_app, skipn_app.
    replace (n - length tl)%nat with 0%nat by lia. cbn [firstn skipn]. rewrite app_nil_r.
    destruct (utf8_decode code n (firstn n tl)); cbn; reflexivity.
Qed.

Lemma wide_step_ext em code tl d :
  ext_step d (wide_step em code tl true) (wide_step em code (tl ++ d) true).
Proof.
  unfold wide_step.
  destruct (enc_is_wide em && (code <? 256) && negb (within_double_byte [code] 0 0 =? 0)); [|cbn; reflexivity].
  destruct tl as [|k r]; [cbn; auto|].
  cbn [app].
  destruct ((k <? 256) && negb (within_double_byte [code; k] 0 1 =? 0)); cbn; reflexivity.
Qed.

(* one unfolding step of the fixpoint, without unfolding anything else *)
Lemma process_eq em code tl more :
  process_keyqueue em (code :: tl) more =
      if (32 <=? code) && (code <=? 126) then OOk ([Key [code]], tl)
      else match assoc code keyconv with
      | Some v => OOk ([match v with Some n => Key n | None => KNone end], tl)
      | None =>
      if (0 <? code) && (code <? 27) then OOk ([Key (str_ctrl ++ [97 + code - 1])], tl)
      else if (27 <? code) && (code <? 32) then OOk ([Key (str_ctrl ++ [65 + code - 1])], tl)
      else match wide_step em code tl more with
      | Some o => o
      | None =>
      match utf8_step em code tl more with
      | Some o => o
      | None =>
      if (127 <? code) && (code <? 256) then OOk ([Key [code]], tl)
      else if negb (code =? 27) then OOk ([angle code], tl)
      else match trie_get tl more with
      | OMore => OMore
      | OErr e => OErr e
      | OOk (Some (ev, rest)) => OOk ([ev], rest)
      | OOk None =>
          match tl with
          | [] => OOk ([Key str_esc], tl)
          | _ :: _ =>
              match process_keyqueue em tl more with
              | OOk (run, rest) => meta_wrap run rest
              | OMore => OMore
              | OErr e => OErr e
              end
          end
      end end end end.
Proof. reflexivity. Qed.

Lemma meta_wrap_ext run rest d : ext_res d (meta_wrap run rest) (meta_wrap run (rest ++ d)).
Proof.
  unfold meta_wrap, ext_res. destruct run as [|r0 rt]; [reflexivity|].
  destruct (is_mouse_event r0); [reflexivity|].
  destruct r0; try reflexivity.
  destruct (zs_eqb name str_esc || contains_sub str_meta name); reflexivity.
Qed.

(* facts about the generated table, by computation (re-run whenever escape.py changes) *)
Lemma trie_build_ok : trie_build input_sequences = Ok input_trie.
Proof. vm_compute. reflexivity. Qed.

Lemma trie_get_nil_true : trie_get [] true = OMore.
Proof. vm_compute. reflexivity. Qed.

(* keep tactics from unfolding the big generated constants; vm_compute still sees through *)
Opaque input_trie keyconv input_sequences.

(* decisive (and error-decisive), one statement *)
Lemma process_ext em c : forall d, c <> [] ->
  ext_res d (process_keyqueue em c true) (process_keyqueue em (c ++ d) true).
Proof.
  induction c as [|code tl IH]; intros d Hne; [congruence|].
  change ((code :: tl) ++ d) with (code :: tl ++ d).
  rewrite !process_eq.
  destruct ((32 <=? code) && (code <=? 126)); [cbn; reflexivity|].
  destruct (assoc code keyconv); [cbn; reflexivity|].
  destruct ((0 <? code) && (code <? 27)); [cbn; reflexivity|].
  destruct ((27 <? code) && (code <? 32)); [cbn; reflexivity|].
  pose proof (wide_step_ext em code tl d) as Hw.
  destruct (wide_step em code tl true) as [[[evs rest]| |e]|]; cbn in Hw; try rewrite Hw; cbn; auto.
  pose proof (utf8_step_ext em code tl d) as Hu.
  destruct (utf8_step em code tl true) as [[[evs rest]| |e]|]; cbn in Hu; try rewrite Hu; cbn; auto.
  destruct ((127 <? code) && (code <? 256)); [cbn; reflexivity|].
  destruct (negb (code =? 27)); [cbn; reflexivity|].
  destruct tl as [|k tl'].
  { rewrite trie_get_nil_true. exact I. }
  pose proof (trie_get_in_ext input_trie (k :: tl') d) as Ht. fold trie_get in Ht.
  destruct (trie_get (k :: tl') true) as [[[ev rest]|]| |e]; cbn [ext_opt] in Ht; try rewrite Ht;
    try exact I; try reflexivity.
  change ((k :: tl') ++ d) with (k :: tl' ++ d).
  assert (Hne' : k :: tl' <> []) by congruence.
  specialize (IH d Hne'). change (k :: tl' ++ d) with ((k :: tl') ++ d).
  destruct (process_keyqueue em (k :: tl') true) as [[run rest]| |e]; cbn [ext_res] in IH; try rewrite IH;
    try exact I; try reflexivity.
  apply meta_wrap_ext.
Qed.

(* ------------------------------------------------------------------ *)
(* more_available = False: MoreInputRequired is never raised, and a result decided with
   more_available = True is the same with False *)
Ltac break_match :=
  repeat match goal with
         | |- context [match ?x with _ => _ end] => destruct x
         | |- context [if ?x then _ else _] => destruct x
         end.

Lemma sgr_event_not_more body t : sgr_event body t <> OMore.
Proof. unfold sgr_event. break_match; discriminate. Qed.

Lemma read_mouse_info_false keys : read_mouse_info keys false <> OMore.
Proof. destruct keys as [|k0 [|k1 [|k2 rest]]]; cbn; discriminate. Qed.

Lemma read_sgrmouse_info_false keys : read_sgrmouse_info keys false <> OMore.
Proof.
  unfold read_sgrmouse_info. destruct keys; [discriminate|].
  destruct (sgr_scan (z :: keys)) as [[[v t] r]|]; [|discriminate].
  pose proof (sgr_event_not_more v t). destruct (sgr_event v t) as [[ev|]| |e]; congruence.
Qed.

Lemma get_recurse_false keys : forall root, get_recurse root keys false <> OMore.
Proof.
  induction keys as [|k keys IH]; intros root; destruct root as [name|ch].
  - rewrite get_recurse_leaf. destruct (zs_eqb name str_mouse); [apply read_mouse_info_false|].
    destruct (zs_eqb name str_sgrmouse); [apply read_sgrmouse_info_false|discriminate].
  - cbn. discriminate.
  - rewrite get_recurse_leaf. destruct (zs_eqb name str_mouse); [apply read_mouse_info_false|].
    destruct (zs_eqb name str_sgrmouse); [apply read_sgrmouse_info_false|discriminate].
  - rewrite get_recurse_node. destruct (assoc k ch); [apply IH|discriminate].
Qed.

Lemma read_cursor_position_false keys : read_cursor_position keys false <> OMore.
Proof. unfold read_cursor_position. break_match; discriminate. Qed.

Lemma trie_get_in_false root keys : trie_get_in root keys false <> OMore.
Proof.
  unfold trie_get_in. pose proof (get_recurse_false keys root).
  destruct (get_recurse root keys false) as [[[ev rest]|]| |e]; try congruence; try discriminate.
  apply read_cursor_position_false.
Qed.

Lemma wide_step_false em code tl : wide_step em code tl false <> Some OMore.
Proof. unfold wide_step. break_match; discriminate. Qed.

Lemma utf8_step_false em code tl : utf8_step em code tl false <> Some OMore.
Proof. unfold utf8_step. break_match; discriminate. Qed.

Lemma meta_wrap_not_more run rest : meta_wrap run rest <> OMore.
Proof. unfold meta_wrap. break_match; discriminate. Qed.

Lemma process_false_not_more em c : process_keyqueue em c false <> OMore.
Proof.
  induction c as [|code tl IH]; [cbn; discriminate|].
  rewrite process_eq.
  destruct ((32 <=? code) && (code <=? 126)); [discriminate|].
  destruct (assoc code keyconv); [discriminate|].
  destruct ((0 <? code) && (code <? 27)); [discriminate|].
  destruct ((27 <? code) && (code <? 32)); [discriminate|].
  pose proof (wide_step_false em code tl) as Hw.
  destruct (wide_step em code tl false) as [[[evs rest]| |e]|]; try congruence; try discriminate.
  pose proof (utf8_step_false em code tl) as Hu.
  destruct (utf8_step em code tl false) as [[[evs rest]| |e]|]; try congruence; try discriminate.
  destruct ((127 <? code) && (code <? 256)); [discriminate|].
  destruct (negb (code =? 27)); [discriminate|].
  pose proof (trie_get_in_false input_trie tl) as Ht. fold trie_get in Ht.
  destruct (trie_get tl false) as [[[ev rest]|]| |e]; try congruence; try discriminate.
  destruct tl as [|k tl']; [discriminate|].
  destruct (process_keyqueue em (k :: tl') false) as [[run rest]| |e]; try congruence; try discriminate.
  apply meta_wrap_not_more.
Qed.

(* flag relation *)
Definition flag_opt {A} (ot of : outcome A) : Prop :=
  match ot with OMore => True | _ => of = ot end.
Definition flag_step (st sf : option (outcome res)) : Prop :=
  match st with Some OMore => True | _ => sf = st end.

Lemma read_mouse_info_flag keys : flag_opt (read_mouse_info keys true) (read_mouse_info keys false).
Proof. destruct keys as [|k0 [|k1 [|k2 rest]]]; cbn; auto. Qed.

Lemma read_sgrmouse_info_flag keys : flag_opt (read_sgrmouse_info keys true) (read_sgrmouse_info keys false).
Proof.
  unfold read_sgrmouse_info. destruct keys; [cbn; auto|].
  destruct (sgr_scan (z :: keys)) as [[[v t] r]|]; [|cbn; auto].
  destruct (sgr_event v t) as [[ev|]| |e]; cbn; auto.
Qed.

Lemma get_recurse_flag keys : forall root, flag_opt (get_recurse root keys true) (get_recurse root keys false).
Proof.
  induction keys as [|k keys IH]; intros root; destruct root as [name|ch].
  - rewrite !get_recurse_leaf. destruct (zs_eqb name str_mouse); [apply read_mouse_info_flag|].
    destruct (zs_eqb name str_sgrmouse); [apply read_sgrmouse_info_flag|]. cbn; auto.
  - cbn. auto.
  - rewrite !get_recurse_leaf. destruct (zs_eqb name str_mouse); [apply read_mouse_info_flag|].
    destruct (zs_eqb name str_sgrmouse); [apply read_sgrmouse_info_flag|]. cbn; auto.
  - rewrite !get_recurse_node. destruct (assoc k ch); [apply IH|cbn; auto].
Qed.

Lemma read_cursor_position_flag keys :
  flag_opt (read_cursor_position keys true) (read_cursor_position keys false).
Proof. unfold read_cursor_position. break_match; cbn; auto. Qed.

Lemma trie_get_in_flag root keys : flag_opt (trie_get_in root keys true) (trie_get_in root keys false).
Proof.
  unfold trie_get_in. pose proof (get_recurse_flag keys root) as H.
  destruct (get_recurse root keys true) as [[[ev rest]|]| |e]; cbn in H; try rewrite H; cbn; auto.
  apply read_cursor_position_flag.
Qed.

Lemma wide_step_flag em code tl : flag_step (wide_step em code tl true) (wide_step em code tl false).
Proof. unfold wide_step. break_match; cbn; auto. Qed.

Lemma utf8_step_flag em code tl : flag_step (utf8_step em code tl true) (utf8_step em code tl false).
Proof. unfold utf8_step. break_match; cbn; auto. Qed.

Lemma process_flag em c : flag_opt (process_keyqueue em c true) (process_keyqueue em c false).
Proof.
  induction c as [|code tl IH]; [cbn; auto|].
  rewrite !process_eq.
  destruct ((32 <=? code) && (code <=? 126)); [cbn; auto|].
  destruct (assoc code keyconv); [cbn; auto|].
  destruct ((0 <? code) && (code <? 27)); [cbn; auto|].
  destruct ((27 <? code) && (code <? 32)); [cbn; auto|].
  pose proof (wide_step_flag em code tl) as Hw.
  destruct (wide_step em code tl true) as [[[evs rest]| |e]|]; cbn in Hw; try rewrite Hw; cbn; auto.
  pose proof (utf8_step_flag em code tl) as Hu.
  destruct (utf8_step em code tl true) as [[[evs rest]| |e]|]; cbn in Hu; try rewrite Hu; cbn; auto.
  destruct ((127 <? code) && (code <? 256)); [cbn; auto|].
  destruct (negb (code =? 27)); [cbn; auto|].
  pose proof (trie_get_in_flag input_trie tl) as Ht. fold trie_get in Ht.
  destruct (trie_get tl true) as [[[ev rest]|]| |e]; cbn in Ht; try rewrite Ht; cbn; auto.
  destruct tl as [|k tl']; [cbn; auto|].
  destruct (process_keyqueue em (k :: tl') true) as [[run rest]| |e]; cbn [flag_opt] in IH; try rewrite IH;
    cbn [flag_opt]; auto.
  destruct (meta_wrap run rest) as [[a b]| |]; cbn [flag_opt]; auto.
Qed.

(* ------------------------------------------------------------------ *)
(* progress: what is returned as remaining codes is a suffix, at least one code is consumed,
   at least one event is reported *)
Definition is_suffix (rest keys : list Z) : Prop := exists p, keys = p ++ rest.

Lemma is_suffix_refl l : is_suffix l l.
Proof. exists []; reflexivity. Qed.

Lemma is_suffix_cons k rest keys : is_suffix rest keys -> is_suffix rest (k :: keys).
Proof. intros [p ->]. exists (k :: p); reflexivity. Qed.

Lemma is_suffix_skipn n (l : list Z) : is_suffix (skipn n l) l.
Proof. exists (firstn n l). symmetry; apply firstn_skipn. Qed.

Lemma sgr_scan_split keys : forall v t r, sgr_scan keys = Some (v, t, r) -> keys = v ++ t :: r.
Proof.
  induction keys as [|k keys IH]; intros v t r H; cbn in H; [discriminate|].
  destruct ((k =? 77) || (k =? 109)).
  - inversion H; subst; reflexivity.
  - destruct (sgr_scan keys) as [[[v' t'] r']|]; [|discriminate].
    inversion H; subst. cbn. f_equal. apply IH; reflexivity.
Qed.

Lemma sgr_scan_term keys : forall v t r, sgr_scan keys = Some (v, t, r) -> t = 77 \/ t = 109.
Proof.
  induction keys as [|k keys IH]; intros v t r H; cbn in H; [discriminate|].
  destruct ((k =? 77) || (k =? 109)) eqn:E.
  - inversion H; subst. apply orb_true_iff in E. destruct E as [E|E]; apply Z.eqb_eq in E; auto.
  - destruct (sgr_scan keys) as [[[v' t'] r']|]; [|discriminate].
    inversion H; subst. eapply IH; reflexivity.
Qed.

Lemma read_mouse_info_suffix keys more ev rest :
  read_mouse_info keys more = OOk (Some (ev, rest)) -> is_suffix rest keys.
Proof.
  destruct keys as [|k0 [|k1 [|k2 r]]]; cbn; try (destruct more; discriminate).
  intros H; inversion H; subst. exists [k0; k1; k2]; reflexivity.
Qed.

Lemma read_sgrmouse_info_suffix keys more ev rest :
  read_sgrmouse_info keys more = OOk (Some (ev, rest)) -> is_suffix rest keys.
Proof.
  unfold read_sgrmouse_info. destruct keys as [|k keys]; [destruct more; discriminate|].
  destruct (sgr_scan (k :: keys)) as [[[v t] r]|] eqn:E; [|destruct more; discriminate].
  destruct (sgr_event v t) as [[ev'|]| |e]; try discriminate.
  intros H; inversion H; subst. exists (v ++ [t]). rewrite <- app_assoc. apply sgr_scan_split; exact E.
Qed.

Lemma get_recurse_suffix keys : forall root more ev rest,
  get_recurse root keys more = OOk (Some (ev, rest)) -> is_suffix rest keys.
Proof.
  induction keys as [|k keys IH]; intros root more ev rest; destruct root as [name|ch].
  - rewrite get_recurse_leaf. destruct (zs_eqb name str_mouse); [apply read_mouse_info_suffix|].
    destruct (zs_eqb name str_sgrmouse); [apply read_sgrmouse_info_suffix|].
    intros H; inversion H; subst. apply is_suffix_refl.
  - cbn. destruct more; discriminate.
  - rewrite get_recurse_leaf. destruct (zs_eqb name str_mouse); [apply read_mouse_info_suffix|].
    destruct (zs_eqb name str_sgrmouse); [apply read_sgrmouse_info_suffix|].
    intros H; inversion H; subst. apply is_suffix_refl.
  - rewrite get_recurse_node. destruct (assoc k ch); [|discriminate].
    intros H. apply is_suffix_cons. eapply IH; exact H.
Qed.

Lemma cpr_x_suffix keys : forall x v rest, cpr_x keys x = CXDone v rest -> is_suffix rest keys.
Proof.
  induction keys as [|k keys IH]; intros x v rest; cbn; [discriminate|].
  destruct (k =? 82).
  - destruct (x =? 0); [discriminate|]. intros H; inversion H; subst. exists [k]; reflexivity.
  - destruct ((k <? 48) || (57 <? k)); [discriminate|].
    destruct ((x =? 0) && (k =? 48)); [discriminate|].
    intros H. apply is_suffix_cons. eapply IH; exact H.
Qed.

Lemma cpr_y_suffix keys : forall y v rest, cpr_y keys y = CYBreak v rest -> is_suffix rest keys.
Proof.
  induction keys as [|k keys IH]; intros y v rest; cbn; [discriminate|].
  destruct (k =? 59).
  - destruct (y =? 0); [discriminate|]. intros H; inversion H; subst. exists [k]; reflexivity.
  - destruct ((k <? 48) || (57 <? k)); [discriminate|].
    destruct ((y =? 0) && (k =? 48)); [discriminate|].
    intros H. apply is_suffix_cons. eapply IH; exact H.
Qed.

Lemma is_suffix_trans a b c : is_suffix a b -> is_suffix b c -> is_suffix a c.
Proof. intros [p ->] [q ->]. exists (q ++ p). apply app_assoc. Qed.

Lemma read_cursor_position_suffix keys more ev rest :
  read_cursor_position keys more = OOk (Some (ev, rest)) -> is_suffix rest keys.
Proof.
  unfold read_cursor_position. destruct keys as [|k0 r]; [destruct more; discriminate|].
  destruct (negb (k0 =? 91)); [discriminate|].
  destruct (cpr_y r 0) as [|y r2|y] eqn:Ey; try (destruct more; discriminate).
  destruct r2 as [|k2 r2]; [destruct more; discriminate|].
  destruct (cpr_x (k2 :: r2) 0) as [|x rest'|] eqn:Ex; try (destruct more; discriminate).
  intros H; inversion H; subst. apply is_suffix_cons.
  eapply is_suffix_trans; [eapply cpr_x_suffix; exact Ex | eapply cpr_y_suffix; exact Ey].
Qed.

Lemma trie_get_in_suffix root keys more ev rest :
  trie_get_in root keys more = OOk (Some (ev, rest)) -> is_suffix rest keys.
Proof.
  unfold trie_get_in. destruct (get_recurse root keys more) as [[[ev' rest']|]| |e] eqn:E; try discriminate.
  - intros H; inversion H; subst. eapply get_recurse_suffix; exact E.
  - apply read_cursor_position_suffix.
Qed.

Lemma wide_step_progress em code tl more evs rest :
  wide_step em code tl more = Some (OOk (evs, rest)) -> evs <> [] /\ is_suffix rest tl.
Proof.
  unfold wide_step. destruct (enc_is_wide em && (code <? 256) && negb (within_double_byte [code] 0 0 =? 0)); [|discriminate].
  destruct tl as [|k r]; [destruct more; discriminate|].
  destruct ((k <? 256) && negb (within_double_byte [code; k] 0 1 =? 0)); [|discriminate].
  intros H; inversion H; subst. split; [discriminate|]. exists [k]; reflexivity.
Qed.

Lemma utf8_step_progress em code tl more evs rest :
  utf8_step em code tl more = Some (OOk (evs, rest)) -> evs <> [] /\ is_suffix rest tl.
Proof.
  unfold utf8_step. destruct (enc_is_utf8 em && (127 <? code) && (code <? 256)); [|discriminate].
  set (need := if Z.land code 224 =? 192 then Some 1%nat
               else if Z.land code 240 =? 224 then Some 2%nat
               else if Z.land code 248 =? 240 then Some 3%nat else None).
  destruct need as [n|].
  - destruct (utf8_check n tl).
    + destruct more; [discriminate|]. intros H; inversion H; subst. split; [discriminate|apply is_suffix_refl].
    + intros H; inversion H; subst. split; [discriminate|apply is_suffix_refl].
    + destruct (utf8_decode code n (firstn n tl)); intros H; inversion H; subst;
        (split; [discriminate|]); [apply is_suffix_skipn|apply is_suffix_refl].
  - intros H; inversion H; subst. split; [discriminate|apply is_suffix_refl].
Qed.

Lemma meta_wrap_ok run rest evs rest' :
  meta_wrap run rest = OOk (evs, rest') -> evs <> [] /\ rest' = rest.
Proof.
  unfold meta_wrap. destruct run as [|r0 rt]; [discriminate|].
  destruct (is_mouse_event r0); [intros H; inversion H; subst; split; [discriminate|reflexivity]|].
  destruct r0; try discriminate.
  destruct (zs_eqb name str_esc || contains_sub str_meta name); intros H; inversion H; subst;
    (split; [discriminate|reflexivity]).
Qed.

Lemma process_progress em c : forall more evs rest,
  process_keyqueue em c more = OOk (evs, rest) ->
  evs <> [] /\ exists p, p <> [] /\ c = p ++ rest.
Proof.
  induction c as [|code tl IH]; intros more evs rest; [cbn; discriminate|].
  assert (G : forall (evs : list event) (rest : list Z), evs <> [] /\ is_suffix rest tl ->
              evs <> [] /\ exists p, p <> [] /\ code :: tl = p ++ rest).
  { intros e r [He [p ->]]. split; [exact He|]. exists (code :: p). split; [discriminate|reflexivity]. }
  assert (S1 : forall ev, OOk ([ev], tl) = OOk (evs, rest) -> evs <> [] /\ exists p, p <> [] /\ code :: tl = p ++ rest).
  { intros ev H; inversion H; subst. apply G. split; [discriminate|apply is_suffix_refl]. }
  rewrite process_eq.
  destruct ((32 <=? code) && (code <=? 126)); [apply S1|].
  destruct (assoc code keyconv); [apply S1|].
  destruct ((0 <? code) && (code <? 27)); [apply S1|].
  destruct ((27 <? code) && (code <? 32)); [apply S1|].
  destruct (wide_step em code tl more) as [[[evs' rest']| |e]|] eqn:Ew; try discriminate.
  { intros H; inversion H; subst. apply G. eapply wide_step_progress; exact Ew. }
  destruct (utf8_step em code tl more) as [[[evs' rest']| |e]|] eqn:Eu; try discriminate.
  { intros H; inversion H; subst. apply G. eapply utf8_step_progress; exact Eu. }
  destruct ((127 <? code) && (code <? 256)); [apply S1|].
  destruct (negb (code =? 27)); [apply S1|].
  destruct (trie_get tl more) as [[[ev rest']|]| |e] eqn:Et; try discriminate.
  { intros H; inversion H; subst. apply G. split; [discriminate|]. eapply trie_get_in_suffix; exact Et. }
  destruct tl as [|k tl']; [apply S1|].
  destruct (process_keyqueue em (k :: tl') more) as [[run rest']| |e] eqn:Ep; try discriminate.
  intros H. apply meta_wrap_ok in H. destruct H as [He ->]. apply G. split; [exact He|].
  destruct (IH _ _ _ Ep) as [_ [p [_ Hp]]]. exists p; exact Hp.
Qed.

Lemma process_shorter em c more evs rest :
  process_keyqueue em c more = OOk (evs, rest) -> (length rest < length c)%nat.
Proof.
  intros H. destruct (process_progress _ _ _ _ _ H) as [_ [p [Hp ->]]].
  rewrite app_length. destruct p; [congruence|cbn; lia].
Qed.
