(* C11 - the dumped wcwidth table: sorted, disjoint, a contiguous cover of 0 .. 0x10FFFF, and the search
   tree the model uses returns, for EVERY code point, the width of the one interval that contains it. *)
From Coq Require Import ZArith List Bool Lia ZifyBool Sorted.
Import ListNotations.
From Urwid Require Import PyBase PyList Utf8 wcwidth_table_gen str_util_gen Width.
Open Scope Z_scope.

Definition ivl := (Z * Z * Z)%type.
Definition ilo (e : ivl) : Z := fst (fst e).
Definition ihi (e : ivl) : Z := snd (fst e).
Definition iw (e : ivl) : Z := snd e.

(* contiguity: each interval is non-empty and starts right after the previous one *)
Fixpoint cover_from (start : Z) (t : list ivl) : option Z :=
  match t with
  | [] => Some start
  | (lo, hi, _) :: r => if (lo =? start) && (lo <=? hi) then cover_from (hi + 1) r else None
  end.

Lemma table_is_contiguous_cover : cover_from 0 wcwidth_table = Some 1114112.
Proof. vm_compute. reflexivity. Qed.

Fixpoint list_lookup (t : list ivl) (c : Z) : option Z :=
  match t with
  | [] => None
  | (lo, hi, w) :: r => if (lo <=? c) && (c <=? hi) then Some w else list_lookup r c
  end.

Lemma cover_lookup t : forall start stop c,
  cover_from start t = Some stop -> start <= c < stop ->
  exists lo hi w, In (lo, hi, w) t /\ lo <= c <= hi /\ list_lookup t c = Some w.
Proof.
  induction t as [|[[lo hi] w] r IH]; intros start stop c H Hc; cbn [cover_from] in H.
  - inversion H. lia.
  - destruct ((lo =? start) && (lo <=? hi)) eqn:E; [|discriminate].
    cbn [list_lookup]. destruct ((lo <=? c) && (c <=? hi)) eqn:E2.
    + exists lo, hi, w. split; [now left|]. split; [lia|reflexivity].
    + destruct (IH (hi + 1) stop c H ltac:(lia)) as (lo' & hi' & w' & Hin & Hr & Hl).
      exists lo', hi', w'. split; [now right|]. split; assumption.
Qed.

Lemma cover_bounds t : forall start stop, cover_from start t = Some stop ->
  start <= stop /\ forall e, In e t -> start <= ilo e /\ ilo e <= ihi e /\ ihi e < stop.
Proof.
  induction t as [|[[lo hi] w] r IH]; intros start stop H; cbn [cover_from] in H.
  - inversion H. split; [lia|]. intros e [].
  - destruct ((lo =? start) && (lo <=? hi)) eqn:E; [|discriminate].
    destruct (IH _ _ H) as [H1 H2]. split; [lia|]. intros e [<-|Hin]; unfold ilo, ihi; cbn [fst snd].
    + lia.
    + specialize (H2 e Hin). unfold ilo, ihi in H2. lia.
Qed.

(* sorted and pairwise disjoint: every earlier interval ends before every later one begins *)
Lemma cover_sorted t : forall start stop, cover_from start t = Some stop ->
  StronglySorted (fun e1 e2 => ihi e1 < ilo e2) t.
Proof.
  induction t as [|[[lo hi] w] r IH]; intros start stop H; [constructor|]. cbn [cover_from] in H.
  destruct ((lo =? start) && (lo <=? hi)) eqn:E; [|discriminate].
  constructor; [eapply IH; exact H|].
  apply Forall_forall. intros e Hin. destruct (cover_bounds r _ _ H) as [_ B]. specialize (B e Hin).
  unfold ihi at 1. cbn [fst snd]. lia.
Qed.

(* an interval of a sorted table that contains c is the one the lookup finds *)
Lemma sorted_lookup_unique t : StronglySorted (fun e1 e2 => ihi e1 < ilo e2) t ->
  forall e c, In e t -> ilo e <= c <= ihi e -> list_lookup t c = Some (iw e).
Proof.
  induction 1 as [|x r Hs IH Hall]; intros e c Hin Hc; [destruct Hin|].
  destruct x as [[lo hi] w]. cbn [list_lookup]. destruct Hin as [<-|Hin].
  - unfold ilo, ihi in Hc. cbn [fst snd] in Hc. destruct ((lo <=? c) && (c <=? hi)) eqn:E; [reflexivity|lia].
  - rewrite Forall_forall in Hall. specialize (Hall e Hin). unfold ihi at 1 in Hall. cbn [fst snd] in Hall.
    destruct ((lo <=? c) && (c <=? hi)) eqn:E; [lia|]. now apply IH.
Qed.

(* ---------- the search tree ---------- *)
Fixpoint wtree_to_list (t : wtree) : list ivl :=
  match t with WLeaf => [] | WNode l lo hi w r => wtree_to_list l ++ (lo, hi, w) :: wtree_to_list r end.

Lemma wc_tree_inorder : wtree_to_list wc_tree = wcwidth_table.
Proof. vm_compute. reflexivity. Qed.

Lemma sorted_app_inv (l r : list ivl) x :
  StronglySorted (fun e1 e2 => ihi e1 < ilo e2) (l ++ x :: r) ->
  StronglySorted (fun e1 e2 => ihi e1 < ilo e2) l /\ StronglySorted (fun e1 e2 => ihi e1 < ilo e2) r /\
  (forall e, In e l -> ihi e < ilo x) /\ (forall e, In e r -> ihi x < ilo e).
Proof.
  induction l as [|y l IH]; cbn [app]; intros H.
  - inversion H as [|a b Hs Hall]. subst. split; [constructor|]. split; [exact Hs|]. split; [intros e []|].
    rewrite Forall_forall in Hall. exact Hall.
  - inversion H as [|a b Hs Hall]. subst. destruct (IH Hs) as (S1 & S2 & L & R).
    rewrite Forall_forall in Hall. split.
    + constructor; [exact S1|]. apply Forall_forall. intros e He. apply Hall. apply in_or_app. now left.
    + split; [exact S2|]. split; [|exact R]. intros e [<-|He]; [apply Hall; apply in_or_app; right; now left|now apply L].
Qed.

Lemma list_lookup_app_left (l r : list ivl) c :
  (forall e, In e r -> c < ilo e) -> list_lookup (l ++ r) c = list_lookup l c.
Proof.
  intros Hr. induction l as [|[[lo hi] w] l IH]; cbn [app list_lookup].
  - induction r as [|[[lo hi] w] r IHr]; [reflexivity|]. cbn [list_lookup].
    pose proof (Hr (lo, hi, w) ltac:(now left)) as H. unfold ilo in H. cbn [fst] in H.
    destruct ((lo <=? c) && (c <=? hi)) eqn:E; [lia|]. apply IHr. intros e He. apply Hr. now right.
  - destruct ((lo <=? c) && (c <=? hi)); [reflexivity|exact IH].
Qed.

Lemma list_lookup_app_right (l r : list ivl) c :
  (forall e, In e l -> ihi e < c) -> list_lookup (l ++ r) c = list_lookup r c.
Proof.
  intros Hl. induction l as [|[[lo hi] w] l IH]; cbn [app list_lookup]; [reflexivity|].
  pose proof (Hl (lo, hi, w) ltac:(now left)) as H. unfold ihi in H. cbn [fst snd] in H.
  destruct ((lo <=? c) && (c <=? hi)) eqn:E; [lia|]. apply IH. intros e He. apply Hl. now right.
Qed.

Lemma wtree_lookup_list t : StronglySorted (fun e1 e2 => ihi e1 < ilo e2) (wtree_to_list t) ->
  (forall e, In e (wtree_to_list t) -> ilo e <= ihi e) ->
  forall c, wtree_lookup t c = match list_lookup (wtree_to_list t) c with Some w => w | None => 1 end.
Proof.
  induction t as [|l IHl lo hi w r IHr]; intros Hs Hne c; cbn [wtree_lookup wtree_to_list]; [reflexivity|].
  cbn [wtree_to_list] in Hs, Hne. destruct (sorted_app_inv _ _ _ Hs) as (S1 & S2 & L & R).
  assert (Hx : lo <= hi) by (specialize (Hne (lo, hi, w) ltac:(apply in_or_app; right; now left)); exact Hne).
  destruct (c <? lo) eqn:E1.
  - rewrite IHl; [|exact S1|intros e He; apply Hne, in_or_app; now left].
    rewrite list_lookup_app_left; [reflexivity|].
    intros e [<-|He]; [unfold ilo; cbn [fst]; lia|].
    specialize (R e He). specialize (Hne e ltac:(apply in_or_app; right; now right)).
    unfold ihi at 1 in R. cbn [fst snd] in R. lia.
  - rewrite list_lookup_app_right.
    2:{ intros e He. specialize (L e He). unfold ilo at 1 in L. cbn [fst] in L. lia. }
    cbn [list_lookup]. destruct (hi <? c) eqn:E2.
    + destruct ((lo <=? c) && (c <=? hi)) eqn:E3; [lia|].
      apply IHr; [exact S2|intros e He; apply Hne, in_or_app; right; now right].
    + destruct ((lo <=? c) && (c <=? hi)) eqn:E3; [reflexivity|lia].
Qed.

(* ---------- the statements ---------- *)
Theorem table_sorted_disjoint : StronglySorted (fun e1 e2 => ihi e1 < ilo e2) wcwidth_table.
Proof. exact (cover_sorted _ _ _ table_is_contiguous_cover). Qed.

Theorem table_covers_every_code_point c :
  0 <= c < 1114112 -> exists lo hi w, In (lo, hi, w) wcwidth_table /\ lo <= c <= hi.
Proof.
  intros H. destruct (cover_lookup _ _ _ c table_is_contiguous_cover H) as (lo & hi & w & Hin & Hr & _).
  now exists lo, hi, w.
Qed.

(* the model's width of a code point is the width of THE interval of the dumped table containing it *)
Theorem wcwidth_tab_is_table_lookup lo hi w c :
  In (lo, hi, w) wcwidth_table -> lo <= c <= hi -> wcwidth_tab c = w.
Proof.
  intros Hin Hc. unfold wcwidth_tab. rewrite wtree_lookup_list.
  - rewrite wc_tree_inorder.
    rewrite (sorted_lookup_unique _ table_sorted_disjoint (lo, hi, w) c Hin Hc). reflexivity.
  - rewrite wc_tree_inorder. exact table_sorted_disjoint.
  - rewrite wc_tree_inorder. intros e He.
    destruct (cover_bounds _ _ _ table_is_contiguous_cover) as [_ B]. exact (proj1 (proj2 (B e He))).
Qed.

Theorem get_width_is_table_lookup lo hi w c :
  In (lo, hi, w) wcwidth_table -> lo <= c <= hi ->
  get_width wcwidth_tab c = Ok (if 0 <=? w then w else 0).
Proof.
  intros Hin Hc.
  destruct (cover_bounds _ _ _ table_is_contiguous_cover) as [_ B]. specialize (B _ Hin).
  unfold ilo, ihi in B. cbn [fst snd] in B.
  unfold get_width. destruct ((0 <=? c) && (c <? 1114112)) eqn:E; [|lia].
  unfold cw, get_char_width_gen. now rewrite (wcwidth_tab_is_table_lookup lo hi w c Hin Hc).
Qed.

Theorem table_lookup_both lo hi w c :
  In (lo, hi, w) wcwidth_table -> lo <= c <= hi ->
  wcwidth_tab c = w /\ get_width wcwidth_tab c = Ok (if 0 <=? w then w else 0).
Proof. intros Hin Hc. split; [exact (wcwidth_tab_is_table_lookup lo hi w c Hin Hc)|exact (get_width_is_table_lookup lo hi w c Hin Hc)]. Qed.
