(* C10 - bytes mode (utf8): the offset stays on a character boundary, and the editing keys of the
   bytes model simulate the character-level reference editor through the boundary map
   [boff t k] = byte offset of character index k in [encs t].
   C11's theorems about move_prev_char / move_next_char / calc_text_pos on encoded text
   (Proofs/Utf8Proofs.v) are used read-only. *)
From Coq Require Import ZArith List Bool Lia ZifyBool.
From Urwid Require Import PyBase PyList Utf8 wcwidth_table_gen str_util_gen Width WidthFacts WidthProofs Utf8Proofs.
From Urwid Require Import Edit EditSpec EditProofs EditBytes.
Import ListNotations.
Open Scope Z_scope.

Arguments Z.add : simpl never.
Arguments Z.sub : simpl never.
Arguments Z.mul : simpl never.
Arguments Z.div : simpl never.
Arguments Z.modulo : simpl never.
Arguments Z.ltb : simpl never.
Arguments Z.leb : simpl never.
Arguments Z.eqb : simpl never.
Arguments Z.gtb : simpl never.
Arguments Z.geb : simpl never.
Arguments Z.min : simpl never.
Arguments Z.max : simpl never.
Arguments Z.to_nat : simpl never.
Arguments Z.of_nat : simpl never.

(* ---------- the boundary map ---------- *)
Lemma boff_0 t : boff t 0 = 0.
Proof. reflexivity. Qed.

Lemma takez_dropz_id {A} (l : list A) k : takez k l ++ dropz k l = l.
Proof. unfold takez, dropz. apply firstn_skipn. Qed.

Lemma takez_app_zlen {A} (a b : list A) : takez (zlen a) (a ++ b) = a.
Proof.
  unfold takez, zlen. rewrite Nat2Z.id. rewrite firstn_app, Nat.sub_diag, firstn_all. cbn. apply app_nil_r.
Qed.

Lemma dropz_app_zlen {A} (a b : list A) : dropz (zlen a) (a ++ b) = b.
Proof.
  unfold dropz, zlen. rewrite Nat2Z.id. rewrite skipn_app, Nat.sub_diag, skipn_all. reflexivity.
Qed.

Lemma takez_boff t k : takez (boff t k) (encs t) = encs (takez k t).
Proof.
  replace (encs t) with (encs (takez k t ++ dropz k t)) by (now rewrite takez_dropz_id).
  rewrite encs_app. unfold boff. apply takez_app_zlen.
Qed.

Lemma dropz_boff t k : dropz (boff t k) (encs t) = encs (dropz k t).
Proof.
  replace (encs t) with (encs (takez k t ++ dropz k t)) by (now rewrite takez_dropz_id).
  rewrite encs_app. unfold boff. apply dropz_app_zlen.
Qed.

Lemma boff_le_len t k : 0 <= k <= zlen t -> boff t k <= zlen (encs t).
Proof. intros. rewrite <- boff_full. apply boff_mono; lia. Qed.

Lemma boff_lt t a b : 0 <= a < b -> b <= zlen t -> boff t a < boff t b.
Proof.
  intros H1 H2.
  destruct (split_at t a ltac:(lia)) as [c [_ Hn]].
  pose proof (boff_succ t a c ltac:(lia) Hn) as S.
  pose proof (zlen_utf8_encode c).
  pose proof (boff_mono t (a + 1) b ltac:(lia) H2). lia.
Qed.

Lemma boff_takez_app a b : boff (a ++ b) (zlen a) = zlen (encs a).
Proof. unfold boff. rewrite takez_app_zlen. reflexivity. Qed.

Lemma zlen_takez_le {A} (l : list A) k : 0 <= k <= zlen l -> zlen (takez k l) = k.
Proof. intros. rewrite zlen_takez by lia. lia. Qed.

Lemma encs_ins_at t p cs :
  ins_at (encs t) (boff t p) (encs cs) = encs (ins_at t p cs).
Proof.
  unfold ins_at. rewrite takez_boff, dropz_boff, !encs_app. reflexivity.
Qed.

Lemma boff_ins_at t p cs :
  0 <= p <= zlen t -> boff (ins_at t p cs) (p + zlen cs) = boff t p + zlen (encs cs).
Proof.
  intros H. unfold ins_at, boff at 1.
  replace (p + zlen cs) with (zlen (takez p t ++ cs)) by (rewrite zlen_app, zlen_takez_le by lia; lia).
  rewrite app_assoc, takez_app_zlen, encs_app, zlen_app. reflexivity.
Qed.

Lemma encs_del_at t a b :
  takez (boff t a) (encs t) ++ dropz (boff t b) (encs t) = encs (takez a t ++ dropz b t).
Proof. rewrite takez_boff, dropz_boff, encs_app. reflexivity. Qed.

Lemma boff_prefix_app a b k : 0 <= k <= zlen a -> boff (a ++ b) k = boff a k.
Proof.
  intros H. unfold boff, takez. f_equal. f_equal.
  rewrite firstn_app. replace (Z.to_nat k - length a)%nat with 0%nat by (unfold zlen in H; lia).
  cbn. apply app_nil_r.
Qed.

Lemma boff_takez_self t k j : 0 <= j <= k -> k <= zlen t -> boff (takez k t ++ dropz j t) j = boff t j \/ True.
Proof. auto. Qed.

Lemma Forall_cp_scalar cs : forallb scalar cs = true -> Forall cp cs.
Proof.
  intros H. apply Forall_forall. intros c Hc. apply scalar_cp.
  rewrite forallb_forall in H. apply H. exact Hc.
Qed.

Lemma encs_spaces n : encs (spaces n) = spaces n.
Proof.
  unfold spaces. induction (Z.to_nat n) as [|k IH]; [reflexivity|].
  cbn [replz]. rewrite encs_cons, IH. reflexivity.
Qed.

Lemma Forall_cp_spaces n : Forall cp (spaces n).
Proof.
  unfold spaces. induction (Z.to_nat n) as [|k IH]; cbn [replz]; constructor; [unfold cp; lia|exact IH].
Qed.

(* ---------- the representation relation ---------- *)
(* the bytes state sb represents the character-level state ss *)
Definition Rb (sb ss : st) : Prop :=
  text sb = encs (text ss) /\ pos sb = boff (text ss) (pos ss) /\
  multiline sb = multiline ss /\ allow_tab sb = allow_tab ss /\ var ss = VEdit /\
  Forall cp (text ss) /\ Inv ss.

Lemma Rb_inv sb ss : Rb sb ss -> Inv sb.
Proof.
  intros (Ht & Hp & _ & _ & _ & Hc & HI). unfold Inv in *. rewrite Ht, Hp.
  pose proof (boff_nonneg (text ss) (pos ss)). pose proof (boff_le_len (text ss) (pos ss) HI). lia.
Qed.

Lemma Rb_put sb ss tb pb ts ps :
  Rb sb ss -> tb = encs ts -> pb = boff ts ps -> Forall cp ts -> 0 <= ps <= zlen ts ->
  Rb (put sb tb pb) (put ss ts ps).
Proof.
  intros (_ & _ & Hm & Ha & Hv & _ & _) Ht Hp Hc Hr. unfold Rb, Inv. cbn [put text pos multiline allow_tab var].
  tauto.
Qed.

(* str.encode("utf-8", "replace"): what cannot be encoded (a lone surrogate) becomes "?" *)
Definition sanitize (cs : list Z) : list Z := map (fun c => if scalar c then c else 63) cs.

Lemma uer_sanitize cs : utf8_encode_replace cs = encs (sanitize cs).
Proof.
  unfold utf8_encode_replace, encs, sanitize. induction cs as [|c r IH]; [reflexivity|].
  cbn [map flat_map]. rewrite IH. destruct (scalar c); reflexivity.
Qed.

Lemma sanitize_scalar cs : Forall (fun c => scalar c = true) (sanitize cs).
Proof.
  unfold sanitize. apply Forall_forall. intros x Hx. apply in_map_iff in Hx. destruct Hx as (c & <- & _).
  destruct (scalar c) eqn:E; [exact E|reflexivity].
Qed.

Lemma sanitize_id cs : forallb scalar cs = true -> sanitize cs = cs.
Proof.
  intros H. unfold sanitize. induction cs as [|c r IH]; [reflexivity|].
  cbn [forallb] in H. apply andb_true_iff in H. destruct H as [H1 H2]. cbn [map]. rewrite H1, IH; auto.
Qed.

Lemma uer_scalar cs : forallb scalar cs = true -> utf8_encode_replace cs = encs cs.
Proof. intros H. rewrite uer_sanitize, sanitize_id; auto. Qed.

Section Bytes.
Variable wcw : Z -> Z.
Variable upper : Z -> list Z.
Variable lower : list Z -> list Z.

Notation ref_key := (ref_key (Width.cw wcw) upper lower).
Notation bkeypress := (bkeypress wcw MUtf8 utf8_encode_replace).

(* insertion of encoded characters *)
Lemma b_insert sb ss cs :
  Rb sb ss -> Forall cp cs ->
  let '(sb', sg) := insert_text sb (encs cs) in
  Rb sb' (put ss (ins_at (text ss) (pos ss) cs) (pos ss + zlen cs)) /\
  chain (text sb) sg (text sb') /\
  text sb' = encs (ins_at (text ss) (pos ss) cs) /\ pos sb' = pos sb + zlen (encs cs).
Proof.
  intros R Hcs. pose proof (Rb_inv _ _ R) as HIb.
  rewrite (insert_text_put sb (encs cs) HIb).
  destruct R as (Ht & Hp & Hm & Ha & Hv & Hc & HI). pose proof HI as HI'. unfold Inv in HI'.
  assert (E1: ins_at (text sb) (pos sb) (encs cs) = encs (ins_at (text ss) (pos ss) cs)).
  { rewrite Ht, Hp. apply encs_ins_at. }
  split; [|split; [|split]].
  - apply Rb_put; [unfold Rb; auto 10|exact E1| | |].
    + rewrite Hp. symmetry. apply boff_ins_at. exact HI'.
    + unfold ins_at. apply Forall_app. split; [apply Forall_takez; exact Hc|].
      apply Forall_app. split; [exact Hcs|apply Forall_dropz; exact Hc].
    + rewrite zlen_ins_at by lia. pose proof (zlen_nonneg cs). lia.
  - cbn [chain put text]. auto.
  - cbn [put text]. exact E1.
  - reflexivity.
Qed.

(* ---------- the editing keys: simulation of the reference editor ---------- *)
Definition edit_key (k : key) : Prop :=
  match k with
  | KText cs => forallb scalar cs = true        (* what str.encode("utf-8") accepts *)
  | KEnter | KLeft | KRight | KBackspace | KDelete => True
  | KTab | KUp | KDown | KHome | KEnd => False
  end.

Theorem bkey_sim sb ss k w lay lay' :
  Rb sb ss -> edit_key k ->
  let '(sb', sg, r) := bkeypress sb k w lay in
  Rb sb' (fst (ref_key ss k w lay')) /\ r = snd (ref_key ss k w lay') /\
  chain (text sb) sg (text sb') /\ (r = Ok RUnhandled -> sg = []).
Proof.
  intros R Hk. pose proof (Rb_inv _ _ R) as HIb. pose proof HIb as HIb'. unfold Inv in HIb'.
  pose proof R as (Ht & Hp & Hm & Ha & Hv & Hc & HI). pose proof HI as HI'. unfold Inv in HI'.
  assert (Hp0: (pos sb =? 0) = (pos ss =? 0)).
  { rewrite Hp. destruct (pos ss =? 0) eqn:E.
    - assert (pos ss = 0) by lia. rewrite H. reflexivity.
    - pose proof (boff_lt (text ss) 0 (pos ss) ltac:(lia) ltac:(lia)). rewrite boff_0 in H. lia. }
  assert (Hpe: (pos sb >=? zlen (text sb)) = (pos ss >=? zlen (text ss))).
  { rewrite Hp, Ht, <- boff_full. destruct (pos ss >=? zlen (text ss)) eqn:E.
    - assert (pos ss = zlen (text ss)) by lia. rewrite H. lia.
    - pose proof (boff_lt (text ss) (pos ss) (zlen (text ss)) ltac:(lia) ltac:(lia)). lia. }
  destruct k; cbn [edit_key] in Hk; try contradiction; unfold EditBytes.bkeypress, EditSpec.ref_key; cbv zeta.
  - (* KText *)
    unfold bvalid_char, Edit.valid_char. rewrite Hv.
    destruct cs as [|c r]; [cbn [fst snd chain]; splits; auto; discriminate|].
    destruct ((Width.cw wcw c =? 2) || match r with [] => 32 <=? c | _ :: _ => false end).
    + rewrite (uer_scalar _ Hk).
      pose proof (b_insert sb ss (c :: r) R (Forall_cp_scalar _ Hk)) as B.
      destruct (insert_text sb (encs (c :: r))) as [sb' sg]. destruct B as (B1 & B2 & _).
      cbn [fst snd]. splits; auto; discriminate.
    + cbn [fst snd chain]. splits; auto.
  - (* KEnter *)
    rewrite Hm. destruct (multiline ss).
    + pose proof (b_insert sb ss [10] R ltac:(constructor; [unfold cp; lia|constructor])) as B.
      change (encs [10]) with [10] in B.
      destruct (insert_text sb [10]) as [sb' sg]. destruct B as (B1 & B2 & _).
      cbn [fst snd]. splits; auto; discriminate.
    + cbn [fst snd chain]. splits; auto.
  - (* KLeft *)
    rewrite Hp0. destruct (pos ss =? 0) eqn:E.
    + cbn [fst snd chain]. splits; auto.
    + rewrite Ht, Hp.
      pose proof (move_prev_char_utf8 (text ss) 0 (pos ss) Hc ltac:(lia) ltac:(lia)) as M.
      rewrite boff_0 in M. rewrite M.
      pose proof (boff_nonneg (text ss) (pos ss - 1)).
      pose proof (boff_le_len (text ss) (pos ss - 1) ltac:(lia)).
      rewrite set_edit_pos_put by (rewrite Ht; lia).
      cbn [fst snd chain put text]. splits; auto; try discriminate.
      apply Rb_put; auto; lia.
  - (* KRight *)
    rewrite Hpe. destruct (pos ss >=? zlen (text ss)) eqn:E.
    + cbn [fst snd chain]. splits; auto.
    + rewrite Ht, Hp. rewrite <- boff_full.
      rewrite (move_next_char_utf8 (text ss) (pos ss) (zlen (text ss)) Hc ltac:(lia) ltac:(lia)).
      pose proof (boff_nonneg (text ss) (pos ss + 1)).
      pose proof (boff_le_len (text ss) (pos ss + 1) ltac:(lia)).
      rewrite set_edit_pos_put by (rewrite Ht; lia).
      cbn [fst snd chain put text]. splits; auto; try discriminate.
      apply Rb_put; auto; lia.
  - (* KBackspace *)
    change (pos (with_pref sb None)) with (pos sb). change (text (with_pref sb None)) with (text sb).
    rewrite Hp0. destruct (pos ss =? 0) eqn:E.
    + cbn [fst snd chain with_pref text]. splits; auto.
    + rewrite Ht, Hp.
      pose proof (move_prev_char_utf8 (text ss) 0 (pos ss) Hc ltac:(lia) ltac:(lia)) as M.
      rewrite boff_0 in M. rewrite M.
      rewrite encs_del_at.
      set (t' := takez (pos ss - 1) (text ss) ++ dropz (pos ss) (text ss)).
      assert (Et': t' = del_at (text ss) (pos ss - 1)).
      { unfold t', del_at. repeat f_equal. lia. }
      pose proof (zlen_del_at (text ss) (pos ss - 1) ltac:(lia)) as L. rewrite <- Et' in L.
      assert (Hc': Forall cp t').
      { unfold t'. apply Forall_app. split; [apply Forall_takez|apply Forall_dropz]; exact Hc. }
      assert (Eb: boff t' (pos ss - 1) = boff (text ss) (pos ss - 1)).
      { unfold t'. rewrite boff_prefix_app by (rewrite zlen_takez_le by lia; lia).
        unfold boff. f_equal. f_equal. unfold takez. rewrite firstn_firstn. f_equal. lia. }
      destruct (set_edit_text (with_pref sb None) (encs t')) as [s1 sg] eqn:Es.
      pose proof (set_edit_text_state (with_pref sb None) (encs t') ltac:(cbn [with_pref pos]; lia)) as H1.
      pose proof (set_edit_text_sigs (with_pref sb None) (encs t')) as H2.
      rewrite Es in H1, H2. cbn [fst snd] in H1, H2. subst s1 sg.
      pose proof (boff_nonneg t' (pos ss - 1)).
      pose proof (boff_le_len t' (pos ss - 1) ltac:(lia)).
      rewrite set_edit_pos_put by (cbn [put text]; rewrite <- Eb; lia).
      rewrite put_put. cbn [fst snd chain put text with_pref pos]. rewrite <- Et'.
      splits; auto; try discriminate.
      apply Rb_put; auto; lia.
  - (* KDelete *)
    change (pos (with_pref sb None)) with (pos sb). change (text (with_pref sb None)) with (text sb).
    rewrite Hpe. destruct (pos ss >=? zlen (text ss)) eqn:E.
    + cbn [fst snd chain with_pref text]. splits; auto.
    + rewrite Ht, Hp. rewrite <- boff_full.
      rewrite (move_next_char_utf8 (text ss) (pos ss) (zlen (text ss)) Hc ltac:(lia) ltac:(lia)).
      rewrite encs_del_at. fold (del_at (text ss) (pos ss)).
      set (t' := del_at (text ss) (pos ss)).
      pose proof (zlen_del_at (text ss) (pos ss) ltac:(lia)) as L. fold t' in L.
      assert (Hc': Forall cp t').
      { unfold t', del_at. apply Forall_app. split; [apply Forall_takez|apply Forall_dropz]; exact Hc. }
      assert (Eb: boff t' (pos ss) = boff (text ss) (pos ss)).
      { unfold t', del_at. rewrite boff_prefix_app by (rewrite zlen_takez_le by lia; lia).
        unfold boff. f_equal. f_equal. unfold takez. rewrite firstn_firstn. f_equal. lia. }
      destruct (set_edit_text (with_pref sb None) (encs t')) as [s1 sg] eqn:Es.
      pose proof (set_edit_text_state (with_pref sb None) (encs t') ltac:(cbn [with_pref pos]; lia)) as H1.
      pose proof (set_edit_text_sigs (with_pref sb None) (encs t')) as H2.
      rewrite Es in H1, H2. cbn [fst snd] in H1, H2. subst s1 sg.
      pose proof (boff_le_len t' (pos ss) ltac:(lia)).
      cbn [fst snd chain put text with_pref pos].
      replace (Z.min (boff (text ss) (pos ss)) (zlen (encs t'))) with (boff t' (pos ss)) by lia.
      splits; auto; try discriminate.
      apply Rb_put; auto; lia.
Qed.

(* tab: the number of blanks is computed from the BYTE offset (edit.py: 8 - (self.edit_pos % 8)), so
   after multi-byte characters it differs from the character-level count; apart from the count it
   is the insertion of blanks at the cursor *)
Theorem btab_sim sb ss w lay :
  Rb sb ss ->
  let n := 8 - (pos sb mod 8) in
  let '(sb', sg, r) := bkeypress sb KTab w lay in
  if allow_tab ss then
    Rb sb' (put ss (ins_at (text ss) (pos ss) (spaces n)) (pos ss + zlen (spaces n))) /\ r = Ok RHandled /\
    chain (text sb) sg (text sb')
  else sb' = sb /\ r = Ok RUnhandled /\ sg = [].
Proof.
  intros R. cbv zeta. unfold EditBytes.bkeypress.
  pose proof R as (_ & _ & _ & Ha & _). rewrite Ha. destruct (allow_tab ss).
  - pose proof (b_insert sb ss (spaces (8 - pos sb mod 8)) R (Forall_cp_spaces _)) as B.
    rewrite encs_spaces in B.
    destruct (insert_text sb (spaces (8 - pos sb mod 8))) as [sb' sg]. destruct B as (B1 & B2 & _). auto.
  - auto.
Qed.


(* ---------- layouts that cut the text at character boundaries ---------- *)
Definition scalars (d : list Z) : Prop := Forall (fun c => scalar c = true) d.

Lemma scalars_cp d : scalars d -> Forall cp d.
Proof. intros H. eapply Forall_impl; [|exact H]. intros c Hc. apply scalar_cp. exact Hc. Qed.

(* o is the byte offset of a character index of d *)
Definition bnd (d : list Z) (o : Z) : Prop := exists j, 0 <= j <= zlen d /\ o = boff d j.

Definition seg_bnd (d : list Z) (s : seg) : Prop :=
  match s with
  | SPad _ => True
  | SHint _ o => bnd d o
  | SText _ o e => exists a b, 0 <= a <= b /\ b <= zlen d /\ o = boff d a /\ e = boff d b
  end.
Definition line_bnd (d : list Z) (l : line) : Prop := Forall (seg_bnd d) l.
Definition lay_bnd (d : list Z) (lay : layout) : Prop := Forall (line_bnd d) lay.

Definition cpos_bnd (d : list Z) (c : cpos) : Prop :=
  match c with
  | CNone => True
  | CInt o => bnd d o
  | CSeg sc o e => seg_bnd d (SText sc o e)
  end.

Lemma btpos_bnd d a b col p :
  Forall cp d -> 0 <= a <= b -> b <= zlen d ->
  btpos wcw MUtf8 (encs d) (boff d a) (boff d b) col = Ok p -> bnd d p.
Proof.
  intros Hc H1 H2 H. unfold btpos in H.
  destruct (calc_text_pos_utf8_agrees wcw d a b col Hc H1 H2) as (q & c & _ & Hq & E).
  rewrite E in H. inversion H; subst. exists q. split; [lia|reflexivity].
Qed.

Lemma bclp_finish_bnd d c p :
  Forall cp d -> cpos_bnd d c -> bclp_finish wcw MUtf8 (encs d) c = Ok (Some p) -> bnd d p.
Proof.
  intros Hc Hb H. destruct c as [|o|sc o e]; cbn [bclp_finish] in H.
  - discriminate.
  - inversion H; subst. exact Hb.
  - destruct Hb as (a & b & H1 & H2 & -> & ->).
    destruct (btpos wcw MUtf8 (encs d) (boff d a) (boff d b) (sc - 1)) as [q|] eqn:E; [|discriminate].
    inversion H; subst. eapply btpos_bnd; eauto.
Qed.

Lemma clp_common_bnd d pc cur o csc c :
  bnd d o -> cpos_bnd d c -> cpos_bnd d (snd (fst (clp_common pc cur o csc c))).
Proof.
  intros Ho Hc. unfold clp_common.
  destruct csc as [v|]; [destruct (Z.abs (pc - cur) <? Z.abs (pc - v))|]; cbn [fst snd cpos_bnd]; assumption.
Qed.

Lemma bclp_int_bnd d segs : forall pc csc c cur p,
  Forall cp d -> line_bnd d segs -> cpos_bnd d c ->
  bclp_int wcw MUtf8 (encs d) segs pc csc c cur = Ok (Some p) -> bnd d p.
Proof.
  induction segs as [|s r IH]; intros pc csc c cur p Hc Hl Hb H; cbn [bclp_int] in H.
  - eapply bclp_finish_bnd; eauto.
  - inversion Hl as [|s' r' Hs Hr]; subst.
    destruct s as [sc|sc o|sc o e].
    + eapply IH; eauto.
    + pose proof (clp_common_bnd d pc cur o csc c Hs Hb) as Hb1.
      destruct (clp_common pc cur o csc c) as [[csc1 cp1] brk]. cbn [fst snd] in Hb1.
      destruct brk; [eapply bclp_finish_bnd; eauto|eapply IH; eauto].
    + destruct ((cur <=? pc) && (pc <? cur + sc)).
      * destruct Hs as (a & b & H1 & H2 & -> & ->).
        destruct (btpos wcw MUtf8 (encs d) (boff d a) (boff d b) (pc - cur)) as [q|] eqn:E; [|discriminate].
        inversion H; subst. eapply btpos_bnd; eauto.
      * assert (Ho: bnd d o).
        { destruct Hs as (a & b & H1 & H2 & -> & _). exists a. split; [lia|reflexivity]. }
        destruct (cur <=? pc).
        -- pose proof (clp_common_bnd d pc cur o (Some (cur + sc - 1)) (CSeg sc o e) Ho Hs) as Hb1.
           destruct (clp_common pc cur o (Some (cur + sc - 1)) (CSeg sc o e)) as [[csc1 cp1] brk]. cbn [fst snd] in Hb1.
           destruct brk; [eapply bclp_finish_bnd; eauto|eapply IH; eauto].
        -- pose proof (clp_common_bnd d pc cur o csc c Ho Hb) as Hb1.
           destruct (clp_common pc cur o csc c) as [[csc1 cp1] brk]. cbn [fst snd] in Hb1.
           destruct brk; [eapply bclp_finish_bnd; eauto|eapply IH; eauto].
Qed.

Lemma clp_left_bnd d segs o : line_bnd d segs -> clp_left segs = Some o -> bnd d o.
Proof.
  induction segs as [|s r IH]; intros Hl H; cbn [clp_left] in H; [discriminate|].
  inversion Hl as [|s' r' Hs Hr]; subst.
  destruct s as [sc|sc o'|sc o' e].
  - apply IH; assumption.
  - inversion H; subst. exact Hs.
  - inversion H; subst. destruct Hs as (a & b & H1 & H2 & -> & _). exists a. split; [lia|reflexivity].
Qed.

Lemma clp_last_bnd d segs : forall acc s,
  line_bnd d segs -> (forall a, acc = Some a -> seg_bnd d a) -> clp_last segs acc = Some s -> seg_bnd d s.
Proof.
  induction segs as [|s0 r IH]; intros acc s Hl Ha H; cbn [clp_last] in H.
  - apply Ha. exact H.
  - inversion Hl as [|s' r' Hs Hr]; subst.
    destruct s0 as [sc|sc o|sc o e].
    + eapply IH; eauto.
    + eapply IH; [exact Hr| |exact H]. intros a Ea. inversion Ea; subst. exact Hs.
    + eapply IH; [exact Hr| |exact H]. intros a Ea. inversion Ea; subst. exact Hs.
Qed.

Lemma bcalc_line_pos_bnd d segs pc p :
  Forall cp d -> line_bnd d segs -> bcalc_line_pos wcw MUtf8 (encs d) segs pc = Ok (Some p) -> bnd d p.
Proof.
  intros Hc Hl H. destruct pc as [x| |]; cbn [bcalc_line_pos] in H.
  - eapply bclp_int_bnd; eauto. exact I.
  - inversion H as [H1]. eapply clp_left_bnd; eauto.
  - unfold bclp_right in H.
    destruct (clp_last segs None) as [s|] eqn:E; [|discriminate].
    pose proof (clp_last_bnd d segs None s Hl ltac:(intros a Ea; discriminate) E) as Hs.
    destruct s as [sc|sc o|sc o e]; [discriminate| |].
    + inversion H; subst. exact Hs.
    + destruct Hs as (a & b & H1 & H2 & -> & ->).
      destruct (btpos wcw MUtf8 (encs d) (boff d a) (boff d b) (sc - 1)) as [q|] eqn:Eq; [|discriminate].
      inversion H; subst. eapply btpos_bnd; eauto.
Qed.

Lemma nth_line_bnd d (lay : layout) n : lay_bnd d lay -> line_bnd d (nth n lay []).
Proof.
  intros H. destruct (nth_in_or_default n lay []) as [Hin|E].
  - unfold lay_bnd in H. rewrite Forall_forall in H. apply H. exact Hin.
  - rewrite E. constructor.
Qed.

Lemma bnd_0 d : bnd d 0.
Proof. exists 0. split; [pose proof (zlen_nonneg d); lia|reflexivity]. Qed.

Lemma bcp_alt_bnd d lay pc : forall above below p,
  Forall cp d -> lay_bnd d lay -> bcp_alt wcw MUtf8 (encs d) lay pc above below = Ok p -> bnd d p.
Proof.
  induction above as [|a ar IH]; intros below p Hc Hl H; cbn [bcp_alt] in H.
  - inversion H; subst. apply bnd_0.
  - destruct below as [|b br]; [inversion H; subst; apply bnd_0|].
    destruct (bcalc_line_pos wcw MUtf8 (encs d) (nth (Z.to_nat a) lay []) pc) as [[q|]|] eqn:E1; try discriminate.
    + inversion H; subst. eapply bcalc_line_pos_bnd; eauto. apply nth_line_bnd; exact Hl.
    + destruct (bcalc_line_pos wcw MUtf8 (encs d) (nth (Z.to_nat b) lay []) pc) as [[q|]|] eqn:E2; try discriminate.
      * inversion H; subst. eapply bcalc_line_pos_bnd; eauto. apply nth_line_bnd; exact Hl.
      * eapply IH; eauto.
Qed.

Lemma bcalc_pos_bnd d lay pc row p :
  Forall cp d -> lay_bnd d lay -> bcalc_pos wcw MUtf8 (encs d) lay pc row = Ok p -> bnd d p.
Proof.
  intros Hc Hl H. unfold bcalc_pos in H.
  destruct ((row <? 0) || (row >=? zlen lay)); [discriminate|].
  destruct (bcalc_line_pos wcw MUtf8 (encs d) (nth (Z.to_nat row) lay []) pc) as [[q|]|] eqn:E1; try discriminate.
  - inversion H; subst. eapply bcalc_line_pos_bnd; eauto. apply nth_line_bnd; exact Hl.
  - eapply bcp_alt_bnd; eauto.
Qed.

Lemma shift_line_bnd d l a : line_bnd d l -> line_bnd d (shift_line l a).
Proof.
  intros H. unfold shift_line. destruct l as [|[sc|sc o|sc o e] r].
  - destruct (a =? 0); [exact H|constructor; [exact I|exact H]].
  - inversion H; subst. destruct (a + sc =? 0); [assumption|constructor; [exact I|assumption]].
  - destruct (a =? 0); [exact H|constructor; [exact I|exact H]].
  - destruct (a =? 0); [exact H|constructor; [exact I|exact H]].
Qed.

Lemma replace_row_bnd d (lay : layout) y l :
  lay_bnd d lay -> line_bnd d l -> lay_bnd d (takez y lay ++ [l] ++ dropz (y + 1) lay).
Proof.
  intros H Hl. unfold lay_bnd. apply Forall_app. split; [apply Forall_takez; exact H|].
  apply Forall_app. split; [constructor; [exact Hl|constructor]|apply Forall_dropz; exact H].
Qed.

Lemma bglt_bnd d s w lay trans :
  lay_bnd d lay -> bget_line_translation wcw MUtf8 s w lay = Ok trans -> lay_bnd d trans.
Proof.
  intros Hl H. unfold bget_line_translation in H.
  destruct (negb (shiftv s)); [inversion H; subst; exact Hl|].
  destruct (bcalc_coords wcw MUtf8 (disp s) lay (pos s + zlen (caption s))) as [[x y]|]; [|discriminate].
  destruct (x <? 0).
  - inversion H; subst. apply replace_row_bnd; [exact Hl|]. apply shift_line_bnd, nth_line_bnd. exact Hl.
  - destruct (x >=? w); inversion H; subst; [|exact Hl].
    apply replace_row_bnd; [exact Hl|]. apply shift_line_bnd, nth_line_bnd. exact Hl.
Qed.

(* ---------- the invariant ---------- *)
(* caption and text are UTF-8 (encodings of scalar values) and the offset is the byte offset of a
   character index of the text *)
Definition OnB (sb : st) : Prop :=
  exists c t k, caption sb = encs c /\ scalars c /\ text sb = encs t /\ scalars t /\
                0 <= k <= zlen t /\ pos sb = boff t k /\ mask sb = None.

Lemma OnB_disp sb c t :
  caption sb = encs c -> text sb = encs t -> mask sb = None -> disp sb = encs (c ++ t).
Proof. intros Hc Ht Hm. unfold disp. rewrite Hm, Hc, Ht, encs_app. reflexivity. Qed.

Lemma clamp_bnd c t j :
  0 <= j <= zlen (c ++ t) ->
  exists k, 0 <= k <= zlen t /\ clampz (boff (c ++ t) j - zlen (encs c)) 0 (zlen (encs t)) = boff t k.
Proof.
  intros H. rewrite zlen_app in H. pose proof (zlen_nonneg c). pose proof (zlen_nonneg t).
  destruct (Z_le_gt_dec j (zlen c)) as [L|G].
  - exists 0. split; [lia|]. rewrite boff_prefix_app by lia.
    pose proof (boff_le_len c j ltac:(lia)). pose proof (zlen_nonneg (encs t)).
    rewrite boff_0. unfold clampz. lia.
  - exists (j - zlen c). split; [lia|].
    assert (E: boff (c ++ t) j = zlen (encs c) + boff t (j - zlen c)).
    { unfold boff, takez. rewrite firstn_app, encs_app, zlen_app.
      rewrite firstn_all2 by (unfold zlen in *; lia).
      replace (Z.to_nat j - length c)%nat with (Z.to_nat (j - zlen c)) by (unfold zlen in *; lia).
      reflexivity. }
    rewrite E. pose proof (boff_nonneg t (j - zlen c)). pose proof (boff_le_len t (j - zlen c) ltac:(lia)).
    unfold clampz. lia.
Qed.

Definition same_frame (s s' : st) : Prop :=
  caption s' = caption s /\ mask s' = mask s /\ multiline s' = multiline s /\ allow_tab s' = allow_tab s.

Lemma OnB_moved sb s' k' t c :
  caption sb = encs c -> scalars c -> text sb = encs t -> scalars t -> mask sb = None ->
  same_frame sb s' -> text s' = text sb -> 0 <= k' <= zlen t -> pos s' = boff t k' -> OnB s'.
Proof.
  intros Hc Sc Ht St Hm (F1 & F2 & _) Et Hk Hp. exists c, t, k'.
  rewrite F1, F2, Et. auto 10.
Qed.

(* move_cursor_to_coords keeps the offset on a boundary when the layout cuts at boundaries *)
Lemma bmctc_OnB sb w lay x y :
  OnB sb -> (forall d, disp sb = encs d -> scalars d -> lay_bnd d lay) ->
  OnB (fst (bmove_cursor_to_coords wcw MUtf8 sb w lay x y)) /\
  same_frame sb (fst (bmove_cursor_to_coords wcw MUtf8 sb w lay x y)) /\
  text (fst (bmove_cursor_to_coords wcw MUtf8 sb w lay x y)) = text sb.
Proof.
  intros HB HL. pose proof HB as (c & t & k & Hc & Sc & Ht & St & Hk & Hp & Hm).
  assert (Same: same_frame sb sb) by (unfold same_frame; auto).
  unfold bmove_cursor_to_coords.
  destruct (bget_line_translation wcw MUtf8 sb w lay) as [trans|] eqn:Et; [|cbn [fst]; auto].
  destruct (bposition_coords wcw MUtf8 sb w lay 0) as [[tx ty]|]; [|cbn [fst]; auto].
  destruct ((y <? ty) || (y >=? zlen trans)); [cbn [fst]; auto|].
  destruct (bcalc_pos wcw MUtf8 (disp sb) trans x y) as [p|] eqn:Ep; [|cbn [fst]; auto].
  cbn [fst].
  pose proof (OnB_disp sb c t Hc Ht Hm) as Ed.
  assert (Sd: scalars (c ++ t)) by (apply Forall_app; auto).
  pose proof (bglt_bnd (c ++ t) sb w lay trans (HL _ Ed Sd) Et) as Hb.
  rewrite Ed in Ep.
  destruct (bcalc_pos_bnd (c ++ t) trans x y p (scalars_cp _ Sd) Hb Ep) as (j & Hj & ->).
  destruct (clamp_bnd c t j Hj) as (k' & Hk' & Ek).
  rewrite Hc, Ht. rewrite Ek.
  pose proof (boff_nonneg t k'). pose proof (boff_le_len t k' Hk').
  rewrite <- Ht. rewrite set_edit_pos_put by (rewrite Ht; lia).
  split; [|split; [unfold same_frame; cbn; auto|reflexivity]].
  eapply (OnB_moved sb _ k' t c); eauto; unfold same_frame; cbn; auto.
Qed.

Lemma bgcc_state sb w lay : fst (bget_cursor_coords wcw MUtf8 sb w lay) = with_shiftv sb true.
Proof. reflexivity. Qed.

Lemma bgpc_state sb w lay :
  fst (bget_pref_col wcw MUtf8 sb w lay) = sb \/ fst (bget_pref_col wcw MUtf8 sb w lay) = with_shiftv sb true.
Proof.
  unfold bget_pref_col, bget_cursor_coords.
  destruct (pref sb) as [[c w']|]; [destruct (w' =? w); [left; reflexivity|]|];
    destruct (bposition_coords wcw MUtf8 (with_shiftv sb true) w lay (pos (with_shiftv sb true))) as [[x y]|]; right; reflexivity.
Qed.

Lemma OnB_flags sb s' :
  OnB sb -> same_frame sb s' -> text s' = text sb -> pos s' = pos sb -> OnB s'.
Proof.
  intros (c & t & k & Hc & Sc & Ht & St & Hk & Hp & Hm) (F1 & F2 & _) Et Ep.
  exists c, t, k. rewrite F1, F2, Et, Ep. auto 10.
Qed.

Lemma disp_flags sb s' : same_frame sb s' -> text s' = text sb -> disp s' = disp sb.
Proof. intros (F1 & F2 & _) Et. unfold disp. rewrite F1, F2, Et. reflexivity. Qed.

(* what an event must satisfy: the layout it carries cuts the displayed text at character
   boundaries; a set_edit_pos argument designates a boundary *)
Definition ev_ok (sb : st) (e : event) : Prop :=
  match e with
  | EKey (KUp | KDown | KHome | KEnd) _ lay | EClick _ _ _ _ lay =>
      forall d, disp sb = encs d -> scalars d -> lay_bnd d lay
  | ESetPos p => forall t, text sb = encs t -> scalars t -> bnd t (clampz p 0 (zlen (text sb)))
  | _ => True
  end.

Lemma encs_inj a b : scalars a -> scalars b -> encs a = encs b -> a = b.
Proof.
  intros Ha Hb E. pose proof (strict_decode_encs a Ha) as Da. pose proof (strict_decode_encs b Hb) as Db.
  rewrite E in Da. congruence.
Qed.

Lemma ref_key_scalars ss k w lay :
  scalars (text ss) -> edit_key k -> scalars (text (fst (ref_key ss k w lay))).
Proof.
  intros Hs Hk. unfold scalars in *.
  assert (Hdel: forall p, Forall (fun c => scalar c = true) (del_at (text ss) p)).
  { intros p. unfold del_at. apply Forall_app. split; [apply Forall_takez|apply Forall_dropz]; exact Hs. }
  destruct k; cbn [edit_key] in Hk; try contradiction; unfold EditSpec.ref_key; cbv zeta.
  - destruct (valid_char (Width.cw wcw) upper lower ss cs) as [[|]|]; cbn [fst put text]; auto.
    unfold ins_at. apply Forall_app. split; [apply Forall_takez; exact Hs|].
    apply Forall_app. split; [|apply Forall_dropz; exact Hs].
    apply Forall_forall. intros c Hc. rewrite forallb_forall in Hk. apply Hk. exact Hc.
  - destruct (multiline ss); cbn [fst put text]; auto.
    unfold ins_at. apply Forall_app. split; [apply Forall_takez; exact Hs|].
    apply Forall_app. split; [constructor; [reflexivity|constructor]|apply Forall_dropz; exact Hs].
  - destruct (pos ss =? 0); cbn [fst put text]; auto.
  - destruct (pos ss >=? zlen (text ss)); cbn [fst put text]; auto.
  - destruct (pos ss =? 0); cbn [fst put text with_pref]; auto.
  - destruct (pos ss >=? zlen (text ss)); cbn [fst put text with_pref]; auto.
Qed.


(* ---------- configuration is never touched ---------- *)
Lemma same_frame_refl s : same_frame s s.
Proof. unfold same_frame; auto. Qed.

Lemma same_frame_trans a b c : same_frame a b -> same_frame b c -> same_frame a c.
Proof. unfold same_frame. intuition congruence. Qed.

Lemma bmctc_frame sb w lay x y :
  same_frame sb (fst (bmove_cursor_to_coords wcw MUtf8 sb w lay x y)) /\
  text (fst (bmove_cursor_to_coords wcw MUtf8 sb w lay x y)) = text sb.
Proof.
  unfold bmove_cursor_to_coords.
  destruct (bget_line_translation wcw MUtf8 sb w lay) as [trans|]; [|split; [apply same_frame_refl|reflexivity]].
  destruct (bposition_coords wcw MUtf8 sb w lay 0) as [[tx ty]|]; [|split; [apply same_frame_refl|reflexivity]].
  destruct ((y <? ty) || (y >=? zlen trans)); [split; [apply same_frame_refl|reflexivity]|].
  destruct (bcalc_pos wcw MUtf8 (disp sb) trans x y) as [p|]; split; try apply same_frame_refl; try reflexivity.
  unfold same_frame; cbn; auto.
Qed.

Lemma bkeypress_frame sb k w lay :
  same_frame sb (fst (fst (bkeypress sb k w lay))).
Proof.
  unfold EditBytes.bkeypress.
  destruct k.
  - destruct (bvalid_char wcw cs) as [[|]|]; try apply same_frame_refl.
    unfold same_frame; cbn; auto.
  - destruct (allow_tab sb) eqn:E; [|apply same_frame_refl]. unfold same_frame; cbn; auto.
  - destruct (multiline sb) eqn:E; [|apply same_frame_refl]. unfold same_frame; cbn; auto.
  - destruct (pos sb =? 0); [apply same_frame_refl|].
    destruct (Width.move_prev_char MUtf8 (text sb) 0 (pos sb)); [|apply same_frame_refl]. unfold same_frame; cbn; auto.
  - destruct (pos sb >=? zlen (text sb)); [apply same_frame_refl|].
    destruct (Width.move_next_char MUtf8 (text sb) (pos sb) (zlen (text sb))); [|apply same_frame_refl].
    unfold same_frame; cbn; auto.
  - unfold bget_cursor_coords.
    destruct (bposition_coords wcw MUtf8 (with_shiftv sb true) w lay (pos (with_shiftv sb true))) as [[x y]|]; [|unfold same_frame; cbn; auto].
    pose proof (bgpc_state (with_shiftv sb true) w lay) as G.
    destruct (bget_pref_col wcw MUtf8 (with_shiftv sb true) w lay) as [s2 [pc|]]; cbn [fst] in G;
      [|destruct G as [-> | ->]; unfold same_frame; cbn; auto].
    pose proof (bmctc_frame s2 w lay pc (y - 1)) as [F _].
    assert (F0: same_frame sb s2) by (destruct G as [-> | ->]; unfold same_frame; cbn; auto).
    destruct (bmove_cursor_to_coords wcw MUtf8 s2 w lay pc (y - 1)) as [s3 [[|]|]]; cbn [fst] in *; eapply same_frame_trans; eauto.
  - unfold bget_cursor_coords.
    destruct (bposition_coords wcw MUtf8 (with_shiftv sb true) w lay (pos (with_shiftv sb true))) as [[x y]|]; [|unfold same_frame; cbn; auto].
    pose proof (bgpc_state (with_shiftv sb true) w lay) as G.
    destruct (bget_pref_col wcw MUtf8 (with_shiftv sb true) w lay) as [s2 [pc|]]; cbn [fst] in G;
      [|destruct G as [-> | ->]; unfold same_frame; cbn; auto].
    pose proof (bmctc_frame s2 w lay pc (y + 1)) as [F _].
    assert (F0: same_frame sb s2) by (destruct G as [-> | ->]; unfold same_frame; cbn; auto).
    destruct (bmove_cursor_to_coords wcw MUtf8 s2 w lay pc (y + 1)) as [s3 [[|]|]]; cbn [fst] in *; eapply same_frame_trans; eauto.
  - change (pos (with_pref sb None)) with (pos sb). change (text (with_pref sb None)) with (text sb).
    destruct (pos sb =? 0); [unfold same_frame; cbn; auto|].
    destruct (Width.move_prev_char MUtf8 (text sb) 0 (pos sb)); unfold same_frame; cbn; auto.
  - change (pos (with_pref sb None)) with (pos sb). change (text (with_pref sb None)) with (text sb).
    destruct (pos sb >=? zlen (text sb)); [unfold same_frame; cbn; auto|].
    destruct (Width.move_next_char MUtf8 (text sb) (pos sb) (zlen (text sb))); unfold same_frame; cbn; auto.
  - unfold bget_cursor_coords.
    destruct (bposition_coords wcw MUtf8 (with_shiftv (with_pref sb None) true) w lay (pos (with_shiftv (with_pref sb None) true))) as [[x y]|];
      [|unfold same_frame; cbn; auto].
    pose proof (bmctc_frame (with_shiftv (with_pref sb None) true) w lay PLeft y) as [F _].
    destruct (bmove_cursor_to_coords wcw MUtf8 (with_shiftv (with_pref sb None) true) w lay PLeft y) as [s3 [b|]]; cbn [fst] in *;
      (eapply same_frame_trans; [|exact F]); unfold same_frame; cbn; auto.
  - unfold bget_cursor_coords.
    destruct (bposition_coords wcw MUtf8 (with_shiftv (with_pref sb None) true) w lay (pos (with_shiftv (with_pref sb None) true))) as [[x y]|];
      [|unfold same_frame; cbn; auto].
    pose proof (bmctc_frame (with_shiftv (with_pref sb None) true) w lay PRight y) as [F _].
    destruct (bmove_cursor_to_coords wcw MUtf8 (with_shiftv (with_pref sb None) true) w lay PRight y) as [s3 [b|]]; cbn [fst] in *;
      (eapply same_frame_trans; [|exact F]); unfold same_frame; cbn; auto.
Qed.


(* ---------- one event keeps the offset on a character boundary ---------- *)
Lemma OnB_Rb sb c t k :
  caption sb = encs c -> scalars c -> text sb = encs t -> scalars t -> 0 <= k <= zlen t ->
  pos sb = boff t k -> mask sb = None ->
  Rb sb (St [] t k None false None (multiline sb) (allow_tab sb) None VEdit).
Proof.
  intros Hc Sc Ht St_ Hk Hp Hm. unfold Rb, Inv. cbn [text pos multiline allow_tab var].
  repeat split; auto; try lia. apply scalars_cp. exact St_.
Qed.

Lemma bkey_edit_OnB sb k w lay : OnB sb -> edit_key k -> OnB (fst (fst (bkeypress sb k w lay))).
Proof.
  intros (c & t & j & Hc & Sc & Ht & St_ & Hj & Hp & Hm) Hk.
  pose proof (OnB_Rb sb c t j Hc Sc Ht St_ Hj Hp Hm) as R.
  set (ss := St [] t j None false None (multiline sb) (allow_tab sb) None VEdit) in *.
  pose proof (bkey_sim sb ss k w lay lay R Hk) as S.
  pose proof (bkeypress_frame sb k w lay) as (F1 & F2 & _).
  pose proof (ref_key_scalars ss k w lay St_ Hk) as Ss.
  destruct (bkeypress sb k w lay) as [[sb' sg] r]. cbn [fst] in *.
  destruct S as ((Et & Ep & _ & _ & _ & _ & HI) & _).
  exists c, (text (fst (ref_key ss k w lay))), (pos (fst (ref_key ss k w lay))).
  rewrite F1, F2. unfold Inv in HI. auto 10.
Qed.

Lemma bkey_layout_OnB sb k w lay :
  OnB sb -> (forall d, disp sb = encs d -> scalars d -> lay_bnd d lay) ->
  match k with KUp | KDown | KHome | KEnd => True | _ => False end ->
  OnB (fst (fst (bkeypress sb k w lay))).
Proof.
  intros HB HL Hk. unfold EditBytes.bkeypress.
  assert (Flag: forall s', same_frame sb s' -> text s' = text sb -> pos s' = pos sb ->
                 OnB s' /\ (forall d, disp s' = encs d -> scalars d -> lay_bnd d lay)).
  { intros s' F Et Ep. split; [eapply OnB_flags; eauto|].
    intros d Ed Sd. apply HL; [|exact Sd]. rewrite <- (disp_flags sb s' F Et). exact Ed. }
  destruct k; try contradiction; unfold bget_cursor_coords.
  - (* up *)
    destruct (Flag (with_shiftv sb true)) as [B1 L1]; [unfold same_frame; cbn; auto|reflexivity|reflexivity|].
    destruct (bposition_coords wcw MUtf8 (with_shiftv sb true) w lay (pos (with_shiftv sb true))) as [[x y]|]; [|exact B1].
    pose proof (bgpc_state (with_shiftv sb true) w lay) as G.
    destruct (bget_pref_col wcw MUtf8 (with_shiftv sb true) w lay) as [s2 [pc|]]; cbn [fst] in G.
    + assert (E2: s2 = with_shiftv sb true) by (destruct G as [-> | ->]; reflexivity). subst s2.
      pose proof (bmctc_OnB (with_shiftv sb true) w lay pc (y - 1) B1 L1) as [B3 _].
      destruct (bmove_cursor_to_coords wcw MUtf8 (with_shiftv sb true) w lay pc (y - 1)) as [s3 [[|]|]]; exact B3.
    + destruct G as [-> | ->]; exact B1.
  - (* down *)
    destruct (Flag (with_shiftv sb true)) as [B1 L1]; [unfold same_frame; cbn; auto|reflexivity|reflexivity|].
    destruct (bposition_coords wcw MUtf8 (with_shiftv sb true) w lay (pos (with_shiftv sb true))) as [[x y]|]; [|exact B1].
    pose proof (bgpc_state (with_shiftv sb true) w lay) as G.
    destruct (bget_pref_col wcw MUtf8 (with_shiftv sb true) w lay) as [s2 [pc|]]; cbn [fst] in G.
    + assert (E2: s2 = with_shiftv sb true) by (destruct G as [-> | ->]; reflexivity). subst s2.
      pose proof (bmctc_OnB (with_shiftv sb true) w lay pc (y + 1) B1 L1) as [B3 _].
      destruct (bmove_cursor_to_coords wcw MUtf8 (with_shiftv sb true) w lay pc (y + 1)) as [s3 [[|]|]]; exact B3.
    + destruct G as [-> | ->]; exact B1.
  - (* home *)
    destruct (Flag (with_shiftv (with_pref sb None) true)) as [B1 L1]; [unfold same_frame; cbn; auto|reflexivity|reflexivity|].
    destruct (bposition_coords wcw MUtf8 (with_shiftv (with_pref sb None) true) w lay (pos (with_shiftv (with_pref sb None) true))) as [[x y]|]; [|exact B1].
    pose proof (bmctc_OnB (with_shiftv (with_pref sb None) true) w lay PLeft y B1 L1) as [B3 _].
    destruct (bmove_cursor_to_coords wcw MUtf8 (with_shiftv (with_pref sb None) true) w lay PLeft y) as [s3 [b|]]; exact B3.
  - (* end *)
    destruct (Flag (with_shiftv (with_pref sb None) true)) as [B1 L1]; [unfold same_frame; cbn; auto|reflexivity|reflexivity|].
    destruct (bposition_coords wcw MUtf8 (with_shiftv (with_pref sb None) true) w lay (pos (with_shiftv (with_pref sb None) true))) as [[x y]|]; [|exact B1].
    pose proof (bmctc_OnB (with_shiftv (with_pref sb None) true) w lay PRight y B1 L1) as [B3 _].
    destruct (bmove_cursor_to_coords wcw MUtf8 (with_shiftv (with_pref sb None) true) w lay PRight y) as [s3 [b|]]; exact B3.
Qed.

Theorem bstep_OnB sb e :
  OnB sb -> ev_ok sb e -> OnB (fst (fst (bstep wcw MUtf8 utf8_encode_replace sb e))).
Proof.
  intros HB Hok. destruct e as [k w lay|b c rw w lay|f w lay|w lay|p]; cbn [bstep].
  - (* keys *)
    destruct k; cbn [ev_ok] in Hok;
      try (apply bkey_layout_OnB; [exact HB|exact Hok|exact I]);
      try (apply bkey_edit_OnB; [exact HB|exact I]).
    + (* KText *)
      (* any key string: what str.encode cannot represent arrives as "?" - still UTF-8 *)
      pose proof HB as (c & t & j & Hc & Sc & Ht & St_ & Hj & Hp & Hm).
      pose proof (OnB_Rb sb c t j Hc Sc Ht St_ Hj Hp Hm) as R.
      pose proof (bkeypress_frame sb (KText cs) w lay) as (F1 & F2 & _).
      unfold EditBytes.bkeypress in *. destruct (bvalid_char wcw cs) as [[|]|]; try exact HB.
      rewrite uer_sanitize in *.
      pose proof (b_insert sb _ (sanitize cs) R (scalars_cp _ (sanitize_scalar cs))) as B.
      destruct (insert_text sb (encs (sanitize cs))) as [sb' sg]. cbn [fst] in *.
      destruct B as ((Et & Ep & _ & _ & _ & _ & HI) & _). cbn [put text pos] in Et, Ep, HI. unfold Inv in HI. cbn [put text pos] in HI.
      exists c, (ins_at t j (sanitize cs)), (j + zlen (sanitize cs)).
      rewrite F1, F2. repeat split; auto; try lia.
      unfold scalars, ins_at. apply Forall_app. split; [apply Forall_takez; exact St_|].
      apply Forall_app. split; [apply sanitize_scalar|apply Forall_dropz; exact St_].
    + (* KTab *)
      pose proof HB as (c & t & j & Hc & Sc & Ht & St_ & Hj & Hp & Hm).
      pose proof (OnB_Rb sb c t j Hc Sc Ht St_ Hj Hp Hm) as R.
      pose proof (btab_sim sb _ w lay R) as S. cbv zeta in S.
      pose proof (bkeypress_frame sb KTab w lay) as (F1 & F2 & _).
      destruct (bkeypress sb KTab w lay) as [[sb' sg] r]. cbn [fst allow_tab] in *.
      destruct (allow_tab sb).
      * destruct S as ((Et & Ep & _ & _ & _ & _ & HI) & _). cbn [put text pos] in Et, Ep, HI.
        exists c, (ins_at t j (spaces (8 - pos sb mod 8))), (j + zlen (spaces (8 - pos sb mod 8))).
        rewrite F1, F2. unfold Inv in HI. cbn [put text pos] in HI.
        repeat split; auto; try lia.
        unfold scalars, ins_at. apply Forall_app. split; [apply Forall_takez; exact St_|].
        apply Forall_app. split; [|apply Forall_dropz; exact St_].
        unfold spaces. induction (Z.to_nat (8 - pos sb mod 8)); cbn [replz]; constructor; auto.
      * destruct S as (-> & _). exact HB.
  - (* click *)
    cbn [ev_ok] in Hok. destruct (b =? 1); [|exact HB].
    pose proof (bmctc_OnB sb w lay (PInt c) rw HB Hok) as [B _].
    destruct (bmove_cursor_to_coords wcw MUtf8 sb w lay (PInt c) rw) as [s1 [bb|]]; exact B.
  - (* render *)
    assert (Fl: forall s', same_frame sb s' -> text s' = text sb -> pos s' = pos sb -> OnB s')
      by (intros; eapply OnB_flags; eauto).
    unfold bget_cursor_coords.
    destruct (match rcache sb with Some (w', f') => (w' =? w) && Bool.eqb f' f | None => false end).
    + destruct (bget_line_translation wcw MUtf8 (with_shiftv sb f) w lay); [|exact HB].
      destruct f; [|exact HB].
      destruct (bposition_coords wcw MUtf8 (with_shiftv (with_shiftv sb true) true) w lay (pos (with_shiftv (with_shiftv sb true) true))) as [[x y]|]; exact HB.
    + destruct (bget_line_translation wcw MUtf8 (with_shiftv sb f) w lay); [|apply Fl; [unfold same_frame; cbn; auto|reflexivity|reflexivity]].
      destruct f; [|apply Fl; [unfold same_frame; cbn; auto|reflexivity|reflexivity]].
      destruct (bposition_coords wcw MUtf8 (with_shiftv (with_shiftv sb true) true) w lay (pos (with_shiftv (with_shiftv sb true) true))) as [[x y]|];
        apply Fl; try reflexivity; unfold same_frame; cbn; auto.
  - (* get_pref_col *)
    pose proof (bgpc_state sb w lay) as G.
    destruct (bget_pref_col wcw MUtf8 sb w lay) as [s1 [pc|]]; cbn [fst] in *;
      (destruct G as [-> | ->]; [exact HB|eapply OnB_flags; [exact HB|unfold same_frame; cbn; auto|reflexivity|reflexivity]]).
  - (* set_edit_pos *)
    cbn [ev_ok] in Hok. destruct HB as (c & t & j & Hc & Sc & Ht & St_ & Hj & Hp & Hm).
    destruct (Hok t Ht St_) as (k' & Hk' & Ek).
    exists c, t, k'. unfold set_edit_pos, with_pos. cbn [caption text pos mask]. auto 10.
Qed.

(* ---------- every history ---------- *)
Fixpoint evs_ok (sb : st) (es : list event) : Prop :=
  match es with
  | [] => True
  | e :: r => ev_ok sb e /\ evs_ok (fst (fst (bstep wcw MUtf8 utf8_encode_replace sb e))) r
  end.

Theorem brun_OnB es : forall sb,
  OnB sb -> evs_ok sb es ->
  Forall (fun o => OnB (fst (fst o))) (snd (brun wcw MUtf8 utf8_encode_replace sb es)) /\ OnB (fst (brun wcw MUtf8 utf8_encode_replace sb es)).
Proof.
  induction es as [|e r IH]; intros sb HB Hok.
  - cbn. auto.
  - cbn [brun]. destruct Hok as [H1 H2].
    pose proof (bstep_OnB sb e HB H1) as B1.
    destruct (bstep wcw MUtf8 utf8_encode_replace sb e) as [[s1 sg] rt]. cbn [fst] in *.
    destruct (IH s1 B1 H2) as [A B].
    destruct (brun wcw MUtf8 utf8_encode_replace s1 r) as [s2 outs]. cbn [fst snd] in *. split; [constructor; assumption|assumption].
Qed.

(* what OnB says in plain terms: the text decodes, and so do both halves around the offset *)
Theorem OnB_decodes sb :
  OnB sb ->
  exists t k, strict_decode (text sb) = Some t /\
              strict_decode (takez (pos sb) (text sb)) = Some (takez k t) /\
              strict_decode (dropz (pos sb) (text sb)) = Some (dropz k t) /\
              0 <= pos sb <= zlen (text sb).
Proof.
  intros (c & t & k & Hc & Sc & Ht & St_ & Hk & Hp & Hm). exists t, k.
  rewrite Ht, Hp, takez_boff, dropz_boff.
  repeat split.
  - apply strict_decode_encs. exact St_.
  - apply strict_decode_encs. apply Forall_takez. exact St_.
  - apply strict_decode_encs. apply Forall_dropz. exact St_.
  - apply boff_nonneg.
  - apply boff_le_len. exact Hk.
Qed.

Lemma init_OnB c t k ml tab :
  scalars c -> scalars t -> 0 <= k <= zlen t ->
  OnB (init (encs c) (encs t) (Some (boff t k)) ml tab None VEdit).
Proof.
  intros Sc St_ Hk. exists c, t, k. unfold init, set_edit_pos, with_pos. cbn [caption text pos mask].
  pose proof (boff_nonneg t k). pose proof (boff_le_len t k Hk).
  rewrite clampz_id by lia. auto 10.
Qed.

End Bytes.
