(* C08 - proofs, part 7: tree-wide, an arrow key moves focus only onto selectable children.
   Invariant (relative to the heap h0 before the keypress, node by node): same shape and caches as in h0,
   nothing pending, and the focus child is the one of h0 or a widget whose selectable() is True in h0. *)
From Coq Require Import ZArith List Bool Lia ZifyBool.
Import ListNotations.
From Urwid Require Import PyBase PyList c08_container_gen Containers ContainersBase ContainersProofs ContainersSel ContainersStable
  ContainersRouting ContainersPath ContainersArrows.
From Urwid Require MonitoredList.
Open Scope Z_scope.
Arguments Z.add : simpl never. Arguments Z.sub : simpl never. Arguments Z.mul : simpl never.
Arguments Z.ltb : simpl never. Arguments Z.leb : simpl never. Arguments Z.eqb : simpl never.

(* ---------- bind rules that expose what was read ---------- *)
Lemma pres_rd_fact {B} (I : heap -> Prop) id (k : node -> M B) :
  (forall n, (exists h, I h /\ getn h id = Some n) -> pres I (k n)) -> pres I (mbind (rd id) k).
Proof.
  intros Hk h H. unfold mbind, rd. destruct (getn h id) as [n|] eqn:G; cbn [fst]; [|exact H].
  apply Hk; [exists h; split; assumption|exact H].
Qed.
Lemma pres_heap_fact {B} (I : heap -> Prop) (k : heap -> M B) :
  (forall hh, I hh -> pres I (k hh)) -> pres I (mbind get_heap k).
Proof. intros Hk h H. unfold mbind, get_heap. apply Hk; exact H. Qed.
Lemma pres_bind_res {A B} (I : heap -> Prop) (m : M A) (k : A -> M B) :
  pres I m -> (forall a, (exists h h', m h = (h', ROk a)) -> pres I (k a)) -> pres I (mbind m k).
Proof.
  intros Hm Hk h H. unfold mbind. specialize (Hm h H). destruct (m h) as [h1 [a|e]] eqn:E; cbn [fst] in *; [|exact Hm].
  apply Hk; [exists h, h1; exact E|exact Hm].
Qed.

(* ---------- the key that comes back is the key that went in, or None ---------- *)
Definition KS (key : list Z) (r : kres) : Prop := fst r = None \/ fst r = Some key.

Lemma kp_key_same f : forall id key h h' r, kp f id key h = (h', ROk r) -> KS key r.
Proof.
  induction f as [|f IH]; intros id key h h' r H; cbn [kp] in H; [exfalso; eapply raise_inv; exact H|].
  apply mbind_inv in H. destruct H as (h0 & n & Hrd & H). apply rd_inv in Hrd. destruct Hrd as [-> G].
  assert (Hun : forall hc hc' q, unhandled key hc = (hc', ROk q) -> KS key q).
  { intros hc hc' q Hu. apply ret_inv in Hu. destruct Hu as [_ ->]. right. reflexivity. }
  assert (Hmv : forall (m : bool) q hc hc' q', KS key q -> ret (if m then None else fst q, snd q) hc = (hc', ROk q') -> KS key q').
  { intros m q hc hc' q' Hq Hr. apply ret_inv in Hr. destruct Hr as [_ ->]. unfold KS in *. cbn [fst]. destruct m; [left; reflexivity|exact Hq]. }
  assert (Hnone : forall (o : list Z) hc hc' q', ret (@None (list Z), o) hc = (hc', ROk q') -> KS key q').
  { intros o hc hc' q' Hr. apply ret_inv in Hr. destruct Hr as [_ ->]. left. reflexivity. }
  assert (Hret : forall q hc hc' q', KS key q -> ret q hc = (hc', ROk q') -> KS key q').
  { intros q hc hc' q' Hq Hr. apply ret_inv in Hr. destruct Hr as [_ ->]. exact Hq. }
  destruct (is_dis n) eqn:Edis; [eapply Hun; exact H|].
  destruct (nk n) eqn:K.
  - apply ret_inv in H. destruct H as [_ ->]. unfold KS. cbn [fst]. destruct (handles n key); [left|right]; reflexivity.
  - destruct (is_empty n); [eapply Hun; exact H|].
    apply mbind_inv in H. destruct H as (h1 & q & Hq & H).
    assert (Kq : KS key q).
    { destruct (n_selc n); [|eapply Hun; exact Hq]. destruct (nthz (items n) (nfocus n)); [eapply IH; exact Hq|exfalso; eapply raise_inv; exact Hq]. }
    destruct (negb (is_vert (cmd_of (fst q)))); [eapply Hret; eassumption|].
    apply mbind_inv in H. destruct H as (h2 & moved & _ & H). eapply Hmv; eassumption.
  - destruct (is_empty n); [eapply Hun; exact H|].
    destruct (nthz (items n) (nfocus n)) as [w|]; [|exfalso; eapply raise_inv; exact H].
    apply mbind_inv in H. destruct H as (h1 & u & _ & H).
    apply mbind_inv in H. destruct H as (h1' & hh & Hg & H). apply get_heap_inv in Hg. destruct Hg as [-> ->].
    apply mbind_inv in H. destruct H as (h2 & q & Hq & H).
    assert (Kq : KS key q) by (destruct (sel f h1 w); [eapply IH; exact Hq|eapply Hun; exact Hq]).
    destruct (negb (is_horiz (cmd_of (fst q)))); [eapply Hret; eassumption|].
    apply mbind_inv in H. destruct H as (h3 & moved & _ & H). eapply Hmv; eassumption.
  - destruct (is_empty n); [eapply Hun; exact H|].
    apply mbind_inv in H. destruct H as (h1 & hh & Hg & H). apply get_heap_inv in Hg. destruct Hg as [-> ->].
    destruct (find_row (grid_rows n) 0 (nfocus n)) as [[rr cells]|]; [|exfalso; eapply raise_inv; exact H].
    apply mbind_inv in H. destruct H as (h2 & q & Hq & H).
    assert (Kq : KS key q) by (destruct (any_sel f h n && sel f h (cell_id n (nfocus n))); [eapply IH; exact Hq|eapply Hun; exact Hq]).
    destruct (any_sel f h n && is_horiz (cmd_of (fst q))).
    + match type of H with (match ?x with _ => _ end) _ = _ => destruct x end; [|eapply Hret; eassumption].
      apply mbind_inv in H. destruct H as (h3 & u & _ & H). eapply Hnone; exact H.
    + destruct (any_sel f h n && negb (is_vert (cmd_of (fst q)))); [eapply Hret; eassumption|].
      match type of H with (match ?x with _ => _ end) _ = _ => destruct x end; [|eapply Hret; eassumption].
      match type of H with (match ?x with _ => _ end) _ = _ => destruct x end; [|exfalso; eapply raise_inv; exact H].
      apply mbind_inv in H. destruct H as (h3 & u & _ & H). eapply Hnone; exact H.
  - apply mbind_inv in H. destruct H as (h1 & hh & Hg & H). apply get_heap_inv in Hg. destruct Hg as [-> ->].
    destruct (if n_part n =? 101 then n_b n else None) as [hd|].
    + destruct (sel f h hd); [eapply IH; exact H|eapply Hun; exact H].
    + destruct (if n_part n =? 102 then n_d n else None) as [ft|].
      * destruct (sel f h ft); [eapply IH; exact H|eapply Hun; exact H].
      * destruct (negb (n_part n =? 100)); [eapply Hun; exact H|].
        destruct (sel f h (n_a n)); [eapply IH; exact H|eapply Hun; exact H].
  - eapply IH; exact H.
  - apply mbind_inv in H. destruct H as (h1 & u & _ & H).
    apply mbind_inv in H. destruct H as (h1' & hh & Hg & H). apply get_heap_inv in Hg. destruct Hg as [-> ->].
    destruct (focus_child h1 id) as [fw|]; [|eapply Hun; exact H].
    apply mbind_inv in H. destruct H as (h2 & q & Hq & H).
    assert (Kq : KS key q) by (destruct (sel f h1 fw); [eapply IH; exact Hq|eapply Hun; exact Hq]).
    destruct (fst q) as [kk|] eqn:Ek.
    + destruct (is_vert (cmd_of (Some kk))).
      * apply mbind_inv in H. destruct H as (h3 & ua & _ & H).
        apply mbind_inv in H. destruct H as (h4 & n2 & _ & H).
        apply mbind_inv in H. destruct H as (h5 & hh2 & _ & H).
        match type of H with (match ?x with _ => _ end) _ = _ => destruct x end; [|eapply Hret; eassumption].
        apply mbind_inv in H. destruct H as (h6 & u2 & _ & H). eapply Hnone; exact H.
      * destruct ((cmd_of (Some kk) =? C_PGUP) || (cmd_of (Some kk) =? C_PGDN)); [exfalso; eapply raise_inv; exact H|].
        destruct ((cmd_of (Some kk) =? C_MAXL) || (cmd_of (Some kk) =? C_MAXR)); [|eapply Hret; eassumption].
        apply mbind_inv in H. destruct H as (h3 & n2 & _ & H).
        apply mbind_inv in H. destruct H as (h4 & ub & _ & H).
        apply mbind_inv in H. destruct H as (h5 & n3 & _ & H).
        apply mbind_inv in H. destruct H as (h6 & u2 & _ & H). eapply Hnone; exact H.
    + apply mbind_inv in H. destruct H as (h3 & hh2 & _ & H).
      apply mbind_inv in H. destruct H as (h4 & uc & _ & H). eapply Hret; eassumption.
Qed.

(* ---------- the invariant ---------- *)
Definition SelIn (h0 : heap) (c : Z) : Prop := exists f, sel f h0 c = true.

(* the focus child as a function of the node alone *)
Definition fc_node (n : node) : option Z :=
  match nk n with
  | KLeaf => None
  | KPile | KCols | KGrid | KLBox => match items n with [] => None | _ => nthz (items n) (nfocus n) end
  | KFrame => if n_part n =? 100 then Some (n_a n) else if n_part n =? 101 then n_b n else n_d n
  | KOvl => Some (n_a n)
  end.
Lemma focus_child_fc h id : focus_child h id = match getn h id with Some n => fc_node n | None => None end.
Proof. unfold focus_child, fc_node. destruct (getn h id); reflexivity. Qed.

Definition shape_eq (n0 n : node) : Prop :=
  nk n = nk n0 /\ n_sel n = n_sel n0 /\ n_selc n = n_selc n0 /\ items n = items n0 /\
  n_a n = n_a n0 /\ n_b n = n_b n0 /\ n_d n = n_d n0 /\ n_part n = n_part n0 /\ n_deco n = n_deco n0.

Section Landed.
Variable h0 : heap.

Definition PL (id : Z) (n : node) : Prop :=
  exists n0, getn h0 id = Some n0 /\ shape_eq n0 n /\ pending n = false /\
             (forall c, fc_node n = Some c -> fc_node n0 = Some c \/ SelIn h0 c).
Notation I := (InvI PL).

Lemma sel_transfer h : I h -> forall f c, sel f h c = true -> sel f h0 c = true.
Proof.
  intros HI f. induction f as [|f IH]; intros c H; [discriminate|]. cbn [sel] in *.
  destruct (getn h c) as [n|] eqn:G; [|discriminate].
  destruct (HI c n G) as (n0 & G0 & (K & S1 & S2 & S3 & S4 & _ & _ & _ & S8) & _). rewrite G0.
  unfold is_dis in *. rewrite S8 in H. destruct (n_deco n0 =? 2); [discriminate|]. unfold sel_node in *. rewrite K in H.
  destruct (nk n0); try congruence.
  - rewrite S3 in H. apply existsb_exists in H. destruct H as (x & Hx & Hs). apply existsb_exists. exists x. split; [exact Hx|apply IH; exact Hs].
  - rewrite S4 in H. apply IH. exact H.
Qed.

Lemma L_w_pref id p : pres I (w_pref id p).
Proof. apply st_w_node. intros n (n0 & G & S & Hp & Hf). exists n0. repeat split; try apply S; assumption. Qed.

(* the guard of a focus write, stated in h0 *)
Definition G0 (id j : Z) : Prop :=
  forall n0 c, getn h0 id = Some n0 -> nthz (items n0) j = Some c -> fc_node n0 = Some c \/ SelIn h0 c.

Lemma setfocus_inv s j s' o :
  MonitoredList.step s (MonitoredList.SetFocus j) = (s', o) -> MonitoredList.o_err o = None ->
  MonitoredList.items s' = MonitoredList.items s /\ (MonitoredList.items s = [] \/ MonitoredList.focus_raw s' = j).
Proof.
  destruct s as [its fr]. cbn [MonitoredList.step MonitoredList.items MonitoredList.focus_raw]. unfold MonitoredList.set_focus.
  destruct its as [|x r]; [intros H _; injection H as <- _; split; [reflexivity|left; reflexivity]|].
  destruct ((j <? 0) || (zlen (x :: r) <=? j)); [intros H He; injection H as _ <-; discriminate|].
  destruct (negb (j =? fr)); intros H _; injection H as <- _; split; try reflexivity; right; reflexivity.
Qed.

Lemma L_w_listfocus id j : G0 id j -> pres I (w_listfocus id j).
Proof.
  intros Hg h HI. unfold w_listfocus, mbind, rd. destruct (getn h id) as [n|] eqn:G; [|exact HI].
  destruct (MonitoredList.step (n_c n) (MonitoredList.SetFocus j)) as [s' o] eqn:E.
  destruct (MonitoredList.o_err o) eqn:Eo; [exact HI|].
  destruct (setfocus_inv _ _ _ _ E Eo) as [Hi Hf].
  unfold w_contents, w_node. rewrite G. cbn [fst].
  intros id' n' G'. rewrite getn_setn in G'.
  destruct ((id' =? id) && (0 <=? id) && (id <? zlen h)) eqn:Eid; [|exact (HI id' n' G')].
  injection G' as <-. assert (id' = id) by lia. subst id'.
  destruct (HI id n G) as (n0 & G0' & S & Hp & Hl). exists n0. split; [exact G0'|].
  destruct S as (K & S1 & S2 & S3 & S4 & S5 & S6 & S7 & S8).
  split; [repeat split; try assumption; unfold items; cbn [n_c set_c]; rewrite Hi; exact S3|]. split; [exact Hp|].
  intros c Hc.
  assert (Hit : items (set_c n s') = items n) by (unfold items; cbn [n_c set_c]; exact Hi).
  assert (Hnf : nfocus (set_c n s') = MonitoredList.focus_raw s') by reflexivity.
  unfold fc_node in Hc. cbn [nk set_c n_part n_a n_b n_d] in Hc. rewrite Hit, Hnf in Hc.
  assert (Hlist : match items n with [] => None | _ :: _ => nthz (items n) (MonitoredList.focus_raw s') end = Some c ->
                  fc_node n0 = Some c \/ SelIn h0 c).
  { intros Hm. destruct Hf as [Hf|Hf]; [fold (items n) in Hf; rewrite Hf in Hm; discriminate|].
    rewrite Hf in Hm. apply (Hg n0 c G0'). rewrite <- S3. destruct (items n); [discriminate|exact Hm]. }
  destruct (nk n) eqn:Kn; try (apply Hlist; exact Hc); apply Hl; unfold fc_node; rewrite Kn; exact Hc.
Qed.

Lemma L_w_focus id j : G0 id j -> pres I (w_focus id j).
Proof. intros Hg. unfold w_focus. apply pres_bind; [apply pres_rd|]. intros n. destruct (pos_invalid (nk n) j (nlen n)); [apply pres_raise|apply L_w_listfocus; exact Hg]. Qed.

(* facts about a node that was read while the invariant held *)
Lemma read_fact id n : (exists h, I h /\ getn h id = Some n) ->
  exists n0, getn h0 id = Some n0 /\ items n = items n0 /\ nk n = nk n0 /\ pending n = false /\
             (forall c, fc_node n = Some c -> fc_node n0 = Some c \/ SelIn h0 c).
Proof.
  intros (h & HI & G). destruct (HI id n G) as (n0 & G0' & (K & _ & _ & S3 & _) & Hp & Hl). exists n0. repeat split; assumption.
Qed.

(* a child that is selectable now may receive the focus *)
Lemma guard_sel id n j c hh f :
  (exists h, I h /\ getn h id = Some n) -> I hh -> nthz (items n) j = Some c -> sel f hh c = true -> G0 id j.
Proof.
  intros Hn Hh Hj Hs n0 c' G0' Hc'. destruct (read_fact id n Hn) as (n0' & G0'' & Hi & _). rewrite G0' in G0''. injection G0'' as <-.
  rewrite <- Hi in Hc'. rewrite Hj in Hc'. injection Hc' as <-. right. exists f. eapply sel_transfer; eassumption.
Qed.

Hint Resolve L_w_pref pres_ret pres_raise pres_get_heap pres_rd pres_gcc_m : landed.

Ltac lstep :=
  first
    [ assumption
    | match goal with |- pres _ (ret _) => apply pres_ret end
    | match goal with |- pres _ (raise _) => apply pres_raise end
    | match goal with |- pres _ (gcc_m _ _) => apply pres_gcc_m end
    | match goal with |- pres _ (w_pref _ _) => apply L_w_pref end
    | match goal with |- pres _ (mbind (rd _) _) => apply pres_rd_fact; intros ? ? end
    | match goal with |- pres _ (mbind get_heap _) => apply pres_heap_fact; intros ? ? end
    | match goal with |- pres _ (mbind _ _) => apply pres_bind_res; [ | intros ? ? ] end
    | match goal with |- pres _ (if ?b then _ else _) => destruct b eqn:? end
    | match goal with |- pres _ (match ?x with _ => _ end) => destruct x eqn:? end
    | match goal with |- pres _ (let _ := _ in _) => cbv zeta end
    | solve [ eauto 3 with landed ] ].

Lemma L_gpc f : forall id, pres I (gpc f id).
Proof. induction f as [|f IH]; intros id; cbn [gpc]; repeat lstep. Qed.
Hint Resolve L_gpc : landed.
Lemma L_upd_pref f id : pres I (upd_pref_from_focus f id).
Proof. unfold upd_pref_from_focus. repeat lstep. Qed.
Hint Resolve L_upd_pref : landed.

Lemma pile_row_hit_nth l : forall hs j0 wrow row j c w,
  pile_row_hit l hs j0 wrow row = Some (j, c, w) -> nthz l (j - j0) = Some c /\ j0 <= j.
Proof.
  induction l as [|x r IH]; intros hs j0 wrow row j c w H; cbn [pile_row_hit] in H; [discriminate|].
  destruct hs as [|rr hr]; [discriminate|].
  destruct (row <? wrow + rr).
  - injection H as <- <- <-. rewrite Z.sub_diag. split; [reflexivity|lia].
  - destruct (IH _ _ _ _ _ _ _ H) as [Hn Hle]. split; [|lia].
    replace (j - j0) with ((j - (j0 + 1)) + 1) by lia. rewrite nthz_cons_succ by lia. exact Hn.
Qed.

Lemma nthz_map {A B} (g : A -> B) l i y : nthz (map g l) i = Some y -> exists x, nthz l i = Some x /\ y = g x.
Proof.
  unfold nthz. destruct (i <? 0); [discriminate|]. rewrite nth_error_map. destruct (nth_error l (Z.to_nat i)); [|discriminate].
  intros H. injection H as <-. eexists; split; reflexivity.
Qed.

Lemma nthz_combine {A B} (la : list A) (lb : list B) i x y :
  nthz (combine la lb) i = Some (x, y) -> nthz la i = Some x /\ nthz lb i = Some y.
Proof.
  unfold nthz. destruct (i <? 0); [discriminate|]. generalize (Z.to_nat i). clear i. intros k. revert lb k.
  induction la as [|a ra IH]; intros lb k H; [destruct k; discriminate|].
  destruct lb as [|b rb]; [destruct k; discriminate|]. destruct k; cbn in *; [injection H as <- <-; split; reflexivity|apply IH; exact H].
Qed.

Lemma sel_neg1 f h : sel f h (-1) = false.
Proof. destruct f; [reflexivity|]. cbn [sel]. rewrite getn_neg by lia. reflexivity. Qed.

Lemma cell_id_nth f h n i : sel f h (cell_id n i) = true -> nthz (items n) i = Some (cell_id n i).
Proof. unfold cell_id. destruct (nthz (items n) i); [reflexivity|]. rewrite sel_neg1. discriminate. Qed.

Lemma grid_pick_sel f h n cells col j : grid_pick f h n cells col = Some j -> sel f h (cell_id n j) = true.
Proof.
  unfold grid_pick. match goal with |- context [cols_pick ?l ?d ?c] => destruct (cols_pick l d c) as [[[k xx] e]|] eqn:E end; [|discriminate].
  intros Hn. apply cols_pick_selectable in E. destruct E as (w & Hw). apply nthz_map in Hw. destruct Hw as (i & Hi & Hq).
  rewrite Hn in Hi. injection Hi as <-. injection Hq as _ <-. reflexivity.
Qed.

Lemma L_mc f : forall id col row, pres I (mc f id col row).
Proof.
  induction f as [|f IH]; intros id col0 row; cbn [mc]; [apply pres_raise|].
  apply pres_rd_fact. intros n Hn. cbv zeta. set (col := pad_clamp n col0). destruct (nk n).
  - apply pres_raise.
  - (* pile *)
    apply pres_bind; [apply L_w_pref|]. intros _. apply pres_heap_fact. intros hh Hh.
    destruct (pile_row_hit (items n) (heights f hh n) 0 0 row) as [[[j c] wrow]|] eqn:E; [|apply pres_ret].
    destruct (sel f hh c) eqn:Es; cbn [negb]; [|apply pres_ret].
    apply pres_bind; [destruct (has_mc hh c); [apply IH|apply pres_ret]|]. intros ok. destruct (negb ok); [apply pres_ret|].
    apply pres_bind; [|intros; apply pres_ret].
    apply L_w_focus. destruct (pile_row_hit_nth _ _ _ _ _ _ _ _ E) as [Hj _]. rewrite Z.sub_0_r in Hj.
    eapply guard_sel; eassumption.
  - (* columns *)
    apply pres_heap_fact. intros hh Hh.
    destruct (cols_pick (combine (cols_widths hh n) (map (sel f hh) (items n))) (n_dv n) col) as [[[j xx] e]|] eqn:E; [|apply pres_ret].
    destruct (nthz (items n) j) as [w|] eqn:En; [|apply pres_raise].
    apply pres_bind; [destruct (has_mc hh w); [apply IH|apply pres_ret]|]. intros ok. destruct (negb ok); [apply pres_ret|].
    apply pres_bind; [|intros; apply pres_bind; [apply L_w_pref|intros; apply pres_ret]].
    apply L_w_focus. apply cols_pick_selectable in E. destruct E as (wd & Hw).
    apply nthz_combine in Hw. destruct Hw as [_ Hw]. apply nthz_map in Hw. destruct Hw as (c & Hc & Hs).
    rewrite En in Hc. injection Hc as <-. eapply guard_sel; try eassumption. symmetry. exact Hs.
  - (* gridflow *)
    destruct (is_empty n); [apply pres_ret|]. apply pres_heap_fact. intros hh Hh.
    destruct (grid_row_at (grid_rows n) true 0 (n_vs n) row) as [cells|]; [|apply pres_ret].
    destruct (negb (row_sel f hh n cells)); [apply pres_ret|].
    destruct (grid_pick f hh n cells col) as [newf|] eqn:E; [|apply pres_ret].
    apply pres_bind; [|intros; apply pres_ret]. apply L_w_focus.
    apply grid_pick_sel in E. eapply guard_sel; try eassumption. apply (cell_id_nth f hh). exact E.
  - apply pres_raise.
  - apply pres_raise.
  - apply pres_raise.
Qed.
Hint Resolve L_mc : landed.

Lemma L_scan_rows f owner c rl : pres I (scan_rows f owner c rl).
Proof. induction rl as [|r rs IH]; cbn [scan_rows]; repeat lstep. Qed.
Hint Resolve L_scan_rows : landed.

Lemma L_lb_visible0 f id focus : pres I (lb_visible0 f id focus).
Proof. unfold lb_visible0. repeat lstep. Qed.
Hint Resolve L_lb_visible0 : landed.

(* nothing is pending, so lb_visible goes straight to the cursor query *)
Lemma L_lb_visible f id focus : pres I (lb_visible f id focus).
Proof.
  unfold lb_visible. apply pres_rd_fact. intros n Hn. destruct (read_fact id n Hn) as (n0 & _ & _ & _ & Hp & _). rewrite Hp.
  repeat lstep.
Qed.
Hint Resolve L_lb_visible : landed.

Lemma L_lb_change_focus f id position cf : G0 id position -> pres I (lb_change_focus f id position cf).
Proof.
  intros Hg. unfold lb_change_focus.
  apply pres_heap_fact. intros hh Hh. apply pres_bind; [repeat lstep|]. intros _.
  apply pres_bind; [apply L_w_listfocus; exact Hg|]. intros _. repeat lstep.
Qed.

Lemma L_pile_move f id up cands : pres I (pile_move f id up cands).
Proof.
  induction cands as [|j r IH]; cbn [pile_move]; [apply pres_ret|].
  apply pres_rd_fact. intros n Hn. apply pres_heap_fact. intros hh Hh.
  destruct (nthz (items n) j) as [c|] eqn:En; [|apply pres_raise].
  destruct (sel f hh c) eqn:Es; cbn [negb]; [|exact IH].
  apply pres_bind; [apply L_upd_pref|]. intros _.
  apply pres_bind; [apply L_w_focus; eapply guard_sel; eassumption|]. intros _. repeat lstep.
Qed.
Lemma L_cols_move f id cands : pres I (cols_move f id cands).
Proof.
  induction cands as [|j r IH]; cbn [cols_move]; [apply pres_ret|].
  apply pres_rd_fact. intros n Hn. apply pres_heap_fact. intros hh Hh.
  destruct (nthz (items n) j) as [c|] eqn:En; [|apply pres_raise].
  destruct (sel f hh c) eqn:Es; [|exact IH].
  apply pres_bind; [apply L_w_focus; eapply guard_sel; eassumption|]. intros _. apply pres_ret.
Qed.
Hint Resolve L_pile_move L_cols_move : landed.

Definition is_arrow (key : list Z) : bool := existsb (Z.eqb (cmd_of (Some key))) [1; 2; 3; 4].

Lemma L_kp key : is_arrow key = true -> forall f id, pres I (kp f id key).
Proof.
  intros Ha. induction f as [|f IH]; intros id; cbn [kp]; [apply pres_raise|].
  apply pres_rd_fact. intros n Hn. destruct (read_fact id n Hn) as (n0 & Gn0 & Hit & Hk & Hp & Hl).
  destruct (is_dis n); [apply pres_ret|].
  destruct (nk n) eqn:K.
  - apply pres_ret.
  - (* pile *) unfold unhandled. repeat lstep.
  - (* columns *) unfold unhandled. repeat lstep.
  - (* gridflow *)
    unfold unhandled. destruct (is_empty n); [apply pres_ret|]. apply pres_heap_fact. intros hh Hh.
    destruct (find_row (grid_rows n) 0 (nfocus n)) as [[rr cells]|]; [|apply pres_raise].
    apply pres_bind; [destruct (any_sel f hh n && sel f hh (cell_id n (nfocus n))); [apply IH|apply pres_ret]|]. intros r.
    destruct (any_sel f hh n && is_horiz (cmd_of (fst r))).
    + match goal with |- pres _ (match ?x with _ => _ end) => destruct x as [j|] eqn:Ef end; [|apply pres_ret].
      apply pres_bind; [|intros; apply pres_ret]. apply L_w_focus.
      apply find_some in Ef. destruct Ef as [_ Ef]. eapply guard_sel; try eassumption. apply (cell_id_nth f hh). exact Ef.
    + destruct (any_sel f hh n && negb (is_vert (cmd_of (fst r)))); [apply pres_ret|].
      match goal with |- pres _ (match ?x with _ => _ end) => destruct x as [cells'|] end; [|apply pres_ret].
      match goal with |- pres _ (match ?x with _ => _ end) => destruct x as [newf|] eqn:Eg end; [|apply pres_raise].
      apply pres_bind; [|intros; apply pres_ret]. apply L_w_focus.
      apply grid_pick_sel in Eg. eapply guard_sel; try eassumption. apply (cell_id_nth f hh). exact Eg.
  - (* frame *) unfold unhandled. repeat lstep.
  - (* overlay *) apply IH.
  - (* list box *)
    unfold unhandled. rewrite Hp.
    apply pres_bind; [apply pres_ret|]. intros _. apply pres_heap_fact. intros hh Hh.
    destruct (focus_child hh id) as [fw|]; [|apply pres_ret].
    apply pres_bind_res; [destruct (sel f hh fw); [apply IH|apply pres_ret]|]. intros r (hr & hr' & Hr).
    assert (Kr : KS key r).
    { destruct (sel f hh fw); [eapply kp_key_same; exact Hr|]. apply ret_inv in Hr. destruct Hr as [_ ->]. right. reflexivity. }
    destruct (fst r) as [kk|] eqn:Ek; [|repeat lstep].
    unfold KS in Kr. rewrite Ek in Kr. destruct Kr as [Kr|Kr]; [discriminate|]. injection Kr as ->.
    destruct (is_vert (cmd_of (Some key))) eqn:Ev.
    + apply pres_bind; [apply L_lb_visible|]. intros _.
      apply pres_rd_fact. intros n2 Hn2. apply pres_heap_fact. intros h2 Hh2.
      match goal with |- pres _ (match ?x with _ => _ end) => destruct x as [j|] eqn:Ef end; [|apply pres_ret].
      apply pres_bind; [|intros; apply pres_ret]. apply L_lb_change_focus.
      apply find_some in Ef. destruct Ef as [_ Ef]. apply andb_prop in Ef. destruct Ef as [_ Ef].
      eapply guard_sel; try eassumption. apply (cell_id_nth f h2). exact Ef.
    + (* an arrow key that is not up/down is left/right: none of page up/down, home, end *)
      assert (Hc : ((cmd_of (Some key) =? C_PGUP) || (cmd_of (Some key) =? C_PGDN)) = false /\
                   ((cmd_of (Some key) =? C_MAXL) || (cmd_of (Some key) =? C_MAXR)) = false).
      { unfold is_arrow in Ha. cbn [existsb] in Ha. unfold C_PGUP, C_PGDN, C_MAXL, C_MAXR. generalize dependent (cmd_of (Some key)). intros c. lia. }
      destruct Hc as [-> ->]. apply pres_ret.
Qed.

(* ---------- the tree-wide statement ---------- *)
End Landed.

Theorem arrows_land_on_selectable_tree f id key h h' r :
  NoPending h -> is_arrow key = true -> kp f id key h = (h', r) ->
  forall x c, focus_child h' x = Some c -> focus_child h x = Some c \/ SelIn h c.
Proof.
  intros HN Ha Hk x c Hc.
  assert (H0 : InvI (PL h) h).
  { intros y n G. exists n. split; [exact G|]. split; [repeat split|]. split; [exact (HN y n G)|]. intros c' Hc'. left. exact Hc'. }
  pose proof (L_kp h key Ha f id h H0) as H1. rewrite Hk in H1. cbn [fst] in H1.
  rewrite focus_child_fc in Hc. destruct (getn h' x) as [n'|] eqn:G'; [|discriminate].
  destruct (H1 x n' G') as (n0 & G0' & _ & _ & Hl). rewrite focus_child_fc, G0'. apply Hl. exact Hc.
Qed.
