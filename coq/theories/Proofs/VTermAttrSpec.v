(* C15 - the AttrSpec abstraction of Model/VTerm.v, discharged against the proved model of AttrSpec (C18).

   Model/VTerm.v does not carry AttrSpec objects: [mk_attrspec fg bg colors bold ul blink so] stands for the object
   that sgi_to_attrspec builds with AttrSpec(decoded_fg, decoded_bg, colors), and the model claims that vterm.py reads
   back from it exactly these numbers (csi_set_attr: "default" in .foreground / .foreground_number / .background_number
   / .colors / .bold / .underline / .blink / .standout).  Here the claim is proved about C18's model of the class
   (Model/Colours.v, proved equal to the translated methods in Properties/C18.v): the descriptions _defaulter picks are
   accepted by the constructor at the declared depth and the packed value reads back as claimed, for every colour
   number the model admits - all 2^24 direct colours included.  Read-only use of C18's lemmas. *)
From Coq Require Import ZArith List Bool Lia.
Import ListNotations.
From Urwid Require Import PyBase PyList ColourBase colours_gen Colours ColoursTables ColoursBits ColoursSpec ColoursRound VTerm.
Open Scope Z_scope.

(* sgi_to_attrspec._defaulter(color, colors) *)
Definition vt_desc (c : oz) (colors : Z) : result desc :=
  match c with
  | None => Ok DDefault
  | Some n => if (255 <? n) || (colors =? 16777216) then color_desc_true n
              else if (15 <? n) || (colors =? 256) then color_desc_256 n
              else basic_name n
  end.
(* decoded_fg = ",".join((decoded_fg, *attributes)): the order of a set's elements is irrelevant
   (C18.parts_order_irrelevant); here in AttrSpec's own order *)
Definition vt_parts (fd : desc) (bold ul blink so : bool) : list part :=
  PCol fd :: parts_of_settings setting_order [bold; false; so; blink; ul; false].

Definition vt_kind (c : oz) (colors : Z) : kind :=
  match c with
  | None => KNone
  | Some _ => if colors =? 16777216 then KTrue else if colors =? 256 then KHigh else KBasic
  end.

Lemma vt_side c colors :
  colors = 1 \/ colors = 16 \/ colors = 256 \/ colors = 16777216 -> color_ok c colors = true ->
  exists d, vt_desc c colors = Ok d /\ wf_desc (mode_of colors) d /\
            part_color (mode_of colors) d = Ok (Some (dflt c)) /\ part_kind (mode_of colors) d = vt_kind c colors /\
            low24 (dflt c).
Proof.
  intros Hc Hok. destruct c as [n|].
  2:{ exists DDefault. repeat split. unfold low24. cbn. lia. }
  unfold color_ok in Hok. cbn [dflt vt_kind vt_desc].
  destruct Hc as [-> | [-> | [-> | ->]]].
  - exfalso. replace (1 =? 16777216) with false in Hok by reflexivity. replace (1 =? 256) with false in Hok by reflexivity.
    replace (1 =? 16) with false in Hok by reflexivity. rewrite andb_false_r in Hok. discriminate.
  - replace (16 =? 16777216) with false in * by reflexivity. replace (16 =? 256) with false in * by reflexivity.
    replace (16 =? 16) with true in Hok by reflexivity.
    assert (0 <= n < 16) as Hn by lia.
    replace (255 <? n) with false by lia. replace (15 <? n) with false by lia. cbn [orb].
    destruct (side_roundtrip M256 KBasic KNone KNone n Hn (fun _ => or_intror I) 16 I) as (d & E & W & P & K).
    exists d. cbn [side_desc] in E. change (mode_of 16) with M256. repeat split; try assumption; try lia.
  - replace (256 =? 16777216) with false in * by reflexivity. replace (256 =? 256) with true in * by reflexivity.
    assert (0 <= n < 256) as Hn by lia.
    replace (255 <? n) with false by lia. cbn [orb]. rewrite orb_true_r.
    assert (side_ok M256 KHigh n) as Hs by (split; [reflexivity|exact Hn]).
    destruct (side_roundtrip M256 KHigh KNone KNone n Hs (fun _ => or_intror I) 256 eq_refl) as (d & E & W & P & K).
    exists d. cbn [side_desc] in E. change (256 =? 88) with false in E. change (256 =? TRUE_DEPTH) with false in E.
    change (mode_of 256) with M256. repeat split; try assumption; try lia.
  - replace (16777216 =? 16777216) with true in * by reflexivity.
    assert (0 <= n < 16777216) as Hn by lia. rewrite orb_true_r.
    assert (side_ok MTrue KTrue n) as Hs by (split; [reflexivity|exact Hn]).
    destruct (side_roundtrip MTrue KTrue KNone KNone n Hs (fun _ => or_intror I) TRUE_DEPTH eq_refl) as (d & E & W & P & K).
    exists d. cbn [side_desc] in E. change (TRUE_DEPTH =? 88) with false in E. change (TRUE_DEPTH =? TRUE_DEPTH) with true in E.
    change (mode_of 16777216) with MTrue. repeat split; try assumption; try lia.
Qed.

Lemma vt_desc_side c colors :
  colors = 1 \/ colors = 16 \/ colors = 256 \/ colors = 16777216 -> color_ok c colors = true ->
  vt_desc c colors = side_desc colors (vt_kind c colors) (dflt c).
Proof.
  intros Hc Hok. destruct c as [n|]; [|reflexivity].
  unfold color_ok in Hok. cbn [dflt vt_kind vt_desc side_desc].
  destruct Hc as [-> | [-> | [-> | ->]]].
  - exfalso. replace (1 =? 16777216) with false in Hok by reflexivity. replace (1 =? 256) with false in Hok by reflexivity.
    replace (1 =? 16) with false in Hok by reflexivity. rewrite andb_false_r in Hok. discriminate.
  - replace (16 =? 16777216) with false in * by reflexivity. replace (16 =? 256) with false in * by reflexivity.
    replace (16 =? 16) with true in Hok by reflexivity.
    replace (255 <? n) with false by lia. replace (15 <? n) with false by lia. reflexivity.
  - replace (256 =? 16777216) with false in * by reflexivity. replace (256 =? 256) with true in * by reflexivity.
    replace (255 <? n) with false by lia. cbn [orb]. rewrite orb_true_r. reflexivity.
  - replace (16777216 =? 16777216) with true in * by reflexivity. rewrite orb_true_r. reflexivity.
Qed.

Lemma vt_kind_none c colors : vt_kind c colors = KNone -> c = None.
Proof. destruct c; [|reflexivity]. cbn. destruct (colors =? 16777216); [discriminate|]. destruct (colors =? 256); discriminate. Qed.

Lemma vt_kind_default md d : part_kind md d = KNone -> d = DDefault.
Proof. destruct d; cbn; try reflexivity; try discriminate; destruct md; discriminate. Qed.

(* what csi_set_attr / attr readers get from a packed AttrSpec value: the AttrSpec record of Model/VTerm.v *)
Definition reads (v : Z) (a : attr) : Prop :=
  (foreground_color v = Ok DDefault <-> a_fg a = None) /\
  (forall n, a_fg a = Some n -> attr_foreground_number v = n) /\
  (background v = Ok DDefault <-> a_bg a = None) /\
  (forall n, a_bg a = Some n -> attr_background_number v = n) /\
  attr_colors v = a_colors a /\
  attr_bold v = a_bold a /\ attr_underline v = a_ul a /\ attr_blink v = a_blink a /\ attr_standout v = a_so a /\
  attr_italics v = false /\ attr_strikethrough v = false.

Lemma colors_ok_cases colors : colors_ok colors = true -> colors = 1 \/ colors = 16 \/ colors = 256 \/ colors = 16777216.
Proof.
  unfold colors_ok. intros Cc. apply orb_prop in Cc. destruct Cc as [Cc|Cc]; [|right; right; right; apply Z.eqb_eq; exact Cc].
  apply orb_prop in Cc. destruct Cc as [Cc|Cc]; [|right; right; left; apply Z.eqb_eq; exact Cc].
  apply orb_prop in Cc. destruct Cc as [Cc|Cc]; [left|right; left]; apply Z.eqb_eq; exact Cc.
Qed.

(* AttrSpec(decoded_fg, decoded_bg, colors) of sgi_to_attrspec: accepted, and read back as the model's record;
   its own foreground / background report the descriptions it was built from *)
Theorem attrspec_object fg bg colors b u k s :
  colors_ok colors = true -> color_ok fg colors = true -> color_ok bg colors = true ->
  exists fd bd v,
    vt_desc fg colors = Ok fd /\ vt_desc bg colors = Ok bd /\
    attrspec_new (vt_parts fd b u k s) bd colors = ROk v /\
    reads v (mkAttr fg bg (if is_none fg && is_none bg then 1 else colors) b u k s) /\
    foreground v = Ok (fd, [b; false; s; k; u; false]) /\ background v = Ok bd.
Proof.
  intros Cc Cf Cb. pose proof (colors_ok_cases colors Cc) as Hc. unfold reads.
  cbn [a_fg a_bg a_colors a_bold a_ul a_blink a_so].
  destruct (vt_side fg colors Hc Cf) as (fd & Efd & Wfd & Pfd & Kfd & Lf).
  destruct (vt_side bg colors Hc Cb) as (bd & Ebd & Wbd & Pbd & Kbd & Lb).
  set (md := mode_of colors) in *. set (kf := vt_kind fg colors) in *. set (kb := vt_kind bg colors) in *.
  set (ss := SS b false u k s false).
  set (v := pack (marker (out_mode md kf kb)) (dflt fg) (F ss kf) (dflt bg) (bgflag kb)).
  assert (build md (vt_parts fd b u k s) bd = ROk v) as EB.
  { unfold build, vt_parts. cbn [fg_abs]. rewrite Pfd.
    pose proof (settings_rebuild md ss (Some (dflt fg)) (part_kind md fd)) as SR.
    unfold ss in SR. cbn [s_bold s_italics s_standout s_blink s_underline s_strike] in SR. rewrite SR.
    rewrite Pbd, Kfd, Kbd. reflexivity. }
  assert (attr_colors v = colors_spec md kf kb) as EC.
  { unfold v. rewrite colors_pack by assumption. apply colors_spec_out. }
  assert (colors_spec md kf kb = (if is_none fg && is_none bg then 1 else colors)) as ES.
  { assert (forall c, color_ok c 1 = true -> c = None) as H1.
    { intros [n|] Hn; [|reflexivity]. unfold color_ok in Hn. replace (1 =? 16777216) with false in Hn by reflexivity.
      replace (1 =? 256) with false in Hn by reflexivity. replace (1 =? 16) with false in Hn by reflexivity.
      rewrite andb_false_r in Hn. discriminate. }
    subst md kf kb. destruct Hc as [-> | [-> | [-> | ->]]].
    - rewrite (H1 fg Cf), (H1 bg Cb). reflexivity.
    - destruct fg, bg; reflexivity.
    - destruct fg, bg; reflexivity.
    - destruct fg, bg; reflexivity. }
  assert (attrspec_new (vt_parts fd b u k s) bd colors = ROk v) as EN.
  { rewrite attrspec_new_build.
    - replace (valid_depth colors) with true by (destruct Hc as [-> | [-> | [-> | ->]]]; reflexivity). cbn [negb].
      fold md. rewrite EB. cbn [rbind]. rewrite EC, ES.
      replace (colors <? (if is_none fg && is_none bg then 1 else colors)) with false; [reflexivity|].
      destruct (is_none fg && is_none bg); destruct Hc as [-> | [-> | [-> | ->]]]; reflexivity.
    - unfold vt_parts. constructor; [exact Wfd|apply settings_wf].
    - exact Wbd. }
  exists fd, bd, v. split; [exact Efd|]. split; [exact Ebd|]. split; [exact EN|].
  pose proof (OKv (out_mode md kf kb) (dflt fg) (dflt bg) ss kf kb Lf Lb) as OK.
  destruct (fg_kind_pack (out_mode md kf kb) (dflt fg) (dflt bg) ss kf kb Lf Lb) as (G1 & G2 & G3).
  pose proof (foreground_color_pack (out_mode md kf kb) (dflt fg) (dflt bg) ss kf kb Lf Lb) as FC.
  pose proof (background_pack (out_mode md kf kb) (dflt fg) (dflt bg) ss kf kb Lf Lb) as BC.
  pose proof (settings_pack (out_mode md kf kb) (dflt fg) (dflt bg) ss kf kb Lf Lb) as SP.
  fold v in G1, G2, G3, FC, BC, SP.
  assert (forall cs kk n, match kk with KNone => Ok DDefault | KBasic => basic_name n
                                | _ => (if cs =? 88 then color_desc_88 n else if cs =? TRUE_DEPTH then color_desc_true n else color_desc_256 n) end
                        = side_desc cs kk n) as SD by (intros cs kk n; destruct kk; reflexivity).
  unfold high_desc in FC, BC. rewrite colors_spec_out in FC, BC. rewrite SD in FC, BC. rewrite ES in FC, BC.
  assert (foreground_color v = Ok fd) as FD.
  { rewrite FC. destruct fg as [n|].
    - cbn [is_none andb]. rewrite <- Efd. symmetry. apply vt_desc_side; assumption.
    - cbn in Efd. injection Efd as <-. reflexivity. }
  assert (background v = Ok bd) as BD.
  { rewrite BC. destruct bg as [n|].
    - cbn [is_none]. rewrite andb_false_r. rewrite <- Ebd. symmetry. apply vt_desc_side; assumption.
    - cbn in Ebd. injection Ebd as <-. reflexivity. }
  unfold settings_of in SP. injection SP as S1 S2 S3 S4 S5 S6.
  split; [|split].
  2:{ unfold foreground. rewrite FD. cbn [bind]. unfold settings_of. rewrite S1, S2, S3, S4, S5, S6. reflexivity. }
  2:{ exact BD. }
  split; [|split; [|split; [|split; [|split]]]].
  - rewrite FD. split.
    + intros E. injection E as ->. apply (vt_kind_none fg colors). exact (eq_sym Kfd).
    + intros ->. cbn in Efd. injection Efd as <-. reflexivity.
  - intros n ->. unfold v. rewrite (acc_fgnum _ _ _ _ _ OK). reflexivity.
  - rewrite BD. split.
    + intros E. injection E as ->. apply (vt_kind_none bg colors). exact (eq_sym Kbd).
    + intros ->. cbn in Ebd. injection Ebd as <-. reflexivity.
  - intros n ->. unfold v. rewrite (acc_bgnum _ _ _ _ _ OK). reflexivity.
  - rewrite EC. exact ES.
  - repeat split; assumption.
Qed.

(* the object behind a non-None result of mk_attrspec, and what vterm.py reads back from it *)
Theorem attrspec_abstraction fg bg colors b u k s a :
  mk_attrspec fg bg colors b u k s = Ok (Some a) ->
  exists fd bd v,
    vt_desc fg colors = Ok fd /\ vt_desc bg colors = Ok bd /\
    attrspec_new (vt_parts fd b u k s) bd colors = ROk v /\ reads v a.
Proof.
  unfold mk_attrspec. intros H.
  destruct (colors_ok colors && color_ok fg colors && color_ok bg colors) eqn:C; [|discriminate].
  apply andb_prop in C. destruct C as [C Cb]. apply andb_prop in C. destruct C as [Cc Cf].
  destruct (is_none fg && is_none bg && negb (b || u || k || s)) eqn:N; [discriminate|]. injection H as <-.
  destruct (attrspec_object fg bg colors b u k s Cc Cf Cb) as (fd & bd & v & E1 & E2 & E3 & E4 & _).
  exists fd, bd, v. auto.
Qed.

(* ... and of a None result: sgi_to_attrspec returns None exactly when both descriptions are "default" and there is
   no attribute *)
Theorem attrspec_abstraction_none fg bg colors b u k s :
  mk_attrspec fg bg colors b u k s = Ok None ->
  vt_desc fg colors = Ok DDefault /\ vt_desc bg colors = Ok DDefault /\ vt_parts DDefault b u k s = [PCol DDefault].
Proof.
  unfold mk_attrspec. intros H.
  destruct (colors_ok colors && color_ok fg colors && color_ok bg colors); [|discriminate].
  destruct (is_none fg && is_none bg && negb (b || u || k || s)) eqn:N; [|discriminate].
  destruct fg, bg; try discriminate N. destruct b, u, k, s; try discriminate N. repeat split.
Qed.

(* reverse_attrspec: copy_modified(fg = the reported parts with "standout" added / removed) is
   AttrSpec(that foreground, self.background, self.colors) (C18.copy_modified_is_constructor); the rebuilt object
   reads back as the same record with the standout flag changed *)
Theorem reverse_attrspec_object fg bg colors b u k s s' :
  colors_ok colors = true -> color_ok fg colors = true -> color_ok bg colors = true ->
  exists fd bd v v',
    attrspec_new (vt_parts fd b u k s) bd colors = ROk v /\
    foreground v = Ok (fd, [b; false; s; k; u; false]) /\ background v = Ok bd /\
    attrspec_new (vt_parts fd b u k s') bd (attr_colors v) = ROk v' /\
    reads v' (mkAttr fg bg (if is_none fg && is_none bg then 1 else colors) b u k s').
Proof.
  intros Cc Cf Cb.
  destruct (attrspec_object fg bg colors b u k s Cc Cf Cb) as (fd & bd & v & E1 & E2 & E3 & E4 & E5 & E6).
  set (c' := if is_none fg && is_none bg then 1 else colors).
  assert (attr_colors v = c') as EC by (destruct E4 as (_ & _ & _ & _ & EC & _); exact EC).
  assert (colors_ok c' = true /\ color_ok fg c' = true /\ color_ok bg c' = true /\
          vt_desc fg c' = Ok fd /\ vt_desc bg c' = Ok bd /\ (if is_none fg && is_none bg then 1 else c') = c') as (A1 & A2 & A3 & A4 & A5 & A6).
  { subst c'. destruct fg as [n|], bg as [m|]; cbn [is_none andb]; repeat split; try assumption; try reflexivity;
      try (cbn in E1; exact E1); try (cbn in E2; exact E2). }
  destruct (attrspec_object fg bg c' b u k s' A1 A2 A3) as (fd' & bd' & v' & F1 & F2 & F3 & F4 & _).
  rewrite A4 in F1. injection F1 as <-. rewrite A5 in F2. injection F2 as <-. rewrite A6 in F4.
  exists fd, bd, v, v'. rewrite EC. auto.
Qed.
