(* C20 - proofs about Model/Scrollable.v, integer part (Scrollable: position, slice, forwarding).
   The float/thumb part is in ScrollFloatProofs.v and ScrollBarProofs.v. *)
From Coq Require Import ZArith List Bool Lia ZifyBool.
From Urwid Require Import PyBase ScrollBase scrollable_gen ScrollFloat Scrollable.
Import ListNotations.
Open Scope Z_scope.
Arguments Z.add : simpl never. Arguments Z.sub : simpl never. Arguments Z.mul : simpl never.
Arguments Z.ltb : simpl never. Arguments Z.leb : simpl never. Arguments Z.eqb : simpl never.
Arguments Z.min : simpl never. Arguments Z.max : simpl never.

(* the wrapped widget's cursor, when there is one, lies inside its canvas *)
Definition cursor_ok (cur : coords) (rows : Z) : Prop :=
  match cur with Some (_, r) => 0 <= r < rows | None => True end.

Definition ob_ok (ob : cobs) : Prop :=
  0 <= c_rows ob /\ 0 <= c_cols ob /\ cursor_ok (c_cursor ob) (c_rows ob).

(* the early-return test of Scrollable.render *)
Definition fits (ob : cobs) (maxcol maxrow : Z) : bool :=
  (c_cols ob <=? maxcol) && (c_rows ob <=? maxrow).

Ltac break_ifs :=
  repeat match goal with
  | |- context [if ?c then _ else _] => destruct c eqn:?; cbn [fst snd coords_get]
  | |- context [match ?c with Some _ => _ | None => _ end] => destruct c eqn:?; cbn [fst snd coords_get]
  end.

(* ---------- the translated position arithmetic ---------- *)

(* whatever the stored position (negative = bottom relative, huge, ...), the pending action, the remembered
   cursor: afterwards the action is consumed and 0 <= position <= max 0 (rows - maxrow) *)
Lemma adjust_spec tp act old rows cur maxcol maxrow :
  1 <= maxrow -> cursor_ok cur rows ->
  match adjust_trim_top_gen tp act old rows cur (maxcol, maxrow) with
  | (tp', act', old') => act' = ANone /\ 0 <= tp' <= Z.max 0 (rows - maxrow)
  end.
Proof.
  intros Hm Hc. unfold adjust_trim_top_gen.
  destruct cur as [[cc cr]|], old as [[oc or]|];
  destruct act; cbn -[Z.add Z.sub Z.ltb Z.leb Z.min Z.max Z.eqb];
  break_ifs; try (split; [reflexivity|]); unfold cursor_ok in Hc; try lia.
Qed.

(* a second adjustment with nothing pending is the identity: the position is stable *)
Lemma adjust_idempotent tp act old rows cur maxcol maxrow :
  1 <= maxrow -> cursor_ok cur rows ->
  match adjust_trim_top_gen tp act old rows cur (maxcol, maxrow) with
  | (tp', act', old') =>
      adjust_trim_top_gen tp' act' old' rows cur (maxcol, maxrow) = (tp', act', old')
  end.
Proof.
  intros Hm Hc. unfold adjust_trim_top_gen.
  destruct cur as [[cc cr]|], old as [[oc or]|];
  destruct act; cbn -[Z.add Z.sub Z.ltb Z.leb Z.min Z.max Z.eqb];
  unfold cursor_ok in Hc;
  repeat match goal with
  | |- context [if ?c then _ else _] => destruct c eqn:?; cbn -[Z.add Z.sub Z.ltb Z.leb Z.min Z.max Z.eqb]
  end; try reflexivity; try (exfalso; lia);
  match goal with |- (?a, _, _) = (?d, _, _) => replace a with d by lia; reflexivity end.
Qed.

(* without a cursor in the wrapped canvas the remembered cursor position plays no role *)
Lemma adjust_no_cursor tp act old1 old2 rows maxcol maxrow :
  fst (fst (adjust_trim_top_gen tp act old1 rows None (maxcol, maxrow))) =
  fst (fst (adjust_trim_top_gen tp act old2 rows None (maxcol, maxrow))).
Proof.
  unfold adjust_trim_top_gen.
  destruct old1 as [[? ?]|], old2 as [[? ?]|];
  destruct act; cbn -[Z.add Z.sub Z.ltb Z.leb Z.min Z.max Z.eqb];
  repeat match goal with
  | |- context [if ?c then _ else _] => destruct c eqn:?; cbn -[Z.add Z.sub Z.ltb Z.leb Z.min Z.max Z.eqb]
  end; reflexivity.
Qed.

(* ---------- Scrollable.render ---------- *)

(* the state a render leaves behind when everything fits: position 0, nothing pending *)
Definition fit_state (st : sstate) (ob : cobs) : sstate :=
  SState 0 ANone (match c_cursor ob with Some _ => true | None => c_selectable ob end)
         (old_cursor st) (rows_cached st).

Lemma s_render_fits st maxcol maxrow ob :
  fits ob maxcol maxrow = true ->
  s_render st maxcol maxrow ob =
    Ok (fit_state st ob,
        View 0 (c_rows ob) (Z.max 0 (maxrow - c_rows ob)) (Z.max 0 (maxcol - c_cols ob)) 0 (c_cursor ob)).
Proof.
  unfold fits, s_render, fit_state. intros H. rewrite H.
  apply andb_true_iff in H. destruct H as [H1 H2].
  repeat f_equal.
  - destruct ((c_rows ob <=? maxrow) && (0 <? maxrow - c_rows ob)) eqn:?; lia.
  - destruct ((c_cols ob <=? maxcol) && (0 <? maxcol - c_cols ob)) eqn:?; lia.
Qed.

(* the render that has to trim: everything the property says, in one statement about the model *)
Lemma s_render_trims st maxcol maxrow ob :
  1 <= maxrow -> ob_ok ob -> fits ob maxcol maxrow = false ->
  exists st' v,
    s_render st maxcol maxrow ob = Ok (st', v) /\
    0 <= trim_top st' <= Z.max 0 (c_rows ob - maxrow) /\
    action st' = ANone /\
    rows_cached st' = rows_cached st /\
    v_top v = trim_top st' /\
    v_shown v = Z.min maxrow (c_rows ob) /\
    v_blank v = Z.max 0 (maxrow - c_rows ob) /\
    v_padr v = Z.max 0 (maxcol - c_cols ob) /\
    v_trimr v = Z.max 0 (c_cols ob - maxcol).
Proof.
  intros Hm (Hr & Hc & Hcur) Hf. unfold fits in Hf. unfold s_render. rewrite Hf.
  set (fill := if (c_rows ob <=? maxrow) && (0 <? maxrow - c_rows ob) then maxrow - c_rows ob else 0).
  assert (Hfill : fill = Z.max 0 (maxrow - c_rows ob)).
  { subst fill. destruct ((c_rows ob <=? maxrow) && (0 <? maxrow - c_rows ob)) eqn:?; lia. }
  assert (Hcur' : cursor_ok (c_cursor ob) (c_rows ob + fill)).
  { unfold cursor_ok in *. destruct (c_cursor ob) as [[? ?]|]; lia. }
  pose proof (adjust_spec (trim_top st) (action st) (old_cursor st) (c_rows ob + fill)
                (c_cursor ob) maxcol maxrow Hm Hcur') as Ha.
  destruct (adjust_trim_top_gen (trim_top st) (action st) (old_cursor st) (c_rows ob + fill)
              (c_cursor ob) (maxcol, maxrow)) as [[tp act] old].
  destruct Ha as [Ha1 Ha2].
  assert (Hrange : 0 <= tp <= Z.max 0 (c_rows ob - maxrow)) by lia.
  destruct ((0 <? tp) && (c_rows ob + fill <=? tp)) eqn:E1; [exfalso; lia|].
  destruct ((0 <? c_rows ob - maxrow - tp) &&
            ((if 0 <? tp then c_rows ob + fill - tp else c_rows ob + fill) <? c_rows ob - maxrow - tp)) eqn:E2.
  { exfalso. destruct (0 <? tp) eqn:?; lia. }
  eexists. eexists. split; [reflexivity|].
  cbn [trim_top action rows_cached v_top v_shown v_blank v_padr v_trimr].
  repeat split; try lia; try assumption.
  - destruct (0 <? tp) eqn:?; lia.
  - destruct (0 <? tp) eqn:?; destruct (0 <? c_rows ob - maxrow - tp) eqn:?; lia.
  - destruct (0 <? tp) eqn:?; destruct (0 <? c_rows ob - maxrow - tp) eqn:?; lia.
  - destruct ((c_cols ob <=? maxcol) && (0 <? maxcol - c_cols ob)) eqn:?; lia.
  - destruct (0 <? c_cols ob - maxcol) eqn:?; lia.
Qed.

(* never an exception, and the shown window is always the right one (both branches) *)
Lemma s_render_total st maxcol maxrow ob :
  1 <= maxrow -> ob_ok ob ->
  exists st' v,
    s_render st maxcol maxrow ob = Ok (st', v) /\
    0 <= v_top v <= Z.max 0 (c_rows ob - maxrow) /\
    v_shown v = Z.min maxrow (c_rows ob - v_top v) /\
    v_blank v = Z.max 0 (maxrow - c_rows ob) /\
    v_padr v = Z.max 0 (maxcol - c_cols ob) /\
    v_trimr v = Z.max 0 (c_cols ob - maxcol) /\
    trim_top st' = v_top v /\
    action st' = ANone /\
    rows_cached st' = rows_cached st /\
    (fits ob maxcol maxrow = true -> st' = fit_state st ob).
Proof.
  intros Hm Hob. destruct (fits ob maxcol maxrow) eqn:Hf.
  - rewrite (s_render_fits _ _ _ _ Hf). unfold fits in Hf. destruct Hob as (Hr & Hc & _).
    eexists. eexists. split; [reflexivity|]. cbn [v_top v_shown v_blank v_padr v_trimr fit_state trim_top action rows_cached].
    repeat split; try lia; try discriminate.
  - destruct (s_render_trims st maxcol maxrow ob Hm Hob Hf)
      as (st' & v & E & R & A & C & T & S & B & P & Tr).
    exists st', v. split; [exact E|]. rewrite T. repeat split; try lia; try assumption; try discriminate.
Qed.

(* scroll_reports_p: after EVERY render the reported position is the p of the window shown, in range *)
Lemma s_render_reports st maxcol maxrow ob st' v :
  1 <= maxrow -> ob_ok ob -> s_render st maxcol maxrow ob = Ok (st', v) ->
  trim_top st' = v_top v /\ 0 <= trim_top st' <= Z.max 0 (c_rows ob - maxrow) /\ action st' = ANone.
Proof.
  intros Hm Hob E.
  destruct (s_render_total st maxcol maxrow ob Hm Hob) as (st2 & v2 & E2 & R & _ & _ & _ & _ & T & A & _).
  rewrite E in E2. inversion E2; subst. rewrite T. repeat split; try lia; assumption.
Qed.

(* ---------- what the view record means, on the actual rows of the wrapped widget ---------- *)

Definition view_rows {A} (blank : A) (full : list A) (v : view) : list A :=
  takez (v_shown v) (dropz (v_top v) full) ++ repeat blank (Z.to_nat (v_blank v)).

(* rows p .. p+h of the full rendering, blank rows appended only when the content is shorter than the view *)
Definition spec_rows {A} (blank : A) (full : list A) (p h : Z) : list A :=
  takez h (dropz p full) ++ repeat blank (Z.to_nat (Z.max 0 (h - zlen full))).

Lemma takez_min {A} n (l : list A) : 0 <= n -> takez (Z.min n (zlen l)) l = takez n l.
Proof.
  intros Hn. unfold takez, zlen. destruct (Z_le_gt_dec n (Z.of_nat (length l))).
  - f_equal. lia.
  - replace (Z.to_nat (Z.min n (Z.of_nat (length l)))) with (length l) by lia.
    rewrite firstn_all. symmetry. apply firstn_all2. lia.
Qed.

Lemma s_render_rows {A} (blank : A) st maxcol maxrow ob (full : list A) :
  1 <= maxrow -> ob_ok ob -> zlen full = c_rows ob ->
  exists st' v,
    s_render st maxcol maxrow ob = Ok (st', v) /\
    0 <= v_top v <= Z.max 0 (zlen full - maxrow) /\
    view_rows blank full v = spec_rows blank full (v_top v) maxrow /\
    zlen (view_rows blank full v) = maxrow.
Proof.
  intros Hm Hob Hl.
  destruct (s_render_total st maxcol maxrow ob Hm Hob) as (st' & v & E & R & S & B & _).
  exists st', v. split; [exact E|]. rewrite Hl. split; [exact R|].
  assert (Hd : zlen (dropz (v_top v) full) = c_rows ob - v_top v).
  { rewrite zlen_dropz by lia. destruct Hob as (Hr & _). lia. }
  split.
  - unfold view_rows, spec_rows. rewrite S, B, Hl. rewrite <- Hd. rewrite takez_min by lia. reflexivity.
  - unfold view_rows. rewrite zlen_app, S, B. rewrite <- Hd, takez_min by lia.
    rewrite zlen_takez by lia. rewrite Hd. unfold zlen. rewrite repeat_length.
    destruct Hob as (Hr & _). lia.
Qed.

(* ---------- keys and mouse events ---------- *)

Lemma s_keypress_handled st force cmd ko :
  (forward st || force) = true -> k_handled ko = true ->
  let '(st', r) := s_keypress st force cmd ko in
  kr_forwarded r = true /\ kr_none r = true /\
  action st' = action st /\ trim_top st' = trim_top st /\ forward st' = forward st.
Proof.
  intros Hf Hh. unfold s_keypress. rewrite Hf, Hh. cbn [andb].
  destruct (k_has_gcc ko); cbn; repeat split; reflexivity.
Qed.

(* a key is offered to the wrapped widget exactly when forwarding is on *)
Lemma s_keypress_forwarded st force cmd ko :
  kr_forwarded (snd (s_keypress st force cmd ko)) = (forward st || force).
Proof.
  unfold s_keypress. destruct (forward st || force); cbn [andb].
  - destruct (k_handled ko); [destruct (k_has_gcc ko); reflexivity|].
    destruct (k_has_gcc ko); cbn [andb]; destruct (k_retcmd ko); reflexivity.
  - destruct cmd; reflexivity.
Qed.

(* keypress never moves the position itself: it only records an action for the next render *)
Lemma s_keypress_position st force cmd ko :
  trim_top (fst (s_keypress st force cmd ko)) = trim_top st.
Proof.
  unfold s_keypress. destruct (forward st || force); cbn [andb].
  - destruct (k_handled ko); destruct (k_has_gcc ko); cbn [andb fst]; try reflexivity;
    destruct (k_retcmd ko); reflexivity.
  - destruct cmd; reflexivity.
Qed.

Lemma b_mouse_handled bs button row :
  b_mouse bs true button row true = (bs, (row + trim_top (inner bs), true)).
Proof. unfold b_mouse, s_mouse. cbn. reflexivity. Qed.

(* wheel events scroll by one, only when the wrapped widget did not take the event *)
Lemma b_mouse_wheel bs hm button row ch :
  (hm && ch) = false ->
  trim_top (inner (fst (b_mouse bs hm button row ch))) =
    if button =? 4 then Z.max (trim_top (inner bs) - 1) 0
    else if button =? 5 then trim_top (inner bs) + 1
    else trim_top (inner bs).
Proof.
  intros H. unfold b_mouse, s_mouse.
  destruct hm, ch; try discriminate; cbn [negb andb fst];
  destruct (button =? 4) eqn:?; cbn [andb fst inner s_set_scrollpos trim_top]; try reflexivity;
  destruct (button =? 5) eqn:?; cbn [andb fst inner s_set_scrollpos trim_top]; reflexivity.
Qed.

(* after a handled key, a render of a cursor-less wrapped canvas shows exactly what it would have shown *)
Lemma handled_key_same_view st force cmd ko maxcol maxrow ob :
  (forward st || force) = true -> k_handled ko = true -> c_cursor ob = None ->
  let st1 := fst (s_keypress st force cmd ko) in
  match s_render st maxcol maxrow ob, s_render st1 maxcol maxrow ob with
  | Ok (sa, va), Ok (sb, vb) => va = vb /\ trim_top sa = trim_top sb
  | Err e1, Err e2 => e1 = e2
  | _, _ => False
  end.
Proof.
  intros Hf Hh Hc. unfold s_keypress. rewrite Hf, Hh. cbn [andb fst].
  destruct (fits ob maxcol maxrow) eqn:Hfit.
  - rewrite !(s_render_fits _ _ _ _ Hfit). destruct (k_has_gcc ko); cbn [trim_top fit_state]; split; reflexivity.
  - destruct (k_has_gcc ko); [|destruct (s_render st maxcol maxrow ob) as [[? ?]|]; auto].
    unfold fits in Hfit. unfold s_render. rewrite Hfit. cbn [trim_top action old_cursor rows_cached forward]. rewrite Hc.
    set (rows := c_rows ob + _).
    pose proof (adjust_no_cursor (trim_top st) (action st) (old_cursor st) (k_gcc ko) rows maxcol maxrow) as Hn.
    destruct (adjust_trim_top_gen (trim_top st) (action st) (old_cursor st) rows None (maxcol, maxrow)) as [[t1 a1] o1].
    destruct (adjust_trim_top_gen (trim_top st) (action st) (k_gcc ko) rows None (maxcol, maxrow)) as [[t2 a2] o2].
    cbn [fst] in Hn. subst t2.
    destruct ((0 <? t1) && (rows <=? t1)); [reflexivity|].
    destruct ((0 <? c_rows ob - maxrow - t1) && _); [reflexivity|].
    cbn [trim_top]. split; reflexivity.
Qed.

(* rendering again with nothing changed shows the same window and reports the same position *)
Lemma s_render_stable st maxcol maxrow ob st' v :
  1 <= maxrow -> ob_ok ob ->
  s_render st maxcol maxrow ob = Ok (st', v) ->
  s_render st' maxcol maxrow ob = Ok (st', v).
Proof.
  intros Hm Hob E. destruct (fits ob maxcol maxrow) eqn:Hf.
  - rewrite (s_render_fits _ _ _ _ Hf) in E. inversion E; subst. rewrite (s_render_fits _ _ _ _ Hf). reflexivity.
  - destruct Hob as (Hr & Hc & Hcur). unfold fits in Hf. unfold s_render in *. rewrite Hf in *.
    set (fill := if (c_rows ob <=? maxrow) && (0 <? maxrow - c_rows ob) then maxrow - c_rows ob else 0) in *.
    assert (Hcur' : cursor_ok (c_cursor ob) (c_rows ob + fill)).
    { subst fill. unfold cursor_ok in *. destruct (c_cursor ob) as [[? ?]|]; [|exact I].
      destruct ((c_rows ob <=? maxrow) && (0 <? maxrow - c_rows ob)) eqn:?; lia. }
    pose proof (adjust_idempotent (trim_top st) (action st) (old_cursor st) (c_rows ob + fill)
                  (c_cursor ob) maxcol maxrow Hm Hcur') as Hi.
    destruct (adjust_trim_top_gen (trim_top st) (action st) (old_cursor st) (c_rows ob + fill)
                (c_cursor ob) (maxcol, maxrow)) as [[tp act] old].
    destruct ((0 <? tp) && (c_rows ob + fill <=? tp)) eqn:E1; [discriminate|].
    destruct ((0 <? c_rows ob - maxrow - tp) && _) eqn:E2; [discriminate|].
    inversion E; subst st' v; clear E. cbn [trim_top action old_cursor rows_cached].
    rewrite Hi, E1, E2. reflexivity.
Qed.
