(* Overlay.render: where the (trimmed) canvas of top_w ends up.  In each of the three modes the
   visible part of top_w lies inside the bottom canvas and, with the non-negative parts of the
   margins, exactly fills it in both directions. *)
From Coq Require Import ZArith List Bool Lia ZifyBool.
Import ListNotations.
From Urwid Require Import PyBase layout_gen Layout LayoutArith LayoutLists LayoutColumns LayoutOthers.
Open Scope Z_scope.

Arguments Z.min : simpl never.
Arguments Z.max : simpl never.
Arguments Z.add : simpl never.
Arguments Z.sub : simpl never.

Theorem overlay_placement_fills c maxcol maxrow pw ph (fr : Z -> Z) l r t b :
  p_wt (o_pad c) <> WClip ->
  overlay_padding_filler c maxcol maxrow pw ph fr = Ok (l, r, t, b) ->
  let '(x, y, w, h) := overlay_placement c maxcol maxrow pw ph fr l r t b in
  0 <= x /\ 0 <= y /\ x + w + Z.max r 0 = maxcol /\ y + h + Z.max b 0 = maxrow.
Proof.
  intros Hc Hrun. unfold overlay_placement.
  destruct (p_wt (o_pad c)) eqn:Ew; try congruence.
  - (* relative width *)
    destruct (f_ht (o_fill c)) eqn:Eh.
    1,2,3,5: (pose proof (overlay_box c maxcol maxrow pw ph fr l r t b ltac:(congruence) ltac:(congruence) ltac:(congruence) Hrun) as H;
              cbv zeta in H; destruct H as [_ [Hl [Hr [Ht Hb]]]];
              unfold overlay_top_w_size; rewrite Ew, Eh; repeat split; lia).
    pose proof (overlay_flow c maxcol maxrow pw ph fr l r t b ltac:(congruence) ltac:(congruence) Eh Hrun) as H.
    cbv zeta in H. destruct H as [_ [Hl [Hr [Ht Hs]]]].
    unfold overlay_top_w_size. rewrite Ew, Eh. repeat split; lia.
  - (* given width *)
    destruct (f_ht (o_fill c)) eqn:Eh.
    1,2,3,5: (pose proof (overlay_box c maxcol maxrow pw ph fr l r t b ltac:(congruence) ltac:(congruence) ltac:(congruence) Hrun) as H;
              cbv zeta in H; destruct H as [_ [Hl [Hr [Ht Hb]]]];
              unfold overlay_top_w_size; rewrite Ew, Eh; repeat split; lia).
    pose proof (overlay_flow c maxcol maxrow pw ph fr l r t b ltac:(congruence) ltac:(congruence) Eh Hrun) as H.
    cbv zeta in H. destruct H as [_ [Hl [Hr [Ht Hs]]]].
    unfold overlay_top_w_size. rewrite Ew, Eh. repeat split; lia.
  - (* fixed top widget *)
    pose proof (overlay_fixed c maxcol maxrow pw ph fr l r t b Ew Hrun) as [Htws [Hs1 [Hs2 Ht]]].
    rewrite Htws. repeat split; lia.
  - (* a weight width: treated like a given one by the arithmetic *)
    destruct (f_ht (o_fill c)) eqn:Eh.
    1,2,3,5: (pose proof (overlay_box c maxcol maxrow pw ph fr l r t b ltac:(congruence) ltac:(congruence) ltac:(congruence) Hrun) as H;
              cbv zeta in H; destruct H as [_ [Hl [Hr [Ht Hb]]]];
              unfold overlay_top_w_size; rewrite Ew, Eh; repeat split; lia).
    pose proof (overlay_flow c maxcol maxrow pw ph fr l r t b ltac:(congruence) ltac:(congruence) Eh Hrun) as H.
    cbv zeta in H. destruct H as [_ [Hl [Hr [Ht Hs]]]].
    unfold overlay_top_w_size. rewrite Ew, Eh. repeat split; lia.
Qed.
