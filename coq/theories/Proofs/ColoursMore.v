(* C18 - rejection, reported depth, settings and their order. *)
From Coq Require Import ZArith List Bool Lia ZifyBool Permutation.
Import ListNotations.
From Urwid Require Import PyBase PyList ColourBase colours_gen Colours ColoursTables ColoursBits ColoursSpec ColoursRound.
Open Scope Z_scope.

(* ------------------------------------------------------------------ rejection *)
Theorem reject_only_attrspecerror D fg bg e w :
  Forall (wf_part (mode_of D)) fg -> wf_desc (mode_of D) bg ->
  attrspec_new fg bg D = RErr e w -> e = AttrSpecError.
Proof.
  intros W Wb E. rewrite attrspec_new_build in E by assumption.
  destruct (negb (valid_depth D)); [now injection E as <- _|].
  unfold build in E.
  destruct (fg_abs (mode_of D) fg None ss_empty KNone) as [[[fcol ss] k]|e' w'] eqn:EF.
  - destruct (part_color_total (mode_of D) bg Wb) as [o [Eo _]]. rewrite Eo in E.
    destruct o as [bn|]; cbn [rbind] in E; [|now injection E as <- _].
    destruct (D <? _) in E; [now injection E as <- _|discriminate].
  - cbn [rbind] in E. injection E as <- _. eapply fg_abs_errors; eauto.
Qed.

(* the reason codes are the six raise statements *)
Theorem reject_reasons D fg bg e w :
  Forall (wf_part (mode_of D)) fg -> wf_desc (mode_of D) bg ->
  attrspec_new fg bg D = RErr e w -> 1 <= w <= 6.
Proof.
  intros W Wb E. rewrite attrspec_new_build in E by assumption.
  destruct (negb (valid_depth D)); [injection E as _ <-; lia|].
  unfold build in E.
  destruct (fg_abs (mode_of D) fg None ss_empty KNone) as [[[fcol ss] k]|e' w'] eqn:EF.
  - destruct (part_color_total (mode_of D) bg Wb) as [o [Eo _]]. rewrite Eo in E.
    destruct o as [bn|]; cbn [rbind] in E; [|injection E as _ <-; lia].
    destruct (D <? _) in E; [injection E as _ <-; lia|discriminate].
  - cbn [rbind] in E. injection E as _ <-. clear -W EF.
    revert EF. generalize (@None Z) ss_empty KNone.
    induction fg as [|p rest IH]; intros color ss k EF; [discriminate|].
    inversion W as [|? ? Wp Wr]; subst. destruct p as [s|d]; cbn [fg_abs] in EF.
    + destruct (mem s ss); [injection EF as _ <-; lia|]. eapply IH; eauto.
    + destruct (part_color_total (mode_of D) d Wp) as [o [Eo _]]. rewrite Eo in EF.
      destruct o as [sc|]; [|injection EF as _ <-; lia]. destruct color; [injection EF as _ <-; lia|].
      eapply IH; eauto.
Qed.

(* ------------------------------------------------------------------ the reported depth *)
(* no hypothesis on the input at all: the last statement of __init__ *)
Theorem colors_le_declared D fg bg v : attrspec_new fg bg D = ROk v -> attr_colors v <= D /\ valid_depth D = true.
Proof.
  unfold attrspec_new. destruct (valid_depth D); cbn [negb]; [|discriminate].
  destruct (set_foreground (init_value D) fg) as [v1|]; cbn [rbind]; [|discriminate].
  destruct (set_background v1 bg) as [v2|]; cbn [rbind]; [|discriminate]. cbv zeta.
  destruct (D <? attr_colors (drop_marker v2)) eqn:E; [discriminate|]. intros H; injection H as <-. split; [lia|reflexivity].
Qed.

(* no smaller depth expresses the specification, whatever strings are used *)
Theorem colors_minimal D fg bg v :
  attrspec_new fg bg D = ROk v ->
  forall d fg' bg', d < attr_colors v -> attrspec_new fg' bg' d <> ROk v.
Proof.
  intros _ d fg' bg' Hd E. apply colors_le_declared in E. lia.
Qed.

(* ------------------------------------------------------------------ settings *)
Definition setting_eqb (a b : setting) : bool :=
  match a, b with
  | SBold, SBold | SItalics, SItalics | SUnderline, SUnderline | SBlink, SBlink
  | SStandout, SStandout | SStrike, SStrike => true
  | _, _ => false
  end.
Lemma setting_eqb_eq a b : setting_eqb a b = true <-> a = b.
Proof. destruct a, b; cbn; split; congruence. Qed.
Lemma mem_add s t ss : mem s (add t ss) = setting_eqb s t || mem s ss.
Proof. all_ss ss; destruct s, t; reflexivity. Qed.

Definition has_setting (s : setting) (parts : list part) : bool :=
  existsb (fun p => match p with PSet t => setting_eqb s t | PCol _ => false end) parts.

Lemma fg_abs_mem md s : forall parts color ss k c' ss' k',
  fg_abs md parts color ss k = ROk (c', ss', k') -> mem s ss' = has_setting s parts || mem s ss.
Proof.
  induction parts as [|p rest IH]; intros color ss k c' ss' k' E.
  - cbn in E. injection E as _ <- _. reflexivity.
  - destruct p as [t|d]; cbn [fg_abs] in E; cbn [has_setting existsb].
    + destruct (mem t ss) eqn:Mt; [discriminate|]. rewrite (IH _ _ _ _ _ _ E), mem_add.
      fold (has_setting s rest). destruct (setting_eqb s t), (has_setting s rest); reflexivity.
    + destruct (part_color md d) as [[sc|]|]; try discriminate. destruct color; [discriminate|].
      rewrite (IH _ _ _ _ _ _ E). reflexivity.
Qed.

(* the model's observable for one setting (AttrSpec.bold etc.) *)
Definition attr_setting (s : setting) (v : Z) : bool :=
  match s with
  | SBold => attr_bold v | SItalics => attr_italics v | SUnderline => attr_underline v
  | SBlink => attr_blink v | SStandout => attr_standout v | SStrike => attr_strikethrough v
  end.

Theorem settings_preserved D fg bg v s :
  Forall (wf_part (mode_of D)) fg -> wf_desc (mode_of D) bg -> attrspec_new fg bg D = ROk v ->
  attr_setting s v = has_setting s fg.
Proof.
  intros W Wb E.
  destruct (construct_inv D fg bg v W Wb E) as [_ [_ [_ [fcol [ss [k [bn [EF [_ [EV [Hfn [Hbn _]]]]]]]]]]]].
  pose proof (settings_pack (out_mode (mode_of D) k (part_kind (mode_of D) bg)) (dflt fcol) bn ss k
                            (part_kind (mode_of D) bg) Hfn Hbn) as SP.
  rewrite <- EV in SP. unfold settings_of in SP.
  injection SP as S1 S2 S3 S4 S5 S6.
  rewrite <- (orb_false_r (has_setting s fg)).
  replace false with (mem s ss_empty) by (destruct s; reflexivity). rewrite <- (fg_abs_mem _ s _ _ _ _ _ _ _ EF).
  destruct s; cbn [attr_setting mem]; assumption.
Qed.

(* ------------------------------------------------------------------ the order of the parts does not matter *)
Lemma add_comm s t ss : add s (add t ss) = add t (add s ss).
Proof. all_ss ss; destruct s, t; reflexivity. Qed.

Lemma fg_abs_perm md : forall p q, Permutation p q ->
  forall color ss k r, fg_abs md p color ss k = ROk r -> fg_abs md q color ss k = ROk r.
Proof.
  induction 1 as [|x l l' P IH|x y l|l l' l'' P1 IH1 P2 IH2]; intros color ss k r E.
  - exact E.
  - destruct x as [s|d]; cbn [fg_abs] in E |- *.
    + destruct (mem s ss); [discriminate|]. now apply IH.
    + destruct (part_color md d) as [[sc|]|]; try discriminate. destruct color; [discriminate|]. now apply IH.
  - destruct x as [s|d], y as [t|d']; cbn [fg_abs] in E |- *.
    + rewrite mem_add in E. rewrite mem_add.
      destruct (mem t ss) eqn:Mt; [discriminate|]. destruct (setting_eqb s t) eqn:Est; [discriminate|].
      cbn [orb] in E. destruct (mem s ss) eqn:Ms; [discriminate|].
      replace (setting_eqb t s) with false by (destruct s, t; cbn in Est |- *; congruence). cbn [orb].
      now rewrite add_comm.
    + destruct (part_color md d') as [[sc|]|]; try discriminate. destruct color; [discriminate|].
      destruct (mem s ss); [discriminate|]. exact E.
    + destruct (mem t ss); [discriminate|].
      destruct (part_color md d) as [[sc|]|]; try discriminate. destruct color; [discriminate|]. exact E.
    + destruct (part_color md d') as [[sc'|]|]; try discriminate. destruct color; [discriminate|].
      destruct (part_color md d) as [[sc|]|]; discriminate.
  - apply IH2. now apply IH1.
Qed.

Theorem order_irrelevant D fg fg' bg v :
  Forall (wf_part (mode_of D)) fg -> wf_desc (mode_of D) bg -> Permutation fg fg' ->
  attrspec_new fg bg D = ROk v -> attrspec_new fg' bg D = ROk v.
Proof.
  intros W Wb P E.
  assert (W' : Forall (wf_part (mode_of D)) fg') by (eapply Permutation_Forall; eauto).
  rewrite attrspec_new_build in E |- * by assumption.
  destruct (negb (valid_depth D)); [discriminate|].
  unfold build in E |- *.
  destruct (fg_abs (mode_of D) fg None ss_empty KNone) as [r|] eqn:EF; [|discriminate].
  now rewrite (fg_abs_perm _ _ _ P _ _ _ _ EF).
Qed.

