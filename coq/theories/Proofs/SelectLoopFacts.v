(* C13 - list / dictionary / heap facts used by the SelectEventLoop proofs. *)
From Coq Require Import ZArith List Bool Lia Sorted.
Import ListNotations.
From Urwid Require Import PyBase SelectLoop.
Open Scope Z_scope.

(* ---------- dictionaries ---------- *)
Lemma lookup_in : forall k v d, lookup k d = Some v -> In (k, v) d.
Proof.
  induction d as [|[k' v'] r IH]; cbn; intros H; [discriminate|].
  destruct (k' =? k) eqn:E.
  - apply Z.eqb_eq in E. inversion H; subst. now left.
  - right. auto.
Qed.

Lemma in_lookup : forall k v d, NoDup (map fst d) -> In (k, v) d -> lookup k d = Some v.
Proof.
  induction d as [|[k' v'] r IH]; cbn; intros ND H; [contradiction|].
  inversion ND as [|? ? Hn ND']; subst.
  destruct H as [H|H].
  - inversion H; subst. now rewrite Z.eqb_refl.
  - destruct (k' =? k) eqn:E.
    + apply Z.eqb_eq in E; subst. exfalso. apply Hn. change k with (fst (k, v)). now apply in_map.
    + auto.
Qed.

Lemma lookup_none_notin : forall k d, lookup k d = None -> forall v, ~ In (k, v) d.
Proof.
  induction d as [|[k' v'] r IH]; cbn; intros H v; [tauto|].
  destruct (k' =? k) eqn:E; [discriminate|].
  intros [X|X]; [inversion X; subst; rewrite Z.eqb_refl in E; discriminate|].
  eapply IH; eauto.
Qed.

Lemma lookup_some_key : forall k d, (exists v, lookup k d = Some v) <-> In k (map fst d).
Proof.
  induction d as [|[k' v'] r IH]; cbn.
  - split; [intros [v H]; discriminate|tauto].
  - destruct (k' =? k) eqn:E.
    + apply Z.eqb_eq in E. split; [now left|eauto].
    + rewrite IH. apply Z.eqb_neq in E. split; [now right|intros [X|X]; [contradiction|exact X]].
Qed.

Lemma mem_true : forall k d, mem k d = true <-> exists v, lookup k d = Some v.
Proof. intros; unfold mem; destruct (lookup k d); split; intros H; eauto; try discriminate. destruct H; discriminate. Qed.

Lemma mem_false : forall k d, mem k d = false <-> lookup k d = None.
Proof. intros; unfold mem; destruct (lookup k d); split; intros H; eauto; discriminate. Qed.

Lemma lookup_dict_set : forall k v d k', lookup k' (dict_set k v d) = if k =? k' then Some v else lookup k' d.
Proof.
  induction d as [|[k0 v0] r IH]; intros k'; cbn.
  - reflexivity.
  - destruct (k0 =? k) eqn:E; cbn.
    + apply Z.eqb_eq in E; subst. destruct (k =? k'); reflexivity.
    + rewrite IH. destruct (k0 =? k') eqn:E2; [|reflexivity].
      apply Z.eqb_eq in E2; subst. now rewrite Z.eqb_sym, E.
Qed.

Lemma keys_dict_set : forall k v d, NoDup (map fst d) -> NoDup (map fst (dict_set k v d)).
Proof.
  induction d as [|[k0 v0] r IH]; cbn; intros ND.
  - constructor; [tauto|constructor].
  - inversion ND as [|? ? Hn ND']; subst. destruct (k0 =? k) eqn:E; cbn.
    + apply Z.eqb_eq in E; subst. now constructor.
    + constructor; [|auto]. intros X. apply Hn.
      apply lookup_some_key in X. destruct X as [w X]. rewrite lookup_dict_set in X.
      destruct (k =? k0) eqn:E2; [rewrite Z.eqb_sym, E in E2; discriminate|].
      apply lookup_some_key; eauto.
Qed.

Lemma lookup_dict_del : forall k d k', NoDup (map fst d) ->
  lookup k' (dict_del k d) = if k =? k' then None else lookup k' d.
Proof.
  induction d as [|[k0 v0] r IH]; intros k' ND; cbn.
  - now destruct (k =? k').
  - inversion ND as [|? ? Hn ND']; subst. destruct (k0 =? k) eqn:E; cbn.
    + apply Z.eqb_eq in E; subst. destruct (k =? k') eqn:E2; [|reflexivity].
      apply Z.eqb_eq in E2; subst.
      destruct (lookup k' r) eqn:L; [|reflexivity]. exfalso. apply Hn. apply lookup_some_key; eauto.
    + rewrite IH by assumption. destruct (k0 =? k') eqn:E2; [|reflexivity].
      apply Z.eqb_eq in E2; subst. now rewrite Z.eqb_sym, E.
Qed.

Lemma dict_del_incl : forall k d x, In x (dict_del k d) -> In x d.
Proof.
  induction d as [|[k0 v0] r IH]; cbn; intros x H; [tauto|].
  destruct (k0 =? k); [now right|]. destruct H; [now left|right; auto].
Qed.

Lemma keys_dict_del : forall k d, NoDup (map fst d) -> NoDup (map fst (dict_del k d)).
Proof.
  induction d as [|[k0 v0] r IH]; cbn; intros ND; [constructor|].
  inversion ND as [|? ? Hn ND']; subst. destruct (k0 =? k); [assumption|]. cbn. constructor; [|auto].
  intros X. apply Hn. apply in_map_iff in X. destruct X as [[a b] [X1 X2]]. cbn in X1; subst.
  apply dict_del_incl in X2. change k0 with (fst (k0, b)). now apply in_map.
Qed.

Lemma in_dict_del : forall k d h v, NoDup (map fst d) -> (In (h, v) (dict_del k d) <-> In (h, v) d /\ h <> k).
Proof.
  intros k d h v ND. split.
  - intros H. split; [eapply dict_del_incl; eauto|].
    intros ->. apply in_lookup in H; [|now apply keys_dict_del].
    rewrite lookup_dict_del in H by assumption. now rewrite Z.eqb_refl in H.
  - intros [H Hn]. apply lookup_in. rewrite lookup_dict_del by assumption.
    destruct (k =? h) eqn:E; [apply Z.eqb_eq in E; congruence|]. now apply in_lookup.
Qed.

(* ---------- the alarm heap ---------- *)
Definition alt (a b : alarm_t) : Prop := alarm_lt a b = true.

Lemma alarm_lt_spec : forall a b, alarm_lt a b = true <-> (a_due a < a_due b \/ (a_due a = a_due b /\ a_tie a < a_tie b)).
Proof. intros; unfold alarm_lt. rewrite orb_true_iff, andb_true_iff, !Z.ltb_lt, Z.eqb_eq. tauto. Qed.

Lemma alarm_lt_false : forall a b, alarm_lt a b = false <-> (a_due b < a_due a \/ (a_due a = a_due b /\ a_tie b <= a_tie a)).
Proof.
  intros. pose proof (alarm_lt_spec a b). destruct (alarm_lt a b).
  - split; [discriminate|]. intros. assert (a_due a < a_due b \/ a_due a = a_due b /\ a_tie a < a_tie b) by (now apply H). lia.
  - split; [|reflexivity]. intros _.
    assert (~ (a_due a < a_due b \/ a_due a = a_due b /\ a_tie a < a_tie b)) by (intros X; apply H in X; discriminate). lia.
Qed.

Lemma in_heap_insert : forall a l x, In x (heap_insert a l) <-> x = a \/ In x l.
Proof.
  induction l as [|b r IH]; intros x; cbn.
  - intuition.
  - destruct (alarm_lt a b); cbn; [intuition|]. rewrite IH. intuition.
Qed.

Lemma sorted_heap_insert : forall a l, StronglySorted alt l ->
  (forall b, In b l -> a_tie b <> a_tie a) -> StronglySorted alt (heap_insert a l).
Proof.
  induction l as [|b r IH]; intros S Hn; cbn.
  - constructor; [constructor|constructor].
  - inversion S as [|? ? S' F]; subst. destruct (alarm_lt a b) eqn:E.
    + constructor; [assumption|]. constructor; [exact E|].
      rewrite Forall_forall in *. intros x Hx. specialize (F x Hx). unfold alt in *.
      apply alarm_lt_spec in E, F. apply alarm_lt_spec. lia.
    + constructor.
      * apply IH; [assumption|]. intros; apply Hn; now right.
      * rewrite Forall_forall in *. intros x Hx. apply in_heap_insert in Hx. destruct Hx as [->|Hx]; [|auto].
        unfold alt. apply alarm_lt_false in E. apply alarm_lt_spec.
        assert (a_tie b <> a_tie a) by (apply Hn; now left). lia.
Qed.

Lemma nodup_snoc : forall (l : list Z) x, NoDup l -> ~ In x l -> NoDup (l ++ [x]).
Proof.
  induction l as [|a r IH]; cbn; intros x ND Hn.
  - constructor; [tauto|constructor].
  - inversion ND; subst. constructor.
    + rewrite in_app_iff. cbn. intuition.
    + apply IH; auto.
Qed.

Lemma nodup_ties_insert : forall a l, NoDup (map a_tie l) -> (forall b, In b l -> a_tie b <> a_tie a) ->
  NoDup (map a_tie (heap_insert a l)).
Proof.
  induction l as [|b r IH]; cbn; intros ND Hn.
  - constructor; [tauto|constructor].
  - inversion ND as [|? ? Hb ND']; subst. destruct (alarm_lt a b); cbn.
    + constructor; [|now constructor]. intros [X|X]; [eapply Hn; [left; reflexivity|exact X]|].
      apply in_map_iff in X. destruct X as [c [X1 X2]]. eapply Hn; [right; exact X2|exact X1].
    + constructor; [|apply IH; auto]. intros X. apply in_map_iff in X. destruct X as [c [X1 X2]].
      apply in_heap_insert in X2. destruct X2 as [->|X2].
      * eapply Hn; [left; reflexivity|]. congruence.
      * apply Hb. rewrite <- X1. now apply in_map.
Qed.

Lemma has_tie_true : forall k l, has_tie k l = true <-> exists a, In a l /\ a_tie a = k.
Proof.
  intros; unfold has_tie. rewrite existsb_exists. split; intros [a [H1 H2]]; exists a; split; auto.
  - now apply Z.eqb_eq. - now apply Z.eqb_eq.
Qed.

Lemma remove_tie_incl : forall k l x, In x (remove_tie k l) -> In x l.
Proof.
  induction l as [|a r IH]; cbn; intros x H; [tauto|].
  destruct (a_tie a =? k); [now right|]. destruct H; [now left|right; auto].
Qed.

Lemma in_remove_tie : forall k l x, NoDup (map a_tie l) -> (In x (remove_tie k l) <-> In x l /\ a_tie x <> k).
Proof.
  induction l as [|a r IH]; cbn; intros x ND; [tauto|].
  inversion ND as [|? ? Hn ND']; subst. destruct (a_tie a =? k) eqn:E.
  - apply Z.eqb_eq in E. split.
    + intros H. split; [now right|]. intros X. apply Hn. rewrite E, <- X. now apply in_map.
    + intros [[->|H] Hk]; [contradiction|assumption].
  - apply Z.eqb_neq in E. cbn. rewrite IH by assumption. split.
    + intros [->|[H1 H2]]; [split; [now left|assumption]|split; [now right|assumption]].
    + intros [[->|H] Hk]; [now left|right; tauto].
Qed.

Lemma sorted_remove_tie : forall k l, StronglySorted alt l -> StronglySorted alt (remove_tie k l).
Proof.
  induction l as [|a r IH]; cbn; intros S; [constructor|].
  inversion S as [|? ? S' F]; subst. destruct (a_tie a =? k); [assumption|].
  constructor; [auto|]. rewrite Forall_forall in *. intros x Hx. apply F. eapply remove_tie_incl; eauto.
Qed.

Lemma nodup_ties_remove : forall k l, NoDup (map a_tie l) -> NoDup (map a_tie (remove_tie k l)).
Proof.
  induction l as [|a r IH]; cbn; intros ND; [constructor|].
  inversion ND as [|? ? Hn ND']; subst. destruct (a_tie a =? k); [assumption|]. cbn.
  constructor; [|auto]. intros X. apply Hn. apply in_map_iff in X. destruct X as [c [X1 X2]].
  rewrite <- X1. apply in_map. eapply remove_tie_incl; eauto.
Qed.
