(* C18 - the lexer: from strings to the lexical classes of Base/ColourBase.v, and the proof that the
   string-level parsers / constructor (translated and modelled on raw strings) are the description-level
   ones after lexing.  This is the formal version of the mapping that harness/props/c18.py used to perform. *)
From Coq Require Import ZArith List Bool Lia ZifyBool.
Import ListNotations.
From Urwid Require Import PyBase PyList ColourBase ColourStr colours_gen Colours
     ColoursTables ColoursBits ColoursSpec ColoursStrFacts.
Open Scope Z_scope.

Arguments py_int : simpl never.
Arguments startswith : simpl never.
Arguments zlen : simpl never.
Arguments str_from : simpl never.
Arguments str_at : simpl never.
Arguments str_slice : simpl never.

Definition classify (k : Z -> desc) (o : option Z) : desc := match o with Some n => k n | None => DBad end.

(* the string tests of _parse_color_256 (and of _parse_color_88 after its length-7 collapse) *)
Definition lex_plain (s : str) : desc :=
  if 4 <? zlen s then DBad
  else if startswith s [104] then classify DH (py_int 10 (str_from s 1))
  else if startswith s [35] && (zlen s =? 4) then classify DCube (py_int 16 (str_from s 1))
  else if startswith s [103; 35] then classify DGrayHex (py_int 16 (str_from s 2))
  else if startswith s [103] then classify DGrayDec (py_int 10 (str_from s 1))
  else DBad.

Definition collapse7 (s : str) : str := (str_slice s 0 2 ++ str_at s 3) ++ str_at s 5.
Definition lex_88 (s : str) : desc := lex_plain (if zlen s =? 7 then collapse7 s else s).

(* "0x" + s[1] + "0" + s[2] + "0" + s[3] *)
Definition expand4 (s : str) : str := [48; 120] ++ str_at s 1 ++ [48] ++ str_at s 2 ++ [48] ++ str_at s 3.
Definition lex_true_fallback (s : str) : desc :=
  if negb (startswith s [35]) then DBad
  else if zlen s =? 7 then classify DTrue (py_int 16 (str_from s 1))
  else if zlen s =? 4 then classify DTrue (py_int 16 (expand4 s))
  else DBad.
Definition lex_true (s : str) : desc :=
  match lex_plain s with
  | DBad => lex_true_fallback s
  | DCube n => if n <? 0 then lex_true_fallback s else DCube n
  | d => d
  end.

(* _true_to_256: "#" + the three high nibbles *)
Definition nibbles7 (a b c : Z) : str := [35] ++ (fmt_x (a / 16) ++ fmt_x (b / 16) ++ fmt_x (c / 16)).
Definition lex_256 (s : str) : desc :=
  if startswith s [35] && (zlen s =? 7) then
    match py_int 16 (str_slice s 1 3), py_int 16 (str_slice s 3 5), py_int 16 (str_slice s 5 7) with
    | Some a, Some b, Some c => lex_plain (nibbles7 a b c)
    | _, _, _ => DBad
    end
  else lex_plain s.

Definition lex_mode (md : mode) (s : str) : desc :=
  match md with M88 => lex_88 s | MTrue => lex_true s | M256 => lex_256 s end.
(* part in {"", "default"} / part in _BASIC_COLORS / a colour of the mode *)
Definition lex_color (md : mode) (s : str) : desc :=
  if str_eqb s [] || str_eqb s S_default then DDefault
  else match str_index BASIC_COLORS s with Some i => DBasic i | None => lex_mode md s end.
Definition lex_part (md : mode) (p : str) : part :=
  match find_setting ATTRIBUTE_NAMES p with Some s => PSet s | None => PCol (lex_color md p) end.
Definition lex_fg (md : mode) (fg : str) : list part := map (lex_part md) (fg_parts fg).

(* ------------------------------------------------------------------ _parse_color_256 *)
Lemma parse_256_bad : parse_color_256 DBad = Ok None.
Proof. reflexivity. Qed.

Theorem parse_256_lex s : parse_color_256_s s = parse_color_256 (lex_plain s).
Proof.
  unfold parse_color_256_s, lex_plain.
  destruct (4 <? zlen s); [reflexivity|].
  destruct (startswith s [104]); [destruct (py_int 10 (str_from s 1)); reflexivity|].
  destruct (startswith s [35] && (zlen s =? 4)); [destruct (py_int 16 (str_from s 1)); reflexivity|].
  destruct (startswith s [103; 35]); [destruct (py_int 16 (str_from s 2)); reflexivity|].
  destruct (startswith s [103]); [destruct (py_int 10 (str_from s 1)); reflexivity|].
  reflexivity.
Qed.

Lemma lex_plain_shape s :
  match lex_plain s with DDefault | DBasic _ | DTrue _ => False | _ => True end.
Proof.
  unfold lex_plain. repeat (match goal with |- context [if ?b then _ else _] => destruct b end);
    try exact I; unfold classify; match goal with |- context [py_int ?b ?x] => destruct (py_int b x) end; exact I.
Qed.

(* ------------------------------------------------------------------ _parse_color_88 *)
Lemma zlen_collapse7 s : zlen s = 7 -> zlen (collapse7 s) = 4.
Proof.
  intros H. unfold collapse7, str_slice, str_at. rewrite !zlen_app.
  rewrite !zlen_takez, !zlen_dropz by lia. lia.
Qed.

Lemma parse_88_short s : zlen s <> 7 -> parse_color_88_s s = parse_color_88 (lex_plain s).
Proof.
  intros H. unfold parse_color_88_s, lex_plain. replace (zlen s =? 7) with false by lia.
  destruct (4 <? zlen s); [reflexivity|].
  destruct (startswith s [104]); [destruct (py_int 10 (str_from s 1)); reflexivity|].
  destruct (startswith s [35] && (zlen s =? 4)); [destruct (py_int 16 (str_from s 1)); reflexivity|].
  destruct (startswith s [103; 35]); [destruct (py_int 16 (str_from s 2)); reflexivity|].
  destruct (startswith s [103]); [destruct (py_int 10 (str_from s 1)); reflexivity|].
  reflexivity.
Qed.

Lemma parse_88_long s : zlen s = 7 -> parse_color_88_s s = parse_color_88_s (collapse7 s).
Proof.
  intros H. pose proof (zlen_collapse7 s H) as H4.
  unfold parse_color_88_s at 2. replace (zlen (collapse7 s) =? 7) with false by lia.
  unfold parse_color_88_s. replace (zlen s =? 7) with true by lia. reflexivity.
Qed.

Theorem parse_88_lex s : parse_color_88_s s = parse_color_88 (lex_88 s).
Proof.
  unfold lex_88. destruct (zlen s =? 7) eqn:E.
  - rewrite parse_88_long by lia. apply parse_88_short. rewrite zlen_collapse7 by lia. lia.
  - apply parse_88_short. lia.
Qed.

(* ------------------------------------------------------------------ _parse_color_true *)
(* a cube value that is not negative is never "not a colour" *)
Lemma parse_256_cube_not_none n : 0 <= n -> parse_color_256 (DCube n) <> Ok None.
Proof.
  intros H. unfold parse_color_256. cbn [s_len_gt4 s_is_h s_is_hash4 s_int]. replace (0 <=? n) with true by lia.
  cbv zeta. destruct (get_index CUBE_256_LOOKUP_16 (n / 16 / 16)); cbn [bind]; [|discriminate].
  destruct (get_index CUBE_256_LOOKUP_16 (n / 16 mod 16)); cbn [bind]; [|discriminate].
  destruct (get_index CUBE_256_LOOKUP_16 (n mod 16)); cbn [bind]; discriminate.
Qed.

Lemma true_fallback_s s :
  (if negb (startswith s [35]) then Ok None
   else if zlen s =? 7 then
     match py_int 16 (str_from s 1) with Some n => if 0 <=? n then Ok (Some n) else Ok None | None => Ok None end
   else if zlen s =? 4 then
     match py_int 16 (expand4 s) with Some n => Ok (Some n) | None => Ok None end
   else @Ok (option Z) None)
  = parse_color_true (lex_true_fallback s).
Proof.
  unfold lex_true_fallback. destruct (negb (startswith s [35])); [reflexivity|].
  destruct (zlen s =? 7).
  - destruct (py_int 16 (str_from s 1)) as [n|]; [|reflexivity]. cbn [classify].
    unfold parse_color_true. cbn [parse_color_256 s_len_gt4 bind s_is_hash negb s_len7 s_int]. reflexivity.
  - destruct (zlen s =? 4); [|reflexivity].
    destruct (py_int 16 (expand4 s)) as [n|] eqn:E; [|reflexivity]. cbn [classify].
    unfold parse_color_true. cbn [parse_color_256 s_len_gt4 bind s_is_hash negb s_len7 s_int].
    destruct (py_int_0x_bound _ n E) as [N _]. now replace (0 <=? n) with true by lia.
Qed.

Theorem parse_true_lex s : parse_color_true_s s = parse_color_true (lex_true s).
Proof.
  unfold parse_color_true_s. rewrite parse_256_lex. fold (expand4 s).
  pose proof (true_fallback_s s) as FB. cbv zeta.
  unfold lex_true. pose proof (lex_plain_shape s) as Sh.
  destruct (lex_plain s) as [|n|n|n|n|n|n|] eqn:EL; try contradiction.
  - (* 'hN': not '#', so no fallback *)
    assert (St : startswith s [35] = false).
    { unfold lex_plain in EL. destruct (4 <? zlen s); [discriminate|].
      destruct (startswith s [104]) eqn:S1; [now apply (startswith_excl s 104 35)|].
      repeat (match type of EL with context [if ?b then _ else _] => destruct b end;
              try (unfold classify in EL; match type of EL with context [py_int ?b ?x] => destruct (py_int b x) end);
              try discriminate). }
    unfold parse_color_true at 1. destruct (parse_color_256 (DH n)) as [[c|]|]; cbn [bind]; try reflexivity.
    now rewrite St.
  - (* '#rgb' *)
    destruct (n <? 0) eqn:Neg.
    + unfold parse_color_256 at 1. cbn [s_len_gt4 s_is_h s_is_hash4 s_int]. replace (0 <=? n) with false by lia.
      cbn [bind]. exact FB.
    + unfold parse_color_true at 1.
      destruct (parse_color_256 (DCube n)) as [[c|]|] eqn:P; cbn [bind]; try reflexivity.
      now destruct (parse_256_cube_not_none n ltac:(lia)).
  - (* 'gN' *)
    assert (St : startswith s [35] = false).
    { unfold lex_plain in EL. destruct (4 <? zlen s); [discriminate|].
      destruct (startswith s [104]); [unfold classify in EL; destruct (py_int 10 (str_from s 1)); discriminate|].
      destruct (startswith s [35] && (zlen s =? 4)); [unfold classify in EL; destruct (py_int 16 (str_from s 1)); discriminate|].
      destruct (startswith s [103; 35]) eqn:S3; [unfold classify in EL; destruct (py_int 16 (str_from s 2)); discriminate|].
      destruct (startswith s [103]) eqn:S4; [now apply (startswith_excl s 103 35)|discriminate]. }
    unfold parse_color_true at 1. destruct (parse_color_256 (DGrayDec n)) as [[c|]|]; cbn [bind]; try reflexivity.
    now rewrite St.
  - (* 'g#XX' *)
    assert (St : startswith s [35] = false).
    { unfold lex_plain in EL. destruct (4 <? zlen s); [discriminate|].
      destruct (startswith s [104]); [unfold classify in EL; destruct (py_int 10 (str_from s 1)); discriminate|].
      destruct (startswith s [35] && (zlen s =? 4)); [unfold classify in EL; destruct (py_int 16 (str_from s 1)); discriminate|].
      destruct (startswith s [103; 35]) eqn:S3;
        [apply (startswith_excl s 103 35); [lia|now apply (startswith2_first s 103 35)]|].
      destruct (startswith s [103]); [unfold classify in EL; destruct (py_int 10 (str_from s 1)); discriminate|discriminate]. }
    unfold parse_color_true at 1. destruct (parse_color_256 (DGrayHex n)) as [[c|]|]; cbn [bind]; try reflexivity.
    now rewrite St.
  - (* not a 256-colour description *)
    cbn [parse_color_256 s_len_gt4 s_is_h s_is_hash4 s_is_ghash s_is_g bind]. exact FB.
Qed.

(* ------------------------------------------------------------------ 256 colours: _true_to_256(part) or part *)
Lemma lex_plain_lexable s : lexable (lex_plain s).
Proof.
  unfold lex_plain.
  destruct (4 <? zlen s) eqn:L; [exact I|].
  destruct (startswith s [104]); [destruct (py_int 10 (str_from s 1)); exact I|].
  destruct (startswith s [35] && (zlen s =? 4)) eqn:C.
  - destruct (py_int 16 (str_from s 1)) as [n|] eqn:E; [|exact I]. cbn.
    pose proof (py_int_bound 16 _ n ltac:(lia) E) as B.
    assert (Z3 : zlen (str_from s 1) <= 3).
    { unfold str_from. rewrite zlen_dropz by lia. lia. }
    pose proof (zlen_nonneg (str_from s 1)).
    pose proof (Z.pow_le_mono_r 16 _ 3 ltac:(lia) Z3). change (16 ^ 3) with 4096 in *. lia.
  - destruct (startswith s [103; 35]); [destruct (py_int 16 (str_from s 2)); exact I|].
    destruct (startswith s [103]); [destruct (py_int 10 (str_from s 1)); exact I|exact I].
Qed.

(* describing a palette number on strings and parsing it again (complete sweep) *)
Definition rt_s_ok (desc_f : Z -> result str) (parse : str -> result (option Z)) (c : Z) : bool :=
  match desc_f c with
  | Ok (x :: r) => match parse (x :: r) with Ok (Some c') => c' =? c | _ => false end
  | _ => false
  end.
Lemma rt_256_s_sweep : forallb (rt_s_ok color_desc_256_s parse_color_256_s) (upto 256) = true.
Proof. vm_compute. reflexivity. Qed.

Theorem parse_mode_256_lex s :
  bind (true_to_256_s s) (fun t => parse_color_256_s (match t with Some (c :: r) => c :: r | _ => s end))
  = parse_color_256 (lex_256 s).
Proof.
  unfold true_to_256_s, lex_256.
  destruct (startswith s [35] && (zlen s =? 7)) eqn:C; cbn [negb]; [|cbn [bind]; apply parse_256_lex].
  assert (Long : parse_color_256_s s = Ok None).
  { unfold parse_color_256_s. now replace (4 <? zlen s) with true by lia. }
  destruct (py_int 16 (str_slice s 1 3)) as [a|]; [|cbn [bind]; exact Long].
  destruct (py_int 16 (str_slice s 3 5)) as [b|]; [|cbn [bind]; exact Long].
  destruct (py_int 16 (str_slice s 5 7)) as [c|]; [|cbn [bind]; exact Long].
  fold (nibbles7 a b c). rewrite parse_256_lex.
  destruct (parse_256_total _ (lex_plain_lexable (nibbles7 a b c))) as [o [Eo Ro]].
  rewrite Eo. cbn [bind]. destruct o as [n|]; [|cbn [bind]; exact Long].
  pose proof (sweep 256 _ rt_256_s_sweep n (Ro n eq_refl)) as P. unfold rt_s_ok in P.
  destruct (color_desc_256_s n) as [[|x r]|]; try discriminate. cbn [bind].
  destruct (parse_color_256_s (x :: r)) as [[n'|]|]; try discriminate. f_equal. f_equal. lia.
Qed.

(* ------------------------------------------------------------------ one colour part *)
Lemma lex_mode_shape md s : match lex_mode md s with DDefault | DBasic _ => False | _ => True end.
Proof.
  destruct md; cbn [lex_mode].
  - unfold lex_88. pose proof (lex_plain_shape (if zlen s =? 7 then collapse7 s else s)). now destruct (lex_plain _).
  - unfold lex_true. pose proof (lex_plain_shape s).
    assert (F : match lex_true_fallback s with DDefault | DBasic _ => False | _ => True end).
    { unfold lex_true_fallback. repeat (match goal with |- context [if ?b then _ else _] => destruct b end); try exact I;
        unfold classify; match goal with |- context [py_int ?b ?x] => destruct (py_int b x) end; exact I. }
    destruct (lex_plain s) as [|n|n|n|n|n|n|]; try exact I; try contradiction; try exact F. destruct (n <? 0); [exact F|exact I].
  - unfold lex_256. destruct (startswith s [35] && (zlen s =? 7)).
    + destruct (py_int 16 (str_slice s 1 3)) as [a|]; [|exact I]. destruct (py_int 16 (str_slice s 3 5)) as [b|]; [|exact I].
      destruct (py_int 16 (str_slice s 5 7)) as [c|]; [|exact I].
      pose proof (lex_plain_shape (nibbles7 a b c)). now destruct (lex_plain _).
    + pose proof (lex_plain_shape s). now destruct (lex_plain _).
Qed.

Theorem parse_part_lex v md p fb fh ft :
  (forall M, sub M RM -> Z.land v M = Z.land (marker md) M) ->
  parse_part_s v p fb fh ft = parse_part v (lex_color md p) fb fh ft.
Proof.
  intros Hv. destruct masks_in_RM as [S88 STR].
  unfold parse_part_s, lex_color.
  destruct (str_eqb p [] || str_eqb p S_default); [reflexivity|].
  destruct (str_index BASIC_COLORS p); [reflexivity|].
  pose proof (lex_mode_shape md p) as Sh.
  assert (E : parse_part v (lex_mode md p) fb fh ft =
        if negb (Z.land v HIGH_88_COLOR =? 0) then bind (parse_color_88 (lex_mode md p)) (fun c => Ok (c, fh))
        else if negb (Z.land v HIGH_TRUE_COLOR =? 0) then bind (parse_color_true (lex_mode md p)) (fun c => Ok (c, ft))
        else bind (true_to_256 (lex_mode md p)) (fun t =>
             bind (parse_color_256 (match t with Some d'' => d'' | None => lex_mode md p end)) (fun c => Ok (c, fh))))
    by (destruct (lex_mode md p); try reflexivity; contradiction).
  rewrite E, (Hv _ S88), (Hv _ STR), marker_88, marker_true.
  destruct md; cbn [negb lex_mode].
  - now rewrite parse_88_lex.
  - now rewrite parse_true_lex.
  - (* the description-level _true_to_256 sees no '#rrggbb' here: lex_256 has already gone through the cube *)
    assert (T : true_to_256 (lex_256 p) = Ok None).
    { pose proof (lex_mode_shape M256 p) as S2. cbn [lex_mode] in S2. unfold true_to_256.
      assert (N7 : s_is_hash7 (lex_256 p) = false).
      { unfold lex_256. destruct (startswith p [35] && (zlen p =? 7)).
        - destruct (py_int 16 (str_slice p 1 3)) as [a|]; [|reflexivity]. destruct (py_int 16 (str_slice p 3 5)) as [b|]; [|reflexivity].
          destruct (py_int 16 (str_slice p 5 7)) as [c|]; [|reflexivity].
          pose proof (lex_plain_shape (nibbles7 a b c)). now destruct (lex_plain _).
        - pose proof (lex_plain_shape p). now destruct (lex_plain _). }
      now rewrite N7. }
    rewrite T. cbn [bind]. rewrite <- parse_mode_256_lex.
    destruct (true_to_256_s p) as [[[|x r]|]|]; reflexivity.
Qed.

(* ------------------------------------------------------------------ every lexed description is well formed *)
Lemma index_from_range l : forall i s j, index_from i l s = Some j -> i <= j < i + zlen l.
Proof.
  induction l as [|x r IH]; intros i s j E; cbn [index_from] in E; [discriminate|].
  rewrite zlen_cons. pose proof (zlen_nonneg r).
  destruct (str_eqb x s); [injection E as <-; lia|]. specialize (IH _ _ _ E). lia.
Qed.

Lemma zlen_str_at s i : 0 <= i -> zlen (str_at s i) <= 1.
Proof. intros. unfold str_at. pose proof (zlen_nonneg (dropz i s)). rewrite zlen_takez by lia. lia. Qed.

Lemma lex_fallback_wf s : match lex_true_fallback s with DTrue n => n < 16777216 | DBad => True | _ => False end.
Proof.
  unfold lex_true_fallback. destruct (negb (startswith s [35])); [exact I|].
  destruct (zlen s =? 7) eqn:E7.
  - destruct (py_int 16 (str_from s 1)) as [n|] eqn:E; [|exact I]. cbn.
    pose proof (py_int_bound 16 _ n ltac:(lia) E) as B.
    assert (Z6 : zlen (str_from s 1) = 6) by (unfold str_from; rewrite zlen_dropz by lia; lia).
    rewrite Z6 in B. change (16 ^ 6) with 16777216 in B. lia.
  - destruct (zlen s =? 4); [|exact I].
    destruct (py_int 16 (expand4 s)) as [n|] eqn:E; [|exact I]. cbn.
    unfold expand4 in E. cbn [app] in E. destruct (py_int_0x_bound _ n E) as [_ B].
    assert (L : zlen (str_at s 1 ++ 48 :: str_at s 2 ++ 48 :: str_at s 3) <= 5).
    { rewrite zlen_app, zlen_cons, zlen_app, zlen_cons.
      pose proof (zlen_str_at s 1 ltac:(lia)). pose proof (zlen_str_at s 2 ltac:(lia)).
      pose proof (zlen_str_at s 3 ltac:(lia)). lia. }
    pose proof (zlen_nonneg (str_at s 1 ++ 48 :: str_at s 2 ++ 48 :: str_at s 3)).
    pose proof (Z.pow_le_mono_r 16 _ 5 ltac:(lia) L). change (16 ^ 5) with 1048576 in *. lia.
Qed.

Theorem lex_color_wf md s : wf_desc md (lex_color md s).
Proof.
  unfold lex_color. destruct (str_eqb s [] || str_eqb s S_default); [exact I|].
  destruct (str_index BASIC_COLORS s) as [i|] eqn:E.
  - pose proof (index_from_range BASIC_COLORS 0 s i E) as R. change (zlen BASIC_COLORS) with 16 in R.
    change (0 <= i < 16). lia.
  - destruct md; cbn [lex_mode].
    + unfold lex_88. pose proof (lex_plain_lexable (if zlen s =? 7 then collapse7 s else s)) as L.
      pose proof (lex_plain_shape (if zlen s =? 7 then collapse7 s else s)) as Sh.
      destruct (lex_plain _); cbn in *; try exact I; try contradiction. split; [exact L|discriminate].
    + unfold lex_true. pose proof (lex_plain_lexable s) as L. pose proof (lex_plain_shape s) as Sh.
      pose proof (lex_fallback_wf s) as F.
      assert (WF : wf_desc MTrue (lex_true_fallback s))
        by (destruct (lex_true_fallback s); try contradiction; try exact I; exact F).
      destruct (lex_plain s) as [|n|n|n|n|n|n|]; cbn in *; try exact I; try contradiction; try exact WF.
      destruct (n <? 0) eqn:N; [exact WF|]. cbn. split; [exact L|intros; lia].
    + unfold lex_256. destruct (startswith s [35] && (zlen s =? 7)).
      * destruct (py_int 16 (str_slice s 1 3)) as [a|]; [|exact I]. destruct (py_int 16 (str_slice s 3 5)) as [b|]; [|exact I].
        destruct (py_int 16 (str_slice s 5 7)) as [c|]; [|exact I].
        pose proof (lex_plain_lexable (nibbles7 a b c)) as L. pose proof (lex_plain_shape (nibbles7 a b c)) as Sh.
        destruct (lex_plain _); cbn in *; try exact I; try contradiction. split; [exact L|discriminate].
      * pose proof (lex_plain_lexable s) as L. pose proof (lex_plain_shape s) as Sh.
        destruct (lex_plain s); cbn in *; try exact I; try contradiction. split; [exact L|discriminate].
Qed.

Theorem lex_fg_wf md fg : Forall (wf_part md) (lex_fg md fg).
Proof.
  unfold lex_fg. apply Forall_forall. intros p Hp. apply in_map_iff in Hp. destruct Hp as [s [<- _]].
  unfold lex_part. destruct (find_setting ATTRIBUTE_NAMES s); [exact I|]. apply lex_color_wf.
Qed.

(* ------------------------------------------------------------------ the constructor *)
Lemma fg_loop_lex v md : (forall M, sub M RM -> Z.land v M = Z.land (marker md) M) ->
  forall parts color flags, fg_loop_s v parts color flags = fg_loop v (map (lex_part md) parts) color flags.
Proof.
  intros Hv. induction parts as [|p rest IH]; intros color flags; [reflexivity|].
  cbn [fg_loop_s map]. unfold lex_part at 1.
  destruct (find_setting ATTRIBUTE_NAMES p) as [s|]; cbn [fg_loop].
  - destruct (negb (Z.land flags (ATTRIBUTES s) =? 0)); [reflexivity|apply IH].
  - rewrite (parse_part_lex v md p _ _ _ Hv).
    destruct (parse_part v (lex_color md p) FG_BASIC_COLOR FG_HIGH_COLOR FG_TRUE_COLOR) as [[[sc|] kf]|]; try reflexivity.
    destruct color; [reflexivity|apply IH].
Qed.

Theorem attrspec_new_lex fg bg D :
  attrspec_new_s fg bg D = attrspec_new (lex_fg (mode_of D) fg) (lex_color (mode_of D) bg) D.
Proof.
  unfold attrspec_new_s, attrspec_new. destruct (negb (valid_depth D)); [reflexivity|].
  set (md := mode_of D).
  assert (H0 : forall M, sub M RM -> Z.land (init_value D) M = Z.land (marker md) M)
    by (intros; now rewrite init_marker).
  unfold set_foreground_s, set_foreground, lex_fg. rewrite (fg_loop_lex _ md H0).
  pose proof (lex_fg_wf md fg) as W. unfold lex_fg in W.
  destruct (fg_loop (init_value D) (map (lex_part md) (fg_parts fg)) None 0) as [[fcol flags]|e w] eqn:EF;
    cbn [rbind fst snd]; [|reflexivity].
  (* the value after __set_foreground still carries the marker of the mode *)
  assert (H1 : forall M, sub M RM ->
     Z.land (Z.lor (Z.lor (Z.land (init_value D) (Z.lnot FG_MASK)) match fcol with Some c => c | None => 0 end) flags) M
     = Z.land (marker md) M).
  { rewrite init_marker in EF |- *. fold md in EF |- *.
    rewrite <- F_empty in EF. rewrite (fg_loop_abs md (marker md)) in EF by (auto; reflexivity).
    destruct (fg_abs md (map (lex_part md) (fg_parts fg)) None ss_empty KNone) as [[[fc ss] k]|] eqn:EA; [|discriminate].
    injection EF as <- <-. intros M HM. fold (dflt fc). fold (pack1 (marker md) (dflt fc) (F ss k)).
    apply pack1_marker; auto using marker_sub, F_sub.
    destruct fc as [c|]; cbn [dflt]; [|unfold low24; lia].
    eapply (fg_abs_range md _ None ss_empty KNone); eauto. discriminate. }
  unfold set_background_s, set_background. rewrite (parse_part_lex _ md bg _ _ _ H1). reflexivity.
Qed.
