(* C04 - partial display mode (Screen started without the alternate buffer): the row loop of
   draw_screen with relative cursor moves, _rows_used and the blank lines left off the display. *)
From Coq Require Import ZArith List Bool Lia ZifyBool.
From Urwid Require Import PyBase TermRef DrawScreen PaintSpec TermRefFacts DrawScreenProofs.
Import ListNotations.
Open Scope Z_scope.

Arguments Z.add : simpl never.
Arguments Z.sub : simpl never.
Arguments Z.mul : simpl never.
Arguments Z.ltb : simpl never.
Arguments Z.leb : simpl never.
Arguments Z.eqb : simpl never.
Arguments Z.min : simpl never.
Arguments Z.max : simpl never.
Arguments Z.to_nat : simpl never.
Arguments Z.of_nat : simpl never.

(* ---------- relative cursor addressing ---------- *)
Lemma cursor_partial_ok t cy x y :
  t_y t = cy -> 0 <= cy < t_rows t -> 0 <= y < t_rows t -> 0 <= x < t_cols t ->
  run t (set_cursor_position true cy x y) = set_pos t x y false.
Proof.
  intros Hy Hcy Hyr Hx. unfold set_cursor_position. cbn [negb].
  unfold cuu, cud, cuf.
  destruct (y <? cy) eqn:E1; destruct (x <? 1) eqn:E2.
  - destruct (cy - y <? 1) eqn:E3; [lia|]. cbn [app run fold_left step]. unfold set_pos, arg1; cbn.
    destruct (cy - y =? 0) eqn:E4; [lia|]. f_equal; lia.
  - destruct (cy - y <? 1) eqn:E3; [lia|]. cbn [app run fold_left step]. unfold set_pos, arg1; cbn.
    destruct (cy - y =? 0) eqn:E4; [lia|]. destruct (x =? 0) eqn:E5; [lia|]. f_equal; lia.
  - destruct (y - cy <? 1) eqn:E3; cbn [app run fold_left step]; unfold set_pos, arg1; cbn.
    + f_equal; lia.
    + destruct (y - cy =? 0) eqn:E4; [lia|]. f_equal; lia.
  - destruct (y - cy <? 1) eqn:E3; cbn [app run fold_left step]; unfold set_pos, arg1; cbn.
    + destruct (x =? 0) eqn:E5; [lia|]. f_equal; lia.
    + destruct (y - cy =? 0) eqn:E4; [lia|]. destruct (x =? 0) eqn:E5; [lia|]. f_equal; lia.
Qed.

(* ---------- blank rows ---------- *)
Lemma weak_of_blank c row trow :
  is_blank row = true -> blank_row_text trow -> row_shows_partial c row trow.
Proof. intros; right; auto. Qed.

Lemma strong_is_weak c row trow : row_shows c row trow -> row_shows_partial c row trow.
Proof. intros; left; auto. Qed.

Definition ru_of (acc : dacc) : Z := match d_ru acc with Some r => r | None => 0 end.

(* ---------- the loop invariant in partial display mode ---------- *)
Record PLoopInv (c : cfg) (cols rows : Z) (tb : term) (rub : Z) (content : list crow) (y : Z) (acc : dacc) (t : term) : Prop := mkPLI {
  pl_ru : d_ru acc = Some (ru_of acc);
  pl_rurange : rub <= ru_of acc < rows;
  pl_sb : d_sb acc = takez y content;
  pl_inv : y < rows -> Inv c (d_rs acc) t;
  pl_modes : Modes c (d_rs acc) t;
  pl_cols : t_cols t = cols;
  pl_rows : t_rows t = rows;
  pl_len : zlen (t_grid t) = rows;
  pl_scr : t_scrolled t = t_scrolled tb;
  pl_vis : t_visible t = t_visible tb;
  pl_bce : t_bce t = t_bce tb;
  pl_g1 : t_g1 t = t_g1 tb;
  pl_cy : t_y t = d_cy acc /\ 0 <= d_cy acc < rows;
  pl_lens : forall y', 0 <= y' < rows -> zlen (get_row (t_grid t) y') = cols;
  pl_done : forall y' row, 0 <= y' < y -> nthz content y' = Some row ->
       (y' <= ru_of acc -> row_shows_partial c row (get_row (t_grid t) y')) /\
       (ru_of acc < y' -> is_blank row = true /\ blank_row_text (get_row (t_grid t) y'));
  pl_rest : forall y', y <= y' -> get_row (t_grid t) y' = get_row (t_grid tb) y' }.

Lemma is_blank_ok row b : is_blank_row row = Ok b -> is_blank row = b.
Proof. unfold is_blank. intros ->. reflexivity. Qed.

Lemma is_blank_row_total row : row <> [] -> exists b, is_blank_row row = Ok b.
Proof.
  destruct row as [|[[a cs] t] rest]; [congruence|]. intros _. destruct rest; cbn; eauto.
Qed.

Lemma row_len_of_shows c cols row trow : row_ok c cols row -> row_shows c row trow -> zlen trow = cols.
Proof.
  intros Hrow Hs. unfold row_shows in Hs. apply Forall2_zlen in Hs. rewrite <- Hs.
  rewrite zlen_row_cells by (eapply row_ok_weak; eauto). apply Hrow.
Qed.

(* after a drawn row *)
Lemma ploop_next c cols rows tb rub content y row acc t t2 rs2 out' ru' (keep : Prop) :
  PLoopInv c cols rows tb rub content y acc t -> 0 <= y < rows ->
  nthz content y = Some row -> row_ok c cols row ->
  (ru' = ru_of acc /\ y <= ru_of acc \/ ru' = y /\ ru_of acc < y) ->
  RowDone c (set_pos t 0 y false) t2 y row rs2 keep -> (y + 1 < rows -> keep) ->
  PLoopInv c cols rows tb rub content (y + 1) (mkAcc out' (d_sb acc ++ [row]) y rs2 (Some ru')) t2.
Proof.
  intros L Hy Hrow Hrok Hru (Hshow & HF & Hty & Hmodes & Hinv) Hkeep. destruct L.
  destruct HF as (F1 & F2 & F3 & F4 & F5 & F6 & F7 & F8). cbn in F1, F2, F3, F4, F5, F6, F7, F8.
  assert (Hruy : ru_of acc <= ru' /\ y <= ru' /\ ru' < rows) by (clear -Hru Hy pl_rurange0; lia).
  constructor; cbn [d_ru d_sb d_rs d_out d_cy]; unfold ru_of; cbn [d_ru].
  - reflexivity.
  - clear -Hruy pl_rurange0. lia.
  - rewrite pl_sb0. symmetry. apply takez_succ. exact Hrow.
  - intros H. apply Hinv. apply Hkeep. exact H.
  - exact Hmodes.
  - rewrite F1. exact pl_cols0.
  - rewrite F2. exact pl_rows0.
  - rewrite F3. exact pl_len0.
  - rewrite F5. exact pl_scr0.
  - rewrite F6. exact pl_vis0.
  - rewrite F7. exact pl_bce0.
  - rewrite F8. assumption.
  - split; [exact Hty|exact Hy].
  - intros y' Hy'. destruct (Z.eq_dec y' y) as [->|Hne].
    + eapply row_len_of_shows; eauto.
    + rewrite F4 by exact Hne. apply pl_lens0. exact Hy'.
  - intros y' row' Hy' Hn. destruct (Z.eq_dec y' y) as [->|Hne].
    + rewrite Hrow in Hn. inversion Hn; subst. split.
      * intros _. apply strong_is_weak. exact Hshow.
      * intros H. exfalso. clear -H Hruy. lia.
    + rewrite F4 by exact Hne.
      assert (Hy'' : 0 <= y' < y) by (clear -Hy' Hne; lia).
      destruct (pl_done0 y' row' Hy'' Hn) as [D1 D2]. split.
      * intros Hle. destruct (Z_le_gt_dec y' (ru_of acc)) as [Hl|Hg]; [apply D1; exact Hl|].
        destruct D2 as [Db Dt]; [clear -Hg; lia|]. apply weak_of_blank; auto.
      * intros Hlt. apply D2. clear -Hlt Hruy. lia.
  - intros y' Hy'. rewrite F4 by (clear -Hy'; lia). apply pl_rest0. clear -Hy'. lia.
Qed.

Lemma RowSt_home t y cols : t_cols t = cols -> 1 <= cols -> zlen (get_row (t_grid t) y) = cols ->
  RowSt (set_pos t 0 y false) y [] (get_row (t_grid t) y).
Proof.
  intros Hc H1 Hl. unfold RowSt. cbn. change (zlen (@nil cell)) with 0. splits; auto.
  - lia.
  - constructor.
  - assert (E : 0 <? t_cols t = true) by lia. rewrite E. auto.
Qed.

Lemma pdraw_row_ok c cols rows tb rub content osb y row acc t :
  cfg_ok c -> 1 <= cols -> 0 <= y < rows -> 0 <= rub ->
  nthz content y = Some row -> row_ok c cols row ->
  (g_bce c = true -> t_bce tb = true) ->
  (forall y', rub < y' < rows -> blank_row_text (get_row (t_grid tb) y')) ->
  (osb <> [] -> forall y' row', nthz osb y' = Some row' ->
      (y' <= rub -> row_shows_partial c row' (get_row (t_grid tb) y')) /\ (rub < y' -> is_blank row' = true)) ->
  PLoopInv c cols rows tb rub content y acc t ->
  exists acc' toks, draw_row c cols rows osb y row acc = Ok acc' /\ d_out acc' = d_out acc ++ toks
     /\ PLoopInv c cols rows tb rub content (y + 1) acc' (run t toks).
Proof.
  intros Hc Hcols Hy Hrub Hnth Hrow Hbce Htbblank Hosb L.
  pose proof (pl_ru _ _ _ _ _ _ _ _ _ L) as Hru.
  pose proof (pl_rurange _ _ _ _ _ _ _ _ _ L) as Hrur.
  set (ru := ru_of acc) in *.
  unfold draw_row.
  set (same := match osb with [] => false | _ => match nthz osb y with Some o => row_eqb o row | None => false end end).
  destruct same eqn:Es.
  - (* the row is already on the screen *)
    assert (Ho : osb <> [] /\ nthz osb y = Some row).
    { unfold same in Es. destruct osb as [|o0 osb']; [discriminate|]. split; [discriminate|].
      destruct (nthz (o0 :: osb') y) as [o|]; [|discriminate]. apply row_eqb_eq in Es. subst o. reflexivity. }
    destruct Ho as [Hne Ho]. destruct (Hosb Hne y row Ho) as [O1 O2].
    exists (mkAcc (d_out acc) (d_sb acc ++ [row]) (d_cy acc) (d_rs acc) (d_ru acc)), [].
    split; [reflexivity|]. split; [cbn; now rewrite app_nil_r|]. cbn [run fold_left].
    destruct L. constructor; cbn [d_ru d_sb d_rs d_out d_cy]; unfold ru_of; cbn [d_ru]; fold (ru_of acc); fold ru; auto.
    + rewrite pl_sb0. symmetry. apply takez_succ. exact Hnth.
    + intros H. apply pl_inv0. clear -H. lia.
    + intros y' row' Hy' Hn. destruct (Z.eq_dec y' y) as [->|Hne'].
      * rewrite Hnth in Hn. inversion Hn; subst. rewrite pl_rest0 by apply Z.le_refl.
        destruct (Z_le_gt_dec y rub) as [Hl|Hg].
        -- split; [intros _; apply O1; exact Hl|]. intros H. exfalso. clear -H Hl Hrur. lia.
        -- assert (Hb : blank_row_text (get_row (t_grid tb) y)) by (apply Htbblank; clear -Hg Hy; lia).
           split; [intros _; apply weak_of_blank; auto; apply O2; clear -Hg; lia|].
           intros _. split; [apply O2; clear -Hg; lia|exact Hb].
      * apply pl_done0; [clear -Hy' Hne'; lia|exact Hn].
    + intros y' Hy'. apply pl_rest0. clear -Hy'. lia.
  - clear same Es. rewrite Hru.
    pose proof (row_ok_weak _ _ _ Hrow) as Hrow'. pose proof Hrow as [Hruns Hwidth].
    assert (Hrne : row <> []).
    { intros ->. change (row_width []) with 0 in Hwidth. clear -Hwidth Hcols. lia. }
    destruct (is_blank_row_total row Hrne) as [b Hb].
    destruct ((ru <? y) && b) eqn:Eskip.
    + (* a blank line below the used rows: left off the display *)
      apply andb_prop in Eskip as [E1 E2]. subst b. rewrite E1, Hb. cbn [bind].
      exists (mkAcc (d_out acc) (d_sb acc ++ [row]) (d_cy acc) (d_rs acc) (Some ru)), [].
      split; [reflexivity|]. split; [cbn; now rewrite app_nil_r|]. cbn [run fold_left].
      destruct L. constructor; cbn [d_ru d_sb d_rs d_out d_cy]; unfold ru_of; cbn [d_ru]; fold (ru_of acc); fold ru; auto.
      * rewrite pl_sb0. symmetry. apply takez_succ. exact Hnth.
      * intros H. apply pl_inv0. clear -H. lia.
      * intros y' row' Hy' Hn. destruct (Z.eq_dec y' y) as [->|Hne'].
        -- rewrite Hnth in Hn. inversion Hn; subst. rewrite pl_rest0 by apply Z.le_refl.
           split; [intros H; exfalso; clear -H E1; lia|]. intros _.
           split; [apply is_blank_ok; exact Hb|]. apply Htbblank. clear -E1 Hrur Hy. lia.
        -- apply pl_done0; [clear -Hy' Hne'; lia|exact Hn].
      * intros y' Hy'. apply pl_rest0. clear -Hy'. lia.
    + (* the row is drawn *)
      set (ru' := if ru <? y then y else ru).
      assert (Eopt : (if ru <? y then bind (is_blank_row row) (fun b0 : bool => Ok (if b0 then None else Some (Some y)))
                      else Ok (Some (Some ru))) = Ok (Some (Some ru'))).
      { unfold ru'. destruct (ru <? y); [|reflexivity]. rewrite Hb. cbn [bind]. cbn [andb] in Eskip. rewrite Eskip. reflexivity. }
      rewrite Eopt. cbn [bind].
      assert (Hru' : ru' = ru_of acc /\ y <= ru_of acc \/ ru' = y /\ ru_of acc < y).
      { unfold ru'. fold ru. destruct (ru <? y) eqn:E; [right|left]; clear -E; lia. }
      replace (negb (y =? 0) || true) with true by (destruct (y =? 0); reflexivity).
      set (t_pos := set_cursor_position true (d_cy acc) 0 y).
      pose proof (pl_cy _ _ _ _ _ _ _ _ _ L) as [Hcy Hcyr].
      pose proof (pl_cols _ _ _ _ _ _ _ _ _ L) as Lcols.
      pose proof (pl_rows _ _ _ _ _ _ _ _ _ L) as Lrows.
      pose proof (pl_len _ _ _ _ _ _ _ _ _ L) as Llen.
      assert (Ht1 : run t t_pos = set_pos t 0 y false).
      { unfold t_pos. apply cursor_partial_ok; auto; rewrite ?Lrows, ?Lcols; auto. clear -Hcols. lia. }
      set (t1 := set_pos t 0 y false) in *.
      assert (HR1 : RowSt t1 y [] (get_row (t_grid t) y)).
      { unfold t1. apply (RowSt_home t y cols); auto. apply (pl_lens _ _ _ _ _ _ _ _ _ L). exact Hy. }
      assert (HI1 : Inv c (d_rs acc) t1).
      { unfold t1. apply Inv_set_pos. apply (pl_inv _ _ _ _ _ _ _ _ _ L). clear -Hy. lia. }
      assert (Hcols1 : t_cols t1 = cols) by (cbn; exact Lcols).
      assert (Hlen1 : zlen (t_grid t1) = rows) by (cbn; exact Llen).
      assert (Hbce1 : g_bce c = true -> t_bce t1 = true).
      { intros B. cbn. rewrite (pl_bce _ _ _ _ _ _ _ _ _ L). auto. }
      assert (Hy1 : 0 <= y < zlen (t_grid t1)) by (rewrite Hlen1; exact Hy).
      assert (Hw1 : row_width row = t_cols t1) by congruence.
      destruct (snoc_cases row) as [->|(front & [[a cs] text] & ->)]; [congruence|].
      rewrite last_opt_snoc, removelast_last.
      destruct ((match last_opt text with Some ch => is_space ch | None => false end) && g_bce c && negb (using_sul c a)) eqn:Ews.
      * apply andb_prop in Ews as [Ews Esul]. apply andb_prop in Ews as [Esp Eb].
        apply negb_true_iff in Esul. cbn [bind].
        pose proof (row_ws_ok c (d_rs acc) front a cs text t1 t1 y (get_row (t_grid t) y) True Hc Hrow' HI1 HR1
                      (SameFrame_refl _ _) Hy1 Hw1 Esp Esul (Hbce1 Eb)) as W.
        match goal with |- context [emit_runs ?ea ?eb ?ec] =>
          destruct (emit_runs ea eb ec) as [t_runs rs2] eqn:Er;
          assert (E1 : t_runs = fst (emit_runs ea eb ec)) by (rewrite Er; reflexivity);
          assert (E2 : rs2 = snd (emit_runs ea eb ec)) by (rewrite Er; reflexivity); clear Er end.
        eexists. exists (t_pos ++ t_runs ++ [] ++ [TEl]). split; [reflexivity|]. split; [reflexivity|].
        rewrite run_app, Ht1. cbn [app].
        subst t_runs rs2. eapply ploop_next with (keep := True); eauto.
      * destruct ((y =? rows - 1) && (1 <? cols)) eqn:Elast.
        -- apply andb_prop in Elast as [Ey Ec].
           destruct (last_row_ok c cols _ Hrow Hrne) as
             [(r1 & Er1 & Elr) | (nr0 & ya & ycs & yt & za & zcs & zt & Elr & Hcells & Hnr & Hyr & Hby & Hbz & Hwsum)].
           ++ rewrite Elr. cbn [bind].
              pose proof (row_plain_ok c (d_rs acc) _ t1 t1 y (get_row (t_grid t) y) True Hc Hrow' HI1 HR1
                            (SameFrame_refl _ _) Hy1 Hw1) as W.
              match goal with |- context [emit_runs ?ea ?eb ?ec] =>
                destruct (emit_runs ea eb ec) as [t_runs rs2] eqn:Er;
                assert (E1 : t_runs = fst (emit_runs ea eb ec)) by (rewrite Er; reflexivity);
                assert (E2 : rs2 = snd (emit_runs ea eb ec)) by (rewrite Er; reflexivity); clear Er end.
              eexists. exists (t_pos ++ t_runs ++ [] ++ []). split; [reflexivity|]. split; [reflexivity|].
              rewrite run_app, Ht1. cbn [app]. rewrite app_nil_r.
              subst t_runs rs2. eapply ploop_next with (keep := True); eauto.
           ++ rewrite Elr. cbn [bind].
              assert (Hwsum' : row_width nr0 + calc_width yt + calc_width zt = t_cols t1) by congruence.
              pose proof (row_trick_ok c (d_rs acc) nr0 ya ycs yt za zcs zt _ t1 t1 y (get_row (t_grid t) y) Hc Hnr Hyr Hby Hbz Hcells
                            Hwsum' HI1 HR1 (SameFrame_refl _ _) Hy1) as W.
              match goal with |- context [emit_runs ?ea ?eb ?ec] =>
                destruct (emit_runs ea eb ec) as [t_runs rs2] eqn:Er;
                assert (E1 : t_runs = fst (emit_runs ea eb ec)) by (rewrite Er; reflexivity);
                assert (E2 : rs2 = snd (emit_runs ea eb ec)) by (rewrite Er; reflexivity); clear Er end.
              eexists. exists (t_pos ++ t_runs ++ emit_ins c rs2 (calc_width zt) (ya, ycs, yt) ++ []).
              split; [reflexivity|]. split; [reflexivity|].
              rewrite run_app, Ht1. rewrite app_nil_r.
              subst t_runs rs2. eapply ploop_next with (keep := False); eauto.
              intros H. exfalso. clear -H Ey. lia.
        -- cbn [bind].
           pose proof (row_plain_ok c (d_rs acc) _ t1 t1 y (get_row (t_grid t) y) True Hc Hrow' HI1 HR1
                         (SameFrame_refl _ _) Hy1 Hw1) as W.
           match goal with |- context [emit_runs ?ea ?eb ?ec] =>
             destruct (emit_runs ea eb ec) as [t_runs rs2] eqn:Er;
             assert (E1 : t_runs = fst (emit_runs ea eb ec)) by (rewrite Er; reflexivity);
             assert (E2 : rs2 = snd (emit_runs ea eb ec)) by (rewrite Er; reflexivity); clear Er end.
           eexists. exists (t_pos ++ t_runs ++ [] ++ []). split; [reflexivity|]. split; [reflexivity|].
           rewrite run_app, Ht1. cbn [app]. rewrite app_nil_r.
           subst t_runs rs2. eapply ploop_next with (keep := True); eauto.
Qed.

Lemma pdraw_rows_ok c cols rows tb rub content osb : forall rest y acc t,
  cfg_ok c -> 1 <= cols -> 0 <= y -> y + zlen rest = rows -> dropz y content = rest -> 0 <= rub ->
  Forall (row_ok c cols) content ->
  (g_bce c = true -> t_bce tb = true) ->
  (forall y', rub < y' < rows -> blank_row_text (get_row (t_grid tb) y')) ->
  (osb <> [] -> forall y' row', nthz osb y' = Some row' ->
      (y' <= rub -> row_shows_partial c row' (get_row (t_grid tb) y')) /\ (rub < y' -> is_blank row' = true)) ->
  PLoopInv c cols rows tb rub content y acc t ->
  exists acc' toks, draw_rows c cols rows osb y rest acc = Ok acc' /\ d_out acc' = d_out acc ++ toks
     /\ PLoopInv c cols rows tb rub content rows acc' (run t toks).
Proof.
  induction rest as [|r rest IH]; intros y acc t Hc Hcols Hy Hsum Hdrop Hrub Hcontent Hbce Hblank Hosb L.
  - exists acc, []. rewrite zlen_nil in Hsum. assert (y = rows) by lia. subst y.
    split; [reflexivity|]. split; [now rewrite app_nil_r|]. exact L.
  - rewrite zlen_cons in Hsum. pose proof (zlen_nonneg rest) as Hnn.
    destruct (dropz_cons_nth content y r rest Hy Hdrop) as [Hnth Hdrop'].
    assert (Hyr : 0 <= y < rows) by lia.
    assert (Hrow : row_ok c cols r) by (eapply Forall_nthz; eauto).
    destruct (pdraw_row_ok c cols rows tb rub content osb y r acc t Hc Hcols Hyr Hrub Hnth Hrow Hbce Hblank Hosb L)
      as (acc1 & toks1 & E1 & O1 & L1).
    destruct (IH (y + 1) acc1 (run t toks1)) as (acc2 & toks2 & E2 & O2 & L2); auto; try lia.
    exists acc2, (toks1 ++ toks2). cbn [draw_rows]. rewrite E1. cbn [bind]. split; [exact E2|]. split.
    + rewrite O2, O1, app_assoc. reflexivity.
    + rewrite run_app. exact L2.
Qed.

Lemma mk_SyncP c s t ru :
  s_ru s = Some ru -> 0 <= ru < t_rows t -> s_resized s = false -> term_ok t ->
  t_irm t = false -> t_scrolled t = false -> t_ibm t = false -> (g_utf8 c = true -> t_so t = false) ->
  (s_g1 s = true -> t_g1 t = true) -> (g_bce c = true -> t_bce t = true) ->
  t_y t = s_cy s -> 0 <= s_cy s < t_rows t ->
  (forall y, ru < y < t_rows t -> blank_row_text (get_row (t_grid t) y)) ->
  (s_buf s <> [] -> forall y row, nthz (s_buf s) y = Some row ->
       (y <= ru -> row_shows_partial c row (get_row (t_grid t) y)) /\ (ru < y -> is_blank row = true)) ->
  SyncP c s t.
Proof. intros. exists ru. splits; auto; lia. Qed.

Theorem draw_paints_partial_lemma c s t cols rows content cursor :
  cfg_ok c -> SyncP c s t -> t_cols t = cols -> t_rows t = rows ->
  canvas_ok c cols rows content -> cursor_ok cols rows cursor ->
  exists toks s', draw_screen c s cols rows content cursor false false = Ok (toks, s')
     /\ PaintsPartial c s' (run t toks) content cursor /\ SyncP c s' (run t toks)
     /\ t_cols (run t toks) = cols /\ t_rows (run t toks) = rows.
Proof.
  intros Hc (rub & Sru & Srur & Sres & (T1 & T2 & T3 & T4) & Sirm & Sscr & Sibm & Sso & Sg1 & Sbce & Scy & Scyr & Sblank & Sbuf)
         Hcols Hrows [Clen Crows] Hcur.
  unfold draw_screen.
  assert (E1 : negb (rows =? zlen content) = false) by (rewrite Clen; clear; lia). rewrite E1.
  rewrite andb_false_r. rewrite Sres, Sru.
  set (t_g1' := if s_g1 s then [] else [TG1]).
  set (out0 := [THide] ++ attr_to_escape c 0 ++ [] ++ set_cursor_home true (s_cy s)).
  set (ta := run t t_g1').
  assert (Hta : ta = t \/ ta = set_g1 t true).
  { unfold ta, t_g1'. destruct (s_g1 s); [left|right]; reflexivity. }
  assert (Hg1a : t_g1 ta = true).
  { unfold ta, t_g1'. destruct (s_g1 s) eqn:G; [apply Sg1; reflexivity|reflexivity]. }
  set (tb := run ta out0).
  assert (Htb : tb = set_pos (set_attr (set_visible ta false) (attr_vis c 0)) 0 0 false).
  { unfold tb, out0. rewrite !run_app. cbn [run fold_left step]. rewrite attr_escape_run by exact Hc.
    unfold set_cursor_home, cuu. cbn [negb].
    assert (Ey : t_y ta = s_cy s) by (destruct Hta as [-> | ->]; cbn; exact Scy).
    destruct (s_cy s <? 1) eqn:E0.
    - cbn [run fold_left step]. unfold set_pos. cbn. f_equal. lia.
    - cbn [run fold_left step]. unfold set_pos, arg1. cbn. destruct (s_cy s =? 0) eqn:E2; [lia|]. f_equal. lia. }
  assert (Gb : t_grid tb = t_grid t /\ t_cols tb = cols /\ t_rows tb = rows /\ t_scrolled tb = false /\ t_visible tb = false
               /\ t_bce tb = t_bce t /\ t_g1 tb = true /\ t_ibm tb = false /\ t_irm tb = false /\ t_so tb = t_so t
               /\ t_attr tb = attr_vis c 0 /\ t_x tb = 0 /\ t_y tb = 0 /\ t_pending tb = false).
  { rewrite Htb. destruct Hta as [Ea | Ea]; rewrite Ea in *; cbn in *; splits; auto. }
  destruct Gb as (B1 & B2 & B3 & B4 & B5 & B6 & B7 & B8 & B9 & B10 & B11 & B12 & B13 & B14).
  assert (A1 : 1 <= cols) by (rewrite <- Hcols; exact T1).
  assert (A0 : 1 <= rows) by (rewrite <- Hrows; exact T2).
  set (acc0 := mkAcc out0 [] 0 (mkRs 0 true 0) (Some rub)).
  assert (L0 : PLoopInv c cols rows tb rub content 0 acc0 tb).
  { constructor; cbn [d_ru d_sb d_rs d_out d_cy acc0]; unfold ru_of; cbn [d_ru acc0]; auto.
    - rewrite <- Hrows. clear -Srur. lia.
    - intros _. unfold Inv, CsInv. cbn [r_last r_first r_lcs]. splits; auto.
      destruct (g_utf8 c) eqn:U.
      + split; [rewrite B10; apply Sso; reflexivity|exact B8].
      + splits; auto. discriminate.
    - unfold Modes. splits; auto.
      + intros H. congruence.
      + intros U. rewrite B10. apply Sso. exact U.
    - rewrite B1, T3. exact Hrows.
    - split; [exact B13|]. clear -A0. lia.
    - intros y' Hy'. rewrite B1. apply (Forall_get_row (fun r => zlen r = cols)); [rewrite <- Hcols; exact T4|].
      rewrite T3, Hrows. exact Hy'.
    - intros y' row' H. exfalso. clear -H. lia. }
  assert (A2 : 0 + zlen content = rows) by (rewrite Clen; clear; lia).
  assert (A3 : g_bce c = true -> t_bce tb = true) by (intros B; rewrite B6; apply Sbce; exact B).
  assert (A4 : forall y', rub < y' < rows -> blank_row_text (get_row (t_grid tb) y')).
  { intros y' H. rewrite B1. apply Sblank. rewrite Hrows. exact H. }
  assert (A5 : s_buf s <> [] -> forall y' row', nthz (s_buf s) y' = Some row' ->
      (y' <= rub -> row_shows_partial c row' (get_row (t_grid tb) y')) /\ (rub < y' -> is_blank row' = true)).
  { intros H. rewrite B1. apply Sbuf. exact H. }
  assert (A6 : 0 <= rub) by (clear -Srur; lia).
  destruct (pdraw_rows_ok c cols rows tb rub content (s_buf s) content 0 acc0 tb Hc A1 (Z.le_refl 0) A2 eq_refl A6 Crows A3 A4 A5 L0)
    as (acc' & ltoks & Ed & Od & L).
  fold acc0. rewrite Ed. cbn [bind].
  set (tl := run tb ltoks) in *.
  pose proof (pl_g1 _ _ _ _ _ _ _ _ _ L) as Lg1.
  pose proof L as L'. destruct L'.
  set (ru := ru_of acc') in *.
  assert (Hsb : d_sb acc' = content) by (rewrite pl_sb0, <- Clen; apply takez_full).
  assert (Hdone : forall y row, nthz content y = Some row ->
       (y <= ru -> row_shows_partial c row (get_row (t_grid tl) y)) /\
       (ru < y -> is_blank row = true /\ blank_row_text (get_row (t_grid tl) y))).
  { intros y row Hn. apply pl_done0; [|exact Hn]. apply nthz_split in Hn as [_ Hn]. rewrite Clen in Hn. exact Hn. }
  assert (Hrowlen : Forall (fun r => zlen r = cols) (t_grid tl)).
  { apply Forall_from_rows. intros y Hy. apply pl_lens0. rewrite <- pl_len0. exact Hy. }
  (* the IBMPC mapping is switched off at the end of the frame *)
  set (t_ibm' := if negb (g_utf8 c) && (r_lcs (d_rs acc') =? 2) then [TIbmOff] else []).
  assert (G2 : exists tl2, run tl t_ibm' = tl2 /\ t_grid tl2 = t_grid tl /\ t_cols tl2 = cols /\ t_rows tl2 = rows
                 /\ t_scrolled tl2 = false /\ t_visible tl2 = false /\ t_bce tl2 = t_bce tl /\ t_g1 tl2 = true
                 /\ t_irm tl2 = false /\ t_ibm tl2 = false /\ (g_utf8 c = true -> t_so tl2 = false)
                 /\ t_y tl2 = t_y tl).
  { destruct pl_modes0 as (Mirm & Mibm & Mso).
    unfold t_ibm'. destruct (negb (g_utf8 c) && (r_lcs (d_rs acc') =? 2)) eqn:E.
    - exists (set_ibm tl false). cbn. splits; auto; congruence.
    - exists tl. cbn [run fold_left]. splits; auto; try congruence.
      destruct (t_ibm tl) eqn:Ei; [|reflexivity]. destruct (Mibm eq_refl) as [U L2]. rewrite U, L2 in E. discriminate. }
  destruct G2 as (tl2 & Etl2 & Q1 & Q2 & Q3 & Q4 & Q5 & Q6 & Q7 & Q8 & Q9 & Q10 & Q11).
  destruct pl_cy0 as [Lcy Lcyr].
  assert (Hru_s : d_ru acc' = Some ru) by exact pl_ru0.
  assert (Hblank2 : forall y, ru < y < rows -> blank_row_text (get_row (t_grid tl) y)).
  { intros y Hy. assert (Hyc : 0 <= y < zlen content) by (rewrite Clen; clear -Hy pl_rurange0 A6; lia).
    destruct (nthz_range content y Hyc) as [row Hn]. apply (Hdone y row Hn). clear -Hy. lia. }
  assert (Hbuf2 : forall y row, nthz content y = Some row ->
       (y <= ru -> row_shows_partial c row (get_row (t_grid tl) y)) /\ (ru < y -> is_blank row = true)).
  { intros y row Hn. destruct (Hdone y row Hn) as [D1 D2]. split; [exact D1|]. intros H. apply D2. exact H. }
  assert (Hrur2 : 0 <= ru < rows) by (clear -pl_rurange0 A6; lia).
  destruct cursor as [[cx cy]|].
  - destruct Hcur as [Hcx Hcy].
    eexists. eexists. split; [reflexivity|].
    rewrite Od. cbn [d_out acc0]. rewrite !run_app. fold ta. fold tb. fold tl. fold t_ibm'. rewrite Etl2.
    rewrite (cursor_partial_ok tl2 (d_cy acc') cx cy) by (rewrite ?Q2, ?Q3, ?Q11; auto).
    cbn [run fold_left step].
    split; [|split; [|split]].
    + unfold PaintsPartial. cbn. split.
      * exists ru. splits; auto; try (clear -Hrur2; lia). intros y row Hn. rewrite Q1. apply Hdone. exact Hn.
      * split; [splits; reflexivity|exact Q4].
    + apply (mk_SyncP _ _ _ ru); cbn; auto.
      * rewrite Q3. exact Hrur2.
      * unfold term_ok. cbn. rewrite Q1, Q2, Q3, pl_len0. splits; auto; congruence.
      * intros B. rewrite Q6, pl_bce0, B6. apply Sbce. exact B.
      * rewrite Q3. exact Hcy.
      * intros y Hy. rewrite Q1. apply Hblank2. rewrite <- Q3. exact Hy.
      * intros _ y row Hn. rewrite Q1. apply Hbuf2. rewrite <- Hsb. exact Hn.
    + cbn. exact Q2.
    + cbn. exact Q3.
  - eexists. eexists. split; [reflexivity|].
    rewrite Od. cbn [d_out acc0]. rewrite !run_app. fold ta. fold tb. fold tl. fold t_ibm'. rewrite Etl2. cbn [run fold_left].
    split; [|split; [|split]].
    + unfold PaintsPartial. cbn. split.
      * exists ru. splits; auto; try (clear -Hrur2; lia). intros y row Hn. rewrite Q1. apply Hdone. exact Hn.
      * split; [exact Q5|exact Q4].
    + apply (mk_SyncP _ _ _ ru); cbn; auto.
      * rewrite Q3. exact Hrur2.
      * unfold term_ok. rewrite Q1, Q2, Q3, pl_len0. splits; auto; congruence.
      * intros B. rewrite Q6, pl_bce0, B6. apply Sbce. exact B.
      * rewrite Q11. exact Lcy.
      * rewrite Q3. exact Lcyr.
      * intros y Hy. rewrite Q1. apply Hblank2. rewrite <- Q3. exact Hy.
      * intros _ y row Hn. rewrite Q1. apply Hbuf2. rewrite <- Hsb. exact Hn.
    + exact Q2.
    + exact Q3.
Qed.

(* ---------- histories in partial display mode ---------- *)
Lemma blank_new_term cols rows y : blank_row_text (get_row (t_grid (new_term cols rows)) y).
Proof.
  unfold new_term, get_row. cbn. destruct (nthz (repeat (blank_row cols) (Z.to_nat rows)) y) as [r|] eqn:E; [|constructor].
  unfold nthz in E. destruct (y <? 0); [discriminate|]. apply nth_error_In in E. apply repeat_spec in E. subst r.
  unfold blank_row_text, blank_row. apply Forall_forall. intros x Hx. apply repeat_spec in Hx. subst x. repeat split; reflexivity.
Qed.

Lemma syncp_start c cols rows : 1 <= cols -> 1 <= rows -> SyncP c (init_scr true) (new_term cols rows).
Proof.
  intros Hc Hr. apply (mk_SyncP _ _ _ 0); cbn; auto; try discriminate; try lia.
  - apply term_ok_new; assumption.
  - intros y _. apply blank_new_term.
  - intros H. congruence.
Qed.

(* Screen.clear() in partial display mode (the terminal keeps what it shows) *)
Lemma syncp_clear c s t : SyncP c s t -> SyncP c (clear s) t.
Proof.
  intros (ru & H1 & H2 & H3 & H4 & H5 & H6 & H7 & H8 & H9 & H10 & H11 & H12 & H13 & H14).
  apply (mk_SyncP _ _ _ ru); cbn; auto. intros H. congruence.
Qed.

Lemma run_draws_partial_ok c cols rows frames : forall s t,
  cfg_ok c -> SyncP c s t -> t_cols t = cols -> t_rows t = rows ->
  Forall (fun f : canvas => canvas_ok c cols rows (fst f) /\ cursor_ok cols rows (snd f)) frames ->
  exists s' t', run_draws c s t frames = Some (s', t') /\ SyncP c s' t' /\
    forall content cursor, last_opt frames = Some (content, cursor) -> PaintsPartial c s' t' content cursor.
Proof.
  induction frames as [|[content cursor] rest IH]; intros s t Hc HS Hcols Hrows Hok.
  - exists s, t. splits; auto. intros; discriminate.
  - apply Forall_cons_iff in Hok as [[Hcan Hcur] Hrest]. cbn [fst snd] in *.
    destruct (draw_paints_partial_lemma c s t cols rows content cursor Hc HS Hcols Hrows Hcan Hcur)
      as (toks & s1 & E & HP & HS1 & Hc1 & Hr1).
    cbn [run_draws]. rewrite Hcols, Hrows, E.
    destruct (IH s1 (run t toks) Hc HS1 Hc1 Hr1 Hrest) as (s' & t' & E' & HS' & HL).
    exists s', t'. splits; auto. intros c0 cur0 Hl. destruct rest as [|f rest'].
    + cbn in Hl. inversion Hl; subst. cbn [run_draws] in E'. inversion E'; subst. exact HP.
    + apply HL. exact Hl.
Qed.

Theorem draws_paint_partial_lemma : draws_paint_statement true PaintsPartial.
Proof.
  intros c cols rows frames content cursor s t Hc Hcols Hrows Hok E.
  pose proof (syncp_start c cols rows Hcols Hrows) as HS.
  destruct (run_draws_partial_ok c cols rows _ _ _ Hc HS eq_refl eq_refl Hok) as (s' & t' & E' & _ & HL).
  rewrite E in E'. inversion E'; subst. apply HL. apply last_opt_snoc.
Qed.

(* ---------- reachable histories in partial display mode, including abandoned frames ---------- *)
Lemma syncp_abandoned c s t cols rows content cursor toks s' :
  cfg_ok c -> SyncP c s t -> t_cols t = cols -> t_rows t = rows ->
  canvas_ok c cols rows content -> cursor_ok cols rows cursor ->
  draw_screen c s cols rows content cursor false true = Ok (toks, s') ->
  SyncP c (ack s') (run t toks) /\ t_grid (run t toks) = t_grid t /\ t_cols (run t toks) = cols /\ t_rows (run t toks) = rows.
Proof.
  intros Hc HS Hcols Hrows Hcan Hcur Hd.
  destruct (draw_paints_partial_lemma c s t cols rows content cursor Hc HS Hcols Hrows Hcan Hcur) as (toks0 & s0 & E & _).
  destruct HS as (ru & H1 & H2 & H3 & H4 & H5 & H6 & H7 & H8 & H9 & H10 & H11 & H12 & H13 & H14).
  destruct (draw_interrupted_ok c s cols rows content cursor toks0 s0 H3 E) as (s2 & E2 & B1 & B2 & B3 & B3' & B4).
  rewrite E2 in Hd. inversion Hd; subst toks s'. clear Hd.
  destruct (s_g1 s) eqn:G; cbn [run fold_left step].
  - splits; auto. apply (mk_SyncP _ _ _ ru); cbn; auto; try congruence; try (rewrite B1; congruence).
  - splits; auto. apply (mk_SyncP _ _ _ ru); cbn; auto; try congruence; try (rewrite B1; congruence).
Qed.

Lemma syncp_resize c s t t' : SyncP c s t -> resized_partial s t t' -> SyncP c (ack (winch s)) t'.
Proof.
  intros (ru & H1 & H2 & H3 & H4 & H5 & H6 & H7 & H8 & H9 & H10 & H11 & H12 & H13 & H14)
         (R1 & R2 & R3 & R4 & R5 & R6 & R7 & R8 & R9 & R10).
  destruct (R10 ru H1) as [Q1 Q2].
  apply (mk_SyncP _ _ _ ru); cbn.
  - exact H1.
  - clear -H2 Q1. lia.
  - reflexivity.
  - exact R1.
  - congruence.
  - congruence.
  - congruence.
  - intros U. rewrite R3. auto.
  - intros G. rewrite R5. auto.
  - intros B. rewrite R7. auto.
  - congruence.
  - clear -H11 H12 R8 R9. lia.
  - exact Q2.
  - intros H. congruence.
Qed.

Lemma reachp_inv c s t last : cfg_ok c -> ReachP c s t last ->
  SyncP c s t /\ (forall content cursor, last = Some (content, cursor) -> PaintsPartial c s t content cursor).
Proof.
  intros Hc R. induction R as
    [cols rows Hcols Hrows | s t last content cursor toks s' R IH Hcan Hcur Hd | s t last R IH
     | s t last content cursor toks s' R IH Hcan Hcur Hd | s t last t' R IH Hrs].
  - split; [apply syncp_start; assumption|intros; discriminate].
  - destruct IH as [HS _].
    destruct (draw_paints_partial_lemma c s t _ _ content cursor Hc HS eq_refl eq_refl Hcan Hcur)
      as (toks0 & s0 & E & HP & HS' & _).
    rewrite E in Hd. inversion Hd; subst toks0 s0. split; [exact HS'|].
    intros c0 cur0 H. inversion H; subst. exact HP.
  - destruct IH as [HS _]. split; [apply syncp_clear; exact HS|intros; discriminate].
  - destruct IH as [HS _].
    destruct (syncp_abandoned c s t _ _ content cursor toks s' Hc HS eq_refl eq_refl Hcan Hcur Hd) as (HS' & _).
    split; [exact HS'|intros; discriminate].
  - destruct IH as [HS _]. split; [eapply syncp_resize; eauto|intros; discriminate].
Qed.

Theorem partial_history_paints_lemma c s t content cursor :
  cfg_ok c -> ReachP c s t (Some (content, cursor)) -> PaintsPartial c s t content cursor.
Proof. intros Hc R. apply (reachp_inv c s t _ Hc R). reflexivity. Qed.

Theorem partial_history_sync_lemma c s t last : cfg_ok c -> ReachP c s t last -> SyncP c s t.
Proof. intros Hc R. apply (reachp_inv c s t last Hc R). Qed.
