(* C02: shards_trim_sides.  Clipping slots and flagged bodies to a window of columns
   preserves [Fit]; the rows of the clipped bodies are the windows of the rows; shards that
   receive no cview are merged into the previous shard. *)
From Coq Require Import ZArith List Bool Lia ZifyBool.
From Urwid Require Import PyBase Canvas CanvasGrid CanvasFacts CanvasAbs CanvasVert CanvasHoriz.
Import ListNotations.
Open Scope Z_scope.
Arguments Z.add : simpl never.
Arguments Z.sub : simpl never.
Arguments Z.mul : simpl never.
Arguments Z.ltb : simpl never.
Arguments Z.leb : simpl never.
Arguments Z.eqb : simpl never.
Arguments Z.min : simpl never.
Arguments Z.max : simpl never.
Arguments Z.to_nat : simpl never.
Arguments Z.of_nat : simpl never.

Section Clip.
  Variables wl wr : Z.          (* the window of columns [wl, wr) *)

  (* overlap of [a, b) with the window *)
  Definition ov (a b : Z) : Z := Z.max 0 (Z.min wr b - Z.max wl a).

  Lemma ov_add a b c : a <= b <= c -> ov a c = ov a b + ov b c.
  Proof. unfold ov. lia. Qed.
  Lemma ov_nonneg a b : 0 <= ov a b.
  Proof. unfold ov. lia. Qed.
  Lemma ov_same a : ov a a = 0.
  Proof. unfold ov. lia. Qed.
  Lemma ov_mono a b c : a <= b <= c -> ov a b <= ov a c.
  Proof. unfold ov. lia. Qed.

  (* the window of a row located at column [col] *)
  Definition wnd (X : row) (col : Z) : row :=
    let lo := Z.max wl col in
    let hi := Z.min wr (col + zlen X) in
    if lo <? hi then trim_cells X (lo - col) (hi - col) else [].

  Definition clip_acv (col : Z) (a : acv) : option acv :=
    if 0 <? ov col (col + fst a)
    then Some (ov col (col + fst a), map (fun X : row => wnd X col) (snd a))
    else None.

  Fixpoint clip_fb (fb : fbody) (col : Z) : fbody :=
    match fb with
    | [] => []
    | (fl, a) :: fb' =>
        match clip_acv col a with
        | Some a' => (fl, a') :: clip_fb fb' (col + fst a)
        | None => clip_fb fb' (col + fst a)
        end
    end.

  Fixpoint clip_body (b : list acv) (col : Z) : list acv :=
    match b with
    | [] => []
    | a :: b' =>
        match clip_acv col a with
        | Some a' => a' :: clip_body b' (col + fst a)
        | None => clip_body b' (col + fst a)
        end
    end.

  Fixpoint clip_sl (sl : list slot) (col : Z) : list slot :=
    match sl with
    | [] => []
    | Free w :: sl' =>
        if 0 <? ov col (col + w) then Free (ov col (col + w)) :: clip_sl sl' (col + w) else clip_sl sl' (col + w)
    | Busy a :: sl' =>
        match clip_acv col a with
        | Some a' => Busy a' :: clip_sl sl' (col + fst a)
        | None => clip_sl sl' (col + fst a)
        end
    end.

  Lemma body_of_clip_fb fb : forall col, body_of (clip_fb fb col) = clip_body (body_of fb) col.
  Proof.
    induction fb as [|[fl a] fb IH]; intros col; cbn [clip_fb body_of map clip_body snd]; [reflexivity|].
    fold (body_of fb). destruct (clip_acv col a); cbn [body_of map snd]; fold (body_of (clip_fb fb (col + fst a))); now rewrite IH.
  Qed.

  Lemma clip_acv_fst col a a' : clip_acv col a = Some a' -> fst a' = ov col (col + fst a) /\ 0 < ov col (col + fst a).
  Proof. unfold clip_acv. destruct (0 <? ov col (col + fst a)) eqn:E; [|discriminate]. intros [= <-]. cbn [fst]. lia. Qed.
  Lemma clip_acv_none col a : clip_acv col a = None -> ov col (col + fst a) = 0.
  Proof. unfold clip_acv. destruct (0 <? ov col (col + fst a)) eqn:E; [discriminate|]. pose proof (ov_nonneg col (col + fst a)). lia. Qed.

  (* clipping preserves Fit *)
  Lemma Fit_clip sl g fb : Fit sl g fb -> forall cs, Fit (clip_sl sl cs) (ov (cs - g) cs) (clip_fb fb (cs - g)).
  Proof.
    induction 1 as [|w sl g fb Hw Hg _ IH|a sl g fb Ha _ IH|a sl fb _ IH]; intros cs.
    - cbn [clip_sl clip_fb]. rewrite Z.sub_0_r, ov_same. constructor.
    - cbn [clip_sl]. specialize (IH (cs + w)). replace (cs + w - (g + w)) with (cs - g) in IH by lia.
      rewrite (ov_add (cs - g) cs (cs + w)) in IH by lia.
      destruct (0 <? ov cs (cs + w)) eqn:E.
      + apply fit_free; [lia|apply ov_nonneg|exact IH].
      + replace (ov cs (cs + w)) with 0 in IH by (pose proof (ov_nonneg cs (cs + w)); lia). now rewrite Z.add_0_r in IH.
    - cbn [clip_fb]. specialize (IH cs). replace (cs - (g - fst a)) with (cs - g + fst a) in IH by lia.
      pose proof (ov_add (cs - g) (cs - g + fst a) cs ltac:(lia)) as Hadd.
      destruct (clip_acv (cs - g) a) as [a'|] eqn:E.
      + destruct (clip_acv_fst _ _ _ E) as [E1 E2]. apply fit_fresh; [rewrite E1; pose proof (ov_nonneg (cs - g + fst a) cs); lia|].
        rewrite E1. replace (ov (cs - g) cs - ov (cs - g) (cs - g + fst a)) with (ov (cs - g + fst a) cs) by lia. exact IH.
      + pose proof (clip_acv_none _ _ E). replace (ov (cs - g) cs) with (ov (cs - g + fst a) cs) by lia. exact IH.
    - cbn [clip_sl clip_fb]. rewrite Z.sub_0_r, ov_same. specialize (IH (cs + fst a)). rewrite Z.sub_0_r, ov_same in IH.
      destruct (clip_acv cs a) as [a'|]; [apply fit_busy|]; exact IH.
  Qed.

  (* ---- rows ---- *)
  Lemma zlen_pos_ne {A} (l : list A) : 0 < zlen l -> l <> [].
  Proof. intros H ->. unfold zlen in H. cbn [length] in H. lia. Qed.
  Lemma first_okb_dropz (X : row) s : 0 <= s < zlen X -> last_okb X = true -> last_okb (dropz s X) = true.
  Proof.
    intros Hs Hl. unfold dropz. assert (Z.to_nat s < length X)%nat as Hn by (unfold zlen in Hs; lia).
    revert Hn. generalize (Z.to_nat s) as n. clear Hs. induction X as [|c X IH]; intros n Hn; [cbn in Hn; lia|].
    destruct n as [|n]; [exact Hl|]. cbn [skipn]. apply IH; [|cbn [length] in Hn; lia].
    cbn [last_okb] in Hl. destruct X; [cbn in Hn; lia|exact Hl].
  Qed.
  Lemma first_okb_takez (X : row) n : 0 < n -> first_okb X = true -> first_okb (takez n X) = true.
  Proof. intros Hn Hf. unfold takez. destruct (Z.to_nat n) eqn:E; [lia|]. destruct X; [reflexivity|exact Hf]. Qed.

  Lemma fix_left_app A B : A <> [] -> fix_left (A ++ B) = fix_left A ++ B.
  Proof. destruct A as [|c A]; [congruence|]. intros _. cbn [app fix_left]. destruct (ck c); reflexivity. Qed.
  Lemma fix_right_app A B : B <> [] -> fix_right (A ++ B) = A ++ fix_right B.
  Proof.
    intros HB. induction A as [|c A IH]; [reflexivity|]. cbn [app]. destruct (A ++ B) eqn:E.
    - destruct A; [cbn in E; congruence|discriminate].
    - change (fix_right (c :: c0 :: l)) with (c :: fix_right (c0 :: l)). now rewrite <- IH.
  Qed.

  Lemma wnd_app X Y col :
    row_cleanb X = true -> row_cleanb Y = true -> X <> [] -> Y <> [] ->
    wnd (X ++ Y) col = wnd X col ++ wnd Y (col + zlen X).
  Proof.
    intros HX HY HXn HYn. unfold row_cleanb in HX, HY. apply andb_prop in HX as [HX1 HX2]. apply andb_prop in HY as [HY1 HY2].
    assert (0 < zlen X) as LX by (destruct X; [congruence|rewrite zlen_cons; pose proof (zlen_nonneg X); lia]).
    assert (0 < zlen Y) as LY by (destruct Y; [congruence|rewrite zlen_cons; pose proof (zlen_nonneg Y); lia]).
    unfold wnd. rewrite zlen_app. cbn zeta.
    set (lo := Z.max wl col). set (hiX := Z.min wr (col + zlen X)). set (hi := Z.min wr (col + (zlen X + zlen Y))).
    set (loY := Z.max wl (col + zlen X)). set (hiY := Z.min wr (col + zlen X + zlen Y)).
    assert (hiY = hi) as -> by (subst hiY hi; lia).
    destruct (lo <? hi) eqn:E.
    - destruct (lo <? hiX) eqn:EX; destruct (loY <? hi) eqn:EY.
      + (* straddles the seam *)
        assert (hiX = col + zlen X) by lia. assert (loY = col + zlen X) by lia.
        unfold trim_cells. replace (hi - col - (lo - col)) with (hi - lo) by lia.
        rewrite dropz_app_l by lia. rewrite takez_app_r by (rewrite zlen_dropz by lia; lia).
        rewrite zlen_dropz by lia.
        assert (dropz (lo - col) X <> []) as N1 by (apply zlen_pos_ne; rewrite zlen_dropz by lia; lia).
        assert (takez (hi - lo - Z.max 0 (zlen X - (lo - col))) Y <> []) as N2 by (apply zlen_pos_ne; rewrite zlen_takez by lia; lia).
        rewrite fix_left_app by assumption. rewrite fix_right_app by assumption.
        replace (hiX - col - (lo - col)) with (zlen X - (lo - col)) by lia.
        rewrite (takez_all (zlen X - (lo - col))) by (rewrite zlen_dropz by lia; lia).
        rewrite (fix_right_clean (fix_left (dropz (lo - col) X))).
        2:{ destruct (Z.eq_dec (lo - col) 0) as [E0|E0].
            - rewrite E0, dropz_le0 by lia. rewrite fix_left_clean by assumption. assumption.
            - assert (fix_left (dropz (lo - col) X) = dropz (lo - col) X \/ True) as _ by (now right).
              (* fix_left only changes the first cell; last_okb is about the last cell *)
              destruct (dropz (lo - col) X) as [|c D] eqn:ED; [congruence|].
              assert (last_okb (c :: D) = true) as LD by (rewrite <- ED; apply first_okb_dropz; [lia|assumption]).
              cbn [fix_left]. destruct (ck c) eqn:Ec; try exact LD.
              destruct D; [reflexivity|exact LD]. }
        f_equal. rewrite H0. replace (col + zlen X - (col + zlen X)) with 0 by lia. rewrite dropz_le0 by lia.
        replace (hi - lo - Z.max 0 (zlen X - (lo - col))) with (hi - (col + zlen X) - 0) by lia.
        rewrite (fix_left_clean (takez _ Y)) by (apply first_okb_takez; [lia|assumption]). reflexivity.
      + (* entirely inside X *)
        assert (hi <= col + zlen X) by lia. rewrite app_nil_r. assert (hiX = hi) as -> by lia.
        unfold trim_cells. rewrite dropz_app_l by lia. rewrite takez_app_l by (rewrite zlen_dropz by lia; lia). reflexivity.
      + (* entirely inside Y *)
        assert (col + zlen X <= lo) by lia. cbn [app]. assert (loY = lo) as -> by lia.
        unfold trim_cells. rewrite dropz_app_r by lia.
        replace (hi - (col + zlen X) - (lo - (col + zlen X))) with (hi - col - (lo - col)) by lia.
        replace (lo - (col + zlen X)) with (lo - col - zlen X) by lia. reflexivity.
      + lia.
    - destruct (lo <? hiX) eqn:EX; [lia|]. destruct (loY <? hi) eqn:EY; [lia|]. reflexivity.
  Qed.

  Lemma wnd_outside X col : ov col (col + zlen X) = 0 -> wnd X col = [].
  Proof. unfold ov, wnd. intros H. cbn zeta. destruct (Z.max wl col <? Z.min wr (col + zlen X)) eqn:E; [lia|reflexivity]. Qed.

  Lemma zlen_wnd X col : 0 <= zlen X -> zlen (wnd X col) = ov col (col + zlen X).
  Proof.
    intros _. unfold wnd, ov. cbn zeta. destruct (Z.max wl col <? Z.min wr (col + zlen X)) eqn:E.
    - rewrite zlen_trim_cells by lia. lia.
    - rewrite zlen_nil. lia.
  Qed.
  Lemma wnd_clean X col : row_cleanb (wnd X col) = true.
  Proof. unfold wnd. cbn zeta. destruct (_ <? _); [apply row_clean_trim_cells|reflexivity]. Qed.

  (* the k-th row of a clipped body is the window of the k-th row *)
  Lemma arow_clip body k : forall col,
    0 <= k -> Forall acv_ok body -> Forall (fun a : acv => k < zlen (snd a)) body ->
    arow (clip_body body col) k = wnd (arow body k) col.
  Proof.
    intros col Hk. revert col. induction body as [|a body IH]; intros col Fo Fk.
    - cbn [clip_body arow flat_map]. unfold wnd. cbn zeta. rewrite zlen_nil. destruct (_ <? _) eqn:E; [lia|reflexivity].
    - inversion Fo as [|? ? [Ha Hr] Fo']; subst. inversion Fk; subst.
      destruct (nthz_lt_some (snd a) k) as [r Hr']; [lia|].
      assert (In r (snd a)) as Hin by (unfold nthz in Hr'; destruct (k <? 0); [discriminate|]; eapply nth_error_In; eauto).
      rewrite Forall_forall in Hr. destruct (Hr _ Hin) as [Hz Hc].
      assert (r <> []) as Hne by (intros ->; rewrite zlen_nil in Hz; lia).
      assert (arow (a :: body) k = r ++ arow body k) as Erow by (unfold arow; cbn [flat_map]; now rewrite Hr').
      rewrite Erow. cbn [clip_body].
      assert (wnd (r ++ arow body k) col = wnd r col ++ wnd (arow body k) (col + fst a)) as Ew.
      { destruct body as [|a' body'].
        - cbn [arow flat_map]. rewrite app_nil_r. unfold wnd at 3. cbn zeta. rewrite zlen_nil.
          destruct (_ <? _) eqn:E; [lia|]. now rewrite app_nil_r.
        - destruct (arow_clean (a' :: body') k) as [N C]; try assumption; [discriminate|].
          rewrite wnd_app by assumption. now rewrite Hz. }
      rewrite Ew. specialize (IH (col + fst a) Fo' H2).
      unfold clip_acv. destruct (0 <? ov col (col + fst a)) eqn:E.
      + unfold arow at 1. cbn [flat_map snd]. fold (arow (clip_body body (col + fst a)) k). rewrite IH. f_equal.
        rewrite nthz_map, Hr'. reflexivity.
      + rewrite IH. rewrite (wnd_outside r col) by (rewrite Hz; pose proof (ov_nonneg col (col + fst a)); lia). reflexivity.
  Qed.
End Clip.

(* ------------------------------------------------------------------ a whole run, clipped *)
Lemma clip_sl_free wl wr sl : forall col, Forall is_free sl -> Forall is_free (clip_sl wl wr sl col).
Proof.
  induction sl as [|[w|a] sl IH]; intros col F; inversion F; subst; cbn [clip_sl]; [constructor| |destruct H1].
  destruct (0 <? ov wl wr col (col + w)); [constructor; [exact I|]|]; now apply IH.
Qed.

Lemma body_width_clip wl wr b : forall col,
  Forall (fun a : acv => 0 < fst a) b -> body_width (clip_body wl wr b col) = ov wl wr col (col + body_width b).
Proof.
  induction b as [|a b IH]; intros col F; cbn [clip_body body_width fold_right].
  - rewrite Z.add_0_r. now rewrite ov_same.
  - inversion F; subst. fold (body_width b). pose proof (body_width_nonneg _ H2).
    rewrite (ov_add wl wr col (col + fst a) (col + (fst a + body_width b))) by lia.
    replace (col + (fst a + body_width b)) with (col + fst a + body_width b) by lia.
    destruct (clip_acv wl wr col a) as [a'|] eqn:E.
    + destruct (clip_acv_fst _ _ _ _ _ E) as [E1 _]. cbn [body_width fold_right]. fold (body_width (clip_body wl wr b (col + fst a))).
      rewrite IH by assumption. lia.
    + rewrite (clip_acv_none _ _ _ _ E). rewrite IH by assumption. lia.
Qed.

Lemma clip_acv_ok wl wr col a a' : acv_ok a -> clip_acv wl wr col a = Some a' -> acv_ok a' /\ zlen (snd a') = zlen (snd a).
Proof.
  intros [Ha Hr] E. destruct (clip_acv_fst _ _ _ _ _ E) as [E1 E2]. unfold clip_acv in E.
  destruct (0 <? ov wl wr col (col + fst a)); [|discriminate]. injection E as <-. cbn [fst snd] in *. split; [|apply zlen_map].
  split; [cbn [fst]; lia|]. cbn [fst snd]. apply Forall_forall. intros X HX. apply in_map_iff in HX as (X0 & <- & HX0).
  rewrite Forall_forall in Hr. destruct (Hr _ HX0) as [Hz _]. split; [|apply wnd_clean].
  rewrite zlen_wnd by apply zlen_nonneg. now rewrite Hz.
Qed.

Lemma clip_body_ok wl wr b : forall col, Forall acv_ok b -> Forall acv_ok (clip_body wl wr b col).
Proof.
  induction b as [|a b IH]; intros col F; cbn [clip_body]; [constructor|]. inversion F; subst.
  destruct (clip_acv wl wr col a) as [a'|] eqn:E; [constructor; [eapply clip_acv_ok; eauto|]|]; now apply IH.
Qed.
Lemma clip_body_len wl wr n b : forall col,
  Forall acv_ok b -> Forall (fun a : acv => n <= zlen (snd a)) b -> Forall (fun a : acv => n <= zlen (snd a)) (clip_body wl wr b col).
Proof.
  induction b as [|a b IH]; intros col F Fn; cbn [clip_body]; [constructor|]. inversion F; subst. inversion Fn; subst.
  destruct (clip_acv wl wr col a) as [a'|] eqn:E; [constructor; [destruct (clip_acv_ok _ _ _ _ _ H1 E) as [_ ->]; assumption|]|]; now apply IH.
Qed.

Lemma slots_after_clip wl wr n b : forall col,
  slots_after n (clip_body wl wr b col) = clip_sl wl wr (slots_after n b) col.
Proof.
  unfold slots_after. induction b as [|a b IH]; intros col; cbn [clip_body map]; [reflexivity|].
  unfold clip_acv. destruct (0 <? ov wl wr col (col + fst a)) eqn:E.
  - cbn [map]. rewrite IH. unfold slot_after. cbn [fst snd]. rewrite zlen_map.
    destruct (n =? zlen (snd a)) eqn:E2; cbn [clip_sl fst].
    + rewrite E. reflexivity.
    + unfold clip_acv. cbn [fst snd]. rewrite E. now rewrite dropz_map.
  - rewrite IH. unfold slot_after at 2. destruct (n =? zlen (snd a)) eqn:E2; cbn [clip_sl fst].
    + rewrite E. reflexivity.
    + unfold clip_acv. cbn [fst snd]. rewrite E. reflexivity.
Qed.

Lemma arows_clip wl wr body k m w :
  0 <= wl -> wl < wr -> wr <= w -> body_width body = w ->
  0 <= k -> Forall acv_ok body -> Forall (fun a : acv => k + Z.of_nat m <= zlen (snd a)) body ->
  arows (clip_body wl wr body 0) k m = map (fun R : row => trim_cells R wl wr) (arows body k m).
Proof.
  intros H1 H2 H3 Hw. revert k; induction m as [|m IH]; intros k Hk Fo Fk; cbn [arows map]; [reflexivity|].
  rewrite IH; [|lia|assumption|eapply Forall_impl; [|exact Fk]; cbn beta; intros; lia]. f_equal.
  assert (Forall (fun a : acv => k < zlen (snd a)) body) as Fk' by (eapply Forall_impl; [|exact Fk]; cbn beta; intros; lia).
  rewrite arow_clip by assumption. unfold wnd. cbn zeta. rewrite (arow_width _ _ Hk Fo Fk'), Hw.
  replace (Z.max wl 0) with wl by lia. replace (Z.min wr (0 + w)) with wr by lia.
  destruct (wl <? wr) eqn:E; [|lia]. now rewrite !Z.sub_0_r.
Qed.

Fixpoint aclip (wl wr : Z) (ss : list ashard) (sl : list slot) : list ashard :=
  match ss with
  | [] => []
  | (n, cvs) :: ss' =>
      match ffill sl cvs 0 with
      | Ok fb => (n, fresh_of (clip_fb wl wr fb 0)) :: aclip wl wr ss' (slots_after n (body_of fb))
      | Err _ => []
      end
  end.

Lemma aclip_correct w wl wr : 0 <= wl -> wl < wr -> wr <= w -> forall ss sl,
  AWF w ss sl -> SWF w sl ->
  AWF (wr - wl) (aclip wl wr ss sl) (clip_sl wl wr sl 0) /\
  acontent_from (aclip wl wr ss sl) (clip_sl wl wr sl 0) = map (fun R : row => trim_cells R wl wr) (acontent_from ss sl).
Proof.
  intros H1 H2 H3. induction ss as [|[n cvs] ss IH]; intros sl A S.
  - cbn [aclip AWF acontent_from map] in *. split; [|reflexivity]. apply closed_iff, clip_sl_free. now apply closed_iff.
  - destruct (AWF_step _ _ _ _ _ A S) as (fb & F & Efr & Ef & Hn & Fo & Fn & Hw & Hr & S').
    assert (ffill sl cvs 0 = Ok fb) as Eff by (rewrite <- Efr; apply Fit_ffill; exact F).
    cbn [aclip]. rewrite Eff.
    destruct (IH _ Hr S') as [I1 I2].
    pose proof (Fit_clip wl wr _ _ _ F 0) as F'. rewrite Z.sub_0_r, ov_same in F'.
    assert (body_of (clip_fb wl wr fb 0) = clip_body wl wr (body_of fb) 0) as Eb by apply body_of_clip_fb.
    assert (Forall (fun a : acv => 0 < fst a) (body_of fb)) as Fp by (eapply Forall_impl; [|exact Fo]; intros a [? _]; assumption).
    split.
    + apply AWF_build; try assumption; rewrite Eb.
      * now apply clip_body_ok.
      * now apply clip_body_len.
      * rewrite body_width_clip by assumption. rewrite Hw. unfold ov. lia.
      * rewrite slots_after_clip. exact I1.
    + rewrite (acontent_step n (fresh_of (clip_fb wl wr fb 0)) _ (clip_sl wl wr sl 0) _ (Fit_fill _ _ F')).
      rewrite (acontent_step _ _ _ _ _ Ef). rewrite Eb, slots_after_clip, I2, map_app. f_equal.
      apply (arows_clip wl wr _ 0 _ w); try assumption; try lia. eapply Forall_impl; [|exact Fn]. cbn beta; intros; lia.
Qed.

(* ------------------------------------------------------------------ merging shards without cviews *)
Lemma Fit_no_fresh sl g fb :
  Fit sl g fb -> fresh_of fb = [] -> (forall w, In (Free w) sl -> 0 < w) ->
  g = 0 /\ exists l, sl = map Busy l /\ fb = mk_busy l.
Proof.
  induction 1 as [|w sl g fb Hw Hg _ IH|a sl g fb Ha _ IH|a sl fb _ IH]; intros Efr Hfree.
  - split; [reflexivity|]. exists []. auto.
  - exfalso. assert (0 < w) by (apply Hfree; now left).
    destruct (IH Efr) as [E _]; [intros w' Hin; apply Hfree; now right|]. lia.
  - discriminate.
  - destruct (IH Efr) as [_ (l & -> & ->)]; [intros w' Hin; apply Hfree; now right|].
    split; [reflexivity|]. exists (a :: l). auto.
Qed.

Lemma slots_after_free_pos n body w : Forall acv_ok body -> In (Free w) (slots_after n body) -> 0 < w.
Proof.
  intros Fo Hin. unfold slots_after in Hin. apply in_map_iff in Hin as (a & E & Ha). rewrite Forall_forall in Fo. destruct (Fo _ Ha) as [Hp _].
  unfold slot_after in E. destruct (n =? zlen (snd a)); [injection E as <-; assumption|discriminate].
Qed.

Lemma slots_after_all_busy n body l :
  slots_after n body = map Busy l -> l = map (pdrop n) body /\ Forall (fun a : acv => n <> zlen (snd a)) body.
Proof.
  revert l; induction body as [|a body IH]; intros l E; cbn [slots_after map] in E.
  - destruct l; [split; [reflexivity|constructor]|discriminate].
  - destruct l as [|b l]; [discriminate|]. cbn [map] in E. injection E as E1 E2. fold (slots_after n body) in E2.
    destruct (IH _ E2) as [-> F]. unfold slot_after in E1. destruct (n =? zlen (snd a)) eqn:E3; [discriminate|]. injection E1 as <-.
    split; [reflexivity|constructor; [lia|assumption]].
Qed.

Lemma merge_step w n1 c1 n2 rest sl :
  AWF w ((n1, c1) :: (n2, []) :: rest) sl -> SWF w sl ->
  AWF w ((n1 + n2, c1) :: rest) sl /\
  acontent_from ((n1 + n2, c1) :: rest) sl = acontent_from ((n1, c1) :: (n2, []) :: rest) sl.
Proof.
  intros A S. destruct (AWF_step _ _ _ _ _ A S) as (fb & F & Efr & Ef & Hn & Fo & Fn & Hw & Hr & S').
  destruct (AWF_step _ _ _ _ _ Hr S') as (fb2 & F2 & Efr2 & Ef2 & Hn2 & Fo2 & Fn2 & Hw2 & Hr2 & _).
  destruct (Fit_no_fresh _ _ _ F2 Efr2) as [_ (l & El & Efb2)]; [intros w' Hin; apply (slots_after_free_pos n1 (body_of fb) w' Fo Hin)|].
  destruct (slots_after_all_busy _ _ _ El) as [-> Fne]. rewrite Efb2, body_of_mk_busy in *.
  assert (Forall (fun a : acv => n1 + n2 <= zlen (snd a)) (body_of fb)) as Fn12.
  { apply Forall_forall. intros a Ha. rewrite Forall_forall in Fn, Fn2.
    specialize (Fn2 (pdrop n1 a) (in_map _ _ _ Ha)). specialize (Fn _ Ha). cbn [pdrop snd] in Fn2. rewrite zlen_dropz_le in Fn2 by lia. lia. }
  assert (slots_after n2 (map (pdrop n1) (body_of fb)) = slots_after (n1 + n2) (body_of fb)) as Es.
  { unfold slots_after. rewrite map_map. apply map_ext_in. intros a Ha. rewrite Forall_forall in Fn12.
    etransitivity; [|apply (slot_after_pdrop (n1 + n2) n1 a); [lia|auto]]. f_equal. lia. }
  split.
  - rewrite <- Efr. apply AWF_build; try assumption; [lia|]. rewrite <- Es. exact Hr2.
  - rewrite (acontent_step _ _ _ _ _ Ef). rewrite (acontent_step _ _ _ _ _ Ef). rewrite (acontent_step _ _ _ _ _ Ef2).
    rewrite Es, app_assoc. f_equal.
    replace (Z.to_nat (n1 + n2)) with (Z.to_nat n1 + Z.to_nat n2)%nat by lia. rewrite arows_app. f_equal.
    symmetry. etransitivity; [apply (arows_shift (body_of fb) (map (pdrop n1) (body_of fb)) 0 n1); intros j Hj; apply arow_pdrop; lia|].
    f_equal. lia.
Qed.

Fixpoint merge_go (cur : ashard) (rest : list ashard) : list ashard :=
  match rest with
  | [] => [cur]
  | (n, cvs) :: r =>
      match cvs with
      | [] => merge_go (fst cur + n, snd cur) r
      | _ :: _ => cur :: merge_go (n, cvs) r
      end
  end.

Lemma merge_correct w : forall rest cur sl,
  AWF w (cur :: rest) sl -> SWF w sl ->
  AWF w (merge_go cur rest) sl /\ acontent_from (merge_go cur rest) sl = acontent_from (cur :: rest) sl.
Proof.
  induction rest as [|[n cvs] rest IH]; intros [n0 c0] sl A S; cbn [merge_go]; [auto|].
  destruct cvs as [|cv cvs].
  - destruct (merge_step _ _ _ _ _ _ A S) as [A' C']. cbn [fst snd]. destruct (IH (n0 + n, c0) sl A' S) as [I1 I2].
    split; [assumption|]. etransitivity; [exact I2|exact C'].
  - destruct (AWF_step _ _ _ _ _ A S) as (fb & F & Efr & Ef & Hn & Fo & Fn & Hw & Hr & S').
    destruct (IH (n, cv :: cvs) _ Hr S') as [I1 I2]. split.
    + rewrite <- Efr. apply AWF_build; assumption.
    + rewrite (acontent_step _ _ _ _ _ Ef), (acontent_step _ _ _ _ _ Ef), I2. reflexivity.
Qed.

(* ------------------------------------------------------------------ the concrete function *)
Fixpoint usides (wl wr : Z) (ss : shards) (tail : list (tail_entry cview)) : result shards :=
  match ss with
  | [] => Ok []
  | (n, cvs) :: ss' =>
      match sbody cvs tail with
      | Err e => Err e
      | Ok sb =>
          match usides wl wr ss' (stail n sb) with
          | Err e => Err e
          | Ok r => Ok ((n, trim_sides_cvs sb 0 wl wr) :: r)
          end
      end
  end.
Fixpoint cmerge_go (cur : shard) (rest : shards) : shards :=
  match rest with
  | [] => [cur]
  | (n, cvs) :: r =>
      match cvs with
      | [] => cmerge_go (fst cur + n, snd cur) r
      | _ :: _ => cur :: cmerge_go (n, cvs) r
      end
  end.

Lemma trim_sides_go_eq wl wr : forall ss tail cur acc,
  trim_sides_go ss tail wl wr (cur :: acc) = rmap (fun u => rev acc ++ cmerge_go cur u) (usides wl wr ss tail).
Proof.
  induction ss as [|[n cvs] ss IH]; intros tail [pn pcvs] acc; cbn [trim_sides_go usides rmap cmerge_go].
  - cbn [rev]. reflexivity.
  - destruct (sbody cvs tail) as [sb|e]; [|reflexivity].
    destruct (trim_sides_cvs sb 0 wl wr) as [|cv new] eqn:E.
    + rewrite IH. destruct (usides wl wr ss (stail n sb)); cbn [rmap cmerge_go fst snd]; reflexivity.
    + rewrite IH. destruct (usides wl wr ss (stail n sb)); cbn [rmap cmerge_go rev]; [|reflexivity]. now rewrite <- app_assoc.
Qed.

Lemma abs_cmerge_go : forall rest cur, map abs_sh (cmerge_go cur rest) = merge_go (abs_sh cur) (map abs_sh rest).
Proof.
  induction rest as [|[n cvs] rest IH]; intros [pn pcvs]; cbn [cmerge_go map merge_go abs_sh fst snd]; [reflexivity|].
  destruct cvs as [|cv cvs]; cbn [map].
  - rewrite IH. reflexivity.
  - rewrite IH. reflexivity.
Qed.

(* flags of a concrete shard body: fresh iff done_rows = 0 *)
Definition flag (e : body_entry cview) : bool * acv := (fst e =? 0, abs_e e).
Definition tail_pos (tail : list (tail_entry cview)) : Prop := Forall (fun t : tail_entry cview => 0 < snd (fst t)) tail.

Lemma ffill_abs tail : forall cvs,
  tail_pos tail ->
  ffill (slots_of_tail tail) (map abs_cv cvs) 0 = rmap (map flag) (sbody cvs tail).
Proof.
  unfold sbody. induction tail as [|[[g d] tcv] tail IH]; intros cvs T; cbn [slots_of_tail flat_map ffill shard_body app fst snd].
  - cbn [rmap]. f_equal. unfold mk_fresh. rewrite !map_map. apply map_ext. intros cv. unfold flag. cbn [fst snd]. now rewrite abs_e_0.
  - inversion T; subst. cbn [fst snd] in *. rewrite Z.add_0_l. rewrite atake_abs.
    destruct (take_gap ccols cvs g) as [[b r]|e] eqn:Eg; cbn [rmap fst snd]; [|reflexivity].
    fold (slots_of_tail tail). rewrite IH by assumption. destruct (shard_body ccols r tail) as [b'|e]; cbn [rmap]; [|reflexivity].
    rewrite map_app. cbn [map]. f_equal. f_equal.
    + (* the entries produced by take_gap have done_rows = 0 *)
      clear - Eg. revert g b r Eg. induction cvs as [|cv cvs IHc]; intros g b r; cbn [take_gap].
      * destruct (g =? 0); intros [= <- <-]; reflexivity.
      * destruct (g =? 0); [intros [= <- <-]; reflexivity|]. destruct (g - ccols cv <? 0); [discriminate|].
        destruct (take_gap ccols cvs (g - ccols cv)) as [[b0 r0]|e] eqn:E; [|discriminate]. intros [= <- <-].
        cbn [map mk_fresh]. unfold flag at 1. cbn [fst]. replace (0 =? 0) with true by lia. f_equal. eapply IHc; eauto.
    + unfold flag. cbn [fst snd]. destruct (d =? 0) eqn:E; [lia|reflexivity].
Qed.

Lemma ftail_abs n sb gap :
  0 <= n -> Forall entry_ok sb ->
  forall C g, ffill (slots_of_tail (shard_body_tail_go ccols crows n sb gap)) C g
              = ffill (slots_after n (map abs_e sb)) C (g + gap).
Proof.
  intros Hn. revert gap; induction sb as [|[d cv] sb IH]; intros gap F C g; cbn [shard_body_tail_go map slots_after]; [reflexivity|].
  inversion F; subst. fold (slots_after n (map abs_e sb)).
  unfold slot_after at 1. rewrite (zlen_abs_e _ H1). cbn [fst snd abs_e]. destruct H1 as [? ?]; cbn [fst snd] in *.
  destruct (d + n =? crows cv) eqn:E.
  - destruct (n =? crows cv - d) eqn:E'; [|lia]. cbn [ffill]. rewrite IH by assumption. f_equal. lia.
  - destruct (n =? crows cv - d) eqn:E'; [lia|]. cbn [slots_of_tail flat_map ffill app fst snd abs_e].
    fold (slots_of_tail (shard_body_tail_go ccols crows n sb 0)).
    rewrite dropz_dropz by lia. rewrite (Z.add_comm n d).
    destruct (atake C (g + gap)) as [[b r]|e]; [|reflexivity].
    rewrite IH by assumption. rewrite Z.add_0_l. reflexivity.
Qed.

Definition fsl_equiv (s1 s2 : list slot) : Prop := forall C g, ffill s1 C g = ffill s2 C g.
Lemma fsl_equiv_sl s1 s2 : fsl_equiv s1 s2 -> sl_equiv s1 s2.
Proof. intros E C g. now rewrite !fill_ffill, E. Qed.
Lemma aclip_equiv wl wr ss s1 s2 : fsl_equiv s1 s2 -> aclip wl wr ss s1 = aclip wl wr ss s2.
Proof. intros E. destruct ss as [|[n cvs] ss]; [reflexivity|]. cbn [aclip]. now rewrite E. Qed.

Lemma stail_pos n sb : 0 < n -> Forall entry_ok sb -> tail_pos (stail n sb).
Proof.
  intros Hn. unfold stail, shard_body_tail. generalize 0 as gap. induction sb as [|[d cv] sb IH]; intros gap F; cbn [shard_body_tail_go]; [constructor|].
  inversion F; subst. destruct H1 as [[? ?] ?]. cbn [fst snd] in *. destruct (d + n =? crows cv); [now apply IH|].
  constructor; [cbn [fst snd]; lia|now apply IH].
Qed.

(* one entry *)
Lemma sides_entry wl wr cv col :
  cview_ok cv -> wl < wr -> 0 < ov wl wr col (col + ccols cv) ->
  let next_col := col + ccols cv in
  let cv1 := if col <? wl then cview_trim_left cv (wl - col) else cv in
  let col1 := if col <? wl then wl else col in
  let cv2 := if wr <? next_col then cview_trim_cols cv1 (wr - col1) else cv1 in
  cview_ok cv2 /\ clip_acv wl wr col (abs_cv cv) = Some (abs_cv cv2).
Proof.
  intros Hok Hw Hov. cbn zeta. destruct (cview_ok_pos _ Hok) as [Hc Hr]. unfold ov in Hov.
  set (lo := Z.max wl col). set (hi := Z.min wr (col + ccols cv)).
  assert (lo < hi) as Hlh by (subst lo hi; lia).
  assert (forall cvx, cview_ok cvx -> ccols cvx = hi - lo ->
                      rows_of cvx = map (fun r : row => trim_cells r (lo - col) (hi - col)) (rows_of cv) ->
                      clip_acv wl wr col (abs_cv cv) = Some (abs_cv cvx)) as Hgen.
  { intros cvx Okx Ecx Erx. unfold clip_acv, abs_cv. cbn [fst snd]. unfold ov. fold lo hi.
    destruct (0 <? Z.max 0 (hi - lo)) eqn:E; [|lia]. f_equal. f_equal; [lia|]. rewrite Erx. apply map_ext_in. intros X HX.
    pose proof (rows_of_width _ Hok) as Fw. rewrite Forall_forall in Fw. unfold wnd. cbn zeta. rewrite (Fw _ HX). fold lo hi.
    destruct (lo <? hi) eqn:E2; [reflexivity|lia]. }
  assert (Hwin : forall k c, 0 <= k -> 0 < c -> k + c <= ccols cv -> k = lo - col -> k + c = hi - col ->
                 cview_ok (cview_window cv k c) /\ clip_acv wl wr col (abs_cv cv) = Some (abs_cv (cview_window cv k c))).
  { intros k c Hk Hcc Hkc Ek Ekc. pose proof (cview_window_ok _ _ _ Hok Hk Hcc Hkc) as Okw. split; [assumption|].
    apply Hgen; [assumption|cbn [cview_window ccols]; lia|]. rewrite rows_of_window by assumption. apply map_ext. intros X. f_equal; lia. }
  destruct (col <? wl) eqn:E1; destruct (wr <? col + ccols cv) eqn:E2.
  - (* trimmed on both sides *)
    change (cview_trim_cols (cview_trim_left cv (wl - col)) (wr - wl)) with (cview_window cv (wl - col) (wr - wl)).
    apply Hwin; subst lo hi; lia.
  - (* trimmed on the left *)
    change (cview_trim_left cv (wl - col)) with (cview_window cv (wl - col) (ccols cv - (wl - col))).
    apply Hwin; subst lo hi; lia.
  - (* trimmed on the right *)
    assert (cview_trim_cols cv (wr - col) = cview_window cv 0 (wr - col)) as ->.
    { unfold cview_trim_cols, cview_window. f_equal. lia. }
    apply Hwin; subst lo hi; lia.
  - (* untouched *)
    split; [assumption|]. apply Hgen; [assumption|subst lo hi; lia|].
    rewrite <- (map_id (rows_of cv)) at 1. apply map_ext_in. intros X HX.
    pose proof (rows_of_width _ Hok) as Fw. pose proof (rows_of_clean _ Hok) as Fc. rewrite Forall_forall in Fw, Fc.
    replace (lo - col) with 0 by (subst lo; lia). replace (hi - col) with (zlen X) by (rewrite (Fw _ HX); subst hi; lia).
    symmetry. apply trim_cells_all. auto.
Qed.

Lemma ov_zero_iff wl wr col next : wl < wr -> col < next -> (ov wl wr col next = 0 <-> next <= wl \/ wr <= col).
Proof. unfold ov. lia. Qed.

Lemma sides_cvs_abs wl wr : wl < wr -> forall sb col,
  Forall entry_ok sb ->
  Forall cview_ok (trim_sides_cvs sb col wl wr) /\
  map abs_cv (trim_sides_cvs sb col wl wr) = fresh_of (clip_fb wl wr (map flag sb) col).
Proof.
  intros Hw. induction sb as [|[d cv] sb IH]; intros col F; cbn [trim_sides_cvs map clip_fb flag]; [split; [constructor|reflexivity]|].
  inversion F as [|? ? [[Hd1 Hd2] Hok] F']; subst. cbn [fst snd] in *. fold flag.
  destruct (cview_ok_pos _ Hok) as [Hc Hr].
  destruct (IH (col + ccols cv) F') as [I1 I2].
  destruct (negb (d =? 0) || (col + ccols cv <=? wl) || (wr <=? col)) eqn:E.
  - (* skipped *)
    split; [assumption|]. rewrite I2. destruct (d =? 0) eqn:Ed.
    + assert (ov wl wr col (col + ccols cv) = 0) as Eo by (apply ov_zero_iff; lia).
      unfold clip_acv. cbn [abs_e fst snd]. rewrite Eo. replace (0 <? 0) with false by lia. reflexivity.
    + destruct (clip_acv wl wr col (abs_e (d, cv))); reflexivity.
  - assert (d = 0) by lia. subst d. rewrite abs_e_0.
    assert (0 < ov wl wr col (col + ccols cv)) as Hov.
    { pose proof (ov_nonneg wl wr col (col + ccols cv)). destruct (Z.eq_dec (ov wl wr col (col + ccols cv)) 0) as [E0|]; [|lia].
      apply ov_zero_iff in E0; lia. }
    destruct (sides_entry wl wr cv col Hok Hw Hov) as [Ok2 Ec2]. cbn zeta in Ok2, Ec2.
    rewrite Ec2. replace (0 =? 0) with true by lia. split; [constructor; assumption|].
    cbn [map]. change (fresh_of ((true, ?a) :: ?l)) with (a :: fresh_of l). unfold fresh_of at 1. cbn [filter fst map snd].
    fold (fresh_of (clip_fb wl wr (map flag sb) (col + ccols cv))). now rewrite I2.
Qed.

Lemma usides_abs w wl wr : wl < wr -> forall ss tail sl,
  tail_ok tail -> tail_pos tail -> fsl_equiv sl (slots_of_tail tail) -> wf_fromb w ss tail = true ->
  exists u, usides wl wr ss tail = Ok u /\ shards_ok u /\ map abs_sh u = aclip wl wr (map abs_sh ss) sl.
Proof.
  intros Hw. induction ss as [|[n cvs] ss IH]; intros tail sl T P E H.
  - exists []. repeat split; constructor.
  - destruct (wf_step _ _ _ _ _ _ T (fsl_equiv_sl _ _ E) H) as (sb & Eb & Hn & Fc & Fe & Fn & Hbw & Hr & T' & E' & Ef).
    cbn [usides]. rewrite Eb.
    assert (fsl_equiv (slots_after n (map abs_e sb)) (slots_of_tail (stail n sb))) as E''.
    { intros C g. unfold stail, shard_body_tail. rewrite ftail_abs by (try assumption; lia). f_equal. lia. }
    destruct (IH (stail n sb) (slots_after n (map abs_e sb)) T' (stail_pos _ _ Hn Fe) E'' Hr) as (u & -> & Su & Eu).
    eexists; split; [reflexivity|]. destruct (sides_cvs_abs wl wr Hw sb 0 Fe) as [S1 S2].
    split; [constructor; assumption|].
    cbn [map abs_sh fst snd aclip]. rewrite E, (ffill_abs _ _ P), Eb. cbn [rmap].
    assert (body_of (map flag sb) = map abs_e sb) as Ebo by (unfold body_of, flag; rewrite map_map; reflexivity).
    rewrite Ebo, Eu. unfold abs_sh at 1. cbn [fst snd]. now rewrite S2.
Qed.

(* ------------------------------------------------------------------ shards_trim_sides *)
Lemma cmerge_go_ok : forall rest cur, shards_ok (cur :: rest) -> shards_ok (cmerge_go cur rest) /\ cmerge_go cur rest <> [].
Proof.
  induction rest as [|[n cvs] rest IH]; intros [pn pcvs] S; cbn [cmerge_go]; [split; [assumption|discriminate]|].
  inversion S as [|? ? S1 S2]; subst. inversion S2 as [|? ? S3 S4]; subst. destruct cvs as [|cv cvs].
  - apply IH. constructor; assumption.
  - destruct (IH (n, cv :: cvs)) as [I1 I2]; [constructor; assumption|]. split; [constructor; assumption|discriminate].
Qed.

Lemma fsl_equiv_nil_free w : fsl_equiv [] [Free w].
Proof. intros C g. reflexivity. Qed.

Theorem trim_sides_shards s l c g :
  WF s -> content s = Ok g -> 0 <= l -> 0 < c -> l + c <= shards_cols s ->
  exists s', shards_trim_sides s l c = Ok s' /\ WF s' /\
             content s' = Ok (map (fun R : row => trim_cells R l (l + c)) g) /\ shards_cols s' = c.
Proof.
  intros W C Hl Hc Hlc. destruct (WF_elim _ W) as (Hw & S & A & C'). rewrite C' in C. injection C as <-.
  set (w := shards_cols s) in *. set (wr := l + c).
  assert (wf_fromb w s [] = true) as Hwf by (unfold WF, wfb in W; apply andb_prop in W as [_ W]; exact W).
  destruct (usides_abs w l wr ltac:(subst wr; lia) s [] [] tail_ok_nil ltac:(constructor) ltac:(intros C0 g0; reflexivity) Hwf) as (u0 & Eu0 & Su0 & Au0).
  destruct s as [|[n cvs] ss]; [cbn in Hw; lia|].
  cbn [usides] in Eu0. destruct (sbody cvs []) as [sb|e] eqn:Eb; [|discriminate].
  destruct (usides l wr ss (stail n sb)) as [u|e] eqn:Eu; [|discriminate]. injection Eu0 as <-.
  set (new := trim_sides_cvs sb 0 l wr) in *.
  (* the abstract side *)
  pose proof (AWF_equiv _ _ _ _ (sl_equiv_nil_free w) A) as A1.
  rewrite (aclip_equiv l wr _ _ _ (fsl_equiv_nil_free w)) in Au0.
  destruct (aclip_correct w l wr Hl ltac:(subst wr; lia) ltac:(subst wr; lia) _ _ A1 (SWF_free w ltac:(lia))) as [A2 C2].
  assert (clip_sl l wr [Free w] 0 = [Free c]) as Ecl.
  { cbn [clip_sl]. assert (ov l wr 0 (0 + w) = c) as -> by (unfold ov; subst wr; lia). destruct (0 <? c) eqn:E; [reflexivity|lia]. }
  rewrite Ecl, <- Au0 in A2, C2. replace (wr - l) with c in A2 by (subst wr; lia).
  change (map abs_sh ((n, new) :: u)) with ((n, map abs_cv new) :: map abs_sh u) in A2, C2.
  assert (new <> []) as Hnew.
  { intros En. rewrite En in A2. cbn [map] in A2.
    destruct (AWF_step _ _ _ _ _ A2 (SWF_free c ltac:(lia))) as (fb & F & Efr & _).
    destruct (Fit_no_fresh _ _ _ F Efr) as [_ (l0 & El0 & _)].
    - intros w' [[= <-]|[]]. lia.
    - destruct l0; discriminate. }
  destruct (merge_correct c _ _ _ A2 (SWF_free c ltac:(lia))) as [A3 C3].
  assert (shards_trim_sides ((n, cvs) :: ss) l c = Ok (cmerge_go (n, new) u)) as Eres.
  { unfold shards_trim_sides. destruct (l <? 0) eqn:E1; [lia|]. destruct (c <=? 0) eqn:E2; [lia|].
    cbn [trim_sides_go]. fold wr. rewrite Eb. fold new. destruct new as [|cv0 new0] eqn:En; [congruence|].
    rewrite trim_sides_go_eq, Eu. reflexivity. }
  exists (cmerge_go (n, new) u). split; [exact Eres|].
  destruct (cmerge_go_ok u (n, new) Su0) as [Sm Nm].
  change (n, map abs_cv new) with (abs_sh (n, new)) in A3, C3. rewrite <- abs_cmerge_go in A3, C3.
  assert (sl_equiv [Free c] []) as Eq by (intros C0 g0; reflexivity).
  destruct (WF_intro c _ Hc Nm Sm (AWF_equiv _ _ _ _ Eq A3)) as [W' Ec']. split; [assumption|]. split; [|assumption].
  destruct (WF_elim _ W') as (_ & _ & _ & C''). rewrite C''. f_equal.
  rewrite <- (acontent_equiv _ _ _ Eq). etransitivity; [exact C3|]. etransitivity; [exact C2|].
  f_equal.
Qed.
