(* C13 - proofs about the ZMQEventLoop model (Model/ZmqLoop.v).  The first part (the public
   alarm / idle methods preserve the invariant) repeats the select-loop proofs for the weaker
   event contract zev_ok; the second part follows ZMQEventLoop._loop. *)
From Coq Require Import ZArith List Bool Lia Sorted.
Import ListNotations.
From Urwid Require Import PyBase SelectLoop ZmqLoop SelectLoopFacts SelectLoopSpec SelectLoopProofs ZmqLoopSpec.
Open Scope Z_scope.
Arguments Z.add : simpl never.
Arguments Z.sub : simpl never.
Arguments Z.ltb : simpl never.
Arguments Z.leb : simpl never.
Arguments Z.eqb : simpl never.
Arguments Z.min : simpl never.
Arguments Z.max : simpl never.

Definition zw_irrel (e : event) : bool :=
  match e with EWatchSet _ _ | ERmWatch _ _ => false | _ => true end.
Lemma zwatched_irrel : forall e tr fd, zw_irrel e = true -> zwatched fd (e :: tr) = zwatched fd tr.
Proof. intros e tr fd H; destruct e; try reflexivity; discriminate. Qed.

Record ZWInv (w : list (Z * Z)) (tr : list event) : Prop := {
  zw_keys : NoDup (map fst w);
  zw_look : forall fd, lookup fd w = zwatched fd tr
}.
Record ZInv (s : state) : Prop := {
  zinv_a : AInv (alarms s) (tie s) (rtrace s);
  zinv_w : ZWInv (watch s) (rtrace s);
  zinv_i : IInv (idles s) (idle_handle s) (rtrace s);
  zinv_h : hist_ok zev_ok (rtrace s)
}.
Lemma ZWInv_irrel : forall e w tr, zw_irrel e = true -> ZWInv w tr -> ZWInv w (e :: tr).
Proof. intros e w tr He [K L]. constructor; auto. intros. rewrite zwatched_irrel by assumption. apply L. Qed.

(* ---------- consequences of the history contract ---------- *)
Lemma zhist_called_set : forall tr k, hist_ok zev_ok tr -> acalled k tr -> exists d i, aset k d i tr.
Proof.
  induction tr as [|e r IH]; intros k H [id [t X]]; [destruct X|].
  destruct H as [He Hr]. destruct X as [X|X].
  - subst. cbn in He. destruct He as [due [[P _] _]]. exists due, id. now right.
  - destruct (IH k Hr) as [d [i Y]]; [now exists id, t|]. exists d, i. now right.
Qed.
Lemma zhist_removed_set : forall tr k, hist_ok zev_ok tr -> aremoved k tr -> exists d i, aset k d i tr.
Proof.
  induction tr as [|e r IH]; intros k H X; [destruct X|].
  destruct H as [He Hr]. destruct X as [X|X].
  - subst. cbn in He. destruct He as [He _]. destruct (He eq_refl) as [d [i [P _]]]. exists d, i. now right.
  - destruct (IH k Hr X) as [d [i Y]]. exists d, i. now right.
Qed.
Lemma zhist_aset_unique : forall tr k d i d' i', hist_ok zev_ok tr -> aset k d i tr -> aset k d' i' tr -> d = d' /\ i = i'.
Proof.
  induction tr as [|e r IH]; intros k d i d' i' H X Y; [destruct X|].
  destruct H as [He Hr]. destruct X as [X|X]; destruct Y as [Y|Y].
  - subst. inversion Y. auto.
  - subst. cbn in He. exfalso. eapply He; eauto.
  - subst. cbn in He. exfalso. eapply He; eauto.
  - eauto.
Qed.
Lemma zhist_iset_unique : forall tr h i i', hist_ok zev_ok tr -> iset h i tr -> iset h i' tr -> i = i'.
Proof.
  induction tr as [|e r IH]; intros h i i' H X Y; [destruct X|].
  destruct H as [He Hr]. destruct X as [X|X]; destruct Y as [Y|Y].
  - subst. now inversion Y.
  - subst. cbn in He. exfalso. eapply He; eauto.
  - subst. cbn in He. exfalso. eapply He; eauto.
  - eauto.
Qed.

(* ---------- each public method preserves the invariant ---------- *)


Lemma zInv_alarm : forall dt id s, ZInv s -> ZInv (op_alarm dt id s).
Proof.
  intros dt id s [[S T P F] W I H]. unfold op_alarm.
  assert (Hnew : forall d i, ~ aset (tie s) d i (rtrace s)) by (intros d i X; apply F in X; lia).
  assert (Hnc : ~ acalled (tie s) (rtrace s)).
  { intros X. destruct (zhist_called_set _ _ H X) as [d [i Y]]. eapply Hnew; eauto. }
  assert (Hnr : ~ aremoved (tie s) (rtrace s)).
  { intros X. destruct (zhist_removed_set _ _ H X) as [d [i Y]]. eapply Hnew; eauto. }
  assert (Hties : forall b, In b (alarms s) -> a_tie b <> tie s).
  { intros b Hb E. rewrite (alarm_eta b) in Hb. apply P in Hb. destruct Hb as [X _]. rewrite E in X. eapply Hnew; eauto. }
  constructor; cbn.
  - constructor.
    + apply sorted_heap_insert; auto.
    + apply nodup_ties_insert; auto.
    + intros d k i. rewrite in_heap_insert. unfold pending, aset, acalled, aremoved in *. cbn. split.
      * intros [X|X].
        -- inversion X; subst. split; [now left|]. split.
           ++ intros [id' [t [Y|Y]]]; [discriminate|]. apply Hnc. now exists id', t.
           ++ intros [Y|Y]; [discriminate|]. auto.
        -- apply P in X. destruct X as [X1 [X2 X3]]. split; [now right|]. split.
           ++ intros [id' [t [Y|Y]]]; [discriminate|]. apply X2. now exists id', t.
           ++ intros [Y|Y]; [discriminate|]. auto.
      * intros [[X|X] [X2 X3]].
        -- inversion X; subst. now left.
        -- right. apply P. split; [exact X|]. split.
           ++ intros [id' [t Y]]. apply X2. exists id', t. now right.
           ++ intros Y. apply X3. now right.
    + intros k d i [X|X]; [inversion X; lia|]. apply F in X. lia.
  - apply ZWInv_irrel; auto.
  - apply IInv_irrel; auto.
  - split; [|exact H]. cbn. exact Hnew.
Qed.

Lemma zInv_remove_alarm : forall k s, ZInv s -> ZInv (op_remove_alarm k s).
Proof.
  intros k s [[S T P F] W I H]. unfold op_remove_alarm.
  destruct (has_tie k (alarms s)) eqn:E.
  - assert (Hp : exists d i, pending k d i (rtrace s)).
    { apply has_tie_true in E. destruct E as [a [Ha Hk]]. rewrite (alarm_eta a) in Ha. apply P in Ha.
      rewrite Hk in Ha. eauto. }
    constructor; cbn.
    + constructor.
      * now apply sorted_remove_tie.
      * now apply nodup_ties_remove.
      * intros d k' i. rewrite in_remove_tie by assumption. cbn [a_tie]. rewrite P.
        unfold pending, aset, acalled, aremoved. cbn. split.
        -- intros [[X1 [X2 X3]] Hn]. split; [now right|]. split.
           ++ intros [id' [t [Y|Y]]]; [discriminate|]. apply X2. now exists id', t.
           ++ intros [Y|Y]; [inversion Y; congruence|auto].
        -- intros [[X|X] [X2 X3]]; [discriminate|]. split; [split; [exact X|split]|].
           ++ intros [id' [t Y]]. apply X2. exists id', t. now right.
           ++ intros Y. apply X3. now right.
           ++ intros ->. apply X3. now left.
      * intros k' d i [X|X]; [discriminate|]. eauto.
    + apply ZWInv_irrel; auto.
    + apply IInv_irrel; auto.
    + split; [|exact H]. cbn. split; auto.
  - constructor; cbn; auto.
    + apply AInv_irrel; auto. constructor; auto.
    + apply ZWInv_irrel; auto.
    + apply IInv_irrel; auto.
    + split; [|exact H]. cbn. split; [discriminate|]. intros [d [i Hp]]. exfalso.
      apply P in Hp. assert (has_tie k (alarms s) = true) by (apply has_tie_true; eexists; split; [exact Hp|reflexivity]).
      congruence.
Qed.





Lemma zInv_idle : forall id s, ZInv s -> ZInv (op_idle id s).
Proof.
  intros id s [A W [K I F] H]. unfold op_idle.
  assert (Hnew : forall i, ~ iset (idle_handle s + 1) i (rtrace s)) by (intros i X; apply F in X; lia).
  constructor; cbn.
  - apply AInv_irrel; auto.
  - apply ZWInv_irrel; auto.
  - constructor.
    + rewrite map_app. cbn. apply nodup_snoc; auto. intros X. apply in_map_iff in X.
      destruct X as [[h v] [X1 X2]]. cbn in X1; subst. apply I in X2. destruct X2 as [X2 _]. eapply Hnew; eauto.
    + intros h i. rewrite in_app_iff. unfold iset, iremoved. cbn. split.
      * intros [X|[X|[]]].
        -- apply I in X. destruct X as [X1 X2]. split; [now right|]. intros [Y|Y]; [discriminate|auto].
        -- inversion X; subst. split; [now left|]. intros [Y|Y]; [discriminate|].
           (* a removed handle was set before *)
           clear - H Hnew Y. induction (rtrace s) as [|e r IH]; [destruct Y|].
           destruct H as [He Hr]. destruct Y as [Y|Y].
           ++ subst. cbn in He. destruct He as [He _]. destruct (He eq_refl) as [[i' X] _]. eapply Hnew. right. exact X.
           ++ apply IH; auto. intros i' X. eapply Hnew. right. exact X.
      * intros [[X|X] Y].
        -- inversion X; subst. right. now left.
        -- left. apply I. split; [exact X|]. intros Z. apply Y. now right.
    + intros h i [X|X]; [inversion X; lia|]. apply F in X. lia.
  - split; [|exact H]. cbn. exact Hnew.
Qed.

Lemma zInv_remove_idle : forall h s, ZInv s -> ZInv (op_remove_idle h s).
Proof.
  intros h s [A W [K I F] H]. unfold op_remove_idle. destruct (mem h (idles s)) eqn:E.
  - apply mem_true in E. destruct E as [v E]. apply lookup_in in E.
    constructor; cbn.
    + apply AInv_irrel; auto.
    + apply ZWInv_irrel; auto.
    + constructor.
      * now apply keys_dict_del.
      * intros h' i. rewrite in_dict_del by assumption. rewrite I. unfold iset, iremoved. cbn. split.
        -- intros [[X1 X2] Hn]. split; [now right|]. intros [Y|Y]; [inversion Y; congruence|auto].
        -- intros [[X|X] Y]; [discriminate|]. split; [split; [exact X|]|].
           ++ intros Z. apply Y. now right.
           ++ intros ->. apply Y. now left.
      * intros h' i [X|X]; [discriminate|]. eauto.
    + split; [|exact H]. cbn. split; auto. intros _. apply I in E. destruct E; split; eauto.
  - apply mem_false in E. constructor; cbn.
    + apply AInv_irrel; auto.
    + apply ZWInv_irrel; auto.
    + apply IInv_irrel; auto. constructor; auto.
    + split; [|exact H]. cbn. split; [discriminate|]. intros [[i X] Y]. exfalso.
      eapply lookup_none_notin; [exact E|]. apply I. split; eauto.
Qed.

Lemma zInv_set_now : forall v s, ZInv s -> ZInv (set_now v s).
Proof. intros v s [A W I H]. constructor; auto. Qed.
Lemma zInv_set_did : forall v s, ZInv s -> ZInv (set_did v s).
Proof. intros v s [A W I H]. constructor; auto. Qed.

(* logging an event that touches no part of the state *)
Lemma zInv_log : forall e s, a_irrel e = true -> zw_irrel e = true -> i_irrel e = true ->
  zev_ok e (rtrace s) -> ZInv s -> ZInv (log e s).
Proof.
  intros e s Ha Hw Hi He [A W I H]. constructor; cbn.
  - now apply AInv_irrel. - now apply ZWInv_irrel. - now apply IInv_irrel. - split; assumption.
Qed.





(* ---------- the watch methods of ZMQEventLoop ---------- *)
Lemma zInv_watch : forall fd id s, ZInv s -> ZInv (op_watch fd id s).
Proof.
  intros fd id s [A [K L] I H]. unfold op_watch. constructor; cbn.
  - apply AInv_irrel; auto.
  - constructor.
    + now apply keys_dict_set.
    + intros fd'. rewrite lookup_dict_set. cbn. destruct (fd =? fd'); auto.
  - apply IInv_irrel; auto.
  - split; [exact Logic.I|exact H].
Qed.

Lemma zInv_pop_watch : forall fd ok s, ZInv s -> ZInv (log (ERmWatch fd ok) (set_watch (dict_del fd (watch s)) s)).
Proof.
  intros fd ok s [A [K L] I H]. constructor; cbn.
  - apply AInv_irrel; auto.
  - constructor.
    + now apply keys_dict_del.
    + intros fd'. rewrite lookup_dict_del by assumption. cbn. destruct (fd =? fd'); auto.
  - apply IInv_irrel; auto.
  - split; [exact Logic.I|exact H].
Qed.

Lemma zInv_exec_inner : forall a s s' sig, ZInv s ->
  (match a with AddWatch _ _ | RemoveWatch _ => False | _ => True end) ->
  exec_action a s = (s', sig) -> ZInv s'.
Proof.
  intros a s s' sig H Ha E. destruct a; cbn in E; inversion E; subst; clear E; auto; try contradiction.
  - now apply zInv_alarm. - now apply zInv_remove_alarm.
  - now apply zInv_idle. - now apply zInv_remove_idle. - now apply zInv_set_now.
  - apply zInv_log; auto; exact Logic.I.
  - apply zInv_log; auto; exact Logic.I.
Qed.

(* history growth, on the inner state *)
Definition zext (P : event -> bool) (z z' : zstate) : Prop := ext P (zs z) (zs z').

Lemma zstep_exec_action : forall a z z' sig, ZInv (zs z) -> zexec_action a z = (z', sig) ->
  ZInv (zs z') /\ ext p_act (zs z) (zs z') /\ did (zs z') = did (zs z).
Proof.
  intros a z z' sig H E. unfold zexec_action in E.
  assert (G : forall a0, (match a0 with AddWatch _ _ | RemoveWatch _ => False | _ => True end) ->
              (let '(s', sg) := exec_action a0 (zs z) in (with_zs s' z, sg)) = (z', sig) ->
              ZInv (zs z') /\ ext p_act (zs z) (zs z') /\ did (zs z') = did (zs z)).
  { intros a0 Ha E0. destruct (exec_action a0 (zs z)) as [s' sg] eqn:Ex. inversion E0; subst; clear E0. cbn.
    destruct (ext_exec_action _ _ _ _ Ex) as [X D].
    split; [eapply zInv_exec_inner; [exact H|exact Ha|exact Ex]|split; assumption]. }
  destruct a; try (match type of E with context [exec_action ?a0 _] => exact (G a0 Logic.I E) end).
  - (* AddWatch *) inversion E; subst; clear E. cbn. split; [now apply zInv_watch|split; [|reflexivity]].
    apply ext_log'; reflexivity.
  - (* RemoveWatch *) inversion E; subst; clear E. cbn. split; [now apply zInv_pop_watch|split; [|reflexivity]].
    apply ext_log'; reflexivity.
Qed.

Lemma zstep_run_actions : forall acts z z' sig, ZInv (zs z) -> zrun_actions acts z = (z', sig) ->
  ZInv (zs z') /\ ext p_act (zs z) (zs z') /\ did (zs z') = did (zs z).
Proof.
  induction acts as [|a r IH]; cbn; intros z z' sig H E.
  - inversion E; subst. split; [exact H|split; [apply ext_refl|reflexivity]].
  - destruct (zexec_action a z) as [z1 sg] eqn:E1. destruct (zstep_exec_action _ _ _ _ H E1) as [H1 [X1 D1]].
    destruct sg; [|inversion E; subst; auto|inversion E; subst; auto].
    destruct (IH _ _ _ H1 E) as [H2 [X2 D2]]. split; [exact H2|split; [eapply ext_trans; eauto|congruence]].
Qed.

Lemma zstep_run_cb : forall beh e id z z' sig, ZInv (log e (zs z)) -> zrun_cb beh e id z = (z', sig) ->
  ZInv (zs z') /\
  exists m, rtrace (zs z') = m ++ e :: rtrace (zs z) /\ (forall x, In x m -> p_act x = true) /\ did (zs z') = did (zs z).
Proof.
  intros beh e id z z' sig H E. unfold zrun_cb in E.
  destruct (zstep_run_actions _ (with_zs (log e (zs z)) z) _ _ H E) as [H' [[m [Em Hm]] D]]. split; [exact H'|].
  exists m. cbn in Em, D. auto.
Qed.

Lemma zstep_run_cb' : forall (P : event -> bool) beh e id z z' sig,
  P e = true -> (forall x, p_act x = true -> P x = true) ->
  ZInv (log e (zs z)) -> zrun_cb beh e id z = (z', sig) ->
  ZInv (zs z') /\
  exists n, rtrace (zs z') = n ++ rtrace (zs z) /\ (forall x, In x n -> P x = true) /\ In e n /\ did (zs z') = did (zs z).
Proof.
  intros P beh e id z z' sig He HP H E. destruct (zstep_run_cb _ _ _ _ _ _ H E) as [H' [m [Em [Hm D]]]].
  split; [exact H'|]. exists (m ++ [e]). split; [|split; [|split]].
  - rewrite Em. now rewrite <- app_assoc.
  - intros x X. apply in_app_iff in X. destruct X as [X|[<-|[]]]; auto.
  - apply in_app_iff. right. now left.
  - exact D.
Qed.

(* ---------- ZMQEventLoop._entering_idle ---------- *)
Lemma zidle_round_spec : forall beh snap z z' sig,
  ZInv (zs z) -> (forall h id, In (h, id) snap -> iset h id (rtrace (zs z))) ->
  zidle_round beh snap z = (z', sig) ->
  ZInv (zs z') /\ did (zs z') = did (zs z) /\
  exists new, rtrace (zs z') = new ++ rtrace (zs z) /\ (forall e, In e new -> p_idle e = true) /\
    (sig = SCont -> forall h id, In (h, id) snap -> ~ iremoved h (rtrace (zs z')) -> exists t, In (EIdleCall h id t) new).
Proof.
  induction snap as [|[h id] r IH]; intros z z' sig HI Hset E; cbn in E.
  - inversion E; subst. split; [auto|split; [reflexivity|]]. exists []. split; [reflexivity|split; [intros e []|]].
    intros _ h id [].
  - destruct (mem h (idles (zs z))) eqn:M.
    + destruct (zrun_cb beh (EIdleCall h id (now (zs z))) id z) as [z1 sg] eqn:C.
      assert (Hin : In (h, id) (idles (zs z))).
      { destruct HI as [_ _ [K I F] Hh]. apply mem_true in M. destruct M as [v M]. apply lookup_in in M.
        pose proof (proj1 (I _ _) M) as [Y _]. assert (v = id) by (eapply zhist_iset_unique; eauto; apply Hset; now left).
        now subst. }
      assert (HI0 : ZInv (log (EIdleCall h id (now (zs z))) (zs z))).
      { apply zInv_log; auto. cbn. destruct HI as [_ _ [K I F] _]. now apply I. }
      destruct (zstep_run_cb' p_idle _ _ _ _ _ _ (eq_refl : p_idle (EIdleCall h id (now (zs z))) = true) p_act_idle HI0 C)
        as [HI1 [n1 [E1 [P1 [In1 D1]]]]].
      destruct sg.
      * destruct (IH z1 z' sig HI1) as [HI' [D' [n2 [E2 [P2 C2]]]]]; auto.
        { intros h' id' X. unfold iset. rewrite E1. apply in_app_iff. right. apply Hset. now right. }
        split; [auto|split; [congruence|]]. exists (n2 ++ n1). split; [|split].
        -- rewrite E2, E1. now rewrite app_assoc.
        -- intros e X. apply in_app_iff in X. destruct X; auto.
        -- intros Hs h' id' [X|X] Hr.
           ++ inversion X; subst. exists (now (zs z)). apply in_app_iff. now right.
           ++ destruct (C2 Hs h' id' X Hr) as [t Y]. exists t. apply in_app_iff. now left.
      * inversion E; subst. split; [auto|split; [auto|]]. exists n1. split; [auto|split; [auto|discriminate]].
      * inversion E; subst. split; [auto|split; [auto|]]. exists n1. split; [auto|split; [auto|discriminate]].
    + destruct (IH z z' sig HI) as [HI' [D' [n2 [E2 [P2 C2]]]]]; auto.
      { intros; apply Hset; now right. }
      split; [auto|split; [auto|]]. exists n2. split; [auto|split; [auto|]].
      intros Hs h' id' [X|X] Hr; [|eauto]. inversion X; subst. exfalso.
      apply mem_false in M. eapply lookup_none_notin; [exact M|]. destruct HI as [_ _ [K I F] _]. apply I. split.
      * apply Hset. now left.
      * intros Y. apply Hr. unfold iremoved. rewrite E2. apply in_app_iff. now right.
Qed.

(* ---------- the ready batch of ZMQEventLoop._loop ---------- *)
Definition zhandled (fd : Z) (tr : list event) : Prop :=
  (exists id t, In (EWatchCall fd id t) (last_batch tr)) \/
  (exists ok, In (ERmWatch fd ok) (last_batch tr)) \/
  zwatched fd (before_select tr) = None.

Lemma zhandled_app : forall fd n tr, (forall e, In e n -> p_nosel e = true) -> zhandled fd tr -> zhandled fd (n ++ tr).
Proof.
  intros fd n tr Hn H. destruct (nosel_app n tr Hn) as [_ [B C]]. unfold zhandled. rewrite B, C.
  destruct H as [[id [t H]]|[[ok H]|H]].
  - left. exists id, t. apply in_app_iff. now right.
  - right; left. exists ok. apply in_app_iff. now right.
  - right; right. exact H.
Qed.

Lemma zwatched_lost : forall b r fd, zwatched fd (b ++ r) = None -> zwatched fd r <> None -> exists ok, In (ERmWatch fd ok) b.
Proof.
  induction b as [|e b IH]; cbn; intros r fd H Hn; [contradiction|].
  assert (G : (exists ok, In (ERmWatch fd ok) b) -> exists ok, e = ERmWatch fd ok \/ In (ERmWatch fd ok) b)
    by (intros [ok X]; exists ok; now right).
  destruct e; try (apply G; eapply IH; eauto; fail).
  - destruct (fd0 =? fd); [discriminate|]. apply G; eapply IH; eauto.
  - destruct (fd0 =? fd) eqn:E.
    + apply Z.eqb_eq in E; subst. exists ok. now left.
    + apply G; eapply IH; eauto.
Qed.

Lemma in_dedupe : forall l x, In x (dedupe l) <-> In x l.
Proof.
  induction l as [|a r IH]; intros x; cbn; [tauto|].
  rewrite filter_In, IH. split.
  - intros [H|[H _]]; auto.
  - intros [H|H]; [now left|]. destruct (Z.eq_dec a x) as [->|Hn]; [now left|].
    right. split; [exact H|]. apply negb_true_iff. apply Z.eqb_neq. congruence.
Qed.

Lemma zprocess_ready_spec : forall beh ready z z' sig to regs t rdy,
  ZInv (zs z) -> last_select (rtrace (zs z)) = Some (to, regs, t, rdy) ->
  (forall fd, In fd ready -> In fd rdy) ->
  zprocess_ready beh ready z = (z', sig) ->
  ZInv (zs z') /\
  exists new, rtrace (zs z') = new ++ rtrace (zs z) /\ (forall e, In e new -> p_watch e = true) /\
    (sig = SCont -> (did (zs z') = true \/ (new = [] /\ did (zs z') = did (zs z))) /\
       forall fd, In fd ready -> zhandled fd (rtrace (zs z'))).
Proof.
  induction ready as [|fd r IH]; intros z z' sig to regs t rdy HI LS Hr E; cbn in E.
  - inversion E; subst. split; [auto|]. exists []. split; [reflexivity|split; [intros e []|]]. intros _.
    split; [now right|intros fd []].
  - destruct (lookup fd (watch (zs z))) as [id|] eqn:Lk.
    + destruct (zrun_cb beh (EWatchCall fd id (now (zs z))) id z) as [z1 sg] eqn:C.
      assert (HI0 : ZInv (log (EWatchCall fd id (now (zs z))) (zs z))).
      { apply zInv_log; auto. cbn. split.
        - destruct HI as [_ [K L] _ _]. now rewrite <- L.
        - unfold zready_in. rewrite LS. apply Hr. now left. }
      destruct (zstep_run_cb' p_watch _ _ _ _ _ _ (eq_refl : p_watch (EWatchCall fd id (now (zs z))) = true) p_act_watch HI0 C)
        as [HI1 [n1 [E1 [P1 [In1 D1]]]]].
      assert (N1 : forall e, In e n1 -> p_nosel e = true) by (intros; apply p_watch_nosel; auto).
      destruct (nosel_app n1 (rtrace (zs z)) N1) as [A1 [B1 C1]].
      destruct sg.
      * destruct (IH (with_zs (set_did true (zs z1)) z1) z' sig to regs t rdy) as [HI' [n2 [E2 [P2 C2]]]]; auto.
        { cbn. now apply zInv_set_did. }
        { cbn. rewrite E1, A1. exact LS. }
        { intros; apply Hr; now right. }
        cbn in E2. split; [auto|]. exists (n2 ++ n1). split; [|split].
        -- rewrite E2, E1. now rewrite app_assoc.
        -- intros e X. apply in_app_iff in X. destruct X; auto.
        -- intros Hs. destruct (C2 Hs) as [D2 H2]. split.
           ++ left. destruct D2 as [D2|[_ D2]]; [exact D2|]. rewrite D2. reflexivity.
           ++ intros fd' [X|X]; [|auto]. subst fd'. rewrite E2.
              apply zhandled_app; [intros; apply p_watch_nosel; auto|].
              left. rewrite E1, C1. exists id, (now (zs z)). apply in_app_iff. now left.
      * inversion E; subst. split; [auto|]. exists n1. split; [auto|split; [auto|discriminate]].
      * inversion E; subst. split; [auto|]. exists n1. split; [auto|split; [auto|discriminate]].
    + destruct (IH z z' sig to regs t rdy) as [HI' [n2 [E2 [P2 C2]]]]; auto.
      { intros; apply Hr; now right. }
      split; [auto|]. exists n2. split; [auto|split; [auto|]].
      intros Hs. destruct (C2 Hs) as [D2 H2]. split; [exact D2|].
      intros fd' [X|X]; [|auto]. subst fd'. rewrite E2.
      apply zhandled_app; [intros; apply p_watch_nosel; auto|].
      (* no callback now: either there was none at the poll, or it was removed in this batch *)
      destruct HI as [_ [K L] _ _]. rewrite L in Lk.
      pose proof (split_at_select _ _ _ _ _ LS) as Sp.
      destruct (zwatched fd (before_select (rtrace (zs z)))) eqn:W0; [|right; right; exact W0].
      right; left. rewrite Sp in Lk.
      change (last_batch (rtrace (zs z)) ++ ESelect to regs t rdy :: before_select (rtrace (zs z)))
        with (last_batch (rtrace (zs z)) ++ [ESelect to regs t rdy] ++ before_select (rtrace (zs z))) in Lk.
      rewrite app_assoc in Lk. apply zwatched_lost in Lk; [|rewrite W0; discriminate].
      destruct Lk as [ok M]. exists ok. apply in_app_iff in M. destruct M as [M|[M|[]]]; [exact M|discriminate].
Qed.

(* ---------- popping the earliest alarm ---------- *)
Lemma zInv_alarm_call : forall a rest s, ZInv s -> alarms s = a :: rest -> a_due a <= now s ->
  ZInv (log (EAlarmCall (a_tie a) (a_cb a) (now s)) (set_alarms rest s)).
Proof.
  intros a rest s [[S T P F] W I H] Ea Hdue. rewrite Ea in *.
  inversion S as [|? ? S' FA]; subst. inversion T as [|? ? Tn T']; subst.
  assert (Pa : pending (a_tie a) (a_due a) (a_cb a) (rtrace s)) by (apply P; left; apply alarm_eta).
  constructor; cbn.
  - constructor; auto.
    + intros d k i. unfold pending, aset, acalled, aremoved. cbn. split.
      * intros X. assert (k <> a_tie a).
        { intros ->. apply Tn. change (a_tie a) with (a_tie (mkAlarm d (a_tie a) i)). now apply in_map. }
        assert (Y : pending k d i (rtrace s)) by (apply P; now right). destruct Y as [Y1 [Y2 Y3]].
        split; [now right|]. split.
        -- intros [id' [t [Z|Z]]]; [inversion Z; congruence|]. apply Y2. now exists id', t.
        -- intros [Z|Z]; [discriminate|auto].
      * intros [[X|X] [X2 X3]]; [discriminate|].
        assert (Y : In (mkAlarm d k i) (a :: rest)).
        { apply P. split; [exact X|]. split.
          - intros [id' [t Z]]. apply X2. exists id', t. now right.
          - intros Z. apply X3. now right. }
        destruct Y as [Y|Y]; [|exact Y]. exfalso. apply X2. exists (a_cb a), (now s). left. subst a. reflexivity.
    + intros k d i [X|X]; [discriminate|eauto].
  - apply ZWInv_irrel; auto.
  - apply IInv_irrel; auto.
  - split; [|exact H]. cbn. exists (a_due a). split; [exact Pa|]. split; [exact Hdue|].
    intros k' d' i' Pk. apply P in Pk. destruct Pk as [<-|Pk].
    + apply alarm_lt_false. cbn. lia.
    + rewrite Forall_forall in FA. specialize (FA _ Pk). unfold alt in FA. apply alarm_lt_spec in FA.
      apply alarm_lt_false. cbn in *. lia.
Qed.

(* ---------- the part of ZMQEventLoop._loop before the poll ---------- *)
Lemma zplan_cases : forall z to tm, zplan z = Some (to, tm) ->
  (to = None /\ tm = TmNone /\ alarms (zs z) = [] /\ did (zs z) = false) \/
  (to = Some 0 /\ tm = TmIdle /\ did (zs z) = true) \/
  (exists a rest, alarms (zs z) = a :: rest /\ to = Some (Z.max 0 (a_due a - now (zs z))) /\ tm = TmAlarm /\
     (did (zs z) = false \/ Z.max 0 (a_due a - now (zs z)) = 0)).
Proof.
  intros z to tm. unfold zplan. destruct (alarms (zs z)) as [|a rest] eqn:Ea; destruct (did (zs z)) eqn:Ed; cbn.
  - intros H; inversion H; subst. right; left; auto.
  - destruct (psock z); intros H; inversion H; subst. left; auto.
  - destruct (0 <? Z.max 0 (a_due a - now (zs z))) eqn:El; intros H; inversion H; subst.
    + right; left; auto.
    + right; right. exists a, rest. repeat split; auto. right. apply Z.ltb_ge in El. lia.
  - intros H; inversion H; subst. right; right. exists a, rest. repeat split; auto.
Qed.

Definition ZLoopInv (s : state) : Prop :=
  ZInv s /\ zbatch_done (rtrace s) /\ (did s = false -> idle_done (rtrace s)).

Lemma zsel_ok_plan : forall z to tm, ZLoopInv (zs z) -> zplan z = Some (to, tm) -> zsel_ok to (now (zs z)) (rtrace (zs z)).
Proof.
  intros z to tm [[[S T P F] W I H] [BD ID]] Pl. unfold zsel_ok. split; [|split; [|exact BD]].
  - destruct (zplan_cases _ _ _ Pl) as [[-> [_ [Ea _]]]|[[-> _]|[a [rest [Ea [-> [_ _]]]]]]].
    + intros k d i X. apply P in X. rewrite Ea in X. destruct X.
    + split; lia.
    + split; [lia|]. intros Hpos k due i X. apply P in X. rewrite Ea in *. inversion S as [|? ? _ FA]; subst.
      destruct X as [Xa|X]; [subst a; cbn in *; lia|].
      rewrite Forall_forall in FA. specialize (FA _ X). unfold alt in FA. apply alarm_lt_spec in FA. cbn in FA. lia.
  - intros Q. apply ID.
    destruct (zplan_cases _ _ _ Pl) as [[-> [_ [_ Ed]]]|[[-> _]|[a [rest [_ [-> [_ [Ed|Ez]]]]]]]]; auto.
    + cbn in Q. lia.
    + cbn in Q. lia.
Qed.

(* ---------- the poll ---------- *)
Lemma zdo_select_spec : forall to st z z1 r, zdo_select to st z = (z1, r) ->
  exists rdy v,
    zs z1 = set_now v (log (ESelect to (map snd (psock z)) (now (zs z)) rdy) (zs z)) /\
    psock z1 = psock z /\
    match r with
    | None => to = None /\ rdy = []
    | Some rd => (rdy = [] -> rd = [] /\ exists t0, to = Some t0 /\ v = now (zs z) + t0 + Z.max 0 (s_dt st)) /\
                 (rd = [] -> rdy = []) /\ (forall fd, In fd rd <-> In fd rdy)
    end.
Proof.
  intros to st z z1 r E. unfold zdo_select in E.
  set (rdy := filter (fun fd => existsb (fun r0 => r0 =? fd) (map snd (psock z))) (s_fds st)) in *.
  exists rdy. destruct rdy as [|p ps] eqn:Ep; destruct to as [t0|]; inversion E; subst; clear E; cbn [zs psock].
  - eexists. split; [reflexivity|split; [reflexivity|]]. split; [intros _; split; [reflexivity|eauto]|split; [auto|tauto]].
  - exists (now (zs z)). split; [reflexivity|split; [reflexivity|auto]].
  - eexists. split; [reflexivity|split; [reflexivity|]]. split; [discriminate|split; [discriminate|intros fd; exact (in_dedupe (p :: ps) fd)]].
  - eexists. split; [reflexivity|split; [reflexivity|]]. split; [discriminate|split; [discriminate|intros fd; exact (in_dedupe (p :: ps) fd)]].
Qed.

Lemma zInv_select : forall z to tm rdy v, ZLoopInv (zs z) -> zplan z = Some (to, tm) ->
  ZInv (set_now v (log (ESelect to (map snd (psock z)) (now (zs z)) rdy) (zs z))).
Proof.
  intros z to tm rdy v L Pl. apply zInv_set_now. apply zInv_log; auto; [|apply L].
  cbn. eapply zsel_ok_plan; eauto.
Qed.

(* ---------- one iteration of ZMQEventLoop._loop ---------- *)
Lemma ziteration_spec : forall beh z st to tm z1 ready z2 sig,
  ZLoopInv (zs z) -> zplan z = Some (to, tm) ->
  zdo_select to st z = (z1, Some ready) ->
  zafter_select beh tm ready z1 = (z2, sig) ->
  ZInv (zs z2) /\ (sig = SCont -> ZLoopInv (zs z2)).
Proof.
  intros beh z st to tm z1 ready z2 sig L Pl Ds As.
  destruct (zdo_select_spec _ _ _ _ _ Ds) as [rdy [v [Es1 [Ps1 [Hv [Hr Hin]]]]]].
  pose proof (zInv_select z to tm rdy v L Pl) as HI1. rewrite <- Es1 in HI1.
  assert (Tr1 : rtrace (zs z1) = ESelect to (map snd (psock z)) (now (zs z)) rdy :: rtrace (zs z)) by (rewrite Es1; reflexivity).
  assert (Ls1 : last_select (rtrace (zs z1)) = Some (to, map snd (psock z), now (zs z), rdy)) by (rewrite Tr1; reflexivity).
  assert (Dd1 : did (zs z1) = did (zs z)) by (rewrite Es1; reflexivity).
  unfold zafter_select in As. destruct ready as [|p ps].
  - (* nothing readable *)
    assert (Er : rdy = []) by (now apply Hr). destruct (Hv Er) as [_ [t0 [-> Ev]]].
    assert (Hfin : forall s', (exists new, rtrace s' = new ++ rtrace (zs z1) /\ forall e, In e new -> p_nosel e = true) ->
                     zbatch_done (rtrace s')).
    { intros s' [new [En Hn]]. unfold zbatch_done. rewrite En. destruct (nosel_app new (rtrace (zs z1)) Hn) as [A _].
      rewrite A, Ls1, Er. intros fd []. }
    destruct tm.
    + (* TmNone *)
      cbn in As. inversion As; subst z2 sig. split; [exact HI1|]. intros _. split; [exact HI1|split].
      * apply Hfin. exists []. split; [reflexivity|intros e []].
      * rewrite Tr1, Dd1. intros D. apply idle_done_cons; [reflexivity|]. now apply L.
    + (* TmIdle *)
      destruct (zidle_round beh (idles (zs z1)) z1) as [z' sg] eqn:Ir.
      destruct (zidle_round_spec beh (idles (zs z1)) z1 z' sg HI1) as [HI' [Dd [new [En [Pn Cn]]]]]; auto.
      { intros h id X. destruct HI1 as [_ _ [K I F] _]. now apply I. }
      destruct sg.
      * cbn in As. inversion As; subst z2 sig. cbn. split; [now apply zInv_set_did|]. intros _.
        split; [now apply zInv_set_did|split].
        -- apply (Hfin (set_did false (zs z'))). exists new. split; [exact En|]. intros; apply p_idle_nosel; auto.
        -- intros _. cbn. rewrite En, Tr1.
           destruct (zplan_cases _ _ _ Pl) as [[_ [X _]]|[[X _]|[a [rest [_ [_ [X _]]]]]]]; try discriminate.
           inversion X; subst t0. subst rdy.
           exists new, (map snd (psock z)), (now (zs z)), (rtrace (zs z)). split; [reflexivity|split].
           ++ intros e X'. apply p_idle_not_aw. auto.
           ++ intros h id Hs Hrm. apply (Cn eq_refl).
              ** destruct HI1 as [_ _ [K I F] _]. apply I. rewrite Tr1. split; [now right|].
                 intros Y. apply Hrm. unfold iremoved in *. apply in_app_iff. right. exact Y.
              ** rewrite En, Tr1. exact Hrm.
      * cbn in As. inversion As; subst. split; [auto|discriminate].
      * cbn in As. inversion As; subst. split; [auto|discriminate].
    + (* TmAlarm *)
      destruct (zplan_cases _ _ _ Pl) as [[X _]|[[_ [X _]]|[a [rest [Ea [Et _]]]]]]; try discriminate.
      inversion Et; subst t0.
      assert (Ea1 : alarms (zs z1) = a :: rest) by (rewrite Es1; exact Ea).
      rewrite Ea1 in As.
      destruct (a_due a <=? now (zs z1)) eqn:Edue.
      * apply Z.leb_le in Edue.
        destruct (zrun_cb beh (EAlarmCall (a_tie a) (a_cb a) (now (zs z1))) (a_cb a) (with_zs (set_alarms rest (zs z1)) z1))
          as [z' sg] eqn:C.
        assert (HIc : ZInv (log (EAlarmCall (a_tie a) (a_cb a) (now (zs z1))) (set_alarms rest (zs z1)))).
        { apply zInv_alarm_call; auto. }
        destruct (zstep_run_cb _ _ _ (with_zs (set_alarms rest (zs z1)) z1) _ _ HIc C) as [HI' [m [Em [Hm _]]]].
        cbn in Em.
        destruct sg.
        -- cbn in As. inversion As; subst z2 sig. cbn. split; [now apply zInv_set_did|]. intros _.
           split; [now apply zInv_set_did|split; [|discriminate]].
           apply (Hfin (set_did true (zs z'))).
           exists (m ++ [EAlarmCall (a_tie a) (a_cb a) (now (zs z1))]). split.
           ++ cbn. rewrite Em. now rewrite <- app_assoc.
           ++ intros e X. apply in_app_iff in X. destruct X as [X|[<-|[]]]; [apply p_act_nosel; auto|reflexivity].
        -- cbn in As. inversion As; subst. split; [auto|discriminate].
        -- cbn in As. inversion As; subst. split; [auto|discriminate].
      * cbn in As. inversion As; subst z2 sig. split; [exact HI1|]. intros _. split; [exact HI1|split].
        -- apply Hfin. exists []. split; [reflexivity|intros e []].
        -- rewrite Tr1, Dd1. intros D. apply idle_done_cons; [reflexivity|]. now apply L.
  - (* a ready batch *)
    cbn in As.
    destruct (zprocess_ready_spec beh (p :: ps) z1 z2 sig _ _ _ _ HI1 Ls1) as [HI2 [new [En [Pn Cn]]]]; auto.
    { intros fd X. now apply Hin. }
    split; [exact HI2|]. intros Hs. destruct (Cn Hs) as [Dd Hh]. split; [exact HI2|split].
    + unfold zbatch_done.
      assert (A : last_select (rtrace (zs z2)) = Some (to, map snd (psock z), now (zs z), rdy)).
      { rewrite En. destruct (nosel_app new (rtrace (zs z1))) as [A _]; [intros; apply p_watch_nosel; auto|]. now rewrite A. }
      rewrite A. intros fd X. apply Hh. now apply Hin.
    + intros D. destruct Dd as [Dd|[Dn Dd]]; [congruence|]. subst new. cbn in En. rewrite En, Tr1.
      apply idle_done_cons; [reflexivity|]. apply L. congruence.
Qed.

(* ---------- ZMQEventLoop.run() : all iterations, any environment ---------- *)
Lemma zrun_loop_inv : forall beh env z z' o, ZLoopInv (zs z) -> zrun_loop beh env z = (z', o) -> ZInv (zs z').
Proof.
  induction env as [|st env IH]; intros z z' o L E; cbn in E.
  - destruct (zplan z) as [[to tm]|] eqn:Pl; inversion E; subst; [|apply L]. cbn.
    change (log (ESelect to (map snd (psock z)) (now (zs z)) []) (zs z))
      with (set_now (now (zs z)) (log (ESelect to (map snd (psock z)) (now (zs z)) []) (zs z))).
    eapply zInv_select; eauto.
  - destruct (zplan z) as [[to tm]|] eqn:Pl; [|inversion E; subst; apply L].
    destruct (zdo_select to st z) as [z1 [ready|]] eqn:Ds.
    + destruct (zafter_select beh tm ready z1) as [z2 sg] eqn:As.
      destruct (ziteration_spec _ _ _ _ _ _ _ _ _ L Pl Ds As) as [HI HL].
      destruct sg; [exact (IH z2 z' o (HL eq_refl) E)|inversion E; subst; auto|inversion E; subst; auto].
    + inversion E; subst. destruct (zdo_select_spec _ _ _ _ _ Ds) as [rdy [v [Es1 _]]]. rewrite Es1.
      eapply zInv_select; eauto.
Qed.

Lemma zInv_init : ZInv (zs zinit).
Proof.
  constructor; cbn.
  - constructor; cbn; [constructor|constructor| |].
    + intros d k i. split; [intros []|intros [[] _]].
    + intros k d i [].
  - constructor; cbn; [constructor|reflexivity].
  - constructor; cbn; [constructor| |].
    + intros h id. split; [intros []|intros [[] _]].
    + intros h id [].
  - exact Logic.I.
Qed.

Theorem zscenario_hist_ok : forall setup beh env, hist_ok zev_ok (rtrace (zs (fst (zscenario setup beh env)))).
Proof.
  intros. unfold zscenario. destruct (zrun_actions setup zinit) as [z0 sg] eqn:E. cbn.
  destruct (zstep_run_actions _ _ _ _ zInv_init E) as [HI [[n [En Hn]] D]].
  destruct (zrun_loop beh env z0) as [z' o] eqn:R. cbn.
  assert (L : ZLoopInv (zs z0)).
  { split; [exact HI|split].
    - unfold zbatch_done. rewrite En. cbn. rewrite app_nil_r.
      destruct (nosel_app n []) as [A _]; [intros; apply p_act_nosel; auto|]. rewrite app_nil_r in A. now rewrite A.
    - intros X. rewrite D in X. cbn in X. discriminate. }
  apply (zrun_loop_inv _ _ _ _ _ L R).
Qed.

(* ---------- exceptions ---------- *)
Lemma zexc_exec_action : forall a z z' sig, no_raise (rtrace (zs z)) -> zexec_action a z = (z', sig) -> exc_post (zs z') sig.
Proof.
  intros a z z' sig H E. unfold zexec_action in E.
  assert (G : forall a0, (let '(s', sg) := exec_action a0 (zs z) in (with_zs s' z, sg)) = (z', sig) -> exc_post (zs z') sig).
  { intros a0 E0. destruct (exec_action a0 (zs z)) as [s' sg] eqn:Ex. inversion E0; subst; clear E0. cbn.
    eapply exc_exec_action; eauto. }
  destruct a; try (match type of E with context [exec_action ?a0 _] => exact (G a0 E) end).
  - inversion E; subst; clear E. cbn. apply no_raise_cons; [intros b; discriminate|exact H].
  - inversion E; subst; clear E. cbn. apply no_raise_cons; [intros b; discriminate|exact H].
Qed.

Lemma zexc_run_actions : forall acts z z' sig, no_raise (rtrace (zs z)) -> zrun_actions acts z = (z', sig) -> exc_post (zs z') sig.
Proof.
  induction acts as [|a r IH]; cbn; intros z z' sig H E.
  - inversion E; subst. exact H.
  - destruct (zexec_action a z) as [z1 sg] eqn:E1. pose proof (zexc_exec_action _ _ _ _ H E1) as X.
    destruct sg; [eapply IH; eauto|inversion E; subst; exact X|inversion E; subst; exact X].
Qed.

Lemma zexc_run_cb : forall beh e id z z' sig, (forall b, e <> ERaise b) -> no_raise (rtrace (zs z)) ->
  zrun_cb beh e id z = (z', sig) -> exc_post (zs z') sig.
Proof.
  intros beh e id z z' sig He H E. unfold zrun_cb in E. eapply zexc_run_actions; [|exact E]. cbn. now apply no_raise_cons.
Qed.

Lemma zexc_idle_round : forall beh snap z z' sig, no_raise (rtrace (zs z)) -> zidle_round beh snap z = (z', sig) -> exc_post (zs z') sig.
Proof.
  induction snap as [|[h id] r IH]; cbn; intros z z' sig H E.
  - inversion E; subst. exact H.
  - destruct (mem h (idles (zs z))); [|eauto].
    destruct (zrun_cb beh (EIdleCall h id (now (zs z))) id z) as [z1 sg] eqn:C.
    assert (X : exc_post (zs z1) sg) by (eapply zexc_run_cb; [| |exact C]; [intros b; discriminate|exact H]).
    destruct sg; [eapply IH; eauto|inversion E; subst; exact X|inversion E; subst; exact X].
Qed.

Lemma zexc_process_ready : forall beh ready z z' sig, no_raise (rtrace (zs z)) -> zprocess_ready beh ready z = (z', sig) -> exc_post (zs z') sig.
Proof.
  induction ready as [|fd r IH]; cbn; intros z z' sig H E.
  - inversion E; subst. exact H.
  - destruct (lookup fd (watch (zs z))) as [id|]; [|eauto].
    destruct (zrun_cb beh (EWatchCall fd id (now (zs z))) id z) as [z1 sg] eqn:C.
    assert (X : exc_post (zs z1) sg) by (eapply zexc_run_cb; [| |exact C]; [intros b; discriminate|exact H]).
    destruct sg; [eapply IH; [|exact E]; exact X|inversion E; subst; exact X|inversion E; subst; exact X].
Qed.

Lemma zexc_after_select : forall beh tm ready z z' sig, no_raise (rtrace (zs z)) -> zafter_select beh tm ready z = (z', sig) -> exc_post (zs z') sig.
Proof.
  intros beh tm ready z z' sig H E. unfold zafter_select in E.
  destruct ready as [|p ps].
  - destruct tm.
    + cbn in E. inversion E; subst. exact H.
    + destruct (zidle_round beh (idles (zs z)) z) as [z1 sg] eqn:Ir. pose proof (zexc_idle_round _ _ _ _ _ H Ir) as X.
      destruct sg; cbn in E; inversion E; subst; exact X.
    + destruct (alarms (zs z)) as [|a rest] eqn:Ea.
      * cbn in E. inversion E; subst. exact H.
      * destruct (a_due a <=? now (zs z)).
        -- destruct (zrun_cb beh (EAlarmCall (a_tie a) (a_cb a) (now (zs z))) (a_cb a) (with_zs (set_alarms rest (zs z)) z)) as [z1 sg] eqn:C.
           assert (X : exc_post (zs z1) sg) by (eapply zexc_run_cb; [| |exact C]; [intros b; discriminate|exact H]).
           destruct sg; cbn in E; inversion E; subst; exact X.
        -- cbn in E. inversion E; subst. exact H.
  - eapply zexc_process_ready; eauto.
Qed.

(* run() ends by an exception only when a callback raised: KeyError never leaves it *)
Definition zexc_outcome (s : state) (o : outcome) : Prop :=
  match o with
  | OReturned => exists r, rtrace s = ERaise true :: r /\ no_raise r
  | ORaised => exists r, rtrace s = ERaise false :: r /\ no_raise r
  | OKeyError => False
  | _ => no_raise (rtrace s)
  end.

Lemma zexc_run_loop : forall beh env z z' o, no_raise (rtrace (zs z)) -> zrun_loop beh env z = (z', o) -> zexc_outcome (zs z') o.
Proof.
  induction env as [|st env IH]; intros z z' o H E; cbn in E.
  - destruct (zplan z) as [[to tm]|]; inversion E; subst; cbn; [|exact H].
    apply no_raise_cons; [intros b; discriminate|exact H].
  - destruct (zplan z) as [[to tm]|]; [|inversion E; subst; exact H].
    destruct (zdo_select to st z) as [z1 r] eqn:Ds.
    destruct (zdo_select_spec _ _ _ _ _ Ds) as [rdy [v [Es1 _]]].
    assert (H1 : no_raise (rtrace (zs z1))) by (rewrite Es1; cbn; apply no_raise_cons; [intros b; discriminate|exact H]).
    destruct r as [ready|]; [|inversion E; subst; exact H1].
    destruct (zafter_select beh tm ready z1) as [z2 sg] eqn:As.
    pose proof (zexc_after_select _ _ _ _ _ _ H1 As) as X.
    destruct sg; [eapply IH; eauto|inversion E; subst; exact X|inversion E; subst; exact X].
Qed.

Lemma zsetup_no_raise : forall setup z, no_raise (rtrace (zs z)) -> (forall a, In a setup -> action_raises a = false) ->
  exists z', zrun_actions setup z = (z', SCont) /\ no_raise (rtrace (zs z')).
Proof.
  induction setup as [|a r IH]; cbn; intros z H Hs.
  - eauto.
  - destruct (zexec_action a z) as [z1 sg] eqn:E1. pose proof (zexc_exec_action _ _ _ _ H E1) as X.
    assert (Ha : action_raises a = false) by (apply Hs; now left).
    assert (sg = SCont) by (destruct a; cbn in E1; inversion E1; subst; auto; discriminate). subst sg.
    apply IH; auto.
Qed.

Theorem zscenario_exceptions : forall setup beh env,
  (forall a, In a setup -> action_raises a = false) ->
  zexc_outcome (zs (fst (zscenario setup beh env))) (snd (zscenario setup beh env)).
Proof.
  intros setup beh env Hs. unfold zscenario.
  destruct (zsetup_no_raise setup zinit) as [z0 [E H0]]; [intros b []|exact Hs|]. rewrite E. cbn.
  destruct (zrun_loop beh env z0) as [z' o] eqn:R. cbn.
  eapply zexc_run_loop; [|exact R]. exact H0.
Qed.

(* ---------- reading the contract off a history (as for the select loop) ---------- *)
Lemma zalarm_call_facts : forall tr newer k id t older, hist_ok zev_ok tr -> tr = newer ++ EAlarmCall k id t :: older ->
  (exists due, aset k due id older /\ due <= t /\ ~ acalled k older /\ ~ aremoved k older /\
     (forall k' d' i', pending k' d' i' older -> due < d' \/ (due = d' /\ k <= k')) /\
     (forall k' d' i', aset k' d' i' older -> d' < due \/ (d' = due /\ k' < k) -> acalled k' older \/ aremoved k' older)) /\
  ~ acalled k newer /\ ~ aremoved k newer.
Proof.
  intros tr newer k id t older H E. pose proof (proj1 (hist_ok_split _ _) H) as Hs.
  pose proof (Hs _ _ _ E) as He. cbn in He. destruct He as [due [[P1 [P2 P3]] [Hd Hmin]]].
  split; [exists due; repeat split; auto|split].
  - intros k' d' i' Pk. specialize (Hmin _ _ _ Pk). apply alarm_lt_false in Hmin. cbn in Hmin. lia.
  - intros k' d' i' As Hlt. destruct (acalled_dec k' older) as [C|C]; [now left|].
    destruct (aremoved_dec k' older) as [R|R]; [now right|]. exfalso.
    assert (Pk : pending k' d' i' older) by (split; auto).
    specialize (Hmin _ _ _ Pk). apply alarm_lt_false in Hmin. cbn in Hmin. lia.
  - intros [id' [t' X]]. apply in_split in X. destruct X as [n2 [n1 X]]. subst newer.
    rewrite <- app_assoc in E. cbn in E. specialize (Hs _ _ _ E). cbn in Hs.
    destruct Hs as [due' [[_ [Q _]] _]]. apply Q. exists id, t. apply in_app_iff. right. now left.
  - intros X. apply in_split in X. destruct X as [n2 [n1 X]]. subst newer.
    rewrite <- app_assoc in E. cbn in E. specialize (Hs _ _ _ E). cbn in Hs.
    destruct Hs as [Hs _]. destruct (Hs eq_refl) as [d [i [_ [Q _]]]]. apply Q. exists id, t. apply in_app_iff. right. now left.
Qed.

Lemma zalarm_removed_facts : forall tr newer k older, hist_ok zev_ok tr -> tr = newer ++ ERmAlarm k true :: older ->
  (exists d i, pending k d i older) /\ ~ acalled k newer /\ (forall ok, In (ERmAlarm k ok) newer -> ok = false).
Proof.
  intros tr newer k older H E. pose proof (proj1 (hist_ok_split _ _) H) as Hs.
  pose proof (Hs _ _ _ E) as He. cbn in He. split; [now apply He|split].
  - intros [id' [t' X]]. apply in_split in X. destruct X as [n2 [n1 X]]. subst newer.
    rewrite <- app_assoc in E. cbn in E. specialize (Hs _ _ _ E). cbn in Hs.
    destruct Hs as [due' [[_ [_ Q]] _]]. apply Q. unfold aremoved. apply in_app_iff. right. now left.
  - intros ok X. destruct ok; [|reflexivity]. exfalso. apply in_split in X. destruct X as [n2 [n1 X]]. subst newer.
    rewrite <- app_assoc in E. cbn in E. specialize (Hs _ _ _ E). cbn in Hs.
    destruct Hs as [Hs _]. destruct (Hs eq_refl) as [d [i [_ [_ Q]]]]. apply Q. unfold aremoved. apply in_app_iff. right. now left.
Qed.

Lemma zidle_removed_facts : forall tr newer h older, hist_ok zev_ok tr -> tr = newer ++ ERmIdle h true :: older ->
  (forall id t, ~ In (EIdleCall h id t) newer) /\ (forall ok, In (ERmIdle h ok) newer -> ok = false).
Proof.
  intros tr newer h older H E. pose proof (proj1 (hist_ok_split _ _) H) as Hs. split.
  - intros id t X. apply in_split in X. destruct X as [n2 [n1 X]]. subst newer.
    rewrite <- app_assoc in E. cbn in E. specialize (Hs _ _ _ E). cbn in Hs.
    destruct Hs as [_ Q]. apply Q. unfold iremoved. apply in_app_iff. right. now left.
  - intros ok X. destruct ok; [|reflexivity]. exfalso. apply in_split in X. destruct X as [n2 [n1 X]]. subst newer.
    rewrite <- app_assoc in E. cbn in E. specialize (Hs _ _ _ E). cbn in Hs.
    destruct Hs as [Hs _]. destruct (Hs eq_refl) as [_ Q]. apply Q. unfold iremoved. apply in_app_iff. right. now left.
Qed.


(* after remove_watch_file(fd) (whatever it returned) no callback of fd runs until fd is registered again *)
Lemma zwatched_none_until_set : forall newer fd ok older,
  (forall id, ~ In (EWatchSet fd id) newer) -> zwatched fd (newer ++ ERmWatch fd ok :: older) = None.
Proof.
  induction newer as [|e r IH]; intros fd ok older Hn; cbn.
  - now rewrite Z.eqb_refl.
  - assert (Hr : forall id, ~ In (EWatchSet fd id) r) by (intros id X; apply (Hn id); now right).
    destruct e; try (apply IH; exact Hr).
    + destruct (fd0 =? fd) eqn:E; [|apply IH; exact Hr]. apply Z.eqb_eq in E; subst. exfalso. apply (Hn id). now left.
    + destruct (fd0 =? fd); [reflexivity|apply IH; exact Hr].
Qed.

Lemma zwatch_removed_facts : forall tr newer fd ok older, hist_ok zev_ok tr -> tr = newer ++ ERmWatch fd ok :: older ->
  forall n2 id t n1, newer = n2 ++ EWatchCall fd id t :: n1 -> exists id', In (EWatchSet fd id') n1.
Proof.
  intros tr newer fd ok older H E n2 id t n1 En. pose proof (proj1 (hist_ok_split _ _) H) as Hs.
  subst newer. rewrite <- app_assoc in E. cbn in E. specialize (Hs _ _ _ E). cbn in Hs. destruct Hs as [Hw _].
  assert (D : (exists id', In (EWatchSet fd id') n1) \/ (forall id', ~ In (EWatchSet fd id') n1)).
  { clear. induction n1 as [|e r IH]; [right; intros id' []|].
    destruct IH as [[id' X]|X]; [left; exists id'; now right|].
    destruct e; try (right; intros id' [Y|Y]; [discriminate|eapply X; eauto]).
    destruct (Z.eq_dec fd0 fd) as [->|Hn]; [left; exists id; now left|].
    right; intros id' [Y|Y]; [inversion Y; congruence|eapply X; eauto]. }
  destruct D as [D|D]; [exact D|]. exfalso. rewrite zwatched_none_until_set in Hw by exact D. discriminate.
Qed.

Lemma zready_in_explicit : forall fd tr, zready_in fd tr ->
  exists batch to regs t rdy rest, tr = batch ++ ESelect to regs t rdy :: rest /\
    (forall e, In e batch -> is_select e = false) /\ In fd rdy.
Proof.
  intros fd tr H. unfold zready_in in H. destruct (last_select tr) as [[[[to regs] t] rdy]|] eqn:L; [|destruct H].
  exists (last_batch tr), to, regs, t, rdy, (before_select tr). split; [now apply split_at_select|].
  split; [apply last_batch_nosel|exact H].
Qed.

Lemma zbatch_done_explicit : forall tr batch to regs t rdy rest, zbatch_done tr ->
  tr = batch ++ ESelect to regs t rdy :: rest -> (forall e, In e batch -> is_select e = false) ->
  forall fd, In fd rdy ->
    (exists id t', In (EWatchCall fd id t') batch) \/ (exists ok, In (ERmWatch fd ok) batch) \/ zwatched fd rest = None.
Proof.
  intros tr batch to regs t rdy rest H E Hb. unfold zbatch_done in H. subst tr.
  destruct (last_parts batch to regs t rdy rest Hb) as [A [B C]]. rewrite A, B, C in H. exact H.
Qed.
