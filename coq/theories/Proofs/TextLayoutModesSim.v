(* Generic simulation: for ANY byte-encoding mode whose position queries agree with the str queries through a
   boundary map, the mode-parametric bytes layout (Model/TextLayoutModes.v) on the encoding of a character
   list computes the image of the str layout (Model/TextLayout.v).  The agreement facts are hypotheses of the
   Section; Proofs/TextLayoutModesWide.v / ...Narrow.v discharge them for the wide and narrow modes. *)
From Coq Require Import ZArith List Bool Lia ZifyBool.
Import ListNotations.
From Urwid Require Import PyBase PyList TextLayout TextLayoutBytes TextLayoutModes TextLayoutFacts TextLayoutProofs.
Open Scope Z_scope.

Arguments Z.add : simpl never.
Arguments Z.sub : simpl never.
Arguments Z.mul : simpl never.
Arguments Z.div : simpl never.
Arguments Z.ltb : simpl never.
Arguments Z.leb : simpl never.
Arguments Z.eqb : simpl never.
Arguments Z.of_nat : simpl never.
Arguments Z.to_nat : simpl never.

(* generic list facts (kept local so that this file depends on no generated file) *)
Module LF.
Lemma to_nat_zlen {A} (l : list A) : Z.to_nat (zlen l) = length l.
Proof. unfold zlen. apply Nat2Z.id. Qed.
Lemma nthz_app_mid {A} (pre : list A) c rest : nthz (pre ++ c :: rest) (zlen pre) = Some c.
Proof.
  unfold nthz. pose proof (zlen_nonneg pre). destruct (zlen pre <? 0) eqn:E; [lia|].
  rewrite to_nat_zlen, nth_error_app2 by lia. now rewrite Nat.sub_diag.
Qed.
Lemma takez_dropz_split {A} (l : list A) a b :
  0 <= a <= b -> b <= zlen l -> l = takez a l ++ takez (b - a) (dropz a l) ++ dropz b l.
Proof.
  intros H1 H2. unfold takez, dropz.
  rewrite <- (firstn_skipn (Z.to_nat a) l) at 1. f_equal.
  rewrite <- (firstn_skipn (Z.to_nat (b - a)) (skipn (Z.to_nat a) l)) at 1. f_equal.
  rewrite <- skipn_add. f_equal. lia.
Qed.
Lemma takez_app_exact {A} (a b : list A) : takez (zlen a) (a ++ b) = a.
Proof. unfold takez. rewrite to_nat_zlen. rewrite firstn_app, Nat.sub_diag, firstn_all. cbn. apply app_nil_r. Qed.
Lemma dropz_app_exact {A} (a b : list A) : dropz (zlen a) (a ++ b) = b.
Proof. unfold dropz. rewrite to_nat_zlen. rewrite skipn_app, Nat.sub_diag, skipn_all. reflexivity. Qed.
End LF.

Lemma gnthz_In {A} (l : list A) k x : nthz l k = Some x -> In x l.
Proof. unfold nthz. destruct (k <? 0); [discriminate|]. apply nth_error_In. Qed.

Lemma to_lres_ok {A} (r : result A) v : to_lres r = LOk v -> r = Ok v.
Proof. destruct r; cbn; intros H; inversion H; reflexivity. Qed.

(* ---------- the image of a layout under an offset map and a character encoding ---------- *)
Definition gmap_seg (enc : Z -> list Z) (f : Z -> Z) (x : seg) : seg :=
  match x with
  | SText sc o e => SText sc (f o) (f e)
  | SIns sc o txt => SIns sc (f o) (flat_map enc txt)
  | SPad sc o => SPad sc (f o)
  | SShift sc => SShift sc
  end.
Definition gmap_line enc (f : Z -> Z) (l : line) : line := map (gmap_seg enc f) l.
Definition gmap_layout enc (f : Z -> Z) (L : list line) : list line := map (gmap_line enc f) L.

Definition map_scan (f : Z -> Z) (r : scan_res) : scan_res :=
  match r with ScanSpace p => ScanSpace (f p) | ScanWide p => ScanWide (f p) | x => x end.

Lemma unwrap_candidate_gmap enc f segs :
  unwrap_candidate (gmap_layout enc f segs) =
  match unwrap_candidate segs with
  | UCand a b c d rest => UCand a (f b) c (f d) (gmap_layout enc f rest)
  | UNone => UNone
  | UErr => UErr
  end.
Proof.
  destruct segs as [|l r]; [reflexivity|].
  destruct l as [|x [|y [|z l']]]; try reflexivity.
  - destruct x; reflexivity.
  - destruct x, y; reflexivity.
  - destruct x, y; reflexivity.
Qed.

Lemma gseg_sc_map enc f x : seg_sc (gmap_seg enc f x) = seg_sc x.
Proof. destruct x; reflexivity. Qed.

Lemma gline_width_map enc f l : line_width (gmap_line enc f l) = line_width l.
Proof.
  assert (G : forall l a, fold_left (fun a s => a + seg_sc s) (gmap_line enc f l) a = fold_left (fun a s => a + seg_sc s) l a).
  { induction l0 as [|x l0 IH]; intros a; cbn [gmap_line map fold_left]; [reflexivity|]. rewrite gseg_sc_map. apply IH. }
  destruct l as [|x l]; [reflexivity|].
  destruct x; cbn [gmap_line map gmap_seg line_width].
  - apply (G (SText sc offs e :: l)).
  - apply (G (SIns sc offs txt :: l)).
  - apply (G (SPad sc offs :: l)).
  - apply G.
Qed.

Lemma galign_layout_map enc f width align L :
  align_layout width align (gmap_layout enc f L) = gmap_layout enc f (align_layout width align L).
Proof.
  unfold align_layout, gmap_layout. rewrite !map_map. apply map_ext. intros l.
  unfold align_line. rewrite gline_width_map.
  destruct ((line_width l =? width) || match align with AlLeft => true | _ => false end); [reflexivity|].
  destruct align; try reflexivity; destruct ((width - line_width l + 1) / 2 =? 0); reflexivity.
Qed.

Lemma gmap_layout_rev enc f L : gmap_layout enc f (rev L) = rev (gmap_layout enc f L).
Proof. unfold gmap_layout. apply map_rev. Qed.

Section GSim.
Variable enc : Z -> list Z.                  (* the bytes of one character *)
Hypothesis Henc_len : forall c, 1 <= zlen (enc c).
Variable s : list Z.                         (* the text as a list of characters *)

Notation F := (flat_map enc).
Notation bs := (F s).
Definition gboff (k : Z) : Z := zlen (F (takez k s)).
Notation B := gboff.
Notation len := (zlen s).

Lemma F_len_ge l : zlen l <= zlen (F l).
Proof.
  induction l as [|c l IH]; [cbn; lia|]. cbn [flat_map]. rewrite zlen_app, zlen_cons. pose proof (Henc_len c). lia.
Qed.

Lemma B_0 : B 0 = 0.
Proof. reflexivity. Qed.

Lemma B_len : B len = zlen bs.
Proof. unfold gboff, takez. rewrite LF.to_nat_zlen, firstn_all. reflexivity. Qed.

Lemma B_split a b : 0 <= a <= b -> b <= len ->
  bs = F (takez a s) ++ F (slice s a b) ++ F (dropz b s) /\ B b = B a + zlen (F (slice s a b)).
Proof.
  intros H1 H2. pose proof (LF.takez_dropz_split s a b H1 H2) as E. split.
  - rewrite <- !flat_map_app. f_equal. exact E.
  - unfold gboff. rewrite <- zlen_app, <- flat_map_app. f_equal. f_equal.
    assert (S0 : forall x, slice s 0 x = takez x s).
    { intros x. unfold slice, dropz. replace (Z.to_nat 0) with O by lia. cbn [skipn]. f_equal. lia. }
    rewrite <- !S0. apply slice_split; lia.
Qed.

Lemma B_mono a b : 0 <= a <= b -> b <= len -> B a <= B b.
Proof. intros H1 H2. destruct (B_split a b H1 H2) as [_ E]. pose proof (zlen_nonneg (F (slice s a b))). lia. Qed.

Lemma B_nonneg a : 0 <= B a.
Proof. apply zlen_nonneg. Qed.

Lemma B_gap a b : 0 <= a <= b -> b <= len -> b - a <= B b - B a.
Proof.
  intros H1 H2. destruct (B_split a b H1 H2) as [_ E]. pose proof (F_len_ge (slice s a b)).
  rewrite (zlen_slice s a b) in H by lia. lia.
Qed.

Lemma B_strict a b : 0 <= a < b -> b <= len -> B a < B b.
Proof. intros H1 H2. pose proof (B_gap a b ltac:(lia) H2). lia. Qed.

Lemma B_inj a b : 0 <= a <= len -> 0 <= b <= len -> B a = B b -> a = b.
Proof.
  intros Ha Hb E. destruct (Z.lt_trichotomy a b) as [L|[L|L]]; [|assumption|].
  - pose proof (B_strict a b ltac:(lia) ltac:(lia)). lia.
  - pose proof (B_strict b a ltac:(lia) ltac:(lia)). lia.
Qed.

Lemma char_at k : 0 <= k < len -> exists c, nthz s k = Some c /\ In c s /\
  bs = F (takez k s) ++ enc c ++ F (dropz (k + 1) s) /\ B k = zlen (F (takez k s)) /\ B (k + 1) = B k + zlen (enc c).
Proof.
  intros Hk. destruct (nthz_ex s k Hk) as (c & N). exists c. split; [exact N|]. split; [eapply gnthz_In; exact N|].
  destruct (B_split k (k + 1) ltac:(lia) ltac:(lia)) as (E1 & E2).
  rewrite (slice_one s k c N) in E1, E2. cbn [flat_map] in E1, E2. rewrite app_nil_r in E1, E2.
  split; [exact E1|]. split; [reflexivity | exact E2].
Qed.

Lemma slice_of_bytes a b : 0 <= a <= b -> b <= len -> slice bs (B a) (B b) = F (slice s a b).
Proof.
  intros H1 H2. destruct (B_split a b H1 H2) as (E1 & E2). unfold slice at 1.
  rewrite E2. replace (B a + zlen (F (slice s a b)) - B a) with (zlen (F (slice s a b))) by lia.
  rewrite E1. change (B a) with (zlen (F (takez a s))). rewrite LF.dropz_app_exact.
  apply LF.takez_app_exact.
Qed.

Variable cw : Z -> Z.
Hypothesis cw_range : forall c, 0 <= cw c <= 2.
Variable P : prims.

(* well-formedness of the characters of the text: the first byte tells a space / newline apart, no other
   byte is a newline, and space / newline are single bytes *)
Hypothesis Hhead : forall c, In c s -> exists h r, enc c = h :: r /\ (h = NL <-> c = NL) /\ (h = SP <-> c = SP) /\
                                       ~ In NL r /\ (c = SP \/ c = NL -> r = []).
(* the position queries of the mode agree with the str queries *)
Hypothesis HPcw : forall a b, 0 <= a <= b -> b <= len -> p_cw P bs (B a) (B b) = Ok (sumw cw (slice s a b)).
Hypothesis HPctp : forall a b col, 0 <= a <= b -> b <= len -> 0 <= col ->
  exists p c, calc_text_pos cw s a b col = LOk (p, c) /\ a <= p <= b /\ p_ctp P bs (B a) (B b) col = Ok (B p, c).
Hypothesis HPwide : forall k c, nthz s k = Some c -> p_wide P bs (B k) = Ok (cw c =? 2).
Hypothesis HPprev : forall a b, 0 <= a < b -> b <= len -> p_prev P bs (B a) (B b) = Ok (B (b - 1)).
Hypothesis HPnext : forall a b, 0 <= a < b -> b <= len -> p_next P bs (B a) (B b) = Ok (B (a + 1)).

Lemma byte_at k : 0 <= k < len -> exists c h, nthz s k = Some c /\ nthz bs (B k) = Some h /\
  (h = NL <-> c = NL) /\ (h = SP <-> c = SP).
Proof.
  intros Hk. destruct (char_at k Hk) as (c & N & Ic & Es & Ek & _).
  destruct (Hhead c Ic) as (h & r & Eh & H1 & H2 & _). exists c, h. split; [exact N|]. split; [|split; assumption].
  rewrite Es, Ek, Eh. apply LF.nthz_app_mid.
Qed.

Lemma byte_eq_ascii k c h x : nthz s k = Some c -> nthz bs (B k) = Some h -> x = SP \/ x = NL -> (h =? x) = (c =? x).
Proof.
  intros N Nh Hx. pose proof (nthz_lt _ _ _ N) as Hk.
  destruct (byte_at k Hk) as (c' & h' & N' & Nh' & H1 & H2). rewrite N in N'. rewrite Nh in Nh'.
  inversion N'; inversion Nh'; subst c' h'. destruct Hx as [-> | ->].
  - destruct (c =? SP) eqn:E; [assert (c = SP) by lia; apply H2 in H; lia|].
    destruct (h =? SP) eqn:E2; [assert (h = SP) by lia; apply H2 in H; lia | reflexivity].
  - destruct (c =? NL) eqn:E; [assert (c = NL) by lia; apply H1 in H; lia|].
    destruct (h =? NL) eqn:E2; [assert (h = NL) by lia; apply H1 in H; lia | reflexivity].
Qed.

(* a newline byte inside the range [B a, B b) comes from a newline character of s[a:b] *)
Lemma nl_in_F l : Forall (fun c => In c s) l -> In NL (F l) -> In NL l.
Proof.
  induction l as [|c l IH]; intros HF I; [contradiction|]. inversion HF as [|? ? Hc HF']; subst.
  cbn [flat_map] in I. apply in_app_or in I. destruct I as [I|I]; [|right; apply IH; assumption].
  destruct (Hhead c Hc) as (h & r & Eh & H1 & _ & Hr & _). rewrite Eh in I. destruct I as [I|I]; [|contradiction].
  left. apply H1. exact I.
Qed.

Lemma sim_calc_width a b : 0 <= a <= b -> b <= len -> calc_width_g P bs (B a) (B b) = LOk (sumw cw (slice s a b)).
Proof. intros H1 H2. unfold calc_width_g. rewrite HPcw by assumption. reflexivity. Qed.

Lemma sim_ctp a b col : 0 <= a <= b -> b <= len -> 0 <= col ->
  exists p c, calc_text_pos cw s a b col = LOk (p, c) /\ a <= p <= b /\ calc_text_pos_g P bs (B a) (B b) col = LOk (B p, c).
Proof.
  intros H1 H2 H3. destruct (HPctp a b col H1 H2 H3) as (p & c & E1 & Hp & E2). exists p, c.
  split; [exact E1|]. split; [exact Hp|]. unfold calc_text_pos_g. rewrite E2. reflexivity.
Qed.

Lemma sim_is_wide k c : nthz s k = Some c -> is_wide_g P bs (B k) = LOk (cw c =? 2).
Proof. intros N. unfold is_wide_g. rewrite (HPwide k c N). reflexivity. Qed.

Lemma sim_prev a b : 0 <= a < b -> b <= len -> move_prev_g P bs (B a) (B b) = LOk (B (b - 1)).
Proof. intros H1 H2. unfold move_prev_g. rewrite HPprev by assumption. reflexivity. Qed.

Lemma sim_next a b : 0 <= a < b -> b <= len -> move_next_g P bs (B a) (B b) = LOk (B (a + 1)).
Proof. intros H1 H2. unfold move_next_g. rewrite HPnext by assumption. reflexivity. Qed.

(* ---------- find_nl ---------- *)
Lemma sim_find_nl i : 0 <= i <= len -> find_nl bs (B i) = B (find_nl s i).
Proof.
  intros Hi. destruct (find_nl_spec s i Hi) as (A1 & A2 & A3). set (nl := find_nl s i) in *.
  pose proof (B_mono i nl ltac:(lia) ltac:(lia)) as M1. pose proof (B_mono nl len ltac:(lia) ltac:(lia)) as M2.
  rewrite B_len in M2. pose proof (B_nonneg i).
  destruct (find_nl_spec bs (B i) ltac:(lia)) as (C1 & C2 & C3). set (r := find_nl bs (B i)) in *.
  destruct (Z.lt_trichotomy r (B nl)) as [L|[L|L]]; [exfalso | assumption | exfalso].
  - destruct C2 as [C2|C2]; [lia|].
    assert (In NL (F (slice s i nl))).
    { rewrite <- slice_of_bytes by lia. apply (gnthz_In _ (r - B i)). rewrite nthz_slice by lia.
      replace (B i + (r - B i)) with r by lia. exact C2. }
    apply nl_in_F in H0.
    + apply In_slice in H0; [|lia]. destruct H0 as (k & Hk & Nk). exact (A3 k Hk Nk).
    + apply Forall_forall. intros c Ic. apply In_slice in Ic; [|lia]. destruct Ic as (k & _ & Nk). eapply gnthz_In; exact Nk.
  - destruct A2 as [A2|A2]; [rewrite A2, B_len in L; lia|]. pose proof (nthz_lt _ _ _ A2) as Hnl.
    destruct (byte_at nl Hnl) as (c & h & N & Nh & H1 & _). rewrite A2 in N. inversion N. subst c.
    assert (h = NL) by (apply H1; reflexivity). subst h. exact (C3 (B nl) ltac:(lia) Nh).
Qed.

(* ---------- more about the boundary map ---------- *)
Lemma B_eqb a b : 0 <= a <= len -> 0 <= b <= len -> (B a =? B b) = (a =? b).
Proof.
  intros Ha Hb. destruct (a =? b) eqn:E.
  - assert (a = b) by lia. subst. lia.
  - destruct (B a =? B b) eqn:E2; [|reflexivity]. assert (B a = B b) by lia.
    pose proof (B_inj a b Ha Hb H). lia.
Qed.

Lemma B_ltb a b : 0 <= a <= len -> 0 <= b <= len -> (B a <? B b) = (a <? b).
Proof.
  intros Ha Hb. destruct (a <? b) eqn:E.
  - pose proof (B_strict a b ltac:(lia) ltac:(lia)). lia.
  - pose proof (B_mono b a ltac:(lia) ltac:(lia)). lia.
Qed.

Lemma B_succ_ascii k c : nthz s k = Some c -> c = SP \/ c = NL -> B (k + 1) = B k + 1.
Proof.
  intros N Hc. pose proof (nthz_lt _ _ _ N) as Hk.
  destruct (char_at k Hk) as (c' & N' & Ic & _ & _ & E). rewrite N in N'. inversion N'. subst c'.
  destruct (Hhead c Ic) as (h & r & Eh & _ & _ & _ & Hr). rewrite E, Eh, (Hr Hc). reflexivity.
Qed.

(* the loop index may be len + 1 (one past the end): it maps to one past the end of the bytes *)
Definition Bx (i : Z) : Z := if i <=? len then B i else zlen bs + (i - len).

Lemma Bx_in i : i <= len -> Bx i = B i.
Proof. intros. unfold Bx. replace (i <=? len) with true by lia. reflexivity. Qed.

Lemma Bx_succ k c : nthz s k = Some c -> c = SP \/ c = NL -> Bx (k + 1) = B k + 1.
Proof.
  intros N Hc. pose proof (nthz_lt _ _ _ N). rewrite Bx_in by lia. eapply B_succ_ascii; eassumption.
Qed.

Lemma Bx_end : Bx (len + 1) = B len + 1.
Proof. unfold Bx. replace (len + 1 <=? len) with false by lia. rewrite B_len. lia. Qed.

Lemma Bx_leb i : 0 <= i <= len + 1 -> (Bx i <=? zlen bs) = (i <=? len).
Proof.
  intros Hi. unfold Bx. destruct (i <=? len) eqn:E.
  - pose proof (B_mono i len ltac:(lia) ltac:(lia)). rewrite B_len in H. lia.
  - lia.
Qed.

(* text[k] on both sides *)
Lemma sim_get k : 0 <= k <= len ->
  match nthz s k with
  | Some c => exists h, nthz bs (B k) = Some h /\ forall x, x = SP \/ x = NL -> (h =? x) = (c =? x)
  | None => nthz bs (B k) = None
  end.
Proof.
  intros Hk. destruct (nthz s k) as [c|] eqn:N.
  - pose proof (nthz_lt _ _ _ N) as Hl. destruct (byte_at k Hl) as (c' & h & N' & Nh & _).
    exists h. split; [exact Nh|]. intros x Hx. rewrite N in N'. inversion N'. subst c'.
    eapply byte_eq_ascii; eassumption.
  - assert (k = len). { destruct (Z.eq_dec k len); [assumption|]. destruct (nthz_ex s k ltac:(lia)) as (c & E). congruence. }
    subst k. rewrite B_len. apply nthz_none. lia.
Qed.

(* ---------- the backward scan for a space / a wide character ---------- *)
Lemma sim_scan_back idx n : forall fuel, 0 <= idx -> idx + Z.of_nat n <= len -> (n <= fuel)%nat ->
  scan_back_g P bs (B idx) fuel (B (idx + Z.of_nat n)) = map_scan B (scan_back cw s idx n).
Proof.
  induction n as [|n IH]; intros fuel Hi Hn Hf.
  - replace (idx + Z.of_nat 0) with idx by lia. destruct fuel; cbn [scan_back_g scan_back map_scan];
      replace (B idx <? B idx) with false by lia; reflexivity.
  - destruct fuel as [|k]; [lia|]. cbn [scan_back_g scan_back].
    rewrite (B_ltb idx (idx + Z.of_nat (S n))) by lia. replace (idx <? idx + Z.of_nat (S n)) with true by lia.
    rewrite (sim_prev idx (idx + Z.of_nat (S n))) by lia.
    replace (idx + Z.of_nat (S n) - 1) with (idx + Z.of_nat n) by lia.
    pose proof (sim_get (idx + Z.of_nat n) ltac:(lia)) as G.
    destruct (nthz s (idx + Z.of_nat n)) as [c|] eqn:N.
    + destruct G as (h & Nh & Hh). rewrite Nh. rewrite (Hh SP (or_introl eq_refl)).
      destruct (c =? SP); [reflexivity|].
      rewrite (sim_is_wide _ _ N). destruct (cw c =? 2); [reflexivity|]. apply IH; lia.
    + rewrite G. reflexivity.
Qed.

(* ---------- one iteration of the any/space loop ---------- *)
Variable width : Z.
Hypothesis width_pos : 1 <= width.
Hypothesis Hsp : cw SP = 1.

Definition map_step (r : lres (list line * Z)) : lres (list line * Z) :=
  match r with LOk (sg, i) => LOk (gmap_layout enc B sg, Bx i) | LCant => LCant | LErr e => LErr e end.

Ltac fin_in := cbn [map_step gmap_layout map gmap_line gmap_seg]; rewrite Bx_in by lia; reflexivity.

Lemma sim_step_wrap wrap segs idx : wrap = WAny \/ wrap = WSpace ->
  (Lines cw s width wrap segs idx \/ Doomed cw s width idx) -> 0 <= idx <= len ->
  step_wrap_g P bs width wrap (gmap_layout enc B segs) (B idx) = map_step (step_wrap cw s width wrap segs idx).
Proof.
  intros wrap_ws HS Hidx. unfold step_wrap_g, step_wrap.
  rewrite sim_find_nl by lia.
  destruct (find_nl_spec s idx ltac:(lia)) as (A1 & A2 & A3). set (nl := find_nl s idx) in *.
  rewrite sim_calc_width by lia. rewrite (calc_width_ok cw s idx nl) by lia. cbn [lbind].
  assert (Hnl1 : Bx (nl + 1) = B nl + 1).
  { destruct A2 as [A2|A2]; [rewrite A2; apply Bx_end | apply (Bx_succ nl NL A2); right; reflexivity]. }
  destruct (sumw cw (slice s idx nl) =? 0).
  { cbn [map_step gmap_layout map gmap_line gmap_seg]. rewrite Hnl1. reflexivity. }
  destruct (sumw cw (slice s idx nl) <=? width).
  { cbn [map_step gmap_layout map gmap_line gmap_seg]. rewrite Hnl1. reflexivity. }
  destruct (sim_ctp idx nl width ltac:(lia) ltac:(lia) ltac:(lia)) as (pos & sc & E1 & Hp & E2). rewrite E1, E2. cbn [lbind].
  rewrite B_eqb by lia.
  destruct (pos =? idx) eqn:Epi; [reflexivity|].
  assert (HL : Lines cw s width wrap segs idx).
  { destruct HS as [HL|HD]; [exact HL|]. exfalso. destruct HD as (W1 & c & N & C2 & CN).
    destruct (calc_text_pos_spec cw s idx nl width ltac:(lia) ltac:(lia) ltac:(lia)) as (p' & c' & E' & Hp' & Hc' & Hle' & _).
    rewrite E1 in E'. inversion E'; subst p' c'.
    pose proof (sumw_slice_cons cw s idx pos c ltac:(lia) N).
    pose proof (sumw_nonneg cw cw_range (slice s (idx + 1) pos)). lia. }
  destruct wrap_ws as [Ew|Ew]; rewrite Ew in *.
  - fin_in.
  - unfold get. pose proof (sim_get pos ltac:(lia)) as G.
    destruct (nthz s pos) as [ch|] eqn:Nch; [|rewrite G; reflexivity].
    destruct G as (h & Nh & Hh). rewrite Nh. cbn [lbind]. rewrite (Hh SP (or_introl eq_refl)).
    pose proof (nthz_lt _ _ _ Nch) as Hposlen.
    destruct (ch =? SP) eqn:Esp.
    { cbn [map_step gmap_layout map gmap_line gmap_seg].
      rewrite (Bx_succ pos ch Nch) by (left; lia). reflexivity. }
    rewrite (sim_is_wide pos ch Nch). cbn [lbind].
    destruct (cw ch =? 2); [fin_in|].
    pose proof (B_gap idx pos ltac:(lia) ltac:(lia)) as Hgap.
    assert (Escan : scan_back_g P bs (B idx) (Z.to_nat (B pos - B idx)) (B pos)
                    = map_scan B (scan_back cw s idx (Z.to_nat (pos - idx)))).
    { pose proof (sim_scan_back idx (Z.to_nat (pos - idx)) (Z.to_nat (B pos - B idx)) ltac:(lia) ltac:(lia) ltac:(lia)) as Q.
      replace (idx + Z.of_nat (Z.to_nat (pos - idx))) with pos in Q by lia. exact Q. }
    rewrite Escan.
    pose proof (scan_back_spec cw s idx (Z.to_nat (pos - idx)) ltac:(lia) ltac:(lia)) as Hscan.
    replace (idx + Z.of_nat (Z.to_nat (pos - idx))) with pos in Hscan by lia.
    destruct (scan_back cw s idx (Z.to_nat (pos - idx))) as [prev|prev| |]; cbn [map_scan]; [| | |reflexivity].
    + destruct Hscan as (Hp1 & Nsp & _).
      rewrite sim_calc_width by lia. rewrite (calc_width_ok cw s idx prev) by lia. cbn [lbind].
      destruct (sumw cw (slice s idx prev) =? 0); cbn [map_step gmap_layout map gmap_line gmap_seg];
        rewrite (Bx_succ prev SP Nsp) by (left; reflexivity); reflexivity.
    + destruct Hscan as (Hp1 & (c & Nc & _ & Hcw) & _).
      rewrite (sim_next prev pos) by lia. cbn [lbind]. replace (pos <=? prev) with false by lia.
      rewrite sim_calc_width by lia. rewrite (calc_width_ok cw s idx (prev + 1)) by lia. cbn [lbind]. fin_in.
    + rewrite unwrap_candidate_gmap.
      destruct (unwrap_candidate segs) as [p_sc p_off h_sc h_off rest| |] eqn:EU; [|fin_in|reflexivity].
      destruct (unwrap_cand_inv cw s width width_pos WSpace _ _ _ _ _ _ _ HL EU)
        as (a & HLr & Ha & Hpo & Hho & Hz & Hhs & Hi & Hps & Hpsr & Hpre).
      destruct ((p_sc <? width) && (h_sc =? 0)); [|fin_in].
      pose proof (sim_get h_off ltac:(lia)) as G2.
      destruct (nthz s h_off) as [ch0|] eqn:Nch0; [|rewrite G2; reflexivity].
      destruct G2 as (h2 & Nh2 & Hh2). rewrite Nh2. cbn [lbind]. rewrite (Hh2 SP (or_introl eq_refl)).
      destruct (ch0 =? SP); [|fin_in].
      destruct (sim_ctp p_off nl width ltac:(lia) ltac:(lia) ltac:(lia)) as (pos2 & sc2 & E3 & Hp2 & E4). rewrite E3, E4. cbn [lbind].
      rewrite <- B_len. rewrite B_ltb by lia.
      destruct (pos2 <? len) eqn:Epl; [|fin_in].
      pose proof (sim_get pos2 ltac:(lia)) as G3.
      destruct (nthz s pos2) as [c2|] eqn:Nc2; [|rewrite G3; reflexivity].
      destruct G3 as (h3 & Nh3 & Hh3). rewrite Nh3. cbn [lbind].
      rewrite (Hh3 SP (or_introl eq_refl)), (Hh3 NL (or_intror eq_refl)).
      destruct ((c2 =? SP) || (c2 =? NL)) eqn:Ec; [|fin_in].
      cbn [map_step gmap_layout map gmap_line gmap_seg].
      rewrite (Bx_succ pos2 c2 Nc2) by (destruct (c2 =? SP) eqn:Q; [left | right]; lia). reflexivity.
Qed.

(* ---------- the loop: with enough fuel on both sides the byte run is the image of the str run ---------- *)
Definition map_res (r : lres (list line)) : lres (list line) :=
  match r with LOk L => LOk (gmap_layout enc B L) | LCant => LCant | LErr e => LErr e end.

Lemma sim_wrap_loop wrap : wrap = WAny \/ wrap = WSpace -> forall fuel_b fuel_s segs idx,
  (Lines cw s width wrap segs idx \/ Doomed cw s width idx) -> 0 <= idx <= len + 1 ->
  mu s segs idx <= Z.of_nat fuel_b -> mu s segs idx <= Z.of_nat fuel_s ->
  wrap_loop_g P fuel_b bs width wrap (gmap_layout enc B segs) (Bx idx) = map_res (wrap_loop cw fuel_s s width wrap segs idx).
Proof.
  intros wrap_ws. induction fuel_b as [|kb IH]; intros fuel_s segs idx HS Hr Hb Hs'.
  - assert (idx = len + 1). { unfold mu in Hb. pose proof (flag_range segs). lia. }
    subst idx. cbn [wrap_loop_g]. rewrite Bx_leb by lia. replace (len + 1 <=? len) with false by lia.
    destruct fuel_s; cbn [wrap_loop]; replace (len + 1 <=? len) with false by lia;
      cbn [map_res]; rewrite gmap_layout_rev; reflexivity.
  - cbn [wrap_loop_g]. rewrite Bx_leb by lia.
    destruct (idx <=? len) eqn:E.
    + destruct fuel_s as [|ks]; [unfold mu in Hs'; pose proof (flag_range segs); lia|].
      cbn [wrap_loop]. rewrite E. rewrite Bx_in by lia.
      rewrite (sim_step_wrap wrap segs idx wrap_ws HS ltac:(lia)).
      destruct HS as [HL|HD].
      * destruct (step_wrap_good cw cw_range Hsp s width width_pos wrap wrap_ws segs idx HL ltac:(lia))
          as [(-> & _) | (segs' & idx' & -> & HS' & Hmu')]; [reflexivity|].
        cbn [map_step lbind].
        assert (Hr' : 0 <= idx' <= len + 1).
        { destruct HS' as [HL' | (_ & c & N & _)]; [apply (Lines_range _ _ _ _ _ _ HL')|]. apply nthz_lt in N. lia. }
        apply IH; try assumption; lia.
      * rewrite (step_wrap_doomed cw cw_range s width width_pos wrap segs idx HD ltac:(lia)). reflexivity.
    + destruct fuel_s; cbn [wrap_loop]; rewrite E; cbn [map_res]; rewrite gmap_layout_rev; reflexivity.
Qed.

(* ---------- clip / ellipsis ---------- *)

Section Ell.
Variable ell : list Z.                       (* the (already shortened) ellipsis string *)
Hypothesis Hell : str_width_g P (map enc ell) = sumw cw ell.
Hypothesis Hell2 : sumw cw ell <= width - 1.

Definition map_tstep (r : lres (line * Z)) : lres (line * Z) :=
  match r with LOk (ln, i) => LOk (gmap_line enc B ln, Bx i) | LCant => LCant | LErr e => LErr e end.

Lemma sim_step_trim wrap idx : 0 <= idx <= len ->
  step_trim_g P bs width wrap (map enc ell) (B idx) = map_tstep (step_trim cw s width wrap ell idx).
Proof.
  intros Hidx. unfold step_trim_g, step_trim. rewrite Hell. rewrite <- flat_map_concat_map.
  rewrite sim_find_nl by lia.
  destruct (find_nl_spec s idx ltac:(lia)) as (A1 & A2 & A3). set (nl := find_nl s idx) in *.
  rewrite sim_calc_width by lia. rewrite (calc_width_ok cw s idx nl) by lia. cbn [lbind].
  assert (Hnl1 : Bx (nl + 1) = B nl + 1).
  { destruct A2 as [A2|A2]; [rewrite A2; apply Bx_end | apply (Bx_succ nl NL A2); right; reflexivity]. }
  destruct ((match wrap with WEllipsis => true | _ => false end) && (width <? sumw cw (slice s idx nl))
            && negb (sumw cw ell =? 0)).
  - unfold calc_trim_text_g, g_calc_trim_text, calc_trim_text.
    replace (0 <? 0) with false by reflexivity. cbn [lbind].
    destruct (sim_ctp idx nl (width - sumw cw ell - 0 - 0) ltac:(lia) ltac:(lia) ltac:(lia)) as (p & c & E1 & Hp & E2).
    rewrite E1. unfold calc_text_pos_g in E2. apply to_lres_ok in E2. rewrite E2. cbn [to_lres lbind].
    destruct (c <? width - sumw cw ell - 0 - 0); cbn [to_lres lbind];
      replace (negb (0 =? 0)) with false by reflexivity; rewrite B_eqb by lia;
      replace (idx =? idx) with true by lia; cbn [negb lbind];
      match goal with |- context [if ?b then [] else _] => destruct b end;
      cbn [map_tstep gmap_line map gmap_seg app]; rewrite Hnl1; reflexivity.
  - cbn [lbind]. destruct (sumw cw (slice s idx nl) =? 0);
      cbn [map_tstep gmap_line map gmap_seg app]; rewrite Hnl1; reflexivity.
Qed.

Lemma sim_trim_loop wrap : wrap = WClip \/ wrap = WEllipsis -> forall ell0, ell = trim_ell cw width ell0 ->
  forall fuel_b fuel_s segs idx, 0 <= idx <= len + 1 ->
  len + 1 - idx <= Z.of_nat fuel_b -> len + 1 - idx <= Z.of_nat fuel_s ->
  trim_loop_g P fuel_b bs width wrap (map enc ell) (gmap_layout enc B segs) (Bx idx)
  = map_res (trim_loop cw fuel_s s width wrap ell segs idx).
Proof.
  intros Hwr ell0 Eell. induction fuel_b as [|kb IH]; intros fuel_s segs idx Hr Hb Hs'.
  - assert (idx = len + 1) by lia. subst idx. cbn [trim_loop_g]. rewrite Bx_leb by lia.
    replace (len + 1 <=? len) with false by lia.
    destruct fuel_s; cbn [trim_loop]; replace (len + 1 <=? len) with false by lia;
      cbn [map_res]; rewrite gmap_layout_rev; reflexivity.
  - cbn [trim_loop_g]. rewrite Bx_leb by lia.
    destruct (idx <=? len) eqn:E.
    + destruct fuel_s as [|ks]; [lia|]. cbn [trim_loop]. rewrite E. rewrite Bx_in by lia.
      rewrite (sim_step_trim wrap idx ltac:(lia)).
      destruct (step_trim_good cw cw_range s width width_pos wrap Hwr ell0 idx ltac:(lia)) as (ln & idx' & Est & _ & Ei).
      rewrite <- Eell in Est. rewrite Est. cbn [map_tstep lbind].
      destruct (find_nl_spec s idx ltac:(lia)) as (A1 & _).
      change (gmap_line enc B ln :: gmap_layout enc B segs) with (gmap_layout enc B (ln :: segs)).
      apply IH; lia.
    + destruct fuel_s; cbn [trim_loop]; rewrite E; cbn [map_res]; rewrite gmap_layout_rev; reflexivity.
Qed.

End Ell.

(* ---------- the ellipsis string and the whole layout ---------- *)
(* calc_width of the mode on the encoding of ANY character string (the ellipsis, a rendered row) *)
Hypothesis Hroww : forall e, p_cw P (F e) 0 (zlen (F e)) = Ok (sumw cw e).
Hypothesis Hencsp : enc SP = [SP].

Lemma Hstrw e : str_width_g P (map enc e) = sumw cw e.
Proof. unfold str_width_g. rewrite <- flat_map_concat_map, Hroww. reflexivity. Qed.

Lemma g_trim_ell_rev r : trim_ell_rev_g P width (map enc r) = map enc (trim_ell_rev cw width r).
Proof.
  induction r as [|c r IH]; [reflexivity|]. cbn [map trim_ell_rev_g trim_ell_rev].
  change (enc c :: map enc r) with (map enc (c :: r)). rewrite <- map_rev, Hstrw, (sumw_rev cw).
  destruct (width - 1 <? sumw cw (c :: r)); [exact IH | reflexivity].
Qed.

Lemma g_trim_ell e : trim_ell_g P width (map enc e) = map enc (trim_ell cw width e).
Proof. unfold trim_ell_g, trim_ell. rewrite <- map_rev, g_trim_ell_rev, map_rev. reflexivity. Qed.

Definition gmap_result (r : result (list line)) : result (list line) :=
  match r with Ok L => Ok (gmap_layout enc B L) | Err e => Err e end.

Theorem g_layout_is_image align wrap ell0 :
  layout_g P bs width align wrap (map enc ell0) = gmap_result (layout cw s width align wrap ell0).
Proof.
  pose proof (zlen_nonneg s) as Hl. pose proof (B_gap 0 len ltac:(lia) ltac:(lia)) as Hg.
  rewrite B_len, B_0 in Hg.
  assert (Hx0 : Bx 0 = 0) by (unfold Bx; replace (0 <=? len) with true by lia; reflexivity).
  unfold layout_g, layout, calculate_text_segments_g, calculate_text_segments.
  assert (Hwrap : forall wr, wr = WAny \/ wr = WSpace ->
            wrap_loop_g P (Z.to_nat (2 * zlen bs + 3)) bs width wr [] 0
            = map_res (wrap_loop cw (Z.to_nat (2 * len + 3)) s width wr [] 0)).
  { intros wr Hwr.
    pose proof (sim_wrap_loop wr Hwr (Z.to_nat (2 * zlen bs + 3)) (Z.to_nat (2 * len + 3)) [] 0) as Q.
    rewrite Hx0 in Q. apply Q.
    - left. constructor.
    - lia.
    - unfold mu, flag; cbn [unwrap_candidate]. lia.
    - unfold mu, flag; cbn [unwrap_candidate]. lia. }
  assert (Htrim : forall wr, wr = WClip \/ wr = WEllipsis ->
            trim_loop_g P (Z.to_nat (zlen bs + 2)) bs width wr (trim_ell_g P width (map enc ell0)) [] 0
            = map_res (trim_loop cw (Z.to_nat (len + 2)) s width wr (trim_ell cw width ell0) [] 0)).
  { intros wr Hwr. rewrite g_trim_ell.
    pose proof (sim_trim_loop (trim_ell cw width ell0) (Hstrw _) (proj2 (ew_range cw cw_range width width_pos ell0))
                  wr Hwr ell0 eq_refl (Z.to_nat (zlen bs + 2)) (Z.to_nat (len + 2)) [] 0) as Q.
    rewrite Hx0 in Q. apply Q; lia. }
  assert (Hfin : forall r, match map_res r with
                           | LOk segs => Ok (align_layout width align segs) | LCant => Ok [[]] | LErr e => Err e end
                         = gmap_result match r with
                           | LOk segs => Ok (align_layout width align segs) | LCant => Ok [[]] | LErr e => Err e end).
  { intros [L| |e]; cbn [map_res gmap_result]; [rewrite galign_layout_map|..]; reflexivity. }
  destruct wrap.
  - rewrite Hwrap by (left; reflexivity). apply Hfin.
  - rewrite Hwrap by (right; reflexivity). apply Hfin.
  - rewrite Htrim by (left; reflexivity). apply Hfin.
  - rewrite Htrim by (right; reflexivity). apply Hfin.
Qed.

(* ---------- rendering: trim_line, subseg, the segment loop of apply_text_layout, TextCanvas ---------- *)
(* a bytes line corresponds to a str line: same kinds and widths, text ranges mapped by B, inserted text
   encoded; the offsets of padding segments are irrelevant for the rendered text *)
Inductive seg_sim : seg -> seg -> Prop :=
  | SS_text sc o e : 0 <= o <= e -> e <= len -> seg_sim (SText sc (B o) (B e)) (SText sc o e)
  | SS_ins sc ob o txt : seg_sim (SIns sc ob (F txt)) (SIns sc o txt)
  | SS_pad sc ob o : seg_sim (SPad sc ob) (SPad sc o)
  | SS_shift sc : seg_sim (SShift sc) (SShift sc).
Definition line_sim (lb l : line) : Prop := Forall2 seg_sim lb l.
Definition lres_line_sim (rb r : lres line) : Prop :=
  match rb, r with
  | LOk lb, LOk l => line_sim lb l
  | LCant, LCant => True
  | LErr e1, LErr e2 => e1 = e2
  | _, _ => False
  end.

Ltac sim_tac := repeat (first [apply Forall2_nil | apply Forall2_cons | apply SS_text | apply SS_pad | apply SS_shift | apply SS_ins]); try lia.

Lemma seg_sim_sc xb x : seg_sim xb x -> seg_sc xb = seg_sc x /\ seg_valid xb = seg_valid x.
Proof. intros H; inversion H; subst; split; reflexivity. Qed.

Lemma F_spaces n : F (spaces n) = spaces n.
Proof.
  unfold spaces. induction (Z.to_nat n) as [|k IH]; [reflexivity|]. cbn [repeatz flat_map]. rewrite Hencsp, IH. reflexivity.
Qed.

Lemma F_nil_iff l : F l = [] <-> l = [].
Proof.
  split; [|intros ->; reflexivity]. destruct l as [|c l]; [reflexivity|]. cbn [flat_map]. intros H.
  apply app_eq_nil in H. destruct H as (H & _). pose proof (Henc_len c). rewrite H in H0. unfold zlen in H0. cbn [length] in H0. lia.
Qed.

Lemma B_zero_iff e : 0 <= e <= len -> (B e =? 0) = (e =? 0).
Proof. intros H. pose proof (B_eqb e 0 H ltac:(pose proof (zlen_nonneg s); lia)) as Q. rewrite B_0 in Q. exact Q. Qed.

(* the segment loop of apply_text_layout *)
Lemma render_segs_sim lb l : line_sim lb l -> forall row, render_segs s l = LOk row -> render_segs bs lb = LOk (F row).
Proof.
  induction 1 as [|xb x lb l Hx Hl IH]; intros row E; cbn [render_segs] in *.
  - inversion E; reflexivity.
  - destruct (render_seg s x) as [r1| |] eqn:E1; cbn [lbind] in E; try discriminate.
    destruct (render_segs s l) as [r2| |] eqn:E2; cbn [lbind] in E; try discriminate.
    inversion E; subst row. rewrite (IH r2 eq_refl).
    assert (E1b : render_seg bs xb = LOk (F r1)).
    { destruct (seg_sim_sc _ _ Hx) as (_ & Hv). unfold render_seg in *. rewrite Hv.
      destruct (negb (seg_valid x)); [discriminate|].
      inversion Hx; subst; cbn [seg_sc] in *.
      - rewrite B_zero_iff by lia. destruct (e =? 0); inversion E1; subst; [now rewrite F_spaces|].
        f_equal. apply slice_of_bytes; lia.
      - destruct txt as [|c txt]; inversion E1; subst; [cbn [flat_map]; now rewrite F_spaces|].
        destruct (F (c :: txt)) eqn:EF; [apply (proj1 (F_nil_iff _)) in EF; discriminate | reflexivity].
      - inversion E1; subst. now rewrite F_spaces.
      - inversion E1; subst. now rewrite F_spaces. }
    rewrite E1b. cbn [lbind]. rewrite flat_map_app. reflexivity.
Qed.

(* util.calc_trim_text *)
Lemma g_trim_sim a b sc0 ec : 0 <= a <= b -> b <= len -> 0 <= sc0 -> sc0 < ec ->
  match calc_trim_text cw s a b sc0 ec with
  | LOk (sp, ep, pl, pr) => calc_trim_text_g P bs (B a) (B b) sc0 ec = LOk (B sp, B ep, pl, pr) /\ a <= sp <= ep /\ ep <= b
  | LCant => False
  | LErr e => False
  end.
Proof.
  intros H1 H2 H3 H4. unfold calc_trim_text, calc_trim_text_g, g_calc_trim_text.
  assert (Hfirst : exists sp pl, a <= sp <= b /\ (pl = 0 \/ pl = 1) /\
     (if 0 <? sc0
      then ' (spos1, sc1) <- calc_text_pos cw s a b sc0;;
           (if sc1 <? sc0 then ' (spos2, _) <- calc_text_pos cw s a b (sc0 + 1);; LOk (spos2, 1) else LOk (spos1, 0))
      else LOk (a, 0)) = LOk (sp, pl) /\
     (if 0 <? sc0
      then match p_ctp P bs (B a) (B b) sc0 with
           | Ok (spos_4, sc_5) =>
               match (if sc_5 <? sc0
                      then match p_ctp P bs (B a) (B b) (sc0 + 1) with Ok (spos_7, _) => Ok (1, spos_7) | Err e_ => Err e_ end
                      else Ok (0, spos_4)) with
               | Ok (pad_left_9, spos_10) => Ok (pad_left_9, spos_10)
               | Err e_ => Err e_
               end
           | Err e_ => Err e_
           end
      else Ok (0, B a)) = Ok (pl, B sp)).
  { destruct (0 <? sc0) eqn:E0.
    - destruct (HPctp a b sc0 H1 H2 H3) as (p1 & c1 & E1 & Hp1 & E2). rewrite E1, E2. cbn [lbind].
      destruct (c1 <? sc0).
      + destruct (HPctp a b (sc0 + 1) H1 H2 ltac:(lia)) as (p2 & c2 & E3 & Hp2 & E4). rewrite E3, E4. cbn [lbind].
        exists p2, 1. repeat split; try lia.
      + exists p1, 0. repeat split; try lia.
    - exists a, 0. repeat split; try lia. }
  destruct Hfirst as (sp & pl & Hspr & Hpl & -> & ->). cbn [lbind].
  destruct (HPctp sp b (ec - sc0 - pl) ltac:(lia) H2 ltac:(lia)) as (p3 & c3 & E5 & Hp3 & E6). rewrite E5, E6. cbn [lbind to_lres].
  destruct (c3 <? ec - sc0 - pl); cbn [to_lres]; repeat split; try lia.
Qed.

(* LayoutSegment.subseg on corresponding segments other than inserted text *)
Lemma subseg_sim xb x st en : seg_sim xb x -> (forall sc o txt, x <> SIns sc o txt) ->
  lres_line_sim (subseg_g P bs xb st en) (subseg cw s x st en).
Proof.
  intros Hx Hni. unfold subseg_g, subseg. destruct (seg_sim_sc _ _ Hx) as (Hsc & _). rewrite Hsc.
  destruct (Z.min en (seg_sc x) <=? Z.max st 0) eqn:E0; [cbn [lres_line_sim]; unfold line_sim; sim_tac|].
  inversion Hx; subst.
  - rewrite B_zero_iff by lia. destruct (e =? 0) eqn:Ee; [cbn [lres_line_sim]; unfold line_sim; sim_tac|].
    pose proof (g_trim_sim o e (Z.max st 0) (Z.min en sc) ltac:(lia) ltac:(lia) ltac:(lia) ltac:(cbn [seg_sc] in E0; lia)) as Q.
    cbn [seg_sc]. destruct (calc_trim_text cw s o e (Z.max st 0) (Z.min en sc)) as [[[[sp ep] pl] pr]| |]; try contradiction.
    destruct Q as (-> & Hspr & Hep). cbn [lbind].
    destruct (pl =? 0); destruct (Z.min en sc - Z.max st 0 - pl - pr =? 0); destruct (pr =? 0); cbn [app lres_line_sim];
      unfold line_sim; sim_tac.
  - exfalso. eapply Hni; reflexivity.
  - cbn [lres_line_sim]; unfold line_sim; sim_tac.
  - cbn [lres_line_sim]; unfold line_sim; sim_tac.
Qed.

Lemma line_sim_app a1 a2 b1 b2 : line_sim a1 a2 -> line_sim b1 b2 -> line_sim (a1 ++ b1) (a2 ++ b2).
Proof. apply Forall2_app. Qed.

(* trim_line *)
Lemma trim_line_sim lb l : line_sim lb l -> (forall sc o txt, ~ In (SIns sc o txt) l) ->
  forall st en x accb acc, line_sim accb acc ->
  lres_line_sim (trim_line_loop_g P bs lb st en x accb) (trim_line_loop cw s l st en x acc).
Proof.
  induction 1 as [|xb x0 lb l Hx Hl IH]; intros Hni st en x accb acc Hacc; cbn [trim_line_loop_g trim_line_loop].
  - exact Hacc.
  - destruct (seg_sim_sc _ _ Hx) as (Hsc & Hv). rewrite Hsc, Hv.
    assert (Hni' : forall sc o txt, ~ In (SIns sc o txt) l) by (intros sc o txt I; eapply Hni; right; exact I).
    assert (Hx0 : forall sc o txt, x0 <> SIns sc o txt) by (intros sc o txt ->; eapply Hni; left; reflexivity).
    destruct (negb (st =? 0) || (seg_sc x0 <? 0)).
    + destruct (seg_sc x0 <=? st); [apply IH; assumption|].
      destruct (negb (seg_valid x0)); [reflexivity|].
      destruct (en <=? x + seg_sc x0); [apply subseg_sim; assumption|].
      pose proof (subseg_sim xb x0 st (seg_sc x0) Hx Hx0) as Q.
      destruct (subseg_g P bs xb st (seg_sc x0)) as [sb| |]; destruct (subseg cw s x0 st (seg_sc x0)) as [sub| |];
        cbn [lres_line_sim lbind] in *; try contradiction; try exact Q.
      apply IH; [assumption | apply line_sim_app; assumption].
    + destruct (en <=? x); [exact Hacc|].
      destruct (en <? x + seg_sc x0).
      * destruct (negb (seg_valid x0)); [reflexivity|].
        pose proof (subseg_sim xb x0 0 (en - x) Hx Hx0) as Q.
        destruct (subseg_g P bs xb 0 (en - x)) as [sb| |]; destruct (subseg cw s x0 0 (en - x)) as [sub| |];
          cbn [lres_line_sim lbind] in *; try contradiction; try exact Q.
        apply line_sim_app; assumption.
      * apply IH; [assumption | apply line_sim_app; [assumption | unfold line_sim; apply Forall2_cons; [assumption | apply Forall2_nil]]].
Qed.

(* a line that fits is left as it is, in every mode (no position query is made) *)
Lemma trim_line_loop_g_id segs : forall acc, Forall (fun x => 0 <= seg_sc x <= width) segs ->
  trim_line_loop_g P bs segs 0 width 0 acc = LOk (acc ++ segs).
Proof.
  induction segs as [|x segs IH]; intros acc HF; cbn [trim_line_loop_g]; [now rewrite app_nil_r|].
  inversion HF as [|? ? Hs HF']; subst.
  replace (negb (0 =? 0) || (seg_sc x <? 0)) with false by lia.
  replace (width <=? 0) with false by lia. replace (width <? 0 + seg_sc x) with false by lia.
  rewrite IH by assumption. rewrite <- app_assoc. reflexivity.
Qed.

(* one row *)
Lemma render_line_sim lb l row : line_sim lb l ->
  (Forall (fun x => 0 <= seg_sc x <= width) l \/ forall sc o txt, ~ In (SIns sc o txt) l) ->
  render_line cw s width l = LOk row -> render_line_g P bs width lb = LOk (F row).
Proof.
  intros Hs Hcase E. unfold render_line, render_line_g in *. unfold trim_line in E.
  assert (Htl : lres_line_sim (trim_line_loop_g P bs lb 0 width 0 []) (trim_line_loop cw s l 0 width 0 [])).
  { destruct Hcase as [Hfit | Hni].
    - rewrite (trim_line_loop_id cw cw_range s width width_pos l [] Hfit).
      rewrite trim_line_loop_g_id; [exact Hs|].
      clear - Hs Hfit. induction Hs as [|xb x lb l Hx Hl IH]; [constructor|]. inversion Hfit; subst.
      constructor; [rewrite (proj1 (seg_sim_sc _ _ Hx)); assumption | apply IH; assumption].
    - apply trim_line_sim; [assumption | assumption | apply Forall2_nil]. }
  destruct (trim_line_loop cw s l 0 width 0 []) as [tl| |]; cbn [lbind] in E; try discriminate.
  destruct (trim_line_loop_g P bs lb 0 width 0 []) as [tlb| |]; cbn [lres_line_sim] in Htl; try contradiction.
  cbn [lbind]. destruct (render_segs s tl) as [r| |] eqn:Er; cbn [lbind] in E; try discriminate.
  rewrite (render_segs_sim tlb tl Htl r Er). cbn [lbind].
  unfold calc_width_g. rewrite Hroww. cbn [to_lres lbind].
  destruct (width <? sumw cw r); [discriminate|]. inversion E; subst.
  rewrite flat_map_app, F_spaces. reflexivity.
Qed.

(* the lines of a layout: text ranges inside the text, and the line fits or carries no inserted text *)
Definition line_ok (l : line) : Prop :=
  (forall sc o e, In (SText sc o e) l -> 0 <= o <= e /\ e <= len) /\
  (Forall (fun x => 0 <= seg_sc x <= width) l \/ forall sc o txt, ~ In (SIns sc o txt) l).

Lemma gmap_line_sim l : (forall sc o e, In (SText sc o e) l -> 0 <= o <= e /\ e <= len) -> line_sim (gmap_line enc B l) l.
Proof.
  induction l as [|x l IH]; intros H; [apply Forall2_nil|]. cbn [gmap_line map]. apply Forall2_cons.
  - destruct x as [sc o e|sc o txt|sc o|sc]; cbn [gmap_seg]; [|apply SS_ins | apply SS_pad | apply SS_shift].
    destruct (H sc o e (or_introl eq_refl)). apply SS_text; assumption.
  - apply IH. intros sc o e I. apply (H sc o e). right; exact I.
Qed.

Theorem render_lines_sim L : Forall line_ok L -> forall rows, render_lines cw s width L = LOk rows ->
  render_lines_g P bs width (gmap_layout enc B L) = LOk (map F rows).
Proof.
  induction 1 as [|l L Hl HL IH]; intros rows E; cbn [render_lines gmap_layout map render_lines_g] in *.
  - inversion E; reflexivity.
  - destruct (render_line cw s width l) as [r| |] eqn:E1; cbn [lbind] in E; try discriminate.
    destruct (render_lines cw s width L) as [rs| |] eqn:E2; cbn [lbind] in E; try discriminate.
    inversion E; subst rows. destruct Hl as (Hb & Hc).
    rewrite (render_line_sim (gmap_line enc B l) l r (gmap_line_sim l Hb) Hc E1). cbn [lbind].
    unfold gmap_layout in IH. rewrite (IH rs eq_refl). reflexivity.
Qed.

(* Text.render / Text.rows on the bytes = the encoding of the str rows *)
Theorem g_text_render_sim align wrap ell0 L rows :
  layout cw s width align wrap ell0 = Ok L -> Forall line_ok L ->
  text_render cw s width align wrap ell0 = LOk rows ->
  text_render_g P bs width align wrap (map enc ell0) = LOk (map F rows) /\
  text_rows_g P bs width align wrap (map enc ell0) = LOk (zlen rows) /\
  Forall (fun rb => p_cw P rb 0 (zlen rb) = Ok width) (map F rows).
Proof.
  intros EL Hok E. unfold text_render, text_render_g, text_rows_g in *.
  rewrite g_layout_is_image, EL in *. cbn [gmap_result to_lres lbind] in *.
  pose proof (render_lines_length cw s width L rows E) as Hlen.
  split; [apply render_lines_sim; assumption|]. split.
  - unfold gmap_layout, zlen in *. rewrite map_length. f_equal. lia.
  - (* every str row is width columns wide: it passed the TextCanvas check and was padded *)
    clear Hlen EL Hok. revert rows E. induction L as [|l L IH]; intros rows E; cbn [render_lines] in E.
    + inversion E; constructor.
    + destruct (render_line cw s width l) as [r| |] eqn:E1; cbn [lbind] in E; try discriminate.
      destruct (render_lines cw s width L) as [rs| |] eqn:E2; cbn [lbind] in E; try discriminate.
      inversion E; subst rows. cbn [map]. constructor; [|apply IH; reflexivity].
      rewrite Hroww. f_equal. unfold render_line in E1.
      destruct (trim_line cw s l 0 width) as [tl| |]; cbn [lbind] in E1; try discriminate.
      destruct (render_segs s tl) as [r0| |]; cbn [lbind] in E1; try discriminate.
      destruct (width <? sumw cw r0) eqn:Ew; [discriminate|]. inversion E1; subst r.
      rewrite (sumw_app cw), (sumw_spaces cw), Hsp. lia.
Qed.

End GSim.
