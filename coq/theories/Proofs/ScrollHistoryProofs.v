(* C20 - histories and cursor following.
   (a) cursor-following scroll: when the wrapped widget moved its cursor with the last key, the position chosen by
       _adjust_trim_top keeps the cursor row inside the window, and render then shows the cursor and forwards keys;
   (b) an invariant over ALL histories, by induction over the operation list: after every render of every history of
       renders/resizes, keys, mouse/wheel events, set_scrollpos(any integer) and content changes (the observations of
       each operation are arbitrary well-formed values) the position is within [0, max 0 (rows - maxrow)], nothing is
       pending, no operation raises.  Well-formedness of the observations is a BOOLEAN predicate ([op_okb]). *)
From Coq Require Import ZArith QArith List Bool Lia ZifyBool.
From Urwid Require Import PyBase ScrollBase scrollable_gen ScrollFloat Scrollable ScrollableProofs ScrollFloatProofs ScrollBarProofs.
Import ListNotations.
Open Scope Z_scope.
Arguments Z.add : simpl never. Arguments Z.sub : simpl never. Arguments Z.mul : simpl never.
Arguments Z.ltb : simpl never. Arguments Z.leb : simpl never. Arguments Z.eqb : simpl never.
Arguments Z.min : simpl never. Arguments Z.max : simpl never.

(* ---------- (a) cursor following ---------- *)

(* the test of _adjust_trim_top: "self._old_cursor_coords is not None and self._old_cursor_coords != canv.cursor
   and canv.cursor is not None" *)
Definition cursor_moved (old cur : coords) : bool :=
  match old, cur with
  | Some _, Some _ => negb (coords_eqb old cur)
  | _, _ => false
  end.

Lemma adjust_follows_cursor tp act old rows c r maxcol maxrow :
  1 <= maxrow -> 0 <= r < rows -> cursor_moved old (Some (c, r)) = true ->
  match adjust_trim_top_gen tp act old rows (Some (c, r)) (maxcol, maxrow) with
  | (tp', _, old') => tp' <= r < tp' + maxrow /\ (maxrow < rows -> old' = None)
  end.
Proof.
  intros Hm Hr Hc. unfold cursor_moved in Hc. destruct old as [[oc or]|]; [|discriminate].
  unfold adjust_trim_top_gen.
  destruct act; cbn -[Z.add Z.sub Z.ltb Z.leb Z.min Z.max Z.eqb coords_eqb];
  cbn -[Z.add Z.sub Z.ltb Z.leb Z.min Z.max Z.eqb coords_eqb] in Hc;
  repeat match goal with
  | |- context [if ?b then _ else _] => destruct b eqn:?; cbn -[Z.add Z.sub Z.ltb Z.leb Z.min Z.max Z.eqb coords_eqb]
  end; try (split; [lia|intros; reflexivity]); try (split; [lia|intros; lia]); try discriminate; try lia.
Qed.

(* render after such a key: the cursor is in the view (row r - p, 0 <= r - p < maxrow), keys are forwarded *)
Lemma s_render_follows_cursor st maxcol maxrow ob c r :
  1 <= maxrow -> ob_ok ob -> fits ob maxcol maxrow = false ->
  c_cursor ob = Some (c, r) -> 0 <= c < Z.min (c_cols ob) maxcol ->
  cursor_moved (old_cursor st) (Some (c, r)) = true ->
  exists st' v,
    s_render st maxcol maxrow ob = Ok (st', v) /\
    trim_top st' <= r < trim_top st' + maxrow /\
    v_cursor v = Some (c, r - trim_top st') /\
    forward st' = true /\ (maxrow < c_rows ob -> old_cursor st' = None).
Proof.
  intros Hm (Hr & Hcc & Hcur) Hf Hc Hcol Hmv. unfold fits in Hf. unfold s_render. rewrite Hf, Hc.
  rewrite Hc in Hcur. unfold cursor_ok in Hcur.
  set (fill := if (c_rows ob <=? maxrow) && (0 <? maxrow - c_rows ob) then maxrow - c_rows ob else 0).
  assert (Hfill : fill = Z.max 0 (maxrow - c_rows ob)).
  { subst fill. destruct ((c_rows ob <=? maxrow) && (0 <? maxrow - c_rows ob)) eqn:?; lia. }
  set (pad := if (c_cols ob <=? maxcol) && (0 <? maxcol - c_cols ob) then maxcol - c_cols ob else 0).
  assert (Hpad : pad = Z.max 0 (maxcol - c_cols ob)).
  { subst pad. destruct ((c_cols ob <=? maxcol) && (0 <? maxcol - c_cols ob)) eqn:?; lia. }
  pose proof (adjust_follows_cursor (trim_top st) (action st) (old_cursor st) (c_rows ob + fill) c r maxcol maxrow
                Hm ltac:(lia) Hmv) as Hfo.
  pose proof (adjust_spec (trim_top st) (action st) (old_cursor st) (c_rows ob + fill) (Some (c, r)) maxcol maxrow
                Hm ltac:(unfold cursor_ok; lia)) as Hsp.
  destruct (adjust_trim_top_gen (trim_top st) (action st) (old_cursor st) (c_rows ob + fill) (Some (c, r)) (maxcol, maxrow))
    as [[tp act] old]. destruct Hfo as [Hv Ho]. destruct Hsp as [_ Hrg].
  destruct ((0 <? tp) && (c_rows ob + fill <=? tp)) eqn:E1; [exfalso; lia|].
  destruct ((0 <? c_rows ob - maxrow - tp) &&
            ((if 0 <? tp then c_rows ob + fill - tp else c_rows ob + fill) <? c_rows ob - maxrow - tp)) eqn:E2.
  { exfalso. destruct (0 <? tp) eqn:?; lia. }
  eexists. eexists. split; [reflexivity|]. cbn [trim_top v_cursor forward old_cursor].
  split; [exact Hv|].
  (* the cursor survives every _drop_cursor_outside and the final row test *)
  assert (Hcur_final :
    (     let rows1 := if 0 <? tp then c_rows ob + fill - tp else c_rows ob + fill in
     let rows2 := if 0 <? c_rows ob - maxrow - tp then rows1 - (c_rows ob - maxrow - tp) else rows1 in
     let cols1 := c_cols ob + pad in
     let cur_a := if 0 <? tp then inside_canvas cols1 rows1 (Some (c, r - tp)) else Some (c, r) in
     let cur_b := if 0 <? c_rows ob - maxrow - tp then inside_canvas cols1 rows2 cur_a else cur_a in
     let cur1 := if 0 <? c_cols ob - maxcol then inside_canvas (cols1 + - (c_cols ob - maxcol)) rows2 cur_b else cur_b in
     match cur1 with
     | Some (c0, r0) => if (maxrow <=? r0) || (r0 <? 0) then None else Some (c0, r0)
     | None => None end) = Some (c, r - tp)).
  { cbv zeta. unfold inside_canvas.
    repeat match goal with
    | |- context [if ?b then _ else _] => destruct b eqn:?; cbn
    end; try reflexivity; try (exfalso; lia); repeat f_equal; lia. }
  cbv zeta in Hcur_final. fold fill pad. rewrite Hcur_final.
  split; [reflexivity|]. split; [reflexivity|]. intros Hov. apply Ho. lia.
Qed.

(* ---------- (b) the invariant over all histories ---------- *)

Definition cursor_okb (cur : coords) (rows : Z) : bool :=
  match cur with Some (_, r) => (0 <=? r) && (r <? rows) | None => true end.
Definition ob_okb (ob : cobs) : bool :=
  (0 <=? c_rows ob) && (0 <=? c_cols ob) && cursor_okb (c_cursor ob) (c_rows ob).
Definition bobs_okb (ob : bobs) : bool :=
  ob_okb (o_canvas ob) && (c_rows (o_canvas ob) =? o_rows_w ob) && (o_rows_full ob <=? o_rows_w ob).

Lemma ob_okb_ok ob : ob_okb ob = true <-> ob_ok ob.
Proof.
  unfold ob_okb, ob_ok, cursor_okb, cursor_ok. destruct (c_cursor ob) as [[? ?]|]; split; intros H; try lia;
  repeat split; try lia.
Qed.
Lemma bobs_okb_ok ob : bobs_okb ob = true <-> bobs_ok ob.
Proof.
  unfold bobs_okb, bobs_ok. rewrite <- ob_okb_ok. split; intros H.
  - apply andb_true_iff in H. destruct H as [H H3]. apply andb_true_iff in H. destruct H as [H1 H2]. repeat split; try assumption; lia.
  - destruct H as (H1 & H2 & H3). rewrite H1. cbn [andb]. lia.
Qed.

(* well-formedness of one operation's observations (boolean).  For a bare Scrollable: a view of at least one row and a
   sane wrapped canvas.  Under a ScrollBar additionally: heights below 2^53 and a wrapped widget whose rows()/pack()
   agree with what it renders.  Keys, mouse events, set_scrollpos: no condition at all. *)
Definition op_okb (bar : bool) (o : op) : bool :=
  match o with
  | ORender maxcol maxrow ob =>
      (1 <=? maxrow) && ob_okb (o_canvas ob) &&
      (if bar then (maxrow <? 2 ^ 53) && (o_rows_w ob <? 2 ^ 53) && ((o_rows_full ob <=? maxrow) || bobs_okb ob) else true)
  | _ => true
  end.

(* what must hold after a render step: no exception (error code 0 in the reply), position in range for the canvas
   just rendered, nothing pending *)
Definition step_good (w : wstate) (o : op) : Prop :=
  match o with
  | ORender maxcol maxrow ob =>
      nth 1 (snd (step w o)) 0 = 0 /\
      0 <= trim_top (w_inner (fst (step w o))) <= Z.max 0 (c_rows (o_canvas ob) - maxrow) /\
      action (w_inner (fst (step w o))) = ANone
  | _ => True
  end.

Fixpoint all_steps_good (w : wstate) (ops : list op) : Prop :=
  match ops with
  | [] => True
  | o :: r => step_good w o /\ all_steps_good (fst (step w o)) r
  end.

Lemma step_render_good w maxcol maxrow ob :
  op_okb (has_bar w) (ORender maxcol maxrow ob) = true -> step_good w (ORender maxcol maxrow ob).
Proof.
  intros H. cbn [op_okb] in H. apply andb_true_iff in H. destruct H as [H Hbar].
  apply andb_true_iff in H. destruct H as [Hm Hob]. apply ob_okb_ok in Hob. assert (Hm' : 1 <= maxrow) by lia.
  destruct w as [hb fo fx b]. cbn [has_bar] in Hbar. unfold step_good, w_inner. cbn [step has_bar bs force fixed_child].
  destruct hb.
  - apply andb_true_iff in Hbar. destruct Hbar as [Hbar Hdis]. apply andb_true_iff in Hbar. destruct Hbar as [Hh Hw].
    destruct (o_rows_full ob <=? maxrow) eqn:Efit.
    + destruct (b_render_no_bar b maxcol maxrow ob Hm' Hob ltac:(lia)) as (bs' & v & E & Es & _).
      rewrite E. cbn [fst snd bs inner nth].
      destruct (s_render_reports _ _ _ _ _ _ Hm' Hob Es) as (T & R & A). repeat split; try lia; assumption.
    + cbn [orb] in Hdis. apply bobs_okb_ok in Hdis.
      destruct (b_render_bar b maxcol maxrow ob ltac:(lia) ltac:(lia) Hdis ltac:(lia))
        as (bs' & br & v & E & _ & _ & T & R & _).
      rewrite E. cbn [fst snd bs inner nth]. split; [reflexivity|]. split; [lia|].
      (* the action: b_render goes through s_render *)
      unfold b_render in E. destruct (maxrow <? o_rows_full ob) eqn:E0; [|lia].
      destruct (s_render (s_rows_max (inner b) (o_rows_full ob)) (Z.max 0 (maxcol - bar_width_raw b)) maxrow (o_canvas ob))
        as [[st1 v1]|] eqn:Es; [|discriminate].
      destruct (s_render_reports _ _ _ _ _ _ Hm' Hob Es) as (_ & _ & A).
      destruct (thumb_geom _ _ _ _) as [[t0 t1] t2]. destruct ((t0 <? 0) || (t1 <? 0) || (t2 <? 0)); [discriminate|].
      inversion E; subst. cbn [inner s_rows_max action]. exact A.
  - destruct (s_render_total (inner b) maxcol maxrow (o_canvas ob) Hm' Hob) as (st' & v & E & R & _ & _ & _ & _ & T & A & _).
    rewrite E. cbn [fst snd with_inner bs inner nth has_bar force fixed_child]. repeat split; try lia; assumption.
Qed.

(* THE INVARIANT, by induction over the history: any list of operations whose observations are well formed *)
Theorem run_invariant : forall ops w,
  forallb (op_okb (has_bar w)) ops = true -> all_steps_good w ops.
Proof.
  induction ops as [|o r IH]; intros w H; [exact I|].
  cbn [forallb] in H. apply andb_true_iff in H. destruct H as [Ho Hr]. cbn [all_steps_good]. split.
  - destruct o; try exact I. apply step_render_good. exact Ho.
  - apply IH. rewrite step_has_bar. exact Hr.
Qed.

(* non-vacuity: a history with a huge set_scrollpos, keys, a wheel event, a resize and a content change (the second and
   third renders see canvases of other sizes) satisfies the predicate, and the positions it goes through are not trivial *)
Definition ex_history : list op :=
  [ OSetPos (2 ^ 60);
    ORender 6 5 (BObs 12 (CObs 5 12 None false) 12);
    OKey 6 KPageUp (KObs false None false KPageUp);
    ORender 6 5 (BObs 12 (CObs 5 12 None false) 12);
    OMouse 6 5 0 false false;
    ORender 6 3 (BObs 12 (CObs 5 12 None false) 12);
    ORender 6 3 (BObs 2 (CObs 6 2 None false) 0);
    OSetPos (-1);
    ORender 6 3 (BObs 40 (CObs 5 40 None false) 40) ].

Example ex_history_ok :
  forallb (op_okb true) ex_history = true /\
  map (fun w => trim_top (w_inner w))
      (let w0 := WState true false false (binit 1) in
       [run_state w0 (firstn 2 ex_history); run_state w0 (firstn 4 ex_history); run_state w0 (firstn 6 ex_history);
        run_state w0 (firstn 7 ex_history); run_state w0 ex_history])
  = [7; 3; 4; 0; 37].
Proof. vm_compute. split; reflexivity. Qed.
