(* GridFlow composed with the models of its parts: every row of the display widget is a
   Padding (translated calculate_left_right_padding) around a Columns (column_widths) of GIVEN
   cells; the row is placed inside maxcol and its Columns shows every cell at its width.
   Also: at its natural (packed) width a GridFlow is a single row. *)
From Coq Require Import ZArith List Bool Lia ZifyBool.
Import ListNotations.
From Urwid Require Import PyBase layout_gen Layout LayoutArith LayoutLists LayoutColumns LayoutOthers.
Open Scope Z_scope.

Arguments Z.add : simpl never.
Arguments Z.sub : simpl never.
Arguments Z.mul : simpl never.
Arguments Z.ltb : simpl never.
Arguments Z.leb : simpl never.
Arguments Z.eqb : simpl never.
Arguments Z.min : simpl never.
Arguments Z.max : simpl never.
Arguments Z.of_nat : simpl never.

Definition givens (ws : list Z) : list col := map (fun w => (KGiven, w)) ws.

Lemma zsum_slack div ws : Forall (fun w => 0 <= w + div) ws -> 0 <= zsum ws + div * zlen ws.
Proof.
  induction 1 as [|w r Hw Hr IH]; cbn [zsum]; [change (zlen (@nil Z)) with 0; lia|]. rewrite zlen_cons. lia.
Qed.

(* the first loop takes every column when they fit exactly *)
Lemma cw_scan_all_given div minw focus ws : forall i,
  Forall (fun w => 0 <= w + div) ws ->
  cw_scan div minw focus (givens ws) i (zsum ws + div * zlen ws) = (ws, [], 0).
Proof.
  induction ws as [|w r IH]; intros i H.
  - cbn. change (zlen (@nil Z)) with 0. f_equal. f_equal. lia.
  - inversion H as [|? ? Hw Hr]; subst. cbn [givens map cw_scan]. fold (givens r).
    unfold static_of, is_weight. cbn [fst snd].
    pose proof (zsum_slack div r Hr) as Hs. cbn [zsum]. rewrite zlen_cons.
    destruct ((w + zsum r + div * (1 + zlen r) <? w + div) && (focus <? i)) eqn:Eb; [lia|].
    replace (w + zsum r + div * (1 + zlen r) - (w + div)) with (zsum r + div * zlen r) by lia.
    rewrite (IH (i + 1) Hr). reflexivity.
Qed.

(* a Columns of GIVEN columns laid out in exactly the columns they need shows every one at its
   width, wherever the focus is *)
Lemma cw_all_given_exact div minw focus ws :
  Forall (fun w => 0 <= w + div) ws ->
  column_widths (givens ws) div minw focus (zsum ws + div * (zlen ws - 1)) = Ok ws.
Proof.
  intros H. unfold column_widths.
  replace (zsum ws + div * (zlen ws - 1) + div) with (zsum ws + div * zlen ws) by lia.
  rewrite (cw_scan_all_given div minw focus ws 0 H).
  destruct ws as [|w r]; reflexivity.
Qed.

Lemma align_pct_range al : 0 <= align_pct al 0 <= 100.
Proof. destruct al; cbn; lia. Qed.

Lemma row_need_pad hsep row : gridflow_pad_width hsep row = row_need hsep row.
Proof. unfold gridflow_pad_width, row_used, row_need. lia. Qed.

(* one row of the display widget *)
Lemma gridflow_row_layout_ok maxcol hsep al gfocus row :
  row_good maxcol hsep row -> Forall (fun p => 0 <= snd p + hsep) row -> 0 <= row_need hsep row ->
  let '((l, r), inner) := gridflow_row_layout maxcol hsep al gfocus row in
  0 <= l /\ 0 <= r /\ l + row_need hsep row + r = maxcol /\ inner = Ok (map snd row).
Proof.
  intros [Hne Hfit] Hw Hnn. unfold gridflow_row_layout. rewrite row_need_pad.
  pose proof (clrp_fits maxcol al 0 WGiven (row_need hsep row) None 0 0) as Hf. cbv zeta in Hf.
  unfold clrp_width in Hf.
  specialize (Hf (align_pct_range al) ltac:(lia) ltac:(lia) Hnn ltac:(lia)).
  destruct (calculate_left_right_padding maxcol al 0 WGiven (row_need hsep row) None 0 0) as [l r].
  destruct Hf as [Hsum [Hl [Hr _]]].
  repeat split; try lia.
  unfold padding_child_cols. cbn [fst snd].
  replace (maxcol - (l + r)) with (row_need hsep row) by lia.
  unfold row_need. rewrite <- (zlen_map snd row).
  replace (map (fun p : Z * Z => (KGiven, snd p)) row) with (givens (map snd row))
    by (unfold givens; rewrite map_map; reflexivity).
  apply cw_all_given_exact. rewrite Forall_map. exact Hw.
Qed.

(* every row the row-breaking produces, for every cell list *)
Theorem gridflow_rows_layout maxcol hsep al gfocus cells :
  0 <= hsep -> Forall (fun w => 0 <= w) cells -> 0 <= maxcol ->
  Forall (fun row =>
            let '((l, r), inner) := gridflow_row_layout maxcol hsep al gfocus row in
            0 <= l /\ 0 <= r /\ l + row_need hsep row + r = maxcol /\ inner = Ok (map snd row))
         (gridflow_rows maxcol hsep cells).
Proof.
  intros Hh Hc Hm.
  pose proof (grid_row_fits maxcol hsep cells) as Hgood.
  (* every cell of every row is one of cells_tagged, hence has width min(w, maxcol) >= 0 *)
  assert (Hw : Forall (fun row => Forall (fun p : Z * Z => 0 <= snd p) row) (gridflow_rows maxcol hsep cells)).
  { apply Forall_forall. intros row Hrow. apply Forall_forall. intros p Hp.
    assert (Hin : In p (concat (gridflow_rows maxcol hsep cells))) by (apply in_concat; eauto).
    rewrite grid_rows_concat in Hin. clear - Hin Hc Hm. revert Hin. generalize 0 at 1. induction Hc as [|w r Hw Hr IH]; intros i Hin; [destruct Hin|].
    cbn [cells_tagged In] in Hin. destruct Hin as [<-|Hin]; [cbn; lia|eauto]. }
  rewrite Forall_forall in *. intros row Hrow.
  specialize (Hgood row Hrow). specialize (Hw row Hrow).
  apply gridflow_row_layout_ok; [exact Hgood| |].
  - eapply Forall_impl; [|exact Hw]. cbn. intros; lia.
  - destruct Hgood as [Hne _]. unfold row_need.
    assert (0 <= zsum (map snd row)) by (apply zsum_nonneg; rewrite Forall_map; exact Hw).
    destruct row; [congruence|]. rewrite zlen_cons. pose proof (zlen_nonneg row). nia.
Qed.

(* ---------------- a single row when everything fits ---------------- *)

Lemma gf_loop_single maxcol hsep : forall cells i cur,
  0 <= hsep -> Forall (fun w => 0 <= w) cells -> cur <> [] ->
  row_used hsep cur + zsum cells + hsep * (zlen cells - 1) <= maxcol \/ cells = [] ->
  gf_loop maxcol hsep cells i true cur [] = [rev cur ++ cells_tagged maxcol cells i].
Proof.
  induction cells as [|w r IH]; intros i cur Hh Hc Hcur Hfit.
  - cbn. now rewrite app_nil_r.
  - inversion Hc as [|? ? Hw Hr]; subst. destruct Hfit as [Hfit|]; [|discriminate].
    cbn [gf_loop cells_tagged negb orb andb]. cbn [zsum] in Hfit. rewrite zlen_cons in Hfit.
    pose proof (zsum_nonneg r Hr) as Hs. pose proof (zlen_nonneg r) as Hl.
    assert (Hrest : 0 <= zsum r + hsep * zlen r) by nia.
    destruct (maxcol - row_used hsep cur <? w) eqn:E; [lia|].
    rewrite IH; try assumption; try discriminate.
    + cbn [rev]. rewrite <- app_assoc. reflexivity.
    + destruct r as [|w2 r2]; [right; reflexivity|left].
      unfold row_used in *. cbn [map snd zsum]. rewrite zlen_cons in *. cbn [zsum] in *.
      assert (Z.min w maxcol <= w) by lia. lia.
Qed.

Theorem grid_single_row maxcol hsep cells :
  0 <= hsep -> Forall (fun w => 0 <= w) cells -> cells <> [] ->
  zsum cells + hsep * (zlen cells - 1) <= maxcol ->
  gridflow_rows maxcol hsep cells = [cells_tagged maxcol cells 0].
Proof.
  intros Hh Hc Hne Hfit. destruct cells as [|w r]; [congruence|].
  inversion Hc as [|? ? Hw Hr]; subst.
  unfold gridflow_rows. cbn [gf_loop negb orb andb cells_tagged].
  rewrite gf_loop_single; try assumption; try discriminate; [reflexivity|].
  destruct r as [|w2 r2]; [right; reflexivity|left].
  unfold row_used. cbn [map snd zsum]. rewrite !zlen_cons in *. cbn [zsum] in *.
  change (zlen (@nil (Z * Z))) with 0. assert (Z.min w maxcol <= w) by lia. lia.
Qed.

(* GridFlow.pack(()): at the natural width n*cw + (n-1)*h_sep a GridFlow of n cells of the
   configured width cw is one row holding every cell at width cw *)
Corollary grid_natural_width_single_row n cw hsep :
  0 <= hsep -> 0 <= cw -> (0 < n)%nat ->
  let cells := repeat cw n in
  let natw := gridflow_natural_width (zlen cells) cw hsep in
  gridflow_rows natw hsep cells = [cells_tagged natw cells 0] /\
  Forall (fun p => snd p = cw) (cells_tagged natw cells 0).
Proof.
  intros Hh Hcw Hn cells natw.
  assert (Hlen : zlen cells = Z.of_nat n) by (subst cells; apply zlen_repeat).
  assert (Hsum : zsum cells = Z.of_nat n * cw).
  { subst cells. clear. induction n; cbn [repeat zsum]; [lia|]. rewrite IHn. lia. }
  assert (Hnat : natw = Z.of_nat n * cw + (Z.of_nat n - 1) * hsep).
  { subst natw. unfold gridflow_natural_width. rewrite Hlen. destruct (0 <? Z.of_nat n) eqn:E; lia. }
  assert (Hall : Forall (fun w => 0 <= w) cells).
  { subst cells. apply Forall_forall. intros x Hx. apply repeat_spec in Hx. lia. }
  split.
  - apply grid_single_row; try assumption.
    + subst cells. destruct n; [lia|discriminate].
    + rewrite Hsum, Hlen, Hnat. lia.
  - assert (cw <= natw) by (rewrite Hnat; nia).
    subst cells. clearbody natw. generalize 0. clear - H.
    induction n; intros i; cbn [repeat cells_tagged]; [constructor|constructor; [cbn; lia|apply IHn]].
Qed.
