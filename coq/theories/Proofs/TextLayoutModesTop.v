(* The order / omission / fits / rows / render theorems of the str layout, lifted to bytes text in the wide and
   narrow byte-encoding modes through the boundary map (generic part), then instantiated. *)
From Coq Require Import ZArith List Bool Lia ZifyBool.
Import ListNotations.
From Urwid Require Import PyBase PyList TextLayout TextLayoutBytes TextLayoutModes TextLayoutFacts TextLayoutProofs TextLayoutTop
     TextLayoutClip TextLayoutLines TextLayoutModesSim TextLayoutModesWide.
Open Scope Z_scope.

Arguments Z.add : simpl never.
Arguments Z.sub : simpl never.
Arguments Z.ltb : simpl never.
Arguments Z.leb : simpl never.
Arguments Z.eqb : simpl never.

Definition map_range (f : Z -> Z) (r : Z * Z) : Z * Z := (f (fst r), f (snd r)).

Lemma gline_ranges_map enc f l : line_ranges (gmap_line enc f l) = map (map_range f) (line_ranges l).
Proof.
  induction l as [|x l IH]; [reflexivity|]. unfold line_ranges in *. cbn [gmap_line map flat_map].
  unfold gmap_line in IH. rewrite IH, map_app. f_equal. destruct x; reflexivity.
Qed.

Lemma gshown_ranges_map enc f L : shown_ranges (gmap_layout enc f L) = map (map_range f) (shown_ranges L).
Proof.
  induction L as [|l L IH]; [reflexivity|]. unfold shown_ranges in *. cbn [gmap_layout map flat_map].
  unfold gmap_layout in IH. rewrite IH, map_app, gline_ranges_map. reflexivity.
Qed.

Lemma ranges_sorted_map f hi0 : (forall a b, 0 <= a <= b -> b <= hi0 -> f a <= f b) ->
  (forall a b, 0 <= a < b -> b <= hi0 -> f a < f b) ->
  forall rs lo, 0 <= lo -> ranges_sorted lo rs hi0 -> ranges_sorted (f lo) (map (map_range f) rs) (f hi0).
Proof.
  intros Hm Hst. induction rs as [|[o e] r IH]; intros lo Hlo H; cbn [map ranges_sorted map_range fst snd] in *.
  - apply Hm; lia.
  - destruct H as (A & Bb & C). pose proof (ranges_sorted_bounds _ _ _ C) as (D & _).
    split; [apply Hm; lia|]. split; [apply Hst; lia|]. apply IH; [lia | assumption].
Qed.

Section GTop.
Variable enc : Z -> list Z.
Hypothesis Henc_len : forall c, 1 <= zlen (enc c).
Variable s : list Z.
Variable cw : Z -> Z.
Hypothesis cw_range : forall c, 0 <= cw c <= 2.
Hypothesis Hsp : cw SP = 1.
Variable P : prims.
Variable width : Z.
Hypothesis Hwd : 1 <= width.
Hypothesis Himg : forall align wrap ell,
  layout_g P (flat_map enc s) width align wrap (map enc ell) = gmap_result enc s (layout cw s width align wrap ell).
Variable align : alignmode.
Variable wrap : wrapmode.
Variable ell : list Z.

Notation bs := (flat_map enc s).
Notation B := (gboff enc s).
Notation len := (zlen s).
Notation layout_b := (layout_g P bs width align wrap (map enc ell)).

Lemma g_image Lb : layout_b = Ok Lb ->
  exists L, layout cw s width align wrap ell = Ok L /\ Lb = gmap_layout enc B L.
Proof.
  rewrite Himg. destruct (layout cw s width align wrap ell) as [L|e]; cbn [gmap_result]; intros E; inversion E. eauto.
Qed.
(* every byte offset lies inside exactly one character *)
Lemma g_char_of_byte j : 0 <= j < zlen bs -> exists k, 0 <= k < len /\ B k <= j < B (k + 1).
Proof.
  intros Hj. rewrite <- (B_len enc s) in Hj.
  assert (G : forall n : nat, Z.of_nat n <= len -> j < B (Z.of_nat n) -> exists k, 0 <= k < Z.of_nat n /\ B k <= j < B (k + 1)).
  { induction n as [|n IH]; intros Hn Hlt.
    - change (B (Z.of_nat 0)) with 0 in Hlt. lia.
    - destruct (Z_lt_le_dec j (B (Z.of_nat n))) as [L|Ge].
      + destruct (IH ltac:(lia) L) as (k & Hk & Hb). exists k. split; [lia | assumption].
      + exists (Z.of_nat n). split; [lia|]. replace (Z.of_nat n + 1) with (Z.of_nat (S n)) by lia. lia. }
  pose proof (zlen_nonneg s). destruct (G (Z.to_nat len) ltac:(lia) ltac:(replace (Z.of_nat (Z.to_nat len)) with len by lia; lia)) as (k & Hk & Hb).
  exists k. split; [lia | assumption].
Qed.

Theorem g_layout_order Lb : layout_b = Ok Lb ->
  ranges_sorted 0 (shown_ranges Lb) (zlen bs).
Proof.
  intros E. destruct (g_image Lb E) as (L & EL & ->).
  pose proof (layout_order cw cw_range Hsp s width Hwd align ell wrap L EL) as S0.
  rewrite gshown_ranges_map. rewrite <- (B_len enc s). change 0 with (B 0) at 1.
  apply ranges_sorted_map; try assumption; try lia.
  - intros a b H1 H2. apply (B_mono enc Henc_len s); assumption.
  - intros a b H1 H2. apply (B_strict enc Henc_len s); assumption.
Qed.

(* lines keep their widths; a text segment spans whole characters and claims exactly their columns, which is
   also what the byte-mode calc_width reports for that byte range *)
Theorem g_layout_fits Lb : is_wrap wrap -> layout_b = Ok Lb ->
  forall ln, In ln Lb -> 0 <= line_width ln <= width /\
    forall sc o e, In (SText sc o e) ln ->
      exists o' e', o = B o' /\ e = B e' /\ 0 <= o' < e' /\ e' <= len /\ sc = sumw cw (slice s o' e').
Proof.
  intros Hm E ln I. destruct (g_image Lb E) as (L & EL & ->).
  unfold gmap_layout in I. apply in_map_iff in I. destruct I as (l0 & <- & I0).
  destruct (wrap_layout_fits cw cw_range Hsp s width Hwd align ell wrap Hm L EL l0 I0) as (F1 & F2).
  rewrite gline_width_map. split; [exact F1|].
  intros sc o e Hin. unfold gmap_line in Hin. apply in_map_iff in Hin. destruct Hin as (x & Ex & Ix).
  destruct x; cbn [gmap_seg] in Ex; inversion Ex; subst.
  destruct (F2 _ _ _ Ix) as (A & Bb & C & D). exists offs, e0. repeat split; try lia.
Qed.

(* any/space: the character containing a byte offset is shown (then the offset lies in the g_image of its
   range) or is omitted for one of the reasons of the str theorem *)
Theorem g_layout_omits_only_wrap Lb : is_wrap wrap -> layout_b = Ok Lb -> Lb <> [[]] ->
  exists L, layout cw s width align wrap ell = Ok L /\ Lb = gmap_layout enc B L /\
  forall j, 0 <= j < zlen bs -> exists k, 0 <= k < len /\ B k <= j < B (k + 1) /\
    (in_ranges j (shown_ranges Lb) \/ omit_ok cw s wrap L k).
Proof.
  intros Hm E NE. destruct (g_image Lb E) as (L & EL & ->). exists L. split; [exact EL|]. split; [reflexivity|].
  assert (NE' : L <> [[]]) by (intros ->; apply NE; reflexivity).
  pose proof (layout_order cw cw_range Hsp s width Hwd align ell wrap L EL) as S0.
  destruct (ranges_sorted_bounds _ _ _ S0) as (_ & Hb).
  intros j Hj. destruct (g_char_of_byte j Hj) as (k & Hk & Hjk). exists k. split; [exact Hk|]. split; [exact Hjk|].
  destruct (wrap_layout_omits_only cw cw_range Hsp s width Hwd align ell wrap Hm L EL NE' k Hk) as [(o & e & I & R)|H].
  - left. exists (B o), (B e). split.
    + rewrite gshown_ranges_map. apply (in_map (map_range B) _ (o, e)). exact I.
    + specialize (Hb _ _ I).
      pose proof (B_mono enc Henc_len s o k ltac:(lia) ltac:(lia)). pose proof (B_mono enc Henc_len s (k + 1) e ltac:(lia) ltac:(lia)). lia.
  - right. exact H.
Qed.

Theorem g_layout_omits_only_trim Lb : is_trim wrap -> layout_b = Ok Lb ->
  forall j, 0 <= j < zlen bs -> exists k, 0 <= k < len /\ B k <= j < B (k + 1) /\
    (in_ranges j (shown_ranges Lb) \/ omit_ok_trim cw s width wrap ell k).
Proof.
  intros Hm E. destruct (g_image Lb E) as (L & EL & ->).
  pose proof (layout_order cw cw_range Hsp s width Hwd align ell wrap L EL) as S0.
  destruct (ranges_sorted_bounds _ _ _ S0) as (_ & Hb).
  intros j Hj. destruct (g_char_of_byte j Hj) as (k & Hk & Hjk). exists k. split; [exact Hk|]. split; [exact Hjk|].
  destruct (trim_layout_omits_only cw cw_range s width Hwd align ell wrap Hm L EL k Hk) as [(o & e & I & R)|H].
  - left. exists (B o), (B e). split.
    + rewrite gshown_ranges_map. apply (in_map (map_range B) _ (o, e)). exact I.
    + specialize (Hb _ _ I).
      pose proof (B_mono enc Henc_len s o k ltac:(lia) ltac:(lia)). pose proof (B_mono enc Henc_len s (k + 1) e ltac:(lia) ltac:(lia)). lia.
  - right. exact H.
Qed.

(* rows() on the bytes text = rows() on the str text *)
Theorem g_rows_eq : text_rows_g P bs width align wrap (map enc ell) = text_rows cw s width align wrap ell.
Proof.
  unfold text_rows_g, text_rows. rewrite Himg.
  destruct (layout cw s width align wrap ell) as [L|e]; cbn [gmap_result to_lres lbind]; [|reflexivity].
  unfold gmap_layout, zlen. rewrite map_length. reflexivity.
Qed.

End GTop.

(* ====================================================================================== *)
(* rendering in a bytes mode = the encoding of the str rendering; hence render_total         *)
Section GRender.
Variable enc : Z -> list Z.
Hypothesis Henc_len : forall c, 1 <= zlen (enc c).
Variable s : list Z.
Variable cw : Z -> Z.
Hypothesis cw_range : forall c, 0 <= cw c <= 2.
Hypothesis Hsp : cw SP = 1.
Variable P : prims.
Hypothesis Hhead : forall c, In c s -> exists h r, enc c = h :: r /\ (h = NL <-> c = NL) /\ (h = SP <-> c = SP) /\
                                       ~ In NL r /\ (c = SP \/ c = NL -> r = []).
Hypothesis HPcw : forall a b, 0 <= a <= b -> b <= zlen s ->
  p_cw P (flat_map enc s) (gboff enc s a) (gboff enc s b) = Ok (sumw cw (slice s a b)).
Hypothesis HPctp : forall a b col, 0 <= a <= b -> b <= zlen s -> 0 <= col ->
  exists p c, calc_text_pos cw s a b col = LOk (p, c) /\ a <= p <= b /\
              p_ctp P (flat_map enc s) (gboff enc s a) (gboff enc s b) col = Ok (gboff enc s p, c).
Hypothesis HPwide : forall k c, nthz s k = Some c -> p_wide P (flat_map enc s) (gboff enc s k) = Ok (cw c =? 2).
Hypothesis HPprev : forall a b, 0 <= a < b -> b <= zlen s ->
  p_prev P (flat_map enc s) (gboff enc s a) (gboff enc s b) = Ok (gboff enc s (b - 1)).
Hypothesis HPnext : forall a b, 0 <= a < b -> b <= zlen s ->
  p_next P (flat_map enc s) (gboff enc s a) (gboff enc s b) = Ok (gboff enc s (a + 1)).
Hypothesis Hroww : forall e, p_cw P (flat_map enc e) 0 (zlen (flat_map enc e)) = Ok (sumw cw e).
Hypothesis Hencsp : enc SP = [SP].
Variable width : Z.
Hypothesis Hwd : 1 <= width.

Theorem g_render_total align wrap ell :
  exists srows, text_render cw s width align wrap ell = LOk srows /\
    text_render_g P (flat_map enc s) width align wrap (map enc ell) = LOk (map (flat_map enc) srows) /\
    text_rows_g P (flat_map enc s) width align wrap (map enc ell) = LOk (zlen (map (flat_map enc) srows)) /\
    Forall (fun rb => p_cw P rb 0 (zlen rb) = Ok width) (map (flat_map enc) srows).
Proof.
  destruct (render_total cw s width align wrap ell cw_range Hsp Hwd) as (srows & Er & _ & _).
  destruct (TextLayoutTop.layout_total cw cw_range Hsp s width Hwd align ell wrap) as (L & EL & _).
  pose proof (layout_lines_ok cw s width align wrap ell L cw_range Hsp Hwd EL) as Hok.
  destruct (g_text_render_sim enc Henc_len s cw cw_range P Hhead HPcw HPctp HPwide HPprev HPnext width Hwd Hsp Hroww Hencsp
              align wrap ell L srows EL Hok Er) as (A & B & C).
  exists srows. split; [exact Er|]. split; [exact A|]. split; [|exact C].
  rewrite B. unfold zlen. rewrite map_length. reflexivity.
Qed.

End GRender.

(* ====================================================================================== *)
(* wide mode (gbk, big5, uhc, euc-kr, euc-jp ...) on well-formed double-byte text           *)
Section WideTop.
Variable s : list Z.
Hypothesis Hwf : forallb wfb s = true.
Variable width : Z.
Hypothesis Hwd : 1 <= width.
Variable align : alignmode.
Variable wrap : wrapmode.
Variable ell : list Z.

Notation bs := (flat_map enc_w s).
Notation layout_w := (layout_g P_wide bs width align wrap (map enc_w ell)).

Lemma wide_img : forall a w e, layout_g P_wide bs width a w (map enc_w e) = gmap_result enc_w s (layout cw_w s width a w e).
Proof. intros a w e. apply wide_layout_is_image; assumption. Qed.

Theorem wide_layout_order Lb : layout_w = Ok Lb -> ranges_sorted 0 (shown_ranges Lb) (zlen bs).
Proof. exact (g_layout_order enc_w enc_w_len s cw_w cw_w_range eq_refl P_wide width Hwd wide_img align wrap ell Lb). Qed.

Theorem wide_layout_fits Lb : is_wrap wrap -> layout_w = Ok Lb -> forall ln, In ln Lb ->
  0 <= line_width ln <= width /\
  forall sc o e, In (SText sc o e) ln ->
    exists o' e', o = gboff enc_w s o' /\ e = gboff enc_w s e' /\ 0 <= o' < e' /\ e' <= zlen s /\ sc = e - o.
Proof.
  intros Hm E ln I.
  destruct (g_layout_fits enc_w enc_w_len s cw_w cw_w_range eq_refl P_wide width Hwd wide_img align wrap ell Lb Hm E ln I) as (A & Bq).
  split; [exact A|]. intros sc o e Hin. destruct (Bq sc o e Hin) as (o' & e' & -> & -> & Ho & He & ->).
  exists o', e'. repeat split; try lia. rewrite (B_split_w s o' e') by lia. lia.
Qed.

Theorem wide_layout_omits_only_wrap Lb : is_wrap wrap -> layout_w = Ok Lb -> Lb <> [[]] ->
  exists L, layout cw_w s width align wrap ell = Ok L /\ Lb = gmap_layout enc_w (gboff enc_w s) L /\
  forall j, 0 <= j < zlen bs -> exists k, 0 <= k < zlen s /\ gboff enc_w s k <= j < gboff enc_w s (k + 1) /\
    (in_ranges j (shown_ranges Lb) \/ omit_ok cw_w s wrap L k).
Proof. exact (g_layout_omits_only_wrap enc_w enc_w_len s cw_w cw_w_range eq_refl P_wide width Hwd wide_img align wrap ell Lb). Qed.

Theorem wide_layout_omits_only_trim Lb : is_trim wrap -> layout_w = Ok Lb ->
  forall j, 0 <= j < zlen bs -> exists k, 0 <= k < zlen s /\ gboff enc_w s k <= j < gboff enc_w s (k + 1) /\
    (in_ranges j (shown_ranges Lb) \/ omit_ok_trim cw_w s width wrap ell k).
Proof. exact (g_layout_omits_only_trim enc_w enc_w_len s cw_w cw_w_range eq_refl P_wide width Hwd wide_img align wrap ell Lb). Qed.

(* rendering never raises, gives as many rows as rows() reports, every row is exactly [width] bytes = columns,
   and the rows are the encodings of the rows of the str rendering *)
Theorem wide_render_total :
  exists srows, text_render cw_w s width align wrap ell = LOk srows /\
    text_render_g P_wide bs width align wrap (map enc_w ell) = LOk (map (flat_map enc_w) srows) /\
    text_rows_g P_wide bs width align wrap (map enc_w ell) = LOk (zlen (map (flat_map enc_w) srows)) /\
    Forall (fun rb => zlen rb = width) (map (flat_map enc_w) srows).
Proof.
  destruct (g_render_total enc_w enc_w_len s cw_w cw_w_range eq_refl P_wide (wide_head s Hwf) (wide_cw s) (wide_ctp s Hwf)
              (wide_wide s Hwf) (wide_prev s Hwf) (wide_next s Hwf) (wide_roww s) eq_refl width Hwd align wrap ell)
    as (srows & A & B & C & D).
  exists srows. repeat split; try assumption.
  eapply Forall_impl; [|exact D]. cbn. intros rb H. cbn [p_cw P_wide] in H. unfold n_calc_width in H.
  pose proof (zlen_nonneg rb). replace (zlen rb <? 0) with false in H by lia. inversion H. lia.
Qed.

End WideTop.

(* ====================================================================================== *)
(* narrow mode (ascii, latin-1 ...): one byte = one character = one column                  *)
Section NarrowTop.
Variable s : list Z.
Variable width : Z.
Hypothesis Hwd : 1 <= width.
Variable align : alignmode.
Variable wrap : wrapmode.
Variable ell : list Z.

Notation bs := (flat_map enc_n s).
Notation layout_n := (layout_g P_narrow bs width align wrap (map enc_n ell)).

Lemma narrow_img : forall a w e, layout_g P_narrow bs width a w (map enc_n e) = gmap_result enc_n s (layout cw_n s width a w e).
Proof. intros a w e. apply narrow_layout_is_image; assumption. Qed.

Theorem narrow_layout_order Lb : layout_n = Ok Lb -> ranges_sorted 0 (shown_ranges Lb) (zlen bs).
Proof. exact (g_layout_order enc_n enc_n_len s cw_n cw_n_range eq_refl P_narrow width Hwd narrow_img align wrap ell Lb). Qed.

Theorem narrow_layout_fits Lb : is_wrap wrap -> layout_n = Ok Lb -> forall ln, In ln Lb ->
  0 <= line_width ln <= width /\
  forall sc o e, In (SText sc o e) ln -> 0 <= o < e /\ e <= zlen s /\ sc = e - o.
Proof.
  intros Hm E ln I.
  destruct (g_layout_fits enc_n enc_n_len s cw_n cw_n_range eq_refl P_narrow width Hwd narrow_img align wrap ell Lb Hm E ln I) as (A & Bq).
  split; [exact A|]. intros sc o e Hin. destruct (Bq sc o e Hin) as (o' & e' & -> & -> & Ho & He & ->).
  rewrite !B_n by lia. rewrite sumw_n, zlen_slice by lia. lia.
Qed.

Theorem narrow_layout_omits_only_wrap Lb : is_wrap wrap -> layout_n = Ok Lb -> Lb <> [[]] ->
  exists L, layout cw_n s width align wrap ell = Ok L /\ Lb = gmap_layout enc_n (gboff enc_n s) L /\
  forall j, 0 <= j < zlen s -> in_ranges j (shown_ranges Lb) \/ omit_ok cw_n s wrap L j.
Proof.
  intros Hm E NE.
  destruct (g_layout_omits_only_wrap enc_n enc_n_len s cw_n cw_n_range eq_refl P_narrow width Hwd narrow_img align wrap ell Lb Hm E NE)
    as (L & EL & -> & H).
  exists L. split; [exact EL|]. split; [reflexivity|]. intros j Hj.
  destruct (H j ltac:(rewrite F_n; exact Hj)) as (k & Hk & Hb & R).
  rewrite !B_n in Hb by lia. assert (k = j) by lia. subst k. exact R.
Qed.

Theorem narrow_layout_omits_only_trim Lb : is_trim wrap -> layout_n = Ok Lb ->
  forall j, 0 <= j < zlen s -> in_ranges j (shown_ranges Lb) \/ omit_ok_trim cw_n s width wrap ell j.
Proof.
  intros Hm E j Hj.
  destruct (g_layout_omits_only_trim enc_n enc_n_len s cw_n cw_n_range eq_refl P_narrow width Hwd narrow_img align wrap ell Lb Hm E j
              ltac:(rewrite F_n; exact Hj)) as (k & Hk & Hb & R).
  rewrite !B_n in Hb by lia. assert (k = j) by lia. subst k. exact R.
Qed.

Theorem narrow_render_total :
  exists srows, text_render cw_n s width align wrap ell = LOk srows /\
    text_render_g P_narrow bs width align wrap (map enc_n ell) = LOk (map (flat_map enc_n) srows) /\
    text_rows_g P_narrow bs width align wrap (map enc_n ell) = LOk (zlen (map (flat_map enc_n) srows)) /\
    Forall (fun rb => zlen rb = width) (map (flat_map enc_n) srows).
Proof.
  destruct (g_render_total enc_n enc_n_len s cw_n cw_n_range eq_refl P_narrow (narrow_head s) (narrow_cw s) (narrow_ctp s)
              (narrow_wide s) (narrow_prev s) (narrow_next s) narrow_roww eq_refl width Hwd align wrap ell)
    as (srows & A & B & C & D).
  exists srows. repeat split; try assumption.
  eapply Forall_impl; [|exact D]. cbn. intros rb H. cbn [p_cw P_narrow] in H. unfold n_calc_width in H.
  pose proof (zlen_nonneg rb). replace (zlen rb <? 0) with false in H by lia. inversion H. lia.
Qed.

End NarrowTop.
