(* C11 - on ANY byte string the UTF-8 width functions are total: decode_one never yields a value
   outside range(0x110000) (so chr() cannot raise), and calc_width / calc_text_pos / is_wide_char
   return a value for every in-range offset. *)
From Coq Require Import ZArith List Bool Lia ZifyBool.
Import ListNotations.
From Urwid Require Import PyBase PyList Utf8 wcwidth_table_gen str_util_gen Width WidthFacts Utf8Proofs.
Open Scope Z_scope.
Arguments Z.add : simpl never.
Arguments Z.sub : simpl never.
Arguments Z.mul : simpl never.
Arguments Z.div : simpl never.
Arguments Z.modulo : simpl never.
Arguments Z.ltb : simpl never.
Arguments Z.leb : simpl never.
Arguments Z.eqb : simpl never.
Arguments Z.land : simpl never.
Arguments Z.lor : simpl never.
Arguments Z.shiftl : simpl never.
Arguments Z.of_nat : simpl never.
Arguments Z.to_nat : simpl never.

Definition byte (b : Z) : Prop := 0 <= b < 256.

Lemma arith_range b1 b2 b3 b4 lt pos :
  byte b1 -> byte b2 -> byte b3 -> byte b4 ->
  0 <= fst (decode_one_arith_gen b1 b2 b3 b4 lt pos) < 1114112 /\
  pos + 1 <= snd (decode_one_arith_gen b1 b2 b3 b4 lt pos) <= pos + 4.
Proof.
  unfold byte. intros H1 H2 H3 H4. unfold decode_one_arith_gen.
  destruct (masks b1 H1) as (A1 & A2 & A3 & A4 & A5 & A6 & A7 & A8 & A9).
  destruct (masks b2 H2) as (_ & B2 & _ & _ & _ & B6 & _).
  destruct (masks b3 H3) as (_ & C2 & _ & _ & _ & C6 & _).
  destruct (masks b4 H4) as (_ & D2 & _ & _ & _ & D6 & _).
  rewrite A1, A3, A4, A5, B2, C2, D2, A7, A8, A9, B6, C6, D6.
  pose proof (Z.mod_pos_bound b1 32 ltac:(lia)). pose proof (Z.mod_pos_bound b1 16 ltac:(lia)).
  pose proof (Z.mod_pos_bound b1 8 ltac:(lia)). pose proof (Z.mod_pos_bound b2 64 ltac:(lia)).
  pose proof (Z.mod_pos_bound b3 64 ltac:(lia)). pose proof (Z.mod_pos_bound b4 64 ltac:(lia)).
  clear A1 A2 A3 A4 A5 A6 A7 A8 A9 B2 B6 C2 C6 D2 D6.
  set (x32 := b1 mod 32) in *. set (x16 := b1 mod 16) in *. set (x8 := b1 mod 8) in *.
  set (m2 := b2 mod 64) in *. set (m3 := b3 mod 64) in *. set (m4 := b4 mod 64) in *.
  clearbody x32 x16 x8 m2 m3 m4.
  replace (Z.shiftl x8 18) with (Z.shiftl (Z.shiftl (Z.shiftl x8 6) 6) 6) by (rewrite !Z.shiftl_shiftl by lia; reflexivity).
  replace (Z.shiftl m2 12) with (Z.shiftl (Z.shiftl m2 6) 6) by (rewrite !Z.shiftl_shiftl by lia; reflexivity).
  replace (Z.shiftl x16 12) with (Z.shiftl (Z.shiftl x16 6) 6) by (rewrite !Z.shiftl_shiftl by lia; reflexivity).
  rewrite <- !Z.shiftl_lor.
  rewrite (lor_shiftl_add x32 m2 6) by lia.
  rewrite (lor_shiftl_add x16 m2 6) by lia.
  rewrite (lor_shiftl_add (x16 * 2 ^ 6 + m2) m3 6) by lia.
  rewrite (lor_shiftl_add x8 m2 6) by lia.
  rewrite (lor_shiftl_add (x8 * 2 ^ 6 + m2) m3 6) by lia.
  rewrite (lor_shiftl_add ((x8 * 2 ^ 6 + m2) * 2 ^ 6 + m3) m4 6) by lia.
  change (2 ^ 6) with 64.
  repeat match goal with
  | |- context [if ?b then _ else _] => let E := fresh "E" in destruct b eqn:E
  end; cbn [fst snd]; lia.
Qed.

Definition bytes (l : list Z) : Prop := Forall byte l.

Lemma nth_byte l k : bytes l -> byte (nth k l 0).
Proof.
  intros H. destruct (Nat.lt_ge_cases k (length l)) as [Hlt|Hge].
  - unfold bytes in H. rewrite Forall_forall in H. apply H. apply nth_In. exact Hlt.
  - rewrite nth_overflow by lia. unfold byte. lia.
Qed.

Lemma decode_one_total text i : bytes text -> 0 <= i < zlen text ->
  exists o n, decode_one text i = Ok (o, n) /\ 0 <= o < 1114112 /\ i + 1 <= n <= i + 4.
Proof.
  intros Hb Hi.
  assert (Hr : bytes (dropz i text)) by (apply Forall_dropz; exact Hb).
  assert (Hp : zlen (takez i text) = i) by (apply zlen_takez_in; lia).
  assert (Hl : 0 < zlen (dropz i text)) by (rewrite zlen_dropz by lia; lia).
  assert (Es : text = takez i text ++ dropz i text) by (unfold takez, dropz; now rewrite firstn_skipn).
  replace (decode_one text i) with (decode_one (takez i text ++ dropz i text) (zlen (takez i text)))
    by (rewrite <- Es, Hp; reflexivity).
  rewrite decode_one_at by exact Hl. rewrite Hp.
  set (b1 := nth 0 (dropz i text) 0).
  set (b2 := if 1 <? zlen (dropz i text) then nth 1 (dropz i text) 0 else 0).
  set (b3 := if 2 <? zlen (dropz i text) then nth 2 (dropz i text) 0 else 0).
  set (b4 := if 3 <? zlen (dropz i text) then nth 3 (dropz i text) 0 else 0).
  assert (B1 : byte b1) by (apply nth_byte, Hr).
  assert (B2 : byte b2) by (unfold b2; destruct (1 <? zlen (dropz i text)); [apply nth_byte, Hr|unfold byte; lia]).
  assert (B3 : byte b3) by (unfold b3; destruct (2 <? zlen (dropz i text)); [apply nth_byte, Hr|unfold byte; lia]).
  assert (B4 : byte b4) by (unfold b4; destruct (3 <? zlen (dropz i text)); [apply nth_byte, Hr|unfold byte; lia]).
  pose proof (arith_range b1 b2 b3 b4 (zlen (dropz i text)) i B1 B2 B3 B4) as R.
  destruct (decode_one_arith_gen b1 b2 b3 b4 (zlen (dropz i text)) i) as [o n]. cbn [fst snd] in R.
  exists o, n. split; [reflexivity|exact R].
Qed.

Section Total.
Variable wcw : Z -> Z.

Lemma cw_utf8_total text e fuel : forall i sc,
  bytes text -> 0 <= i -> e <= zlen text -> e - i <= Z.of_nat fuel ->
  exists w, cw_utf8_loop wcw text fuel i sc e = Ok w.
Proof.
  induction fuel as [|k IH]; intros i sc Hb Hi He Hf; cbn [cw_utf8_loop]; destruct (i <? e) eqn:E;
    try (eexists; reflexivity); [lia|].
  destruct (decode_one_total text i Hb ltac:(lia)) as (o & n & Ed & Ho & Hn). rewrite Ed.
  rewrite get_width_cp by exact Ho. apply IH; try assumption; lia.
Qed.

Lemma ctp_utf8_total text e pref fuel : forall i sc,
  bytes text -> 0 <= i -> e <= zlen text -> e - i <= Z.of_nat fuel ->
  exists p c, ctp_utf8_loop wcw text fuel i sc e pref = Ok (p, c).
Proof.
  induction fuel as [|k IH]; intros i sc Hb Hi He Hf; cbn [ctp_utf8_loop]; destruct (i <? e) eqn:E;
    try (eexists _, _; reflexivity); [lia|].
  destruct (decode_one_total text i Hb ltac:(lia)) as (o & n & Ed & Ho & Hn). rewrite Ed.
  rewrite get_width_cp by exact Ho.
  destruct (pref <? cw wcw o + sc); [eexists _, _; reflexivity|]. apply IH; try assumption; lia.
Qed.

(* on ANY byte string, for every in-range offset pair / offset: a value, never an exception *)
Theorem utf8_width_queries_total text a b col :
  bytes text -> 0 <= a <= b -> b <= zlen text ->
  (exists w, calc_width wcw MUtf8 text a b = Ok w) /\
  (exists p c, calc_text_pos wcw MUtf8 text a b col = Ok (p, c)) /\
  (b < zlen text -> exists x, is_wide_char wcw MUtf8 text b = Ok x).
Proof.
  intros Hb H1 H2. split; [|split].
  - unfold calc_width. destruct (b <? a) eqn:E; [lia|].
    destruct (strict_decode (py_slice text a b)); [eexists; reflexivity|].
    apply cw_utf8_total; try assumption; lia.
  - unfold calc_text_pos. destruct (b <? a) eqn:E; [lia|]. apply ctp_utf8_total; try assumption; lia.
  - intros Hlt. unfold is_wide_char.
    destruct (decode_one_total text b Hb ltac:(lia)) as (o & n & Ed & Ho & Hn). rewrite Ed.
    rewrite get_width_cp by exact Ho. eexists; reflexivity.
Qed.

End Total.
