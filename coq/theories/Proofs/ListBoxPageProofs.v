(* C07 - proofs, part 6: 'page down' never raises.  (Before the repair 1f3edac of
   _keypress_page_down a candidate widget lying completely above the top of the new page made
   change_focus raise ListBoxError; such candidates are skipped now.) *)
From Coq Require Import ZArith List Bool Lia ZifyBool.
Import ListNotations.
From Urwid Require Import PyBase ListBoxView ListBoxViewProofs ListBoxWindowProofs ListBoxHistoryProofs
  ListBoxMouseProofs ListBoxPendingProofs.
Open Scope Z_scope.

Arguments Z.add : simpl never.
Arguments Z.sub : simpl never.
Arguments Z.mul : simpl never.
Arguments Z.ltb : simpl never.
Arguments Z.leb : simpl never.
Arguments Z.eqb : simpl never.
Arguments Z.min : simpl never.
Arguments Z.max : simpl never.
Arguments Z.of_nat : simpl never.
Arguments Z.to_nat : simpl never.

(* a candidate is a widget of the list with its own rows *)
Definition CandOK (its : list item) (x : titem) : Prop :=
  exists w, nthz its (t_pos x) = Some w /\ t_rows x = i_rows w.

(* the states the page keys go through: same widgets, a valid focus, a valid view state *)
Definition SInv (s0 s : lb) : Prop :=
  ViewOK s /\ items s = items s0 /\ exists w, nthz (items s0) (focus s) = Some w.

(* ---------- one change_focus call for a candidate ---------- *)
Lemma cf_call : forall s0 s m pos oi cf sr w,
  1 <= m -> (is_below cf = true -> 0 <= sr) -> SInv s0 s -> nthz (items s0) pos = Some w ->
  (exists s', change_focus_sr s m pos oi cf sr = Ok s' /\ SInv s0 s' /\ focus s' = pos) \/
  (change_focus_sr s m pos oi cf sr = Err ListBoxError /\ ~ topvis oi (i_rows w)).
Proof.
  intros s0 s m pos oi cf sr w Hm Hsr (Hv & Hi & Hf) Hw.
  assert (Hw' : nthz (items s) pos = Some w) by now rewrite Hi.
  unfold change_focus_sr. rewrite Hw'.
  pose proof (snap_sr_ok sr m (i_rows w) oi (i_sel w) cf Hm Hsr) as Hsnap.
  remember (snap_sr sr m (i_rows w) oi (i_sel w) cf) as oi' eqn:E. clear E.
  destruct (0 <=? oi') eqn:E1.
  - left. eexists. split; [reflexivity|]. split; [|reflexivity].
    unfold SInv, ViewOK. cbn. splits; try lia; try assumption. now exists w.
  - destruct (oi' + i_rows w <=? 0) eqn:E2.
    + right. split; [reflexivity|]. intros Ht. specialize (Hsnap Ht). unfold topvis in Hsnap. lia.
    + left. eexists. split; [reflexivity|]. split; [|reflexivity].
      unfold SInv, ViewOK. cbn. splits; try lia; try assumption. now exists w.
Qed.

Lemma vis_total : forall s0 s m, 1 <= m -> WidgetsOK (items s0) -> SInv s0 s ->
  exists v, visible (items s) (focus s) (off s) (inum s) (iden s) m true = Ok (Some v).
Proof.
  intros s0 s m Hm [Hh Hc] ([Ho Hnd] & Hi & w & Hw). rewrite Hi.
  destruct (visible_ok (items s0) (focus s) (off s) (inum s) (iden s) m true w) as (v & Ev & _);
    [constructor; assumption | assumption | apply Hc; now apply nthz_In in Hw |].
  now exists v.
Qed.

(* ---------- indices ---------- *)
Lemma zseq_In : forall n a i, In i (zseq a n) <-> a <= i < a + Z.of_nat n.
Proof.
  induction n as [|n IH]; intros a i; cbn [zseq In].
  - split; [intros [] | lia].
  - rewrite IH. lia.
Qed.

Lemma search_order_In srs len i : 0 <= srs <= len -> In i (search_order srs len) -> 0 <= i < len.
Proof.
  intros H Hin. unfold search_order in Hin. apply in_app_or in Hin. destruct Hin as [Hin|Hin].
  - apply zseq_In in Hin. lia.
  - apply in_rev in Hin. apply zseq_In in Hin. lia.
Qed.

Lemma nthz_some {A} (l : list A) i : 0 <= i < zlen l -> exists x, nthz l i = Some x.
Proof.
  intros H. unfold nthz, zlen in *. destruct (i <? 0) eqn:E; [lia|].
  destruct (nth_error l (Z.to_nat i)) eqn:E2; [now eexists|]. apply nth_error_None in E2. lia.
Qed.

(* ---------- the first search loop ---------- *)
Section Loops.
Variables (s0 : lb) (m sr fpos : Z) (t : list titem) (oall : list Z).
Hypothesis Hm : 1 <= m.
Hypothesis HW : WidgetsOK (items s0).
Hypothesis Hcand : forall x, In x t -> CandOK (items s0) x.

(* either the focus is still the old one or a candidate that the second loop accepts was tried *)
Definition Tr (s : lb) : Prop :=
  focus s = fpos \/
  exists i x, In i oall /\ nthz t i = Some x /\ t_pos x <> fpos /\ t_rows x <> 0 /\ 0 < t_ro x + t_rows x.

Lemma pd_loop1_outcome : forall order st,
  incl order oall -> (forall i, In i order -> exists x, nthz t i = Some x) ->
  SInv s0 (p_s st) -> Tr (p_s st) ->
  match pd_loop1 m sr t order st with
  | Ok (PDone s') => SInv s0 s'
  | Ok (PCont st') => SInv s0 (p_s st') /\ Tr (p_s st')
  | Err e => False
  end.
Proof.
  induction order as [|i rest IH]; intros st Hincl Hidx Hs Htr; cbn [pd_loop1]; [now split|].
  destruct (Hidx i (or_introl eq_refl)) as ([[ro pos] rows] & Ex). rewrite Ex. cbn [p_s].
  assert (Hincl' : incl rest oall) by (intros j Hj; apply Hincl; now right).
  assert (Hidx' : forall j, In j rest -> exists x, nthz t j = Some x) by (intros j Hj; apply Hidx; now right).
  destruct (negb (sel_at (items (p_s st)) pos)); [apply IH; assumption|].
  destruct (rows =? 0) eqn:Er; [apply IH; assumption|].
  destruct (ro + rows <=? 0) eqn:Eab; [apply IH; assumption|].
  pose proof (nthz_In _ _ _ Ex) as Hin.
  destruct (Hcand _ Hin) as (w & Hw & Hrw). cbn [t_pos t_rows fst snd] in Hw, Hrw.
  assert (Hcall : forall oi sr', (oi = ro \/ 0 <= oi) ->
            exists s', change_focus_sr (p_s st) m pos oi CAbove sr' = Ok s' /\ SInv s0 s' /\ focus s' = pos).
  { intros oi sr' Hoi.
    destruct (cf_call s0 (p_s st) m pos oi CAbove sr' w Hm ltac:(discriminate) Hs Hw) as [H|[_ H2]]; [assumption|].
    exfalso. apply H2. unfold topvis. destruct Hoi as [->|Hoi]; lia. }
  match goal with |- context [match ?c with Ok _ => _ | Err _ => _ end] =>
    assert (Hc : exists s', c = Ok s' /\ SInv s0 s' /\ focus s' = pos) end.
  { destruct (m <=? ro) eqn:Emr; [apply Hcall; right; lia | apply Hcall; now left]. }
  destruct Hc as (s' & -> & Hs' & Hf').
  destruct (vis_total s0 s' m Hm HW Hs') as (v & ->).
  assert (Htr' : Tr s').
  { destruct (Z.eq_dec pos fpos) as [->|Hne]; [now left|]. right. exists i, (ro, pos, rows).
    cbn [t_pos t_rows t_ro fst snd]. splits; try assumption; try lia. apply Hincl. now left. }
  destruct (v_off_inset v <? ro - sr); [apply IH; assumption|].
  destruct (ro <? v_off_inset v); [apply IH; assumption|].
  destruct (m <? v_off_inset v + rows); [apply IH; assumption|].
  assumption.
Qed.

Lemma pd_loop2_outcome : forall s order ro,
  (forall i, In i order -> exists x, nthz t i = Some x) -> SInv s0 s ->
  match pd_loop2 s m sr fpos t order ro with
  | Ok (Some s', _) => SInv s0 s'
  | Ok (None, _) => forall i x, In i order -> nthz t i = Some x ->
                                t_pos x = fpos \/ t_rows x = 0 \/ t_ro x + t_rows x <= 0
  | Err e => False
  end.
Proof.
  intros s. induction order as [|i rest IH]; intros ro0 Hidx Hs; cbn [pd_loop2]; [intros i x []|].
  destruct (Hidx i (or_introl eq_refl)) as ([[ro pos] rows] & Ex). rewrite Ex.
  assert (Hidx' : forall j, In j rest -> exists x, nthz t j = Some x) by (intros j Hj; apply Hidx; now right).
  assert (Hskip : forall ro', (pos = fpos \/ rows = 0 \/ ro + rows <= 0) ->
     match pd_loop2 s m sr fpos t rest ro' with
     | Ok (Some s', _) => SInv s0 s'
     | Ok (None, _) => forall j x, In j (i :: rest) -> nthz t j = Some x ->
                                   t_pos x = fpos \/ t_rows x = 0 \/ t_ro x + t_rows x <= 0
     | Err e => False
     end).
  { intros ro' Hsk. specialize (IH ro' Hidx' Hs).
    destruct (pd_loop2 s m sr fpos t rest ro') as [[[s'|] r2]|]; try assumption.
    intros j x [<-|Hj] Hx; [rewrite Ex in Hx; inversion Hx; subst; cbn [t_pos t_rows t_ro fst snd]; assumption | eapply IH; eassumption]. }
  destruct (pos =? fpos) eqn:Ep; [apply Hskip; left; lia|].
  destruct (rows =? 0) eqn:Er; [apply Hskip; right; left; lia|].
  destruct (ro + rows <=? 0) eqn:Eab; [apply Hskip; right; right; lia|].
  pose proof (nthz_In _ _ _ Ex) as Hin.
  destruct (Hcand _ Hin) as (w & Hw & Hrw). cbn [t_pos t_rows fst snd] in Hw, Hrw.
  destruct (m <=? ro) eqn:Emr.
  - destruct (cf_call s0 s m pos (m - 1) CAbove (sr - (sr + m - ro - 1)) w Hm ltac:(discriminate) Hs Hw)
      as [(s' & -> & Hs' & _)|[_ H2]]; [assumption|]. exfalso. apply H2. left. lia.
  - destruct (cf_call s0 s m pos ro CAbove sr w Hm ltac:(discriminate) Hs Hw) as [(s' & -> & Hs' & _)|[_ H2]]; [assumption|].
    exfalso. apply H2. unfold topvis. lia.
Qed.
End Loops.

(* ---------- the candidate list ---------- *)
Lemma pd_for_spec : forall fb ro acc,
  exists ents, fst (pd_for fb ro acc) = acc ++ ents /\ forall x, In x ents -> In (t_pos x, t_rows x) fb.
Proof.
  induction fb as [|[pos rows] fb IH]; intros ro acc; cbn [pd_for].
  - exists []. cbn [fst]. rewrite app_nil_r. split; [reflexivity | intros x []].
  - destruct (IH (ro + rows) (acc ++ [(ro, pos, rows)])) as (ents & E & H).
    exists ((ro, pos, rows) :: ents). rewrite E, <- app_assoc. split; [reflexivity|].
    intros x [<-|Hx]; [now left | right; now apply H].
Qed.

Lemma pd_while_spec : forall nexts limit m ro srs acc, srs <= zlen acc ->
  exists ents, fst (pd_while nexts limit m ro srs acc) = acc ++ ents /\
               (forall x, In x ents -> In (t_pos x, t_rows x) nexts) /\
               srs <= snd (pd_while nexts limit m ro srs acc) <= zlen (acc ++ ents).
Proof.
  induction nexts as [|[pos rows] nexts IH]; intros limit m ro srs acc Hs; cbn [pd_while].
  - exists []. rewrite app_nil_r. destruct (limit <=? ro); cbn [fst snd]; splits; try reflexivity; try lia; intros x [].
  - destruct (limit <=? ro).
    + exists []. rewrite app_nil_r. cbn [fst snd]. splits; try reflexivity; try lia. intros x [].
    + destruct (IH limit m (ro + rows) (if ro + rows <? m then srs + 1 else srs) (acc ++ [(ro, pos, rows)]))
        as (ents & E & H & Hb).
      { rewrite zlen_app, zlen_cons, zlen_nil. destruct (ro + rows <? m); lia. }
      exists ((ro, pos, rows) :: ents). rewrite E. rewrite <- app_assoc in *. cbn [app] in *.
      revert Hb. destruct (ro + rows <? m); intros [Hb1 Hb2];
        (split; [reflexivity | split; [intros x [<-|Hx]; [now left | right; now apply H] | split; [|exact Hb2]]]).
      all: generalize dependent (snd (pd_while nexts limit m (ro + rows) (srs + 1) (acc ++ [(ro, pos, rows)]))); intros; lia.
Qed.

Lemma In_number_dropz its a x : 0 <= a -> In x (number a (dropz a its)) -> In x (number 0 its).
Proof.
  intros Ha H. destruct (Z.ltb_spec (zlen its) a) as [Hlt|Hge].
  - unfold dropz in H. rewrite skipn_all2 in H by (unfold zlen in Hlt; lia). contradiction.
  - assert (E : its = takez a its ++ dropz a its) by (unfold takez, dropz; now rewrite firstn_skipn).
    rewrite E. rewrite number_app. rewrite zlen_takez by lia. replace (0 + Z.min a (zlen its)) with a by lia.
    apply in_or_app. now right.
Qed.

(* the widgets calculate_visible reports are widgets of the list *)
Lemma fill_items_in its f h m cur v :
  nthz its f <> None ->
  VisFacts (above_of its f) (below_of its f) f h m cur v -> 0 <= f ->
  forall p rw, In (p, rw) (v_above v) \/ In (p, rw) (v_below v) -> In (p, rw) (number 0 its).
Proof.
  intros Hf (_ & _ & _ & t2 & t4 & restA & takenB & restB & Hab & Hbe & Eva & Evb & _) Hf0 p rw [Hin|Hin].
  - rewrite Eva in Hin. assert (Hin2 : In (p, rw) (above_of its f)).
    { rewrite Hab. apply in_or_app. left. apply in_app_or in Hin. apply in_or_app.
      destruct Hin as [H1|H1]; [left; now apply filter_In in H1 | now right]. }
    unfold above_of in Hin2. apply in_rev in Hin2. now apply In_number_takez in Hin2.
  - rewrite Evb in Hin. apply filter_In in Hin. destruct Hin as [Hin _].
    assert (Hin2 : In (p, rw) (below_of its f)) by (rewrite Hbe; apply in_or_app; now left).
    unfold below_of in Hin2. apply In_number_dropz in Hin2; [assumption | lia].
Qed.

Lemma candok_of_number its x : In (t_pos x, t_rows x) (number 0 its) -> CandOK its x.
Proof.
  intros H. destruct (number_In _ _ _ _ H) as (w & Hw & Hr). replace (t_pos x - 0) with (t_pos x) in Hw by lia.
  now exists w.
Qed.

Lemma last_fill_pos_nonneg its (fl : list fitem) d : 0 <= d -> (forall p rw, In (p, rw) fl -> In (p, rw) (number 0 its)) ->
  0 <= last_fill_pos fl d.
Proof.
  intros Hd H. unfold last_fill_pos. destruct (rev fl) as [|[p rw] r] eqn:E; [lia|].
  assert (Hin : In (p, rw) (rev fl)) by (rewrite E; now left). apply in_rev in Hin.
  pose proof (number_pos _ _ _ (H _ _ Hin)). cbn in *. lia.
Qed.

Lemma pd_gather_facts : forall s m v w cur,
  nthz (items s) (focus s) = Some w ->
  VisFacts (above_of (items s) (focus s)) (below_of (items s) (focus s)) (focus s) (i_rows w) m cur v ->
  exists sr x0 tl srs,
    pd_gather s m v = (sr, x0 :: tl, srs) /\
    (forall x, In x (x0 :: tl) -> CandOK (items s) x) /\ 1 <= srs <= zlen (x0 :: tl).
Proof.
  intros s m v w cur Hw HV.
  pose proof (split_at _ _ _ Hw) as (_ & _ & Hf).
  assert (Hfill := fill_items_in (items s) (focus s) (i_rows w) m cur v ltac:(congruence) HV ltac:(lia)).
  destruct HV as (Efp & Efr & _).
  unfold pd_gather. rewrite Efp, Efr.
  match goal with |- context [pd_for ?fb ?ro ?acc] =>
    destruct (pd_for_spec fb ro acc) as (e1 & E1 & H1); destruct (pd_for fb ro acc) as [t1 ro1] end.
  cbn [fst] in E1. subst t1.
  match goal with |- context [pd_while ?nx ?lim ?mm ?ro ?srs ?acc] =>
    destruct (pd_while_spec nx lim mm ro srs acc ltac:(lia)) as (e2 & E2 & H2 & Hb);
    destruct (pd_while nx lim mm ro srs acc) as [t2 srs2] end.
  cbn [fst snd] in E2, Hb. subst t2.
  set (x00 := (_, focus s, i_rows w)) in *.
  assert (Hc : forall x, In x (([x00] ++ e1) ++ e2) -> CandOK (items s) x).
  { intros x Hx. apply in_app_or in Hx. destruct Hx as [Hx|Hx]; [apply in_app_or in Hx; destruct Hx as [Hx|Hx]|].
    - destruct Hx as [<-|[]]. exists w. split; [exact Hw | reflexivity].
    - apply candok_of_number. apply Hfill. right. now apply H1.
    - apply candok_of_number. apply H2 in Hx. unfold below_of in Hx. apply In_number_dropz in Hx; [assumption|].
      assert (0 <= last_fill_pos (v_below v) (focus s)); [|lia].
      apply (last_fill_pos_nonneg (items s)); [lia|]. intros p rw Hp. apply Hfill. now right. }
  assert (Hlen : 1 <= zlen ([x00] ++ e1)) by (unfold zlen; rewrite app_length; cbn [length]; lia).
  match goal with |- context [match rev ?tt with [] => _ | _ :: _ => _ end] => set (T := tt) in * end.
  assert (HT : exists y tl', T = y :: tl') by (unfold T; cbn [app]; eauto).
  destruct HT as (y & tl' & ET).
  assert (Hs2 : 1 <= srs2 <= zlen T)
    by (destruct Hb as [Hb1 Hb2]; split; [eapply Z.le_trans; [exact Hlen | exact Hb1] | exact Hb2]).
  change (([x00] ++ e1) ++ e2) with T in Hc. clear Hb Hlen. clearbody T.
  destruct (rev T) as [|xl rT] eqn:Erev.
  - exists (m - i_rows w - (m - v_off_inset v - (m - v_off_inset v - (m - v_off_inset v)))) , y, tl', srs2.
    exfalso. apply (f_equal (@rev _)) in Erev. rewrite rev_involutive in Erev. cbn in Erev. congruence.
  - destruct (t_ro xl + t_rows xl <? m).
    + rewrite ET. cbn [map]. eexists; eexists; eexists; eexists. split; [reflexivity|]. split.
      * intros x Hx. change (t_shift _ y :: map _ tl') with (map (t_shift (m - (t_ro xl + t_rows xl))) (y :: tl')) in Hx.
        rewrite <- ET in Hx. apply in_map_iff in Hx. destruct Hx as (x' & <- & Hx').
        destruct (Hc _ Hx') as (w' & A & B). exists w'. destruct x' as [[a b] c]. cbn in *. split; assumption.
      * change (t_shift _ y :: map _ tl') with (map (t_shift (m - (t_ro xl + t_rows xl))) (y :: tl')).
        rewrite <- ET. unfold zlen in *. rewrite map_length. exact Hs2.
    + rewrite ET. eexists; eexists; eexists; eexists. split; [reflexivity|]. rewrite <- ET. split; [exact Hc | exact Hs2].
Qed.

(* ---------- 'page down' ---------- *)
Theorem page_down_never_raises_lemma : forall s m,
  ViewOK s -> WidgetsOK (items s) -> 1 <= m ->
  exists s' b, keypress_page_down s m = Ok (s', b) /\ ViewOK s' /\ items s' = items s.
Proof.
  intros s m Hv HW Hm. pose proof HW as [Hh Hc]. unfold keypress_page_down.
  destruct (nthz (items s) (focus s)) as [w|] eqn:Hw.
  2: { unfold visible. rewrite Hw. exists s, true. auto. }
  destruct Hv as [Ho Hnd].
  destruct (visible_ok (items s) (focus s) (off s) (inum s) (iden s) m true w) as (v & Ev & HV & _);
    [constructor; assumption | assumption | apply Hc; now apply nthz_In in Hw |].
  rewrite Ev.
  destruct (pd_gather_facts s m v w _ Hw HV) as (sr & x0 & tl & srs & Eg & Hcand & Hsrs).
  rewrite Eg.
  destruct HV as (Efp & Efr & _).
  assert (Ecand : pd_candidates s m v = if t_ro x0 + t_rows x0 <=? 0 then tl else x0 :: tl)
    by (unfold pd_candidates; rewrite Eg; reflexivity).
  remember (pd_candidates s m v) as t eqn:Et.
  set (srs' := if t_ro x0 + t_rows x0 <=? 0 then srs - 1 else srs).
  assert (Hcand' : forall x, In x t -> CandOK (items s) x).
  { rewrite Ecand. destruct (t_ro x0 + t_rows x0 <=? 0); intros x Hx; apply Hcand; [now right | assumption]. }
  assert (Hb : 0 <= srs' <= zlen t).
  { unfold srs'. rewrite Ecand. rewrite zlen_cons in Hsrs. destruct (t_ro x0 + t_rows x0 <=? 0); [lia | rewrite zlen_cons; lia]. }
  assert (Hidx : forall i, In i (search_order srs' (zlen t)) -> exists x, nthz t i = Some x).
  { intros i Hi. apply nthz_some. eapply search_order_In; eassumption. }
  set (order := search_order srs' (zlen t)) in *.
  assert (Hs0 : SInv s s) by (split; [split; assumption | split; [reflexivity | now exists w]]).
  pose proof (pd_loop1_outcome s m sr (v_fpos v) t order Hm HW Hcand' order
                {| p_s := s; p_bad := []; p_cut := false; p_ro := t_ro x0 |}
                (incl_refl _) Hidx Hs0 (or_introl (eq_sym Efp))) as H1.
  destruct (pd_loop1 m sr t order _) as [[s1|st]|e]; [| |contradiction].
  - destruct H1 as (A & B & _). exists s1, false. auto.
  - destruct H1 as (Hs1 & Htr1). destruct (p_cut st).
    { destruct Hs1 as (A & B & _). exists (p_s st), false. auto. }
    set (good := filter (fun j => negb (existsb (Z.eqb j) (p_bad st))) order).
    assert (Hidx2 : forall i, In i (good ++ order) -> exists x, nthz t i = Some x).
    { intros i Hi. apply in_app_or in Hi. destruct Hi as [Hi|Hi]; [apply filter_In in Hi; destruct Hi as [Hi _]|]; now apply Hidx. }
    pose proof (pd_loop2_outcome s m sr (v_fpos v) t Hm Hcand' (p_s st) (good ++ order) (p_ro st) Hidx2 Hs1) as H2.
    destruct (pd_loop2 (p_s st) m sr (v_fpos v) t (good ++ order) (p_ro st)) as [[[s2|] ro2]|e]; [| |contradiction].
    + destruct H2 as (A & B & _). exists s2, false. auto.
    + (* no choices available: the focus is still the old one *)
      assert (Hfoc : focus (p_s st) = v_fpos v).
      { destruct Htr1 as [?|(i & x & Hi & Hx & Hne & Hr & Hab)]; [assumption|].
        destruct (H2 i x (in_or_app _ _ _ (or_intror Hi)) Hx) as [?|[?|?]]; [contradiction | contradiction | lia]. }
      destruct Hs1 as (Hv1 & Hi1 & Hf1).
      assert (Hra : rows_at (items (p_s st)) (focus (p_s st)) = v_frows v).
      { unfold rows_at. rewrite Hi1, Hfoc, Efp, Hw. now rewrite Efr. }
      match goal with |- context [shift_focus (p_s st) m ?o] =>
        destruct (shift_focus_ok (p_s st) m o) as (s3 & Es3 & _ & Hi3 & Hf3 & Hv3 & _) end.
      { rewrite Hra. pose proof (split_at _ _ _ Hw). rewrite Efr.
        assert (0 <= i_rows w) by (apply nthz_In in Hw; unfold heights_ok in Hh; rewrite Forall_forall in Hh; now apply Hh).
        lia. }
      rewrite Es3.
      assert (Hs3 : SInv s s3).
      { split; [assumption|]. split; [congruence|]. rewrite Hf3. assumption. }
      destruct (vis_total s s3 m Hm HW Hs3) as (v2 & ->).
      destruct (v_off_inset v2 <=? ro2); [exists s3, false; split; [reflexivity | split; [assumption | congruence]]|].
      destruct (rev t) as [|xl rt]; [exists s3, false; split; [reflexivity | split; [assumption | congruence]]|].
      destruct (nthz (items s3) (t_pos xl + 1)) as [w2|] eqn:Ew2;
        [|exists s3, false; split; [reflexivity | split; [assumption | congruence]]].
      destruct (change_focus_sr_ok s3 m (t_pos xl + 1) (m - 1) CAbove 0 w2 Hm ltac:(discriminate) Ew2 ltac:(left; lia))
        as (s4 & Es4 & _ & Hi4 & _ & Hv4 & _).
      exists s4, false. unfold lift_k. rewrite Es4. split; [reflexivity | split; [assumption | congruence]].
Qed.

(* the whole key: completing any pending request, then paging down *)
Theorem keypress_page_down_never_raises_lemma : forall s m,
  ViewOK s -> WidgetsOK (items s) -> 1 <= m ->
  exists s' b, keypress s m KPageDown = Ok (s', b) /\ ViewOK s' /\ items s' = items s.
Proof.
  intros s m Hv [Hh Hc] Hm. unfold keypress.
  destruct (set_focus_complete_ok s m true Hv Hh Hm Hc) as (s1 & -> & _ & Hi1 & Hv1 & _).
  destruct (nthz (items s1) (focus s1)); [|exists s1, true; auto].
  destruct (page_down_never_raises_lemma s1 m Hv1 ltac:(rewrite Hi1; split; assumption) Hm) as (s' & b & E & A & B).
  exists s', b. rewrite E. split; [reflexivity | split; [assumption | congruence]].
Qed.

(* the formerly failing situation: a one-row text, a one-row selectable widget and a two-row text in a
   box of two rows, the focus on the first widget at the top ('home'), then 'page down' *)
Definition pd_witness : lb :=
  {| items := [ {| i_rows := 1; i_sel := false; i_cy := None |}; {| i_rows := 1; i_sel := true; i_cy := None |};
                {| i_rows := 2; i_sel := false; i_cy := None |} ];
     focus := 0; off := 0; inum := 0; iden := 1; pend := PNone; vpend := None |}.
