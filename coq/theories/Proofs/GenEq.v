(* C11 - generated = hand-written, for all inputs.  The functions of Gen/str_loops_gen.v are re-translated
   from urwid/str_util.py and urwid/util.py on every run; the hand-written versions in Model/Width.v are
   the specifications every other proof talks about.  These equalities transfer every theorem to the
   regenerated text (and break when the source changes shape or meaning). *)
From Coq Require Import ZArith List Bool Lia ZifyBool.
Import ListNotations.
From Urwid Require Import PyBase PyList Utf8 wcwidth_table_gen str_util_gen str_loops_gen Width.
Open Scope Z_scope.
Arguments Z.add : simpl never.
Arguments Z.sub : simpl never.
Arguments Z.mul : simpl never.
Arguments Z.ltb : simpl never.
Arguments Z.leb : simpl never.
Arguments Z.eqb : simpl never.
Arguments Z.land : simpl never.
Arguments Z.abs : simpl never.
Arguments Z.of_nat : simpl never.
Arguments Z.to_nat : simpl never.

(* ---------- within_double_byte ---------- *)
Lemma wdb_scan_gen_eq text ls pos : forall n i,
  within_double_byte_gen_loop1 n text ls pos i = wdb_scan text n i ls.
Proof.
  induction n as [|n IH]; intros i; cbn [within_double_byte_gen_loop1 wdb_scan].
  - reflexivity.
  - destruct (ls <=? i); [|reflexivity]. destruct (get_index text i) as [b|e]; [|reflexivity].
    destruct (b <? 128); [reflexivity|]. apply IH.
Qed.

Lemma wdb_gen_eq : forall n text ls pos, within_double_byte_gen n text ls pos = wdb n text ls pos.
Proof.
  induction n as [|n IH]; intros text ls pos; cbn [within_double_byte_gen wdb negb]; [reflexivity|].
  destruct (get_index text pos) as [v|e]; [|reflexivity].
  destruct ((64 <=? v) && (v <? 127)).
  - destruct (pos =? ls); [reflexivity|].
    destruct (get_index text (pos - 1)) as [p1|e]; [|reflexivity].
    destruct (129 <=? p1); [|reflexivity]. rewrite IH.
    destruct (wdb n text ls (pos - 1)) as [r|e]; [|reflexivity]. destruct (r =? 1); reflexivity.
  - destruct (v <? 128); [reflexivity|]. rewrite wdb_scan_gen_eq.
    destruct (wdb_scan text (Z.to_nat (pos - ls)) (pos - 1) ls) as [i|e]; [|reflexivity].
    destruct (Z.land (pos - i) 1 =? 0); reflexivity.
Qed.

Theorem within_double_byte_gen_eq text ls pos :
  within_double_byte_gen 3 text ls pos = within_double_byte text ls pos.
Proof. apply wdb_gen_eq. Qed.

Section Eq.
Variable wcw : Z -> Z.

(* ---------- calc_string_text_pos ---------- *)
Lemma cstp_loop_gen_eq text a b col : forall n idx cols,
  match calc_string_text_pos_gen_loop1 n (cw wcw) text a b col idx cols with
  | Err e => Err e | Ok (inl r) => Ok r | Ok (inr c) => Ok (b, c) end
  = cstp_loop wcw text n idx cols col b.
Proof.
  induction n as [|n IH]; intros idx cols; cbn [calc_string_text_pos_gen_loop1 cstp_loop]; [reflexivity|].
  destruct (get_index text idx) as [ch|e]; [|reflexivity].
  destruct (col <? cw wcw ch + cols); [reflexivity|]. apply IH.
Qed.

Theorem calc_string_text_pos_gen_eq text a b col :
  calc_string_text_pos_gen (cw wcw) text a b col = calc_string_text_pos wcw text a b col.
Proof.
  unfold calc_string_text_pos_gen, calc_string_text_pos. destruct (b <? a); [reflexivity|].
  rewrite <- (cstp_loop_gen_eq text a b col).
  destruct (calc_string_text_pos_gen_loop1 (Z.to_nat (b - a)) (cw wcw) text a b col a 0) as [[r|c]|e]; reflexivity.
Qed.

(* ---------- calc_text_pos ---------- *)
Lemma ctp_loop_gen_eq f1 f4 s be text a b col : forall n i sc,
  match calc_text_pos_gen_loop1 n f1 decode_one (get_width wcw) f4 s be text a b col i sc with
  | Err e => Err e | Ok (inl r) => Ok r | Ok (inr r) => Ok r end
  = ctp_utf8_loop wcw text n i sc b col.
Proof.
  induction n as [|n IH]; intros i sc; cbn [calc_text_pos_gen_loop1 ctp_utf8_loop].
  - destruct (i <? b); reflexivity.
  - destruct (i <? b); [|reflexivity]. destruct (decode_one text i) as [[o nx]|e]; [|reflexivity].
    destruct (get_width wcw o) as [w|e]; [|reflexivity].
    destruct (col <? w + sc); [reflexivity|]. apply IH.
Qed.

Theorem calc_text_pos_gen_eq f1 f4 m text a b col :
  (forall t x y c, f1 t x y c = calc_string_text_pos wcw t x y c) ->
  (forall t x y, f4 t x y = within_double_byte t x y) ->
  calc_text_pos_gen f1 decode_one (get_width wcw) f4 (is_str_of m) (benc_of m) text a b col
  = calc_text_pos wcw m text a b col.
Proof.
  intros H1 H4. unfold calc_text_pos_gen, calc_text_pos. destruct (b <? a); [reflexivity|].
  destruct m; cbn [is_str_of benc_of negb].
  - apply H1.
  - rewrite <- (ctp_loop_gen_eq f1 f4 false EUtf8 text a b col).
    destruct (calc_text_pos_gen_loop1 _ _ _ _ _ _ _ _ _ _ _ _ _) as [[r|[i sc]]|e]; reflexivity.
  - destruct (b <=? a + col); [reflexivity|]. rewrite H4.
    destruct (within_double_byte text a (a + col)) as [r|e]; [|reflexivity]. destruct (r =? 2); reflexivity.
  - destruct (b <=? a + col); reflexivity.
Qed.

(* ---------- calc_width, fallback loop ---------- *)
Lemma cw_loop_gen_eq text a b : forall n i sc,
  match calc_width_fallback_gen_loop1 n decode_one (get_width wcw) text a b i sc with
  | Err e => Err e | Ok (_, s) => Ok s end
  = cw_utf8_loop wcw text n i sc b.
Proof.
  induction n as [|n IH]; intros i sc; cbn [calc_width_fallback_gen_loop1 cw_utf8_loop].
  - destruct (i <? b); reflexivity.
  - destruct (i <? b); [|reflexivity]. destruct (decode_one text i) as [[o nx]|e]; [|reflexivity].
    destruct (get_width wcw o) as [w|e]; [|reflexivity]. apply IH.
Qed.

Theorem calc_width_fallback_gen_eq text a b :
  calc_width_fallback_gen decode_one (get_width wcw) text a b = cw_utf8_loop wcw text (Z.to_nat (b - a)) a 0 b.
Proof.
  unfold calc_width_fallback_gen. rewrite <- (cw_loop_gen_eq text a b).
  destruct (calc_width_fallback_gen_loop1 _ _ _ _ _ _ _ _) as [[i s]|e]; reflexivity.
Qed.

End Eq.

(* ---------- move_prev_char / move_next_char ---------- *)
Lemma mpc_loop_gen_eq f s be text a b : forall n o,
  move_prev_char_gen_loop1 n f s be text a b o = mpc_loop text n o.
Proof.
  induction n as [|n IH]; intros o; cbn [move_prev_char_gen_loop1 mpc_loop]; [reflexivity|].
  destruct (get_index text o) as [v|e]; [|reflexivity]. destruct (Z.land v 192 =? 128); [apply IH|reflexivity].
Qed.

Theorem move_prev_char_gen_eq f m text a b :
  (forall t x y, f t x y = within_double_byte t x y) ->
  move_prev_char_gen f (is_str_of m) (benc_of m) text a b = move_prev_char m text a b.
Proof.
  intros Hf. unfold move_prev_char_gen, move_prev_char. destruct (b <=? a); [reflexivity|].
  destruct m; cbn [is_str_of benc_of negb]; rewrite ?Hf; try reflexivity.
  rewrite mpc_loop_gen_eq. destruct (mpc_loop text _ (b - 1)); reflexivity.
Qed.

Lemma mnc_loop_gen_eq f s be text a b : forall n o,
  move_next_char_gen_loop1 n f s be text a b o = mnc_loop text n o b.
Proof.
  induction n as [|n IH]; intros o; cbn [move_next_char_gen_loop1 mnc_loop].
  - destruct (o <? b); reflexivity.
  - destruct (o <? b); [|reflexivity].
    destruct (get_index text o) as [v|e]; [|reflexivity]. destruct (Z.land v 192 =? 128); [apply IH|reflexivity].
Qed.

Theorem move_next_char_gen_eq f m text a b :
  (forall t x y, f t x y = within_double_byte t x y) ->
  move_next_char_gen f (is_str_of m) (benc_of m) text a b = move_next_char m text a b.
Proof.
  intros Hf. unfold move_next_char_gen, move_next_char. destruct (b <=? a); [reflexivity|].
  destruct m; cbn [is_str_of benc_of negb]; rewrite ?Hf; try reflexivity.
  rewrite mnc_loop_gen_eq. destruct (mnc_loop text _ (a + 1) b); reflexivity.
Qed.

(* ---------- rle_get_at / rle_len / rle_subseg ---------- *)
Lemma rle_get_at_loop_gen_eq pos : forall (l : rle) x,
  match rle_get_at_gen_loop1 l pos x with Err e => Err e | Ok (inl r) => Ok r | Ok (inr _) => Ok None end
  = Ok (rle_get_at_loop l x pos).
Proof.
  induction l as [|[a run] l IH]; intros x; cbn [rle_get_at_gen_loop1 rle_get_at_loop]; [reflexivity|].
  destruct (pos <? x + run); [reflexivity|]. apply IH.
Qed.

Theorem rle_get_at_gen_eq (r : rle) pos : rle_get_at_gen r pos = Ok (rle_get_at r pos).
Proof.
  unfold rle_get_at_gen, rle_get_at. destruct (pos <? 0); [reflexivity|].
  rewrite <- rle_get_at_loop_gen_eq. destruct (rle_get_at_gen_loop1 r pos 0) as [[v|x]|e]; reflexivity.
Qed.

Lemma rle_len_loop_gen_eq : forall (l : rle) run, rle_len_gen_loop1 l run = Ok (run + rle_len l).
Proof.
  induction l as [|[a n] l IH]; intros run; cbn [rle_len_gen_loop1 rle_len negb]; [f_equal; lia|].
  rewrite IH. f_equal. lia.
Qed.

Theorem rle_len_gen_eq (r : rle) : rle_len_gen r = Ok (rle_len r).
Proof. unfold rle_len_gen. rewrite rle_len_loop_gen_eq. reflexivity. Qed.

Lemma rle_subseg_loop_gen_eq e : forall (l : rle) start acc x,
  match rle_subseg_gen_loop1 l e start acc x with Err er => Err er | Ok (_, sub, _) => Ok sub end
  = Ok (acc ++ rle_subseg_loop l start x e).
Proof.
  induction l as [|[a run] l IH]; intros start acc x; cbn [rle_subseg_gen_loop1 rle_subseg_loop].
  - now rewrite app_nil_r.
  - destruct (negb (start =? 0)) eqn:E1.
    + destruct (run <=? start) eqn:E2; cbn [andb].
      * apply IH.
      * destruct (e <=? x + start); [now rewrite app_nil_r|].
        destruct (e <? x + start + (run - start)); rewrite IH, <- app_assoc; reflexivity.
    + assert (start = 0) by lia. subst start. cbn [andb]. destruct (e <=? x); [now rewrite app_nil_r|].
      destruct (e <? x + run); rewrite IH, <- app_assoc; reflexivity.
Qed.

Theorem rle_subseg_gen_eq (r : rle) s e : rle_subseg_gen r s e = Ok (rle_subseg r s e).
Proof.
  unfold rle_subseg_gen, rle_subseg.
  pose proof (rle_subseg_loop_gen_eq e r s [] 0) as H.
  destruct (rle_subseg_gen_loop1 r e s [] 0) as [[[st sub] x]|er]; [|discriminate]. exact H.
Qed.

(* ---------- the assembled functions the extracted model runs = the specifications ---------- *)
Theorem within_double_byte_g_eq text ls pos : within_double_byte_g text ls pos = within_double_byte text ls pos.
Proof. apply wdb_gen_eq. Qed.

Theorem calc_text_pos_g_eq wcw m text a b col : calc_text_pos_g wcw m text a b col = calc_text_pos wcw m text a b col.
Proof.
  unfold calc_text_pos_g. apply calc_text_pos_gen_eq.
  - intros. apply calc_string_text_pos_gen_eq.
  - intros. apply within_double_byte_g_eq.
Qed.

Theorem move_next_char_g_eq m text a b : move_next_char_g m text a b = move_next_char m text a b.
Proof. apply move_next_char_gen_eq. intros. apply within_double_byte_g_eq. Qed.

Theorem move_prev_char_g_eq m text a b : move_prev_char_g m text a b = move_prev_char m text a b.
Proof. apply move_prev_char_gen_eq. intros. apply within_double_byte_g_eq. Qed.

Theorem calc_trim_text_g_eq wcw m text a b sc ec :
  calc_trim_text_g wcw m text a b sc ec = calc_trim_text wcw m text a b sc ec.
Proof.
  unfold calc_trim_text_g, calc_trim_text, calc_trim_text_gen. rewrite ?calc_text_pos_g_eq.
  destruct (0 <? sc).
  - destruct (calc_text_pos wcw m text a b sc) as [[p1 c1]|e]; [|reflexivity].
    destruct (c1 <? sc).
    + destruct (calc_text_pos wcw m text a b (sc + 1)) as [[p2 c2]|e]; [|reflexivity].
      cbv beta iota. rewrite ?calc_text_pos_g_eq. reflexivity.
    + cbv beta iota. rewrite ?calc_text_pos_g_eq. reflexivity.
  - cbv beta iota. rewrite ?calc_text_pos_g_eq. reflexivity.
Qed.

Theorem calc_width_g_eq wcw m text a b : calc_width_g wcw m text a b = calc_width wcw m text a b.
Proof.
  unfold calc_width_g, calc_width. destruct (b <? a); [reflexivity|]. destruct m; try reflexivity.
  destruct (strict_decode (py_slice text a b)); [reflexivity|]. apply calc_width_fallback_gen_eq.
Qed.

Theorem is_wide_char_g_eq wcw m text offs : is_wide_char_g wcw m text offs = is_wide_char wcw m text offs.
Proof.
  unfold is_wide_char_g, is_wide_char_gen, is_wide_char. destruct m; cbn [is_str_of benc_of negb]; try reflexivity.
  now rewrite within_double_byte_g_eq.
Qed.

(* the statements of Properties/C11.v *)
Theorem gen_offset_functions_eq wcw m text a b c d :
  calc_text_pos_g wcw m text a b c = calc_text_pos wcw m text a b c /\
  calc_width_g wcw m text a b = calc_width wcw m text a b /\
  move_next_char_g m text a b = move_next_char m text a b /\
  move_prev_char_g m text a b = move_prev_char m text a b /\
  is_wide_char_g wcw m text a = is_wide_char wcw m text a /\
  within_double_byte_g text a b = within_double_byte text a b /\
  calc_trim_text_g wcw m text a b c d = calc_trim_text wcw m text a b c d.
Proof.
  split; [apply calc_text_pos_g_eq|]. split; [apply calc_width_g_eq|]. split; [apply move_next_char_g_eq|].
  split; [apply move_prev_char_g_eq|]. split; [apply is_wide_char_g_eq|]. split; [apply within_double_byte_g_eq|].
  apply calc_trim_text_g_eq.
Qed.

Theorem gen_loops_eq wcw text a b col :
  calc_string_text_pos_gen (cw wcw) text a b col = calc_string_text_pos wcw text a b col /\
  calc_width_fallback_gen decode_one (get_width wcw) text a b = cw_utf8_loop wcw text (Z.to_nat (b - a)) a 0 b /\
  (forall n, within_double_byte_gen n text a b = wdb n text a b).
Proof.
  split; [apply calc_string_text_pos_gen_eq|]. split; [apply calc_width_fallback_gen_eq|].
  intros n. apply wdb_gen_eq.
Qed.

Theorem gen_rle_eq (r : rle) pos s e :
  rle_get_at_gen r pos = Ok (rle_get_at r pos) /\ rle_len_gen r = Ok (rle_len r) /\
  rle_subseg_gen r s e = Ok (rle_subseg r s e).
Proof. split; [apply rle_get_at_gen_eq|]. split; [apply rle_len_gen_eq|apply rle_subseg_gen_eq]. Qed.
