(* C13 - vocabulary in which the event-loop contract is stated: predicates over an observable
   history.  A history [tr] is a list of events NEWEST FIRST (the model's [rtrace]); so for
   tr = e :: older, [older] is everything that happened before e.  Definitions only. *)
From Coq Require Import ZArith List Bool.
Import ListNotations.
From Urwid Require Import PyBase SelectLoop.
Open Scope Z_scope.

(* P holds of every event together with the history that preceded it *)
Fixpoint hist_ok (P : event -> list event -> Prop) (tr : list event) : Prop :=
  match tr with
  | [] => True
  | e :: older => P e older /\ hist_ok P older
  end.

(* ----- alarms ----- *)
Definition aset (k due id : Z) (tr : list event) : Prop := In (EAlarmSet k due id) tr.
Definition acalled (k : Z) (tr : list event) : Prop := exists id t, In (EAlarmCall k id t) tr.
Definition aremoved (k : Z) (tr : list event) : Prop := In (ERmAlarm k true) tr.
(* alarm #k (due time, callback id) has been set and has neither run nor been removed *)
Definition pending (k due id : Z) (tr : list event) : Prop :=
  aset k due id tr /\ ~ acalled k tr /\ ~ aremoved k tr.

(* ----- watches ----- *)
(* the callback currently registered for fd, according to the history *)
Fixpoint watched (fd : Z) (tr : list event) : option Z :=
  match tr with
  | [] => None
  | EWatchSet f id :: r => if f =? fd then Some id else watched fd r
  | ERmWatch f true :: r => if f =? fd then None else watched fd r
  | _ :: r => watched fd r
  end.

Definition is_select (e : event) : bool := match e with ESelect _ _ _ _ => true | _ => false end.
Definition is_aw_call (e : event) : bool :=
  match e with EAlarmCall _ _ _ | EWatchCall _ _ _ => true | _ => false end.

(* the events newer than the most recent select() *)
Fixpoint last_batch (tr : list event) : list event :=
  match tr with
  | [] => []
  | e :: r => if is_select e then [] else e :: last_batch r
  end.
(* the most recent select() : (timeout, registered, clock, returned ready list) *)
Fixpoint last_select (tr : list event) : option (option Z * list Z * Z * list Z) :=
  match tr with
  | [] => None
  | ESelect to regs t ready :: _ => Some (to, regs, t, ready)
  | _ :: r => last_select r
  end.
(* the history before the most recent select() *)
Fixpoint before_select (tr : list event) : list event :=
  match tr with
  | [] => []
  | e :: r => if is_select e then r else before_select r
  end.

(* fd was reported readable by the most recent select() and [id] was its callback at that time *)
Definition ready_reg (fd id : Z) (tr : list event) : Prop :=
  match last_select tr with
  | Some (_, _, _, ready) => In fd ready /\ watched fd (before_select tr) = Some id
  | None => False
  end.

(* every descriptor reported readable by the most recent select() has had its callback called
   since, unless the watch was removed since *)
Definition batch_done (tr : list event) : Prop :=
  match last_select tr with
  | Some (_, _, _, ready) =>
      forall fd, In fd ready ->
        (exists id t, In (EWatchCall fd id t) (last_batch tr)) \/ In (ERmWatch fd true) (last_batch tr)
  | None => True
  end.

(* ----- idle callbacks ----- *)
Definition iset (h id : Z) (tr : list event) : Prop := In (EIdleSet h id) tr.
Definition iremoved (h : Z) (tr : list event) : Prop := In (ERmIdle h true) tr.

(* a wait that can really wait: no timeout, or a positive one *)
Definition quiescent (to : option Z) : Prop := match to with None => True | Some d => 0 < d end.

(* an idle round has run since the last alarm / watch callback: the history splits at a
   select(0) that returned nothing; no alarm or watch callback ran after it, and every idle
   callback registered before it and not removed up to now has been called after it *)
Definition idle_done (tr : list event) : Prop :=
  exists batch regs t rest,
    tr = batch ++ ESelect (Some 0) regs t [] :: rest /\
    (forall e, In e batch -> is_aw_call e = false) /\
    (forall h id, iset h id rest -> ~ iremoved h tr -> exists t', In (EIdleCall h id t') batch).

(* ----- what must hold of each select() call ----- *)
Definition sel_ok (to : option Z) (regs : list Z) (t : Z) (ready : list Z) (older : list event) : Prop :=
  (* exactly the watched descriptors are registered, and only registered ones are reported *)
  (forall fd, In fd regs <-> watched fd older <> None) /\
  (forall fd, In fd ready -> In fd regs) /\
  (* the loop never waits beyond the due time of a pending alarm *)
  match to with
  | None => forall k d i, ~ pending k d i older
  | Some d => 0 <= d /\ (0 < d -> forall k due i, pending k due i older -> t + d <= due)
  end /\
  (* it goes quiescent only after the idle callbacks have run *)
  (quiescent to -> idle_done older) /\
  (* and only after the previous ready batch has been served *)
  batch_done older.

(* ----- the contract, event by event ----- *)
Definition ev_ok (e : event) (older : list event) : Prop :=
  match e with
  | EAlarmSet k due id => forall d i, ~ aset k d i older                 (* handles are fresh *)
  | ERmAlarm k ok => ok = true <-> exists d i, pending k d i older       (* True iff still pending *)
  | EAlarmCall k id t =>
      exists due, pending k due id older /\ due <= t /\
        forall k' d' i', pending k' d' i' older -> alarm_lt (mkAlarm d' k' i') (mkAlarm due k id) = false
  | EWatchSet _ _ => True
  | ERmWatch fd ok => ok = true <-> watched fd older <> None
  | EWatchCall fd id t => watched fd older <> None /\ ready_reg fd id older
  | EIdleSet h id => forall i, ~ iset h i older
  | ERmIdle h ok => ok = true <-> ((exists id, iset h id older) /\ ~ iremoved h older)
  | EIdleCall h id t => iset h id older /\ ~ iremoved h older
  | ESelect to regs t ready => sel_ok to regs t ready older
  | ERaise _ => True
  end.

(* ----- exceptions ----- *)
Definition no_raise (tr : list event) : Prop := forall b, ~ In (ERaise b) tr.
Definition action_raises (a : action) : bool := match a with RaiseExit | RaiseOther => true | _ => false end.
