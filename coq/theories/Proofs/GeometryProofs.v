(* C09: the four geometry methods of every container agree (local lemmas, one group per container)
   and the agreement composes over the tree (generic lemmas about [interp], structural induction). *)
From Coq Require Import ZArith List Bool Lia ZifyBool.
Import ListNotations.
From Urwid Require Import PyBase geo_padfill_gen Geometry GeometryFacts.
From Urwid Require Import GeometryLayoutTie.   (* C19's theorems about the padding / filler arithmetic, carried over to this model's translation *)
Open Scope Z_scope.

Arguments Z.add : simpl never. Arguments Z.sub : simpl never. Arguments Z.mul : simpl never.
Arguments Z.div : simpl never. Arguments Z.modulo : simpl never. Arguments Z.ltb : simpl never.
Arguments Z.leb : simpl never. Arguments Z.eqb : simpl never. Arguments Z.min : simpl never.
Arguments Z.max : simpl never. Arguments Z.quot : simpl never.

(* ------------------------------------------------------------------------------------------ *)
(* vocabulary                                                                                  *)
(* ------------------------------------------------------------------------------------------ *)
Definition in_rect (x y cols rows col row : Z) : Prop := x <= col < x + cols /\ y <= row < y + rows.
Definition size_pos (s : size) : Prop := 1 <= fst s /\ (forall r, snd s = Some r -> 1 <= r).
Definition of_oxy (o : option xy) : cres := match o with Some (x, y) => CSome x y | None => CNone end.

(* --- what a node's own methods must satisfy with respect to its own placement (local agreement) --- *)
Definition LocalWithin (nd : node) (infos : list cinfo) : Prop :=
  forall s p, n_fits nd s = true -> size_pos s -> In p (n_place nd s) ->
    0 <= p_x p /\ p_x p + fst (p_size p) <= fst s /\
    0 <= p_y p /\ p_y p + crows (nth_info infos (p_idx p)) (p_size p) <= crows (n_info nd) s.

Definition LocalMouse (nd : node) (infos : list cinfo) : Prop :=
  forall s p col row focus, n_fits nd s = true -> size_pos s -> In p (n_place nd s) -> p_bg p = false ->
    in_rect (p_x p) (p_y p) (fst (p_size p)) (crows (nth_info infos (p_idx p)) (p_size p)) col row ->
    exists f, n_route nd s col row focus = Some (Routed (p_idx p) (p_size p) (col - p_x p) (row - p_y p) f).

Definition LocalCursor (nd : node) (infos : list cinfo) : Prop :=
  forall s, n_fits nd s = true -> size_pos s ->
    exists p, In p (n_place nd s) /\ p_isfocus p = true /\
      (forall q, In q (n_place nd s) -> p_isfocus q = true -> q = p) /\
      let ci := nth_info infos (p_idx p) in
      match n_cursor nd s with
      | CPNone => i_sel ci = false \/ i_hascur ci = false \/ fst (p_size p) < 1
      | CPErr _ => False
      | CPAsk i cs dx dy clamp nr =>
          i = p_idx p /\ cs = p_size p /\ dx = p_x p /\ dy = p_y p /\ nr = false /\
          match clamp with None => True | Some m => crows ci cs <= m end
      end.

(* a node that is not selectable / has no cursor method has no selectable / cursor-capable focus child *)
Definition LocalFlags (nd : node) (infos : list cinfo) : Prop :=
  forall s p, In p (n_place nd s) -> p_isfocus p = true ->
    (i_sel (n_info nd) = false -> i_sel (nth_info infos (p_idx p)) = false) /\
    (i_hascur (n_info nd) = false -> i_hascur (nth_info infos (p_idx p)) = false).

Definition LocalMove (nd : node) (infos : list cinfo) : Prop :=
  forall s p col row, n_fits nd s = true -> size_pos s -> In p (n_place nd s) -> p_bg p = false ->
    in_rect (p_x p) (p_y p) (fst (p_size p)) (crows (nth_info infos (p_idx p)) (p_size p)) col row ->
    i_hasmove (n_info nd) = true ->
    i_sel (nth_info infos (p_idx p)) = true -> i_hasmove (nth_info infos (p_idx p)) = true ->
    exists nf, n_move nd s col row = MPAsk (p_idx p) (p_size p) (col - p_x p) (row - p_y p) nf.

(* --- properties of views that compose over the tree --- *)
Definition FitsPos (v : wview) : Prop := forall s, v_fits v s = true -> size_pos s.

Definition RectsWithin (v : wview) : Prop :=
  forall s f r, v_fits v s = true -> In r (v_rects v s f) ->
    0 <= rc_x r /\ rc_x r + rc_cols r <= fst s /\ 0 <= rc_y r /\ rc_y r + rc_rows r <= crows (v_info v) s.

Definition MouseDeep (v : wview) : Prop :=
  forall s f1 f2 r col row, v_fits v s = true -> In r (v_rects v s f1) -> rc_bg r = false ->
    in_rect (rc_x r) (rc_y r) (rc_cols r) (rc_rows r) col row ->
    exists f, v_mouse v s col row f2 = Some (Hit (rc_id r) (col - rc_x r) (row - rc_y r) f (rc_size r)).

Definition NoFocusNoCursor (v : wview) : Prop := forall s, v_rcursor v s false = None.
Definition FlagsNoCursor (v : wview) : Prop :=
  forall s f, v_fits v s = true -> (i_sel (v_info v) = false \/ i_hascur (v_info v) = false) -> v_rcursor v s f = None.
Definition CursorInRows (v : wview) : Prop :=
  forall s f x y, v_fits v s = true -> v_rcursor v s f = Some (x, y) -> 0 <= y < crows (v_info v) s.
Definition CursorDeep (v : wview) : Prop :=
  forall s, v_fits v s = true -> v_cursor v s = of_oxy (v_rcursor v s true).

(* ------------------------------------------------------------------------------------------ *)
(* generic composition lemmas about [interp]                                                   *)
(* ------------------------------------------------------------------------------------------ *)
Lemma interp_fits_inv d nd kids s :
  v_fits (interp d nd kids) s = true ->
  size_pos s /\ n_fits nd s = true /\
  forall p, In p (n_place nd s) -> v_fits (nth_view d kids (p_idx p)) (p_size p) = true.
Proof.
  cbn [interp v_fits]. unfold interp_fits. intro H.
  apply andb_true_iff in H as [H Hall]. apply andb_true_iff in H as [H Hn].
  apply andb_true_iff in H as [Hc Hr].
  split; [|split; [exact Hn|]].
  - split; [lia|]. intros r E. rewrite E in Hr. lia.
  - intros p Hp. rewrite forallb_forall in Hall. apply Hall. exact Hp.
Qed.

Lemma interp_fitspos d nd kids : FitsPos (interp d nd kids).
Proof. intros s H. destruct (interp_fits_inv d nd kids s H) as [? _]. assumption. Qed.

Lemma in_interp_rects d nd kids s f r :
  In r (v_rects (interp d nd kids) s f) ->
  exists p r0, In p (n_place nd s) /\
    In r0 (v_rects (nth_view d kids (p_idx p)) (p_size p) (f && p_isfocus p)) /\
    r = shift_rect (p_x p) (p_y p) (p_bg p) r0.
Proof.
  cbn [interp v_rects]. unfold interp_rects. intro H.
  apply in_flat_map in H as [p [Hp H]]. apply in_map_iff in H as [r0 [E H]].
  exists p, r0. auto.
Qed.

Lemma interp_rects_within d nd kids :
  LocalWithin nd (map v_info kids) -> Forall RectsWithin kids -> RectsWithin (interp d nd kids).
Proof.
  intros LW HK s f r Hfit Hr.
  destruct (interp_fits_inv d nd kids s Hfit) as [Hpos [Hn Hkids]].
  destruct (in_interp_rects d nd kids _ _ _ Hr) as [p [r0 [Hp [Hr0 ->]]]].
  specialize (LW s p Hn Hpos Hp). rewrite <- (nth_view_info d) in LW.
  assert (RW : RectsWithin (nth_view d kids (p_idx p))).
  { unfold nth_view. destruct (nthz kids (p_idx p)) eqn:E.
    - rewrite Forall_forall in HK. apply HK. eapply nthz_In; eauto.
    - intros s' f' r' Hf'. discriminate Hf'. }
  specialize (RW _ _ _ (Hkids p Hp) Hr0).
  cbn [interp v_info shift_rect rc_x rc_y rc_cols rc_rows]. lia.
Qed.

Lemma nth_view_prop (P : wview -> Prop) d kids i :
  Forall P kids -> P (dummy_view d) -> P (nth_view d kids i).
Proof.
  intros H Hd. unfold nth_view. destruct (nthz kids i) eqn:E; [|exact Hd].
  rewrite Forall_forall in H. apply H. eapply nthz_In; eauto.
Qed.

Lemma dummy_rects_within d : RectsWithin (dummy_view d).
Proof. intros s f r H. discriminate H. Qed.
Lemma dummy_mouse_deep d : MouseDeep (dummy_view d).
Proof. intros s f1 f2 r col row H. discriminate H. Qed.

Lemma interp_mouse_deep d nd kids :
  LocalWithin nd (map v_info kids) -> LocalMouse nd (map v_info kids) ->
  Forall RectsWithin kids -> Forall MouseDeep kids -> MouseDeep (interp d nd kids).
Proof.
  intros LW LM HW HM s f1 f2 r col row Hfit Hr Hbg Hin.
  destruct (interp_fits_inv d nd kids s Hfit) as [Hpos [Hn Hkids]].
  destruct (in_interp_rects d nd kids _ _ _ Hr) as [p [r0 [Hp [Hr0 ->]]]].
  cbn [shift_rect rc_bg rc_x rc_y rc_cols rc_rows rc_id rc_size] in *.
  apply orb_false_iff in Hbg as [Hbg0 Hbgp].
  pose proof (nth_view_prop _ d kids (p_idx p) HW (dummy_rects_within d) _ _ _ (Hkids p Hp) Hr0) as RW.
  rewrite nth_view_info in RW.
  unfold in_rect in Hin.
  destruct (LM s p col row f2 Hn Hpos Hp Hbgp) as [f Hroute].
  { unfold in_rect. lia. }
  cbn [interp v_mouse]. unfold interp_mouse. rewrite Hroute. cbn [r_idx r_size r_col r_row r_focus].
  destruct (nth_view_prop _ d kids (p_idx p) HM (dummy_mouse_deep d) (p_size p) (f1 && p_isfocus p) f r0
              (col - p_x p) (row - p_y p) (Hkids p Hp) Hr0 Hbg0) as [f' Hm].
  { unfold in_rect. lia. }
  exists f'. rewrite Hm. f_equal. f_equal; lia.
Qed.

(* ---- cursor of the rendering ---- *)
Definition rc_g (d : widget) (kids : list wview) (focus : bool) (p : placed) : option xy :=
  match v_rcursor (nth_view d kids (p_idx p)) (p_size p) (focus && p_isfocus p) with
  | Some (x, y) => Some (x + p_x p, y + p_y p)
  | None => None
  end.

Lemma interp_rcursor_upd d nd kids s focus :
  v_rcursor (interp d nd kids) s focus = fold_left (upd (rc_g d kids focus)) (n_place nd s) None.
Proof.
  cbn [interp v_rcursor]. unfold interp_rcursor. apply fold_left_ext.
  intros a q. unfold upd, rc_g. destruct (v_rcursor _ _ _) as [[x y]|]; reflexivity.
Qed.

Lemma fold_upd_some {A B} (g : A -> option B) l b :
  fold_left (upd g) l None = Some b -> exists q, In q l /\ g q = Some b.
Proof.
  assert (G : forall acc, fold_left (upd g) l acc = Some b -> acc = Some b \/ exists q, In q l /\ g q = Some b).
  { induction l as [|a l IH]; intros acc H; [left; exact H|]. cbn [fold_left] in H.
    destruct (IH _ H) as [E|[q [Hq E]]].
    - unfold upd in E. destruct (g a) eqn:Ea.
      + right. exists a. split; [left; reflexivity|congruence].
      + left. exact E.
    - right. exists q. split; [right; exact Hq|exact E]. }
  intro H. destruct (G None H) as [E|E]; [discriminate|exact E].
Qed.

Lemma dummy_nofocus d : NoFocusNoCursor (dummy_view d).
Proof. intros s. reflexivity. Qed.
Lemma dummy_flags d : FlagsNoCursor (dummy_view d).
Proof. intros s f H. discriminate H. Qed.
Lemma dummy_inrows d : CursorInRows (dummy_view d).
Proof. intros s f x y H. discriminate H. Qed.
Lemma dummy_cursor_deep d : CursorDeep (dummy_view d).
Proof. intros s H. discriminate H. Qed.
Lemma dummy_fitspos d : FitsPos (dummy_view d).
Proof. intros s H. discriminate H. Qed.

Lemma interp_nofocus d nd kids : Forall NoFocusNoCursor kids -> NoFocusNoCursor (interp d nd kids).
Proof.
  intros HK s. rewrite interp_rcursor_upd. apply fold_upd_none. intros q _.
  unfold rc_g. cbn [andb]. rewrite (nth_view_prop _ d kids (p_idx q) HK (dummy_nofocus d)). reflexivity.
Qed.

Lemma interp_flags d nd kids :
  LocalFlags nd (map v_info kids) -> Forall NoFocusNoCursor kids -> Forall FlagsNoCursor kids ->
  FlagsNoCursor (interp d nd kids).
Proof.
  intros LF HN HF s f Hfit Hflags.
  destruct (interp_fits_inv d nd kids s Hfit) as [Hpos [Hn Hkids]].
  rewrite interp_rcursor_upd. apply fold_upd_none. intros q Hq. unfold rc_g.
  destruct (f && p_isfocus q) eqn:E.
  - apply andb_true_iff in E as [_ E].
    destruct (LF s q Hq E) as [L1 L2]. cbn [interp v_info] in Hflags.
    rewrite (nth_view_prop _ d kids (p_idx q) HF (dummy_flags d) (p_size q) true (Hkids q Hq)); [reflexivity|].
    rewrite nth_view_info. destruct Hflags; [left|right]; auto.
  - rewrite (nth_view_prop _ d kids (p_idx q) HN (dummy_nofocus d)). reflexivity.
Qed.

Lemma interp_inrows d nd kids :
  LocalWithin nd (map v_info kids) -> Forall CursorInRows kids -> CursorInRows (interp d nd kids).
Proof.
  intros LW HK s f x y Hfit Hc.
  destruct (interp_fits_inv d nd kids s Hfit) as [Hpos [Hn Hkids]].
  rewrite interp_rcursor_upd in Hc. apply fold_upd_some in Hc as [q [Hq E]].
  unfold rc_g in E. destruct (v_rcursor _ _ _) as [[x0 y0]|] eqn:E0; [|discriminate]. inversion E; subst x y.
  pose proof (nth_view_prop _ d kids (p_idx q) HK (dummy_inrows d) _ _ _ _ (Hkids q Hq) E0) as R.
  specialize (LW s q Hn Hpos Hq). rewrite nth_view_info in R. cbn [interp v_info]. lia.
Qed.

Lemma interp_cursor_deep d nd kids :
  LocalCursor nd (map v_info kids) ->
  Forall CursorDeep kids -> Forall NoFocusNoCursor kids -> Forall FlagsNoCursor kids ->
  Forall CursorInRows kids -> Forall FitsPos kids ->
  CursorDeep (interp d nd kids).
Proof.
  intros LC HD HN HF HR HP s Hfit.
  destruct (interp_fits_inv d nd kids s Hfit) as [Hpos [Hn Hkids]].
  destruct (LC s Hn Hpos) as [p [Hp [Hpf [Huniq Hplan]]]].
  rewrite interp_rcursor_upd.
  rewrite (fold_upd_unique (rc_g d kids true) (n_place nd s) p None Hp).
  2:{ intros q Hq Hg. apply Huniq; [exact Hq|]. unfold rc_g in Hg. cbn [andb] in Hg.
      destruct (p_isfocus q); [reflexivity|].
      rewrite (nth_view_prop _ d kids (p_idx q) HN (dummy_nofocus d)) in Hg. congruence. }
  unfold upd, rc_g. cbn [andb]. rewrite Hpf.
  cbn [interp v_cursor]. unfold interp_cursor.
  assert (Kfit : v_fits (nth_view d kids (p_idx p)) (p_size p) = true) by (apply Hkids; exact Hp).
  pose proof (nth_view_info d kids (p_idx p)) as KI.
  cbv zeta in Hplan. rewrite <- KI in Hplan.
  destruct (n_cursor nd s) as [|e|i cs dx dy clamp nr].
  - assert (E : v_rcursor (nth_view d kids (p_idx p)) (p_size p) true = None).
    { destruct Hplan as [H|[H|H]].
      - apply (nth_view_prop _ d kids (p_idx p) HF (dummy_flags d)); [exact Kfit|left; exact H].
      - apply (nth_view_prop _ d kids (p_idx p) HF (dummy_flags d)); [exact Kfit|right; exact H].
      - pose proof (nth_view_prop _ d kids (p_idx p) HP (dummy_fitspos d) _ Kfit) as [Q _]. lia. }
    rewrite E. reflexivity.
  - contradiction.
  - destruct Hplan as [-> [-> [-> [-> [-> Hclamp]]]]].
    rewrite (nth_view_prop _ d kids (p_idx p) HD (dummy_cursor_deep d) _ Kfit).
    destruct (v_rcursor (nth_view d kids (p_idx p)) (p_size p) true) as [[x y]|] eqn:E; cbn [of_oxy]; [|reflexivity].
    pose proof (nth_view_prop _ d kids (p_idx p) HR (dummy_inrows d) _ _ _ _ Kfit E) as R.
    destruct clamp as [m|]; [|reflexivity].
    destruct (m <=? y) eqn:Em; [lia|reflexivity].
Qed.

(* ---- leaves ---- *)
Lemma leaf_fits_inv l s :
  leaf_fits l s = true ->
  size_pos s /\ 1 <= leaf_nrows l s /\
  match lcur l with
  | None => True
  | Some (x, y) => lsel l = true /\ lapi l = true /\ 0 <= x /\ 0 <= y /\ (lbox l = true \/ y < leaf_nrows l s)
  end /\
  match snd s with Some r => lbox l = true | None => lbox l = false end.
Proof.
  unfold leaf_fits. intro H.
  apply andb_true_iff in H as [H Hcur]. apply andb_true_iff in H as [H Hn].
  apply andb_true_iff in H as [H Hmode]. apply andb_true_iff in H as [Hc Hw].
  split; [|split; [lia|split]].
  - split; [lia|]. intros r E. rewrite E in *. lia.
  - destruct (lcur l) as [[x y]|]; [|exact I].
    apply andb_true_iff in Hcur as [Hcur Hb]. apply andb_true_iff in Hcur as [Hcur Hy].
    apply andb_true_iff in Hcur as [Hcur Hx]. apply andb_true_iff in Hcur as [Hs Ha].
    repeat split; try lia; try assumption.
  - destruct (snd s); [destruct (lbox l); [reflexivity|discriminate]|destruct (lbox l); [discriminate|reflexivity]].
Qed.

Lemma leaf_fitspos l : FitsPos (leaf_view l).
Proof. intros s H. apply leaf_fits_inv in H. tauto. Qed.

Lemma leaf_crows l s : leaf_fits l s = true -> crows (leaf_info l) s = leaf_nrows l s.
Proof.
  intro H. apply leaf_fits_inv in H as [_ [_ [_ H]]]. unfold crows, leaf_nrows. cbn [leaf_info i_rows].
  destruct (snd s); rewrite H; reflexivity.
Qed.

Lemma leaf_rects_within l : RectsWithin (leaf_view l).
Proof.
  intros s f r Hfit Hr. cbn [leaf_view v_rects v_fits v_info] in *. destruct Hr as [<-|[]].
  cbn [rc_x rc_y rc_cols rc_rows]. rewrite (leaf_crows _ _ Hfit).
  apply leaf_fits_inv in Hfit as [[? ?] [? _]]. lia.
Qed.

Lemma leaf_mouse_deep l : MouseDeep (leaf_view l).
Proof.
  intros s f1 f2 r col row Hfit Hr _ _. cbn [leaf_view v_rects v_mouse] in *. destruct Hr as [<-|[]].
  cbn [rc_x rc_y rc_id rc_size]. exists f2. f_equal. f_equal; lia.
Qed.

Lemma leaf_nofocus l : NoFocusNoCursor (leaf_view l).
Proof. intros s. reflexivity. Qed.

Lemma leaf_flags l : FlagsNoCursor (leaf_view l).
Proof.
  intros s f Hfit Hfl. cbn [leaf_view v_rcursor v_info leaf_info i_sel i_hascur v_fits] in *.
  apply leaf_fits_inv in Hfit as [_ [_ [Hc _]]].
  destruct f; [|reflexivity]. unfold leaf_cursor. destruct (lcur l) as [[x y]|]; [|reflexivity].
  destruct Hc as [? [? _]]. destruct Hfl; congruence.
Qed.

Lemma leaf_inrows l : CursorInRows (leaf_view l).
Proof.
  intros s f x y Hfit Hc. cbn [leaf_view v_rcursor v_info v_fits] in *. rewrite (leaf_crows _ _ Hfit).
  pose proof (leaf_fits_inv _ _ Hfit) as [[_ Hr] [Hn [Hcur Hmode]]].
  destruct f; [|discriminate]. unfold leaf_cursor in Hc. destruct (lcur l) as [[x0 y0]|]; [|discriminate].
  destruct Hcur as [_ [_ [_ [Hy Hb]]]]. inversion Hc; subst x y. clear Hc.
  unfold leaf_nrows in *. destruct (lbox l) eqn:Eb.
  - destruct (snd s) as [r|]; [|discriminate]. specialize (Hr r eq_refl). lia.
  - destruct Hb; [discriminate|lia].
Qed.

Lemma leaf_cursor_deep l : CursorDeep (leaf_view l).
Proof. intros s _. cbn [leaf_view v_cursor v_rcursor]. destruct (leaf_cursor l s) as [[x y]|]; reflexivity. Qed.

(* ------------------------------------------------------------------------------------------ *)
(* local lemmas, one group per container                                                       *)
(* ------------------------------------------------------------------------------------------ *)
Ltac one_placed H := destruct H as [<-|[]]; cbn [p_idx p_x p_y p_size p_isfocus p_bg] in *.
Ltac routed_eq := eexists; f_equal; f_equal; first [reflexivity | lia].

(* ---- AttrMap ---- *)
Section AttrMapLocal.
  Variable ki : list cinfo.
  Let ci := nth_info ki 0.
  Let nd := Node (attrmap_info ci) attrmap_place attrmap_cursor attrmap_route attrmap_move attrmap_fits.

  Lemma attrmap_within : LocalWithin nd ki.
  Proof.
    unfold nd, ci in *. intros s p _ _ Hp. cbn in Hp. one_placed Hp. cbn [n_info]. unfold attrmap_info.
    lia.
  Qed.
  Lemma attrmap_mouse : LocalMouse nd ki.
  Proof.
    unfold nd, ci in *. intros s p col row focus _ _ Hp _ _. cbn in Hp. one_placed Hp.
    cbn [n_route]. unfold attrmap_route. routed_eq.
  Qed.
  Lemma attrmap_cursor_ok : LocalCursor nd ki.
  Proof.
    unfold nd, ci in *. intros s _ _. exists (Placed 0 0 0 s true false). cbn [n_place n_cursor]. unfold attrmap_place, attrmap_cursor.
    split; [left; reflexivity|]. split; [reflexivity|]. split.
    - intros q [<-|[]] _. reflexivity.
    - cbn. repeat split; reflexivity.
  Qed.
  Lemma attrmap_flags : LocalFlags nd ki.
  Proof.
    unfold nd, ci in *. intros s p Hp _. cbn in Hp. one_placed Hp. cbn [n_info]. unfold attrmap_info. split; auto. Qed.
  Lemma attrmap_move_ok : LocalMove nd ki.
  Proof.
    unfold nd, ci in *. intros s p col row _ _ Hp _ _ _ _ _. cbn in Hp. one_placed Hp.
    cbn [n_move]. unfold attrmap_move. eexists. f_equal; lia.
  Qed.
End AttrMapLocal.

(* ---- BoxAdapter ---- *)
Section BoxAdapterLocal.
  Variable ki : list cinfo.
  Variable h : Z.
  Let ci := nth_info ki 0.
  Let nd := Node (boxadapter_info h ci) (boxadapter_place h) (boxadapter_cursor h ci) (boxadapter_route h)
                 (boxadapter_move h ci) (boxadapter_fits h).

  Lemma boxadapter_within : LocalWithin nd ki.
  Proof.
    unfold nd, ci in *. intros s p Hf _ Hp. unfold boxadapter_place, boxadapter_fits in *. cbn [n_place n_fits] in *.
    destruct s as [c [r|]]; cbn [fst snd] in *; [discriminate|]. one_placed Hp.
    unfold boxadapter_info. cbn [n_info crows snd fst i_rows]. lia.
  Qed.
  Lemma boxadapter_mouse : LocalMouse nd ki.
  Proof.
    unfold nd, ci in *. intros s p col row focus Hf _ Hp _ _. unfold boxadapter_place, boxadapter_fits, boxadapter_route in *. cbn [n_place n_fits n_route] in *.
    destruct s as [c [r|]]; cbn [fst snd] in *; [discriminate|]. one_placed Hp. routed_eq.
  Qed.
  Lemma boxadapter_cursor_ok : LocalCursor nd ki.
  Proof.
    unfold nd, ci in *. intros s Hf _. unfold boxadapter_place, boxadapter_fits, boxadapter_cursor in *. cbn [n_place n_fits n_cursor] in *.
    destruct s as [c [r|]]; cbn [fst snd] in *; [discriminate|].
    exists (Placed 0 0 0 (c, Some h) true false).
    split; [left; reflexivity|]. split; [reflexivity|]. split.
    - intros q [<-|[]] _. reflexivity.
    - cbn [p_idx p_size p_x p_y]. destruct (i_hascur (nth_info ki 0)) eqn:E; cbn [negb].
      + repeat split; reflexivity.
      + right; left; reflexivity.
  Qed.
  Lemma boxadapter_flags : LocalFlags nd ki.
  Proof.
    unfold nd, ci in *. intros s p Hp _. unfold boxadapter_place in Hp. cbn [n_place] in Hp.
    destruct (snd s); [contradiction|]. one_placed Hp.
    unfold boxadapter_info. cbn [n_info i_sel i_hascur]. split; [auto|discriminate].
  Qed.
  Lemma boxadapter_move_ok : LocalMove nd ki.
  Proof.
    unfold nd, ci in *. intros s p col row Hf _ Hp _ _ _ _ Hm. unfold boxadapter_place, boxadapter_fits, boxadapter_move in *. cbn [n_place n_fits n_move] in *.
    destruct s as [c [r|]]; cbn [fst snd] in *; [discriminate|]. one_placed Hp.
    rewrite Hm. cbn [negb]. eexists. f_equal; lia.
  Qed.
End BoxAdapterLocal.

(* ---- Padding ---- *)
Section PaddingLocal.
  Variable ki : list cinfo.
  Variable o : padopts.
  Let ci := nth_info ki 0.
  Let nd := Node (padding_info o ci) (padding_place o) (padding_cursor o ci) (padding_route o) (padding_move o ci) (padding_fits o).

  Lemma padding_within : LocalWithin nd ki.
  Proof.
    unfold nd, ci in *. intros s p Hf _ Hp. unfold padding_place, padding_fits in *. cbn [n_place n_fits] in *.
    destruct (padding_values o (fst s)) as [l r] eqn:E. one_placed Hp.
    unfold padding_info. cbn [n_info fst snd]. unfold crows. cbn [snd fst i_rows].
    destruct (snd s); [lia|]. rewrite E. replace (fst s - (l + r)) with (fst s - l - r) by lia. lia.
  Qed.
  Lemma padding_mouse : LocalMouse nd ki.
  Proof.
    unfold nd, ci in *. intros s p col row focus Hf _ Hp _ Hin. unfold padding_place, padding_fits, padding_route in *. cbn [n_place n_fits n_route] in *.
    destruct (padding_values o (fst s)) as [l r] eqn:E. one_placed Hp. unfold in_rect in Hin. cbn [fst] in Hin.
    destruct ((col <? l) || (fst s - r <=? col)) eqn:Eb; [lia|].
    eexists. f_equal. f_equal; try lia. f_equal. lia.
  Qed.
  Lemma padding_cursor_ok : LocalCursor nd ki.
  Proof.
    unfold nd, ci in *. intros s Hf _. unfold padding_place, padding_fits, padding_cursor in *. cbn [n_place n_fits n_cursor] in *.
    destruct (padding_values o (fst s)) as [l r] eqn:E.
    exists (Placed 0 l 0 (fst s - (l + r), snd s) true false).
    split; [left; reflexivity|]. split; [reflexivity|]. split.
    - intros q [<-|[]] _. reflexivity.
    - cbn [p_idx p_size p_x p_y fst]. destruct (i_hascur (nth_info ki 0)) eqn:Eh; cbn [negb].
      + destruct (fst s - l - r =? 0) eqn:E0; [right; right; lia|].
        repeat split; try reflexivity. f_equal. lia.
      + right; left; reflexivity.
  Qed.
  Lemma padding_flags : LocalFlags nd ki.
  Proof.
    unfold nd, ci in *. intros s p Hp _. unfold padding_place in Hp. cbn [n_place] in Hp.
    destruct (padding_values o (fst s)) as [l r]. one_placed Hp.
    unfold padding_info. cbn [n_info i_sel i_hascur]. split; [auto|discriminate].
  Qed.
  Lemma padding_move_ok : LocalMove nd ki.
  Proof.
    unfold nd, ci in *. intros s p col row Hf _ Hp _ Hin _ _ Hm. unfold padding_place, padding_fits, padding_move in *. cbn [n_place n_fits n_move] in *.
    destruct (padding_values o (fst s)) as [l r] eqn:E. one_placed Hp. unfold in_rect in Hin. cbn [fst] in Hin.
    rewrite Hm. cbn [negb].
    destruct (col <? l) eqn:E1; [lia|]. destruct (fst s - r <=? col) eqn:E2; [lia|].
    eexists. f_equal; try lia. f_equal. lia.
  Qed.
End PaddingLocal.

(* ---- Filler ---- *)
Section FillerLocal.
  Variable ki : list cinfo.
  Variable o : fillopts.
  Let nd := Node (filler_info o (nth_info ki 0)) (filler_place o (nth_info ki 0)) (filler_cursor o (nth_info ki 0))
                 (filler_route o (nth_info ki 0)) (filler_move o (nth_info ki 0)) (filler_fits o (nth_info ki 0)).

  Lemma filler_crows s : crows (filler_info o (nth_info ki 0)) s = filler_maxrow o (nth_info ki 0) s.
  Proof. unfold crows, filler_info, filler_maxrow. cbn [i_rows]. destruct (snd s); reflexivity. Qed.

  (* what [filler_fits] gives: the child's canvas lies between the top and bottom margins *)
  Lemma filler_fits_inv s t b :
    filler_fits o (nth_info ki 0) s = true -> filler_values o (nth_info ki 0) s = (t, b) ->
    0 <= t /\ 0 <= b /\ fst (filler_csize o (nth_info ki 0) s) = fst s /\
    crows (nth_info ki 0) (filler_csize o (nth_info ki 0) s) <= filler_maxrow o (nth_info ki 0) s - t - b.
  Proof.
    unfold filler_fits, filler_csize. intros H E. rewrite E in *.
    apply andb_true_iff in H as [H H3]. apply andb_true_iff in H as [H1 H2].
    destruct (is_pack (fi_ht o)); cbn [fst snd crows]; repeat split; try lia.
  Qed.

  Lemma filler_within : LocalWithin nd ki.
  Proof.
    unfold nd. intros s p Hf _ Hp. cbn [n_place n_fits n_info] in *. unfold filler_place in Hp.
    destruct (filler_values o (nth_info ki 0) s) as [t b] eqn:E. one_placed Hp.
    destruct (filler_fits_inv s t b Hf E) as [? [? [Hc Hr]]]. rewrite filler_crows. lia.
  Qed.
  Lemma filler_mouse : LocalMouse nd ki.
  Proof.
    unfold nd. intros s p col row focus Hf _ Hp _ Hin. cbn [n_place n_fits n_route] in *.
    unfold filler_place in Hp. unfold filler_route.
    destruct (filler_values o (nth_info ki 0) s) as [t b] eqn:E. one_placed Hp.
    destruct (filler_fits_inv s t b Hf E) as [? [? [Hc Hr]]]. unfold in_rect in Hin.
    destruct ((row <? t) || (filler_maxrow o (nth_info ki 0) s - b <=? row)) eqn:Eb; [lia|]. routed_eq.
  Qed.
  Lemma filler_cursor_ok : LocalCursor nd ki.
  Proof.
    unfold nd. intros s Hf _. cbn [n_place n_fits n_cursor] in *. unfold filler_place, filler_cursor.
    destruct (filler_values o (nth_info ki 0) s) as [t b] eqn:E.
    destruct (filler_fits_inv s t b Hf E) as [? [? [Hc Hr]]].
    exists (Placed 0 0 t (filler_csize o (nth_info ki 0) s) true false).
    split; [left; reflexivity|]. split; [reflexivity|]. split.
    - intros q [<-|[]] _. reflexivity.
    - cbn [p_idx p_size p_x p_y]. destruct (i_hascur (nth_info ki 0)) eqn:Eh; cbn [negb].
      + repeat split; try reflexivity. lia.
      + right; left; reflexivity.
  Qed.
  Lemma filler_flags : LocalFlags nd ki.
  Proof.
    unfold nd. intros s p Hp _. cbn [n_place n_info] in *. unfold filler_place in Hp.
    destruct (filler_values o (nth_info ki 0) s) as [t b]. one_placed Hp.
    unfold filler_info. cbn [i_sel i_hascur]. split; [auto|discriminate].
  Qed.
  Lemma filler_move_ok : LocalMove nd ki.
  Proof.
    unfold nd. intros s p col row Hf _ Hp _ Hin _ _ Hm. cbn [n_place n_fits n_move] in *.
    unfold filler_place in Hp. unfold filler_move.
    destruct (filler_values o (nth_info ki 0) s) as [t b] eqn:E. one_placed Hp.
    destruct (filler_fits_inv s t b Hf E) as [? [? [Hc Hr]]]. unfold in_rect in Hin.
    rewrite Hm. cbn [negb].
    destruct ((row <? t) || (filler_maxrow o (nth_info ki 0) s - b <=? row)) eqn:Eb; [lia|].
    eexists. f_equal; lia.
  Qed.
End FillerLocal.

(* ---- Frame ---- *)
Section FrameLocal.
  Variable ki : list cinfo.
  Variable hasH hasF : bool.
  Variable fpt : fpart.
  Let hi := if hasH then Some (nth_info ki 1) else None.
  Let fi := if hasF then Some (nth_info ki 2) else None.
  Let nd := Node frame_info (frame_place hi fi fpt) (frame_cursor (nth_info ki 0) hi fi fpt) (frame_route hi fi fpt)
                 (fun _ _ _ => MPFalse) (frame_fits hi fi fpt).
  Let hr (c : Z) := match hi with Some ci => i_rows ci c | None => 0 end.
  Let fr (c : Z) := match fi with Some ci => i_rows ci c | None => 0 end.

  Lemma frame_fits_inv s :
    frame_fits hi fi fpt s = true ->
    exists maxrow, snd s = Some maxrow /\
      frame_top_bottom hi fi fpt (fst s) maxrow = ((hr (fst s), fr (fst s)), (hr (fst s), fr (fst s))) /\
      1 <= maxrow - hr (fst s) - fr (fst s) /\
      (if hasH then 1 <= hr (fst s) else hr (fst s) = 0 /\ fpt <> FHeader) /\
      (if hasF then 1 <= fr (fst s) else fr (fst s) = 0 /\ fpt <> FFooter).
  Proof.
    unfold frame_fits. destruct (snd s) as [maxrow|]; [|discriminate]. intro H. exists maxrow. split; [reflexivity|].
    destruct (frame_top_bottom hi fi fpt (fst s) maxrow) as [[ht ft] [hr' fr']] eqn:E.
    assert (E2 : hr' = hr (fst s) /\ fr' = fr (fst s)).
    { unfold frame_top_bottom in E. fold (hr (fst s)) in E. fold (fr (fst s)) in E.
      destruct fpt; repeat match type of E with context [if ?c then _ else _] => destruct c end;
        inversion E; split; reflexivity. }
    destruct E2 as [-> ->].
    apply andb_true_iff in H as [H H5]. apply andb_true_iff in H as [H H4].
    apply andb_true_iff in H as [H H3]. apply andb_true_iff in H as [H1 H2].
    assert (ht = hr (fst s)) by lia. assert (ft = fr (fst s)) by lia. subst ht ft.
    split; [reflexivity|]. split; [lia|].
    unfold hr, fr, hi, fi in *. split.
    - destruct hasH; [lia|]. split; [reflexivity|]. destruct fpt; cbn in H4; congruence.
    - destruct hasF; [lia|]. split; [reflexivity|]. destruct fpt; cbn in H5; congruence.
  Qed.

  Lemma frame_place_eq s maxrow :
    frame_fits hi fi fpt s = true -> snd s = Some maxrow ->
    n_place nd s =
      (if hasH then [Placed 1 0 0 (fst s, None) (fpart_eqb fpt FHeader) false] else [])
      ++ [Placed 0 0 (hr (fst s)) (fst s, Some (maxrow - fr (fst s) - hr (fst s))) (fpart_eqb fpt FBody) false]
      ++ (if hasF then [Placed 2 0 (maxrow - fr (fst s)) (fst s, None) (fpart_eqb fpt FFooter) false] else []).
  Proof.
    intros Hf Es. destruct (frame_fits_inv s Hf) as [m [Es' [Etb [Hb [HH HF]]]]].
    rewrite Es in Es'. inversion Es'; subst m. clear Es'.
    unfold nd. cbn [n_place]. unfold frame_place. rewrite Es, Etb.
    assert (E1 : (fr (fst s) + hr (fst s) <? maxrow) = true) by lia. rewrite E1.
    f_equal; [|f_equal].
    - destruct hasH; [assert (E : hr (fst s) =? 0 = false) by lia; rewrite E; reflexivity|].
      destruct HH as [-> _]. reflexivity.
    - f_equal. destruct (hr (fst s) =? 0) eqn:E; [|reflexivity]. f_equal. lia.
    - destruct hasF.
      + assert (E : fr (fst s) =? 0 = false) by lia. rewrite E. f_equal. f_equal.
        destruct (hr (fst s) =? 0) eqn:E0; lia.
      + destruct HF as [-> _]. reflexivity.
  Qed.

  Lemma frame_child_rows_h (s : size) : hasH = true -> crows (nth_info ki 1) (fst s, None) = hr (fst s).
  Proof. intros ->. reflexivity. Qed.
  Lemma frame_child_rows_f (s : size) : hasF = true -> crows (nth_info ki 2) (fst s, None) = fr (fst s).
  Proof. intros ->. reflexivity. Qed.

  Ltac frame_cases Hp :=
    apply in_app_or in Hp as [Hp|Hp];
    [destruct (Bool.bool_dec hasH true) as [EH|EH];
       [rewrite EH in Hp; one_placed Hp|apply not_true_is_false in EH; rewrite EH in Hp; contradiction]
    |apply in_app_or in Hp as [Hp|Hp];
     [one_placed Hp
     |destruct (Bool.bool_dec hasF true) as [EF|EF];
       [rewrite EF in Hp; one_placed Hp|apply not_true_is_false in EF; rewrite EF in Hp; contradiction]]].

  Lemma frame_within : LocalWithin nd ki.
  Proof.
    intros s p Hf _ Hp. cbn [n_fits nd] in Hf.
    destruct (frame_fits_inv s Hf) as [maxrow [Es [Etb [Hb [HH HF]]]]].
    rewrite (frame_place_eq s maxrow Hf Es) in Hp.
    assert (Ec : crows (n_info nd) s = maxrow) by (unfold crows; rewrite Es; reflexivity). rewrite Ec.
    assert (Hh0 : 0 <= hr (fst s)) by (clear Hp; destruct hasH; lia).
    assert (Hf0 : 0 <= fr (fst s)) by (clear Hp; destruct hasF; lia).
    frame_cases Hp; cbn [fst snd].
    - rewrite (frame_child_rows_h s EH). rewrite EH in HH. lia.
    - unfold crows. cbn [snd]. lia.
    - rewrite (frame_child_rows_f s EF). rewrite EF in HF. lia.
  Qed.

  Lemma frame_mouse : LocalMouse nd ki.
  Proof.
    intros s p col row focus Hf _ Hp _ Hin. cbn [n_fits nd] in Hf.
    destruct (frame_fits_inv s Hf) as [maxrow [Es [Etb [Hb [HH HF]]]]].
    rewrite (frame_place_eq s maxrow Hf Es) in Hp.
    cbn [n_route nd]. unfold frame_route. rewrite Es, Etb. unfold in_rect in Hin.
    assert (Hh0 : 0 <= hr (fst s)) by (clear Hp Hin; destruct hasH; lia).
    assert (Hf0 : 0 <= fr (fst s)) by (clear Hp Hin; destruct hasF; lia).
    frame_cases Hp; cbn [fst snd] in Hin.
    - rewrite (frame_child_rows_h s EH) in Hin.
      destruct (row <? hr (fst s)) eqn:E1; [|lia]. routed_eq.
    - unfold crows in Hin. cbn [snd] in Hin.
      destruct (row <? hr (fst s)) eqn:E1; [lia|].
      destruct (negb (fr (fst s) =? 0) && (maxrow - fr (fst s) <=? row)) eqn:E2; [lia|].
      eexists. f_equal. f_equal; try lia. f_equal. f_equal. lia.
    - rewrite (frame_child_rows_f s EF) in Hin.
      destruct (row <? hr (fst s)) eqn:E1; [lia|]. rewrite EF in HF.
      destruct (negb (fr (fst s) =? 0) && (maxrow - fr (fst s) <=? row)) eqn:E2; [|lia]. routed_eq.
  Qed.

  Lemma frame_cursor_ok : LocalCursor nd ki.
  Proof.
    intros s Hf _. cbn [n_fits nd] in Hf.
    destruct (frame_fits_inv s Hf) as [maxrow [Es [Etb [Hb [HH HF]]]]].
    rewrite (frame_place_eq s maxrow Hf Es).
    cbn [n_cursor nd]. unfold frame_cursor. rewrite Es, Etb.
    destruct fpt eqn:Efp; cbn [fpart_eqb].
    - (* body *)
      exists (Placed 0 0 (hr (fst s)) (fst s, Some (maxrow - fr (fst s) - hr (fst s))) true false).
      split; [apply in_or_app; right; apply in_or_app; left; left; reflexivity|]. split; [reflexivity|]. split.
      + intros q Hq Hqf. frame_cases Hq; cbn in Hqf; try discriminate. reflexivity.
      + cbn [p_idx p_size p_x p_y].
        destruct (i_sel (nth_info ki 0)) eqn:E1; cbn [negb]; [|left; reflexivity].
        destruct (i_hascur (nth_info ki 0)) eqn:E2; cbn [negb]; [|right; left; reflexivity].
        repeat split; try reflexivity. f_equal. f_equal. lia.
    - (* header *)
      destruct hasH eqn:EH; [|destruct HH as [_ HH]; congruence].
      exists (Placed 1 0 0 (fst s, None) true false).
      split; [apply in_or_app; left; left; reflexivity|]. split; [reflexivity|]. split.
      + intros q Hq Hqf. apply in_app_or in Hq as [Hq|Hq]; [one_placed Hq; reflexivity|].
        apply in_app_or in Hq as [Hq|Hq]; [one_placed Hq; discriminate|].
        destruct hasF; [one_placed Hq; discriminate|contradiction].
      + cbn [p_idx p_size p_x p_y]. unfold hi. 
        destruct (i_sel (nth_info ki 1)) eqn:E1; cbn [negb]; [|left; reflexivity].
        destruct (i_hascur (nth_info ki 1)) eqn:E2; cbn [negb]; [|right; left; reflexivity].
        repeat split; reflexivity.
    - (* footer *)
      destruct hasF eqn:EF; [|destruct HF as [_ HF]; congruence].
      exists (Placed 2 0 (maxrow - fr (fst s)) (fst s, None) true false).
      split; [apply in_or_app; right; apply in_or_app; right; left; reflexivity|]. split; [reflexivity|]. split.
      + intros q Hq Hqf. apply in_app_or in Hq as [Hq|Hq]; [destruct hasH; [one_placed Hq; discriminate|contradiction]|].
        apply in_app_or in Hq as [Hq|Hq]; [one_placed Hq; discriminate|]. one_placed Hq. reflexivity.
      + cbn [p_idx p_size p_x p_y]. unfold fi.
        destruct (i_sel (nth_info ki 2)) eqn:E1; cbn [negb]; [|left; reflexivity].
        destruct (i_hascur (nth_info ki 2)) eqn:E2; cbn [negb]; [|right; left; reflexivity].
        repeat split; reflexivity.
  Qed.

  Lemma frame_flags : LocalFlags nd ki.
  Proof. intros s p _ _. cbn [n_info nd frame_info i_sel i_hascur]. split; discriminate. Qed.
  Lemma frame_move_ok : LocalMove nd ki.
  Proof. intros s p col row _ _ _ _ _ H. cbn [n_info nd frame_info i_hasmove] in H. discriminate. Qed.
End FrameLocal.

(* the translated filler arithmetic: for a given height that fits below the top margin, top + height + bottom is the
   whole area (used for the hit area of an Overlay around a flow top widget) *)
Lemma ctbf_given_exact maxrow vt vamt h t0 b0 :
  let tb := calculate_top_bottom_filler maxrow vt vamt GGiven h None t0 b0 in
  fst tb + h <= maxrow -> fst tb + h + snd tb = maxrow.
Proof. exact (ctbf_given_exact_c19 maxrow vt vamt h t0 b0). Qed.

(* ---- Overlay ---- *)
Section OverlayLocal.
  Variable ki : list cinfo.
  Variable o : ovopts.
  Let nd := Node (overlay_info (nth_info ki 0)) (overlay_place o (nth_info ki 0)) (overlay_cursor o (nth_info ki 0))
                 (overlay_route o (nth_info ki 0)) (fun _ _ _ => MPFalse) (overlay_fits o (nth_info ki 0)).

  Lemma overlay_fits_inv s :
    overlay_fits o (nth_info ki 0) s = true ->
    exists maxrow l r t b, snd s = Some maxrow /\ overlay_lrtb o (nth_info ki 0) (fst s) maxrow = (l, r, t, b) /\
      0 <= l /\ 0 <= r /\ 0 <= t /\ 0 <= b /\
      t + crows (nth_info ki 0) (overlay_top_size o (fst s) maxrow l r t b) <= maxrow.
  Proof.
    unfold overlay_fits. destruct (snd s) as [maxrow|]; [|discriminate].
    destruct (overlay_lrtb o (nth_info ki 0) (fst s) maxrow) as [[[l r] t] b] eqn:E. intro H.
    exists maxrow, l, r, t, b.
    apply andb_true_iff in H as [H H5]. apply andb_true_iff in H as [H H4].
    apply andb_true_iff in H as [H H3]. apply andb_true_iff in H as [H1 H2].
    repeat split; try reflexivity; try assumption; try lia.
    unfold overlay_top_size, crows. destruct (is_pack (fi_ht (ov_fill o))); cbn [snd fst]; lia.
  Qed.

  Lemma overlay_within : LocalWithin nd ki.
  Proof.
    unfold nd. intros s p Hf _ Hp. cbn [n_place n_fits n_info] in *.
    destruct (overlay_fits_inv s Hf) as [maxrow [l [r [t [b [Es [E [? [? [? [? Hr]]]]]]]]]]].
    unfold overlay_place in Hp. rewrite Es, E in Hp.
    assert (Ec : crows (overlay_info (nth_info ki 0)) s = maxrow) by (unfold crows; rewrite Es; reflexivity).
    rewrite Ec. destruct Hp as [<-|Hp]; [|one_placed Hp]; cbn [p_idx p_x p_y p_size fst].
    - unfold crows. cbn [snd]. lia.
    - split; [lia|]. split; [|lia]. unfold overlay_top_size. destruct (is_pack _); cbn [fst]; lia.
  Qed.

  (* the hit area [top, maxrow - bottom) covers the rows on which the top widget is drawn *)
  Lemma overlay_hit_rows s maxrow l r t b :
    snd s = Some maxrow -> overlay_lrtb o (nth_info ki 0) (fst s) maxrow = (l, r, t, b) ->
    0 <= t -> 0 <= b -> t + crows (nth_info ki 0) (overlay_top_size o (fst s) maxrow l r t b) <= maxrow ->
    t + crows (nth_info ki 0) (overlay_top_size o (fst s) maxrow l r t b) <= maxrow - b.
  Proof.
    intros Es E Ht Hb Hr. unfold overlay_lrtb in E. unfold overlay_top_size, crows in *.
    destruct (padding_values (ov_pad o) (fst s)) as [l0 r0].
    destruct (is_pack (fi_ht (ov_fill o))) eqn:Ep; cbn [fst snd] in *.
    - pose proof (ctbf_given_exact maxrow (fi_vt (ov_fill o)) (fi_vamt (ov_fill o)) (i_rows (nth_info ki 0) (fst s - l0 - r0))
                    (fi_top (ov_fill o)) (fi_bottom (ov_fill o))) as G. cbv zeta in G.
      destruct (calculate_top_bottom_filler maxrow (fi_vt (ov_fill o)) (fi_vamt (ov_fill o)) GGiven
                  (i_rows (nth_info ki 0) (fst s - l0 - r0)) None (fi_top (ov_fill o)) (fi_bottom (ov_fill o))) as [t1 b1].
      cbn [fst snd] in G. inversion E; subst l0 r0 t1. clear E.
      destruct (maxrow <? i_rows (nth_info ki 0) (fst s - l - r)) eqn:E2; lia.
    - lia.
  Qed.

  Lemma overlay_mouse : LocalMouse nd ki.
  Proof.
    unfold nd. intros s p col row focus Hf _ Hp Hbg Hin. cbn [n_place n_fits n_route] in *.
    destruct (overlay_fits_inv s Hf) as [maxrow [l [r [t [b [Es [E [? [? [? [? Hr]]]]]]]]]]].
    pose proof (overlay_hit_rows s maxrow l r t b Es E H1 H2 Hr) as Hhit.
    unfold overlay_place in Hp. unfold overlay_route. rewrite Es, E in *.
    destruct Hp as [<-|Hp]; [discriminate Hbg|one_placed Hp].
    unfold in_rect in Hin.
    assert (Ew : fst (overlay_top_size o (fst s) maxrow l r t b) = fst s - l - r).
    { unfold overlay_top_size. destruct (is_pack _); reflexivity. }
    rewrite Ew in Hin.
    destruct ((col <? l) || (fst s - r <=? col) || (row <? t) || (maxrow - b <=? row)) eqn:Eb; [lia|].
    eexists. f_equal. f_equal; lia.
  Qed.

  Lemma overlay_cursor_ok : LocalCursor nd ki.
  Proof.
    unfold nd. intros s Hf _. cbn [n_place n_fits n_cursor] in *.
    destruct (overlay_fits_inv s Hf) as [maxrow [l [r [t [b [Es [E [? [? [? [? Hr]]]]]]]]]]].
    unfold overlay_place, overlay_cursor. rewrite Es, E.
    exists (Placed 0 (Z.max l 0) t (overlay_top_size o (fst s) maxrow l r t b) true false).
    split; [right; left; reflexivity|]. split; [reflexivity|]. split.
    - intros q [<-|[<-|[]]] Hq; [discriminate Hq|reflexivity].
    - cbn [p_idx p_size p_x p_y]. destruct (i_hascur (nth_info ki 0)) eqn:Eh; cbn [negb].
      + repeat split; try reflexivity; lia.
      + right; left; reflexivity.
  Qed.

  Lemma overlay_flags : LocalFlags nd ki.
  Proof.
    unfold nd. intros s p Hp Hfoc. cbn [n_place n_info] in *. unfold overlay_place in Hp.
    destruct (snd s) as [maxrow|]; [|contradiction].
    destruct (overlay_lrtb o (nth_info ki 0) (fst s) maxrow) as [[[l r] t] b].
    destruct Hp as [<-|Hp]; [discriminate Hfoc|one_placed Hp].
    unfold overlay_info. cbn [i_sel i_hascur]. split; [auto|discriminate].
  Qed.
  Lemma overlay_move_ok : LocalMove nd ki.
  Proof. intros s p col row _ _ _ _ _ H. cbn [n_info nd overlay_info i_hasmove] in H. discriminate. Qed.
End OverlayLocal.

(* ---- Pile ---- *)
Section PileLocal.
  Variable its : list (popt * cinfo).
  Variable fp : Z.
  Let ki := map snd its.
  Let nd := Node (pile_info its) (pile_place its fp) (pile_cursor its fp) (pile_route its fp) (pile_move its) (pile_fits its fp).

  Lemma pile_flow_heights c : map fst (pile_rows_sizes its (c, None)) = pile_item_rows its (c, None).
  Proof.
    unfold pile_rows_sizes, pile_item_rows. cbn [snd fst].
    induction its as [|[o ci] l IH]; [reflexivity|]. cbn [map combine fst snd]. rewrite IH.
    destruct o; reflexivity.
  Qed.

  Lemma pile_fits_inv s :
    pile_fits its fp s = true ->
    0 <= fp < zlen its /\ Forall (fun q : Z * size => 1 <= fst q) (pile_rows_sizes its s) /\
    zsum (map fst (pile_rows_sizes its s)) <= crows (pile_info its) s.
  Proof.
    unfold pile_fits. intro H.
    apply andb_true_iff in H as [H H5]. apply andb_true_iff in H as [H H4].
    apply andb_true_iff in H as [H H3]. apply andb_true_iff in H as [H1 H2].
    split; [lia|]. split.
    - apply Forall_forall. intros q Hq. rewrite forallb_forall in H4. specialize (H4 q Hq). lia.
    - unfold crows. destruct s as [c [r|]]; cbn [snd fst] in *.
      + apply andb_true_iff in H5 as [H5 _]. lia.
      + unfold pile_info. cbn [i_rows]. rewrite pile_flow_heights. lia.
  Qed.

  (* a placed child of a Pile: its index, its offset = the heights above it, its size from get_rows_sizes *)
  Lemma pile_placed_inv s p :
    pile_fits its fp s = true -> In p (pile_place its fp s) ->
    exists pre x post o ci,
      pile_rows_sizes its s = pre ++ x :: post /\
      p = Placed (zlen pre) 0 (zsum (map fst pre)) (snd x) (fp =? zlen pre) false /\
      nthz its (zlen pre) = Some (o, ci) /\ nth_info ki (zlen pre) = ci /\
      crows ci (snd x) = fst x /\ fst (snd x) = fst s /\
      Forall (fun q : Z * size => 1 <= fst q) pre /\ 1 <= fst x /\ 0 <= zsum (map fst post).
  Proof.
    intros Hf Hp. destruct (pile_fits_inv s Hf) as [Hfp [Hall Htot]].
    unfold pile_place in Hp. destruct (pile_place_from_inv fp _ 0 0 p Hall Hp) as [pre [x [post [E ->]]]].
    pose proof (nthz_app_mid pre x post) as Hn. rewrite <- E in Hn. destruct x as [h cs].
    destruct (pile_rows_sizes_nth its s _ _ _ Hn) as [o [ci [Hi [Hc [Hw _]]]]].
    exists pre, (h, cs), post, o, ci. rewrite E in Hall.
    apply Forall_app in Hall as [Hpre Hrest]. inversion Hrest as [|? ? Hx Hpost]; subst.
    repeat split; auto.
    - unfold ki. eapply nth_info_map_snd; eauto.
    - apply zsum_nonneg. exact Hpost.
  Qed.

  Lemma pile_within : LocalWithin nd ki.
  Proof.
    unfold nd. intros s p Hf _ Hp. cbn [n_place n_fits n_info] in *.
    destruct (pile_placed_inv s p Hf Hp) as [pre [x [post [o [ci [E [-> [Hi [Hki [Hc [Hw [Hpre [Hx Hpost]]]]]]]]]]]]].
    destruct (pile_fits_inv s Hf) as [_ [_ Htot]]. rewrite E in Htot.
    rewrite map_app, zsum_app in Htot. cbn [map zsum] in Htot.
    cbn [p_x p_y p_size p_idx]. rewrite Hki, Hc, Hw. pose proof (zsum_nonneg pre Hpre). lia.
  Qed.

  Lemma pile_mouse : LocalMouse nd ki.
  Proof.
    unfold nd. intros s p col row focus Hf _ Hp _ Hin. cbn [n_place n_fits n_route] in *.
    destruct (pile_placed_inv s p Hf Hp) as [pre [x [post [o [ci [E [-> [Hi [Hki [Hc [Hw [Hpre [Hx Hpost]]]]]]]]]]]]].
    cbn [p_x p_y p_size p_idx] in *. rewrite Hki, Hc in Hin. unfold in_rect in Hin.
    unfold pile_route. rewrite E. rewrite (pile_find_split pre x post 0 0 row Hpre) by lia.
    eexists. f_equal. f_equal; lia.
  Qed.

  Lemma pile_move_ok : LocalMove nd ki.
  Proof.
    unfold nd. intros s p col row Hf _ Hp _ Hin _ Hsel Hmv. cbn [n_place n_fits n_move] in *.
    destruct (pile_placed_inv s p Hf Hp) as [pre [x [post [o [ci [E [-> [Hi [Hki [Hc [Hw [Hpre [Hx Hpost]]]]]]]]]]]]].
    cbn [p_x p_y p_size p_idx] in *. rewrite Hki in *. rewrite Hc in Hin. unfold in_rect in Hin.
    unfold pile_move. rewrite E. rewrite (pile_find_split pre x post 0 0 row Hpre) by lia.
    replace (0 + zlen pre) with (zlen pre) by lia. fold ki. rewrite Hki, Hsel, Hmv. cbn [negb].
    eexists. f_equal; lia.
  Qed.

  Lemma pile_flags : LocalFlags nd ki.
  Proof.
    unfold nd. intros s p Hp _. cbn [n_place n_info] in *. unfold pile_info. cbn [i_sel i_hascur].
    split; [|discriminate]. intro Hs.
    unfold pile_place in Hp.
    assert (G : forall rs i0 y0, In p (pile_place_from rs i0 y0 fp) -> i0 <= p_idx p < i0 + zlen rs).
    { induction rs as [|[h cs] rs IH]; intros i0 y0 H; [contradiction|]. cbn [pile_place_from] in H.
      rewrite zlen_cons. destruct (0 <? h).
      - destruct H as [<-|H]; [cbn [p_idx]; pose proof (zlen_nonneg rs); lia|]. specialize (IH _ _ H). lia.
      - specialize (IH _ _ H). lia. }
    specialize (G _ _ _ Hp). unfold zlen in G. rewrite pile_rows_sizes_length in G. fold (zlen its) in G.
    destruct (nthz_some its (p_idx p)) as [[o ci] Hi]; [lia|].
    unfold ki. rewrite (nth_info_map_snd its _ _ _ Hi).
    apply (existsb_false_In (fun it => i_sel (snd it)) its (o, ci) Hs). eapply nthz_In; eauto.
  Qed.

  Lemma pile_cursor_ok : LocalCursor nd ki.
  Proof.
    unfold nd. intros s Hf _. cbn [n_place n_fits n_cursor] in *.
    destruct (pile_fits_inv s Hf) as [Hfp [Hall Htot]].
    destruct (nthz_some (pile_rows_sizes its s) fp) as [[h cs] Hn].
    { unfold zlen. rewrite pile_rows_sizes_length. exact Hfp. }
    destruct (nthz_split _ _ _ Hn) as [pre [post [E [Hlen Hpre]]]].
    destruct (pile_rows_sizes_nth its s _ _ _ Hn) as [o [ci [Hi [Hc [Hw _]]]]].
    pose proof Hall as Hall'. rewrite E in Hall'. apply Forall_app in Hall' as [Hpre' Hrest].
    inversion Hrest as [|? ? Hx Hpost]. cbn [fst] in Hx.
    exists (Placed fp 0 (zsum (map fst pre)) cs true false). split; [|split; [reflexivity|split]].
    - unfold pile_place. rewrite E.
      pose proof (pile_place_from_in fp pre (h, cs) post 0 0 Hpre') as G. cbn [fst snd] in G.
      replace (0 + zlen pre) with fp in G by lia. replace (0 + zsum (map fst pre)) with (zsum (map fst pre)) in G by lia.
      assert (Efp : fp =? fp = true) by lia. rewrite Efp in G. apply G. lia.
    - intros q Hq Hqf. unfold pile_place in Hq.
      destruct (pile_place_from_inv fp _ 0 0 q Hall Hq) as [pre2 [x2 [post2 [E2 ->]]]].
      cbn [p_isfocus] in Hqf. assert (zlen pre2 = zlen pre) by lia.
      rewrite E in E2. destruct (app_mid_eq pre pre2 (h, cs) x2 post post2 E2) as [<- [<- <-]].
      { unfold zlen in *. lia. }
      cbn [snd]. f_equal; lia.
    - cbn [p_idx p_size p_x p_y]. unfold pile_cursor.
      destruct (existsb (fun it => i_sel (snd it)) its) eqn:Es; cbn [negb].
      + rewrite Hi. unfold ki. rewrite (nth_info_map_snd its _ _ _ Hi).
        destruct (i_hascur ci) eqn:Eh; cbn [negb]; [|right; left; reflexivity].
        rewrite Hn. rewrite <- Hpre. repeat split; reflexivity.
      + left. unfold ki. rewrite (nth_info_map_snd its _ _ _ Hi).
        apply (existsb_false_In (fun it => i_sel (snd it)) its (o, ci) Es). eapply nthz_In; eauto.
  Qed.
End PileLocal.

(* ---- Columns ---- *)
Section ColumnsLocal.
  Variable items : col_items.
  Variable fp dc mw : Z.
  Let ki := map snd items.
  Let nd := Node (columns_info items fp dc mw) (columns_place items fp dc mw) (columns_cursor items fp dc mw)
                 (columns_route items fp dc mw) (columns_move items fp dc mw) (columns_fits items fp dc mw).

  Lemma columns_fits_inv s :
    columns_fits items fp dc mw s = true ->
    let cs := columns_sizes items fp dc mw s in
    0 <= fp < zlen items /\ 0 <= dc /\ zlen cs = zlen items /\
    Forall (fun t => 1 <= cw t) cs /\ Forall (fun t => 1 <= chh t /\ forall r, snd s = Some r -> chh t <= r) cs /\
    zsum (map cw cs) + dc * (zlen items - 1) <= fst s.
  Proof.
    unfold columns_fits. intro H. cbv zeta.
    apply andb_true_iff in H as [H _]. apply andb_true_iff in H as [H _].
    apply andb_true_iff in H as [H H7]. apply andb_true_iff in H as [H H6].
    apply andb_true_iff in H as [H H5]. apply andb_true_iff in H as [H H4].
    apply andb_true_iff in H as [H H3]. apply andb_true_iff in H as [H1 H2].
    rewrite forallb_forall in H6.
    repeat split; try lia.
    - apply Forall_forall. intros t Ht. specialize (H6 t Ht). unfold cw. apply andb_true_iff in H6 as [H6 _]. lia.
    - apply Forall_forall. intros t Ht. specialize (H6 t Ht). unfold chh.
      apply andb_true_iff in H6 as [H6 H8]. split; [lia|]. intros r Er. rewrite Er in H8. lia.
    - unfold cw. lia.
  Qed.

  (* the static needs fit: what makes column_widths independent of the focus *)
  Lemma columns_fits_static s :
    columns_fits items fp dc mw s = true ->
    0 <= dc /\ Forall (fun it : copt * bool * cinfo => 0 <= static_w (fst (fst it)) mw) items /\
    zsum (map (fun it : copt * bool * cinfo => static_w (fst (fst it)) mw + dc) items) <= fst s + dc.
  Proof.
    unfold columns_fits. intro H.
    apply andb_true_iff in H as [H H9]. apply andb_true_iff in H as [H H8].
    apply andb_true_iff in H as [H _]. apply andb_true_iff in H as [H _].
    apply andb_true_iff in H as [H _]. apply andb_true_iff in H as [_ H2].
    split; [lia|]. split; [|lia].
    apply Forall_forall. intros it Hit. rewrite forallb_forall in H8. specialize (H8 it Hit). lia.
  Qed.

  Lemma zsum_cw_nonneg l : Forall (fun t => 1 <= cw t) l -> 0 <= zsum (map cw l).
  Proof. induction 1; cbn [map zsum]; lia. Qed.

  Lemma columns_placed_inv s p :
    columns_fits items fp dc mw s = true -> In p (columns_place items fp dc mw s) ->
    exists pre x post o b ci,
      columns_sizes items fp dc mw s = pre ++ x :: post /\
      p = Placed (zlen pre) (xoff dc pre) 0 (snd x) (fp =? zlen pre) false /\
      nthz items (zlen pre) = Some (o, b, ci) /\ nth_info ki (zlen pre) = ci /\
      fst (snd x) = cw x /\ crows ci (snd x) = chh x /\
      Forall (fun t => 1 <= cw t) pre /\ 1 <= cw x /\ Forall (fun t => 1 <= cw t) post /\
      (forall r, snd s = Some r -> chh x <= r).
  Proof.
    intros Hf Hp. destruct (columns_fits_inv s Hf) as [Hfp [Hdc [Hlen [Hw [Hh Hsum]]]]].
    unfold columns_place in Hp.
    destruct (columns_place_from_inv fp dc _ 0 0 _ p eq_refl Hw Hp) as [pre [x [post [E ->]]]].
    pose proof (nthz_app_mid pre x post) as Hn. rewrite <- E in Hn. destruct x as [[w h] csz].
    destruct (columns_sizes_nth items fp dc mw s _ _ _ _ Hn) as [o [b [ci [Hi [Hc1 Hc2]]]]].
    assert (Hc3 : forall r, snd s = Some r -> h <= r).
    { rewrite E in Hh. apply Forall_app in Hh as [_ Hh]. apply Forall_inv in Hh. apply Hh. }
    exists pre, (w, h, csz), post, o, b, ci. rewrite E in Hw.
    apply Forall_app in Hw as [Hpre Hrest]. pose proof (Forall_inv Hrest) as Hx. pose proof (Forall_inv_tail Hrest) as Hpost.
    unfold cw in Hx. cbn [fst] in Hx.
    repeat split; auto.
    unfold ki. eapply nth_info_map_snd; eauto.
  Qed.

  Lemma columns_within : LocalWithin nd ki.
  Proof.
    unfold nd. intros s p Hf _ Hp. cbn [n_place n_fits n_info] in *.
    destruct (columns_placed_inv s p Hf Hp) as [pre [x [post [o [b [ci [E [-> [Hi [Hki [Hc1 [Hc2 [Hpre [Hx [Hpost Hbox]]]]]]]]]]]]]]].
    destruct (columns_fits_inv s Hf) as [Hfp [Hdc [Hlen [Hw [Hh Hsum]]]]].
    cbn [p_x p_y p_size p_idx]. rewrite Hki, Hc1, Hc2.
    pose proof (xoff_nonneg dc pre Hdc Hpre). split; [lia|]. split.
    - rewrite E in Hsum, Hlen. rewrite map_app, zsum_app in Hsum. cbn [map zsum] in Hsum.
      rewrite zlen_app, zlen_cons in Hlen. rewrite xoff_sum.
      pose proof (zsum_cw_nonneg post Hpost). pose proof (zlen_nonneg pre). pose proof (zlen_nonneg post). nia.
    - split; [lia|]. unfold crows. destruct s as [c [r|]]; cbn [snd fst] in *.
      + specialize (Hbox r eq_refl). lia.
      + unfold columns_info. cbn [i_rows]. rewrite E.
        assert (chh x <= zmaxl (map (fun t : Z * Z * size => snd (fst t)) (pre ++ x :: post))).
        { apply zmaxl_ge. apply in_map_iff. exists x. split; [reflexivity|]. apply in_or_app. right. left. reflexivity. }
        lia.
  Qed.

  Lemma columns_mouse : LocalMouse nd ki.
  Proof.
    unfold nd. intros s p col row focus Hf _ Hp _ Hin. cbn [n_place n_fits n_route] in *.
    destruct (columns_placed_inv s p Hf Hp) as [pre [x [post [o [b [ci [E [-> [Hi [Hki [Hc1 [Hc2 [Hpre [Hx [Hpost Hbox]]]]]]]]]]]]]]].
    destruct (columns_fits_inv s Hf) as [Hfp [Hdc _]].
    cbn [p_x p_y p_size p_idx] in *. rewrite Hc1 in Hin. unfold in_rect in Hin.
    unfold columns_route. rewrite E.
    rewrite (columns_route_from_split fp dc pre x post 0 0 col row focus Hdc Hpre) by lia.
    eexists. f_equal. f_equal; lia.
  Qed.

  Lemma sels_split (l : col_items) pre x post (cs : list (Z * Z * size)) :
    cs = pre ++ x :: post -> zlen cs <= zlen l ->
    forall o b ci, nthz l (zlen pre) = Some (o, b, ci) ->
    exists spre spost, map (fun it : copt * bool * cinfo => i_sel (snd it)) l = spre ++ i_sel ci :: spost /\ length spre = length pre.
  Proof.
    intros E Hlen o b ci Hn. destruct (nthz_split _ _ _ Hn) as [ipre [ipost [El [Hl _]]]].
    exists (map (fun it : copt * bool * cinfo => i_sel (snd it)) ipre), (map (fun it : copt * bool * cinfo => i_sel (snd it)) ipost).
    rewrite El, map_app. cbn [map snd]. split; [reflexivity|]. rewrite map_length. unfold zlen in Hl. lia.
  Qed.

  Lemma columns_move_ok : LocalMove nd ki.
  Proof.
    unfold nd. intros s p col row Hf _ Hp _ Hin _ Hsel Hmv. cbn [n_place n_fits n_move] in *.
    destruct (columns_placed_inv s p Hf Hp) as [pre [x [post [o [b [ci [E [-> [Hi [Hki [Hc1 [Hc2 [Hpre [Hx [Hpost Hbox]]]]]]]]]]]]]]].
    destruct (columns_fits_inv s Hf) as [Hfp [Hdc [Hlen _]]].
    cbn [p_x p_y p_size p_idx] in *. rewrite Hki in *. rewrite Hc1 in Hin. unfold in_rect in Hin.
    unfold columns_move. rewrite E.
    destruct (sels_split items pre x post _ E) with (o := o) (b := b) (ci := ci) as [spre [spost [Es Hl]]]; [lia|exact Hi|].
    rewrite Es, Hsel.
    rewrite (columns_best_split dc pre x post spre spost 0 0 col None Hdc Hpre Hl) by lia.
    replace (0 + zlen pre) with (zlen pre) by lia. fold ki. rewrite Hki, Hmv.
    eexists. f_equal; lia.
  Qed.

  Lemma columns_flags : LocalFlags nd ki.
  Proof.
    unfold nd. intros s p Hp _. cbn [n_place n_info] in *. unfold columns_info. cbn [i_sel i_hascur].
    split; [|discriminate]. intro Hs. unfold columns_place in Hp.
    assert (G : forall cs i0 x0 n, In p (columns_place_from cs i0 x0 n fp dc) -> i0 <= p_idx p < i0 + zlen cs).
    { induction cs as [|[[w h] c] cs IH]; intros i0 x0 n H; [contradiction|]. cbn [columns_place_from] in H.
      rewrite zlen_cons. destruct (w <=? 0).
      - specialize (IH _ _ _ H). lia.
      - destruct H as [<-|H]; [cbn [p_idx]; pose proof (zlen_nonneg cs); lia|]. specialize (IH _ _ _ H). lia. }
    specialize (G _ _ _ _ Hp). pose proof (columns_sizes_length_le items fp dc mw s).
    destruct (nthz_some items (p_idx p)) as [[[o b] ci] Hi]; [lia|].
    unfold ki. rewrite (nth_info_map_snd items _ _ _ Hi).
    apply (existsb_false_In (fun it : copt * bool * cinfo => i_sel (snd it)) items (o, b, ci) Hs). eapply nthz_In; eauto.
  Qed.

  Lemma cursor_dx_eq pre : Forall (fun t => 1 <= cw t) pre ->
    zsum (map (fun t : Z * Z * size => if 0 <? fst (fst t) then dc + fst (fst t) else 0) pre) = xoff dc pre.
  Proof.
    unfold xoff. induction 1 as [|t l Ht _ IH]; [reflexivity|]. cbn [map zsum]. rewrite IH. unfold cw in *.
    assert (E : 0 <? fst (fst t) = true) by lia. rewrite E. lia.
  Qed.

  Lemma columns_cursor_ok : LocalCursor nd ki.
  Proof.
    unfold nd. intros s Hf _. cbn [n_place n_fits n_cursor] in *.
    destruct (columns_fits_inv s Hf) as [Hfp [Hdc [Hlen [Hw [Hh Hsum]]]]].
    destruct (nthz_some (columns_sizes items fp dc mw s) fp) as [[[w h] csz] Hn]; [lia|].
    destruct (nthz_split _ _ _ Hn) as [pre [post [E [Hl Hpre]]]].
    destruct (columns_sizes_nth items fp dc mw s _ _ _ _ Hn) as [o [b [ci [Hi [Hc1 Hc2]]]]].
    pose proof Hw as Hw'. rewrite E in Hw'. apply Forall_app in Hw' as [Hpre' Hrest].
    pose proof (Forall_inv Hrest) as Hx. unfold cw in Hx. cbn [fst] in Hx.
    exists (Placed fp (xoff dc pre) 0 csz true false). split; [|split; [reflexivity|split]].
    - unfold columns_place. rewrite E.
      pose proof (columns_place_from_in fp dc pre (w, h, csz) post 0 0 _ eq_refl Hpre') as G. cbn [snd] in G.
      replace (0 + zlen pre) with fp in G by lia. replace (0 + xoff dc pre) with (xoff dc pre) in G by lia.
      assert (Efp : fp =? fp = true) by lia. rewrite Efp in G. apply G. unfold cw. cbn [fst]. lia.
    - intros q Hq Hqf. unfold columns_place in Hq.
      destruct (columns_place_from_inv fp dc _ 0 0 _ q eq_refl Hw Hq) as [pre2 [x2 [post2 [E2 ->]]]].
      cbn [p_isfocus] in Hqf. assert (zlen pre2 = zlen pre) by lia.
      rewrite E in E2. destruct (app_mid_eq pre pre2 (w, h, csz) x2 post post2 E2) as [<- [<- <-]].
      { unfold zlen in *. lia. }
      cbn [snd]. f_equal; lia.
    - cbn [p_idx p_size p_x p_y]. unfold columns_cursor.
      assert (Enn : forall (A : Type) (a b : A), match items with [] => a | _ :: _ => b end = b).
      { intros A a0 b0. clear - Hi. destruct items; [rewrite nthz_nil in Hi; discriminate|reflexivity]. }
      rewrite Enn. rewrite Hi.
      unfold ki. rewrite (nth_info_map_snd items _ _ _ Hi).
      destruct (i_sel ci) eqn:Es; cbn [negb]; [|left; reflexivity].
      destruct (i_hascur ci) eqn:Eh; cbn [negb]; [|right; left; reflexivity].
      rewrite Hn. rewrite <- Hpre. rewrite (cursor_dx_eq pre Hpre'). repeat split; reflexivity.
  Qed.
End ColumnsLocal.

(* ------------------------------------------------------------------------------------------ *)
(* the node of every widget satisfies the local lemmas                                         *)
(* ------------------------------------------------------------------------------------------ *)
Definition has_opt {A} (o : option A) : bool := match o with Some _ => true | None => false end.

Lemma kids_length_pile (items : list (popt * widget)) :
  length (map fst items) = length (map v_info (map (fun it => view (snd it)) items)).
Proof. rewrite !map_length. reflexivity. Qed.
Lemma kids_length_cols (items : list (copt * bool * widget)) :
  length (map fst items) = length (map v_info (map (fun it => view (snd it)) items)).
Proof. rewrite !map_length. reflexivity. Qed.

Lemma frame_node_eq body hdr ftr fpt ki :
  node_of (Frame body hdr ftr fpt) ki =
  Node frame_info
       (frame_place (if has_opt hdr then Some (nth_info ki 1) else None) (if has_opt ftr then Some (nth_info ki 2) else None) fpt)
       (frame_cursor (nth_info ki 0) (if has_opt hdr then Some (nth_info ki 1) else None) (if has_opt ftr then Some (nth_info ki 2) else None) fpt)
       (frame_route (if has_opt hdr then Some (nth_info ki 1) else None) (if has_opt ftr then Some (nth_info ki 2) else None) fpt)
       (fun _ _ _ => MPFalse)
       (frame_fits (if has_opt hdr then Some (nth_info ki 1) else None) (if has_opt ftr then Some (nth_info ki 2) else None) fpt).
Proof. destruct hdr, ftr; reflexivity. Qed.

Lemma leaf_node_local l ki :
  let nd := node_of (Leaf l) ki in
  LocalWithin nd ki /\ LocalMouse nd ki /\ LocalCursor nd ki /\ LocalFlags nd ki /\ LocalMove nd ki.
Proof.
  cbn. split; [|split; [|split; [|split]]].
  - intros s p _ _ Hp. contradiction.
  - intros s p col row focus _ _ Hp. contradiction.
  - intros s H. discriminate H.
  - intros s p Hp. contradiction.
  - intros s p col row _ _ Hp. contradiction.
Qed.

Ltac pile_ki := rewrite (map_snd_combine _ _ (kids_length_pile _)).
Ltac cols_ki := rewrite (map_snd_combine _ _ (kids_length_cols _)).

Lemma wnode_within w : LocalWithin (wnode w) (map v_info (kidviews w)).
Proof.
  destruct w; unfold wnode.
  - apply leaf_node_local.
  - cbn [node_of kidviews kids_with].
    pose proof (pile_within (combine (map fst items) (map v_info (map (fun it => view (snd it)) items))) fp) as H.
    rewrite (map_snd_combine _ _ (kids_length_pile items)) in H. exact H.
  - cbn [node_of kidviews kids_with].
    pose proof (columns_within (combine (map fst items) (map v_info (map (fun it => view (snd it)) items))) fp dc mw) as H.
    rewrite (map_snd_combine _ _ (kids_length_cols items)) in H. exact H.
  - apply padding_within.
  - apply filler_within.
  - rewrite frame_node_eq. apply frame_within.
  - apply boxadapter_within.
  - apply attrmap_within.
  - apply overlay_within.
Qed.

Lemma wnode_flags w : LocalFlags (wnode w) (map v_info (kidviews w)).
Proof.
  destruct w; unfold wnode.
  - apply leaf_node_local.
  - cbn [node_of kidviews kids_with].
    pose proof (pile_flags (combine (map fst items) (map v_info (map (fun it => view (snd it)) items))) fp) as H.
    rewrite (map_snd_combine _ _ (kids_length_pile items)) in H. exact H.
  - cbn [node_of kidviews kids_with].
    pose proof (columns_flags (combine (map fst items) (map v_info (map (fun it => view (snd it)) items))) fp dc mw) as H.
    rewrite (map_snd_combine _ _ (kids_length_cols items)) in H. exact H.
  - apply padding_flags.
  - apply filler_flags.
  - rewrite frame_node_eq. apply frame_flags.
  - apply boxadapter_flags.
  - apply attrmap_flags.
  - apply overlay_flags.
Qed.

Lemma wnode_mouse w : LocalMouse (wnode w) (map v_info (kidviews w)).
Proof.
  destruct w; unfold wnode.
  - apply leaf_node_local.
  - cbn [node_of kidviews kids_with].
    pose proof (pile_mouse (combine (map fst items) (map v_info (map (fun it => view (snd it)) items))) fp) as H.
    rewrite (map_snd_combine _ _ (kids_length_pile items)) in H. exact H.
  - cbn [node_of kidviews kids_with].
    pose proof (columns_mouse (combine (map fst items) (map v_info (map (fun it => view (snd it)) items))) fp dc mw) as H.
    rewrite (map_snd_combine _ _ (kids_length_cols items)) in H. exact H.
  - apply padding_mouse.
  - apply filler_mouse.
  - rewrite frame_node_eq. apply frame_mouse.
  - apply boxadapter_mouse.
  - apply attrmap_mouse.
  - apply overlay_mouse.
Qed.

Lemma wnode_cursor w : LocalCursor (wnode w) (map v_info (kidviews w)).
Proof.
  destruct w; unfold wnode.
  - apply leaf_node_local.
  - cbn [node_of kidviews kids_with].
    pose proof (pile_cursor_ok (combine (map fst items) (map v_info (map (fun it => view (snd it)) items))) fp) as H.
    rewrite (map_snd_combine _ _ (kids_length_pile items)) in H. exact H.
  - cbn [node_of kidviews kids_with].
    pose proof (columns_cursor_ok (combine (map fst items) (map v_info (map (fun it => view (snd it)) items))) fp dc mw) as H.
    rewrite (map_snd_combine _ _ (kids_length_cols items)) in H. exact H.
  - apply padding_cursor_ok.
  - apply filler_cursor_ok.
  - rewrite frame_node_eq. apply frame_cursor_ok.
  - apply boxadapter_cursor_ok.
  - apply attrmap_cursor_ok.
  - apply overlay_cursor_ok.
Qed.

Lemma wnode_move w : LocalMove (wnode w) (map v_info (kidviews w)).
Proof.
  destruct w; unfold wnode.
  - apply leaf_node_local.
  - cbn [node_of kidviews kids_with].
    pose proof (pile_move_ok (combine (map fst items) (map v_info (map (fun it => view (snd it)) items))) fp) as H.
    rewrite (map_snd_combine _ _ (kids_length_pile items)) in H. exact H.
  - cbn [node_of kidviews kids_with].
    pose proof (columns_move_ok (combine (map fst items) (map v_info (map (fun it => view (snd it)) items))) fp dc mw) as H.
    rewrite (map_snd_combine _ _ (kids_length_cols items)) in H. exact H.
  - apply padding_move_ok.
  - apply filler_move_ok.
  - rewrite frame_node_eq. apply frame_move_ok.
  - apply boxadapter_move_ok.
  - apply attrmap_move_ok.
  - apply overlay_move_ok.
Qed.

(* ------------------------------------------------------------------------------------------ *)
(* structural induction over the tree                                                          *)
(* ------------------------------------------------------------------------------------------ *)
Definition Good (v : wview) : Prop :=
  FitsPos v /\ RectsWithin v /\ NoFocusNoCursor v /\ FlagsNoCursor v /\ CursorInRows v.

Lemma good_dummy d : Good (dummy_view d).
Proof.
  split; [apply dummy_fitspos|]. split; [apply dummy_rects_within|]. split; [apply dummy_nofocus|].
  split; [apply dummy_flags|apply dummy_inrows].
Qed.

Lemma good_leaf l : Good (leaf_view l).
Proof.
  split; [apply leaf_fitspos|]. split; [apply leaf_rects_within|]. split; [apply leaf_nofocus|].
  split; [apply leaf_flags|apply leaf_inrows].
Qed.

Lemma Forall_proj {A} (P Q : A -> Prop) l : (forall x, P x -> Q x) -> Forall P l -> Forall Q l.
Proof. intros H HF. eapply Forall_impl; eauto. Qed.

Lemma good_interp d nd kids :
  LocalWithin nd (map v_info kids) -> LocalFlags nd (map v_info kids) -> Forall Good kids -> Good (interp d nd kids).
Proof.
  intros LW LF HK.
  assert (K1 : Forall RectsWithin kids) by (eapply Forall_proj; [|exact HK]; intros x H; apply H).
  assert (K2 : Forall NoFocusNoCursor kids) by (eapply Forall_proj; [|exact HK]; intros x H; apply H).
  assert (K3 : Forall FlagsNoCursor kids) by (eapply Forall_proj; [|exact HK]; intros x H; apply H).
  assert (K4 : Forall CursorInRows kids) by (eapply Forall_proj; [|exact HK]; intros x H; apply H).
  split; [apply interp_fitspos|]. split; [apply interp_rects_within; assumption|].
  split; [apply interp_nofocus; assumption|]. split; [apply interp_flags; assumption|apply interp_inrows; assumption].
Qed.

(* the views of the children inherit a property proved for the children *)
Ltac kids_from_ih Q :=
  cbn [kidviews kids_with];
  match goal with
  | |- Forall _ (map _ _) => apply Forall_map; assumption
  | _ => repeat (apply Forall_cons || apply Forall_nil); try assumption
  end.

Ltac fa := repeat first [apply Forall_nil | apply Forall_cons].

Theorem view_good : forall w, Good (view w).
Proof.
  induction w using widget_ind2; rewrite view_eq; try apply good_leaf;
    (apply good_interp; [apply wnode_within|apply wnode_flags|]); cbn [kidviews kids_with].
  - apply Forall_map. exact H.
  - apply Forall_map. exact H.
  - fa; assumption.
  - fa; assumption.
  - fa; try assumption.
    + destruct hdr; [apply H; reflexivity|apply good_dummy].
    + destruct ftr; [apply H0; reflexivity|apply good_dummy].
  - fa; assumption.
  - fa; assumption.
  - fa; assumption.
Qed.

Lemma kidviews_forall (Q : wview -> Prop) :
  (forall w, Q (view w)) -> (forall d, Q (dummy_view d)) -> forall w, Forall Q (kidviews w).
Proof.
  intros HQ HD w. destruct w; cbn [kidviews kids_with]; try (apply Forall_map; apply Forall_forall; intros; apply HQ);
    fa; try apply HQ.
  - destruct header; [apply HQ|apply HD].
  - destruct footer; [apply HQ|apply HD].
Qed.

Lemma kids_good w : Forall Good (kidviews w).
Proof. apply kidviews_forall; [apply view_good|apply good_dummy]. Qed.

(* ---- hit-testing, all the way down to the leaves ---- *)
Theorem mouse_deep_all : forall w, MouseDeep (view w).
Proof.
  induction w using widget_ind2; rewrite view_eq; try apply leaf_mouse_deep.
  all: apply interp_mouse_deep;
    [apply wnode_within
    |apply wnode_mouse
    |eapply Forall_proj; [|apply kids_good]; intros x Hx; apply Hx
    |]; cbn [kidviews kids_with].
  - apply Forall_map. exact H.
  - apply Forall_map. exact H.
  - fa; auto.
  - fa; auto.
  - fa; auto.
    + destruct hdr; [apply H; reflexivity|apply dummy_mouse_deep].
    + destruct ftr; [apply H0; reflexivity|apply dummy_mouse_deep].
  - fa; auto.
  - fa; auto.
  - fa; auto.
Qed.

(* ---- reported cursor = cursor of the focused rendering ---- *)
Theorem cursor_deep_all : forall w, CursorDeep (view w).
Proof.
  induction w using widget_ind2; rewrite view_eq; try apply leaf_cursor_deep.
  all: apply interp_cursor_deep;
    [apply wnode_cursor
    |
    |eapply Forall_proj; [|apply kids_good]; intros x Hx; apply Hx
    |eapply Forall_proj; [|apply kids_good]; intros x Hx; apply Hx
    |eapply Forall_proj; [|apply kids_good]; intros x Hx; apply Hx
    |eapply Forall_proj; [|apply kids_good]; intros x Hx; apply Hx]; cbn [kidviews kids_with].
  - apply Forall_map. exact H.
  - apply Forall_map. exact H.
  - fa; auto.
  - fa; auto.
  - fa; auto.
    + destruct hdr; [apply H; reflexivity|apply dummy_cursor_deep].
    + destruct ftr; [apply H0; reflexivity|apply dummy_cursor_deep].
  - fa; auto.
  - fa; auto.
  - fa; auto.
Qed.

(* ------------------------------------------------------------------------------------------ *)
(* one level: a widget and its direct children                                                 *)
(* ------------------------------------------------------------------------------------------ *)
Definition child_view (w : widget) (i : Z) : wview := nth_view w (kidviews w) i.
Definition child_info (w : widget) (i : Z) : cinfo := nth_info (map v_info (kidviews w)) i.

Lemma fits_node w s :
  fits w s = true -> match w with Leaf _ => True | _ => size_pos s /\ n_fits (wnode w) s = true end.
Proof.
  unfold fits. rewrite view_eq. destruct w; [trivial| | | | | | | |];
    intro H; apply interp_fits_inv in H as [H1 [H2 _]]; auto.
Qed.

Lemma place_node w s : place w s = match w with Leaf _ => [] | _ => n_place (wnode w) s end.
Proof. unfold place. rewrite view_eq. destruct w; reflexivity. Qed.

Theorem mouse_route_hits_child : forall w s p col row focus,
  fits w s = true -> In p (place w s) -> p_bg p = false ->
  in_rect (p_x p) (p_y p) (fst (p_size p)) (crows (child_info w (p_idx p)) (p_size p)) col row ->
  exists f, mouse_route w s col row focus = Some (Routed (p_idx p) (p_size p) (col - p_x p) (row - p_y p) f).
Proof.
  intros w s p col row focus Hf Hp Hbg Hin. pose proof (fits_node w s Hf) as Hn. rewrite place_node in Hp.
  unfold mouse_route. destruct w; try contradiction; destruct Hn as [Hpos Hn];
    eapply wnode_mouse; eauto.
Qed.

Theorem mouse_route_unique : forall w s p q col row,
  fits w s = true ->
  In p (place w s) -> p_bg p = false -> In q (place w s) -> p_bg q = false ->
  in_rect (p_x p) (p_y p) (fst (p_size p)) (crows (child_info w (p_idx p)) (p_size p)) col row ->
  in_rect (p_x q) (p_y q) (fst (p_size q)) (crows (child_info w (p_idx q)) (p_size q)) col row ->
  p_idx p = p_idx q /\ p_size p = p_size q /\ p_x p = p_x q /\ p_y p = p_y q.
Proof.
  intros w s p q col row Hf Hp Hpb Hq Hqb Hip Hiq.
  destruct (mouse_route_hits_child w s p col row true Hf Hp Hpb Hip) as [f1 E1].
  destruct (mouse_route_hits_child w s q col row true Hf Hq Hqb Hiq) as [f2 E2].
  rewrite E1 in E2. inversion E2. repeat split; auto; lia.
Qed.

Theorem move_iff_child : forall w s p col row,
  fits w s = true -> In p (place w s) -> p_bg p = false ->
  in_rect (p_x p) (p_y p) (fst (p_size p)) (crows (child_info w (p_idx p)) (p_size p)) col row ->
  i_hasmove (info w) = true ->
  i_sel (child_info w (p_idx p)) = true -> i_hasmove (child_info w (p_idx p)) = true ->
  m_ok (move_cursor w s col row)
  = m_ok (v_move (child_view w (p_idx p)) (p_size p) (col - p_x p) (row - p_y p)) /\
  m_asked (move_cursor w s col row)
  = m_asked (v_move (child_view w (p_idx p)) (p_size p) (col - p_x p) (row - p_y p)).
Proof.
  intros w s p col row Hf Hp Hbg Hin Hm Hs Hcm. pose proof (fits_node w s Hf) as Hn. rewrite place_node in Hp.
  unfold move_cursor, info in *. rewrite view_eq in *.
  destruct w; try contradiction; destruct Hn as [Hpos Hn];
    cbn [interp v_move v_info] in *; unfold interp_move;
    (destruct (wnode_move _ s p col row Hn Hpos Hp Hbg Hin Hm Hs Hcm) as [nf E]; rewrite E;
     unfold child_view; destruct (m_ok (v_move _ _ _ _)); split; reflexivity).
Qed.

(* ------------------------------------------------------------------------------------------ *)
(* the translated padding / filler arithmetic never produces a negative margin (no trimming)   *)
(* ------------------------------------------------------------------------------------------ *)
Lemma clrp_nonneg maxcol at_ aamt wt wamt minw l r :
  wt <> GClip ->
  0 <= fst (calculate_left_right_padding maxcol at_ aamt wt wamt minw l r) /\
  0 <= snd (calculate_left_right_padding maxcol at_ aamt wt wamt minw l r).
Proof. exact (clrp_nonneg_c19 maxcol at_ aamt wt wamt minw l r). Qed.
Lemma ctbf_nonneg maxrow vt vamt ht hamt minh t b :
  0 <= fst (calculate_top_bottom_filler maxrow vt vamt ht hamt minh t b) /\
  0 <= snd (calculate_top_bottom_filler maxrow vt vamt ht hamt minh t b).
Proof. exact (ctbf_nonneg_c19 maxrow vt vamt ht hamt minh t b). Qed.
