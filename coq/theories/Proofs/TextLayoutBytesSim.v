(* The utf-8 bytes layout model (Model/TextLayoutBytes.v) on the encoding of a str text computes the image
   of the str layout model (Model/TextLayout.v) under the boundary map [boff s] (character index -> byte
   offset).  Uses C11's agreement theorems between the str and utf8-bytes position queries. *)
From Coq Require Import ZArith List Bool Lia ZifyBool.
Import ListNotations.
From Urwid Require Import PyBase PyList Utf8 TextLayout TextLayoutBytes TextLayoutFacts TextLayoutProofs TextLayoutBytesEq.
From Urwid Require str_util_gen Width WidthFacts WidthProofs Utf8Proofs.
Open Scope Z_scope.

Arguments Z.add : simpl never.
Arguments Z.sub : simpl never.
Arguments Z.mul : simpl never.
Arguments Z.div : simpl never.
Arguments Z.ltb : simpl never.
Arguments Z.leb : simpl never.
Arguments Z.eqb : simpl never.
Arguments Z.of_nat : simpl never.
Arguments Z.to_nat : simpl never.

(* ---------- bytes of one encoded character ---------- *)
Lemma enc_bytes c b : 0 <= c -> In b (utf8_encode c) -> (b = c /\ c < 128) \/ 128 <= b.
Proof.
  intros Hc. unfold utf8_encode.
  pose proof (Z.mod_pos_bound c 64 ltac:(lia)). pose proof (Z.mod_pos_bound (c / 64) 64 ltac:(lia)).
  pose proof (Z.mod_pos_bound (c / 4096) 64 ltac:(lia)).
  pose proof (Z.div_pos c 64 Hc ltac:(lia)). pose proof (Z.div_pos c 4096 Hc ltac:(lia)).
  pose proof (Z.div_pos c 262144 Hc ltac:(lia)).
  destruct (c <? 128) eqn:E1; [|destruct (c <? 2048) eqn:E2; [|destruct (c <? 65536) eqn:E3]]; cbn [In]; intros I.
  - left. destruct I as [<-|[]]. lia.
  - right. destruct I as [<-|[<-|[]]]; lia.
  - right. destruct I as [<-|[<-|[<-|[]]]]; lia.
  - right. destruct I as [<-|[<-|[<-|[<-|[]]]]]; lia.
Qed.

Lemma enc_head c : 0 <= c -> exists h r, utf8_encode c = h :: r /\ ((h = c /\ c < 128) \/ (128 <= h /\ 128 <= c)).
Proof.
  intros Hc. unfold utf8_encode.
  pose proof (Z.div_pos c 64 Hc ltac:(lia)). pose proof (Z.div_pos c 4096 Hc ltac:(lia)).
  pose proof (Z.div_pos c 262144 Hc ltac:(lia)).
  destruct (c <? 128) eqn:E1; [|destruct (c <? 2048) eqn:E2; [|destruct (c <? 65536) eqn:E3]];
    eexists; eexists; (split; [reflexivity|]); lia.
Qed.

Lemma in_encs b l : In b (encs l) -> exists c, In c l /\ In b (utf8_encode c).
Proof. unfold encs. intros H. apply in_flat_map in H. exact H. Qed.

Lemma nthz_In {A} (l : list A) k x : nthz l k = Some x -> In x l.
Proof. unfold nthz. destruct (k <? 0); [discriminate|]. apply nth_error_In. Qed.

Lemma nthz_app_l {A} (a b : list A) k : 0 <= k < zlen a -> nthz (a ++ b) k = nthz a k.
Proof. intros H. unfold nthz, zlen in *. destruct (k <? 0); [reflexivity|]. apply nth_error_app1. lia. Qed.

Lemma nthz_app_r {A} (a b : list A) k : zlen a <= k -> nthz (a ++ b) k = nthz b (k - zlen a).
Proof.
  intros H. pose proof (zlen_nonneg a). unfold nthz, zlen in *.
  destruct (k <? 0) eqn:E1; [lia|]. destruct (k - Z.of_nat (length a) <? 0) eqn:E2; [lia|].
  rewrite nth_error_app2 by lia. f_equal. lia.
Qed.

(* ---------- the image of a layout under an offset map ---------- *)
Definition map_seg (f : Z -> Z) (x : seg) : seg :=
  match x with
  | SText sc o e => SText sc (f o) (f e)
  | SIns sc o txt => SIns sc (f o) (encs txt)
  | SPad sc o => SPad sc (f o)
  | SShift sc => SShift sc
  end.
Definition map_line (f : Z -> Z) (l : line) : line := map (map_seg f) l.
Definition map_layout (f : Z -> Z) (L : list line) : list line := map (map_line f) L.

Definition map_scan (f : Z -> Z) (r : scan_res) : scan_res :=
  match r with ScanSpace p => ScanSpace (f p) | ScanWide p => ScanWide (f p) | x => x end.

Lemma unwrap_candidate_map f segs :
  unwrap_candidate (map_layout f segs) =
  match unwrap_candidate segs with
  | UCand a b c d rest => UCand a (f b) c (f d) (map_layout f rest)
  | UNone => UNone
  | UErr => UErr
  end.
Proof.
  destruct segs as [|l r]; [reflexivity|].
  destruct l as [|x [|y [|z l']]]; try reflexivity.
  - destruct x; reflexivity.
  - destruct x, y; reflexivity.
  - destruct x, y; reflexivity.
Qed.

Lemma seg_sc_map f x : seg_sc (map_seg f x) = seg_sc x.
Proof. destruct x; reflexivity. Qed.

Lemma line_width_map f l : line_width (map_line f l) = line_width l.
Proof.
  assert (G : forall l a, fold_left (fun a s => a + seg_sc s) (map_line f l) a = fold_left (fun a s => a + seg_sc s) l a).
  { induction l0 as [|x l0 IH]; intros a; cbn [map_line map fold_left]; [reflexivity|]. rewrite seg_sc_map. apply IH. }
  destruct l as [|x l]; [reflexivity|].
  destruct x; cbn [map_line map map_seg line_width].
  - apply (G (SText sc offs e :: l)).
  - apply (G (SIns sc offs txt :: l)).
  - apply (G (SPad sc offs :: l)).
  - apply G.
Qed.

Lemma align_layout_map f width align L :
  align_layout width align (map_layout f L) = map_layout f (align_layout width align L).
Proof.
  unfold align_layout, map_layout. rewrite !map_map. apply map_ext. intros l.
  unfold align_line. rewrite line_width_map.
  destruct ((line_width l =? width) || match align with AlLeft => true | _ => false end); [reflexivity|].
  destruct align; try reflexivity; destruct ((width - line_width l + 1) / 2 =? 0); reflexivity.
Qed.

Lemma map_layout_rev f L : map_layout f (rev L) = rev (map_layout f L).
Proof. unfold map_layout. apply map_rev. Qed.

Section Sim.
Variable wcw : Z -> Z.
Hypothesis Hw : forall c, wcw c <= 2.
Variable s : list Z.
Hypothesis Hs : Forall (fun c => scalar c = true) s.

Notation cw := (u8_cw wcw).
Notation bs := (encs s).
Notation B := (boff s).
Notation len := (zlen s).

Lemma cw_rng c : 0 <= cw c <= 2.
Proof. unfold u8_cw. specialize (Hw c). destruct (0 <=? wcw c) eqn:E; lia. Qed.

Lemma Hcp : Forall Utf8Proofs.cp s.
Proof. eapply Forall_impl; [|exact Hs]. intros c. apply Utf8Proofs.scalar_cp. Qed.

Lemma wsum_sumw l : Width.wsum wcw l = sumw cw l.
Proof. induction l; cbn [Width.wsum sumw]; [reflexivity|]. rewrite IHl. reflexivity. Qed.

Lemma B_0 : B 0 = 0.
Proof. reflexivity. Qed.

Lemma B_len : B len = zlen bs.
Proof. apply Utf8Proofs.boff_full. Qed.

Lemma B_mono a b : 0 <= a <= b -> b <= len -> B a <= B b.
Proof. apply Utf8Proofs.boff_mono. Qed.

Lemma char_at k : 0 <= k < len -> exists c, nthz s k = Some c /\ 0 <= c /\ Utf8Proofs.cp c /\
  bs = encs (takez k s) ++ utf8_encode c ++ encs (dropz (k + 1) s) /\
  B k = zlen (encs (takez k s)) /\ B (k + 1) = B k + zlen (utf8_encode c) /\ 1 <= zlen (utf8_encode c).
Proof.
  intros Hk. destruct (Utf8Proofs.split_at s k Hk) as (c & Es & N). exists c.
  assert (Hc : Utf8Proofs.cp c).
  { pose proof Hcp as F. rewrite Forall_forall in F. apply F. rewrite Es. apply in_or_app. right. now left. }
  split; [exact N|]. split; [unfold Utf8Proofs.cp in Hc; lia|]. split; [exact Hc|]. split.
  - rewrite Es at 1. rewrite Utf8Proofs.encs_app, Utf8Proofs.encs_cons. reflexivity.
  - split; [reflexivity|]. split; [apply Utf8Proofs.boff_succ; assumption|]. apply Utf8Proofs.zlen_utf8_encode.
Qed.

Lemma B_strict a b : 0 <= a < b -> b <= len -> B a < B b.
Proof.
  intros H1 H2. destruct (char_at a ltac:(lia)) as (c & _ & _ & _ & _ & _ & E & L).
  pose proof (B_mono (a + 1) b ltac:(lia) H2). lia.
Qed.

Lemma B_inj a b : 0 <= a <= len -> 0 <= b <= len -> B a = B b -> a = b.
Proof.
  intros Ha Hb E. destruct (Z.lt_trichotomy a b) as [L|[L|L]]; [|assumption|].
  - pose proof (B_strict a b ltac:(lia) ltac:(lia)). lia.
  - pose proof (B_strict b a ltac:(lia) ltac:(lia)). lia.
Qed.

(* the byte at a character boundary: the character itself when ASCII, otherwise >= 128 *)
Lemma byte_at k : 0 <= k < len -> exists c h, nthz s k = Some c /\ nthz bs (B k) = Some h /\
  ((h = c /\ c < 128) \/ (128 <= h /\ 128 <= c)).
Proof.
  intros Hk. destruct (char_at k Hk) as (c & N & Hc0 & Hc & Es & Ek & _ & _).
  destruct (enc_head c Hc0) as (h & r & Eh & Hh). exists c, h. split; [exact N|]. split; [|exact Hh].
  rewrite Es, Ek, Eh. apply WidthFacts.nthz_app_mid.
Qed.

Lemma byte_eq_ascii k c h x : nthz s k = Some c -> nthz bs (B k) = Some h -> 0 <= x < 128 -> (h =? x) = (c =? x).
Proof.
  intros N Nh Hx. pose proof (nthz_lt _ _ _ N) as Hk.
  destruct (byte_at k Hk) as (c' & h' & N' & Nh' & Hh). rewrite N in N'. rewrite Nh in Nh'.
  inversion N'; inversion Nh'; subst. lia.
Qed.

(* every byte of the range [B a, B b) comes from a character of s[a:b] *)
Lemma bytes_of_range a b j h : 0 <= a <= b -> b <= len -> B a <= j < B b -> nthz bs j = Some h ->
  exists c, In c (slice s a b) /\ In h (utf8_encode c).
Proof.
  intros H1 H2 Hj N. pose proof (Utf8Proofs.slice_encs s a b H1 H2) as E.
  pose proof (B_mono a b H1 H2). pose proof (B_mono b len ltac:(lia) ltac:(lia)) as M2. rewrite B_len in M2.
  pose proof (Utf8Proofs.boff_nonneg s a).
  rewrite WidthFacts.py_slice_in in E by lia.
  assert (In h (encs (takez (b - a) (dropz a s)))).
  { rewrite <- E. apply (nthz_In _ (j - B a)). change (takez (B b - B a) (dropz (B a) bs)) with (slice bs (B a) (B b)).
    rewrite nthz_slice by lia. replace (B a + (j - B a)) with j by lia. exact N. }
  apply in_encs in H3. exact H3.
Qed.

(* ---------- the position queries agree ---------- *)
Lemma sim_calc_width a b : 0 <= a <= b -> b <= len ->
  calc_width_b wcw bs (B a) (B b) = LOk (sumw cw (slice s a b)).
Proof.
  intros H1 H2. unfold calc_width_b. rewrite u8_calc_width_eq.
  rewrite (Utf8Proofs.calc_width_utf8_agrees wcw s a b Hs H1 H2).
  rewrite (WidthProofs.calc_width_str wcw s a b H1 H2). unfold WidthProofs.W. rewrite wsum_sumw. reflexivity.
Qed.

Lemma ctp_tpos l : forall pos cols pref,
  ctp cw l pos cols pref = (pos + fst (WidthFacts.tpos wcw l pref cols), snd (WidthFacts.tpos wcw l pref cols)).
Proof.
  induction l as [|c l IH]; intros pos cols pref; cbn [ctp WidthFacts.tpos fst snd].
  - f_equal. lia.
  - change (Width.cw wcw c) with (cw c). destruct (pref <? cw c + cols); cbn [fst snd]; [f_equal; lia|].
    rewrite IH. destruct (WidthFacts.tpos wcw l pref (cols + cw c)) as [k c']. cbn [fst snd]. f_equal. lia.
Qed.

Lemma str_ctp_eq a b col : 0 <= a <= b -> b <= len ->
  to_lres (Width.calc_text_pos wcw Width.MStr s a b col) = calc_text_pos cw s a b col.
Proof.
  intros H1 H2. rewrite (WidthProofs.calc_text_pos_str_eq wcw s a b col H1 H2). cbn [to_lres].
  unfold calc_text_pos. destruct (b <? a) eqn:E; [lia|]. rewrite ctp_tpos. reflexivity.
Qed.

Lemma sim_ctp a b col : 0 <= a <= b -> b <= len ->
  exists p c, calc_text_pos cw s a b col = LOk (p, c) /\ a <= p <= b /\
              calc_text_pos_b wcw bs (B a) (B b) col = LOk (B p, c).
Proof.
  intros H1 H2.
  destruct (Utf8Proofs.calc_text_pos_utf8_agrees wcw s a b col Hcp H1 H2) as (p & c & E1 & Hp & E2).
  exists p, c. split; [rewrite <- str_ctp_eq by assumption; rewrite E1; reflexivity|]. split; [exact Hp|].
  unfold calc_text_pos_b. rewrite u8_calc_text_pos_eq, E2. reflexivity.
Qed.

Lemma sim_is_wide k c : nthz s k = Some c -> is_wide_b wcw bs (B k) = LOk (cw c =? 2).
Proof.
  intros N. pose proof (nthz_lt _ _ _ N) as Hk.
  destruct (char_at k Hk) as (c' & N' & _ & Hc & Es & Ek & _ & _). rewrite N in N'. inversion N'. subst c'.
  unfold is_wide_b. rewrite u8_is_wide_char_eq. unfold Width.is_wide_char.
  rewrite Es, Ek. rewrite Utf8Proofs.decode_one_enc by exact Hc.
  rewrite Utf8Proofs.get_width_cp by exact Hc. reflexivity.
Qed.

Lemma sim_prev a b : 0 <= a < b -> b <= len -> move_prev_b bs (B a) (B b) = LOk (B (b - 1)).
Proof.
  intros H1 H2. unfold move_prev_b. rewrite u8_move_prev_char_eq.
  rewrite (Utf8Proofs.move_prev_char_utf8 s a b Hcp H1 H2). reflexivity.
Qed.

Lemma sim_next a b : 0 <= a < b -> b <= len -> move_next_b bs (B a) (B b) = LOk (B (a + 1)).
Proof.
  intros H1 H2. unfold move_next_b. rewrite u8_move_next_char_eq.
  rewrite (Utf8Proofs.move_next_char_utf8 s a b Hcp H1 H2). reflexivity.
Qed.

(* ---------- find_nl ---------- *)
Lemma sim_find_nl i : 0 <= i <= len -> find_nl bs (B i) = B (find_nl s i).
Proof.
  intros Hi. destruct (find_nl_spec s i Hi) as (A1 & A2 & A3). set (nl := find_nl s i) in *.
  pose proof (B_mono i nl ltac:(lia) ltac:(lia)) as M1. pose proof (B_mono nl len ltac:(lia) ltac:(lia)) as M2.
  rewrite B_len in M2. pose proof (Utf8Proofs.boff_nonneg s i).
  destruct (find_nl_spec bs (B i) ltac:(lia)) as (C1 & C2 & C3). set (r := find_nl bs (B i)) in *.
  destruct (Z.lt_trichotomy r (B nl)) as [L|[L|L]]; [exfalso | assumption | exfalso].
  - destruct C2 as [C2|C2]; [lia|].
    destruct (bytes_of_range i nl r NL ltac:(lia) ltac:(lia) ltac:(lia) C2) as (c & Ic & Ib).
    apply In_slice in Ic; [|lia]. destruct Ic as (k & Hk & Nk).
    assert (0 <= c). { pose proof Hcp as F. rewrite Forall_forall in F. apply nthz_In in Nk. specialize (F _ Nk). unfold Utf8Proofs.cp in F. lia. }
    destruct (enc_bytes c NL H0 Ib) as [(E & _)|E]; [|unfold NL in E; lia].
    subst c. exact (A3 k Hk Nk).
  - destruct A2 as [A2|A2]; [rewrite A2, B_len in L; lia|]. pose proof (nthz_lt _ _ _ A2) as Hnl.
    destruct (byte_at nl Hnl) as (c & h & N & Nh & Hh). rewrite A2 in N. inversion N. subst c.
    assert (h = NL) by (unfold NL in *; lia). subst h. exact (C3 (B nl) ltac:(lia) Nh).
Qed.

(* ---------- more about the boundary map ---------- *)
Lemma B_gap a b : 0 <= a <= b -> b <= len -> b - a <= B b - B a.
Proof.
  intros H1 H2. destruct (Utf8Proofs.boff_split s a b H1 H2) as [_ E]. rewrite E.
  pose proof (Utf8Proofs.length_le_encs (takez (b - a) (dropz a s))) as L.
  assert (zlen (takez (b - a) (dropz a s)) = b - a) by (apply WidthFacts.zlen_slice_in; lia).
  unfold zlen in *. lia.
Qed.

Lemma B_eqb a b : 0 <= a <= len -> 0 <= b <= len -> (B a =? B b) = (a =? b).
Proof.
  intros Ha Hb. destruct (a =? b) eqn:E.
  - assert (a = b) by lia. subst. lia.
  - destruct (B a =? B b) eqn:E2; [|reflexivity]. assert (B a = B b) by lia.
    pose proof (B_inj a b Ha Hb H). lia.
Qed.

Lemma B_ltb a b : 0 <= a <= len -> 0 <= b <= len -> (B a <? B b) = (a <? b).
Proof.
  intros Ha Hb. destruct (a <? b) eqn:E.
  - pose proof (B_strict a b ltac:(lia) ltac:(lia)). lia.
  - pose proof (B_mono b a ltac:(lia) ltac:(lia)). lia.
Qed.

Lemma B_succ_ascii k c : nthz s k = Some c -> c < 128 -> B (k + 1) = B k + 1.
Proof.
  intros N Hc. pose proof (nthz_lt _ _ _ N) as Hk.
  destruct (char_at k Hk) as (c' & N' & Hc0 & _ & _ & _ & E & _). rewrite N in N'. inversion N'. subst c'.
  rewrite E. unfold utf8_encode. replace (c <? 128) with true by lia. reflexivity.
Qed.

(* the loop index may be len + 1 (one past the end): it maps to one past the end of the bytes *)
Definition Bx (i : Z) : Z := if i <=? len then B i else zlen bs + (i - len).

Lemma Bx_in i : i <= len -> Bx i = B i.
Proof. intros. unfold Bx. replace (i <=? len) with true by lia. reflexivity. Qed.

Lemma Bx_succ k c : nthz s k = Some c -> c < 128 -> Bx (k + 1) = B k + 1.
Proof.
  intros N Hc. pose proof (nthz_lt _ _ _ N). rewrite Bx_in by lia. eapply B_succ_ascii; eassumption.
Qed.

Lemma Bx_end : Bx (len + 1) = B len + 1.
Proof. unfold Bx. replace (len + 1 <=? len) with false by lia. rewrite B_len. lia. Qed.

Lemma Bx_leb i : 0 <= i <= len + 1 -> (Bx i <=? zlen bs) = (i <=? len).
Proof.
  intros Hi. unfold Bx. destruct (i <=? len) eqn:E.
  - pose proof (B_mono i len ltac:(lia) ltac:(lia)). rewrite B_len in H. lia.
  - lia.
Qed.

(* text[k] on both sides *)
Lemma sim_get k : 0 <= k <= len ->
  match nthz s k with
  | Some c => exists h, nthz bs (B k) = Some h /\ forall x, 0 <= x < 128 -> (h =? x) = (c =? x)
  | None => nthz bs (B k) = None
  end.
Proof.
  intros Hk. destruct (nthz s k) as [c|] eqn:N.
  - pose proof (nthz_lt _ _ _ N) as Hl. destruct (byte_at k Hl) as (c' & h & N' & Nh & _).
    exists h. split; [exact Nh|]. intros x Hx. rewrite N in N'. inversion N'. subst c'.
    eapply byte_eq_ascii; eassumption.
  - assert (k = len). { destruct (Z.eq_dec k len); [assumption|]. destruct (nthz_ex s k ltac:(lia)) as (c & E). congruence. }
    subst k. rewrite B_len. apply nthz_none. lia.
Qed.

(* ---------- the backward scan for a space / a wide character ---------- *)
Lemma sim_scan_back idx n : forall fuel, 0 <= idx -> idx + Z.of_nat n <= len -> (n <= fuel)%nat ->
  scan_back_b wcw bs (B idx) fuel (B (idx + Z.of_nat n)) = map_scan B (scan_back cw s idx n).
Proof.
  induction n as [|n IH]; intros fuel Hi Hn Hf.
  - replace (idx + Z.of_nat 0) with idx by lia. destruct fuel; cbn [scan_back_b scan_back map_scan];
      replace (B idx <? B idx) with false by lia; reflexivity.
  - destruct fuel as [|k]; [lia|]. cbn [scan_back_b scan_back].
    rewrite (B_ltb idx (idx + Z.of_nat (S n))) by lia. replace (idx <? idx + Z.of_nat (S n)) with true by lia.
    rewrite (sim_prev idx (idx + Z.of_nat (S n))) by lia.
    replace (idx + Z.of_nat (S n) - 1) with (idx + Z.of_nat n) by lia.
    pose proof (sim_get (idx + Z.of_nat n) ltac:(lia)) as G.
    destruct (nthz s (idx + Z.of_nat n)) as [c|] eqn:N.
    + destruct G as (h & Nh & Hh). rewrite Nh. rewrite (Hh SP ltac:(unfold SP; lia)).
      destruct (c =? SP); [reflexivity|].
      rewrite (sim_is_wide _ _ N). destruct (cw c =? 2); [reflexivity|]. apply IH; lia.
    + rewrite G. reflexivity.
Qed.

(* ---------- one iteration of the any/space loop ---------- *)
Variable width : Z.
Hypothesis width_pos : 1 <= width.
Hypothesis Hsp : cw SP = 1.

Definition map_step (r : lres (list line * Z)) : lres (list line * Z) :=
  match r with LOk (sg, i) => LOk (map_layout B sg, Bx i) | LCant => LCant | LErr e => LErr e end.

Ltac fin_in := cbn [map_step map_layout map map_line map_seg]; rewrite Bx_in by lia; reflexivity.

Lemma sim_step_wrap wrap segs idx : wrap = WAny \/ wrap = WSpace ->
  (Lines cw s width wrap segs idx \/ Doomed cw s width idx) -> 0 <= idx <= len ->
  step_wrap_b wcw bs width wrap (map_layout B segs) (B idx) = map_step (step_wrap cw s width wrap segs idx).
Proof.
  intros wrap_ws HS Hidx. unfold step_wrap_b, step_wrap.
  rewrite sim_find_nl by lia.
  destruct (find_nl_spec s idx ltac:(lia)) as (A1 & A2 & A3). set (nl := find_nl s idx) in *.
  rewrite sim_calc_width by lia. rewrite (calc_width_ok cw s idx nl) by lia. cbn [lbind].
  assert (Hnl1 : Bx (nl + 1) = B nl + 1).
  { destruct A2 as [A2|A2]; [rewrite A2; apply Bx_end | apply (Bx_succ nl NL A2); unfold NL; lia]. }
  destruct (sumw cw (slice s idx nl) =? 0).
  { cbn [map_step map_layout map map_line map_seg]. rewrite Hnl1. reflexivity. }
  destruct (sumw cw (slice s idx nl) <=? width).
  { cbn [map_step map_layout map map_line map_seg]. rewrite Hnl1. reflexivity. }
  destruct (sim_ctp idx nl width ltac:(lia) ltac:(lia)) as (pos & sc & E1 & Hp & E2). rewrite E1, E2. cbn [lbind].
  rewrite B_eqb by lia.
  destruct (pos =? idx) eqn:Epi; [reflexivity|].
  assert (HL : Lines cw s width wrap segs idx).
  { destruct HS as [HL|HD]; [exact HL|]. exfalso. destruct HD as (W1 & c & N & C2 & CN).
    destruct (calc_text_pos_spec cw s idx nl width ltac:(lia) ltac:(lia) ltac:(lia)) as (p' & c' & E' & Hp' & Hc' & Hle' & _).
    rewrite E1 in E'. inversion E'; subst p' c'.
    pose proof (sumw_slice_cons cw s idx pos c ltac:(lia) N).
    pose proof (sumw_nonneg cw cw_rng (slice s (idx + 1) pos)). lia. }
  destruct wrap_ws as [Ew|Ew]; rewrite Ew in *.
  - fin_in.
  - unfold get. pose proof (sim_get pos ltac:(lia)) as G.
    destruct (nthz s pos) as [ch|] eqn:Nch; [|rewrite G; reflexivity].
    destruct G as (h & Nh & Hh). rewrite Nh. cbn [lbind]. rewrite (Hh SP ltac:(unfold SP; lia)).
    pose proof (nthz_lt _ _ _ Nch) as Hposlen.
    destruct (ch =? SP) eqn:Esp.
    { cbn [map_step map_layout map map_line map_seg].
      rewrite (Bx_succ pos ch Nch) by (unfold SP in *; lia). reflexivity. }
    rewrite (sim_is_wide pos ch Nch). cbn [lbind].
    destruct (cw ch =? 2); [fin_in|].
    pose proof (B_gap idx pos ltac:(lia) ltac:(lia)) as Hgap.
    assert (Escan : scan_back_b wcw bs (B idx) (Z.to_nat (B pos - B idx)) (B pos)
                    = map_scan B (scan_back cw s idx (Z.to_nat (pos - idx)))).
    { pose proof (sim_scan_back idx (Z.to_nat (pos - idx)) (Z.to_nat (B pos - B idx)) ltac:(lia) ltac:(lia) ltac:(lia)) as Q.
      replace (idx + Z.of_nat (Z.to_nat (pos - idx))) with pos in Q by lia. exact Q. }
    rewrite Escan.
    pose proof (scan_back_spec cw s idx (Z.to_nat (pos - idx)) ltac:(lia) ltac:(lia)) as Hscan.
    replace (idx + Z.of_nat (Z.to_nat (pos - idx))) with pos in Hscan by lia.
    destruct (scan_back cw s idx (Z.to_nat (pos - idx))) as [prev|prev| |]; cbn [map_scan]; [| | |reflexivity].
    + destruct Hscan as (Hp1 & Nsp & _).
      rewrite sim_calc_width by lia. rewrite (calc_width_ok cw s idx prev) by lia. cbn [lbind].
      destruct (sumw cw (slice s idx prev) =? 0); cbn [map_step map_layout map map_line map_seg];
        rewrite (Bx_succ prev SP Nsp) by (unfold SP; lia); reflexivity.
    + destruct Hscan as (Hp1 & (c & Nc & _ & Hcw) & _).
      rewrite (sim_next prev pos) by lia. cbn [lbind]. replace (pos <=? prev) with false by lia.
      rewrite sim_calc_width by lia. rewrite (calc_width_ok cw s idx (prev + 1)) by lia. cbn [lbind]. fin_in.
    + rewrite unwrap_candidate_map.
      destruct (unwrap_candidate segs) as [p_sc p_off h_sc h_off rest| |] eqn:EU; [|fin_in|reflexivity].
      destruct (unwrap_cand_inv cw s width width_pos WSpace _ _ _ _ _ _ _ HL EU)
        as (a & HLr & Ha & Hpo & Hho & Hz & Hhs & Hi & Hps & Hpsr & Hpre).
      destruct ((p_sc <? width) && (h_sc =? 0)); [|fin_in].
      pose proof (sim_get h_off ltac:(lia)) as G2.
      destruct (nthz s h_off) as [ch0|] eqn:Nch0; [|rewrite G2; reflexivity].
      destruct G2 as (h2 & Nh2 & Hh2). rewrite Nh2. cbn [lbind]. rewrite (Hh2 SP ltac:(unfold SP; lia)).
      destruct (ch0 =? SP); [|fin_in].
      destruct (sim_ctp p_off nl width ltac:(lia) ltac:(lia)) as (pos2 & sc2 & E3 & Hp2 & E4). rewrite E3, E4. cbn [lbind].
      rewrite <- B_len. rewrite B_ltb by lia.
      destruct (pos2 <? len) eqn:Epl; [|fin_in].
      pose proof (sim_get pos2 ltac:(lia)) as G3.
      destruct (nthz s pos2) as [c2|] eqn:Nc2; [|rewrite G3; reflexivity].
      destruct G3 as (h3 & Nh3 & Hh3). rewrite Nh3. cbn [lbind].
      rewrite (Hh3 SP ltac:(unfold SP; lia)), (Hh3 NL ltac:(unfold NL; lia)).
      destruct ((c2 =? SP) || (c2 =? NL)) eqn:Ec; [|fin_in].
      cbn [map_step map_layout map map_line map_seg].
      rewrite (Bx_succ pos2 c2 Nc2) by (unfold SP, NL in *; lia). reflexivity.
Qed.

(* ---------- the loop: with enough fuel on both sides the byte run is the image of the str run ---------- *)
Definition map_res (r : lres (list line)) : lres (list line) :=
  match r with LOk L => LOk (map_layout B L) | LCant => LCant | LErr e => LErr e end.

Lemma sim_wrap_loop wrap : wrap = WAny \/ wrap = WSpace -> forall fuel_b fuel_s segs idx,
  (Lines cw s width wrap segs idx \/ Doomed cw s width idx) -> 0 <= idx <= len + 1 ->
  mu s segs idx <= Z.of_nat fuel_b -> mu s segs idx <= Z.of_nat fuel_s ->
  wrap_loop_b wcw fuel_b bs width wrap (map_layout B segs) (Bx idx) = map_res (wrap_loop cw fuel_s s width wrap segs idx).
Proof.
  intros wrap_ws. induction fuel_b as [|kb IH]; intros fuel_s segs idx HS Hr Hb Hs'.
  - assert (idx = len + 1). { unfold mu in Hb. pose proof (flag_range segs). lia. }
    subst idx. cbn [wrap_loop_b]. rewrite Bx_leb by lia. replace (len + 1 <=? len) with false by lia.
    destruct fuel_s; cbn [wrap_loop]; replace (len + 1 <=? len) with false by lia;
      cbn [map_res]; rewrite map_layout_rev; reflexivity.
  - cbn [wrap_loop_b]. rewrite Bx_leb by lia.
    destruct (idx <=? len) eqn:E.
    + destruct fuel_s as [|ks]; [unfold mu in Hs'; pose proof (flag_range segs); lia|].
      cbn [wrap_loop]. rewrite E. rewrite Bx_in by lia.
      rewrite (sim_step_wrap wrap segs idx wrap_ws HS ltac:(lia)).
      destruct HS as [HL|HD].
      * destruct (step_wrap_good cw cw_rng Hsp s width width_pos wrap wrap_ws segs idx HL ltac:(lia))
          as [(-> & _) | (segs' & idx' & -> & HS' & Hmu')]; [reflexivity|].
        cbn [map_step lbind].
        assert (Hr' : 0 <= idx' <= len + 1).
        { destruct HS' as [HL' | (_ & c & N & _)]; [apply (Lines_range _ _ _ _ _ _ HL')|]. apply nthz_lt in N. lia. }
        apply IH; try assumption; lia.
      * rewrite (step_wrap_doomed cw cw_rng s width width_pos wrap segs idx HD ltac:(lia)). reflexivity.
    + destruct fuel_s; cbn [wrap_loop]; rewrite E; cbn [map_res]; rewrite map_layout_rev; reflexivity.
Qed.

(* ---------- clip / ellipsis ---------- *)
Lemma to_lres_ok {A} (r : result A) v : to_lres r = LOk v -> r = Ok v.
Proof. destruct r; cbn; intros H; inversion H; reflexivity. Qed.

Variable ell : list Z.                       (* the (already shortened) ellipsis string *)
Hypothesis Hell : str_width_b wcw ell = sumw cw ell.

Definition map_tstep (r : lres (line * Z)) : lres (line * Z) :=
  match r with LOk (ln, i) => LOk (map_line B ln, Bx i) | LCant => LCant | LErr e => LErr e end.

Lemma sim_step_trim wrap idx : 0 <= idx <= len ->
  step_trim_b wcw bs width wrap ell (B idx) = map_tstep (step_trim cw s width wrap ell idx).
Proof.
  intros Hidx. unfold step_trim_b, step_trim. rewrite Hell.
  rewrite sim_find_nl by lia.
  destruct (find_nl_spec s idx ltac:(lia)) as (A1 & A2 & A3). set (nl := find_nl s idx) in *.
  rewrite sim_calc_width by lia. rewrite (calc_width_ok cw s idx nl) by lia. cbn [lbind].
  assert (Hnl1 : Bx (nl + 1) = B nl + 1).
  { destruct A2 as [A2|A2]; [rewrite A2; apply Bx_end | apply (Bx_succ nl NL A2); unfold NL; lia]. }
  destruct ((match wrap with WEllipsis => true | _ => false end) && (width <? sumw cw (slice s idx nl))
            && negb (sumw cw ell =? 0)).
  - unfold calc_trim_text_b, u8_calc_trim_text, calc_trim_text.
    replace (0 <? 0) with false by reflexivity. cbn [lbind].
    destruct (sim_ctp idx nl (width - sumw cw ell - 0 - 0) ltac:(lia) ltac:(lia)) as (p & c & E1 & Hp & E2).
    rewrite E1. unfold calc_text_pos_b in E2. apply to_lres_ok in E2. rewrite E2. cbn [to_lres lbind].
    destruct (c <? width - sumw cw ell - 0 - 0); cbn [to_lres lbind];
      replace (negb (0 =? 0)) with false by reflexivity; rewrite B_eqb by lia;
      replace (idx =? idx) with true by lia; cbn [negb lbind];
      match goal with |- context [if ?b then [] else _] => destruct b end;
      cbn [map_tstep map_line map map_seg app]; rewrite Hnl1; reflexivity.
  - cbn [lbind]. destruct (sumw cw (slice s idx nl) =? 0);
      cbn [map_tstep map_line map map_seg app]; rewrite Hnl1; reflexivity.
Qed.

Lemma sim_trim_loop wrap : wrap = WClip \/ wrap = WEllipsis -> forall ell0, ell = trim_ell cw width ell0 ->
  forall fuel_b fuel_s segs idx, 0 <= idx <= len + 1 ->
  len + 1 - idx <= Z.of_nat fuel_b -> len + 1 - idx <= Z.of_nat fuel_s ->
  trim_loop_b wcw fuel_b bs width wrap ell (map_layout B segs) (Bx idx)
  = map_res (trim_loop cw fuel_s s width wrap ell segs idx).
Proof.
  intros Hwr ell0 Eell. induction fuel_b as [|kb IH]; intros fuel_s segs idx Hr Hb Hs'.
  - assert (idx = len + 1) by lia. subst idx. cbn [trim_loop_b]. rewrite Bx_leb by lia.
    replace (len + 1 <=? len) with false by lia.
    destruct fuel_s; cbn [trim_loop]; replace (len + 1 <=? len) with false by lia;
      cbn [map_res]; rewrite map_layout_rev; reflexivity.
  - cbn [trim_loop_b]. rewrite Bx_leb by lia.
    destruct (idx <=? len) eqn:E.
    + destruct fuel_s as [|ks]; [lia|]. cbn [trim_loop]. rewrite E. rewrite Bx_in by lia.
      rewrite (sim_step_trim wrap idx ltac:(lia)).
      destruct (step_trim_good cw cw_rng s width width_pos wrap Hwr ell0 idx ltac:(lia)) as (ln & idx' & Est & _ & Ei).
      rewrite <- Eell in Est. rewrite Est. cbn [map_tstep lbind].
      destruct (find_nl_spec s idx ltac:(lia)) as (A1 & _).
      change (map_line B ln :: map_layout B segs) with (map_layout B (ln :: segs)).
      apply IH; lia.
    + destruct fuel_s; cbn [trim_loop]; rewrite E; cbn [map_res]; rewrite map_layout_rev; reflexivity.
Qed.

End Sim.

(* ---------- the ellipsis string ---------- *)
Lemma sim_str_width wcw e : (forall c, wcw c <= 2) -> Forall (fun c => scalar c = true) e ->
  str_width_b wcw e = sumw (u8_cw wcw) e.
Proof.
  intros Hw He. unfold str_width_b. pose proof (zlen_nonneg e).
  pose proof (sim_calc_width wcw e He 0 (zlen e) ltac:(lia) ltac:(lia)) as Q.
  rewrite Utf8Proofs.boff_full in Q. change (boff e 0) with 0 in Q.
  unfold calc_width_b in Q. apply to_lres_ok in Q. rewrite Q.
  unfold slice, takez, dropz, zlen. replace (Z.to_nat 0) with O by lia. cbn [skipn].
  rewrite firstn_all2 by lia. reflexivity.
Qed.

Lemma sim_trim_ell_rev wcw width r : (forall c, wcw c <= 2) -> Forall (fun c => scalar c = true) r ->
  trim_ell_rev_b wcw width r = trim_ell_rev (u8_cw wcw) width r /\
  Forall (fun c => scalar c = true) (trim_ell_rev (u8_cw wcw) width r).
Proof.
  intros Hw. induction r as [|c r IH]; intros Hr; cbn [trim_ell_rev_b trim_ell_rev]; [split; [reflexivity | constructor]|].
  rewrite sim_str_width by (assumption || (apply Forall_rev; assumption)).
  rewrite sumw_rev by (intros x; apply (cw_rng wcw Hw)).
  inversion Hr; subst.
  destruct (width - 1 <? sumw (u8_cw wcw) (c :: r)); [apply IH; assumption | split; [reflexivity | assumption]].
Qed.

Lemma sim_trim_ell wcw width e : (forall c, wcw c <= 2) -> Forall (fun c => scalar c = true) e ->
  trim_ell_b wcw width e = trim_ell (u8_cw wcw) width e /\
  Forall (fun c => scalar c = true) (trim_ell (u8_cw wcw) width e).
Proof.
  intros Hw He. unfold trim_ell_b, trim_ell.
  destruct (sim_trim_ell_rev wcw width (rev e) Hw (Forall_rev He)) as (E & F).
  rewrite E. split; [reflexivity | apply Forall_rev; assumption].
Qed.

(* ---------- StandardTextLayout.layout on utf-8 bytes = the image of the str layout ---------- *)
Definition map_result (f : Z -> Z) (r : result (list line)) : result (list line) :=
  match r with Ok L => Ok (map_layout f L) | Err e => Err e end.

Theorem layout_bytes_is_image wcw s width align wrap ell :
  (forall c, wcw c <= 2) -> u8_cw wcw SP = 1 ->
  Forall (fun c => scalar c = true) s -> Forall (fun c => scalar c = true) ell -> 1 <= width ->
  layout_b wcw (encs s) width align wrap ell = map_result (boff s) (layout (u8_cw wcw) s width align wrap ell).
Proof.
  intros Hw Hsp Hs He Hwd. pose proof (zlen_nonneg s) as Hl.
  pose proof (B_gap wcw Hw s 0 (zlen s) ltac:(lia) ltac:(lia)) as Hg.
  rewrite Utf8Proofs.boff_full in Hg. change (boff s 0) with 0 in Hg.
  assert (Hx0 : Bx s 0 = 0) by (unfold Bx; replace (0 <=? zlen s) with true by lia; reflexivity).
  unfold layout_b, layout, calculate_text_segments_b, calculate_text_segments.
  assert (Hwrap : forall wr, wr = WAny \/ wr = WSpace ->
            wrap_loop_b wcw (Z.to_nat (2 * zlen (encs s) + 3)) (encs s) width wr [] 0
            = map_res s (wrap_loop (u8_cw wcw) (Z.to_nat (2 * zlen s + 3)) s width wr [] 0)).
  { intros wr Hwr.
    pose proof (sim_wrap_loop wcw Hw s Hs width Hwd Hsp wr Hwr (Z.to_nat (2 * zlen (encs s) + 3)) (Z.to_nat (2 * zlen s + 3)) [] 0) as Q.
    rewrite Hx0 in Q. apply Q.
    - left. constructor.
    - lia.
    - unfold mu, flag; cbn [unwrap_candidate]. lia.
    - unfold mu, flag; cbn [unwrap_candidate]. lia. }
  destruct (sim_trim_ell wcw width ell Hw He) as (Eell & Fell).
  assert (Htrim : forall wr, wr = WClip \/ wr = WEllipsis ->
            trim_loop_b wcw (Z.to_nat (zlen (encs s) + 2)) (encs s) width wr (trim_ell_b wcw width ell) [] 0
            = map_res s (trim_loop (u8_cw wcw) (Z.to_nat (zlen s + 2)) s width wr (trim_ell (u8_cw wcw) width ell) [] 0)).
  { intros wr Hwr. rewrite Eell.
    pose proof (sim_trim_loop wcw Hw s Hs width Hwd (trim_ell (u8_cw wcw) width ell)
                  (sim_str_width wcw _ Hw Fell) wr Hwr ell eq_refl
                  (Z.to_nat (zlen (encs s) + 2)) (Z.to_nat (zlen s + 2)) [] 0) as Q.
    rewrite Hx0 in Q. apply Q; lia. }
  assert (Hfin : forall r, match map_res s r with
                           | LOk segs => Ok (align_layout width align segs) | LCant => Ok [[]] | LErr e => Err e end
                         = map_result (boff s) match r with
                           | LOk segs => Ok (align_layout width align segs) | LCant => Ok [[]] | LErr e => Err e end).
  { intros [L| |e]; cbn [map_res map_result]; [rewrite align_layout_map|..]; reflexivity. }
  destruct wrap.
  - rewrite Hwrap by (left; reflexivity). apply Hfin.
  - rewrite Hwrap by (right; reflexivity). apply Hfin.
  - rewrite Htrim by (left; reflexivity). apply Hfin.
  - rewrite Htrim by (right; reflexivity). apply Hfin.
Qed.
