(* C11 - UTF-8: the translated decode_one arithmetic inverts the encoder (symbolic proof, every code
   point), CPython's strict decoder accepts encoded text, and the byte loops of str_util agree with
   the str functions through the boundary map. *)
From Coq Require Import ZArith List Bool Lia ZifyBool.
Import ListNotations.
From Urwid Require Import PyBase PyList Utf8 wcwidth_table_gen str_util_gen Width WidthFacts WidthProofs.
Open Scope Z_scope.
Arguments Z.add : simpl never.
Arguments Z.sub : simpl never.
Arguments Z.mul : simpl never.
Arguments Z.div : simpl never.
Arguments Z.modulo : simpl never.
Arguments Z.ltb : simpl never.
Arguments Z.leb : simpl never.
Arguments Z.eqb : simpl never.
Arguments Z.land : simpl never.
Arguments Z.lor : simpl never.
Arguments Z.shiftl : simpl never.
Arguments Z.of_nat : simpl never.
Arguments Z.to_nat : simpl never.

(* ---------- facts about all 256 bytes, by computation over the whole domain ---------- *)
Fixpoint all_from (n : nat) (b : Z) (f : Z -> bool) : bool :=
  match n with O => true | S k => f b && all_from k (b + 1) f end.

Lemma all_from_spec n : forall b f, all_from n b f = true -> forall x, b <= x < b + Z.of_nat n -> f x = true.
Proof.
  induction n as [|n IH]; intros b f H x Hx; [lia|].
  cbn [all_from] in H. apply andb_prop in H. destruct H as [H0 H1].
  destruct (Z.eq_dec x b) as [->|]; [exact H0|].
  apply (IH (b + 1) f H1). lia.
Qed.

Lemma bytes_all f : all_from 256 0 f = true -> forall x, 0 <= x < 256 -> f x = true.
Proof. intros H x Hx. apply (all_from_spec 256 0 f H). lia. Qed.

Definition mask_facts (b : Z) : bool :=
  Bool.eqb (Z.land b 128 =? 0) (b <? 128) &&
  Bool.eqb (Z.land b 192 =? 128) ((128 <=? b) && (b <? 192)) &&
  Bool.eqb (Z.land b 224 =? 192) ((192 <=? b) && (b <? 224)) &&
  Bool.eqb (Z.land b 240 =? 224) ((224 <=? b) && (b <? 240)) &&
  Bool.eqb (Z.land b 248 =? 240) ((240 <=? b) && (b <? 248)) &&
  (Z.land b 63 =? b mod 64) && (Z.land b 31 =? b mod 32) && (Z.land b 15 =? b mod 16) && (Z.land b 7 =? b mod 8).

Lemma mask_facts_all : forall b, 0 <= b < 256 -> mask_facts b = true.
Proof. apply bytes_all. vm_compute. reflexivity. Qed.

Lemma masks b : 0 <= b < 256 ->
  (Z.land b 128 =? 0) = (b <? 128) /\
  (Z.land b 192 =? 128) = ((128 <=? b) && (b <? 192)) /\
  (Z.land b 224 =? 192) = ((192 <=? b) && (b <? 224)) /\
  (Z.land b 240 =? 224) = ((224 <=? b) && (b <? 240)) /\
  (Z.land b 248 =? 240) = ((240 <=? b) && (b <? 248)) /\
  Z.land b 63 = b mod 64 /\ Z.land b 31 = b mod 32 /\ Z.land b 15 = b mod 16 /\ Z.land b 7 = b mod 8.
Proof.
  intros H. pose proof (mask_facts_all b H) as M. unfold mask_facts in M.
  repeat (apply andb_prop in M; destruct M as [M ?]).
  repeat match goal with H : Bool.eqb _ _ = true |- _ => apply Bool.eqb_prop in H end.
  repeat match goal with H : (_ =? _) = true |- _ => apply Z.eqb_eq in H end.
  repeat split; assumption.
Qed.

(* (u << n) | v = u * 2^n + v when v < 2^n *)
Lemma land_shiftl_small u v n : 0 <= n -> 0 <= v < 2 ^ n -> Z.land (Z.shiftl u n) v = 0.
Proof.
  intros Hn Hv. apply Z.bits_inj'. intros m Hm. rewrite Z.land_spec, Z.bits_0.
  destruct (Z_lt_le_dec m n) as [Hlt|Hge].
  - rewrite Z.shiftl_spec_low by lia. reflexivity.
  - destruct (Z.eq_dec v 0) as [->|Hv0].
    + rewrite Z.bits_0. apply andb_false_r.
    + rewrite (Z.bits_above_log2 v m); [apply andb_false_r|lia|].
      apply Z.lt_le_trans with n; [|lia]. apply Z.log2_lt_pow2; lia.
Qed.
Lemma lor_shiftl_add u v n : 0 <= n -> 0 <= v < 2 ^ n -> Z.lor (Z.shiftl u n) v = u * 2 ^ n + v.
Proof.
  intros Hn Hv. rewrite <- Z.shiftl_mul_pow2 by lia.
  pose proof (land_shiftl_small u v n Hn Hv) as L.
  rewrite <- Z.lxor_lor by exact L. symmetry. apply Z.add_nocarry_lxor. exact L.
Qed.

(* ---------- the translated arithmetic of decode_one inverts utf8_encode ---------- *)
Ltac mask_rw b :=
  let M := fresh "M" in
  pose proof (masks b ltac:(lia)) as M;
  destruct M as (?M1 & ?M2 & ?M3 & ?M4 & ?M5 & ?M6 & ?M7 & ?M8 & ?M9).

Lemma arith_1 c b2 b3 b4 lt pos : 0 <= c < 128 ->
  decode_one_arith_gen c b2 b3 b4 lt pos = (c, pos + 1).
Proof.
  intros H. unfold decode_one_arith_gen.
  destruct (masks c ltac:(lia)) as (M1 & _). rewrite M1.
  destruct (c <? 128) eqn:E; [reflexivity|lia].
Qed.

Lemma arith_2 c b3 b4 lt pos : 128 <= c < 2048 -> 2 <= lt ->
  decode_one_arith_gen (192 + c / 64) (128 + c mod 64) b3 b4 lt pos = (c, pos + 2).
Proof.
  intros H Hlt. unfold decode_one_arith_gen.
  pose proof (Z.div_mod c 64 ltac:(lia)) as D. pose proof (Z.mod_pos_bound c 64 ltac:(lia)) as R.
  assert (Q : 2 <= c / 64 < 32) by (split; [apply Z.div_le_lower_bound|apply Z.div_lt_upper_bound]; lia).
  set (q := c / 64) in *. set (r := c mod 64) in *.
  destruct (masks (192 + q) ltac:(lia)) as (A1 & _ & A3 & _ & _ & _ & A7 & _).
  destruct (masks (128 + r) ltac:(lia)) as (_ & B2 & _ & _ & _ & B6 & _).
  rewrite A1, A3, B2, A7, B6.
  replace ((192 + q) mod 32) with q by (apply (Z.mod_unique _ _ 6); lia).
  replace ((128 + r) mod 64) with r by (apply (Z.mod_unique _ _ 2); lia).
  rewrite (lor_shiftl_add q r 6) by lia. change (2 ^ 6) with 64.
  destruct (192 + q <? 128) eqn:E1; [lia|]. cbn [negb].
  destruct (lt <? 2) eqn:E2; [lia|].
  destruct ((192 <=? 192 + q) && (192 + q <? 224)) eqn:E3; [|lia].
  destruct ((128 <=? 128 + r) && (128 + r <? 192)) eqn:E4; [|lia]. cbn [negb].
  destruct (128 <=? q * 64 + r) eqn:E5; [|lia].
  f_equal. lia.
Qed.

Lemma arith_3 c b4 lt pos : 2048 <= c < 65536 -> 3 <= lt ->
  decode_one_arith_gen (224 + c / 4096) (128 + (c / 64) mod 64) (128 + c mod 64) b4 lt pos = (c, pos + 3).
Proof.
  intros H Hlt. unfold decode_one_arith_gen.
  pose proof (Z.div_mod c 64 ltac:(lia)) as D. pose proof (Z.mod_pos_bound c 64 ltac:(lia)) as R.
  pose proof (Z.div_mod (c / 64) 64 ltac:(lia)) as D2. pose proof (Z.mod_pos_bound (c / 64) 64 ltac:(lia)) as R2.
  replace (c / 4096) with (c / 64 / 64) by (rewrite Z.div_div by lia; reflexivity).
  assert (Q : 32 <= c / 64 < 1024) by (split; [apply Z.div_le_lower_bound|apply Z.div_lt_upper_bound]; lia).
  set (d := c / 64) in *. set (r := c mod 64) in *.
  assert (Q1 : 0 <= d / 64 < 16) by (split; [apply Z.div_le_lower_bound|apply Z.div_lt_upper_bound]; lia).
  set (q1 := d / 64) in *. set (q2 := d mod 64) in *.
  destruct (masks (224 + q1) ltac:(lia)) as (A1 & _ & A3 & A4 & _ & _ & _ & A8 & _).
  destruct (masks (128 + q2) ltac:(lia)) as (_ & B2 & _ & _ & _ & B6 & _).
  destruct (masks (128 + r) ltac:(lia)) as (_ & C2 & _ & _ & _ & C6 & _).
  rewrite A1, A3, A4, B2, C2, A8, B6, C6.
  replace ((224 + q1) mod 16) with q1 by (apply (Z.mod_unique _ _ 14); lia).
  replace ((128 + q2) mod 64) with q2 by (apply (Z.mod_unique _ _ 2); lia).
  replace ((128 + r) mod 64) with r by (apply (Z.mod_unique _ _ 2); lia).
  replace (Z.shiftl q1 12) with (Z.shiftl (Z.shiftl q1 6) 6) by (rewrite !Z.shiftl_shiftl by lia; reflexivity).
  rewrite <- !Z.shiftl_lor.
  rewrite (lor_shiftl_add q1 q2 6) by lia.
  rewrite (lor_shiftl_add (q1 * 2 ^ 6 + q2) r 6) by lia. change (2 ^ 6) with 64.
  destruct (224 + q1 <? 128) eqn:E1; [lia|]. cbn [negb].
  destruct (lt <? 2) eqn:E2; [lia|].
  destruct ((192 <=? 224 + q1) && (224 + q1 <? 224)) eqn:E3; [lia|].
  destruct (lt <? 3) eqn:E4; [lia|].
  destruct ((224 <=? 224 + q1) && (224 + q1 <? 240)) eqn:E5; [|lia].
  destruct ((128 <=? 128 + q2) && (128 + q2 <? 192)) eqn:E6; [|lia]. cbn [negb].
  destruct ((128 <=? 128 + r) && (128 + r <? 192)) eqn:E7; [|lia]. cbn [negb].
  destruct (2048 <=? (q1 * 64 + q2) * 64 + r) eqn:E8; [|lia].
  f_equal. lia.
Qed.

Lemma arith_4 c lt pos : 65536 <= c < 1114112 -> 4 <= lt ->
  decode_one_arith_gen (240 + c / 262144) (128 + (c / 4096) mod 64) (128 + (c / 64) mod 64) (128 + c mod 64) lt pos
  = (c, pos + 4).
Proof.
  intros H Hlt. unfold decode_one_arith_gen.
  pose proof (Z.div_mod c 64 ltac:(lia)) as D. pose proof (Z.mod_pos_bound c 64 ltac:(lia)) as R.
  pose proof (Z.div_mod (c / 64) 64 ltac:(lia)) as D2. pose proof (Z.mod_pos_bound (c / 64) 64 ltac:(lia)) as R2.
  pose proof (Z.div_mod (c / 64 / 64) 64 ltac:(lia)) as D3.
  pose proof (Z.mod_pos_bound (c / 64 / 64) 64 ltac:(lia)) as R3.
  replace (c / 4096) with (c / 64 / 64) by (rewrite Z.div_div by lia; reflexivity).
  replace (c / 262144) with (c / 64 / 64 / 64) by (rewrite !Z.div_div by lia; reflexivity).
  assert (Q : 1024 <= c / 64 < 17408) by (split; [apply Z.div_le_lower_bound|apply Z.div_lt_upper_bound]; lia).
  set (d := c / 64) in *. set (r := c mod 64) in *.
  assert (Q1 : 16 <= d / 64 < 272) by (split; [apply Z.div_le_lower_bound|apply Z.div_lt_upper_bound]; lia).
  set (e := d / 64) in *. set (q3 := d mod 64) in *.
  assert (Q2 : 0 <= e / 64 < 5) by (split; [apply Z.div_le_lower_bound|apply Z.div_lt_upper_bound]; lia).
  set (q1 := e / 64) in *. set (q2 := e mod 64) in *.
  destruct (masks (240 + q1) ltac:(lia)) as (A1 & _ & A3 & A4 & A5 & _ & _ & _ & A9).
  destruct (masks (128 + q2) ltac:(lia)) as (_ & B2 & _ & _ & _ & B6 & _).
  destruct (masks (128 + q3) ltac:(lia)) as (_ & C2 & _ & _ & _ & C6 & _).
  destruct (masks (128 + r) ltac:(lia)) as (_ & E2 & _ & _ & _ & E6 & _).
  rewrite A1, A3, A4, A5, B2, C2, E2, A9, B6, C6, E6.
  replace ((240 + q1) mod 8) with q1 by (apply (Z.mod_unique _ _ 30); lia).
  replace ((128 + q2) mod 64) with q2 by (apply (Z.mod_unique _ _ 2); lia).
  replace ((128 + q3) mod 64) with q3 by (apply (Z.mod_unique _ _ 2); lia).
  replace ((128 + r) mod 64) with r by (apply (Z.mod_unique _ _ 2); lia).
  (* (q1<<18 | q2<<12 | q3<<6 | r) = (((q1<<6 | q2)<<6 | q3)<<6 | r) *)
  replace (Z.shiftl q1 18) with (Z.shiftl (Z.shiftl (Z.shiftl q1 6) 6) 6)
    by (rewrite !Z.shiftl_shiftl by lia; reflexivity).
  replace (Z.shiftl q2 12) with (Z.shiftl (Z.shiftl q2 6) 6) by (rewrite !Z.shiftl_shiftl by lia; reflexivity).
  rewrite <- !Z.shiftl_lor.
  rewrite (lor_shiftl_add q1 q2 6) by lia.
  rewrite (lor_shiftl_add (q1 * 2 ^ 6 + q2) q3 6) by lia.
  rewrite (lor_shiftl_add ((q1 * 2 ^ 6 + q2) * 2 ^ 6 + q3) r 6) by lia. change (2 ^ 6) with 64.
  destruct (240 + q1 <? 128) eqn:F1; [lia|]. cbn [negb].
  destruct (lt <? 2) eqn:F2; [lia|].
  destruct ((192 <=? 240 + q1) && (240 + q1 <? 224)) eqn:F3; [lia|].
  destruct (lt <? 3) eqn:F4; [lia|].
  destruct ((224 <=? 240 + q1) && (240 + q1 <? 240)) eqn:F5; [lia|].
  destruct (lt <? 4) eqn:F6; [lia|].
  destruct ((240 <=? 240 + q1) && (240 + q1 <? 248)) eqn:F7; [|lia].
  destruct ((128 <=? 128 + q2) && (128 + q2 <? 192)) eqn:F8; [|lia]. cbn [negb].
  destruct ((128 <=? 128 + q3) && (128 + q3 <? 192)) eqn:F9; [|lia]. cbn [negb].
  destruct ((128 <=? 128 + r) && (128 + r <? 192)) eqn:F10; [|lia]. cbn [negb].
  destruct ((65536 <=? ((q1 * 64 + q2) * 64 + q3) * 64 + r) && (((q1 * 64 + q2) * 64 + q3) * 64 + r <=? 1114111)) eqn:F11; [|lia].
  f_equal. lia.
Qed.

(* ---------- decode_one on a text ---------- *)
Lemma get_index_app_nth (pre rest : list Z) k :
  0 <= k < zlen rest -> get_index (pre ++ rest) (zlen pre + k) = Ok (nth (Z.to_nat k) rest 0).
Proof.
  intros Hk. unfold get_index, norm_index, nthz. pose proof (zlen_nonneg pre).
  destruct (zlen pre + k <? 0) eqn:E; [lia|]. rewrite ?E.
  rewrite nth_error_app2 by (unfold zlen in *; lia).
  replace (Z.to_nat (zlen pre + k) - length pre)%nat with (Z.to_nat k) by (unfold zlen; lia).
  rewrite (nth_error_nth' rest 0) by (unfold zlen in *; lia). reflexivity.
Qed.

Lemma decode_one_at pre rest :
  0 < zlen rest ->
  decode_one (pre ++ rest) (zlen pre) =
  Ok (decode_one_arith_gen (nth 0 rest 0)
        (if 1 <? zlen rest then nth 1 rest 0 else 0)
        (if 2 <? zlen rest then nth 2 rest 0 else 0)
        (if 3 <? zlen rest then nth 3 rest 0 else 0) (zlen rest) (zlen pre)).
Proof.
  intros Hne. unfold decode_one. rewrite zlen_app.
  replace (zlen pre + zlen rest - zlen pre) with (zlen rest) by lia.
  pose proof (get_index_app_nth pre rest 0 ltac:(lia)) as G0. rewrite Z.add_0_r in G0. rewrite G0.
  change (Z.to_nat 0) with 0%nat.
  destruct (1 <? zlen rest) eqn:E1.
  - rewrite (get_index_app_nth pre rest 1) by lia. change (Z.to_nat 1) with 1%nat.
    destruct (2 <? zlen rest) eqn:E2.
    + rewrite (get_index_app_nth pre rest 2) by lia. change (Z.to_nat 2) with 2%nat.
      destruct (3 <? zlen rest) eqn:E3.
      * rewrite (get_index_app_nth pre rest 3) by lia. reflexivity.
      * reflexivity.
    + destruct (3 <? zlen rest) eqn:E3; [lia|]. reflexivity.
  - destruct (2 <? zlen rest) eqn:E2; [lia|]. destruct (3 <? zlen rest) eqn:E3; [lia|]. reflexivity.
Qed.

Definition cp (c : Z) : Prop := 0 <= c < 1114112.

Lemma zlen_utf8_encode c : 1 <= zlen (utf8_encode c) <= 4.
Proof.
  unfold utf8_encode. destruct (c <? 128); [|destruct (c <? 2048); [|destruct (c <? 65536)]];
    unfold zlen; cbn [length]; lia.
Qed.

(* the round trip: decode_one at the start of an encoded character returns it and the next boundary *)
Theorem decode_one_enc pre c post : cp c ->
  decode_one (pre ++ utf8_encode c ++ post) (zlen pre) = Ok (c, zlen pre + zlen (utf8_encode c)).
Proof.
  intros Hc. unfold cp in Hc. pose proof (zlen_nonneg post) as Hp.
  rewrite decode_one_at by (rewrite zlen_app; pose proof (zlen_utf8_encode c); lia).
  unfold utf8_encode.
  destruct (c <? 128) eqn:E1; [|destruct (c <? 2048) eqn:E2; [|destruct (c <? 65536) eqn:E3]];
    cbn [app nth]; rewrite ?zlen_cons.
  - rewrite arith_1 by lia. reflexivity.
  - destruct (1 <? 1 + (1 + zlen post)) eqn:F1; [|lia].
    rewrite arith_2 by lia. reflexivity.
  - destruct (1 <? 1 + (1 + (1 + zlen post))) eqn:F1; [|lia].
    destruct (2 <? 1 + (1 + (1 + zlen post))) eqn:F2; [|lia].
    rewrite arith_3 by lia. reflexivity.
  - destruct (1 <? 1 + (1 + (1 + (1 + zlen post)))) eqn:F1; [|lia].
    destruct (2 <? 1 + (1 + (1 + (1 + zlen post)))) eqn:F2; [|lia].
    destruct (3 <? 1 + (1 + (1 + (1 + zlen post)))) eqn:F3; [|lia].
    rewrite arith_4 by lia. reflexivity.
Qed.

Lemma encs_cons c r : encs (c :: r) = utf8_encode c ++ encs r.
Proof. reflexivity. Qed.
Lemma encs_app a b : encs (a ++ b) = encs a ++ encs b.
Proof. apply flat_map_app. Qed.

Lemma length_le_encs s : (length s <= length (encs s))%nat.
Proof.
  induction s as [|c r IH]; [cbn; lia|]. rewrite encs_cons, app_length. cbn [length].
  pose proof (zlen_utf8_encode c). unfold zlen in *. lia.
Qed.

Section Bytes.
Variable wcw : Z -> Z.
Hypothesis Hw : forall c, wcw c <= 2.
Notation cw := (cw wcw).

Lemma get_width_cp c : cp c -> get_width wcw c = Ok (cw c).
Proof.
  intros H. unfold cp in H. unfold get_width.
  destruct ((0 <=? c) && (c <? 1114112)) eqn:E; [reflexivity|lia].
Qed.

(* ---------- calc_text_pos on UTF-8 bytes is the list scan of the characters ---------- *)
Lemma ctp_utf8_tpos mid : forall bpre bpost sc pref fuel e,
  Forall cp mid -> (length mid <= fuel)%nat ->
  e = zlen bpre + zlen (encs mid) ->
  ctp_utf8_loop wcw (bpre ++ encs mid ++ bpost) fuel (zlen bpre) sc e pref
  = Ok (zlen bpre + zlen (encs (takez (fst (tpos wcw mid pref sc)) mid)), snd (tpos wcw mid pref sc)).
Proof.
  induction mid as [|c r IH]; intros bpre bpost sc pref fuel e Hcp Hf He.
  - change (zlen (encs [])) with 0 in He. cbn [tpos fst snd]. rewrite takez_0. change (zlen (encs [])) with 0.
    destruct fuel; cbn [ctp_utf8_loop]; destruct (zlen bpre <? e) eqn:E; try lia;
      (f_equal; f_equal; lia).
  - inversion Hcp as [|c0 r0 Hc Hr Heq]. clear Hcp.
    destruct fuel as [|k]; [cbn in Hf; lia|]. cbn [ctp_utf8_loop].
    rewrite encs_cons in *. rewrite zlen_app in He. pose proof (zlen_utf8_encode c) as Hl.
    pose proof (zlen_nonneg (encs r)).
    destruct (zlen bpre <? e) eqn:E; [|lia].
    rewrite <- app_assoc. rewrite decode_one_enc by exact Hc. rewrite get_width_cp by exact Hc.
    cbn [tpos].
    destruct (pref <? cw c + sc) eqn:E2.
    + cbn [fst snd]. rewrite takez_0. change (zlen (encs [])) with 0. f_equal. f_equal. lia.
    + specialize (IH (bpre ++ utf8_encode c) bpost (sc + cw c) pref k e Hr ltac:(cbn in Hf; lia)).
      rewrite zlen_app in IH. rewrite <- app_assoc in IH. rewrite IH by lia.
      pose proof (tpos_spec wcw r pref (sc + cw c)) as S.
      destruct (tpos wcw r pref (sc + cw c)) as [k' c']. cbn [fst snd]. destruct S as (Hk & _).
      rewrite takez_succ by lia. rewrite encs_cons, zlen_app. f_equal. f_equal. lia.
Qed.

Lemma boff_split s a b : 0 <= a <= b -> b <= zlen s ->
  encs s = encs (takez a s) ++ encs (takez (b - a) (dropz a s)) ++ encs (dropz b s) /\
  boff s b = boff s a + zlen (encs (takez (b - a) (dropz a s))).
Proof.
  intros H1 H2. split.
  - rewrite <- !encs_app. f_equal. apply takez_dropz_split; lia.
  - unfold boff. rewrite <- zlen_app, <- encs_app. f_equal. f_equal.
    pose proof (slice_split s 0 a b ltac:(lia) ltac:(lia) H2) as S.
    replace (a - 0) with a in S by lia. replace (b - 0) with b in S by lia.
    exact S.
Qed.

Lemma boff_mono s a b : 0 <= a <= b -> b <= zlen s -> boff s a <= boff s b.
Proof.
  intros H1 H2. destruct (boff_split s a b H1 H2) as [_ E]. rewrite E.
  pose proof (zlen_nonneg (encs (takez (b - a) (dropz a s)))). lia.
Qed.

Lemma Forall_takez {A} (P : A -> Prop) l n : Forall P l -> Forall P (takez n l).
Proof.
  intros H. apply Forall_forall. intros x Hx. rewrite Forall_forall in H. apply H.
  unfold takez in Hx. rewrite <- (firstn_skipn (Z.to_nat n) l). apply in_or_app. now left.
Qed.
Lemma Forall_dropz {A} (P : A -> Prop) l n : Forall P l -> Forall P (dropz n l).
Proof.
  intros H. apply Forall_forall. intros x Hx. rewrite Forall_forall in H. apply H.
  unfold dropz in Hx. rewrite <- (firstn_skipn (Z.to_nat n) l). apply in_or_app. now right.
Qed.

Theorem calc_text_pos_utf8_agrees s a b col :
  Forall cp s -> 0 <= a <= b -> b <= zlen s ->
  exists p c, calc_text_pos wcw MStr s a b col = Ok (p, c) /\ a <= p <= b /\
              calc_text_pos wcw MUtf8 (encs s) (boff s a) (boff s b) col = Ok (boff s p, c).
Proof.
  intros Hcp H1 H2. rewrite calc_text_pos_str_eq by lia.
  set (sl := takez (b - a) (dropz a s)).
  destruct (boff_split s a b H1 H2) as [Es Eb]. fold sl in Es, Eb.
  pose proof (tpos_spec wcw sl col 0) as S.
  assert (Hl : zlen sl = b - a) by (apply zlen_slice_in; lia).
  destruct (tpos wcw sl col 0) as [k c'] eqn:Et. destruct S as (Hk & _). cbn [fst snd].
  exists (a + k), c'. split; [reflexivity|]. split; [lia|].
  unfold calc_text_pos. pose proof (boff_mono s a b H1 H2).
  destruct (boff s b <? boff s a) eqn:E; [lia|].
  rewrite Es, Eb. change (boff s a) with (zlen (encs (takez a s))).
  rewrite (ctp_utf8_tpos sl (encs (takez a s)) (encs (dropz b s)) 0 col).
  - rewrite Et. cbn [fst snd]. f_equal. f_equal.
    destruct (boff_split s a (a + k) ltac:(lia) ltac:(lia)) as [_ Eb2].
    rewrite Eb2. unfold boff. f_equal. f_equal. f_equal.
    replace (a + k - a) with k by lia. unfold sl.
    replace k with ((a + k) - a) at 1 by lia. rewrite takez_takez_slice by lia. f_equal. lia.
  - unfold sl. apply Forall_takez, Forall_dropz. exact Hcp.
  - replace (zlen (encs (takez a s)) + zlen (encs sl) - zlen (encs (takez a s))) with (zlen (encs sl)) by lia.
    rewrite to_nat_zlen. apply length_le_encs.
  - reflexivity.
Qed.

End Bytes.

(* ---------- CPython's strict decoder accepts the encoding of scalar values ---------- *)
Ltac ifs := repeat match goal with
  | |- context [if ?b then _ else _] => let E := fresh "E" in destruct b eqn:E; try lia end.

Lemma scalar_cp c : scalar c = true -> cp c.
Proof. unfold scalar, cp. lia. Qed.

Lemma strict_decode_encs s : Forall (fun c => scalar c = true) s -> strict_decode (encs s) = Some s.
Proof.
  induction s as [|c r IH]; intros H; [reflexivity|].
  inversion H as [|c0 r0 Hc Hr Heq]. specialize (IH Hr).
  unfold scalar in Hc. rewrite encs_cons. unfold utf8_encode.
  pose proof (Z.div_mod c 64 ltac:(lia)) as D. pose proof (Z.mod_pos_bound c 64 ltac:(lia)) as R.
  pose proof (Z.div_mod (c / 64) 64 ltac:(lia)) as D2. pose proof (Z.mod_pos_bound (c / 64) 64 ltac:(lia)) as R2.
  pose proof (Z.div_mod (c / 64 / 64) 64 ltac:(lia)) as D3.
  pose proof (Z.mod_pos_bound (c / 64 / 64) 64 ltac:(lia)) as R3.
  replace (c / 4096) with (c / 64 / 64) by (rewrite Z.div_div by lia; reflexivity).
  replace (c / 262144) with (c / 64 / 64 / 64) by (rewrite !Z.div_div by lia; reflexivity).
  set (d := c / 64) in *. set (r0' := c mod 64) in *.
  set (e := d / 64) in *. set (q3 := d mod 64) in *.
  set (q1 := e / 64) in *. set (q2 := e mod 64) in *.
  destruct (c <? 128) eqn:E1; [|destruct (c <? 2048) eqn:E2; [|destruct (c <? 65536) eqn:E3]];
    cbn [app strict_decode]; rewrite IH; unfold is_cont.
  - ifs. reflexivity.
  - assert (e = 0) by lia. ifs. f_equal. f_equal. lia.
  - assert (q1 = 0) by lia.
    destruct (224 + e =? 224) eqn:G1; destruct (224 + e =? 237) eqn:G2; try lia; ifs; f_equal; f_equal; lia.
  - assert (0 <= q1 <= 4) by lia.
    destruct (240 + q1 =? 240) eqn:G1; destruct (240 + q1 =? 244) eqn:G2; try lia; ifs; f_equal; f_equal; lia.
Qed.

Section Bytes2.
Variable wcw : Z -> Z.

Lemma boff_full s : boff s (zlen s) = zlen (encs s).
Proof. unfold boff, takez. rewrite to_nat_zlen, firstn_all. reflexivity. Qed.

Lemma boff_nonneg s a : 0 <= boff s a.
Proof. unfold boff. apply zlen_nonneg. Qed.

Lemma slice_encs s a b : 0 <= a <= b -> b <= zlen s ->
  py_slice (encs s) (boff s a) (boff s b) = encs (takez (b - a) (dropz a s)).
Proof.
  intros H1 H2. destruct (boff_split s a b H1 H2) as [Es Eb].
  pose proof (boff_mono s a b H1 H2). pose proof (boff_mono s b (zlen s) ltac:(lia) ltac:(lia)) as M2.
  rewrite boff_full in M2. pose proof (boff_nonneg s a).
  rewrite py_slice_in by lia.
  rewrite Eb. replace (boff s a + zlen (encs (takez (b - a) (dropz a s))) - boff s a)
    with (zlen (encs (takez (b - a) (dropz a s)))) by lia.
  rewrite Es at 1. unfold boff. rewrite dropz_app_exact, takez_app_exact. reflexivity.
Qed.

Theorem calc_width_utf8_agrees s a b :
  Forall (fun c => scalar c = true) s -> 0 <= a <= b -> b <= zlen s ->
  calc_width wcw MUtf8 (encs s) (boff s a) (boff s b) = calc_width wcw MStr s a b.
Proof.
  intros Hs H1 H2. rewrite calc_width_str by lia. unfold calc_width.
  pose proof (boff_mono s a b H1 H2). destruct (boff s b <? boff s a) eqn:E; [lia|].
  rewrite slice_encs by lia. rewrite strict_decode_encs; [reflexivity|].
  apply Forall_takez, Forall_dropz. exact Hs.
Qed.

(* ---------- move_next_char / move_prev_char on UTF-8 bytes ---------- *)
Definition contb (b : Z) : Prop := (Z.land b 192 =? 128) = true.

Lemma enc_shape c : cp c ->
  exists h cs, utf8_encode c = h :: cs /\ (Z.land h 192 =? 128) = false /\ Forall contb cs.
Proof.
  intros Hc. unfold cp in Hc. unfold utf8_encode, contb.
  pose proof (Z.mod_pos_bound c 64 ltac:(lia)) as R.
  pose proof (Z.mod_pos_bound (c / 64) 64 ltac:(lia)) as R2.
  pose proof (Z.mod_pos_bound (c / 4096) 64 ltac:(lia)) as R3.
  destruct (c <? 128) eqn:E1; [|destruct (c <? 2048) eqn:E2; [|destruct (c <? 65536) eqn:E3]].
  - exists c, []. split; [reflexivity|]. split; [|constructor].
    destruct (masks c ltac:(lia)) as (_ & M2 & _). rewrite M2. lia.
  - assert (Q : 2 <= c / 64 < 32) by (split; [apply Z.div_le_lower_bound|apply Z.div_lt_upper_bound]; lia).
    exists (192 + c / 64), [128 + c mod 64]. split; [reflexivity|]. split.
    + destruct (masks (192 + c / 64) ltac:(lia)) as (_ & M2 & _). rewrite M2. lia.
    + repeat constructor. destruct (masks (128 + c mod 64) ltac:(lia)) as (_ & M2 & _). rewrite M2. lia.
  - assert (Q : 0 <= c / 4096 < 16) by (split; [apply Z.div_le_lower_bound|apply Z.div_lt_upper_bound]; lia).
    exists (224 + c / 4096), [128 + (c / 64) mod 64; 128 + c mod 64]. split; [reflexivity|]. split.
    + destruct (masks (224 + c / 4096) ltac:(lia)) as (_ & M2 & _). rewrite M2. lia.
    + repeat constructor.
      * destruct (masks (128 + (c / 64) mod 64) ltac:(lia)) as (_ & M2 & _). rewrite M2. lia.
      * destruct (masks (128 + c mod 64) ltac:(lia)) as (_ & M2 & _). rewrite M2. lia.
  - assert (Q : 0 <= c / 262144 < 5) by (split; [apply Z.div_le_lower_bound|apply Z.div_lt_upper_bound]; lia).
    exists (240 + c / 262144), [128 + (c / 4096) mod 64; 128 + (c / 64) mod 64; 128 + c mod 64].
    split; [reflexivity|]. split.
    + destruct (masks (240 + c / 262144) ltac:(lia)) as (_ & M2 & _). rewrite M2. lia.
    + repeat constructor.
      * destruct (masks (128 + (c / 4096) mod 64) ltac:(lia)) as (_ & M2 & _). rewrite M2. lia.
      * destruct (masks (128 + (c / 64) mod 64) ltac:(lia)) as (_ & M2 & _). rewrite M2. lia.
      * destruct (masks (128 + c mod 64) ltac:(lia)) as (_ & M2 & _). rewrite M2. lia.
Qed.

Lemma mnc_skip cs : forall bpre rest fuel e,
  Forall contb cs -> (length cs <= fuel)%nat -> zlen bpre + zlen cs <= e ->
  mnc_loop (bpre ++ cs ++ rest) fuel (zlen bpre) e
  = mnc_loop (bpre ++ cs ++ rest) (fuel - length cs) (zlen bpre + zlen cs) e.
Proof.
  induction cs as [|b cs IH]; intros bpre rest fuel e Hc Hf He.
  - change (zlen (@nil Z)) with 0. cbn [length]. rewrite Nat.sub_0_r, Z.add_0_r. reflexivity.
  - inversion Hc as [|b0 cs0 Hb Hcs Heq]. rewrite zlen_cons in He. pose proof (zlen_nonneg cs).
    destruct fuel as [|k]; [cbn in Hf; lia|]. cbn [mnc_loop].
    destruct (zlen bpre <? e) eqn:E; [|lia].
    cbn [app]. rewrite get_index_app_mid. unfold contb in Hb. rewrite Hb.
    specialize (IH (bpre ++ [b]) rest k e Hcs ltac:(cbn in Hf; lia)).
    rewrite zlen_app in IH. change (zlen [b]) with 1 in IH. rewrite <- app_assoc in IH. cbn [app] in IH.
    rewrite IH by lia. cbn [length]. rewrite zlen_cons.
    replace (S k - S (length cs))%nat with (k - length cs)%nat by lia.
    f_equal. lia.
Qed.

Lemma mnc_stop text fuel o e : e <= o -> mnc_loop text fuel o e = Ok o.
Proof. intros H. destruct fuel; cbn [mnc_loop]; destruct (o <? e) eqn:E; try lia; reflexivity. Qed.

Lemma mnc_stop_head bpre h rest fuel e :
  (Z.land h 192 =? 128) = false -> (1 <= fuel)%nat ->
  mnc_loop (bpre ++ h :: rest) fuel (zlen bpre) e = Ok (zlen bpre).
Proof.
  intros Hh Hf. destruct fuel as [|k]; [lia|]. cbn [mnc_loop].
  destruct (zlen bpre <? e) eqn:E; [|reflexivity].
  rewrite get_index_app_mid, Hh. reflexivity.
Qed.

Lemma split_at (s : list Z) a : 0 <= a < zlen s -> exists c, s = takez a s ++ c :: dropz (a + 1) s /\ nthz s a = Some c.
Proof.
  intros H. pose proof (takez_dropz_split s a (a + 1) ltac:(lia) ltac:(lia)) as S.
  replace (a + 1 - a) with 1 in S by lia.
  assert (L : zlen (takez 1 (dropz a s)) = 1) by (rewrite zlen_takez, zlen_dropz by lia; lia).
  destruct (takez 1 (dropz a s)) as [|c [|c2 t]] eqn:Et.
  - change (zlen (@nil Z)) with 0 in L. lia.
  - exists c. split; [exact S|]. rewrite S at 1.
    replace a with (zlen (takez a s)) at 3 by (apply zlen_takez_in; lia). apply nthz_app_mid.
  - rewrite !zlen_cons in L. pose proof (zlen_nonneg t). lia.
Qed.

Lemma boff_succ s a c : 0 <= a < zlen s -> nthz s a = Some c -> boff s (a + 1) = boff s a + zlen (utf8_encode c).
Proof.
  intros H Hn. destruct (boff_split s a (a + 1) ltac:(lia) ltac:(lia)) as [_ E]. rewrite E.
  replace (a + 1 - a) with 1 by lia. destruct (split_at s a H) as (c' & Es & Hn').
  rewrite Hn in Hn'. inversion Hn'. subst c'. f_equal.
  assert (takez 1 (dropz a s) = [c]).
  { rewrite Es at 1. replace a with (zlen (takez a s)) at 1 by (apply zlen_takez_in; lia).
    rewrite dropz_app_exact. reflexivity. }
  rewrite H0. cbn [encs flat_map]. now rewrite app_nil_r.
Qed.

Theorem move_next_char_utf8 s a b :
  Forall cp s -> 0 <= a < b -> b <= zlen s ->
  move_next_char MUtf8 (encs s) (boff s a) (boff s b) = Ok (boff s (a + 1)).
Proof.
  intros Hcp H1 H2. unfold move_next_char.
  destruct (split_at s a ltac:(lia)) as (c & Es & Hn).
  assert (Hc : cp c). { rewrite Forall_forall in Hcp. apply Hcp. rewrite Es. apply in_or_app. right. now left. }
  destruct (enc_shape c Hc) as (h & cs & Ee & Hh & Hcs).
  pose proof (boff_succ s a c ltac:(lia) Hn) as B1. rewrite Ee, zlen_cons in B1.
  pose proof (boff_mono s (a + 1) b ltac:(lia) ltac:(lia)) as M.
  pose proof (zlen_nonneg cs).
  destruct (boff s b <=? boff s a) eqn:E; [lia|].
  assert (Et : encs s = (encs (takez a s) ++ [h]) ++ cs ++ encs (dropz (a + 1) s)).
  { rewrite Es at 1. rewrite encs_app, encs_cons, Ee. rewrite <- !app_assoc. reflexivity. }
  rewrite Et.
  replace (boff s a + 1) with (zlen (encs (takez a s) ++ [h])) by (rewrite zlen_app; reflexivity).
  rewrite mnc_skip; [|exact Hcs|unfold zlen in *; lia|rewrite zlen_app; change (zlen [h]) with 1; unfold boff in *; lia].
  replace (zlen (encs (takez a s) ++ [h]) + zlen cs) with (boff s (a + 1))
    by (rewrite zlen_app; change (zlen [h]) with 1; unfold boff in *; lia).
  destruct (Z.eq_dec (boff s (a + 1)) (boff s b)) as [Eq|Ne].
  - apply mnc_stop. lia.
  - (* another character follows: its first byte is not a continuation byte *)
    assert (Hab : a + 1 < b).
    { destruct (Z.eq_dec (a + 1) b) as [Eab|]; [exfalso; apply Ne; now rewrite Eab|lia]. }
    destruct (split_at s (a + 1) ltac:(lia)) as (c2 & Es2 & Hn2).
    assert (Hc2 : cp c2). { rewrite Forall_forall in Hcp. apply Hcp. rewrite Es2. apply in_or_app. right. now left. }
    destruct (enc_shape c2 Hc2) as (h2 & cs2 & Ee2 & Hh2 & _).
    assert (Ed : dropz (a + 1) s = c2 :: dropz (a + 1 + 1) s).
    { rewrite Es2 at 1. replace (a + 1) with (zlen (takez (a + 1) s)) at 1 by (apply zlen_takez_in; lia).
      now rewrite dropz_app_exact. }
    rewrite Ed, encs_cons, Ee2. cbn [app].
    replace ((encs (takez a s) ++ [h]) ++ cs ++ h2 :: cs2 ++ encs (dropz (a + 1 + 1) s))
      with (((encs (takez a s) ++ [h]) ++ cs) ++ h2 :: cs2 ++ encs (dropz (a + 1 + 1) s))
      by (rewrite <- !app_assoc; reflexivity).
    replace (boff s (a + 1)) with (zlen ((encs (takez a s) ++ [h]) ++ cs))
      by (rewrite !zlen_app; change (zlen [h]) with 1; unfold boff in *; lia).
    apply mnc_stop_head; [exact Hh2|].
    pose proof (boff_succ s (a + 1) c2 ltac:(lia) Hn2) as B2. rewrite Ee2, zlen_cons in B2.
    pose proof (boff_mono s (a + 1 + 1) b ltac:(lia) ltac:(lia)).
    pose proof (zlen_nonneg cs2). unfold zlen in *. lia.
Qed.

Lemma mpc_back bpre h cs rest : forall (j : nat) fuel,
  (Z.land h 192 =? 128) = false -> Forall contb cs -> (j <= length cs)%nat -> (j < fuel)%nat ->
  mpc_loop (bpre ++ h :: cs ++ rest) fuel (zlen bpre + Z.of_nat j) = Ok (zlen bpre).
Proof.
  induction j as [|j IH]; intros fuel Hh Hcs Hj Hf; (destruct fuel as [|k]; [lia|]); cbn [mpc_loop].
  - change (Z.of_nat 0) with 0. rewrite Z.add_0_r. rewrite get_index_app_mid, Hh. reflexivity.
  - rewrite (get_index_app_nth bpre (h :: cs ++ rest) (Z.of_nat (S j)))
      by (rewrite zlen_cons, zlen_app; pose proof (zlen_nonneg rest); unfold zlen; lia).
    rewrite Nat2Z.id. cbn [nth]. rewrite app_nth1 by lia.
    assert (Hb : contb (nth j cs 0)).
    { rewrite Forall_forall in Hcs. apply Hcs. apply nth_In. lia. }
    unfold contb in Hb. rewrite Hb.
    replace (zlen bpre + Z.of_nat (S j) - 1) with (zlen bpre + Z.of_nat j) by lia.
    apply IH; try assumption; lia.
Qed.

Theorem move_prev_char_utf8 s a b :
  Forall cp s -> 0 <= a < b -> b <= zlen s ->
  move_prev_char MUtf8 (encs s) (boff s a) (boff s b) = Ok (boff s (b - 1)).
Proof.
  intros Hcp H1 H2. unfold move_prev_char.
  destruct (split_at s (b - 1) ltac:(lia)) as (c & Es & Hn).
  assert (Hc : cp c). { rewrite Forall_forall in Hcp. apply Hcp. rewrite Es. apply in_or_app. right. now left. }
  destruct (enc_shape c Hc) as (h & cs & Ee & Hh & Hcs).
  pose proof (boff_succ s (b - 1) c ltac:(lia) Hn) as B1. replace (b - 1 + 1) with b in B1 by lia.
  rewrite Ee, zlen_cons in B1.
  pose proof (boff_mono s a (b - 1) ltac:(lia) ltac:(lia)) as M. pose proof (zlen_nonneg cs).
  destruct (boff s b <=? boff s a) eqn:E; [lia|].
  assert (Et : encs s = encs (takez (b - 1) s) ++ h :: cs ++ encs (dropz (b - 1 + 1) s)).
  { rewrite Es at 1. rewrite encs_app, encs_cons, Ee. reflexivity. }
  rewrite Et at 1.
  replace (boff s b - 1) with (zlen (encs (takez (b - 1) s)) + Z.of_nat (length cs)) by (unfold boff, zlen in *; lia).
  rewrite mpc_back; try assumption; [reflexivity|lia|].
  pose proof (boff_nonneg s b). pose proof (boff_nonneg s (b - 1)). pose proof (zlen_nonneg (encs s)).
  pose proof (boff_mono s b (zlen s) ltac:(lia) ltac:(lia)) as M2. rewrite boff_full in M2.
  unfold zlen in *. lia.
Qed.

Theorem move_next_prev_inverse_utf8 s a b :
  Forall cp s -> 0 <= a < b -> b <= zlen s ->
  exists n, move_next_char MUtf8 (encs s) (boff s a) (boff s b) = Ok n /\
            n = boff s (a + 1) /\
            move_prev_char MUtf8 (encs s) (boff s a) n = Ok (boff s a).
Proof.
  intros Hcp H1 H2. exists (boff s (a + 1)). split; [apply move_next_char_utf8; assumption|]. split; [reflexivity|].
  rewrite (move_prev_char_utf8 s a (a + 1)) by (assumption || lia). f_equal. f_equal. lia.
Qed.

End Bytes2.

(* ---------- calc_trim_text on UTF-8 bytes agrees with the str result through the boundary map ---------- *)
Lemma trim_sim (T1 T2 : Type) (ctp1 : T1 -> Z -> Z -> Z -> result (Z * Z)) (ctp2 : T2 -> Z -> Z -> Z -> result (Z * Z))
      (t1 : T1) (t2 : T2) (f : Z -> Z) (a b : Z) :
  (forall x col, a <= x <= b -> exists p c, ctp1 t1 x b col = Ok (p, c) /\ a <= p <= b /\
                                          ctp2 t2 (f x) (f b) col = Ok (f p, c)) ->
  a <= b -> forall sc ec,
  exists sp ep pl pr, calc_trim_text_gen T1 ctp1 t1 a b sc ec = Ok (sp, ep, pl, pr) /\
                      calc_trim_text_gen T2 ctp2 t2 (f a) (f b) sc ec = Ok (f sp, f ep, pl, pr).
Proof.
  intros H Hab sc ec. unfold calc_trim_text_gen.
  destruct (0 <? sc) eqn:E0.
  - destruct (H a sc ltac:(lia)) as (p1 & c1 & E1 & R1 & E1').
    rewrite E1, E1'. destruct (c1 <? sc) eqn:E2.
    + destruct (H a (sc + 1) ltac:(lia)) as (p2 & c2 & E3 & R2 & E3'). rewrite E3, E3'.
      destruct (H p2 (ec - sc - 1) R2) as (p3 & c3 & E4 & R3 & E4'). rewrite E4, E4'.
      destruct (c3 <? ec - sc - 1); eexists _, _, _, _; split; reflexivity.
    + destruct (H p1 (ec - sc - 0) R1) as (p3 & c3 & E4 & R3 & E4'). rewrite E4, E4'.
      destruct (c3 <? ec - sc - 0); eexists _, _, _, _; split; reflexivity.
  - destruct (H a (ec - sc - 0) ltac:(lia)) as (p3 & c3 & E4 & R3 & E4'). rewrite E4, E4'.
    destruct (c3 <? ec - sc - 0); eexists _, _, _, _; split; reflexivity.
Qed.

Theorem calc_trim_text_utf8_agrees wcw s a b sc ec :
  Forall cp s -> 0 <= a <= b -> b <= zlen s ->
  exists sp ep pl pr,
    calc_trim_text wcw MStr s a b sc ec = Ok (sp, ep, pl, pr) /\
    calc_trim_text wcw MUtf8 (encs s) (boff s a) (boff s b) sc ec = Ok (boff s sp, boff s ep, pl, pr).
Proof.
  intros Hcp H1 H2. unfold calc_trim_text.
  apply (trim_sim (list Z) (list Z) (calc_text_pos wcw MStr) (calc_text_pos wcw MUtf8) s (encs s) (boff s) a b); [|lia].
  intros x col Hx.
  destruct (calc_text_pos_utf8_agrees wcw s x b col Hcp ltac:(lia) H2) as (p & c & E & R & E').
  exists p, c. split; [exact E|]. split; [lia|exact E'].
Qed.
