(* C08 - basic facts about the heap, the heap monad and node-local invariants of Model/Containers.v *)
From Coq Require Import ZArith List Bool Lia ZifyBool.
Import ListNotations.
From Urwid Require Import PyBase PyList c08_container_gen Containers.
From Urwid Require MonitoredList PyListFacts MonitoredListProofs.
Open Scope Z_scope.
Arguments Z.add : simpl never. Arguments Z.sub : simpl never. Arguments Z.mul : simpl never.
Arguments Z.div : simpl never. Arguments Z.modulo : simpl never. Arguments Z.ltb : simpl never.
Arguments Z.leb : simpl never. Arguments Z.eqb : simpl never. Arguments Z.min : simpl never. Arguments Z.max : simpl never.

(* ---------- the heap ---------- *)
Lemma nthz_bounds {A} (l : list A) i x : nthz l i = Some x -> 0 <= i < zlen l.
Proof.
  unfold nthz. destruct (i <? 0) eqn:E; [discriminate|]. intros H.
  assert (Hn : (Z.to_nat i < length l)%nat) by (apply nth_error_Some; congruence).
  unfold zlen. lia.
Qed.

Lemma nthz_app_mid {A} (a b : list A) x i : i = zlen a -> nthz (a ++ x :: b) i = Some x.
Proof.
  intros ->. unfold nthz. pose proof (zlen_nonneg a). destruct (zlen a <? 0) eqn:E; [lia|].
  unfold zlen. rewrite Nat2Z.id. rewrite nth_error_app2 by lia. now rewrite Nat.sub_diag.
Qed.

Lemma getn_setn_same h id n : 0 <= id < zlen h -> getn (setn h id n) id = Some n.
Proof.
  intros H. unfold getn, setn. assert (E : (0 <=? id) && (id <? zlen h) = true) by lia. rewrite E.
  apply nthz_app_mid. rewrite zlen_takez by lia. lia.
Qed.

Lemma getn_setn_other h id n id' : id' <> id -> getn (setn h id n) id' = getn h id'.
Proof.
  intros Hne. unfold getn, setn. destruct ((0 <=? id) && (id <? zlen h)) eqn:E; [|reflexivity].
  assert (Hr : 0 <= id < zlen h) by lia.
  destruct (Z_lt_dec id' id).
  - destruct (Z_lt_dec id' 0).
    + unfold nthz. assert (E2 : id' <? 0 = true) by lia. now rewrite E2.
    + rewrite PyListFacts.nthz_app_l by (rewrite zlen_takez; lia). apply PyListFacts.nthz_takez. lia.
  - assert (Hgt : id < id') by lia.
    rewrite PyListFacts.nthz_app_r by (rewrite zlen_takez; lia). rewrite zlen_takez by lia.
    replace (Z.min id (zlen h)) with id by lia.
    unfold nthz. assert (E1 : id' - id <? 0 = false) by lia. assert (E2 : id' <? 0 = false) by lia. rewrite E1, E2.
    replace (Z.to_nat (id' - id)) with (S (Z.to_nat (id' - id - 1))) by lia. cbn [nth_error].
    unfold dropz. rewrite PyListFacts.nth_error_skipn_add. f_equal. lia.
Qed.

Lemma getn_some_bounds h id n : getn h id = Some n -> 0 <= id < zlen h.
Proof. apply nthz_bounds. Qed.

Lemma zlen_setn h id n : zlen (setn h id n) = zlen h.
Proof.
  unfold setn. destruct ((0 <=? id) && (id <? zlen h)) eqn:E; [|reflexivity].
  rewrite zlen_app, zlen_cons, zlen_takez, zlen_dropz by lia. lia.
Qed.

Lemma getn_setn h id n id' :
  getn (setn h id n) id' = if (id' =? id) && (0 <=? id) && (id <? zlen h) then Some n else getn h id'.
Proof.
  destruct (Z.eq_dec id' id) as [->|Hne].
  - destruct ((0 <=? id) && (id <? zlen h)) eqn:E.
    + assert (Hr : 0 <= id < zlen h) by lia. rewrite getn_setn_same by exact Hr.
      assert (E2 : (id =? id) && (0 <=? id) && (id <? zlen h) = true) by lia. now rewrite E2.
    + unfold setn. rewrite E. assert (E2 : (id =? id) && (0 <=? id) && (id <? zlen h) = false) by lia. now rewrite E2.
  - rewrite getn_setn_other by exact Hne.
    assert (E2 : (id' =? id) && (0 <=? id) && (id <? zlen h) = false) by lia. now rewrite E2.
Qed.

(* ---------- the setters keep everything else ---------- *)
Lemma nk_set_c n c : nk (set_c n c) = nk n. Proof. reflexivity. Qed.
Lemma nk_set_pref n p : nk (set_pref n p) = nk n. Proof. reflexivity. Qed.
Lemma nk_set_selc n b : nk (set_selc n b) = nk n. Proof. reflexivity. Qed.
Lemma nk_set_pend n p v : nk (set_pend n p v) = nk n. Proof. reflexivity. Qed.
Lemma nk_set_parts n a b d p : nk (set_parts n a b d p) = nk n. Proof. reflexivity. Qed.

(* ---------- invariants that hold node by node ---------- *)
Definition Inv (P : node -> Prop) (h : heap) : Prop := forall id n, getn h id = Some n -> P n.

Definition pres {A} (I : heap -> Prop) (m : M A) : Prop := forall h, I h -> I (fst (m h)).

Lemma pres_ret {A} I (a : A) : pres I (ret a).
Proof. intros h H; exact H. Qed.
Lemma pres_raise {A} I e : pres I (@raise A e).
Proof. intros h H; exact H. Qed.
Lemma pres_get_heap I : pres I get_heap.
Proof. intros h H; exact H. Qed.
Lemma pres_rd I id : pres I (rd id).
Proof. intros h H. unfold rd. destruct (getn h id); exact H. Qed.
Lemma pres_bind {A B} I (m : M A) (f : A -> M B) : pres I m -> (forall a, pres I (f a)) -> pres I (mbind m f).
Proof.
  intros Hm Hf h H. unfold mbind. specialize (Hm h H). destruct (m h) as [h1 [a|e]]; cbn [fst] in *.
  - apply Hf. exact Hm.
  - exact Hm.
Qed.
Lemma pres_gcc_m I f id : pres I (gcc_m f id).
Proof. intros h H. unfold gcc_m. destruct (gcc f h id); exact H. Qed.

Lemma pres_w_node (P : node -> Prop) id (f : node -> node) : (forall n, P n -> P (f n)) -> pres (Inv P) (w_node id f).
Proof.
  intros Hf h H. unfold w_node. destruct (getn h id) as [n|] eqn:G; cbn [fst]; [|exact H].
  intros id' n' G'. rewrite getn_setn in G'.
  destruct ((id' =? id) && (0 <=? id) && (id <? zlen h)) eqn:E.
  - injection G' as <-. apply Hf. exact (H id n G).
  - exact (H id' n' G').
Qed.

(* a write whose new node is built from the node read at the same moment *)
Lemma pres_rd_w_node (P : node -> Prop) id (g : node -> M unit) :
  (forall h n, Inv P h -> getn h id = Some n -> Inv P (fst (g n h))) -> pres (Inv P) (mbind (rd id) g).
Proof.
  intros Hg h H. unfold mbind, rd. destruct (getn h id) as [n|] eqn:G; cbn [fst]; [|exact H].
  apply Hg; assumption.
Qed.

Create HintDb pres.
#[export] Hint Resolve pres_ret pres_raise pres_get_heap pres_rd pres_gcc_m : pres.

Ltac pres_tac :=
  repeat first
    [ assumption
    | match goal with |- pres _ (ret _) => apply pres_ret end
    | match goal with |- pres _ (raise _) => apply pres_raise end
    | match goal with |- pres _ get_heap => apply pres_get_heap end
    | match goal with |- pres _ (rd _) => apply pres_rd end
    | match goal with |- pres _ (gcc_m _ _) => apply pres_gcc_m end
    | match goal with |- pres _ (mbind _ _) => apply pres_bind; [ | intros ? ] end
    | match goal with |- pres _ (if ?b then _ else _) => destruct b end
    | match goal with |- pres _ (match ?x with _ => _ end) => destruct x end
    | match goal with |- pres _ (let _ := _ in _) => cbv zeta end
    | solve [ eauto 3 with pres ] ].
