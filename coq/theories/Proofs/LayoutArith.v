(* Facts about the TRANSLATED arithmetic (Gen/layout_gen.v): int_scale,
   calculate_left_right_padding, calculate_top_bottom_filler.  Pattern (DESIGN Appendix B):
   a rounding lemma for int_scale by nia -> make it opaque and generalise its value ->
   destruct every [if] -> lia. *)
From Coq Require Import ZArith List Bool Lia ZifyBool.
Import ListNotations.
From Urwid Require Import PyBase layout_gen.
Open Scope Z_scope.

Arguments Z.add : simpl never.
Arguments Z.sub : simpl never.
Arguments Z.mul : simpl never.
Arguments Z.div : simpl never.
Arguments Z.quot : simpl never.
Arguments Z.modulo : simpl never.
Arguments Z.ltb : simpl never.
Arguments Z.leb : simpl never.
Arguments Z.eqb : simpl never.
Arguments Z.min : simpl never.
Arguments Z.max : simpl never.

(* ---------------------------------------------------------------- *)
(* round_half_up_div: int(E / D + 0.5)                               *)

Lemma rhu_nonneg_div e d : 0 <= e -> 0 < d ->
  round_half_up_div e d = (2 * e + d) / (2 * d).
Proof. intros; unfold round_half_up_div; apply Z.quot_div_nonneg; lia. Qed.

(* the value is the rational e/d rounded half up: 2d*r <= 2e + d < 2d*(r+1) *)
Lemma rhu_bounds e d : 0 <= e -> 0 < d ->
  let r := round_half_up_div e d in
  2 * d * r <= 2 * e + d < 2 * d * (r + 1) /\ 0 <= r.
Proof.
  intros He Hd r. subst r. rewrite rhu_nonneg_div by lia.
  pose proof (Z.div_mod (2 * e + d) (2 * d) ltac:(lia)) as H.
  pose proof (Z.mod_pos_bound (2 * e + d) (2 * d) ltac:(lia)) as H2.
  assert (0 <= (2 * e + d) / (2 * d)) by (apply Z.div_pos; lia).
  nia.
Qed.

(* ---------------------------------------------------------------- *)
(* int_scale                                                          *)

(* the defining inequality: s is val*(out-1)/(range-1) rounded half up (floor of x + 1/2),
   for every sign of the operands *)
Lemma int_scale_round v vr out : 2 <= vr ->
  let s := int_scale v vr out in
  2 * (vr - 1) * s <= 2 * v * (out - 1) + (vr - 1) < 2 * (vr - 1) * (s + 1).
Proof.
  intros Hvr s. subst s. unfold int_scale. cbv zeta.
  pose proof (Z.div_mod (v * (out - 1) * 2 + (vr - 1)) ((vr - 1) * 2) ltac:(lia)) as H.
  pose proof (Z.mod_pos_bound (v * (out - 1) * 2 + (vr - 1)) ((vr - 1) * 2) ltac:(lia)) as H2.
  nia.
Qed.

Lemma int_scale_range v vr out : 2 <= vr -> 1 <= out -> 0 <= v <= vr - 1 ->
  0 <= int_scale v vr out <= out - 1.
Proof.
  intros Hvr Hout Hv. pose proof (int_scale_round v vr out Hvr) as H. cbv zeta in H.
  split; nia.
Qed.

Lemma int_scale_monotone v1 v2 vr out : 2 <= vr -> 1 <= out -> v1 <= v2 ->
  int_scale v1 vr out <= int_scale v2 vr out.
Proof.
  intros Hvr Hout Hv. unfold int_scale. cbv zeta.
  apply Z.div_le_mono; [lia|]. nia.
Qed.

Lemma int_scale_zero vr out : 2 <= vr -> int_scale 0 vr out = 0.
Proof.
  intros Hvr. pose proof (int_scale_round 0 vr out Hvr) as H. cbv zeta in H. nia.
Qed.

Lemma int_scale_top vr out : 2 <= vr -> int_scale (vr - 1) vr out = out - 1.
Proof.
  intros Hvr. pose proof (int_scale_round (vr - 1) vr out Hvr) as H. cbv zeta in H. nia.
Qed.

(* the instance used by padding and filler: range 101 *)
Lemma int_scale_101 a p :
  let s := int_scale a 101 (p + 1) in
  200 * s <= 2 * a * p + 100 < 200 * s + 200.
Proof.
  pose proof (int_scale_round a 101 (p + 1) ltac:(lia)) as H. cbv zeta in *.
  replace (p + 1 - 1) with p in H by lia. lia.
Qed.

(* ---------------------------------------------------------------- *)
(* calculate_left_right_padding                                       *)

Definition align_pct (t : atype) (amount : Z) : Z :=
  match t with ALeft => 0 | ACenter => 50 | ARight => 100 | ARelative => amount end.
Definition valign_pct (t : vtype) (amount : Z) : Z :=
  match t with VTop => 0 | VMiddle => 50 | VBottom => 100 | VRelative => amount end.

(* the width the padding asks for its child ("requested size") *)
Definition clrp_width (maxcol : Z) (wt : wtype) (wa : Z) (minw : option Z) (left right : Z) : Z :=
  match wt with
  | WRelative =>
      let w := round_half_up_div (Z.max (maxcol - left - right) 0 * wa) 100 in
      match minw with Some m => Z.max w m | None => w end
  | _ => wa
  end.

(* the height the filler asks for its child *)
Definition ctbf_height (maxrow : Z) (ht : wtype) (ha : Z) (minh : option Z) (top bottom : Z) : Z :=
  match ht with
  | WRelative =>
      let h := int_scale ha 101 (Z.max (maxrow - top - bottom) 0 + 1) in
      match minh with Some m => Z.max h m | None => h end
  | _ => ha
  end.

Definition is_clip (wt : wtype) : bool := match wt with WClip => true | _ => false end.

Ltac break_ifs :=
  repeat (match goal with
          | |- context[if ?b then _ else _] => destruct b eqn:?
          end; cbv beta iota).

(* One characterisation from which every clause follows: with W the requested width,
   P the spare space and S the rounded share of the right side,
   the result is computed from (maxcol - W - (right + S), right + S). *)
Lemma clrp_unfold maxcol at_ aa wt wa minw left right :
  let W := clrp_width maxcol wt wa minw left right in
  let S := int_scale (100 - align_pct at_ aa) 101 (maxcol - W - left - right + 1) in
  let r1 := right + S in
  let l1 := maxcol - W - r1 in
  let '(l2, r2) :=
    if (r1 <? 0) && (0 <? l1) then (l1 - Z.min l1 (- r1), r1 + Z.min l1 (- r1))
    else if (l1 <? 0) && (0 <? r1) then (l1 + Z.min r1 (- l1), r1 - Z.min r1 (- l1))
    else (l1, r1) in
  calculate_left_right_padding maxcol at_ aa wt wa minw left right =
    if negb (is_clip wt) && ((l2 <? 0) || (r2 <? 0)) then (Z.max l2 0, Z.max r2 0) else (l2, r2).
Proof.
  unfold calculate_left_right_padding, clrp_width, align_pct.
  destruct wt, minw, at_; cbn [is_clip negb andb]; cbv zeta; break_ifs; reflexivity.
Qed.

(* --- clause: margins + child fill the space exactly, in clipping mode for every input --- *)
Lemma clrp_clip_exact maxcol at_ aa wa minw left right :
  let '(l, r) := calculate_left_right_padding maxcol at_ aa WClip wa minw left right in
  l + wa + r = maxcol.
Proof.
  pose proof (clrp_unfold maxcol at_ aa WClip wa minw left right) as H. cbv zeta in H.
  unfold clrp_width in H.
  revert H. generalize (int_scale (100 - align_pct at_ aa) 101 (maxcol - wa - left - right + 1)). intros s.
  cbn [is_clip negb andb]. break_ifs; intros ->; lia.
Qed.

(* --- clause: outside clipping mode the child gets min(requested, available), whatever the
       margins and the alignment are; margins are never negative --- *)
Lemma clrp_child maxcol at_ aa wt wa minw left right :
  wt <> WClip ->
  let W := clrp_width maxcol wt wa minw left right in
  let '(l, r) := calculate_left_right_padding maxcol at_ aa wt wa minw left right in
  0 <= l /\ 0 <= r /\ maxcol - l - r = Z.min W maxcol.
Proof.
  intros Hc W.
  pose proof (clrp_unfold maxcol at_ aa wt wa minw left right) as H. cbv zeta in H.
  fold W in H. revert H.
  generalize (int_scale (100 - align_pct at_ aa) 101 (maxcol - W - left - right + 1)). intros s.
  assert (is_clip wt = false) as -> by (destruct wt; try reflexivity; congruence).
  cbn [negb andb]. break_ifs; intros ->; lia.
Qed.

(* --- clause: when the requested size fits beside the fixed margins, the child gets exactly
       it, both fixed margins are kept, and the spare space P is split by the alignment
       percentage A to within rounding:  | (l - left) - A*P/100 | <= 1/2  --- *)
Lemma clrp_fits maxcol at_ aa wt wa minw left right :
  let W := clrp_width maxcol wt wa minw left right in
  let A := align_pct at_ aa in
  0 <= A <= 100 -> 0 <= left -> 0 <= right -> 0 <= W -> left + W + right <= maxcol ->
  let P := maxcol - W - left - right in
  let '(l, r) := calculate_left_right_padding maxcol at_ aa wt wa minw left right in
  l + W + r = maxcol /\ left <= l /\ right <= r /\
  -100 <= 200 * (l - left) - 2 * A * P <= 100.
Proof.
  intros W A HA Hl Hr HW Hfit P.
  pose proof (clrp_unfold maxcol at_ aa wt wa minw left right) as H. cbv zeta in H.
  fold W A in H. revert H.
  pose proof (int_scale_range (100 - A) 101 (P + 1) ltac:(lia) ltac:(lia) ltac:(lia)) as HR.
  pose proof (int_scale_101 (100 - A) P) as HS. cbv zeta in HS.
  fold P. revert HR HS. generalize (int_scale (100 - A) 101 (P + 1)). intros s HR HS.
  destruct (is_clip wt); cbn [negb andb]; break_ifs; intros ->; lia.
Qed.

(* ---------------------------------------------------------------- *)
(* calculate_top_bottom_filler                                        *)

Lemma ctbf_unfold maxrow vt va ht ha minh top bottom :
  let H := ctbf_height maxrow ht ha minh top bottom in
  let S := int_scale (100 - valign_pct vt va) 101 (maxrow - H - top - bottom + 1) in
  let b1 := bottom + S in
  let t1 := maxrow - H - b1 in
  let '(t2, b2) :=
    if (b1 <? 0) && (0 <? t1) then (t1 - Z.min t1 (- b1), b1 + Z.min t1 (- b1))
    else if (t1 <? 0) && (0 <? b1) then (t1 + Z.min b1 (- t1), b1 - Z.min b1 (- t1))
    else (t1, b1) in
  calculate_top_bottom_filler maxrow vt va ht ha minh top bottom = (Z.max t2 0, Z.max b2 0).
Proof.
  unfold calculate_top_bottom_filler, ctbf_height, valign_pct.
  destruct ht, minh, vt; cbv zeta; break_ifs; reflexivity.
Qed.

(* the filler never clips: child = min(requested, available), margins never negative *)
Lemma ctbf_child maxrow vt va ht ha minh top bottom :
  let H := ctbf_height maxrow ht ha minh top bottom in
  let '(t, b) := calculate_top_bottom_filler maxrow vt va ht ha minh top bottom in
  0 <= t /\ 0 <= b /\ maxrow - t - b = Z.min H maxrow.
Proof.
  intros H.
  pose proof (ctbf_unfold maxrow vt va ht ha minh top bottom) as E. cbv zeta in E.
  fold H in E. revert E.
  generalize (int_scale (100 - valign_pct vt va) 101 (maxrow - H - top - bottom + 1)). intros s.
  break_ifs; intros ->; lia.
Qed.

Lemma ctbf_fits maxrow vt va ht ha minh top bottom :
  let H := ctbf_height maxrow ht ha minh top bottom in
  let A := valign_pct vt va in
  0 <= A <= 100 -> 0 <= top -> 0 <= bottom -> 0 <= H -> top + H + bottom <= maxrow ->
  let P := maxrow - H - top - bottom in
  let '(t, b) := calculate_top_bottom_filler maxrow vt va ht ha minh top bottom in
  t + H + b = maxrow /\ top <= t /\ bottom <= b /\
  -100 <= 200 * (t - top) - 2 * A * P <= 100.
Proof.
  intros H A HA Ht Hb HH Hfit P.
  pose proof (ctbf_unfold maxrow vt va ht ha minh top bottom) as E. cbv zeta in E.
  fold H A in E. revert E.
  pose proof (int_scale_range (100 - A) 101 (P + 1) ltac:(lia) ltac:(lia) ltac:(lia)) as HR.
  pose proof (int_scale_101 (100 - A) P) as HS. cbv zeta in HS.
  fold P. revert HR HS. generalize (int_scale (100 - A) 101 (P + 1)). intros s HR HS.
  break_ifs; intros ->; lia.
Qed.

(* the requested sizes themselves are sensible: a relative width is the percentage of the
   space beside the margins, rounded half up, at least min_width; never negative *)
Lemma clrp_width_relative maxcol wa minw left right :
  0 <= wa ->
  let avail := Z.max (maxcol - left - right) 0 in
  let w := round_half_up_div (avail * wa) 100 in
  200 * w <= 2 * (avail * wa) + 100 < 200 * (w + 1) /\ 0 <= w /\
  clrp_width maxcol WRelative wa minw left right = match minw with Some m => Z.max w m | None => w end.
Proof.
  intros Hwa avail w.
  pose proof (rhu_bounds (avail * wa) 100 ltac:(nia) ltac:(lia)) as H. cbv zeta in H.
  fold w in H. split; [lia|]. split; [lia|]. reflexivity.
Qed.

Lemma ctbf_height_relative maxrow ha minh top bottom :
  0 <= ha <= 100 ->
  let avail := Z.max (maxrow - top - bottom) 0 in
  let h := int_scale ha 101 (avail + 1) in
  200 * h <= 2 * ha * avail + 100 < 200 * h + 200 /\ 0 <= h <= avail /\
  ctbf_height maxrow WRelative ha minh top bottom = match minh with Some m => Z.max h m | None => h end.
Proof.
  intros Hha avail h.
  pose proof (int_scale_101 ha avail) as H. cbv zeta in H. fold h in H.
  pose proof (int_scale_range ha 101 (avail + 1) ltac:(lia) ltac:(lia) ltac:(lia)) as HR. fold h in HR.
  split; [lia|]. split; [lia|]. reflexivity.
Qed.
