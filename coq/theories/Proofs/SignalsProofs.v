(* Lemmas and proofs about Model/Signals.v (property C14). *)
From Coq Require Import ZArith List Bool Lia Sorted.
Import ListNotations.
From Urwid Require Import PyBase Signals.
Open Scope Z_scope.

Arguments Z.add : simpl never.
Arguments Z.sub : simpl never.
Arguments Z.ltb : simpl never.
Arguments Z.leb : simpl never.
Arguments Z.eqb : simpl never.

(* ================= small list facts ================= *)
Inductive sublist {A : Type} : list A -> list A -> Prop :=
  | sl_nil : sublist [] []
  | sl_skip x l1 l2 : sublist l1 l2 -> sublist l1 (x :: l2)
  | sl_take x l1 l2 : sublist l1 l2 -> sublist (x :: l1) (x :: l2).

Lemma sublist_nil_l {A} (l : list A) : sublist [] l.
Proof. induction l; [apply sl_nil | apply sl_skip; auto]. Qed.

Lemma sublist_refl {A} (l : list A) : sublist l l.
Proof. induction l; [apply sl_nil | apply sl_take; auto]. Qed.

Lemma sublist_In {A} (a b : list A) : sublist a b -> forall x, In x a -> In x b.
Proof.
  induction 1; intros y Hy; auto.
  - right; auto.
  - destruct Hy as [->|Hy]; [left; auto | right; auto].
Qed.

Lemma sublist_map {A B} (f : A -> B) (a b : list A) : sublist a b -> sublist (map f a) (map f b).
Proof. induction 1; cbn; [apply sl_nil | apply sl_skip; auto | apply sl_take; auto]. Qed.

Lemma sublist_NoDup {A} (a b : list A) : sublist a b -> NoDup b -> NoDup a.
Proof.
  induction 1; intros Hn; auto.
  - inversion Hn; auto.
  - inversion Hn; subst. constructor; auto.
    intro Hx. apply H2. eapply sublist_In; eauto.
Qed.

Lemma sublist_app {A} (a b c d : list A) : sublist a b -> sublist c d -> sublist (a ++ c) (b ++ d).
Proof. induction 1; intros; cbn; auto; [apply sl_skip; auto | apply sl_take; auto]. Qed.

Lemma sublist_cons_skip_app {A} (x : A) (a b : list A) : sublist a b -> sublist a (x :: b).
Proof. intros; constructor; auto. Qed.

Lemma memz_In x l : memz x l = true <-> In x l.
Proof.
  unfold memz. rewrite existsb_exists. split.
  - intros [y [Hy He]]. apply Z.eqb_eq in He. subst; auto.
  - intros Hi. exists x. split; auto. apply Z.eqb_refl.
Qed.

Lemma memz_false x l : memz x l = false <-> ~ In x l.
Proof.
  rewrite <- memz_In. destruct (memz x l); split; intros; try discriminate; auto.
  exfalso; auto.
Qed.

Lemma list_eqb_eq a : forall b, list_eqb a b = true <-> a = b.
Proof.
  induction a as [|x a IH]; intros [|y b]; cbn; split; intros Hq; try discriminate; auto.
  - apply andb_true_iff in Hq. destruct Hq as [H1 H2]. apply Z.eqb_eq in H1. apply IH in H2. subst; auto.
  - inversion Hq; subst. rewrite Z.eqb_refl. cbn. apply IH; auto.
Qed.

Lemma opt_eqb_eq a b : opt_eqb a b = true <-> a = b.
Proof.
  destruct a, b; cbn; split; intros Hq; try discriminate; auto.
  - apply Z.eqb_eq in Hq; subst; auto.
  - inversion Hq; apply Z.eqb_refl.
Qed.

Lemma matches_spec cb ua ws us h :
  matches cb ua ws us h = true <-> h_cb h = cb /\ h_uarg h = ua /\ h_wargs h = ws /\ h_uargs h = us.
Proof.
  unfold matches. rewrite !andb_true_iff, Z.eqb_eq, opt_eqb_eq, !list_eqb_eq. tauto.
Qed.

Lemma keyeqb_eq a b : keyeqb a b = true <-> a = b.
Proof.
  destruct a as [a1 a2], b as [b1 b2]. unfold keyeqb; cbn [fst snd].
  rewrite andb_true_iff, !Z.eqb_eq. split; [intros [-> ->]; auto | intros Hq; inversion Hq; auto].
Qed.

Lemma keyeqb_refl a : keyeqb a a = true.
Proof. apply keyeqb_eq; auto. Qed.

Lemma keyeqb_neq a b : keyeqb a b = false <-> a <> b.
Proof.
  rewrite <- keyeqb_eq. destruct (keyeqb a b); split; intros; try discriminate; auto. exfalso; auto.
Qed.

(* ================= the dictionaries ================= *)
Lemma lookup_update t k v k' :
  lookup (update t k v) k' = if keyeqb k k' then Some v else lookup t k'.
Proof.
  induction t as [|[k0 v0] t IH]; cbn [update lookup].
  - destruct (keyeqb k k'); auto.
  - destruct (keyeqb k0 k) eqn:E0.
    + apply keyeqb_eq in E0; subst k0. cbn [lookup]. destruct (keyeqb k k'); auto.
    + cbn [lookup]. destruct (keyeqb k0 k') eqn:E1.
      * apply keyeqb_eq in E1; subst k0. rewrite (proj2 (keyeqb_neq k k')); auto.
        apply keyeqb_neq in E0. congruence.
      * apply IH.
Qed.

Lemma update_same t k l : lookup t k = Some l -> update t k l = t.
Proof.
  induction t as [|[k0 v0] t IH]; cbn [update lookup]; intros Hl; [discriminate|].
  destruct (keyeqb k0 k) eqn:E0.
  - inversion Hl; subst; auto.
  - rewrite IH; auto.
Qed.

Lemma lookup_map_vals (g : Z * Z -> list handler -> list handler) t k :
  lookup (map (fun kl => (fst kl, g (fst kl) (snd kl))) t) k = option_map (g k) (lookup t k).
Proof.
  induction t as [|[k0 v0] t IH]; cbn [map lookup fst snd]; auto.
  destruct (keyeqb k0 k) eqn:E0; auto.
  apply keyeqb_eq in E0; subst; auto.
Qed.

Lemma handlers_set_tab_update st s n l s' n' :
  handlers (set_tab st (update (st_tab st) (s, n) l)) s' n'
  = if keyeqb (s, n) (s', n') then l else handlers st s' n'.
Proof.
  unfold handlers, set_tab; cbn [st_tab]. rewrite lookup_update.
  destruct (keyeqb (s, n) (s', n')); auto.
Qed.

Lemma set_tab_same st : set_tab st (st_tab st) = st.
Proof. destruct st; reflexivity. Qed.

(* ================= the invariant and the order on states ================= *)
Definition Inv (st : state) : Prop :=
  forall s n, StronglySorted Z.lt (keys st s n) /\ forall k, In k (keys st s n) -> k < st_nkey st.

Record le (st st' : state) : Prop := MkLe {
  le_inv : Inv st';
  le_nkey : st_nkey st <= st_nkey st';
  le_old : forall s n h, h_key h < st_nkey st -> In h (handlers st' s n) -> In h (handlers st s n);
  le_dead : forall o, In o (st_dead st) -> In o (st_dead st') }.

Definition same_core (a b : state) : Prop :=
  st_tab b = st_tab a /\ st_nkey b = st_nkey a /\ st_dead b = st_dead a.

Lemma same_core_refl a : same_core a a.
Proof. repeat split. Qed.

Lemma same_core_handlers a b s n : same_core a b -> handlers b s n = handlers a s n.
Proof. intros [Ht _]. unfold handlers. rewrite Ht; auto. Qed.

Lemma same_core_keys a b s n : same_core a b -> keys b s n = keys a s n.
Proof. intros Hc. unfold keys. erewrite same_core_handlers; eauto. Qed.

Lemma same_core_Inv a b : same_core a b -> Inv a -> Inv b.
Proof.
  intros Hc Hi s n. rewrite (same_core_keys a b s n Hc). destruct Hc as [_ [Hn _]]. rewrite Hn. apply Hi.
Qed.

Lemma le_refl st : Inv st -> le st st.
Proof. intros Hi. constructor; auto. lia. Qed.

Lemma le_trans a b c : le a b -> le b c -> le a c.
Proof.
  intros [I1 N1 O1 D1] [I2 N2 O2 D2]. constructor; auto; try lia.
  intros s n h Hk Hin. apply O1; auto. apply O2; auto. lia.
Qed.

Lemma le_same_core_r a b c : le a b -> same_core b c -> le a c.
Proof.
  intros [I1 N1 O1 D1] Hc. pose proof Hc as [Ht [Hn Hd]]. constructor.
  - eapply same_core_Inv; eauto.
  - lia.
  - intros s n h Hk Hin. rewrite (same_core_handlers b c s n Hc) in Hin. auto.
  - intros o Ho. rewrite Hd. auto.
Qed.

Lemma le_same_core_l a b c : same_core a b -> le b c -> le a c.
Proof.
  intros Hc [I1 N1 O1 D1]. pose proof Hc as [Ht [Hn Hd]]. constructor; auto.
  - lia.
  - intros s n h Hk Hin. rewrite <- (same_core_handlers a b s n Hc). apply O1; auto. lia.
  - intros o Ho. apply D1. rewrite Hd; auto.
Qed.

Lemma le_of_same_core a b : Inv a -> same_core a b -> le a b.
Proof. intros Hi Hc. eapply le_same_core_r; [apply le_refl; auto | auto]. Qed.

Lemma le_keys a b s n k : le a b -> k < st_nkey a -> In k (keys b s n) -> In k (keys a s n).
Proof.
  intros Hl Hk Hin. unfold keys in *. apply in_map_iff in Hin. destruct Hin as [h [Hh Hin]]. subst k.
  apply in_map. eapply le_old; eauto.
Qed.

(* sortedness under filter and append *)
Lemma Forall_filter_keys (p : handler -> bool) x l :
  Forall (Z.lt x) (map h_key l) -> Forall (Z.lt x) (map h_key (filter p l)).
Proof.
  induction l as [|h l IH]; cbn; intros Hf; auto.
  inversion Hf; subst. destruct (p h); cbn; auto.
Qed.

Lemma sorted_filter (p : handler -> bool) l :
  StronglySorted Z.lt (map h_key l) -> StronglySorted Z.lt (map h_key (filter p l)).
Proof.
  induction l as [|h l IH]; cbn; intros Hs; auto.
  inversion Hs; subst. destruct (p h); cbn; auto.
  constructor; auto. apply Forall_filter_keys; auto.
Qed.

Lemma sorted_app_last l h :
  StronglySorted Z.lt (map h_key l) -> (forall k, In k (map h_key l) -> k < h_key h) ->
  StronglySorted Z.lt (map h_key (l ++ [h])).
Proof.
  induction l as [|x l IH]; cbn; intros Hs Hb.
  - constructor; constructor.
  - inversion Hs; subst. constructor.
    + apply IH; auto.
    + rewrite map_app. apply Forall_app. split; auto. cbn. constructor; auto.
Qed.

Lemma sorted_NoDup l : StronglySorted Z.lt l -> NoDup l.
Proof.
  induction 1; constructor; auto.
  intro Hi. rewrite Forall_forall in H0. specialize (H0 _ Hi). lia.
Qed.

Lemma Inv_NoDup st s n : Inv st -> NoDup (keys st s n).
Proof. intros Hi. apply sorted_NoDup. apply Hi. Qed.

Lemma NoDup_keys_inj (l : list handler) a b :
  NoDup (map h_key l) -> In a l -> In b l -> h_key a = h_key b -> a = b.
Proof.
  induction l as [|x l IH]; cbn; intros Hn Ha Hb He; [tauto|].
  inversion Hn; subst.
  destruct Ha as [->|Ha], Hb as [->|Hb]; auto.
  - exfalso. apply H1. rewrite He. apply in_map; auto.
  - exfalso. apply H1. rewrite <- He. apply in_map; auto.
Qed.

(* ================= every primitive is monotone ================= *)
Lemma filter_subset {A} (p : A -> bool) l x : In x (filter p l) -> In x l.
Proof. intros Hx. apply filter_In in Hx. tauto. Qed.

(* replacing one list by a filtered version of itself *)
Lemma le_filter_one st s n p :
  Inv st -> le st (set_tab st (update (st_tab st) (s, n) (filter p (handlers st s n)))).
Proof.
  intros Hi. constructor.
  - intros s' n'. unfold keys. rewrite handlers_set_tab_update. cbn [st_nkey set_tab].
    destruct (keyeqb (s, n) (s', n')) eqn:E.
    + split.
      * apply sorted_filter. apply Hi.
      * intros k Hk. apply in_map_iff in Hk. destruct Hk as [h [<- Hh]].
        apply (proj2 (Hi s n)). unfold keys. apply in_map. eapply filter_subset; eauto.
    + apply Hi.
  - cbn. lia.
  - intros s' n' h _ Hin. rewrite handlers_set_tab_update in Hin.
    destruct (keyeqb (s, n) (s', n')) eqn:E; auto.
    apply keyeqb_eq in E. inversion E; subst. eapply filter_subset; eauto.
  - cbn; auto.
Qed.

Lemma disconnect_by_key_le s n k st : Inv st -> le st (disconnect_by_key s n k st).
Proof.
  intros Hi. unfold disconnect_by_key.
  destruct (lookup (st_tab st) (s, n)) as [l|] eqn:El.
  - replace l with (handlers st s n) by (unfold handlers; rewrite El; auto).
    apply le_filter_one; auto.
  - apply le_refl; auto.
Qed.

Lemma handlers_disconnect_by_key s n k st s' n' :
  handlers (disconnect_by_key s n k st) s' n'
  = if keyeqb (s, n) (s', n') then filter (fun h => negb (h_key h =? k)) (handlers st s n)
    else handlers st s' n'.
Proof.
  unfold disconnect_by_key.
  destruct (lookup (st_tab st) (s, n)) as [l|] eqn:El.
  - rewrite handlers_set_tab_update. unfold handlers at 2. rewrite El. auto.
  - destruct (keyeqb (s, n) (s', n')) eqn:E; auto.
    apply keyeqb_eq in E. inversion E; subst. unfold handlers. rewrite El. auto.
Qed.

Lemma handlers_die o st s n :
  handlers (die o st) s n = filter (fun h => negb (memz o (h_wargs h))) (handlers st s n).
Proof.
  unfold handlers, die, set_dead, set_tab; cbn [st_tab].
  rewrite (lookup_map_vals (fun k l => filter (fun h => negb (memz o (h_wargs h))) l)).
  destruct (lookup (st_tab st) (s, n)); cbn [option_map]; auto.
Qed.

Lemma die_le o st : Inv st -> le st (die o st).
Proof.
  intros Hi. constructor.
  - intros s n. unfold keys. rewrite handlers_die.
    replace (st_nkey (die o st)) with (st_nkey st) by reflexivity.
    split.
    + apply sorted_filter. apply Hi.
    + intros k Hk. apply in_map_iff in Hk. destruct Hk as [h [<- Hh]].
      apply (proj2 (Hi s n)). unfold keys. apply in_map. eapply filter_subset; eauto.
  - cbn; lia.
  - intros s n h _ Hin. rewrite handlers_die in Hin. eapply filter_subset; eauto.
  - intros x Hx. cbn. right; auto.
Qed.

Lemma fold_die_le ds : forall st, Inv st -> le st (fold_left (fun s o => die o s) ds st).
Proof.
  induction ds as [|o ds IH]; cbn [fold_left]; intros st Hi.
  - apply le_refl; auto.
  - eapply le_trans; [apply die_le; auto|]. apply IH. apply (le_inv _ _ (die_le o st Hi)).
Qed.

Lemma reap_le env gc st : Inv st -> le st (fst (reap env gc st)).
Proof.
  intros Hi. unfold reap. cbn [fst].
  set (st1 := set_pend st _).
  assert (Hc : same_core st st1) by (repeat split).
  eapply le_same_core_l; eauto. apply fold_die_le. eapply same_core_Inv; eauto.
Qed.

Lemma reap_events env gc st : exists ds, snd (reap env gc st) = map EvDied ds.
Proof. unfold reap. cbn [snd]. eauto. Qed.

Lemma register_le c names st : Inv st -> le st (register c names st).
Proof. intros Hi. apply le_of_same_core; auto. repeat split. Qed.

Lemma connect_le env s n cb ua ws us st : Inv st -> le st (fst (fst (connect env s n cb ua ws us st))).
Proof.
  intros Hi. unfold connect.
  destruct (negb (forallb _ ws)); [apply le_refl; auto|].
  destruct (negb (memz n _)); [apply le_refl; auto|].
  cbn [fst]. constructor.
  - intros s' n'. unfold keys.
    replace (handlers (set_nkey (set_tab st (update (st_tab st) (s, n) (handlers st s n ++ [MkHandler (st_nkey st) cb ua ws us]))) (st_nkey st + 1)) s' n')
      with (handlers (set_tab st (update (st_tab st) (s, n) (handlers st s n ++ [MkHandler (st_nkey st) cb ua ws us]))) s' n') by reflexivity.
    rewrite handlers_set_tab_update. cbn [st_nkey set_nkey].
    destruct (keyeqb (s, n) (s', n')) eqn:E.
    + split.
      * apply sorted_app_last; [apply Hi|]. cbn [h_key]. apply (proj2 (Hi s n)).
      * intros k Hk. rewrite map_app in Hk. apply in_app_or in Hk. destruct Hk as [Hk|Hk].
        -- pose proof (proj2 (Hi s n) k Hk). lia.
        -- cbn in Hk. destruct Hk as [<-|[]]. lia.
    + split; [apply Hi|]. intros k Hk. pose proof (proj2 (Hi s' n') k Hk). lia.
  - cbn. lia.
  - intros s' n' h Hk Hin.
    replace (handlers (set_nkey (set_tab st (update (st_tab st) (s, n) (handlers st s n ++ [MkHandler (st_nkey st) cb ua ws us]))) (st_nkey st + 1)) s' n')
      with (handlers (set_tab st (update (st_tab st) (s, n) (handlers st s n ++ [MkHandler (st_nkey st) cb ua ws us]))) s' n') in Hin by reflexivity.
    rewrite handlers_set_tab_update in Hin.
    destruct (keyeqb (s, n) (s', n')) eqn:E; auto.
    apply keyeqb_eq in E. inversion E; subst.
    apply in_app_or in Hin. destruct Hin as [Hin|Hin]; auto.
    cbn in Hin. destruct Hin as [<-|[]]. cbn in Hk. lia.
  - cbn; auto.
Qed.

Lemma disconnect_le s n cb ua ws us st : Inv st -> le st (fst (fst (disconnect s n cb ua ws us st))).
Proof.
  intros Hi. unfold disconnect.
  destruct (negb (forallb _ ws)); [apply le_refl; auto|].
  destruct (find _ _); cbn [fst]; [apply disconnect_by_key_le; auto | apply le_refl; auto].
Qed.

Lemma kill_le env o st : Inv st -> le st (fst (fst (kill env o st))).
Proof.
  intros Hi. unfold kill.
  destruct (memz o (st_reg st)); [|apply le_refl; auto].
  set (st1 := set_pend _ _).
  assert (Hc : same_core st st1) by (repeat split).
  pose proof (reap_le env false st1 (same_core_Inv _ _ Hc Hi)) as Hl.
  destruct (reap env false st1) as [st2 evs]. cbn [fst] in *.
  eapply le_same_core_l; eauto.
Qed.

(* ================= sequencing, calls, the emit loop: generic in the script runner ================= *)
Section Generic.
  Variable step : op -> state -> state * list event * status.
  Hypothesis step_le : forall o st, Inv st -> le st (fst (fst (step o st))).

  Lemma run_seq_le : forall ops st, Inv st -> le st (fst (fst (run_seq step ops st))).
  Proof.
    induction ops as [|o r IH]; cbn [run_seq]; intros st Hi.
    - apply le_refl; auto.
    - pose proof (step_le o st Hi) as H1.
      destruct (step o st) as [[st1 e1] s1]. cbn [fst] in H1.
      destruct s1; cbn [fst]; auto.
      pose proof (IH st1 (le_inv _ _ H1)) as H2.
      destruct (run_seq step r st1) as [[st2 e2] s2]. cbn [fst] in *.
      eapply le_trans; eauto.
  Qed.
End Generic.

Definition call_sig := (Z * Z * list val * option Z)%type.

(* the calls an emit made itself: the EvCall children of its event *)
Definition direct_calls (evs : list event) : list call_sig :=
  flat_map (fun e => match e with EvCall k cb argv _ ret => [(k, cb, argv, ret)] | _ => [] end) evs.

Definition c_key (c : call_sig) : Z := fst (fst (fst c)).
Definition c_cb (c : call_sig) : Z := snd (fst (fst c)).
Definition c_argv (c : call_sig) : list val := snd (fst c).
Definition c_ret (c : call_sig) : option Z := snd c.
Definition ret_truthy (c : call_sig) : bool := match c_ret c with Some r => truthy r | None => false end.
Definition called_keys (evs : list event) : list Z := map c_key (direct_calls evs).

Lemma direct_calls_app a b : direct_calls (a ++ b) = direct_calls a ++ direct_calls b.
Proof. unfold direct_calls. apply flat_map_app. Qed.

Lemma direct_calls_died ds : direct_calls (map EvDied ds) = [].
Proof. induction ds; cbn; auto. Qed.

Definition wargs_alive (st : state) (h : handler) : Prop :=
  forall w, In w (h_wargs h) -> ~ In w (st_dead st).

Lemma dead_check_false st h :
  existsb (fun w => memz w (st_dead st)) (h_wargs h) = false <-> wargs_alive st h.
Proof.
  unfold wargs_alive. split.
  - intros He w Hw Hd.
    assert (existsb (fun w => memz w (st_dead st)) (h_wargs h) = true).
    { apply existsb_exists. exists w. split; auto. apply memz_In; auto. }
    congruence.
  - intros Ha. destruct (existsb _ _) eqn:E; auto.
    apply existsb_exists in E. destruct E as [w [Hw Hm]]. apply memz_In in Hm. exfalso. eapply Ha; eauto.
Qed.

Section GenericCall.
  Variable run : list op -> state -> state * list event * status.
  Hypothesis run_le : forall ops st, Inv st -> le st (fst (fst (run ops st))).
  Variable env : envt.
  Variable args : list val.

  Definition the_call (h : handler) (ret : option Z) : call_sig := (h_key h, h_cb h, argv_of h args, ret).

  Lemma call_callback_spec h st st' evs status r :
    Inv st -> call_callback run env args h st = (st', evs, status, r) ->
    le st st' /\
    ((~ wargs_alive st h /\ st' = st /\ evs = [] /\ status = Done /\ r = false) \/
     (wargs_alive st h /\ st' = st /\ evs = [] /\ status = Raised (-8)) \/
     (wargs_alive st h /\ exists ret, direct_calls evs = [the_call h ret] /\
        (status = Done -> ret = Some (sc_ret (script_of env (h_cb h))) /\ r = truthy (sc_ret (script_of env (h_cb h)))))).
  Proof.
    intros Hi Hc. unfold call_callback in Hc.
    destruct (existsb (fun w => memz w (st_dead st)) (h_wargs h)) eqn:Ed.
    - inversion Hc; subst. split; [apply le_refl; auto|]. left. repeat split; auto.
      intro Ha. apply dead_check_false in Ha. congruence.
    - apply dead_check_false in Ed.
      destruct (e_maxcalls env <=? st_calls st).
      { inversion Hc; subst. split; [apply le_refl; auto|]. right. left. repeat split; auto. }
      set (st1 := set_held (set_calls st (st_calls st + 1)) (h_wargs h ++ st_held st)) in *.
      assert (Hc1 : same_core st st1) by (repeat split).
      pose proof (run_le (sc_ops (script_of env (h_cb h))) st1 (same_core_Inv _ _ Hc1 Hi)) as Hl.
      destruct (run (sc_ops (script_of env (h_cb h))) st1) as [[st2 body] s2]. cbn [fst] in Hl.
      destruct s2.
      + set (st2' := set_held st2 (st_held st)) in *.
        assert (Hc2 : same_core st2 st2') by (repeat split).
        assert (Hl2 : le st st2').
        { eapply le_same_core_l; eauto. eapply le_same_core_r; eauto. }
        pose proof (reap_le env false st2' (le_inv _ _ Hl2)) as Hl3.
        destruct (reap_events env false st2') as [ds Hds].
        destruct (reap env false st2') as [st3 died]. cbn [fst snd] in *. subst died.
        inversion Hc; subst. split; [eapply le_trans; eauto|].
        right. right. split; auto. eexists. split.
        * cbn [direct_calls flat_map]. fold (direct_calls (map EvDied ds)). rewrite direct_calls_died. reflexivity.
        * intros _. split; reflexivity.
      + inversion Hc; subst. split; [eapply le_same_core_l; eauto|].
        right. right. split; auto. eexists. split; [reflexivity|]. intros Hx; discriminate.
  Qed.

  (* the specification of the loop of emit over a (suffix of the) snapshot *)
  Lemma emit_loop_spec s n :
    forall snap st res st' evs status res',
      Inv st ->
      (forall h, In h snap -> h_key h < st_nkey st) ->
      emit_loop (call_callback run env args) s n snap st res = (st', evs, status, res') ->
      le st st' /\
      exists called,
        sublist called snap /\
        map (fun c => (c_key c, c_cb c, c_argv c)) (direct_calls evs)
          = map (fun h => (h_key h, h_cb h, argv_of h args)) called /\
        (forall h, In h called -> In (h_key h) (keys st s n) /\ wargs_alive st h) /\
        (status = Done ->
           (forall h, In h snap -> In (h_key h) (keys st' s n) -> wargs_alive st' h -> In h called) /\
           (forall c, In c (direct_calls evs) -> c_ret c <> None) /\
           res' = res || existsb ret_truthy (direct_calls evs)).
  Proof.
    induction snap as [|h rest IH]; intros st res st' evs status res' Hi Hb Hq; cbn [emit_loop] in Hq.
    - inversion Hq; subst. split; [apply le_refl; auto|].
      exists []. split; [apply sl_nil|]. split; [reflexivity|]. split; [intros h []|].
      intros _. split; [intros h []|]. split; [intros c []|]. cbn. rewrite orb_false_r; auto.
    - assert (Hbr : forall x, In x rest -> h_key x < st_nkey st) by (intros; apply Hb; right; auto).
      destruct (memz (h_key h) (keys st s n)) eqn:Em; cbn [negb] in Hq.
      + (* connected at its turn: _call_callback *)
        destruct (call_callback run env args h st) as [[[st1 e1] s1] r] eqn:Ec.
        destruct (call_callback_spec _ _ _ _ _ _ Hi Ec) as [Hl1 Hcase].
        destruct s1.
        * destruct (emit_loop (call_callback run env args) s n rest st1 (res || r)) as [[[st2 e2] s2] res2] eqn:El.
          inversion Hq; subst; clear Hq.
          assert (Hbr1 : forall x, In x rest -> h_key x < st_nkey st1).
          { intros x Hx. pose proof (Hbr x Hx). pose proof (le_nkey _ _ Hl1). lia. }
          destruct (IH _ _ _ _ _ _ (le_inv _ _ Hl1) Hbr1 El) as [Hl2 [called [Hsub [Hsig [Hstart Hdone]]]]].
          assert (Hl : le st st') by (eapply le_trans; eauto).
          split; auto.
          assert (Hstart' : forall x, In x called -> In (h_key x) (keys st s n) /\ wargs_alive st x).
          { intros x Hx. destruct (Hstart x Hx) as [Hk Ha]. split.
            - apply (le_keys st st1 s n (h_key x) Hl1); [apply Hbr; eapply sublist_In; eauto | exact Hk].
            - intros w Hw Hd. apply (Ha w Hw). apply (le_dead _ _ Hl1); auto. }
          destruct Hcase as [[Hna [-> [-> [_ ->]]]] | [[_ [_ [_ Hx]]] | [Ha [ret [Hdc Hret]]]]]; [|discriminate|].
          -- (* a weak argument is dead: returns False without calling *)
             exists called. cbn [app]. split; [apply sl_skip; auto|]. split; auto. split; auto.
             intros Hd. destruct (Hdone Hd) as [Hall [Hrets Hres]]. split; [|split; auto].
             ++ intros x [<-|Hx] Hk Hal; auto.
                exfalso. apply Hna. intros w Hw Hdd. apply (Hal w Hw). eapply le_dead; eauto.
             ++ rewrite Hres. rewrite orb_false_r. auto.
          -- exists (h :: called). split; [apply sl_take; auto|]. split; [|split].
             ++ rewrite direct_calls_app, Hdc, map_app, Hsig. reflexivity.
             ++ intros x [<-|Hx]; auto. split; auto. apply memz_In; auto.
             ++ intros Hd. destruct (Hdone Hd) as [Hall [Hrets Hres]].
                destruct (Hret eq_refl) as [-> ->]. split; [|split].
                ** intros x [<-|Hx] Hk Hal; [left; auto | right; auto].
                ** intros c Hc. rewrite direct_calls_app, Hdc in Hc. apply in_app_or in Hc.
                   destruct Hc as [[<-|[]]|Hc]; [cbn; discriminate | auto].
                ** rewrite Hres, direct_calls_app, Hdc, existsb_app. cbn [existsb].
                   unfold ret_truthy at 1, the_call, c_ret; cbn [snd]. rewrite orb_false_r, orb_assoc. reflexivity.
        * (* an exception left the callback *)
          inversion Hq; subst; clear Hq. split; auto.
          destruct Hcase as [[_ [_ [_ [Hx _]]]] | [[_ [_ [-> _]]] | [Ha [ret [Hdc Hret]]]]]; [discriminate| |].
          -- (* the call budget of the case is exhausted: the callback refuses to run *)
             exists []. split; [apply sublist_nil_l|]. split; [reflexivity|]. split; [intros x []|].
             intros Hx; discriminate.
          -- exists [h]. split; [apply sl_take; apply sublist_nil_l|]. split; [rewrite Hdc; reflexivity|]. split.
             ++ intros x [<-|[]]. split; auto. apply memz_In; auto.
             ++ intros Hx; discriminate.
      + (* disconnected in the meantime: skipped *)
        destruct (IH _ _ _ _ _ _ Hi Hbr Hq) as [Hl [called [Hsub [Hsig [Hstart Hdone]]]]].
        split; auto. exists called. split; [apply sl_skip; auto|]. split; auto. split; auto.
        intros Hd. destruct (Hdone Hd) as [Hall Hres]. split; auto.
        intros x [<-|Hx] Hk Hal; auto.
        exfalso. apply memz_false in Em. apply Em.
        eapply le_keys; eauto. apply Hb. left; auto.
  Qed.

  (* the loop can be cut anywhere: what happens at a handler's turn depends on the state then *)
  Lemma emit_loop_app call s n pre : forall post st res,
    emit_loop call s n (pre ++ post) st res =
    let '(st1, e1, s1, r1) := emit_loop call s n pre st res in
    match s1 with
    | Done => let '(st2, e2, s2, r2) := emit_loop call s n post st1 r1 in (st2, e1 ++ e2, s2, r2)
    | Raised c => (st1, e1, Raised c, r1)
    end.
  Proof.
    induction pre as [|h pre IH]; intros post st res; cbn [app emit_loop].
    - destruct (emit_loop call s n post st res) as [[[st2 e2] s2] r2]. reflexivity.
    - destruct (negb (memz (h_key h) (keys st s n))); [apply IH|].
      destruct (call h st) as [[[st1 e1] s1] r]. destruct s1; auto.
      rewrite IH. destruct (emit_loop call s n pre st1 (res || r)) as [[[sta ea] sa] ra].
      destruct sa; auto.
      destruct (emit_loop call s n post sta ra) as [[[stb eb] sb] rb]. rewrite app_assoc. reflexivity.
  Qed.
End GenericCall.

(* ================= every operation, every script table, every fuel ================= *)
(* the loop of one emit, over the snapshot taken from the state it starts in *)
Definition emit_core (f : nat) (env : envt) (s n : Z) (vargs : list val) (st : state)
  : state * list event * status * bool :=
  emit_loop (call_callback (run_seq (run_op f env)) env vargs) s n (handlers st s n) st false.

Lemma run_op_le : forall fuel env o st, Inv st -> le st (fst (fst (run_op fuel env o st))).
Proof.
  induction fuel as [|f IH]; intros env o st Hi.
  - destruct o; cbn [run_op fst]; try (apply le_refl; auto).
    + apply register_le; auto.
    + apply connect_le; auto.
    + apply disconnect_le; auto.
    + apply disconnect_by_key_le; auto.
    + apply kill_le; auto.
    + pose proof (reap_le env true st Hi). destruct (reap env true st); auto.
  - assert (core_le : forall s n vargs st0, Inv st0 -> le st0 (fst (fst (fst (emit_core f env s n vargs st0))))).
    { intros s n vargs st0 Hi0. unfold emit_core.
      destruct (emit_loop _ s n (handlers st0 s n) st0 false) as [[[st1 ch] s1] res] eqn:El.
      cbn [fst].
      eapply (emit_loop_spec (run_seq (run_op f env))) in El; auto.
      * tauto.
      * intros ops st2 Hi2. apply run_seq_le; auto.
      * intros h Hh. apply (proj2 (Hi0 s n)). unfold keys. apply in_map; auto. }
    destruct o; cbn [run_op fst].
    + apply register_le; auto.
    + apply connect_le; auto.
    + apply disconnect_le; auto.
    + apply disconnect_by_key_le; auto.
    + pose proof (core_le s n (map VInt args) st Hi) as Hl. unfold emit_core in Hl.
      destruct (emit_loop _ s n (handlers st s n) st false) as [[[st1 ch] s1] res]. exact Hl.
    + apply kill_le; auto.
    + pose proof (reap_le env true st Hi). destruct (reap env true st); auto.
    + pose proof (core_le s n [VSelf s] st Hi) as Hl. unfold emit_core in Hl.
      destruct (emit_loop _ s n (handlers st s n) st false) as [[[st1 ch] s1] res]. exact Hl.
    + destruct (wstate st s =? v); [apply le_refl; auto|].
      pose proof (core_le s nc [VSelf s; VInt v] st Hi) as H1. unfold emit_core in H1.
      destruct (emit_loop _ s nc (handlers st s nc) st false) as [[[st1 ch1] s1] r1]. cbn [fst] in H1.
      destruct s1; [|exact H1].
      set (st2 := set_wstate st1 _).
      assert (Hc : same_core st1 st2) by (repeat split).
      pose proof (core_le s np [VSelf s; VInt (wstate st s)] st2 (same_core_Inv _ _ Hc (le_inv _ _ H1))) as H2.
      unfold emit_core in H2.
      destruct (emit_loop _ s np (handlers st2 s np) st2 false) as [[[st3 ch2] s3] r3]. cbn [fst] in *.
      eapply le_trans; [exact H1|]. eapply le_same_core_l; eauto.
    + pose proof (core_le s nc [VSelf s; VInt v] st Hi) as H1. unfold emit_core in H1.
      destruct (emit_loop _ s nc (handlers st s nc) st false) as [[[st1 ch1] s1] r1]. cbn [fst] in H1.
      destruct s1; [|exact H1].
      set (st2 := set_wstate st1 _).
      assert (Hc : same_core st1 st2) by (repeat split).
      pose proof (core_le s np [VSelf s; VInt (wstate st1 s)] st2 (same_core_Inv _ _ Hc (le_inv _ _ H1))) as H2.
      unfold emit_core in H2.
      destruct (emit_loop _ s np (handlers st2 s np) st2 false) as [[[st3 ch2] s3] r3]. cbn [fst] in *.
      eapply le_trans; [exact H1|]. eapply le_same_core_l; eauto.
Qed.

Lemma run_seq_run_op_le fuel env ops st : Inv st -> le st (fst (fst (run_seq (run_op fuel env) ops st))).
Proof. apply run_seq_le. intros; apply run_op_le; auto. Qed.

Lemma top_step_le fuel env o st : Inv st -> le st (fst (top_step fuel env o st)).
Proof.
  intros Hi. unfold top_step.
  pose proof (run_op_le fuel env o st Hi) as Hl.
  destruct (run_op fuel env o st) as [[st1 e1] s1]. cbn [fst] in Hl.
  destruct s1; auto.
  set (st1' := set_held st1 []).
  assert (Hc : same_core st1 st1') by (repeat split).
  pose proof (reap_le env false st1' (same_core_Inv _ _ Hc (le_inv _ _ Hl))) as Hl2.
  destruct (reap env false st1') as [st2 e2]. cbn [fst] in *.
  eapply le_trans; eauto. eapply le_same_core_l; eauto.
Qed.

Lemma run_top_le fuel env : forall ops st, Inv st -> le st (fst (run_top fuel env ops st)).
Proof.
  induction ops as [|o r IH]; intros st Hi; cbn [run_top].
  - apply le_refl; auto.
  - pose proof (top_step_le fuel env o st Hi) as H1.
    destruct (top_step fuel env o st) as [st1 e1]. cbn [fst] in H1.
    pose proof (IH st1 (le_inv _ _ H1)) as H2.
    destruct (run_top fuel env r st1) as [st2 e2]. cbn [fst] in *.
    eapply le_trans; eauto.
Qed.

Lemma Inv_init nobj : Inv (init nobj).
Proof. intros s n. unfold keys, handlers, init; cbn. split; [constructor | tauto]. Qed.

(* the handler lists are in connection order (strictly increasing key numbers) after every history *)
Lemma history_connection_order fuel env ops nobj :
  Inv (fst (run_top fuel env ops (init nobj))).
Proof. apply (le_inv (init nobj)). apply run_top_le. apply Inv_init. Qed.

(* ================= the emit theorems ================= *)
Lemma map_c_key_called (evs : list event) (called : list handler) args :
  map (fun c => (c_key c, c_cb c, c_argv c)) (direct_calls evs)
    = map (fun h => (h_key h, h_cb h, argv_of h args)) called ->
  called_keys evs = map h_key called.
Proof.
  intros Hm. unfold called_keys.
  assert (map (fun x : Z * Z * list val => fst (fst x)) (map (fun c => (c_key c, c_cb c, c_argv c)) (direct_calls evs))
          = map (fun x : Z * Z * list val => fst (fst x)) (map (fun h => (h_key h, h_cb h, argv_of h args)) called))
    by (rewrite Hm; auto).
  rewrite !map_map in H. cbn [fst] in H. exact H.
Qed.

Section Core.
  Variables (f : nat) (env : envt) (s n : Z) (vargs : list val) (st st' : state) (ch : list event)
            (status : status) (res : bool).
  Hypothesis Hinv : Inv st.
  Hypothesis Hrun : emit_core f env s n vargs st = (st', ch, status, res).

  Lemma core_spec :
    le st st' /\
    exists called,
      sublist called (handlers st s n) /\
      map (fun c => (c_key c, c_cb c, c_argv c)) (direct_calls ch)
        = map (fun h => (h_key h, h_cb h, argv_of h vargs)) called /\
      (forall h, In h called -> wargs_alive st h) /\
      (status = Done ->
         (forall h, In h (handlers st s n) -> In (h_key h) (keys st' s n) -> wargs_alive st' h -> In h called) /\
         (forall c, In c (direct_calls ch) -> c_ret c <> None) /\
         res = existsb ret_truthy (direct_calls ch)).
  Proof.
    unfold emit_core in Hrun.
    eapply (emit_loop_spec (run_seq (run_op f env))) in Hrun; auto.
    - destruct Hrun as [Hl [called [Hsub [Hsig [Hstart Hdone]]]]].
      split; [exact Hl|]. exists called.
      split; [exact Hsub|]. split; [exact Hsig|].
      split; [intros h Hh; apply Hstart; auto|].
      intros Hd. destruct (Hdone Hd) as [H1 [H2 Hr]].
      split; [exact H1|]. split; [exact H2|]. rewrite Hr. reflexivity.
    - intros ops st0 Hi0. apply run_seq_run_op_le; auto.
    - intros h Hh. apply (proj2 (Hinv s n)). unfold keys. apply in_map; auto.
  Qed.

  Lemma core_le : le st st'.
  Proof. exact (proj1 core_spec). Qed.

  (* the emit calls a subsequence of the handlers connected when it started: in connection
     order, each at most once; one that is still connected when the emit returns (hence was
     connected throughout: a removed key never comes back) and whose weak arguments are alive
     is called exactly once *)
  Lemma core_exactly_once :
    sublist (called_keys ch) (keys st s n) /\
    NoDup (called_keys ch) /\
    (status = Done ->
     forall h, In h (handlers st s n) -> In (h_key h) (keys st' s n) -> wargs_alive st' h ->
               count_occ Z.eq_dec (called_keys ch) (h_key h) = 1%nat).
  Proof.
    destruct core_spec as [Hl [called [Hsub [Hsig [Ha Hdone]]]]].
    pose proof (map_c_key_called _ _ _ Hsig) as Hk.
    assert (Hs : sublist (called_keys ch) (keys st s n)).
    { rewrite Hk. unfold keys. apply sublist_map; auto. }
    assert (Hnd : NoDup (called_keys ch)).
    { eapply sublist_NoDup; eauto. apply Inv_NoDup; auto. }
    split; auto. split; auto.
    intros Hd h Hh Hk' Hal.
    apply NoDup_count_occ'; auto.
    rewrite Hk. apply in_map. apply Hdone; auto.
  Qed.

  Lemma core_never_called :
    (forall k, ~ In k (keys st s n) -> ~ In k (called_keys ch)) /\
    (forall h, In h (handlers st s n) -> ~ wargs_alive st h -> ~ In (h_key h) (called_keys ch)).
  Proof.
    destruct core_spec as [Hl [called [Hsub [Hsig [Ha Hdone]]]]].
    pose proof (map_c_key_called _ _ _ Hsig) as Hk.
    split.
    - intros k Hn Hc. apply Hn. rewrite Hk in Hc. unfold keys.
      eapply sublist_In; [apply sublist_map; eauto | auto].
    - intros h Hh Hna Hc. rewrite Hk in Hc. apply in_map_iff in Hc. destruct Hc as [h' [He Hin]].
      assert (h' = h).
      { eapply (NoDup_keys_inj (handlers st s n)); eauto.
        - apply (Inv_NoDup st s n Hinv).
        - eapply sublist_In; eauto. }
      subst h'. apply Hna. apply Ha; auto.
  Qed.

  Lemma core_result :
    status = Done ->
    res = existsb ret_truthy (direct_calls ch) /\ forall c, In c (direct_calls ch) -> c_ret c <> None.
  Proof.
    intros Hd. destruct core_spec as [Hl [called [Hsub [Hsig [Ha Hdone]]]]].
    destruct (Hdone Hd) as [_ [Hr ->]]. split; auto.
  Qed.

  Lemma core_args :
    forall c, In c (direct_calls ch) ->
      exists h, In h (handlers st s n) /\ c_key c = h_key h /\ c_cb c = h_cb h /\
        c_argv c = map VObj (h_wargs h) ++ map VInt (h_uargs h) ++ vargs
                     ++ match h_uarg h with Some u => [VInt u] | None => [] end.
  Proof.
    destruct core_spec as [Hl [called [Hsub [Hsig [Ha Hdone]]]]].
    intros c Hc.
    assert (Hin : In (c_key c, c_cb c, c_argv c) (map (fun h => (h_key h, h_cb h, argv_of h vargs)) called)).
    { rewrite <- Hsig. apply (in_map (fun c => (c_key c, c_cb c, c_argv c))); auto. }
    apply in_map_iff in Hin. destruct Hin as [h [He Hh]]. inversion He.
    exists h. split; [eapply sublist_In; eauto|]. auto.
  Qed.
End Core.

Section Emit.
  Variables (f : nat) (env : envt) (s n : Z) (args : list Z) (st st' : state) (evs : list event) (status : status).
  Hypothesis Hinv : Inv st.
  Hypothesis Hrun : run_op (S f) env (OEmit s n args) st = (st', evs, status).

  Lemma emit_unfold :
    exists ch res,
      emit_core f env s n (map VInt args) st = (st', ch, status, res) /\
      evs = [EvEmit s n args ch (match status with Done => enc_bool res | Raised c => c end)].
  Proof.
    cbn [run_op] in Hrun. unfold emit_core.
    destruct (emit_loop _ s n (handlers st s n) st false) as [[[st1 ch] s1] res] eqn:El.
    inversion Hrun; subst. eauto.
  Qed.

  Lemma emit_exactly_once_in_order_proof :
    exists ch out,
      evs = [EvEmit s n args ch out] /\
      sublist (called_keys ch) (keys st s n) /\
      NoDup (called_keys ch) /\
      (status = Done ->
       forall h, In h (handlers st s n) -> In (h_key h) (keys st' s n) -> wargs_alive st' h ->
                 count_occ Z.eq_dec (called_keys ch) (h_key h) = 1%nat).
  Proof.
    destruct emit_unfold as [ch [res [El ->]]].
    eexists _, _. split; [reflexivity|]. exact (core_exactly_once _ _ _ _ _ _ _ _ _ _ Hinv El).
  Qed.

  Lemma dead_or_disconnected_never_called_proof :
    exists ch out,
      evs = [EvEmit s n args ch out] /\
      (forall k, ~ In k (keys st s n) -> ~ In k (called_keys ch)) /\
      (forall h, In h (handlers st s n) -> ~ wargs_alive st h -> ~ In (h_key h) (called_keys ch)).
  Proof.
    destruct emit_unfold as [ch [res [El ->]]].
    eexists _, _. split; [reflexivity|]. exact (core_never_called _ _ _ _ _ _ _ _ _ _ Hinv El).
  Qed.

  Lemma emit_result_is_or_proof :
    status = Done ->
    exists ch,
      evs = [EvEmit s n args ch (enc_bool (existsb ret_truthy (direct_calls ch)))] /\
      forall c, In c (direct_calls ch) -> c_ret c <> None.
  Proof.
    intros Hd. destruct emit_unfold as [ch [res [El ->]]].
    destruct (core_result _ _ _ _ _ _ _ _ _ _ Hinv El Hd) as [-> Hr]. subst status. eauto.
  Qed.

  Lemma args_order_proof :
    exists ch out,
      evs = [EvEmit s n args ch out] /\
      forall c, In c (direct_calls ch) ->
        exists h, In h (handlers st s n) /\ c_key c = h_key h /\ c_cb c = h_cb h /\
          c_argv c = map VObj (h_wargs h) ++ map VInt (h_uargs h) ++ map VInt args
                       ++ match h_uarg h with Some u => [VInt u] | None => [] end.
  Proof.
    destruct emit_unfold as [ch [res [El ->]]].
    eexists _, _. split; [reflexivity|]. exact (core_args _ _ _ _ _ _ _ _ _ _ Hinv El).
  Qed.
End Emit.

(* what happens at one handler's turn, in the state reached when its turn comes *)
Lemma call_callback_dead run env args h st :
  ~ wargs_alive st h -> call_callback run env args h st = (st, [], Done, false).
Proof.
  intros Hna. unfold call_callback.
  destruct (existsb (fun w => memz w (st_dead st)) (h_wargs h)) eqn:E; auto.
  apply dead_check_false in E. contradiction.
Qed.

Lemma emit_turn_skipped run env args s n h post st res :
  (~ In (h_key h) (keys st s n)) \/ (In (h_key h) (keys st s n) /\ ~ wargs_alive st h) ->
  emit_loop (call_callback run env args) s n (h :: post) st res
  = emit_loop (call_callback run env args) s n post st res.
Proof.
  intros [Hn | [Hk Hna]]; cbn [emit_loop].
  - apply memz_false in Hn. rewrite Hn. reflexivity.
  - apply memz_In in Hk. rewrite Hk. cbn [negb].
    rewrite (call_callback_dead run env args h st Hna). rewrite orb_false_r.
    destruct (emit_loop (call_callback run env args) s n post st res) as [[[st2 e2] s2] r2]. reflexivity.
Qed.

Lemma emit_turn_called run env args s n h post st res :
  In (h_key h) (keys st s n) -> wargs_alive st h -> st_calls st < e_maxcalls env ->
  exists body ret rest,
    snd (fst (fst (emit_loop (call_callback run env args) s n (h :: post) st res)))
    = EvCall (h_key h) (h_cb h) (argv_of h args) body ret :: rest.
Proof.
  intros Hk Ha Hb. cbn [emit_loop]. apply memz_In in Hk. rewrite Hk. cbn [negb].
  apply dead_check_false in Ha. unfold call_callback. rewrite Ha.
  apply Z.leb_gt in Hb. rewrite Hb.
  destruct (run _ _) as [[st2 body] s2]. destruct s2.
  - destruct (reap env false _) as [st3 died].
    destruct (emit_loop _ s n post st3 _) as [[[st4 e4] s4] r4]. cbn. eauto.
  - cbn. eauto.
Qed.

(* ================= disconnecting what is not connected; unregistered names ================= *)
Lemma filter_all_true {A} (p : A -> bool) l : (forall x, In x l -> p x = true) -> filter p l = l.
Proof.
  induction l as [|x l IH]; cbn; intros Hp; auto.
  rewrite (Hp x (or_introl eq_refl)). f_equal. apply IH. intros; apply Hp; right; auto.
Qed.

Lemma disconnect_by_key_absent s n k st : ~ In k (keys st s n) -> disconnect_by_key s n k st = st.
Proof.
  intros Hn. unfold disconnect_by_key.
  destruct (lookup (st_tab st) (s, n)) as [l|] eqn:El; auto.
  rewrite filter_all_true.
  - rewrite update_same; auto. apply set_tab_same.
  - intros h Hh. apply negb_true_iff. apply Z.eqb_neq. intro He. apply Hn.
    unfold keys, handlers. rewrite El. rewrite <- He. apply in_map; auto.
Qed.

Lemma disconnect_absent_proof fuel env s n cb ua ws us st :
  (forall h, In h (handlers st s n) ->
     ~ (h_cb h = cb /\ h_uarg h = ua /\ h_wargs h = ws /\ h_uargs h = us)) ->
  exists out, run_op fuel env (ODisconnect s n cb ua ws us) st = (st, [EvDis s n cb ua ws us out], Done).
Proof.
  intros Hno.
  assert (run_op fuel env (ODisconnect s n cb ua ws us) st = disconnect s n cb ua ws us st) by (destruct fuel; reflexivity).
  rewrite H. unfold disconnect.
  destruct (negb (forallb _ ws)); [eauto|].
  destruct (find (matches cb ua ws us) (handlers st s n)) as [h|] eqn:Ef; [|eauto].
  apply find_some in Ef. destruct Ef as [Hin Hm]. apply matches_spec in Hm. exfalso. eapply Hno; eauto.
Qed.

Lemma disconnect_key_absent_proof fuel env s n k st :
  ~ In k (keys st s n) ->
  run_op fuel env (ODisconnectKey s n k) st = (st, [EvDk s n k 0], Done).
Proof.
  intros Hn. assert (run_op fuel env (ODisconnectKey s n k) st = (disconnect_by_key s n k st, [EvDk s n k 0], Done))
    by (destruct fuel; reflexivity).
  rewrite H, disconnect_by_key_absent; auto.
Qed.

Lemma forallb_reg ws st : (forall w, In w ws -> In w (st_reg st)) -> forallb (fun w => memz w (st_reg st)) ws = true.
Proof. intros Hr. apply forallb_forall. intros w Hw. apply memz_In. auto. Qed.

Lemma unregistered_proof fuel env s n cb ua ws us st :
  (forall w, In w ws -> In w (st_reg st)) ->
  ~ In n (sup_lookup (st_sup st) (sender_class env s)) ->
  run_op fuel env (OConnect s n cb ua ws us) st = (st, [EvCon s n cb ua ws us (-1)], Raised (-1)).
Proof.
  intros Hr Hn.
  assert (run_op fuel env (OConnect s n cb ua ws us) st = connect env s n cb ua ws us st) by (destruct fuel; reflexivity).
  rewrite H. unfold connect. rewrite forallb_reg; auto. cbn [negb].
  apply memz_false in Hn. rewrite Hn. reflexivity.
Qed.

Lemma connect_registered_proof fuel env s n cb ua ws us st :
  (forall w, In w ws -> In w (st_reg st)) ->
  In n (sup_lookup (st_sup st) (sender_class env s)) ->
  exists st',
    run_op fuel env (OConnect s n cb ua ws us) st = (st', [EvCon s n cb ua ws us (st_nkey st)], Done) /\
    handlers st' s n = handlers st s n ++ [MkHandler (st_nkey st) cb ua ws us] /\
    st_nkey st' = st_nkey st + 1 /\
    forall s' n', (s', n') <> (s, n) -> handlers st' s' n' = handlers st s' n'.
Proof.
  intros Hr Hn.
  assert (run_op fuel env (OConnect s n cb ua ws us) st = connect env s n cb ua ws us st) by (destruct fuel; reflexivity).
  rewrite H. unfold connect. rewrite forallb_reg; auto. cbn [negb].
  apply memz_In in Hn. rewrite Hn. cbn [negb].
  eexists. split; [reflexivity|].
  set (l := handlers st s n ++ _).
  assert (Hh : forall s' n', handlers (set_nkey (set_tab st (update (st_tab st) (s, n) l)) (st_nkey st + 1)) s' n'
                             = if keyeqb (s, n) (s', n') then l else handlers st s' n').
  { intros. rewrite <- handlers_set_tab_update. reflexivity. }
  split; [|split].
  - rewrite Hh, keyeqb_refl. reflexivity.
  - reflexivity.
  - intros s' n' Hne. rewrite Hh. rewrite (proj2 (keyeqb_neq (s, n) (s', n'))); auto.
Qed.

(* registration is per class and replaces the earlier list *)
Lemma sup_lookup_update t c v c' :
  sup_lookup (sup_update t c v) c' = if c =? c' then v else sup_lookup t c'.
Proof.
  induction t as [|[c0 v0] t IH]; cbn [sup_update sup_lookup].
  - destruct (c =? c'); auto.
  - destruct (c0 =? c) eqn:E0.
    + apply Z.eqb_eq in E0; subst c0. cbn [sup_lookup]. destruct (c =? c'); auto.
    + cbn [sup_lookup]. destruct (c0 =? c') eqn:E1.
      * apply Z.eqb_eq in E1; subst c0. rewrite Z.eqb_sym, E0. reflexivity.
      * apply IH.
Qed.

(* a removed key never comes back: "still connected after" means "connected throughout" *)
Lemma removed_keys_stay_removed_op fuel env o st s n k :
  Inv st -> k < st_nkey st -> ~ In k (keys st s n) -> ~ In k (keys (fst (fst (run_op fuel env o st))) s n).
Proof. intros Hi Hk Hn Hin. apply Hn. eapply le_keys; eauto. apply run_op_le; auto. Qed.

Lemma removed_keys_stay_removed_history fuel env ops st s n k :
  Inv st -> k < st_nkey st -> ~ In k (keys st s n) -> ~ In k (keys (fst (run_top fuel env ops st)) s n).
Proof. intros Hi Hk Hn Hin. apply Hn. eapply le_keys; eauto. apply run_top_le; auto. Qed.

(* dropping the last reference to an object nobody holds: it dies at once and exactly the
   handlers that reference it weakly are removed *)
Lemma kill_unheld_proof fuel env o st :
  In o (st_reg st) -> ~ In o (st_held st) -> cyclic env o = false -> st_pend st = [] ->
  exists st',
    run_op fuel env (OKill o) st = (st', [EvKill o 0; EvDied o], Done) /\
    In o (st_dead st') /\
    forall s n, handlers st' s n = filter (fun h => negb (memz o (h_wargs h))) (handlers st s n).
Proof.
  intros Hr Hh Hc Hp.
  assert (run_op fuel env (OKill o) st = kill env o st) by (destruct fuel; reflexivity).
  rewrite H. unfold kill. apply memz_In in Hr. rewrite Hr. rewrite Hp. cbn [insert_sorted].
  unfold reap. cbn [st_pend set_pend set_reg filter].
  assert (Hd : dying env false (set_pend (set_reg st (filter (fun x => negb (x =? o)) (st_reg st))) [o]) o = true).
  { unfold dying. cbn [st_held set_pend set_reg]. apply memz_false in Hh. rewrite Hh, Hc. reflexivity. }
  rewrite Hd. cbn [negb fold_left map].
  eexists. split; [reflexivity|]. split; [cbn; auto|].
  intros s n. rewrite handlers_die. reflexivity.
Qed.
