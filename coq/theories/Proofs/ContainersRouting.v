(* C08 - proofs, part 3: input follows the focus path (keypress, render), unhandled keys come back.
   The statements assume that no ListBox has a pending focus request (set_focus_pending /
   set_focus_valign_pending): the harness renders after every operation, which completes them. *)
From Coq Require Import ZArith List Bool Lia ZifyBool.
Import ListNotations.
From Urwid Require Import PyBase PyList c08_container_gen Containers ContainersBase ContainersSel ContainersStable.
From Urwid Require MonitoredList PyListFacts MonitoredListProofs.
Open Scope Z_scope.
Arguments Z.add : simpl never. Arguments Z.sub : simpl never. Arguments Z.mul : simpl never.
Arguments Z.ltb : simpl never. Arguments Z.leb : simpl never. Arguments Z.eqb : simpl never.

(* ---------- inversion of monadic runs ---------- *)
Lemma mbind_inv {A B} (m : M A) (f : A -> M B) h h' r :
  mbind m f h = (h', ROk r) -> exists h1 a, m h = (h1, ROk a) /\ f a h1 = (h', ROk r).
Proof. unfold mbind. destruct (m h) as [h1 [a|e]]; [|discriminate]. intros H. exists h1, a. split; [reflexivity|exact H]. Qed.
Lemma rd_inv id h h1 n : rd id h = (h1, ROk n) -> h1 = h /\ getn h id = Some n.
Proof. unfold rd. destruct (getn h id); [|discriminate]. intros H. injection H as <- <-. split; reflexivity. Qed.
Lemma get_heap_inv h h1 x : get_heap h = (h1, ROk x) -> h1 = h /\ x = h.
Proof. unfold get_heap. intros H. injection H as <- <-. split; reflexivity. Qed.
Lemma ret_inv {A} (a b : A) h h1 : ret a h = (h1, ROk b) -> h1 = h /\ b = a.
Proof. unfold ret. intros H. injection H as <- <-. split; reflexivity. Qed.
Lemma raise_inv {A} e h h1 (b : A) : raise e h = (h1, ROk b) -> False.
Proof. unfold raise. discriminate. Qed.

(* ---------- the focus path ---------- *)
Inductive OnPath (h : heap) (r : Z) : Z -> Prop :=
  | op_root : OnPath h r r
  | op_step : forall n c, OnPath h r n -> focus_child h n = Some c -> OnPath h r c.

Lemma OnPath_cons h r c x : focus_child h r = Some c -> OnPath h c x -> OnPath h r x.
Proof.
  intros Hf Hp. induction Hp as [|n c' Hp IH Hc].
  - eapply op_step; [apply op_root|exact Hf].
  - eapply op_step; [exact IH|exact Hc].
Qed.

Definition NoPending (h : heap) : Prop := forall id n, getn h id = Some n -> pending n = false.

(* a write of pref_col only *)
Lemma focus_child_set_pref h id n p x :
  getn h id = Some n -> focus_child (setn h id (set_pref n p)) x = focus_child h x.
Proof.
  intros G. unfold focus_child. rewrite getn_setn.
  destruct ((x =? id) && (0 <=? id) && (id <? zlen h)) eqn:E; [|reflexivity].
  assert (x = id) by lia. subst x. rewrite G. reflexivity.
Qed.
Lemma OnPath_set_pref h id n p r x :
  getn h id = Some n -> OnPath (setn h id (set_pref n p)) r x -> OnPath h r x.
Proof.
  intros G Hp. induction Hp as [|m c Hp IH Hc]; [apply op_root|].
  rewrite (focus_child_set_pref h id n p m G) in Hc. eapply op_step; eassumption.
Qed.
Lemma NoPending_set_pref h id n p : getn h id = Some n -> NoPending h -> NoPending (setn h id (set_pref n p)).
Proof.
  intros G H x m Gx. rewrite getn_setn in Gx.
  destruct ((x =? id) && (0 <=? id) && (id <? zlen h)); [|exact (H x m Gx)].
  injection Gx as <-. exact (H id n G).
Qed.

Lemma kp_ok_getn f id key h h' r : kp f id key h = (h', ROk r) -> exists n, getn h id = Some n.
Proof.
  destruct f; cbn [kp]; [intros H; exfalso; eapply raise_inv; exact H|].
  intros H. apply mbind_inv in H. destruct H as (h1 & n & H1 & _). apply rd_inv in H1. exists n. apply H1.
Qed.

Lemma getn_neg h id : id < 0 -> getn h id = None.
Proof. intros H. unfold getn, nthz. assert (E : id <? 0 = true) by lia. now rewrite E. Qed.

Lemma focus_child_list h id n c :
  getn h id = Some n -> is_empty n = false -> nthz (items n) (nfocus n) = Some c ->
  match nk n with KPile | KCols | KGrid | KLBox => focus_child h id = Some c | _ => True end.
Proof.
  intros G He Hn. unfold focus_child. rewrite G. unfold is_empty in He.
  destruct (nk n); try exact I; destruct (items n); try discriminate; exact Hn.
Qed.

(* w_pref either fails or writes the pref of the node it finds *)
Lemma w_pref_inv id p h h1 u : w_pref id p h = (h1, ROk u) -> exists n, getn h id = Some n /\ h1 = setn h id (set_pref n p).
Proof.
  unfold w_pref, w_node. destruct (getn h id) as [n|]; [|discriminate]. intros H. injection H as <- _. exists n. split; reflexivity.
Qed.

(* ---------- a keypress is offered only along the focus path ---------- *)
Theorem key_only_on_focus_path_nopending f :
  forall id key h h' k1 off, NoPending h -> kp f id key h = (h', ROk (k1, off)) ->
    forall l, In l off -> OnPath h id l.
Proof.
  induction f as [|f IH]; intros id key h h' k1 off HN H l Hl; cbn [kp] in H; [exfalso; eapply raise_inv; exact H|].
  apply mbind_inv in H. destruct H as (h0 & n & Hrd & H). apply rd_inv in Hrd. destruct Hrd as [-> G].
  (* every continuation returns the offered list of the single recursive call *)
  assert (Hsub : forall c hc hc' r, focus_child h id = Some c -> NoPending hc ->
                   (forall x, OnPath hc c x -> OnPath h c x) ->
                   kp f c key hc = (hc', ROk r) -> In l (snd r) -> OnPath h id l).
  { intros c hc hc' [k2 off2] Hfc HNc Htr Hk Hin. eapply OnPath_cons; [exact Hfc|]. apply Htr.
    eapply IH; [exact HNc|exact Hk|exact Hin]. }
  assert (Hun : forall hc hc' r, unhandled key hc = (hc', ROk r) -> In l (snd r) -> False).
  { intros hc hc' r Hu Hin. apply ret_inv in Hu. destruct Hu as [_ ->]. exact Hin. }
  destruct (is_dis n) eqn:Edis; [exfalso; eapply Hun; [exact H|exact Hl]|].
  destruct (nk n) eqn:K.
  - (* leaf *) apply ret_inv in H. destruct H as [_ Hr]. injection Hr as _ ->. destruct Hl as [<-|[]]. apply op_root.
  - (* pile *)
    destruct (is_empty n) eqn:Ee; [exfalso; eapply Hun; [exact H|exact Hl]|].
    apply mbind_inv in H. destruct H as (h1 & r & Hr & H).
    assert (Hoff : In l (snd r)).
    { destruct (negb (is_vert (cmd_of (fst r)))).
      - apply ret_inv in H. destruct H as [_ <-]. exact Hl.
      - apply mbind_inv in H. destruct H as (h2 & moved & _ & H). apply ret_inv in H. destruct H as [_ Hq]. injection Hq as _ <-. exact Hl. }
    destruct (n_selc n); [|exfalso; eapply Hun; eassumption].
    destruct (nthz (items n) (nfocus n)) as [c|] eqn:En; [|exfalso; eapply raise_inv; exact Hr].
    eapply Hsub; [|exact HN|auto|exact Hr|exact Hoff].
    pose proof (focus_child_list h id n c G Ee En) as Hf. rewrite K in Hf. exact Hf.
  - (* columns *)
    destruct (is_empty n) eqn:Ee; [exfalso; eapply Hun; [exact H|exact Hl]|].
    destruct (nthz (items n) (nfocus n)) as [w|] eqn:En; [|exfalso; eapply raise_inv; exact H].
    pose proof (focus_child_list h id n w G Ee En) as Hf. rewrite K in Hf.
    apply mbind_inv in H. destruct H as (h1 & u & Hw & H).
    apply mbind_inv in H. destruct H as (h1' & hh & Hg & H). apply get_heap_inv in Hg. destruct Hg as [-> ->].
    apply mbind_inv in H. destruct H as (h2 & r & Hr & H).
    assert (Hoff : In l (snd r)).
    { destruct (negb (is_horiz (cmd_of (fst r)))).
      - apply ret_inv in H. destruct H as [_ <-]. exact Hl.
      - apply mbind_inv in H. destruct H as (h3 & moved & _ & H). apply ret_inv in H. destruct H as [_ Hq]. injection Hq as _ <-. exact Hl. }
    destruct (sel f h1 w); [|exfalso; eapply Hun; eassumption].
    destruct (negb (is_vert_or_page (cmd_of (Some key)))).
    + apply w_pref_inv in Hw. destruct Hw as (n0 & G0 & ->). rewrite G in G0. injection G0 as <-.
      eapply Hsub; [exact Hf|apply NoPending_set_pref; eassumption| |exact Hr|exact Hoff].
      intros x. apply OnPath_set_pref. exact G.
    + apply ret_inv in Hw. destruct Hw as [-> _]. eapply Hsub; [exact Hf|exact HN|auto|exact Hr|exact Hoff].
  - (* gridflow *)
    destruct (is_empty n) eqn:Ee; [exfalso; eapply Hun; [exact H|exact Hl]|].
    apply mbind_inv in H. destruct H as (h1 & hh & Hg & H). apply get_heap_inv in Hg. destruct Hg as [-> ->].
    destruct (find_row (grid_rows n) 0 (nfocus n)) as [[rr cells]|]; [|exfalso; eapply raise_inv; exact H].
    apply mbind_inv in H. destruct H as (h2 & r & Hr & H).
    assert (Hoff : In l (snd r)).
    { destruct (any_sel f h n && is_horiz (cmd_of (fst r))).
      - match type of H with (match ?x with _ => _ end) _ = _ => destruct x end.
        + apply mbind_inv in H. destruct H as (h3 & u & _ & H). apply ret_inv in H. destruct H as [_ Hq]. injection Hq as _ <-. exact Hl.
        + apply ret_inv in H. destruct H as [_ <-]. exact Hl.
      - destruct (any_sel f h n && negb (is_vert (cmd_of (fst r)))).
        + apply ret_inv in H. destruct H as [_ <-]. exact Hl.
        + match type of H with (match ?x with _ => _ end) _ = _ => destruct x end.
          * match type of H with (match ?x with _ => _ end) _ = _ => destruct x end; [|exfalso; eapply raise_inv; exact H].
            apply mbind_inv in H. destruct H as (h3 & u & _ & H). apply ret_inv in H. destruct H as [_ Hq]. injection Hq as _ <-. exact Hl.
          * apply ret_inv in H. destruct H as [_ <-]. exact Hl. }
    destruct (any_sel f h n && sel f h (cell_id n (nfocus n))); [|exfalso; eapply Hun; eassumption].
    unfold cell_id in Hr. destruct (nthz (items n) (nfocus n)) as [c|] eqn:En.
    + pose proof (focus_child_list h id n c G Ee En) as Hf. rewrite K in Hf.
      eapply Hsub; [exact Hf|exact HN|auto|exact Hr|exact Hoff].
    + exfalso. apply kp_ok_getn in Hr. destruct Hr as (m & Gm). rewrite getn_neg in Gm by lia. discriminate.
  - (* frame *)
    apply mbind_inv in H. destruct H as (h1 & hh & Hg & H). apply get_heap_inv in Hg. destruct Hg as [-> ->].
    assert (Hfc : forall c, (n_part n =? 100 = true -> c = n_a n) -> (n_part n =? 100 = false -> n_part n =? 101 = true -> n_b n = Some c) ->
                   (n_part n =? 100 = false -> n_part n =? 101 = false -> n_d n = Some c) -> focus_child h id = Some c).
    { intros c H0 H1 H2. unfold focus_child. rewrite G, K. destruct (n_part n =? 100) eqn:E0; [rewrite H0; reflexivity|].
      destruct (n_part n =? 101) eqn:E1; [apply H1; reflexivity|apply H2; reflexivity]. }
    destruct (n_part n =? 101) eqn:E1.
    + destruct (n_b n) as [hd|] eqn:Eb.
      * destruct (sel f h hd); [|exfalso; eapply Hun; eassumption].
        eapply (Hsub hd h h' (k1, off)); [apply Hfc; intros; try congruence; lia|exact HN|auto|exact H|exact Hl].
      * destruct (n_part n =? 102) eqn:E2; [lia|]. cbn in H.
        assert (E0 : n_part n =? 100 = false) by lia. rewrite E0 in H. cbn in H. exfalso; eapply Hun; eassumption.
    + destruct (n_part n =? 102) eqn:E2.
      * destruct (n_d n) as [ft|] eqn:Ed.
        -- destruct (sel f h ft); [|exfalso; eapply Hun; eassumption].
           eapply (Hsub ft h h' (k1, off)); [apply Hfc; intros; try congruence; lia|exact HN|auto|exact H|exact Hl].
        -- assert (E0 : n_part n =? 100 = false) by lia. rewrite E0 in H. cbn in H. exfalso; eapply Hun; eassumption.
      * destruct (n_part n =? 100) eqn:E0; cbn in H; [|exfalso; eapply Hun; eassumption].
        destruct (sel f h (n_a n)); [|exfalso; eapply Hun; eassumption].
        eapply (Hsub (n_a n) h h' (k1, off)); [apply Hfc; intros; try congruence; lia|exact HN|auto|exact H|exact Hl].
  - (* overlay *)
    eapply (Hsub (n_a n) h h' (k1, off)); [unfold focus_child; rewrite G, K; reflexivity|exact HN|auto|exact H|exact Hl].
  - (* list box: nothing is pending, so the key goes straight to the focus widget *)
    rewrite (HN id n G) in H.
    apply mbind_inv in H. destruct H as (h1 & u & Hu & H). apply ret_inv in Hu. destruct Hu as [-> _].
    apply mbind_inv in H. destruct H as (h1 & hh & Hg & H). apply get_heap_inv in Hg. destruct Hg as [-> ->].
    destruct (focus_child h id) as [fw|] eqn:Hfc; [|exfalso; eapply Hun; [exact H|exact Hl]].
    apply mbind_inv in H. destruct H as (h2 & r & Hr & H).
    assert (Hoff : In l (snd r)).
    { destruct (fst r) as [kk|].
      - destruct (is_vert (cmd_of (Some kk))).
        + apply mbind_inv in H. destruct H as (h3 & ua & _ & H).
          apply mbind_inv in H. destruct H as (h4 & n2 & _ & H).
          apply mbind_inv in H. destruct H as (h5 & hh2 & _ & H).
          match type of H with (match ?x with _ => _ end) _ = _ => destruct x end.
          * apply mbind_inv in H. destruct H as (h6 & u2 & _ & H). apply ret_inv in H. destruct H as [_ Hq]. injection Hq as _ <-. exact Hl.
          * apply ret_inv in H. destruct H as [_ <-]. exact Hl.
        + destruct ((cmd_of (Some kk) =? C_PGUP) || (cmd_of (Some kk) =? C_PGDN)); [exfalso; eapply raise_inv; exact H|].
          destruct ((cmd_of (Some kk) =? C_MAXL) || (cmd_of (Some kk) =? C_MAXR)).
          * apply mbind_inv in H. destruct H as (h3 & n2 & _ & H).
            apply mbind_inv in H. destruct H as (h4 & ub & _ & H).
            apply mbind_inv in H. destruct H as (h5 & n3 & _ & H).
            apply mbind_inv in H. destruct H as (h6 & u2 & _ & H). apply ret_inv in H. destruct H as [_ Hq]. injection Hq as _ <-. exact Hl.
          * apply ret_inv in H. destruct H as [_ <-]. exact Hl.
      - apply mbind_inv in H. destruct H as (h3 & hh2 & _ & H).
        apply mbind_inv in H. destruct H as (h4 & uc & _ & H). apply ret_inv in H. destruct H as [_ <-]. exact Hl. }
    destruct (sel f h fw); [|exfalso; eapply Hun; eassumption].
    eapply Hsub; [reflexivity|exact HN|auto|exact Hr|exact Hoff].
Qed.

(* ---------- an unhandled key comes back unchanged ---------- *)
Definition nonnav (key : list Z) : bool := negb (existsb (Z.eqb (cmd_of (Some key))) [1; 2; 3; 4; 5; 6; 7; 8]).

Lemma nonnav_facts key : nonnav key = true ->
  is_vert (cmd_of (Some key)) = false /\ is_horiz (cmd_of (Some key)) = false /\
  is_vert_or_page (cmd_of (Some key)) = false /\
  (cmd_of (Some key) =? C_UP) = false /\ (cmd_of (Some key) =? C_LEFT) = false /\
  ((cmd_of (Some key) =? C_PGUP) || (cmd_of (Some key) =? C_PGDN)) = false /\
  ((cmd_of (Some key) =? C_MAXL) || (cmd_of (Some key) =? C_MAXR)) = false.
Proof.
  unfold nonnav, is_vert, is_horiz, is_vert_or_page, C_UP, C_DOWN, C_LEFT, C_RIGHT, C_PGUP, C_PGDN, C_MAXL, C_MAXR.
  cbn [existsb]. generalize (cmd_of (Some key)). intros c H. repeat split; lia.
Qed.

Lemma nthz_in {A} (l : list A) i x : nthz l i = Some x -> In x l.
Proof. unfold nthz. destruct (i <? 0); [discriminate|]. apply nth_error_In. Qed.

(* no leaf that was offered the key handles it *)
Definition NoHandler (h : heap) (key : list Z) (off : list Z) : Prop :=
  forall l n, In l off -> getn h l = Some n -> handles n key = false.

(* the keys a leaf handles are never written: NoHandler can be moved along any model function *)
Lemma NoHandler_static h h1 key off : InvI (same_static h) h1 -> NoHandler h key off -> NoHandler h1 key off.
Proof.
  intros HI H l m Hl Gl. destruct (HI l m Gl) as (n0 & G0 & _ & Hk & _).
  unfold handles. rewrite Hk. exact (H l n0 Hl G0).
Qed.
Lemma NoHandler_back h h1 key off : InvI (same_static h) h1 -> zlen h1 = zlen h -> NoHandler h1 key off -> NoHandler h key off.
Proof.
  intros HI Hz H l n Hl G.
  destruct (getn h1 l) as [m|] eqn:Gm.
  - destruct (HI l m Gm) as (n0 & G0 & _ & Hk & _). rewrite G in G0. injection G0 as <-.
    unfold handles. rewrite <- Hk. exact (H l m Hl Gm).
  - exfalso. unfold getn in *. pose proof (nthz_bounds _ _ _ G) as Hb. rewrite <- Hz in Hb.
    unfold nthz in Gm. destruct (l <? 0) eqn:E; [lia|]. apply nth_error_None in Gm. unfold zlen in Hb. lia.
Qed.

Lemma InvI_set_pref h id n p : getn h id = Some n -> InvI (same_static h) (setn h id (set_pref n p)).
Proof.
  intros G x m Gx. rewrite getn_setn in Gx. destruct ((x =? id) && (0 <=? id) && (id <? zlen h)) eqn:E.
  - injection Gx as <-. assert (x = id) by lia. subst x. exists n. repeat split. exact G.
  - exists m. repeat split. exact Gx.
Qed.

(* THE clause, with no premise on pending requests or caches: whenever keypress returns (no model error) with a key
   that is not bound to a navigation command and no leaf that was offered the key handles it, the key comes back. *)
Theorem unhandled_key_unchanged_all f :
  forall id key h h' k1 off, nonnav key = true ->
    kp f id key h = (h', ROk (k1, off)) -> NoHandler h key off -> k1 = Some key.
Proof.
  induction f as [|f IH]; intros id key h h' k1 off Hnn H Hnh; cbn [kp] in H; [exfalso; eapply raise_inv; exact H|].
  destruct (nonnav_facts key Hnn) as (Nv & Nh & Nvp & Nup & Nleft & Npg & Nmax).
  apply mbind_inv in H. destruct H as (h0 & n & Hrd & H). apply rd_inv in Hrd. destruct Hrd as [-> G].
  assert (Hun : forall hc hc' r, unhandled key hc = (hc', ROk r) -> r = (Some key, [])).
  { intros hc hc' r Hu. apply ret_inv in Hu. apply Hu. }
  destruct (is_dis n) eqn:Edis; [apply Hun in H; congruence|].
  destruct (nk n) eqn:K.
  - (* leaf *) apply ret_inv in H. destruct H as [_ Hr]. injection Hr as -> ->.
    rewrite (Hnh id n (or_introl eq_refl) G). reflexivity.
  - (* pile *)
    destruct (is_empty n) eqn:Ee; [apply Hun in H; congruence|].
    apply mbind_inv in H. destruct H as (h1 & r & Hr & H).
    assert (Hoff : snd r = off).
    { destruct (negb (is_vert (cmd_of (fst r)))).
      - apply ret_inv in H. destruct H as [_ <-]. reflexivity.
      - apply mbind_inv in H. destruct H as (h2 & moved & _ & H). apply ret_inv in H. destruct H as [_ Hq]. injection Hq as _ <-. reflexivity. }
    assert (Hk : fst r = Some key).
    { destruct (n_selc n); [|apply Hun in Hr; subst r; reflexivity].
      destruct (nthz (items n) (nfocus n)) as [c|] eqn:En; [|exfalso; eapply raise_inv; exact Hr].
      destruct r as [k2 off2]. cbn [fst snd] in *. subst off2. eapply IH; eauto. }
    rewrite Hk, Nv in H. cbn [negb] in H. apply ret_inv in H. destruct H as [_ Hq]. rewrite <- Hq in Hk. exact Hk.
  - (* columns *)
    destruct (is_empty n) eqn:Ee; [apply Hun in H; congruence|].
    destruct (nthz (items n) (nfocus n)) as [w|] eqn:En; [|exfalso; eapply raise_inv; exact H].
    apply mbind_inv in H. destruct H as (h1 & u & Hw & H).
    apply mbind_inv in H. destruct H as (h1' & hh & Hg & H). apply get_heap_inv in Hg. destruct Hg as [-> ->].
    apply mbind_inv in H. destruct H as (h2 & r & Hr & H).
    assert (Hoff : snd r = off).
    { destruct (negb (is_horiz (cmd_of (fst r)))).
      - apply ret_inv in H. destruct H as [_ <-]. reflexivity.
      - apply mbind_inv in H. destruct H as (h3 & moved & _ & H). apply ret_inv in H. destruct H as [_ Hq]. injection Hq as _ <-. reflexivity. }
    assert (Hk : fst r = Some key).
    { destruct (sel f h1 w); [|apply Hun in Hr; subst r; reflexivity].
      destruct r as [k2 off2]. cbn [fst snd] in *. subst off2.
      rewrite Nvp in Hw. cbn [negb] in Hw.
      apply w_pref_inv in Hw. destruct Hw as (n0 & G0 & ->). rewrite G in G0. injection G0 as <-.
      eapply IH; [exact Hnn|exact Hr|]. eapply NoHandler_static; [apply InvI_set_pref; exact G|exact Hnh]. }
    rewrite Hk, Nh in H. cbn [negb] in H. apply ret_inv in H. destruct H as [_ Hq]. rewrite <- Hq in Hk. exact Hk.
  - (* gridflow *)
    destruct (is_empty n) eqn:Ee; [apply Hun in H; congruence|].
    apply mbind_inv in H. destruct H as (h1 & hh & Hg & H). apply get_heap_inv in Hg. destruct Hg as [-> ->].
    destruct (find_row (grid_rows n) 0 (nfocus n)) as [[rr cells]|]; [|exfalso; eapply raise_inv; exact H].
    apply mbind_inv in H. destruct H as (h2 & r & Hr & H).
    assert (Hkr : snd r = off -> fst r = Some key).
    { intros Hoff. destruct (any_sel f h n && sel f h (cell_id n (nfocus n))); [|apply Hun in Hr; subst r; reflexivity].
      destruct r as [k2 off2]. cbn [fst snd] in *. subst off2. eapply IH; eauto. }
    destruct (any_sel f h n) eqn:Ea; cbn [andb] in H.
    + destruct (is_horiz (cmd_of (fst r))) eqn:Eh.
      * assert (Hoff : snd r = off).
        { match type of H with (match ?x with _ => _ end) _ = _ => destruct x end.
          - apply mbind_inv in H. destruct H as (h3 & u & _ & H). apply ret_inv in H. destruct H as [_ Hq]. injection Hq as _ <-. reflexivity.
          - apply ret_inv in H. destruct H as [_ <-]. reflexivity. }
        rewrite (Hkr Hoff) in Eh. congruence.
      * destruct (negb (is_vert (cmd_of (fst r)))) eqn:Ev.
        -- apply ret_inv in H. destruct H as [_ Hq]. subst r. apply Hkr. reflexivity.
        -- assert (Hoff : snd r = off).
           { match type of H with (match ?x with _ => _ end) _ = _ => destruct x end.
             - match type of H with (match ?x with _ => _ end) _ = _ => destruct x end; [|exfalso; eapply raise_inv; exact H].
               apply mbind_inv in H. destruct H as (h3 & u & _ & H). apply ret_inv in H. destruct H as [_ Hq]. injection Hq as _ <-. reflexivity.
             - apply ret_inv in H. destruct H as [_ <-]. reflexivity. }
           rewrite (Hkr Hoff), Nv in Ev. discriminate.
    + (* no cell is selectable: the display pile is not selectable and returns the key *)
      apply Hun in Hr. subst r. cbn [fst snd] in H.
      match type of H with (match ?x with _ => _ end) _ = _ => destruct x eqn:Ef end.
      * exfalso. apply find_some in Ef. destruct Ef as [_ Ef].
        assert (row_sel f h n l = false); [|congruence].
        apply not_true_is_false. intros Ht. unfold row_sel in Ht. apply existsb_exists in Ht.
        destruct Ht as (i & _ & Hi). unfold cell_id in Hi.
        destruct (nthz (items n) i) as [c|] eqn:En.
        -- unfold any_sel in Ea. assert (existsb (sel f h) (items n) = true); [|congruence].
           apply existsb_exists. exists c. split; [eapply nthz_in; exact En|exact Hi].
        -- destruct f; cbn [sel] in Hi; [discriminate|]. rewrite getn_neg in Hi by lia. discriminate.
      * apply ret_inv in H. destruct H as [_ Hq]. congruence.
  - (* frame *)
    apply mbind_inv in H. destruct H as (h1 & hh & Hg & H). apply get_heap_inv in Hg. destruct Hg as [-> ->].
    destruct (if n_part n =? 101 then n_b n else None) as [hd|].
    + destruct (sel f h hd); [eapply IH; eauto|apply Hun in H; congruence].
    + destruct (if n_part n =? 102 then n_d n else None) as [ft|].
      * destruct (sel f h ft); [eapply IH; eauto|apply Hun in H; congruence].
      * destruct (negb (n_part n =? 100)); [apply Hun in H; congruence|].
        destruct (sel f h (n_a n)); [eapply IH; eauto|apply Hun in H; congruence].
  - (* overlay *) eapply IH; eauto.
  - (* list box: a pending focus request is completed first; it writes no leaf data *)
    apply mbind_inv in H. destruct H as (h1 & u & Hu & H).
    assert (Hnh1 : NoHandler h1 key off).
    { destruct (pending n).
      - pose proof (lb_complete_static h f id true h (same_static_init h)) as HI. rewrite Hu in HI. cbn [fst] in HI.
        eapply NoHandler_static; eassumption.
      - apply ret_inv in Hu. destruct Hu as [-> _]. exact Hnh. }
    clear Hu Hnh G. revert H Hnh1. generalize h1. clear h1 h. intros h H Hnh.
    apply mbind_inv in H. destruct H as (h1 & hh & Hg & H). apply get_heap_inv in Hg. destruct Hg as [-> ->].
    destruct (focus_child h id) as [fw|] eqn:Hfc; [|apply Hun in H; congruence].
    apply mbind_inv in H. destruct H as (h2 & r & Hr & H).
    assert (Hkr : snd r = off -> fst r = Some key).
    { intros Hoff. destruct (sel f h fw); [|apply Hun in Hr; subst r; reflexivity].
      destruct r as [k2 off2]. cbn [fst snd] in *. subst off2. eapply IH; eauto. }
    destruct (fst r) as [kk|] eqn:Ek.
    + destruct (is_vert (cmd_of (Some kk))) eqn:Ev.
      * assert (Hoff : snd r = off).
        { apply mbind_inv in H. destruct H as (h3 & ua & _ & H).
          apply mbind_inv in H. destruct H as (h4 & n2 & _ & H).
          apply mbind_inv in H. destruct H as (h5 & hh2 & _ & H).
          match type of H with (match ?x with _ => _ end) _ = _ => destruct x end.
          - apply mbind_inv in H. destruct H as (h6 & u2 & _ & H). apply ret_inv in H. destruct H as [_ Hq]. injection Hq as _ <-. reflexivity.
          - apply ret_inv in H. destruct H as [_ <-]. reflexivity. }
        specialize (Hkr Hoff). injection Hkr as ->. congruence.
      * destruct ((cmd_of (Some kk) =? C_PGUP) || (cmd_of (Some kk) =? C_PGDN)) eqn:Ep; [exfalso; eapply raise_inv; exact H|].
        destruct ((cmd_of (Some kk) =? C_MAXL) || (cmd_of (Some kk) =? C_MAXR)) eqn:Em.
        -- assert (Hoff : snd r = off).
           { apply mbind_inv in H. destruct H as (h3 & n2 & _ & H).
             apply mbind_inv in H. destruct H as (h4 & ub & _ & H).
             apply mbind_inv in H. destruct H as (h5 & n3 & _ & H).
             apply mbind_inv in H. destruct H as (h6 & u2 & _ & H). apply ret_inv in H. destruct H as [_ Hq]. injection Hq as _ <-. reflexivity. }
           specialize (Hkr Hoff). injection Hkr as ->. congruence.
        -- apply ret_inv in H. destruct H as [_ Hq]. subst r. cbn [fst snd] in *. subst k1. apply Hkr. reflexivity.
    + assert (Hoff : snd r = off).
      { apply mbind_inv in H. destruct H as (h3 & hh2 & _ & H).
        apply mbind_inv in H. destruct H as (h4 & uc & _ & H). apply ret_inv in H. destruct H as [_ <-]. reflexivity. }
      specialize (Hkr Hoff). discriminate.
Qed.

(* ---------- only the focus path is rendered with focus ---------- *)
Definition is_list_kind_b (k : kind) : bool := match k with KPile | KCols | KGrid | KLBox => true | _ => false end.
Lemma nthz_cons_succ {A} (a : A) l i : 0 <= i -> nthz (a :: l) (i + 1) = nthz l i.
Proof.
  intros H. unfold nthz. assert (E1 : i + 1 <? 0 = false) by lia. assert (E2 : i <? 0 = false) by lia. rewrite E1, E2.
  replace (Z.to_nat (i + 1)) with (S (Z.to_nat i)) by lia. reflexivity.
Qed.

Lemma lb_visible_nopending f id focus h h' v :
  NoPending h -> lb_visible f id focus h = (h', ROk v) -> h' = h.
Proof.
  intros HN H. unfold lb_visible in H.
  apply mbind_inv in H. destruct H as (h0 & n & Hrd & H). apply rd_inv in Hrd. destruct Hrd as [-> G].
  rewrite (HN id n G) in H.
  apply mbind_inv in H. destruct H as (h1 & u & Hu & H). apply ret_inv in Hu. destruct Hu as [-> _].
  unfold lb_visible0 in H.
  apply mbind_inv in H. destruct H as (h1 & hh & Hg & H). apply get_heap_inv in Hg. destruct Hg as [-> ->].
  destruct (focus_child h id); [|apply ret_inv in H; apply H].
  apply mbind_inv in H. destruct H as (h1 & u1 & Hc & H). apply ret_inv in H. destruct H as [-> _].
  destruct (sel f h z && focus && has_gcc h z).
  - unfold gcc_m in Hc. destruct (gcc f h z); [|discriminate]. injection Hc as <-. reflexivity.
  - apply ret_inv in Hc. apply Hc.
Qed.

Section Render.
Variable f : nat.
Hypothesis IHrn : forall id focus h h' l, NoPending h -> rn f id focus h = (h', ROk l) ->
  h' = h /\ forall x, In x l -> focus = true /\ OnPath h id x.

Lemma rn_list_nopending keep l0 : forall j fi focus h h' out,
  NoPending h -> 0 <= j -> rn_list (rn f) keep l0 j fi focus h = (h', ROk out) ->
  h' = h /\ forall x, In x out -> focus = true /\ exists c, nthz l0 (fi - j) = Some c /\ OnPath h c x.
Proof.
  induction l0 as [|c r IH]; intros j fi focus h h' out HN Hj H; cbn [rn_list] in H.
  - apply ret_inv in H. destruct H as [-> ->]. split; [reflexivity|]. intros x [].
  - apply mbind_inv in H. destruct H as (h1 & a & Ha & H).
    apply mbind_inv in H. destruct H as (h2 & b & Hb & H). apply ret_inv in H. destruct H as [-> ->].
    assert (Ha' : h1 = h /\ forall x, In x a -> focus && (j =? fi) = true /\ OnPath h c x).
    { destruct (keep j); [eapply IHrn; eassumption|]. apply ret_inv in Ha. destruct Ha as [-> ->]. split; [reflexivity|]. intros x []. }
    destruct Ha' as [-> Ha'].
    destruct (IH (j + 1) fi focus h h2 b HN ltac:(lia) Hb) as [-> Hb']. split; [reflexivity|].
    intros x Hx. apply in_app_or in Hx. destruct Hx as [Hx|Hx].
    + destruct (Ha' x Hx) as [Hf Hp]. split; [lia|]. exists c. split; [|exact Hp].
      replace (fi - j) with 0 by lia. reflexivity.
    + destruct (Hb' x Hx) as [Hf (c' & Hn & Hp)]. split; [exact Hf|]. exists c'. split; [|exact Hp].
      pose proof (nthz_bounds _ _ _ Hn) as Hb2.
      replace (fi - j) with ((fi - (j + 1)) + 1) by lia. rewrite nthz_cons_succ by lia. exact Hn.
Qed.
End Render.

Theorem rn_nopending f : forall id focus h h' l, NoPending h -> rn f id focus h = (h', ROk l) ->
  h' = h /\ forall x, In x l -> focus = true /\ OnPath h id x.
Proof.
  induction f as [|f IH]; intros id focus0 h h' l HN H; cbn [rn] in H; [exfalso; eapply raise_inv; exact H|].
  apply mbind_inv in H. destruct H as (h0 & n & Hrd & H). apply rd_inv in Hrd. destruct Hrd as [-> G].
  cbv zeta in H. remember (focus0 && negb (is_dis n)) as focus eqn:Efoc.
  cut (h' = h /\ forall x, In x l -> focus = true /\ OnPath h id x).
  { intros [E Hx]. split; [exact E|]. intros x Hin. destruct (Hx x Hin) as [Hf Hp]. split; [|exact Hp].
    subst focus. apply andb_prop in Hf. apply Hf. }
  clear Efoc.
  assert (Hlist : forall keep hh, is_list_kind_b (nk n) = true ->
            rn_list (rn f) keep (items n) 0 (nfocus n) focus hh = (h', ROk l) -> hh = h ->
            h' = h /\ forall x, In x l -> focus = true /\ OnPath h id x).
  { intros keep hh Hk Hl ->. destruct (rn_list_nopending f IH keep (items n) 0 (nfocus n) focus h h' l HN ltac:(lia) Hl) as [-> Hx].
    split; [reflexivity|]. intros x Hin. destruct (Hx x Hin) as [Hf (c & Hn & Hp)]. split; [exact Hf|].
    rewrite Z.sub_0_r in Hn. eapply OnPath_cons; [|exact Hp].
    unfold focus_child. rewrite G. destruct (nk n); try discriminate; destruct (items n) eqn:Ei;
      try exact Hn; unfold nthz in Hn; destruct (nfocus n <? 0); try discriminate; destruct (Z.to_nat (nfocus n)); discriminate. }
  destruct (nk n) eqn:K.
  - apply ret_inv in H. destruct H as [-> ->]. split; [reflexivity|]. intros x Hx.
    destruct focus; [|destruct Hx]. destruct Hx as [<-|[]]. split; [reflexivity|apply op_root].
  - apply mbind_inv in H. destruct H as (h1 & hh & Hg & H). apply get_heap_inv in Hg. destruct Hg as [-> ->].
    eapply Hlist; [reflexivity|exact H|reflexivity].
  - eapply Hlist; [reflexivity|exact H|reflexivity].
  - eapply Hlist; [reflexivity|exact H|reflexivity].
  - (* frame *)
    apply mbind_inv in H. destruct H as (h1 & hh & Hg & H). apply get_heap_inv in Hg. destruct Hg as [-> ->].
    apply mbind_inv in H. destruct H as (h1 & a & Ha & H).
    assert (Ha' : h1 = h /\ forall x, In x a -> focus = true /\ OnPath h id x).
    { destruct (n_b n) as [hd|] eqn:Eb; [|apply ret_inv in Ha; destruct Ha as [-> ->]; split; [reflexivity|intros x []]].
      destruct (truthy h hd && (0 <? rows f h hd)); [|apply ret_inv in Ha; destruct Ha as [-> ->]; split; [reflexivity|intros x []]].
      destruct (IH hd _ h h1 a HN Ha) as [-> Hx]. split; [reflexivity|]. intros x Hin. destruct (Hx x Hin) as [Hf Hp].
      split; [lia|]. eapply OnPath_cons; [|exact Hp]. unfold focus_child. rewrite G, K.
      assert (E1 : n_part n =? 101 = true) by lia. assert (E0 : n_part n =? 100 = false) by lia. rewrite E0, E1. exact Eb. }
    destruct Ha' as [-> Ha'].
    apply mbind_inv in H. destruct H as (h2 & b & Hb & H).
    destruct (IH (n_a n) _ h h2 b HN Hb) as [-> Hb'].
    apply mbind_inv in H. destruct H as (h2 & hh & Hg & H). apply get_heap_inv in Hg. destruct Hg as [-> ->].
    apply mbind_inv in H. destruct H as (h3 & c & Hc & H). apply ret_inv in H. destruct H as [-> ->].
    assert (Hc' : h3 = h /\ forall x, In x c -> focus = true /\ OnPath h id x).
    { destruct (n_d n) as [ft|] eqn:Ed; [|apply ret_inv in Hc; destruct Hc as [-> ->]; split; [reflexivity|intros x []]].
      destruct (truthy h ft && (0 <? rows f h ft)); [|apply ret_inv in Hc; destruct Hc as [-> ->]; split; [reflexivity|intros x []]].
      destruct (IH ft _ h h3 c HN Hc) as [-> Hx]. split; [reflexivity|]. intros x Hin. destruct (Hx x Hin) as [Hf Hp].
      split; [lia|]. eapply OnPath_cons; [|exact Hp]. unfold focus_child. rewrite G, K.
      assert (E1 : n_part n =? 101 = false) by lia. assert (E0 : n_part n =? 100 = false) by lia. rewrite E0, E1. exact Ed. }
    destruct Hc' as [-> Hc']. split; [reflexivity|].
    intros x Hx. apply in_app_or in Hx. destruct Hx as [Hx|Hx]; [apply Ha'; exact Hx|].
    apply in_app_or in Hx. destruct Hx as [Hx|Hx]; [|apply Hc'; exact Hx].
    destruct (Hb' x Hx) as [Hf Hp]. split; [lia|]. eapply OnPath_cons; [|exact Hp].
    unfold focus_child. rewrite G, K. assert (E0 : n_part n =? 100 = true) by lia. rewrite E0. reflexivity.
  - (* overlay: the bottom widget is rendered without focus *)
    apply mbind_inv in H. destruct H as (h1 & b & Hb & H).
    assert (Hb' : h1 = h /\ forall x, In x b -> False).
    { destruct (n_b n) as [bt|]; [|apply ret_inv in Hb; destruct Hb as [-> ->]; split; [reflexivity|intros x []]].
      destruct (IH bt false h h1 b HN Hb) as [-> Hx]. split; [reflexivity|]. intros x Hin. destruct (Hx x Hin) as [Hf _]. discriminate. }
    destruct Hb' as [-> Hb'].
    apply mbind_inv in H. destruct H as (h2 & t & Ht & H). apply ret_inv in H. destruct H as [-> ->].
    destruct (IH (n_a n) focus h h2 t HN Ht) as [-> Hx]. split; [reflexivity|].
    intros x Hin. apply in_app_or in Hin. destruct Hin as [Hin|Hin]; [exfalso; eapply Hb'; exact Hin|].
    destruct (Hx x Hin) as [Hf Hp]. split; [exact Hf|]. eapply OnPath_cons; [|exact Hp]. unfold focus_child. rewrite G, K. reflexivity.
  - (* list box *)
    apply mbind_inv in H. destruct H as (h1 & vis & Hv & H).
    pose proof (lb_visible_nopending f id focus h h1 vis HN Hv) as ->.
    destruct (negb vis); [apply ret_inv in H; destruct H as [-> ->]; split; [reflexivity|intros x []]|].
    apply mbind_inv in H. destruct H as (h1 & n1 & Hrd & H). apply rd_inv in Hrd. destruct Hrd as [-> G1].
    rewrite G in G1. injection G1 as <-.
    eapply Hlist; [reflexivity|exact H|reflexivity].
Qed.

(* ---------- decidable sufficient conditions (for the examples) ---------- *)
Definition no_pending_b (h : heap) : bool := forallb (fun n => negb (pending n)) h.
Lemma no_pending_b_ok h : no_pending_b h = true -> NoPending h.
Proof.
  intros H id n G. unfold no_pending_b in H. rewrite forallb_forall in H.
  specialize (H n (nthz_in _ _ _ G)). destruct (pending n); [discriminate|reflexivity].
Qed.
