(* C17 part 2b: clipping a rendered row (trim_text_attr_cs) keeps every visible character's
   attribute, and the blank that replaces half of a double-width character carries the
   attribute of THAT character. *)
From Coq Require Import ZArith List Bool Lia ZifyBool.
Import ListNotations.
From Urwid Require Import PyBase PyList AttrFlow AttrFlowBasics AttrFlowLayout.
Open Scope Z_scope.

Arguments Z.add : simpl never.
Arguments Z.sub : simpl never.
Arguments Z.mul : simpl never.
Arguments Z.ltb : simpl never.
Arguments Z.leb : simpl never.
Arguments Z.eqb : simpl never.
Arguments Z.min : simpl never.
Arguments Z.max : simpl never.
Arguments Z.to_nat : simpl never.
Arguments Z.of_nat : simpl never.

(* a row as its displayed characters, each with the attribute it carries *)
Definition crow := list (rchr * attr).

Fixpoint bl (r : crow) : Z := match r with [] => 0 | x :: t => r_len (fst x) + bl t end.   (* bytes *)
Fixpoint wd (r : crow) : Z := match r with [] => 0 | x :: t => r_wid (fst x) + wd t end.   (* columns *)

(* per byte attributes of the row *)
Definition rbytes (r : crow) : list attr :=
  flat_map (fun x : rchr * attr => repeat (snd x) (Z.to_nat (r_len (fst x)))) r.

Definition row_wf (r : crow) : Prop :=
  Forall (fun x : rchr * attr => 1 <= r_len (fst x) /\ 1 <= r_wid (fst x) <= 2) r.

Lemma bl_app a b : bl (a ++ b) = bl a + bl b.
Proof. induction a; cbn [bl app]; lia. Qed.
Lemma wd_app a b : wd (a ++ b) = wd a + wd b.
Proof. induction a; cbn [wd app]; lia. Qed.
Lemma bl_nonneg r : row_wf r -> 0 <= bl r.
Proof. induction 1 as [|x t [H _] _ IH]; cbn [bl]; lia. Qed.
Lemma wd_nonneg r : row_wf r -> 0 <= wd r.
Proof. induction 1 as [|x t [_ H] _ IH]; cbn [wd]; lia. Qed.
Lemma rbytes_app a b : rbytes (a ++ b) = rbytes a ++ rbytes b.
Proof. unfold rbytes. apply flat_map_app. Qed.
Lemma length_rbytes r : row_wf r -> Z.of_nat (length (rbytes r)) = bl r.
Proof.
  induction 1 as [|x t [H _] _ IH]; [reflexivity|].
  unfold rbytes in *. cbn [flat_map bl]. rewrite app_length, repeat_length, Nat2Z.inj_add, IH. lia.
Qed.
Lemma row_wf_app a b : row_wf (a ++ b) <-> row_wf a /\ row_wf b.
Proof. apply Forall_app. Qed.

(* ---------- the column walk ---------- *)
Fixpoint walk (row : crow) (sc pref : Z) : crow * crow :=
  match row with
  | [] => ([], [])
  | x :: t => if pref <? r_wid (fst x) + sc then ([], row)
              else let '(p, r) := walk t (sc + r_wid (fst x)) pref in (x :: p, r)
  end.

Lemma text_pos_walk row : forall i sc pref,
  text_pos (map fst row) i sc pref = (i + bl (fst (walk row sc pref)), sc + wd (fst (walk row sc pref))).
Proof.
  induction row as [|x t IH]; intros i sc pref; cbn [map text_pos walk].
  - cbn. f_equal; lia.
  - destruct (pref <? r_wid (fst x) + sc); [cbn; f_equal; lia|].
    rewrite IH. destruct (walk t (sc + r_wid (fst x)) pref) as [p r]. cbn [fst bl wd]. f_equal; lia.
Qed.

Lemma walk_app row : forall sc pref, row = fst (walk row sc pref) ++ snd (walk row sc pref).
Proof.
  induction row as [|x t IH]; intros sc pref; cbn [walk]; [reflexivity|].
  destruct (pref <? r_wid (fst x) + sc); [reflexivity|].
  specialize (IH (sc + r_wid (fst x)) pref). destruct (walk t (sc + r_wid (fst x)) pref) as [p r].
  cbn [fst snd app] in *. now f_equal.
Qed.

Lemma walk_le row : forall sc pref, sc <= pref -> sc + wd (fst (walk row sc pref)) <= pref.
Proof.
  induction row as [|x t IH]; intros sc pref H; cbn [walk]; [cbn; lia|].
  destruct (pref <? r_wid (fst x) + sc) eqn:E; [cbn; lia|].
  specialize (IH (sc + r_wid (fst x)) pref ltac:(lia)). destruct (walk t (sc + r_wid (fst x)) pref) as [p r].
  cbn [fst wd] in *. lia.
Qed.

Lemma walk_stop row : forall sc pref x r', snd (walk row sc pref) = x :: r' ->
  pref < sc + wd (fst (walk row sc pref)) + r_wid (fst x).
Proof.
  induction row as [|y t IH]; intros sc pref x r' H; cbn [walk] in *; [discriminate|].
  destruct (pref <? r_wid (fst y) + sc) eqn:E.
  - cbn [snd fst wd] in *. inversion H; subst. lia.
  - specialize (IH (sc + r_wid (fst y)) pref x r'). destruct (walk t (sc + r_wid (fst y)) pref) as [p r].
    cbn [fst snd wd] in *. specialize (IH H). lia.
Qed.

(* when the walk stops one column short, the next character is double-width, and the walk to
   one column further takes exactly that character more *)
Lemma walk_next row : row_wf row -> forall sc pref x r', sc <= pref ->
  snd (walk row sc pref) = x :: r' -> sc + wd (fst (walk row sc pref)) < pref ->
  r_wid (fst x) = 2 /\ sc + wd (fst (walk row sc pref)) = pref - 1 /\
  walk row sc (pref + 1) = (fst (walk row sc pref) ++ [x], r').
Proof.
  induction 1 as [|y t [Hl Hw] Ht IH]; intros sc pref x r' Hsc Hs Hlt; cbn [walk] in *; [discriminate|].
  destruct (pref <? r_wid (fst y) + sc) eqn:E.
  - cbn [fst snd wd] in *. inversion Hs; subst y t. clear Hs.
    split; [lia|]. split; [lia|].
    destruct (pref + 1 <? r_wid (fst x) + sc) eqn:E2; [lia|].
    destruct r' as [|z r'']; [reflexivity|].
    cbn [walk]. inversion Ht as [|? ? [_ Hz] _]; subst.
    destruct (pref + 1 <? r_wid (fst z) + (sc + r_wid (fst x))) eqn:E3; [reflexivity | lia].
  - specialize (IH (sc + r_wid (fst y)) pref x r' ltac:(lia)).
    destruct (walk t (sc + r_wid (fst y)) pref) as [p r] eqn:Ew. cbn [fst snd wd] in *.
    destruct (IH Hs ltac:(lia)) as (A & B & C).
    split; [exact A|]. split; [lia|].
    destruct (pref + 1 <? r_wid (fst y) + sc) eqn:E2; [lia|]. rewrite C. reflexivity.
Qed.

Lemma drop_bytes_prefix p : forall x, row_wf p ->
  drop_bytes (map fst (p ++ x)) (bl p) = map fst x.
Proof.
  induction p as [|y t IH]; intros x H; cbn [app bl].
  - destruct x as [|z x']; [reflexivity|]. cbn [map drop_bytes]. now rewrite Z.leb_refl.
  - inversion H as [|? ? [Hl _] Ht]; subst. cbn [map drop_bytes].
    pose proof (bl_nonneg t Ht).
    destruct (r_len (fst y) + bl t <=? 0) eqn:E; [lia|].
    replace (r_len (fst y) + bl t - r_len (fst y)) with (bl t) by lia. now apply IH.
Qed.

(* ---------- run-length helpers ---------- *)
Lemma skipn_repeat_app {A} (a : A) n k (l : list A) : (k <= n)%nat ->
  skipn k (repeat a n ++ l) = repeat a (n - k) ++ l.
Proof.
  revert k. induction n; intros k H.
  - replace k with 0%nat by lia. reflexivity.
  - destruct k; [reflexivity|]. cbn [repeat app skipn]. rewrite IHn by lia. reflexivity.
Qed.

Lemma skipn_past_repeat {A} (a : A) n k (l : list A) : (n <= k)%nat ->
  skipn k (repeat a n ++ l) = skipn (k - n) l.
Proof.
  intro H. replace k with (n + (k - n))%nat at 1 by lia.
  rewrite skipn_add. f_equal.
  rewrite <- (repeat_length a n) at 1. now rewrite skipn_app, skipn_all, Nat.sub_diag.
Qed.

Lemma firstn_repeat_app_lt {A} (a : A) n k (l : list A) : (k <= n)%nat ->
  firstn k (repeat a n ++ l) = repeat a k.
Proof.
  revert k. induction n; intros k H.
  - replace k with 0%nat by lia. reflexivity.
  - destruct k; [reflexivity|]. cbn [repeat app firstn]. now rewrite IHn by lia.
Qed.

Lemma firstn_repeat_app_ge {A} (a : A) n k (l : list A) : (n <= k)%nat ->
  firstn k (repeat a n ++ l) = repeat a n ++ firstn (k - n) l.
Proof.
  intro H. rewrite firstn_app, repeat_length.
  rewrite firstn_all2 by (rewrite repeat_length; lia). reflexivity.
Qed.

Lemma rle_subseg_go_spec r : forall x start e, nonneg r -> 0 <= start ->
  expand (rle_subseg_go r x start e) = firstn (Z.to_nat (e - (x + start))) (skipn (Z.to_nat start) (expand r)) /\
  nonneg (rle_subseg_go r x start e).
Proof.
  induction r as [|[a rn] t IH]; intros x start e Hn Hs; cbn [rle_subseg_go expand].
  - rewrite skipn_nil, firstn_nil. split; [reflexivity | constructor].
  - apply nonneg_cons in Hn; cbn [snd] in Hn; destruct Hn as [H1 H2].
    destruct (negb (start =? 0) && (rn <=? start)) eqn:E.
    + destruct (IH (x + rn) (start - rn) e H2 ltac:(lia)) as [X N]. split; [|exact N].
      rewrite X. rewrite skipn_past_repeat by lia. f_equal; [lia|]. f_equal. lia.
    + assert (Hx1 : (if negb (start =? 0) then x + start else x) = x + start) by (destruct (start =? 0) eqn:E0; cbn [negb]; lia).
      assert (Hr1 : (if negb (start =? 0) then rn - start else rn) = rn - start) by (destruct (start =? 0) eqn:E0; cbn [negb]; lia).
      rewrite Hx1, Hr1.
      assert (Hlt : start <= rn) by lia.
      rewrite skipn_repeat_app by lia.
      destruct (e <=? x + start) eqn:E1.
      * cbn [expand]. replace (Z.to_nat (e - (x + start))) with 0%nat by lia. split; [reflexivity | constructor].
      * destruct (e <? x + start + (rn - start)) eqn:E2.
        -- destruct (IH (x + start + (e - (x + start))) 0 e H2 ltac:(lia)) as [X N].
           cbn [expand]. rewrite X. split; [|apply nonneg_cons; cbn [snd]; split; [lia | exact N]].
           replace (Z.to_nat (e - (x + start + (e - (x + start)) + 0))) with 0%nat by lia. cbn [firstn].
           rewrite app_nil_r. rewrite firstn_repeat_app_lt by lia. reflexivity.
        -- destruct (IH (x + start + (rn - start)) 0 e H2 ltac:(lia)) as [X N].
           cbn [expand]. rewrite X. split; [|apply nonneg_cons; cbn [snd]; split; [lia | exact N]].
           rewrite firstn_repeat_app_ge by lia. cbn [skipn].
           replace (Z.to_nat rn - Z.to_nat start)%nat with (Z.to_nat (rn - start)) by lia.
           f_equal. f_equal. lia.
Qed.

Lemma rle_subseg_spec r s e : nonneg r -> 0 <= s ->
  expand (rle_subseg r s e) = sub (expand r) s e /\ nonneg (rle_subseg r s e).
Proof.
  intros Hn Hs. unfold rle_subseg, sub.
  destruct (rle_subseg_go_spec r 0 s e Hn Hs) as [X N]. split; [|exact N].
  rewrite X. repeat (f_equal; try lia).
Qed.

Lemma expand_prepend r a : nonneg r ->
  expand (rle_prepend_modify r (a, 1)) = a :: expand r /\ nonneg (rle_prepend_modify r (a, 1)).
Proof.
  intro Hn. unfold rle_prepend_modify. destruct r as [|[al rn] t]; cbn [fst snd].
  - split; [reflexivity|]. apply nonneg_cons; cbn; split; [lia | constructor].
  - apply nonneg_cons in Hn; cbn [snd] in Hn; destruct Hn as [H1 H2].
    destruct (attr_eqb a al) eqn:E.
    + apply attr_eqb_eq in E; subst al. cbn [expand]. split.
      * replace (Z.to_nat (rn + 1)) with (S (Z.to_nat rn)) by lia. reflexivity.
      * apply nonneg_cons; cbn [snd]; split; [lia | exact H2].
    + cbn [expand]. split; [reflexivity|].
      apply nonneg_cons; cbn [snd]; split; [lia|]. apply nonneg_cons; cbn [snd]; auto.
Qed.

(* ---------- bytes at character boundaries ---------- *)
Lemma sub_boundary p m r : row_wf p -> row_wf m ->
  sub (rbytes (p ++ m ++ r)) (bl p) (bl p + bl m) = rbytes m.
Proof.
  intros Hp Hm. unfold sub. rewrite !rbytes_app.
  pose proof (length_rbytes p Hp). pose proof (length_rbytes m Hm).
  replace (Z.to_nat (bl p)) with (length (rbytes p)) by lia.
  rewrite skipn_app, skipn_all, Nat.sub_diag. cbn [skipn app].
  replace (Z.to_nat (bl p + bl m - bl p)) with (length (rbytes m)) by lia.
  rewrite firstn_app, firstn_all, Nat.sub_diag. cbn [firstn]. now rewrite app_nil_r.
Qed.

Lemma nth_last_byte p0 c r : row_wf p0 -> 1 <= r_len (fst c) ->
  nth (Z.to_nat (bl (p0 ++ [c]) - 1)) (rbytes ((p0 ++ [c]) ++ r)) None = snd c.
Proof.
  intros Hp Hc. rewrite bl_app. cbn [bl]. rewrite <- app_assoc, rbytes_app.
  pose proof (length_rbytes p0 Hp). pose proof (bl_nonneg p0 Hp).
  rewrite app_nth2 by lia.
  cbn [app]. change (rbytes (c :: r)) with (repeat (snd c) (Z.to_nat (r_len (fst c))) ++ rbytes r).
  rewrite app_nth1 by (rewrite repeat_length; lia).
  apply nth_repeat_lt. lia.
Qed.

Lemma nth_first_byte p d r : row_wf p -> 1 <= r_len (fst d) ->
  nth (Z.to_nat (bl p)) (rbytes (p ++ d :: r)) None = snd d.
Proof.
  intros Hp Hd. rewrite rbytes_app. pose proof (length_rbytes p Hp).
  rewrite app_nth2 by lia. replace (Z.to_nat (bl p) - length (rbytes p))%nat with 0%nat by lia.
  unfold rbytes. cbn [flat_map]. rewrite app_nth1 by (rewrite repeat_length; lia).
  apply nth_repeat_lt. lia.
Qed.

(* ---------- the clause ---------- *)
(* what a clip to the columns [sc, ec) must show: the row splits as P ++ M ++ R with M fully
   visible; pl = 1 exactly when the cut runs through the last character of P (double-width),
   pr = 1 exactly when it runs through the first of R *)
Definition last_attr (P : crow) : attr := match rev P with c :: _ => snd c | [] => None end.
Definition first_attr (R : crow) : attr := match R with d :: _ => snd d | [] => None end.

Definition clip_result (row : crow) (sc ec : Z) (out : list attr) : Prop :=
  exists P M R pl pr,
    row = P ++ M ++ R /\
    calc_trim_text (map fst row) sc ec = (bl P, bl P + bl M, pl, pr) /\
    wd P = sc + pl /\ wd M = ec - sc - pl - pr /\
    (pl = 0 \/ pl = 1 /\ exists P0 c, P = P0 ++ [c] /\ r_wid (fst c) = 2) /\
    (pr = 0 \/ pr = 1 /\ exists d R0, R = d :: R0 /\ r_wid (fst d) = 2) /\
    out = (if pl =? 0 then [] else [last_attr P]) ++ rbytes M ++ (if pr =? 0 then [] else [first_attr R]).

(* the offsets calc_trim_text returns split the row at character boundaries *)
Definition trim_decomp (row : crow) (sc ec : Z) (P M R : crow) (pl pr : Z) : Prop :=
  row = P ++ M ++ R /\
  calc_trim_text (map fst row) sc ec = (bl P, bl P + bl M, pl, pr) /\
  wd P = sc + pl /\ wd M = ec - sc - pl - pr /\
  (pl = 0 \/ pl = 1 /\ exists P0 c, P = P0 ++ [c] /\ r_wid (fst c) = 2) /\
  (pr = 0 \/ pr = 1 /\ exists d R0, R = d :: R0 /\ r_wid (fst d) = 2).

Lemma calc_trim_decomp row sc ec :
  row_wf row -> 0 <= sc -> sc < ec -> ec <= wd row ->
  exists P M R pl pr, trim_decomp row sc ec P M R pl pr.
Proof.
  intros Hwf Hsc Hlt Hec.
  (* left side *)
  assert (HL : exists P X pl, row = P ++ X /\ wd P = sc + pl /\
            (if 0 <? sc then
               let '(sp, c0) := text_pos (map fst row) 0 0 sc in
               if c0 <? sc then (fst (text_pos (map fst row) 0 0 (sc + 1)), 1) else (sp, 0)
             else (0, 0)) = (bl P, pl) /\
            (pl = 0 \/ pl = 1 /\ exists P0 c, P = P0 ++ [c] /\ r_wid (fst c) = 2)).
  { destruct (0 <? sc) eqn:E0.
    - rewrite text_pos_walk. pose proof (walk_app row 0 sc) as Ha. pose proof (walk_le row 0 sc ltac:(lia)) as Hle.
      destruct (walk row 0 sc) as [P1 R1] eqn:Ew. cbn [fst snd] in *.
      destruct (0 + wd P1 <? sc) eqn:E1.
      + destruct R1 as [|x R1'].
        { rewrite app_nil_r in Ha. subst P1. lia. }
        destruct (walk_next row Hwf 0 sc x R1' ltac:(lia)) as (A & B & C); rewrite ?Ew; cbn [fst snd]; try reflexivity; try lia.
        rewrite Ew in C. cbn [fst] in C.
        rewrite text_pos_walk, C. cbn [fst].
        exists (P1 ++ [x]), R1', 1. split; [now rewrite <- app_assoc|].
        split; [rewrite wd_app; cbn [wd]; rewrite Ew in B; cbn [fst] in B; lia|].
        split; [f_equal; lia|]. right. split; [reflexivity|]. now exists P1, x.
      + exists P1, R1, 0. split; [exact Ha|]. split; [lia|]. split; [f_equal; lia | now left].
    - exists [], row, 0. split; [reflexivity|]. split; [cbn; lia|]. split; [reflexivity | now left]. }
  destruct HL as (P & X & pl & Hrow & HwP & HspL & Hpl).
  assert (HwfP : row_wf P /\ row_wf X) by (apply row_wf_app; now rewrite <- Hrow).
  destruct HwfP as [HwfP HwfX].
  assert (Hpl01 : pl = 0 \/ pl = 1) by (destruct Hpl as [?|[? _]]; auto).
  (* right side *)
  set (run := ec - sc - pl).
  pose proof (walk_app X 0 run) as Hax. pose proof (walk_le X 0 run ltac:(unfold run; lia)) as Hlex.
  destruct (walk X 0 run) as [M R] eqn:Ewx. cbn [fst snd] in *.
  assert (Htp : text_pos (drop_bytes (map fst row) (bl P)) (bl P) 0 run = (bl P + bl M, 0 + wd M)).
  { rewrite Hrow, drop_bytes_prefix by assumption. rewrite text_pos_walk, Ewx. reflexivity. }
  assert (HwfM : row_wf M /\ row_wf R) by (apply row_wf_app; now rewrite <- Hax).
  destruct HwfM as [HwfM HwfR].
  assert (Hwtot : wd row = wd P + wd M + wd R) by (rewrite Hrow, Hax, !wd_app; lia).
  set (pr := if 0 + wd M <? run then 1 else 0).
  assert (Hpr : pr = 0 /\ wd M = run \/ pr = 1 /\ wd M = run - 1 /\ exists d R0, R = d :: R0 /\ r_wid (fst d) = 2).
  { unfold pr. destruct (0 + wd M <? run) eqn:E2; [right | left; split; [reflexivity | lia]].
    destruct R as [|d R0]; [cbn [wd] in Hwtot; unfold run in *; lia|].
    destruct (walk_next X HwfX 0 run d R0 ltac:(unfold run; lia)) as (A & B & _); rewrite ?Ewx; cbn [fst snd]; try reflexivity; try lia.
    rewrite Ewx in B. cbn [fst] in B. split; [reflexivity|]. split; [lia|]. now exists d, R0. }
  assert (Hcalc : calc_trim_text (map fst row) sc ec = (bl P, bl P + bl M, pl, pr)).
  { unfold calc_trim_text. rewrite HspL. fold run. rewrite Htp. reflexivity. }
  exists P, M, R, pl, pr. unfold trim_decomp.
  split; [now rewrite Hrow, Hax|]. split; [exact Hcalc|]. split; [exact HwP|].
  split; [destruct Hpr as [[-> ?]|[-> [? _]]]; unfold run in *; lia|].
  split; [destruct Hpl as [->|[-> Hx]]; [now left | right; split; [reflexivity | exact Hx]]|].
  destruct Hpr as [[-> _]|[-> (_ & Hx)]]; [now left | right; split; [reflexivity | exact Hx]].
Qed.

Lemma clip_keeps_attr_lemma row attrs sc ec :
  row_wf row -> nonneg attrs -> expand attrs = rbytes row -> 0 <= sc -> sc < ec -> ec <= wd row ->
  clip_result row sc ec (expand (trim_attr (map fst row) attrs sc ec)).
Proof.
  intros Hwf Hn He Hsc Hlt Hec.
  (* left side *)
  assert (HL : exists P X pl, row = P ++ X /\ wd P = sc + pl /\
            (if 0 <? sc then
               let '(sp, c0) := text_pos (map fst row) 0 0 sc in
               if c0 <? sc then (fst (text_pos (map fst row) 0 0 (sc + 1)), 1) else (sp, 0)
             else (0, 0)) = (bl P, pl) /\
            (pl = 0 \/ pl = 1 /\ exists P0 c, P = P0 ++ [c] /\ r_wid (fst c) = 2)).
  { destruct (0 <? sc) eqn:E0.
    - rewrite text_pos_walk. pose proof (walk_app row 0 sc) as Ha. pose proof (walk_le row 0 sc ltac:(lia)) as Hle.
      destruct (walk row 0 sc) as [P1 R1] eqn:Ew. cbn [fst snd] in *.
      destruct (0 + wd P1 <? sc) eqn:E1.
      + destruct R1 as [|x R1'].
        { rewrite app_nil_r in Ha. subst P1. lia. }
        destruct (walk_next row Hwf 0 sc x R1' ltac:(lia)) as (A & B & C); rewrite ?Ew; cbn [fst snd]; try reflexivity; try lia.
        rewrite Ew in C. cbn [fst] in C.
        rewrite text_pos_walk, C. cbn [fst].
        exists (P1 ++ [x]), R1', 1. split; [now rewrite <- app_assoc|].
        split; [rewrite wd_app; cbn [wd]; rewrite Ew in B; cbn [fst] in B; lia|].
        split; [f_equal; lia|]. right. split; [reflexivity|]. now exists P1, x.
      + exists P1, R1, 0. split; [exact Ha|]. split; [lia|]. split; [f_equal; lia | now left].
    - exists [], row, 0. split; [reflexivity|]. split; [cbn; lia|]. split; [reflexivity | now left]. }
  destruct HL as (P & X & pl & Hrow & HwP & HspL & Hpl).
  assert (HwfP : row_wf P /\ row_wf X) by (apply row_wf_app; now rewrite <- Hrow).
  destruct HwfP as [HwfP HwfX].
  assert (Hpl01 : pl = 0 \/ pl = 1) by (destruct Hpl as [?|[? _]]; auto).
  (* right side *)
  set (run := ec - sc - pl).
  pose proof (walk_app X 0 run) as Hax. pose proof (walk_le X 0 run ltac:(unfold run; lia)) as Hlex.
  destruct (walk X 0 run) as [M R] eqn:Ewx. cbn [fst snd] in *.
  assert (Htp : text_pos (drop_bytes (map fst row) (bl P)) (bl P) 0 run = (bl P + bl M, 0 + wd M)).
  { rewrite Hrow, drop_bytes_prefix by assumption. rewrite text_pos_walk, Ewx. reflexivity. }
  assert (HwfM : row_wf M /\ row_wf R) by (apply row_wf_app; now rewrite <- Hax).
  destruct HwfM as [HwfM HwfR].
  assert (Hwtot : wd row = wd P + wd M + wd R) by (rewrite Hrow, Hax, !wd_app; lia).
  set (pr := if 0 + wd M <? run then 1 else 0).
  assert (Hpr : pr = 0 /\ wd M = run \/ pr = 1 /\ wd M = run - 1 /\ exists d R0, R = d :: R0 /\ r_wid (fst d) = 2).
  { unfold pr. destruct (0 + wd M <? run) eqn:E2; [right | left; split; [reflexivity | lia]].
    destruct R as [|d R0]; [cbn [wd] in Hwtot; unfold run in *; lia|].
    destruct (walk_next X HwfX 0 run d R0 ltac:(unfold run; lia)) as (A & B & _); rewrite ?Ewx; cbn [fst snd]; try reflexivity; try lia.
    rewrite Ewx in B. cbn [fst] in B. split; [reflexivity|]. split; [lia|]. now exists d, R0. }
  assert (Hcalc : calc_trim_text (map fst row) sc ec = (bl P, bl P + bl M, pl, pr)).
  { unfold calc_trim_text. rewrite HspL. fold run. rewrite Htp. reflexivity. }
  (* the attribute list *)
  unfold trim_attr. rewrite Hcalc.
  pose proof (bl_nonneg P HwfP) as HbP. pose proof (bl_nonneg M HwfM) as HbM.
  destruct (rle_subseg_spec attrs (bl P) (bl P + bl M) Hn HbP) as [Xs Ns].
  assert (Hmid : expand (rle_subseg attrs (bl P) (bl P + bl M)) = rbytes M).
  { rewrite Xs, He, Hrow, Hax. now apply sub_boundary. }
  set (a1 := if negb (pl =? 0) then rle_prepend_modify (rle_subseg attrs (bl P) (bl P + bl M)) (rle_get_at attrs (bl P - 1), 1)
             else rle_subseg attrs (bl P) (bl P + bl M)).
  assert (Ha1 : expand a1 = (if pl =? 0 then [] else [last_attr P]) ++ rbytes M /\ nonneg a1).
  { unfold a1. destruct Hpl as [->|[-> (P0 & c & HP & Hc)]].
    - change (0 =? 0) with true. cbn [negb app]. split; assumption.
    - change (1 =? 0) with false. cbn [negb].
      destruct (expand_prepend (rle_subseg attrs (bl P) (bl P + bl M)) (rle_get_at attrs (bl P - 1)) Ns) as [Xp Np].
      split; [|exact Np]. rewrite Xp, Hmid. cbn [app]. f_equal.
      assert (HwfP0 : row_wf P0 /\ row_wf [c]) by (apply row_wf_app; now rewrite <- HP).
      destruct HwfP0 as [HwfP0 Hwc]. inversion Hwc as [|? ? [Hlc _] _].
      rewrite rle_get_at_expand; [|assumption|rewrite HP, bl_app; cbn [bl]; pose proof (bl_nonneg P0 HwfP0); lia].
      rewrite He, Hrow. unfold last_attr. rewrite HP, rev_app_distr. cbn [rev app].
      now apply nth_last_byte. }
  destruct Ha1 as [Xa1 Na1].
  assert (Hout : expand (if negb (pr =? 0) then rle_append_modify a1 (rle_get_at attrs (bl P + bl M), 1) else a1) =
                 (if pl =? 0 then [] else [last_attr P]) ++ rbytes M
                 ++ (if pr =? 0 then [] else [first_attr R])).
  { destruct Hpr as [[-> _]|[-> (_ & d & R0 & HR & Hd)]].
    - change (0 =? 0) with true. cbn [negb]. now rewrite Xa1, app_nil_r.
    - change (1 =? 0) with false. cbn [negb]. rewrite expand_append_modify by (assumption || lia).
      rewrite Xa1, <- app_assoc. do 2 f_equal. change (Z.to_nat 1) with 1%nat. cbn [repeat]. f_equal.
      rewrite HR in HwfR. inversion HwfR as [|? ? [Hld _] _].
      rewrite rle_get_at_expand by (assumption || lia).
      rewrite He, Hrow, Hax, HR. unfold first_attr. rewrite app_assoc. rewrite <- bl_app.
      apply nth_first_byte; [apply row_wf_app; split; assumption | assumption]. }
  exists P, M, R, pl, pr.
  split; [now rewrite Hrow, Hax|]. split; [exact Hcalc|]. split; [exact HwP|].
  split; [destruct Hpr as [[-> ?]|[-> [? _]]]; unfold run in *; lia|].
  split; [destruct Hpl as [->|[-> Hx]]; [now left | right; split; [reflexivity | exact Hx]]|].
  split; [|exact Hout].
  destruct Hpr as [[-> _]|[-> (_ & Hx)]]; [now left | right; split; [reflexivity | exact Hx]].
Qed.

(* ---------- the same, read per screen column ---------- *)
Definition colattrs (r : crow) : list attr :=
  flat_map (fun x : rchr * attr => repeat (snd x) (Z.to_nat (r_wid (fst x)))) r.

Lemma colattrs_app a b : colattrs (a ++ b) = colattrs a ++ colattrs b.
Proof. unfold colattrs. apply flat_map_app. Qed.

Lemma length_colattrs r : row_wf r -> Z.of_nat (length (colattrs r)) = wd r.
Proof.
  induction 1 as [|x t [_ H] _ IH]; [reflexivity|].
  unfold colattrs in *. cbn [flat_map wd]. rewrite app_length, repeat_length, Nat2Z.inj_add, IH. lia.
Qed.

(* the blank standing for half a character: one byte, one column *)
Definition blank (a : attr) : rchr * attr := (RC 1 1, a).

Lemma firstn_len_app {A} (a b : list A) n : n = length a -> firstn n (a ++ b) = a.
Proof. intros ->. rewrite firstn_app, firstn_all, Nat.sub_diag. cbn. now rewrite app_nil_r. Qed.

Lemma skipn_len_app {A} (a b : list A) n : n = length a -> skipn n (a ++ b) = b.
Proof. intros ->. now rewrite skipn_app, skipn_all, Nat.sub_diag. Qed.

Lemma clip_columns row sc ec out : row_wf row -> 0 <= sc -> sc < ec -> ec <= wd row ->
  clip_result row sc ec out ->
  exists shown : crow, rbytes shown = out /\ colattrs shown = sub (colattrs row) sc ec.
Proof.
  intros Hwf Hsc Hlt Hec (P & M & R & pl & pr & Hrow & _ & HwP & HwM & Hpl & Hpr & Hout).
  assert (HwfP : row_wf P /\ row_wf (M ++ R)) by (apply row_wf_app; now rewrite <- Hrow).
  destruct HwfP as [HwfP HwfMR]. apply row_wf_app in HwfMR. destruct HwfMR as [HwfM HwfR].
  pose proof (length_colattrs M HwfM) as LM.
  (* right end *)
  assert (HR : exists tailr, (if pr =? 0 then [] else [first_attr R]) = colattrs tailr /\
                              rbytes tailr = (if pr =? 0 then [] else [first_attr R]) /\
                              firstn (Z.to_nat (ec - sc - pl)) (colattrs M ++ colattrs R) = colattrs M ++ colattrs tailr).
  { destruct Hpr as [->|[-> (d & R0 & -> & Hd)]].
    - exists []. change (0 =? 0) with true. cbn [colattrs flat_map]. repeat split.
      rewrite app_nil_r. apply firstn_len_app. lia.
    - exists [blank (snd d)]. change (1 =? 0) with false. cbn [first_attr]. repeat split.
      unfold colattrs at 2 3. cbn [flat_map blank fst snd r_wid]. rewrite Hd.
      change (Z.to_nat 2) with 2%nat. change (Z.to_nat 1) with 1%nat. cbn [repeat app].
      replace (Z.to_nat (ec - sc - pl)) with (length (colattrs M) + 1)%nat by lia.
      rewrite firstn_app. rewrite firstn_all2 by lia.
      replace (length (colattrs M) + 1 - length (colattrs M))%nat with 1%nat by lia. reflexivity. }
  destruct HR as (tailr & HR1 & HR2 & HR3).
  unfold sub. rewrite Hrow, !colattrs_app.
  destruct Hpl as [->|[-> (P0 & c & -> & Hc)]].
  - exists (M ++ tailr). change (0 =? 0) with true in Hout. cbn [app] in Hout.
    split; [rewrite rbytes_app, HR2; now symmetry|].
    pose proof (length_colattrs P HwfP) as LP.
    rewrite skipn_len_app by lia. rewrite colattrs_app.
    replace (ec - sc) with (ec - sc - 0) by lia. exact (eq_sym HR3).
  - exists (blank (snd c) :: M ++ tailr). change (1 =? 0) with false in Hout.
    unfold last_attr in Hout. rewrite rev_app_distr in Hout. cbn [rev app] in Hout.
    split.
    { change (rbytes (blank (snd c) :: M ++ tailr)) with (repeat (snd c) (Z.to_nat 1) ++ rbytes (M ++ tailr)).
      change (Z.to_nat 1) with 1%nat. cbn [repeat app]. rewrite rbytes_app, HR2. now symmetry. }
    apply row_wf_app in HwfP. destruct HwfP as [HwfP0 _].
    pose proof (length_colattrs P0 HwfP0) as LP0. rewrite wd_app in HwP. cbn [wd] in HwP.
    rewrite colattrs_app. change (colattrs [c]) with (repeat (snd c) (Z.to_nat (r_wid (fst c))) ++ []). rewrite Hc.
    change (Z.to_nat 2) with 2%nat. cbn [repeat app]. rewrite <- app_assoc. cbn [app].
    replace (Z.to_nat sc) with (length (colattrs P0) + 1)%nat by lia.
    rewrite skipn_add. rewrite skipn_len_app by reflexivity. cbn [skipn].
    replace (Z.to_nat (ec - sc)) with (S (Z.to_nat (ec - sc - 1))) by lia. cbn [firstn].
    change (colattrs (blank (snd c) :: M ++ tailr)) with (repeat (snd c) (Z.to_nat 1) ++ colattrs (M ++ tailr)).
    change (Z.to_nat 1) with 1%nat. cbn [repeat app]. f_equal.
    rewrite colattrs_app. exact (eq_sym HR3).
Qed.
