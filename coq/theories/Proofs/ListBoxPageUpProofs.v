(* C07 - proofs, part 7: 'page up' never raises. *)
From Coq Require Import ZArith List Bool Lia ZifyBool.
Import ListNotations.
From Urwid Require Import PyBase ListBoxView ListBoxViewProofs ListBoxWindowProofs ListBoxHistoryProofs
  ListBoxMouseProofs ListBoxPendingProofs ListBoxPageProofs.
Open Scope Z_scope.

Arguments Z.add : simpl never.
Arguments Z.sub : simpl never.
Arguments Z.mul : simpl never.
Arguments Z.ltb : simpl never.
Arguments Z.leb : simpl never.
Arguments Z.eqb : simpl never.
Arguments Z.min : simpl never.
Arguments Z.max : simpl never.
Arguments Z.of_nat : simpl never.
Arguments Z.to_nat : simpl never.

(* ---------- the candidate list is a chain: every entry starts rows above the previous one ---------- *)
Fixpoint trows (l : list titem) : Z := match l with [] => 0 | e :: r => t_rows e + trows r end.

Fixpoint chain_ok (ro : Z) (l : list titem) : Prop :=
  match l with
  | [] => True
  | e :: r => t_ro e = ro - t_rows e /\ chain_ok (t_ro e) r
  end.

Lemma trows_app a b : trows (a ++ b) = trows a + trows b.
Proof. induction a; cbn [trows app]; lia. Qed.

Lemma chain_app : forall a ro b, chain_ok ro a -> chain_ok (ro - trows a) b -> chain_ok ro (a ++ b).
Proof.
  induction a as [|e a IH]; intros ro b Ha Hb; cbn [app trows chain_ok] in *.
  - now replace (ro - 0) with ro in Hb by lia.
  - destruct Ha as [He Ha]. split; [assumption|]. apply IH; [assumption|].
    now replace (t_ro e - trows a) with (ro - (t_rows e + trows a)) by lia.
Qed.

Lemma chain_split : forall pre ro e post, chain_ok ro (pre ++ e :: post) -> t_ro e = ro - trows pre - t_rows e.
Proof.
  induction pre as [|x pre IH]; intros ro e post H; cbn [app trows chain_ok] in *.
  - destruct H. lia.
  - destruct H as [Hx H]. rewrite (IH _ _ _ H). lia.
Qed.

Lemma chain_bounds : forall l ro, chain_ok ro l -> (forall e, In e l -> 0 <= t_rows e) ->
  forall e, In e l -> ro - trows l <= t_ro e <= ro.
Proof.
  induction l as [|x l IH]; intros ro H Hnn e Hin; [contradiction|]. cbn [trows chain_ok] in *.
  destruct H as [Hx H].
  assert (Ht : 0 <= trows l).
  { clear -Hnn. induction l as [|y l IHl]; cbn [trows]; [lia|].
    assert (0 <= t_rows y) by (apply Hnn; right; now left).
    assert (0 <= trows l) by (apply IHl; intros e [He|He]; apply Hnn; [now left | right; now right]). lia. }
  assert (Hx0 : 0 <= t_rows x) by (apply Hnn; now left).
  destruct Hin as [<-|Hin]; [lia|].
  specialize (IH _ H (fun e He => Hnn e (or_intror He)) e Hin). lia.
Qed.

Lemma chain_zero : forall l ro, chain_ok ro l -> (forall e, In e l -> t_rows e = 0) -> forall e, In e l -> t_ro e = ro.
Proof.
  induction l as [|x l IH]; intros ro H Hz e Hin; [contradiction|]. cbn [chain_ok] in H. destruct H as [Hx H].
  assert (Ex : t_ro x = ro) by (rewrite Hx, (Hz x (or_introl eq_refl)); lia).
  destruct Hin as [<-|Hin]; [assumption|]. rewrite <- Ex. apply IH; [assumption | intros y Hy; apply Hz; now right | assumption].
Qed.

Lemma chain_shift : forall l ro d, chain_ok ro l -> chain_ok (ro + d) (map (t_shift d) l).
Proof.
  induction l as [|x l IH]; intros ro d H; cbn [map chain_ok] in *; [exact I|].
  destruct H as [Hx H]. destruct x as [[a b] c]. unfold t_shift, t_ro, t_rows in *. cbn [fst snd] in *.
  split; [lia|]. apply IH. assumption.
Qed.

Lemma trows_shift d l : trows (map (t_shift d) l) = trows l.
Proof. induction l as [|[[a b] c] l IH]; cbn [map trows]; [reflexivity|]. rewrite IH. reflexivity. Qed.

(* ---------- the search loops ---------- *)
Section Loops.
Variables (s0 : lb) (m sr fpos : Z) (t : list titem) (oall : list Z).
Hypothesis Hm : 1 <= m.
Hypothesis HW : WidgetsOK (items s0).
Hypothesis Hsr : 0 <= sr.
Hypothesis Hcand : forall x, In x t -> CandOK (items s0) x.
(* a candidate with rows reaches below row -snap_rows of the new page *)
Hypothesis HC2 : forall x, In x t -> t_rows x = 0 \/ 1 - sr <= t_ro x + t_rows x.

Definition TrU (s : lb) : Prop :=
  focus s = fpos \/ exists i x, In i oall /\ nthz t i = Some x /\ t_pos x <> fpos /\ t_rows x <> 0.

(* the Python variable row_offset after a loop: its old value or the offset of a visited candidate *)
Definition RoFrom (order : list Z) (ro0 ro : Z) : Prop :=
  ro = ro0 \/ exists i x, In i order /\ nthz t i = Some x /\ t_ro x = ro.

Lemma rofrom_cons i rest ro0 x ro : nthz t i = Some x -> RoFrom rest (t_ro x) ro -> RoFrom (i :: rest) ro0 ro.
Proof.
  intros Hx [->|(j & y & Hj & Hy & E)]; right; [exists i, x | exists j, y]; splits; try assumption; try reflexivity;
    [now left | now right].
Qed.

Lemma pu_call : forall s ro pos rows w, SInv s0 s -> In (ro, pos, rows) t ->
  nthz (items s0) pos = Some w -> rows = i_rows w -> rows <> 0 ->
  exists oi sr',
    (if rows + ro <=? 0 then (oi, sr') = (- (rows - 1), sr - ((- ro) - (rows - 1))) else (oi, sr') = (ro, sr)) /\
    exists s', change_focus_sr s m pos oi CBelow sr' = Ok s' /\ SInv s0 s' /\ focus s' = pos.
Proof.
  intros s ro pos rows w Hs Hin Hw Hrw Hr.
  destruct (HC2 _ Hin) as [H0|H2]; cbn [t_rows t_ro fst snd] in *; [contradiction|].
  destruct (rows + ro <=? 0) eqn:E.
  - exists (- (rows - 1)), (sr - ((- ro) - (rows - 1))). split; [reflexivity|].
    destruct (cf_call s0 s m pos (- (rows - 1)) CBelow (sr - ((- ro) - (rows - 1))) w Hm ltac:(intros _; lia) Hs Hw)
      as [H|[_ H]]; [assumption|]. exfalso. apply H. unfold topvis. lia.
  - exists ro, sr. split; [reflexivity|].
    destruct (cf_call s0 s m pos ro CBelow sr w Hm ltac:(intros _; lia) Hs Hw) as [H|[_ H]]; [assumption|].
    exfalso. apply H. unfold topvis. lia.
Qed.

Lemma pu_loop1_outcome : forall order st,
  incl order oall -> (forall i, In i order -> exists x, nthz t i = Some x) ->
  SInv s0 (p_s st) -> TrU (p_s st) ->
  match pu_loop1 m sr t order st with
  | Ok (PDone s') => SInv s0 s'
  | Ok (PCont st') => SInv s0 (p_s st') /\ TrU (p_s st') /\ RoFrom order (p_ro st) (p_ro st')
  | Err e => False
  end.
Proof.
  induction order as [|i rest IH]; intros st Hincl Hidx Hs Htr; cbn [pu_loop1]; [splits; try assumption; now left|].
  destruct (Hidx i (or_introl eq_refl)) as ([[ro pos] rows] & Ex). rewrite Ex. cbn [p_s].
  assert (Hincl' : incl rest oall) by (intros j Hj; apply Hincl; now right).
  assert (Hidx' : forall j, In j rest -> exists x, nthz t j = Some x) by (intros j Hj; apply Hidx; now right).
  assert (Hcont : forall st1, p_ro st1 = ro -> SInv s0 (p_s st1) -> TrU (p_s st1) ->
     match pu_loop1 m sr t rest st1 with
     | Ok (PDone s') => SInv s0 s'
     | Ok (PCont st') => SInv s0 (p_s st') /\ TrU (p_s st') /\ RoFrom (i :: rest) (p_ro st) (p_ro st')
     | Err e => False
     end).
  { intros st1 Hro Hs1 Htr1. specialize (IH st1 Hincl' Hidx' Hs1 Htr1).
    destruct (pu_loop1 m sr t rest st1) as [[s'|st']|]; try assumption.
    destruct IH as (A & B & C). splits; try assumption. rewrite Hro in C.
    eapply rofrom_cons; [exact Ex | exact C]. }
  destruct (negb (sel_at (items (p_s st)) pos)); [apply Hcont; [reflexivity | assumption | assumption]|].
  destruct (rows =? 0) eqn:Er; [apply Hcont; [reflexivity | assumption | assumption]|].
  pose proof (nthz_In _ _ _ Ex) as Hin.
  destruct (Hcand _ Hin) as (w & Hw & Hrw). cbn [t_pos t_rows fst snd] in Hw, Hrw.
  destruct (pu_call (p_s st) ro pos rows w Hs Hin Hw Hrw ltac:(lia)) as (oi & sr' & Hsel & s' & Ec & Hs' & Hf').
  match goal with |- context [match ?c with Ok _ => _ | Err _ => _ end] => assert (Hc : c = Ok s') end.
  { destruct (rows + ro <=? 0); inversion Hsel; subst; exact Ec. }
  rewrite Hc.
  destruct (vis_total s0 s' m Hm HW Hs') as (v & ->).
  assert (Htr' : TrU s').
  { destruct (Z.eq_dec pos fpos) as [->|Hne]; [now left|]. right. exists i, (ro, pos, rows).
    cbn [t_pos t_rows fst snd]. splits; try assumption; try lia. apply Hincl. now left. }
  destruct (ro + sr <? v_off_inset v); [apply Hcont; [reflexivity | assumption | assumption]|].
  destruct (v_off_inset v <? ro); [apply Hcont; [reflexivity | assumption | assumption]|].
  destruct (v_off_inset v <? 0); [apply Hcont; [reflexivity | assumption | assumption]|].
  assumption.
Qed.

Lemma pu_loop2_outcome : forall s order ro0,
  (forall i, In i order -> exists x, nthz t i = Some x) -> SInv s0 s ->
  match pu_loop2 s m sr fpos t order ro0 with
  | Ok (Some s', _) => SInv s0 s'
  | Ok (None, ro) => (forall i x, In i order -> nthz t i = Some x -> t_pos x = fpos \/ t_rows x = 0) /\
                     RoFrom order ro0 ro
  | Err e => False
  end.
Proof.
  intros s. induction order as [|i rest IH]; intros ro0 Hidx Hs; cbn [pu_loop2]; [split; [intros i x [] | now left]|].
  destruct (Hidx i (or_introl eq_refl)) as ([[ro pos] rows] & Ex). rewrite Ex.
  assert (Hidx' : forall j, In j rest -> exists x, nthz t j = Some x) by (intros j Hj; apply Hidx; now right).
  assert (Hskip : (pos = fpos \/ rows = 0) ->
     match pu_loop2 s m sr fpos t rest ro with
     | Ok (Some s', _) => SInv s0 s'
     | Ok (None, r) => (forall j x, In j (i :: rest) -> nthz t j = Some x -> t_pos x = fpos \/ t_rows x = 0) /\
                       RoFrom (i :: rest) ro0 r
     | Err e => False
     end).
  { intros Hsk. specialize (IH ro Hidx' Hs).
    destruct (pu_loop2 s m sr fpos t rest ro) as [[[s'|] r2]|]; try assumption.
    destruct IH as [A B]. split.
    - intros j x [<-|Hj] Hx; [rewrite Ex in Hx; inversion Hx; subst; cbn [t_pos t_rows fst snd]; assumption | eapply A; eassumption].
    - eapply rofrom_cons; [exact Ex | exact B]. }
  destruct (pos =? fpos) eqn:Ep; [apply Hskip; left; lia|].
  destruct (rows =? 0) eqn:Er; [apply Hskip; right; lia|].
  pose proof (nthz_In _ _ _ Ex) as Hin.
  destruct (Hcand _ Hin) as (w & Hw & Hrw). cbn [t_pos t_rows fst snd] in Hw, Hrw.
  destruct (pu_call s ro pos rows w Hs Hin Hw Hrw ltac:(lia)) as (oi & sr' & Hsel & s' & Ec & Hs' & Hf').
  destruct (rows + ro <=? 0); inversion Hsel; subst; rewrite Ec; assumption.
Qed.
End Loops.

(* ---------- gathering the candidates ---------- *)
Definition proj (e : titem) : fitem := (t_pos e, t_rows e).

Lemma trows_proj l : trows l = tot (map proj l).
Proof. induction l as [|e l IH]; cbn [trows map tot]; [reflexivity|]. rewrite IH. reflexivity. Qed.

Lemma pu_for_spec : forall fa ro acc,
  exists ents, pu_for fa ro acc = (acc ++ ents, ro - tot fa) /\ chain_ok ro ents /\ map proj ents = fa.
Proof.
  induction fa as [|[pos rows] fa IH]; intros ro acc; cbn [pu_for tot].
  - exists []. rewrite app_nil_r. replace (ro - 0) with ro by lia. splits; [reflexivity | exact I | reflexivity].
  - destruct (IH (ro - rows) (acc ++ [(ro - rows, pos, rows)])) as (ents & E & Hc & Hm).
    exists ((ro - rows, pos, rows) :: ents). rewrite E, <- app_assoc. cbn [snd].
    splits; [f_equal; lia | cbn [chain_ok t_ro t_rows fst snd]; split; [reflexivity | assumption] |
             cbn [map proj t_pos t_rows fst snd]; now rewrite <- Hm].
Qed.

Lemma pu_while_spec : forall prevs sr ro srs acc, srs <= zlen acc ->
  exists ents, fst (pu_while prevs sr ro srs acc) = acc ++ ents /\ chain_ok ro ents /\
               (forall e, In e ents -> In (proj e) prevs) /\
               srs <= snd (pu_while prevs sr ro srs acc) <= zlen (acc ++ ents) /\
               (forall e, In e ents -> - sr < t_ro e + t_rows e).
Proof.
  induction prevs as [|[pos rows] prevs IH]; intros sr ro srs acc Hs; cbn [pu_while].
  - exists []. rewrite app_nil_r. destruct (ro <=? - sr); cbn [fst snd]; splits; try reflexivity; try lia; try exact I; intros e [].
  - destruct (ro <=? - sr) eqn:Eg.
    + exists []. rewrite app_nil_r. cbn [fst snd]. splits; try reflexivity; try lia; try exact I; intros e [].
    + destruct (IH sr (ro - rows) (if 0 <? ro - rows then srs + 1 else srs) (acc ++ [(ro - rows, pos, rows)]))
        as (ents & E & Hc & Hin & Hb & Hg).
      { unfold zlen in *. rewrite app_length. cbn [length]. destruct (0 <? ro - rows); lia. }
      exists ((ro - rows, pos, rows) :: ents). rewrite E. rewrite <- app_assoc. rewrite <- app_assoc in Hb. cbn [app] in *.
      revert Hb. destruct (0 <? ro - rows); intros [Hb1 Hb2];
        (split; [reflexivity|]; split; [cbn [chain_ok t_ro t_rows fst snd]; split; [reflexivity | assumption]|];
         split; [intros e [<-|He]; [now left | right; now apply Hin]|]; split; [split; [|exact Hb2]|
         intros e [<-|He]; [cbn [t_ro t_rows fst snd]; lia | now apply Hg]]).
      all: generalize dependent (snd (pu_while prevs sr (ro - rows) (srs + 1) (acc ++ [(ro - rows, pos, rows)]))); intros; lia.
Qed.

Lemma number_lt : forall l s x, In x (number s l) -> fst x < s + zlen l.
Proof.
  induction l as [|a l IH]; intros s x H; cbn [number] in H; [contradiction|]. rewrite zlen_cons.
  destruct H as [<-|H]; [cbn [fst]; pose proof (zlen_nonneg l); lia|]. specialize (IH (s + 1) x H). lia.
Qed.

Lemma above_of_lt its f p rw : 0 <= f -> In (p, rw) (above_of its f) -> p < f.
Proof.
  intros Hf H. unfold above_of in H. apply in_rev in H. apply number_lt in H. cbn [fst] in H.
  rewrite zlen_takez in H by lia. lia.
Qed.

(* every widget reported above the focus has a visible row *)
Lemma above_entry_topvis above below fpos h m cur v pre x post :
  nonneg above -> VisFacts above below fpos h m cur v -> v_above v = pre ++ x :: post ->
  topvis (v_off_inset v - tot pre - snd x) (snd x).
Proof.
  intros Hna (_ & _ & _ & t2 & t4 & restA & takenB & restB & Hab & _ & Eva & _ & Ftop & _ & F) Efa.
  cbv zeta in F. destruct F as (FJ & Ftt & _).
  assert (HnA : nonneg (t2 ++ t4)) by (rewrite Hab in Hna; now apply nonneg_app in Hna).
  assert (Hnfa : nonneg (v_above v)).
  { rewrite Eva. apply nonneg_app in HnA. destruct HnA. apply nonneg_app. split; [now apply nonneg_filter | assumption]. }
  assert (Etfa : tot (v_above v) = tot (t2 ++ t4)) by (rewrite Eva, !tot_app, tot_filter; reflexivity).
  rewrite Efa in Hnfa, Etfa. rewrite tot_app in Etfa. cbn [tot] in Etfa.
  apply nonneg_app in Hnfa. destruct Hnfa as [Hnpre Hnxp].
  pose proof (Forall_inv Hnxp) as Hx0. pose proof (Forall_inv_tail Hnxp) as Hnpost. fold (nonneg post) in Hnpost.
  pose proof (tot_nonneg _ Hnpre). pose proof (tot_nonneg _ Hnpost).
  unfold topvis. destruct (Z.ltb_spec 0 (v_trim_top v)) as [Hpos|Hpos]; [|lia].
  pose proof (last_above_trim t2 t4 (v_trim_top v) h (v_above v) HnA Ftop Eva Hpos) as Hlast.
  destruct (last_cases post) as [->|(post' & z & ->)].
  - specialize (Hlast pre x Efa). cbn [tot] in *. lia.
  - specialize (Hlast (pre ++ x :: post') z). rewrite Efa in Hlast.
    specialize (Hlast ltac:(now rewrite <- app_assoc)).
    rewrite (tot_app post' [z]) in *. cbn [tot] in *. apply nonneg_app in Hnpost. destruct Hnpost as [Hnp' _].
    pose proof (tot_nonneg _ Hnp'). lia.
Qed.

(* the adjustment "if we can't fill the top" *)
Lemma pu_adjust_facts : forall x00 rest,
  chain_ok (t_ro x00) rest -> (forall e, In e rest -> 0 <= t_rows e) ->
  let T := x00 :: rest in
  let T' := match rev T with
            | [] => T
            | xl :: _ => if 0 <? t_ro xl then map (t_shift (- t_ro xl)) T else T
            end in
  T' = T \/
  (exists d, T' = map (t_shift d) T /\ forall e, In e (map (t_shift d) T) -> 0 <= t_ro e).
Proof.
  intros x00 rest Hc Hnn T T'. unfold T'.
  destruct (rev T) as [|xl rT] eqn:Er; [now left|].
  destruct (0 <? t_ro xl) eqn:E; [|now left]. right. exists (- t_ro xl). split; [reflexivity|].
  assert (Hxl : In xl T) by (apply in_rev; rewrite Er; now left).
  assert (Hmin : forall e, In e T -> t_ro xl <= t_ro e).
  { assert (Hlast : t_ro xl = t_ro x00 - trows rest).
    { unfold T in Er. destruct (last_cases rest) as [->|(pre & z & ->)].
      - cbn in Er. inversion Er; subst. cbn [trows]. lia.
      - change (x00 :: pre ++ [z]) with ((x00 :: pre) ++ [z]) in Er. rewrite rev_app_distr in Er. cbn [rev app] in Er.
        inversion Er; subst. rewrite (chain_split pre (t_ro x00) xl [] Hc). rewrite trows_app. cbn [trows]. lia. }
    assert (Ht : 0 <= trows rest).
    { clear -Hnn. induction rest as [|y l IHl]; cbn [trows]; [lia|].
      assert (0 <= t_rows y) by (apply Hnn; now left).
      assert (0 <= trows l) by (apply IHl; intros e He; apply Hnn; now right). lia. }
    intros e [<-|He]; [lia|]. pose proof (chain_bounds rest (t_ro x00) Hc Hnn e He). lia. }
  intros e He. apply in_map_iff in He. destruct He as (e' & <- & He'). specialize (Hmin e' He').
  destruct e' as [[a b] c]. unfold t_shift, t_ro in *. cbn [fst snd] in *. lia.
Qed.

Definition C2 (sr : Z) (x : titem) : Prop := t_rows x = 0 \/ 1 - sr <= t_ro x + t_rows x.

Lemma candok_proj its e e' : proj e = proj e' -> CandOK its e' -> CandOK its e.
Proof. unfold proj, CandOK. intros [= E1 E2] (w & A & B). exists w. rewrite E1, E2. now split. Qed.

Lemma pu_gather_facts : forall s m v w cur,
  heights_ok (items s) -> 1 <= m ->
  nthz (items s) (focus s) = Some w -> (forall cy, cur = Some cy -> 0 <= cy < i_rows w) ->
  VisFacts (above_of (items s) (focus s)) (below_of (items s) (focus s)) (focus s) (i_rows w) m cur v ->
  exists sr x0 tl srs,
    pu_gather s m v = (sr, x0 :: tl, srs) /\ 0 <= sr /\
    (forall x, In x (x0 :: tl) -> CandOK (items s) x) /\
    (forall x, In x (x0 :: tl) -> C2 sr x) /\
    1 <= srs <= zlen (x0 :: tl) /\
    t_pos x0 = focus s /\ t_rows x0 = i_rows w /\ (0 <= t_ro x0 \/ 0 < t_ro x0 + i_rows w) /\
    chain_ok (t_ro x0) tl /\ (forall e, In e tl -> t_pos e < focus s) /\ (forall e, In e tl -> 0 <= t_rows e).
Proof.
  intros s m v w cur Hh Hm Hw Hcur HV.
  pose proof (split_at _ _ _ Hw) as (Esplit & _ & Hf).
  assert (Hna : nonneg (above_of (items s) (focus s))).
  { apply nonneg_rev, nonneg_number. rewrite Esplit in Hh. now apply heights_ok_app in Hh. }
  assert (Hh0 : 0 <= i_rows w) by (apply nthz_In in Hw; unfold heights_ok in Hh; rewrite Forall_forall in Hh; now apply Hh).
  assert (Hfill := fill_items_in (items s) (focus s) (i_rows w) m cur v ltac:(congruence) HV ltac:(lia)).
  pose proof (visfacts_offset_nonneg _ _ _ _ _ _ _ Hna Hh0 HV) as Hoff.
  assert (Htop := fun pre x post => above_entry_topvis _ _ _ _ _ _ v pre x post Hna HV).
  pose proof HV as (Efp & Efr & Ecu & t2 & t4 & restA & takenB & restB & Hab & _ & Eva & _ & _ & _ & F).
  cbv zeta in F. destruct F as (_ & _ & _ & _ & _ & _ & _ & Fcur).
  assert (Habove : forall p rw, In (p, rw) (v_above v) -> In (p, rw) (above_of (items s) (focus s))).
  { intros p rw Hin. rewrite Eva in Hin. rewrite Hab. apply in_or_app. left. apply in_app_or in Hin. apply in_or_app.
    destruct Hin as [H1|H1]; [left; now apply filter_In in H1 | now right]. }
  unfold pu_gather. rewrite Efp, Efr, Ecu.
  set (oi := v_off_inset v) in *.
  set (sfr := if negb (sel_at (items s) (focus s)) then oi
              else match cur with Some y => - y | None => if 0 <=? oi then 0 else oi end).
  assert (Hsfr : 0 <= oi - sfr /\ (0 <= sfr + m \/ 0 < sfr + m + i_rows w)).
  { unfold sfr. destruct (negb (sel_at (items s) (focus s))); [lia|].
    destruct cur as [y|]; [specialize (Hcur y eq_refl); specialize (Fcur y eq_refl); lia|].
    destruct (0 <=? oi) eqn:E; lia. }
  destruct Hsfr as [Hsr Hhead].
  set (sr := oi - sfr) in *. set (rof := sfr + m) in *.
  destruct (pu_for_spec (v_above v) rof [(rof, focus s, i_rows w)]) as (e1 & E1 & Hc1 & Hm1). rewrite E1.
  match goal with |- context [pu_while ?pv ?a ?b ?c ?acc] =>
    destruct (pu_while_spec pv a b c acc ltac:(lia)) as (e2 & E2 & Hc2 & Hin2 & Hb & Hg2);
    destruct (pu_while pv a b c acc) as [tt2 srs2] end.
  cbn [fst snd] in E2, Hb. subst tt2.
  set (x00 := (rof, focus s, i_rows w)) in *.
  assert (Etr : trows e1 = tot (v_above v)) by (rewrite trows_proj, Hm1; reflexivity).
  assert (Hchain : chain_ok rof (e1 ++ e2)) by (apply chain_app; [assumption | now rewrite Etr]).
  (* facts about the entries before the adjustment *)
  assert (He1 : forall e, In e e1 -> In (proj e) (above_of (items s) (focus s)) /\ C2 sr e).
  { intros e He. destruct (in_split _ _ He) as (pre & post & Epp). split.
    - apply Habove. rewrite <- Hm1. unfold proj. change (t_pos e, t_rows e) with (proj e). now apply in_map.
    - assert (Efa : v_above v = map proj pre ++ proj e :: map proj post).
      { rewrite <- Hm1, Epp, map_app. reflexivity. }
      specialize (Htop _ _ _ Efa). cbn [proj snd] in Htop. rewrite <- trows_proj in Htop.
      rewrite Epp in Hc1. pose proof (chain_split _ _ _ _ Hc1) as Ero.
      assert (0 <= t_rows e).
      { assert (Hi : In (proj e) (above_of (items s) (focus s))).
        { apply Habove. rewrite Efa. apply in_or_app. right. now left. }
        unfold nonneg in Hna. rewrite Forall_forall in Hna. apply (Hna _ Hi). }
      unfold C2, topvis in *. fold oi in Htop. unfold sr, rof in *. lia. }
  assert (Hlastpos : last_fill_pos (v_above v) (focus s) <= focus s /\ 0 <= last_fill_pos (v_above v) (focus s)).
  { split; [|apply (last_fill_pos_nonneg (items s)); [lia | intros p rw Hp; apply Hfill; now left]].
    unfold last_fill_pos. destruct (rev (v_above v)) as [|[p rw] r] eqn:Er; [lia|].
    assert (Hin : In (p, rw) (rev (v_above v))) by (rewrite Er; now left). apply in_rev in Hin.
    pose proof (above_of_lt (items s) (focus s) p rw ltac:(lia) (Habove _ _ Hin)). lia. }
  assert (He2 : forall e, In e e2 -> In (proj e) (number 0 (items s)) /\ t_pos e < focus s /\ 0 <= t_rows e /\ C2 sr e).
  { intros e He. specialize (Hin2 e He). specialize (Hg2 e He).
    pose proof (above_of_lt (items s) (last_fill_pos (v_above v) (focus s)) (t_pos e) (t_rows e) ltac:(lia) Hin2) as Hlt.
    assert (Hnn : 0 <= t_rows e).
    { assert (Hn : nonneg (above_of (items s) (last_fill_pos (v_above v) (focus s)))).
      { apply nonneg_rev, nonneg_number.
        assert (E : items s = takez (last_fill_pos (v_above v) (focus s)) (items s) ++ dropz (last_fill_pos (v_above v) (focus s)) (items s))
          by (unfold takez, dropz; now rewrite firstn_skipn).
        rewrite E in Hh. now apply heights_ok_app in Hh. }
      unfold nonneg in Hn. rewrite Forall_forall in Hn. apply (Hn _ Hin2). }
    splits; try lia; [|unfold C2; right; lia].
    unfold above_of in Hin2. apply in_rev in Hin2. now apply In_number_takez in Hin2. }
  assert (Hrest : forall e, In e (e1 ++ e2) ->
            In (proj e) (number 0 (items s)) /\ t_pos e < focus s /\ 0 <= t_rows e /\ C2 sr e).
  { intros e He. apply in_app_or in He. destruct He as [He|He]; [|now apply He2].
    destruct (He1 e He) as [Hi Hc]. splits; [| | |assumption].
    - unfold above_of in Hi. apply in_rev in Hi. now apply In_number_takez in Hi.
    - apply (above_of_lt (items s) (focus s) (t_pos e) (t_rows e) ltac:(lia) Hi).
    - unfold nonneg in Hna. rewrite Forall_forall in Hna. apply (Hna _ Hi). }
  assert (Hlen : 1 <= srs2 <= zlen (x00 :: e1 ++ e2)).
  { change (x00 :: e1 ++ e2) with ([x00] ++ e1 ++ e2). rewrite app_assoc.
    destruct Hb as [Hb1 Hb2]. split; [|exact Hb2]. eapply Z.le_trans; [|exact Hb1].
    unfold zlen. rewrite app_length. cbn [length]. lia. }
  change (([x00] ++ e1) ++ e2) with (x00 :: e1 ++ e2).
  destruct (pu_adjust_facts x00 (e1 ++ e2) Hchain (fun e He => proj1 (proj2 (proj2 (Hrest e He)))))
    as [Eadj|(d & Eadj & Hpos)]; cbv zeta in Eadj;
    match goal with |- context [(sr, ?M, srs2)] =>
      first [assert (EM : M = x00 :: e1 ++ e2) by exact Eadj
            |assert (EM : M = map (t_shift d) (x00 :: e1 ++ e2)) by exact Eadj]; rewrite EM; clear EM end.
  - (* no adjustment *)
    exists sr, x00, (e1 ++ e2), srs2.
    split; [reflexivity|]. split; [exact Hsr|].
    split; [intros x [<-|Hx]; [exists w; split; [exact Hw | reflexivity] | apply candok_of_number; now apply Hrest]|].
    split; [intros x [<-|Hx]; [unfold C2, x00, t_rows, t_ro, sr, rof; cbn [fst snd]; lia | now apply Hrest]|].
    split; [exact Hlen|]. split; [reflexivity|]. split; [reflexivity|].
    split; [unfold x00, t_ro, rof; cbn [fst snd]; lia|].
    split; [exact Hchain|]. split; intros e He; now apply Hrest.
  - (* every offset was lowered so that the topmost candidate starts at row 0 *)
    cbn [map]. exists sr, (t_shift d x00), (map (t_shift d) (e1 ++ e2)), srs2.
    assert (Hin' : forall x, In x (map (t_shift d) (e1 ++ e2)) -> exists x', In x' (e1 ++ e2) /\ proj x = proj x' /\ 0 <= t_ro x).
    { intros x Hx. pose proof (Hpos x (or_intror Hx)) as Hp0. apply in_map_iff in Hx. destruct Hx as (x' & <- & Hx').
      exists x'. splits; [assumption | now destruct x' as [[a b] c] | assumption]. }
    pose proof (Hpos _ (or_introl eq_refl)) as Hp00.
    split; [reflexivity|]. split; [exact Hsr|].
    split.
    { intros x [<-|Hx]; [exists w; split; [exact Hw | reflexivity]|].
      destruct (Hin' x Hx) as (x' & Hx' & Ep & _). apply (candok_proj _ _ x' Ep). apply candok_of_number. now apply Hrest. }
    split.
    { intros x [<-|Hx].
      - unfold C2, x00, t_shift, t_rows, t_ro in *. cbn [fst snd] in *. lia.
      - destruct (Hin' x Hx) as (x' & Hx' & Ep & Hp0). destruct (Hrest x' Hx') as (_ & _ & Hr0 & _).
        unfold proj in Ep. inversion Ep as [[E1' E2']]. unfold C2. rewrite E2'. lia. }
    split; [unfold zlen in *; cbn [length] in *; rewrite map_length; exact Hlen|].
    split; [reflexivity|]. split; [reflexivity|].
    split; [left; exact Hp00|].
    split; [change (t_ro (t_shift d x00)) with (t_ro x00 + d); apply chain_shift; exact Hchain|].
    split; intros e He; destruct (Hin' e He) as (x' & Hx' & Ep & _); inversion Ep as [[E1' E2']];
      [rewrite E1' | rewrite E2']; now apply Hrest.
Qed.

Lemma search_order_complete srs len i : 0 <= srs <= len -> 0 <= i < len -> In i (search_order srs len).
Proof.
  intros H Hi. unfold search_order. apply in_or_app. destruct (Z.ltb_spec i srs).
  - right. apply in_rev. rewrite rev_involutive. apply zseq_In. lia.
  - left. apply zseq_In. lia.
Qed.

Lemma In_nthz {A} (l : list A) x : In x l -> exists i, 0 <= i < zlen l /\ nthz l i = Some x.
Proof.
  intros H. apply In_nth_error in H. destruct H as (n & Hn). exists (Z.of_nat n).
  assert (n < length l)%nat by (apply nth_error_Some; congruence).
  unfold nthz, zlen. destruct (Z.of_nat n <? 0) eqn:E; [lia|]. rewrite Nat2Z.id. split; [lia | assumption].
Qed.

(* ---------- 'page up' ---------- *)
Theorem page_up_never_raises_lemma : forall s m,
  ViewOK s -> WidgetsOK (items s) -> 1 <= m ->
  exists s' b, keypress_page_up s m = Ok (s', b) /\ ViewOK s' /\ items s' = items s.
Proof.
  intros s m Hv HW Hm. pose proof HW as [Hh Hc]. unfold keypress_page_up.
  destruct (nthz (items s) (focus s)) as [w|] eqn:Hw.
  2: { unfold visible. rewrite Hw. exists s, true. auto. }
  destruct Hv as [Ho Hnd].
  assert (Hcw : cursor_ok w) by (apply Hc; now apply nthz_In in Hw).
  destruct (visible_ok (items s) (focus s) (off s) (inum s) (iden s) m true w) as (v & Ev & HV & _);
    [constructor; assumption | assumption | assumption |].
  rewrite Ev.
  assert (Hcur : forall cy, cursor_of w m true = Some cy -> 0 <= cy < i_rows w).
  { intros cy. unfold cursor_of. destruct (negb (m =? 0) && i_sel w && true); [apply Hcw | discriminate]. }
  destruct (pu_gather_facts s m v w _ Hh Hm Hw Hcur HV)
    as (sr & x0 & tl & srs & Eg & Hsr & Hcand & HC2 & Hsrs & Hp0 & Hr0 & Hhead & Hchain & Hpos & Hnn).
  rewrite Eg.
  destruct HV as (Efp & Efr & _).
  assert (Ecand : pu_candidates s m v = if m <=? t_ro x0 then tl else x0 :: tl)
    by (unfold pu_candidates; rewrite Eg; reflexivity).
  remember (pu_candidates s m v) as t eqn:Et.
  set (srs' := if m <=? t_ro x0 then srs - 1 else srs).
  assert (Hsub : forall x, In x t -> In x (x0 :: tl)).
  { rewrite Ecand. destruct (m <=? t_ro x0); intros x Hx; [now right | assumption]. }
  assert (Htl : forall x, In x tl -> In x t).
  { rewrite Ecand. destruct (m <=? t_ro x0); intros x Hx; [assumption | now right]. }
  assert (Hcand' : forall x, In x t -> CandOK (items s) x) by (intros x Hx; apply Hcand; now apply Hsub).
  assert (HC2' : forall x, In x t -> t_rows x = 0 \/ 1 - sr <= t_ro x + t_rows x) by (intros x Hx; apply HC2; now apply Hsub).
  assert (Hb : 0 <= srs' <= zlen t).
  { unfold srs'. rewrite Ecand. rewrite zlen_cons in Hsrs. destruct (m <=? t_ro x0); [lia | rewrite zlen_cons; lia]. }
  assert (Hidx : forall i, In i (search_order srs' (zlen t)) -> exists x, nthz t i = Some x).
  { intros i Hi. apply nthz_some. eapply search_order_In; eassumption. }
  set (order := search_order srs' (zlen t)) in *.
  assert (Hs0 : SInv s s) by (split; [split; assumption | split; [reflexivity | now exists w]]).
  pose proof (pu_loop1_outcome s m sr (v_fpos v) t order Hm HW Hsr Hcand' HC2' order
                {| p_s := s; p_bad := []; p_cut := false; p_ro := t_ro x0 |}
                (incl_refl _) Hidx Hs0 (or_introl (eq_sym Efp))) as H1.
  destruct (pu_loop1 m sr t order _) as [[s1|st]|e]; [| |contradiction].
  - destruct H1 as (A & B & _). exists s1, false. auto.
  - destruct H1 as (Hs1 & Htr1 & Hro1). cbn [p_ro] in Hro1. destruct (p_cut st).
    { destruct Hs1 as (A & B & _). exists (p_s st), false. auto. }
    set (good := filter (fun j => negb (existsb (Z.eqb j) (p_bad st))) order).
    assert (Hidx2 : forall i, In i (good ++ order) -> exists x, nthz t i = Some x).
    { intros i Hi. apply in_app_or in Hi. destruct Hi as [Hi|Hi]; [apply filter_In in Hi; destruct Hi as [Hi _]|]; now apply Hidx. }
    pose proof (pu_loop2_outcome s m sr (v_fpos v) t Hm Hsr Hcand' HC2' (p_s st) (good ++ order) (p_ro st) Hidx2 Hs1) as H2.
    destruct (pu_loop2 (p_s st) m sr (v_fpos v) t (good ++ order) (p_ro st)) as [[[s2|] ro2]|e]; [| |contradiction].
    + destruct H2 as (A & B & _). exists s2, false. auto.
    + destruct H2 as [Hnone Hro2].
      assert (Hfoc : focus (p_s st) = v_fpos v).
      { destruct Htr1 as [?|(i & x & Hi & Hx & Hne & Hr)]; [assumption|].
        destruct (Hnone i x (in_or_app _ _ _ (or_intror Hi)) Hx); contradiction. }
      (* every remaining candidate has no rows: all offsets equal the one of the first entry *)
      assert (Hzero : forall e, In e tl -> t_rows e = 0).
      { intros e He. destruct (In_nthz t e (Htl e He)) as (i & Hi & Hx).
        destruct (Hnone i e (in_or_app _ _ _ (or_intror (search_order_complete _ _ _ Hb Hi))) Hx) as [Hp|Hz]; [|assumption].
        specialize (Hpos e He). lia. }
      assert (Hall : forall e, In e t -> t_ro e = t_ro x0).
      { intros e He. destruct (Hsub e He) as [<-|Hin]; [reflexivity|]. now apply (chain_zero tl (t_ro x0) Hchain Hzero). }
      assert (Hfrom : forall ord r0 r, RoFrom t ord r0 r -> r0 = t_ro x0 -> r = t_ro x0).
      { intros ord r0 r [->|(i & x & _ & Hx & <-)] E0; [assumption|]. apply Hall. now apply nthz_In in Hx. }
      assert (Ero1 : p_ro st = t_ro x0) by (eapply Hfrom; [exact Hro1 | reflexivity]).
      assert (Ero2 : ro2 = t_ro x0) by (eapply Hfrom; [exact Hro2 | exact Ero1]).
      destruct Hs1 as (Hv1 & Hi1 & Hf1).
      assert (Hra : rows_at (items (p_s st)) (focus (p_s st)) = i_rows w).
      { unfold rows_at. now rewrite Hi1, Hfoc, Efp, Hw. }
      match goal with |- context [shift_focus (p_s st) m ?o] =>
        destruct (shift_focus_ok (p_s st) m o) as (s3 & Es3 & _ & Hi3 & Hf3 & Hv3 & _) end.
      { rewrite Hra, Ero2. lia. }
      rewrite Es3.
      assert (Hs3 : SInv s s3).
      { split; [assumption|]. split; [congruence|]. rewrite Hf3. assumption. }
      destruct (vis_total s s3 m Hm HW Hs3) as (v2 & ->).
      destruct (ro2 <=? v_off_inset v2); [exists s3, false; split; [reflexivity | split; [assumption | congruence]]|].
      destruct (rev t) as [|xl rt]; [exists s3, false; split; [reflexivity | split; [assumption | congruence]]|].
      destruct (nthz (items s3) (t_pos xl - 1)) as [w2|] eqn:Ew2;
        [|exists s3, false; split; [reflexivity | split; [assumption | congruence]]].
      destruct (change_focus_sr_ok s3 m (t_pos xl - 1) (- (i_rows w2 - 1)) CBelow 0 w2 Hm ltac:(intros _; lia) Ew2
                  ltac:(right; lia)) as (s4 & Es4 & _ & Hi4 & _ & Hv4 & _).
      exists s4, false. unfold lift_k. rewrite Es4. split; [reflexivity | split; [assumption | congruence]].
Qed.

Theorem keypress_page_up_never_raises_lemma : forall s m,
  ViewOK s -> WidgetsOK (items s) -> 1 <= m ->
  exists s' b, keypress s m KPageUp = Ok (s', b) /\ ViewOK s' /\ items s' = items s.
Proof.
  intros s m Hv [Hh Hc] Hm. unfold keypress.
  destruct (set_focus_complete_ok s m true Hv Hh Hm Hc) as (s1 & -> & _ & Hi1 & Hv1 & _).
  destruct (nthz (items s1) (focus s1)); [|exists s1, true; auto].
  destruct (page_up_never_raises_lemma s1 m Hv1 ltac:(rewrite Hi1; split; assumption) Hm) as (s' & b & E & A & B).
  exists s', b. rewrite E. split; [reflexivity | split; [assumption | congruence]].
Qed.

(* ---------- 'home' / 'end' ---------- *)
Theorem keypress_home_end_never_raise_lemma : forall s m k,
  k = KHome \/ k = KEnd ->
  ViewOK s -> WidgetsOK (items s) -> 1 <= m ->
  exists s' b, keypress s m k = Ok (s', b) /\ ViewOK s' /\ items s' = items s.
Proof.
  intros s m k Hk Hv [Hh Hc] Hm. unfold keypress.
  destruct (set_focus_complete_ok s m true Hv Hh Hm Hc) as (s1 & -> & _ & Hi1 & Hv1 & _).
  destruct (nthz (items s1) (focus s1)) as [w|] eqn:Hw; [|exists s1, true; auto].
  pose proof (nthz_lt _ _ _ Hw) as Hlt.
  assert (Hset : forall p, 0 <= p < zlen (items s1) ->
            exists s2, set_focus s1 p CNone = Ok s2 /\ ViewOK s2 /\ items s2 = items s1).
  { intros p Hp. unfold set_focus. rewrite Hw. cbn [items set_pend].
    destruct (nthz_some (items s1) p Hp) as (x & ->). eexists. split; [reflexivity|].
    split; [apply viewok_set_body_focus; now apply viewok_set_pend | reflexivity]. }
  destruct Hk as [->| ->].
  - destruct (Hset 0 ltac:(lia)) as (s2 & -> & Hv2 & Hi2). eexists; eexists. split; [reflexivity|].
    split; [now apply viewok_set_vpend | cbn; congruence].
  - destruct (Hset (zlen (items s1) - 1) ltac:(lia)) as (s2 & -> & Hv2 & Hi2). eexists; eexists. split; [reflexivity|].
    split; [now apply viewok_set_vpend | cbn; congruence].
Qed.
