(* Top-level consequences for StandardTextLayout.layout / Text.rows / Text.render,
   assembled from the invariants of Proofs/TextLayoutProofs.v *)
From Coq Require Import ZArith List Bool Lia ZifyBool.
Import ListNotations.
From Urwid Require Import PyBase TextLayout TextLayoutFacts TextLayoutProofs.
Open Scope Z_scope.

Arguments Z.add : simpl never.
Arguments Z.sub : simpl never.
Arguments Z.mul : simpl never.
Arguments Z.div : simpl never.
Arguments Z.ltb : simpl never.
Arguments Z.leb : simpl never.
Arguments Z.eqb : simpl never.
Arguments Z.of_nat : simpl never.
Arguments Z.to_nat : simpl never.

Section Top.
Variable cw : Z -> Z.
Hypothesis cw_range : forall c, 0 <= cw c <= 2.
Hypothesis cw_space : cw SP = 1.
Variable t : list Z.
Variable width : Z.
Hypothesis width_pos : 1 <= width.
Variable align : alignmode.
Variable ell0 : list Z.

Notation len := (zlen t).
Notation W a b := (sumw cw (slice t a b)).
Notation ew := (sumw cw (trim_ell cw width ell0)).

Definition is_wrap (w : wrapmode) : Prop := w = WAny \/ w = WSpace.
Definition is_trim (w : wrapmode) : Prop := w = WClip \/ w = WEllipsis.

Lemma wrap_cases w : is_wrap w \/ is_trim w.
Proof. destruct w; [left; left | left; right | right; left | right; right]; reflexivity. Qed.

(* ---------- align_layout keeps what the observations see ---------- *)
Lemma shown_align S : Forall no_shift S -> shown_ranges (align_layout width align S) = shown_ranges S.
Proof.
  induction 1 as [|l S Hl HS IH]; [reflexivity|].
  unfold shown_ranges, align_layout in *. cbn [map flat_map]. rewrite IH.
  f_equal. apply (align_line_shift cw cw_range width align l Hl).
Qed.

Lemma align_line_nil l : align_line width align l = [] -> l = [].
Proof.
  unfold align_line. destruct ((line_width l =? width) || match align with AlLeft => true | _ => false end); [auto|].
  destruct align; intros H; try discriminate; auto.
  all: destruct ((width - line_width l + 1) / 2 =? 0); [assumption | discriminate].
Qed.

Lemma in_align S ln : In ln (align_layout width align S) -> exists l0, In l0 S /\ ln = align_line width align l0.
Proof. unfold align_layout. intros H. apply in_map_iff in H. destruct H as (l0 & E & I). eauto. Qed.

Lemma align_in S l0 : In l0 S -> In (align_line width align l0) (align_layout width align S).
Proof. unfold align_layout. apply in_map. Qed.

Lemma in_align_text l0 sc o e : no_shift l0 -> In (SText sc o e) (align_line width align l0) -> In (SText sc o e) l0.
Proof.
  intros NS. rewrite (align_line_spec cw cw_range width align l0 NS).
  destruct (pad_expected width align (line_width l0) =? 0); [auto|]. intros [Q|I]; [discriminate | assumption].
Qed.

Lemma in_shown_ranges L o e : In (o, e) (shown_ranges L) -> exists ln sc, In ln L /\ In (SText sc o e) ln.
Proof.
  unfold shown_ranges, line_ranges. intros H. apply in_flat_map in H. destruct H as (ln & I & H).
  apply in_flat_map in H. destruct H as (s & Is & H). destruct s; cbn in H; try contradiction.
  destruct H as [Q|[]]. inversion Q; subst. eauto.
Qed.

Lemma in_ranges_rev i L : in_ranges i (shown_ranges L) -> in_ranges i (shown_ranges (rev L)).
Proof.
  intros (o & e & I & R). exists o, e. split; [|assumption].
  unfold shown_ranges in *. apply in_flat_map in I. destruct I as (ln & I1 & I2).
  apply in_flat_map. exists ln. split; [apply in_rev; rewrite rev_involutive|]; assumption.
Qed.

(* ====================================================================================== *)
(* 'any' and 'space'                                                                       *)
Section WrapTop.
Variable wrap : wrapmode.
Hypothesis Hw : is_wrap wrap.

Notation Lines := (Lines cw t width wrap).
Notation LineOK := (LineOK cw t width wrap).
Notation layout := (layout cw t width align wrap ell0).

Lemma calc_wrap : calculate_text_segments cw t width wrap ell0
                  = wrap_loop cw (Z.to_nat (2 * len + 3)) t width wrap [] 0.
Proof. destruct Hw as [-> | ->]; reflexivity. Qed.

(* the layout is the empty line exactly when CanNotDisplayText was raised, and that happens only for a
   double-width character in a one-column space; otherwise it is the aligned list of lines of the invariant *)
Theorem layout_wrap_cases :
  (layout = Ok [[]] /\ CantReason cw t width) \/
  exists segs, Lines segs (len + 1) /\ layout = Ok (align_layout width align (rev segs)).
Proof.
  unfold TextLayout.layout. rewrite calc_wrap.
  destruct (wrap_segments_good cw cw_range cw_space t width width_pos wrap Hw) as [(-> & R) | (segs & -> & HL)].
  - left; split; [reflexivity | assumption].
  - right. exists segs. split; [assumption | reflexivity].
Qed.

Lemma Lines_no_shift segs b : Lines segs b -> Forall no_shift (rev segs) /\ Forall (fun l => l <> []) (rev segs).
Proof.
  intros HL. split; apply Forall_forall; intros l I; apply in_rev in I;
    destruct (Lines_all cw t width wrap _ _ HL l I) as (a & b' & HO); apply (LineOK_shape cw t width wrap _ _ _ HO).
Qed.

Lemma aligned_line_origin segs L ln : Lines segs (len + 1) -> L = align_layout width align (rev segs) -> In ln L ->
  exists l0 a b, In l0 segs /\ LineOK a l0 b /\ ln = align_line width align l0 /\ no_shift l0 /\ l0 <> [].
Proof.
  intros HL -> I. destruct (in_align _ _ I) as (l0 & I0 & ->). apply in_rev in I0.
  destruct (Lines_all cw t width wrap _ _ HL l0 I0) as (a & b & HO).
  exists l0, a, b. repeat split; try assumption; apply (LineOK_shape cw t width wrap _ _ _ HO).
Qed.

Theorem wrap_layout_order L : layout = Ok L -> ranges_sorted 0 (shown_ranges L) len.
Proof.
  intros E. destruct layout_wrap_cases as [(E' & _) | (segs & HL & E')]; rewrite E' in E; inversion E; subst.
  - cbn. apply zlen_nonneg.
  - rewrite shown_align by (apply (Lines_no_shift _ _ HL)).
    pose proof (Lines_sorted cw t width wrap _ _ HL) as S. replace (Z.min (len + 1) len) with len in S by lia. exact S.
Qed.

Lemma omit_ok_transport segs i : Lines segs (len + 1) ->
  omit_ok cw t wrap segs i -> omit_ok cw t wrap (align_layout width align (rev segs)) i.
Proof.
  intros HL. pose proof (Lines_all cw t width wrap _ _ HL) as All.
  assert (Tr : forall l0, In l0 segs -> In (align_line width align l0) (align_layout width align (rev segs)) /\
                 line_hint (align_line width align l0) = line_hint l0 /\
                 line_next (align_line width align l0) = line_next l0).
  { intros l0 I. destruct (All l0 I) as (a & b & HO). destruct (LineOK_shape cw t width wrap _ _ _ HO) as (_ & NS & NE).
    split; [apply align_in; apply in_rev; rewrite rev_involutive; assumption|].
    apply (align_line_shift cw cw_range width align l0 NS); assumption. }
  intros [H|[(A & B & l & I & N)|(a & a' & A0 & A & B & C & D)]].
  - left; assumption.
  - right; left. repeat split; try assumption. destruct (Tr l I) as (I' & Hh & _).
    exists (align_line width align l). split; [assumption | congruence].
  - right; right. exists a, a'. repeat split; try lia; try assumption.
    destruct C as [->|(l & I & N)]; [left; reflexivity | right]. destruct (Tr l I) as (I' & _ & Hn).
    exists (align_line width align l). split; [assumption | congruence].
Qed.

Theorem wrap_layout_omits_only L : layout = Ok L -> L <> [[]] ->
  forall i, 0 <= i < len -> in_ranges i (shown_ranges L) \/ omit_ok cw t wrap L i.
Proof.
  intros E NE i Hi. destruct layout_wrap_cases as [(E' & _) | (segs & HL & E')]; rewrite E' in E; inversion E; subst.
  - contradiction.
  - destruct (Lines_cover cw t width wrap _ _ HL i ltac:(lia)) as [H|H].
    + left. rewrite shown_align by (apply (Lines_no_shift _ _ HL)). apply in_ranges_rev; assumption.
    + right. apply omit_ok_transport; assumption.
Qed.

Theorem wrap_layout_fits L : layout = Ok L -> forall ln, In ln L ->
  0 <= line_width ln <= width /\
  forall sc o e, In (SText sc o e) ln -> sc = W o e /\ 0 < sc /\ 0 <= o < e /\ e <= len.
Proof.
  intros E ln I. destruct layout_wrap_cases as [(E' & _) | (segs & HL & E')]; rewrite E' in E; inversion E; subst.
  - destruct I as [<-|[]]. cbn. split; [lia | intros ? ? ? []].
  - destruct (aligned_line_origin _ _ _ HL eq_refl I) as (l0 & a & b & I0 & HO & -> & NS & NE).
    destruct (LineOK_fits cw t width width_pos wrap _ _ _ HO) as (F1 & F2 & _).
    split; [rewrite (proj1 (proj2 (align_line_shift cw cw_range width align l0 NS))); assumption|].
    intros sc o e Hin. apply in_align_text in Hin; [|assumption]. specialize (F2 _ _ _ Hin). lia.
Qed.

(* a line that ends without a removed-character hint was broken inside a paragraph *)
Lemma wrap_broken_line L ln sc o e : layout = Ok L -> In ln L -> line_hint ln = None -> In (SText sc o e) ln ->
  break_ok cw t width wrap e sc.
Proof.
  intros E I Hh Hin. destruct layout_wrap_cases as [(E' & _) | (segs & HL & E')]; rewrite E' in E; inversion E; subst.
  - destruct I as [<-|[]]. destruct Hin.
  - destruct (aligned_line_origin _ _ _ HL eq_refl I) as (l0 & a & b & I0 & HO & -> & NS & NE).
    rewrite (proj1 (proj2 (proj2 (proj2 (align_line_shift cw cw_range width align l0 NS))) NE)) in Hh.
    apply in_align_text in Hin; [|assumption].
    destruct (LineOK_broken cw t width wrap _ _ _ HO Hh) as (a' & sc' & -> & Hsc & Hb).
    destruct Hin as [Q|[]]. inversion Q; subst. exact Hb.
Qed.

Theorem layout_empty_line_only_if_cannot_display : layout = Ok [[]] -> CantReason cw t width.
Proof.
  intros E. destruct layout_wrap_cases as [(_ & R) | (segs & HL & E')]; [assumption|]. exfalso.
  rewrite E' in E. inversion E as [E2]. destruct (Lines_no_shift _ _ HL) as (_ & NE).
  destruct (rev segs) as [|l r]; [discriminate|]. cbn in E2. inversion E2 as [[E3 E4]].
  inversion NE as [|? ? Hl _]; subst. apply Hl. apply align_line_nil. assumption.
Qed.

(* 'any' fills each line as far as the next character allows *)
Theorem wrap_any_maximal L ln sc o e : wrap = WAny -> layout = Ok L -> In ln L -> line_hint ln = None ->
  In (SText sc o e) ln -> exists c, nthz t e = Some c /\ width < sc + cw c.
Proof.
  intros Ew E I Hh Hin. pose proof (wrap_broken_line L ln sc o e E I Hh Hin) as B.
  unfold break_ok in B. rewrite Ew in B. exact B.
Qed.

(* 'space' breaks only at spaces (or next to a double-width character) when every word fits *)
Theorem wrap_space_breaks_at_spaces L ln sc o e : wrap = WSpace -> layout = Ok L -> In ln L -> line_hint ln = None ->
  In (SText sc o e) ln ->
  (forall i j, (forall k, i <= k <= j -> narrow_at cw t k) -> W i (j + 1) <= width) ->
  (exists c, nthz t e = Some c /\ cw c = 2) \/ (exists c, nthz t (e - 1) = Some c /\ cw c = 2) \/ nthz t (e - 1) = Some SP.
Proof.
  intros Ew E I Hh Hin Hfit. pose proof (wrap_broken_line L ln sc o e E I Hh Hin) as B.
  unfold break_ok in B. rewrite Ew in B. destruct B as [B|[B|[B|(i & j & Hij & Hn & Hl)]]]; auto.
  specialize (Hfit i j Hn). lia.
Qed.

Theorem wrap_align_pad L ln : layout = Ok L -> In ln L -> ln <> [] ->
  line_shift ln = pad_expected width align (line_width ln).
Proof.
  intros E I NE. destruct layout_wrap_cases as [(E' & _) | (segs & HL & E')]; rewrite E' in E; inversion E; subst.
  - destruct I as [<-|[]]. contradiction.
  - destruct (aligned_line_origin _ _ _ HL eq_refl I) as (l0 & a & b & I0 & HO & -> & NS & NE0).
    destruct (align_line_shift cw cw_range width align l0 NS) as (A & B & _). rewrite A, B. reflexivity.
Qed.

(* a double-width character in a one-column space: the empty line *)
Theorem wrap_wide_in_one_column_empty k c : width = 1 -> nthz t k = Some c -> cw c = 2 -> c <> NL ->
  layout = Ok [[]].
Proof.
  intros W1 N C2 CN. destruct layout_wrap_cases as [(E' & _) | (segs & HL & E')]; [assumption | exfalso].
  pose proof (nthz_lt _ _ _ N) as Hk.
  destruct (Lines_cover cw t width wrap _ _ HL k ltac:(lia)) as [(o & e & I & R) | [H|[(_ & H & _)|(a & a' & A0 & A & B & _)]]].
  - destruct (in_shown_ranges _ _ _ I) as (ln & sc & Iln & Itx).
    destruct (Lines_all cw t width wrap _ _ HL ln Iln) as (a & b & HO).
    destruct (LineOK_fits cw t width width_pos wrap _ _ _ HO) as (_ & F2 & _).
    destruct (F2 _ _ _ Itx) as (Hsc & Hr & Ho & He).
    pose proof (sumw_slice_split cw t o k e ltac:(lia) ltac:(lia)).
    pose proof (sumw_slice_cons cw t k e c ltac:(lia) N).
    pose proof (sumw_nonneg cw cw_range (slice t o k)). pose proof (sumw_nonneg cw cw_range (slice t (k + 1) e)). lia.
  - rewrite N in H. inversion H. contradiction.
  - rewrite N in H. inversion H. subst c. lia.
  - pose proof (sumw_slice_zero_nth cw cw_range t a a' k c ltac:(lia) B ltac:(lia) N). lia.
Qed.

(* rendering: every line of an 'any'/'space' layout fits, so apply_text_layout never raises and every
   row is exactly [width] columns wide *)
Lemma LineOK_seg_ok a l b : LineOK a l b -> Forall (seg_ok cw t) l /\ total l <= width /\ no_shift l.
Proof.
  intros HO. destruct (LineOK_fits cw t width width_pos wrap _ _ _ HO) as (F1 & F2 & F3).
  destruct (LineOK_shape cw t width wrap _ _ _ HO) as (_ & NS & _).
  split; [|split; [rewrite <- (line_width_no_shift l NS); lia | assumption]].
  apply Forall_forall. intros s I. specialize (F3 s I). destruct s as [sc o e| | sc o|]; try contradiction.
  - specialize (F2 _ _ _ I). cbn. lia.
  - destruct sc; try contradiction. cbn. lia.
Qed.

Theorem wrap_render_total :
  exists rows, text_render cw t width align wrap ell0 = LOk rows /\
               Forall (fun r => sumw cw r = width) rows /\
               text_rows cw t width align wrap ell0 = LOk (zlen rows).
Proof.
  unfold text_render, text_rows.
  destruct layout_wrap_cases as [(E' & _) | (segs & HL & E')]; rewrite E'; cbn [to_lres lbind].
  - destruct (render_lines_fits cw cw_range cw_space t width width_pos [[]]) as (rows & -> & Hl & Hws).
    { constructor; [|constructor]. split; [constructor | unfold total; cbn; lia]. }
    exists rows. rewrite Hl. repeat split; assumption || reflexivity.
  - destruct (render_lines_fits cw cw_range cw_space t width width_pos (align_layout width align (rev segs)))
      as (rows & -> & Hl & Hws).
    { apply Forall_forall. intros ln I.
      destruct (aligned_line_origin _ _ _ HL eq_refl I) as (l0 & a & b & I0 & HO & -> & NS & NE0).
      destruct (LineOK_seg_ok _ _ _ HO) as (F & T & _).
      apply (align_line_fits cw cw_range t width align l0 NS F T). }
    exists rows. rewrite Hl. repeat split; assumption || reflexivity.
Qed.

End WrapTop.
(* ====================================================================================== *)
(* 'clip' and 'ellipsis'                                                                   *)
Section TrimTop.
Variable wrap : wrapmode.
Hypothesis Hw : is_trim wrap.

Notation TLines := (TLines cw t width wrap ell0).
Notation TLineOK := (TLineOK cw t width wrap ell0).
Notation layout := (layout cw t width align wrap ell0).

Theorem layout_trim_cases :
  exists segs, TLines segs (len + 1) /\ layout = Ok (align_layout width align (rev segs)).
Proof.
  unfold TextLayout.layout.
  destruct (trim_segments_good cw cw_range t width width_pos wrap Hw ell0) as (segs & E & HL).
  exists segs. split; [assumption|].
  destruct Hw as [-> | ->]; cbn [calculate_text_segments]; rewrite E; reflexivity.
Qed.

Lemma TLines_no_shift segs b : TLines segs b -> Forall no_shift (rev segs).
Proof.
  intros HL. apply Forall_forall; intros l I; apply in_rev in I.
  destruct (TLines_all cw t width wrap ell0 _ _ HL l I) as (a & b' & HO).
  apply (TLineOK_shape cw t width wrap ell0 _ _ _ HO).
Qed.

Lemma trim_line_origin segs ln : TLines segs (len + 1) -> In ln (align_layout width align (rev segs)) ->
  exists l0 a b, TLineOK a l0 b /\ ln = align_line width align l0 /\ no_shift l0 /\ l0 <> [].
Proof.
  intros HL I. destruct (in_align _ _ I) as (l0 & I0 & ->). apply in_rev in I0.
  destruct (TLines_all cw t width wrap ell0 _ _ HL l0 I0) as (a & b & HO).
  exists l0, a, b. repeat split; try assumption; apply (TLineOK_shape cw t width wrap ell0 _ _ _ HO).
Qed.

Theorem trim_layout_order L : layout = Ok L -> ranges_sorted 0 (shown_ranges L) len.
Proof.
  intros E. destruct layout_trim_cases as (segs & HL & E'). rewrite E' in E; inversion E; subst.
  rewrite shown_align by (apply (TLines_no_shift _ _ HL)).
  pose proof (TLines_sorted cw t width wrap ell0 _ _ HL) as S. replace (Z.min (len + 1) len) with len in S by lia. exact S.
Qed.

Theorem trim_layout_omits_only L : layout = Ok L ->
  forall i, 0 <= i < len -> in_ranges i (shown_ranges L) \/ omit_ok_trim cw t width wrap ell0 i.
Proof.
  intros E i Hi. destruct layout_trim_cases as (segs & HL & E'). rewrite E' in E; inversion E; subst.
  destruct (TLines_cover cw t width wrap ell0 _ _ HL i ltac:(lia)) as [H|H]; [left | right; assumption].
  rewrite shown_align by (apply (TLines_no_shift _ _ HL)). apply in_ranges_rev; assumption.
Qed.

(* ellipsis mode (whenever an ellipsis fits at all): every line fits; a cut line fills the width exactly *)
Theorem trim_layout_fits L : layout = Ok L -> forall ln, In ln L ->
  (wrap = WEllipsis -> ew <> 0 -> 0 <= line_width ln <= width) /\
  (forall sc o e, In (SText sc o e) ln -> sc = W o e /\ 0 < sc /\ 0 <= o < e /\ e <= len) /\
  (forall sc o txt, In (SIns sc o txt) ln -> line_width ln = width).
Proof.
  intros E ln I. destruct layout_trim_cases as (segs & HL & E'). rewrite E' in E; inversion E; subst.
  destruct (trim_line_origin _ _ HL I) as (l0 & a & b & HO & -> & NS & NE).
  destruct (TLineOK_fits cw cw_range t width width_pos wrap ell0 _ _ _ HO) as (F1 & F2 & F3 & _).
  destruct (align_line_shift cw cw_range width align l0 NS) as (_ & LW & _). rewrite LW.
  repeat split.
  - apply F1; assumption.
  - apply F1; assumption.
  - apply in_align_text in H; [|assumption]. apply (F2 _ _ _ H).
  - apply in_align_text in H; [|assumption]. apply (F2 _ _ _ H).
  - apply in_align_text in H; [|assumption]. apply (F2 _ _ _ H).
  - apply in_align_text in H; [|assumption]. apply (F2 _ _ _ H).
  - apply in_align_text in H; [|assumption]. apply (F2 _ _ _ H).
  - intros sc o txt Hin. rewrite (align_line_spec cw cw_range width align l0 NS) in Hin.
    destruct (pad_expected width align (line_width l0) =? 0); [|destruct Hin as [Q|Hin]; [discriminate|]];
      apply (F3 _ _ _ Hin).
Qed.

Theorem trim_align_pad L ln : layout = Ok L -> In ln L ->
  line_shift ln = pad_expected width align (line_width ln).
Proof.
  intros E I. destruct layout_trim_cases as (segs & HL & E'). rewrite E' in E; inversion E; subst.
  destruct (trim_line_origin _ _ HL I) as (l0 & a & b & HO & -> & NS & NE).
  destruct (align_line_shift cw cw_range width align l0 NS) as (A & B & _). rewrite A, B. reflexivity.
Qed.

Lemma TLineOK_seg_ok a l b : TLineOK a l b -> Forall (seg_ok cw t) l.
Proof.
  intros HO. destruct (TLineOK_fits cw cw_range t width width_pos wrap ell0 _ _ _ HO) as (_ & F2 & F3 & F4 & F5).
  apply Forall_forall. intros s I. destruct s as [sc o e|sc o txt|sc o|sc]; cbn.
  - specialize (F2 _ _ _ I). lia.
  - specialize (F3 _ _ _ I). destruct F3 as (A & B & C & _). repeat split; assumption.
  - specialize (F4 _ _ I). lia.
  - exfalso. apply (F5 _ I).
Qed.

(* rendering never raises and every row is exactly [width] columns wide: in ellipsis mode for every
   alignment (whenever an ellipsis fits at all), and for left-aligned text in both modes *)
Theorem trim_render_total :
  (wrap = WEllipsis /\ ew <> 0) \/ align = AlLeft ->
  exists rows, text_render cw t width align wrap ell0 = LOk rows /\
               Forall (fun r => sumw cw r = width) rows /\
               text_rows cw t width align wrap ell0 = LOk (zlen rows).
Proof.
  intros Hcase. unfold text_render, text_rows.
  destruct layout_trim_cases as (segs & HL & E'). rewrite E'. cbn [to_lres lbind].
  assert (Hlines : forall ln, In ln (align_layout width align (rev segs)) ->
            exists row, render_line cw t width ln = LOk row /\ sumw cw row = width).
  { intros ln I. destruct (trim_line_origin _ _ HL I) as (l0 & a & b & HO & -> & NS & NE).
    pose proof (TLineOK_seg_ok _ _ _ HO) as F.
    destruct (Z_le_gt_dec (total l0) width) as [Le|Gt].
    - destruct (render_line_fits cw cw_range cw_space t width width_pos _
                  (align_line_fits cw cw_range t width align l0 NS F Le)) as (row & _ & _ & -> & S).
      eexists; split; [reflexivity | exact S].
    - (* an over-long line: only plain (uncut) lines can be over-long, and then the text is left aligned *)
      destruct (TLineOK_fits cw cw_range t width width_pos wrap ell0 _ _ _ HO) as (F1 & _).
      rewrite <- (line_width_no_shift l0 NS) in Gt.
      destruct Hcase as [(Ew & Hne) | ->]; [specialize (F1 Ew Hne); lia|].
      replace (align_line width AlLeft l0) with l0
        by (unfold align_line; rewrite orb_true_r; reflexivity).
      inversion HO; subst.
      + destruct (W a nl =? 0) eqn:E0.
        * cbn [app line_width fold_left seg_sc] in Gt. lia.
        * cbn [app line_width fold_left seg_sc] in Gt. cbn [app].
          assert (a < nl).
          { destruct (Z_lt_le_dec a nl); [assumption|]. rewrite slice_nil in E0 by lia. cbn in E0. lia. }
          destruct (render_line_clip_left cw cw_range cw_space t width width_pos a nl ltac:(lia) ltac:(lia) ltac:(lia))
            as (p & pr & -> & _ & _ & _ & _ & S).
          eexists; split; [reflexivity | exact S].
      + exfalso. destruct (W a e =? 0) eqn:E0; cbn [app line_width fold_left seg_sc] in Gt; lia. }
  assert (Hall : forall Ls, (forall ln, In ln Ls -> exists row, render_line cw t width ln = LOk row /\ sumw cw row = width) ->
            exists rows, render_lines cw t width Ls = LOk rows /\ zlen rows = zlen Ls /\ Forall (fun r => sumw cw r = width) rows).
  { induction Ls as [|l Ls IH]; intros Hl; cbn [render_lines].
    - exists []. repeat split; constructor.
    - destruct (Hl l (or_introl eq_refl)) as (row & -> & S).
      destruct (IH (fun ln I => Hl ln (or_intror I))) as (rows & -> & Hn & Hws). cbn [lbind].
      eexists; split; [reflexivity|]. rewrite !zlen_cons, Hn. split; [reflexivity | constructor; assumption]. }
  destruct (Hall _ Hlines) as (rows & -> & Hn & Hws).
  exists rows. rewrite Hn. repeat split; assumption.
Qed.

End TrimTop.

(* ====================================================================================== *)
(* all four wrap modes                                                                     *)
Theorem layout_total wrap : exists L, layout cw t width align wrap ell0 = Ok L /\ L <> [].
Proof.
  destruct (wrap_cases wrap) as [Hw|Hw].
  - destruct (layout_wrap_cases wrap Hw) as [(E & _) | (segs & HL & E)]; rewrite E; eexists; split; try reflexivity.
    + discriminate.
    + intros N. unfold align_layout in N. apply map_eq_nil in N.
      assert (segs = []) by (destruct segs; [reflexivity|]; cbn in N; apply app_eq_nil in N; destruct N; discriminate).
      subst. inversion HL. pose proof (zlen_nonneg t). lia.
  - destruct (layout_trim_cases wrap Hw) as (segs & HL & E). rewrite E. eexists; split; [reflexivity|].
    intros N. unfold align_layout in N. apply map_eq_nil in N.
    assert (segs = []) by (destruct segs; [reflexivity|]; cbn in N; apply app_eq_nil in N; destruct N; discriminate).
    subst. inversion HL. pose proof (zlen_nonneg t). lia.
Qed.

Theorem layout_order wrap L : layout cw t width align wrap ell0 = Ok L -> ranges_sorted 0 (shown_ranges L) len.
Proof. destruct (wrap_cases wrap); [apply wrap_layout_order | apply trim_layout_order]; assumption. Qed.

Theorem align_pad wrap L ln : layout cw t width align wrap ell0 = Ok L -> In ln L -> ln <> [] ->
  line_shift ln = pad_expected width align (line_width ln).
Proof.
  destruct (wrap_cases wrap); intros; [eapply wrap_align_pad | eapply trim_align_pad]; eassumption.
Qed.

(* the row count reported equals the number of rows rendered (and the rows of pack) *)
Theorem rows_eq_len wrap n rows : text_rows cw t width align wrap ell0 = LOk n ->
  text_render cw t width align wrap ell0 = LOk rows -> zlen rows = n.
Proof.
  unfold text_rows, text_render. destruct (layout cw t width align wrap ell0) as [L|e]; cbn [to_lres lbind]; [|discriminate].
  intros E1 E2. inversion E1; subst. eapply render_lines_length; eassumption.
Qed.

Theorem pack_rows_eq_rows wrap n c r : text_rows cw t width align wrap ell0 = LOk n ->
  text_pack cw t width align wrap ell0 = LOk (c, r) -> r = n.
Proof.
  unfold text_rows, text_pack. destruct (layout cw t width align wrap ell0) as [L|e]; cbn [to_lres lbind]; [|discriminate].
  intros E1 E2. inversion E1; subst. destruct (layout_pack width L); cbn [to_lres lbind] in E2; inversion E2; reflexivity.
Qed.

End Top.
