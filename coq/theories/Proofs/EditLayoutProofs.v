(* C10 - what calc_coords / calc_pos compute on layout data: the cursor of a displayed offset is
   its character's cell (cursor_cell) and a click on a cell of a character selects that
   character (click_cell). *)
From Coq Require Import ZArith List Bool Lia ZifyBool.
From Urwid Require Import PyBase Edit EditSpec EditProofs.
Import ListNotations.
Open Scope Z_scope.

Arguments Z.add : simpl never.
Arguments Z.sub : simpl never.
Arguments Z.mul : simpl never.
Arguments Z.ltb : simpl never.
Arguments Z.leb : simpl never.
Arguments Z.eqb : simpl never.
Arguments Z.gtb : simpl never.
Arguments Z.geb : simpl never.
Arguments Z.min : simpl never.
Arguments Z.max : simpl never.
Arguments Z.abs : simpl never.
Arguments Z.to_nat : simpl never.
Arguments Z.of_nat : simpl never.

(* ---------- vocabulary (no reference to the closest-match bookkeeping of the code) ---------- *)

(* the segment shows offset p: a text segment covering it, or a segment standing for exactly p
   (a removed blank/newline, the end of the text, an ellipsis) *)
Definition seg_has (s : seg) (p : Z) : bool :=
  match s with
  | SPad _ => false
  | SHint _ o => o =? p
  | SText _ o e => (o =? p) || ((o <=? p) && (p <? e))
  end.

Fixpoint sumsc (l : line) : Z := match l with [] => 0 | s :: r => seg_sc s + sumsc r end.

Section Layout.
Variable cw : Z -> Z.

Notation calc_width := (calc_width cw).
Notation calc_coords := (calc_coords cw).
Notation calc_pos := (calc_pos cw).
Notation calc_line_pos := (calc_line_pos cw).

(* column of offset p inside a segment that shows it *)
Definition seg_col (t : list Z) (s : seg) (p : Z) : Z :=
  match s with SText _ o _ => calc_width t o p | _ => 0 end.

(* the first place offset p is shown: (column, row) *)
Fixpoint find_seg (t : list Z) (segs : line) (p x : Z) : option Z :=
  match segs with
  | [] => None
  | s :: r => if seg_has s p then Some (x + seg_col t s p) else find_seg t r p (x + seg_sc s)
  end.

Fixpoint find_row (t : list Z) (lay : layout) (p y : Z) : option (Z * Z) :=
  match lay with
  | [] => None
  | l :: r => match find_seg t l p 0 with
              | Some x => Some (x, y)
              | None => find_row t r p (y + 1)
              end
  end.

Lemma calc_width_same t o : calc_width t o o = 0.
Proof. unfold Edit.calc_width, slicez. replace (o - o) with 0 by lia. reflexivity. Qed.

(* ---------- cursor_cell ---------- *)
Lemma cc_segs_find t segs p : forall x y cl,
  match find_seg t segs p x with
  | Some x' => cc_segs cw t segs p x y cl = inl (x', y)
  | None => exists cl', cc_segs cw t segs p x y cl = inr cl'
  end.
Proof.
  induction segs as [|s r IH]; intros x y cl; cbn [find_seg cc_segs].
  - eauto.
  - destruct s as [sc|sc o|sc o e]; cbn [seg_has seg_col seg_sc].
    + apply IH.
    + destruct (o =? p).
      * f_equal. f_equal. lia.
      * apply IH.
    + destruct (o =? p) eqn:E.
      * cbn [orb]. assert (o = p) by lia. subst o. rewrite calc_width_same. f_equal. f_equal. lia.
      * cbn [orb]. destruct ((o <=? p) && (p <? e)); [reflexivity|apply IH].
Qed.

Lemma cc_rows_find t lay p : forall y cl xy,
  find_row t lay p y = Some xy -> cc_rows cw t lay p y cl = xy.
Proof.
  induction lay as [|l r IH]; intros y cl xy H; cbn [find_row cc_rows] in *.
  - discriminate.
  - pose proof (cc_segs_find t l p 0 y cl) as S.
    destruct (find_seg t l p 0) as [x'|].
    + rewrite S. congruence.
    + destruct S as [cl' S]. rewrite S. apply IH. exact H.
Qed.

Theorem calc_coords_find t lay p xy :
  find_row t lay p 0 = Some xy -> calc_coords t lay p = xy.
Proof. apply cc_rows_find. Qed.

(* ---------- calc_text_pos: the character whose cell contains a column ---------- *)
Definition chars_ok (t : list Z) (a b : Z) : Prop :=
  forall i, a <= i < b -> exists c, nthz t i = Some c /\ 0 <= cw c.

Lemma nthz_cons_dropz {A} (t : list A) i c : nthz t i = Some c -> 0 <= i -> dropz i t = c :: dropz (i + 1) t.
Proof.
  unfold nthz, dropz. destruct (i <? 0) eqn:E; [lia|]. intros H Hi.
  replace (Z.to_nat (i + 1)) with (S (Z.to_nat i)) by lia.
  revert H. generalize (Z.to_nat i). clear. intros n. revert t.
  induction n as [|n IH]; intros [|x t] H; cbn in *; try discriminate.
  - congruence.
  - apply IH. exact H.
Qed.

Lemma calc_width_step t i p c :
  nthz t i = Some c -> 0 <= i < p -> calc_width t i p = cw c + calc_width t (i + 1) p.
Proof.
  intros H Hi. unfold Edit.calc_width, slicez.
  rewrite (nthz_cons_dropz t i c H) by lia.
  unfold takez. replace (Z.to_nat (p - i)) with (S (Z.to_nat (p - (i + 1)))) by lia.
  cbn [firstn map sumz]. reflexivity.
Qed.

Lemma calc_width_nonneg t : forall n a b, Z.of_nat n = b - a -> 0 <= a -> chars_ok t a b -> 0 <= calc_width t a b.
Proof.
  induction n as [|n IH]; intros a b Hn Ha Hc.
  - replace b with a by lia. rewrite calc_width_same. lia.
  - destruct (Hc a ltac:(lia)) as [c [H1 H2]].
    rewrite (calc_width_step t a b c H1) by lia.
    assert (0 <= calc_width t (a + 1) b).
    { apply IH; try lia. intros i Hi. apply Hc. lia. }
    lia.
Qed.

Lemma calc_width_split t : forall n a p b,
  Z.of_nat n = p - a -> 0 <= a -> p <= b -> chars_ok t a b ->
  calc_width t a b = calc_width t a p + calc_width t p b.
Proof.
  induction n as [|n IH]; intros a p b Hn Ha Hb Hc.
  - replace p with a by lia. rewrite calc_width_same. lia.
  - destruct (Hc a ltac:(lia)) as [c [H1 H2]].
    rewrite (calc_width_step t a b c H1) by lia.
    rewrite (calc_width_step t a p c H1) by lia.
    rewrite (IH (a + 1) p b); try lia. intros i Hi. apply Hc. lia.
Qed.

Lemma ctp_loop_hit t pc e p cp_ :
  nthz t p = Some cp_ ->
  forall n idx cols,
  0 <= idx <= p -> p < e -> Z.of_nat n = e - idx -> chars_ok t idx e ->
  cols + calc_width t idx p <= pc < cols + calc_width t idx p + cw cp_ ->
  ctp_loop cw t n idx cols pc e = Ok (p, cols + calc_width t idx p).
Proof.
  intros Hp. induction n as [|n IH]; intros idx cols Hi He Hn Hc Hr.
  - lia.
  - cbn [ctp_loop].
    destruct (Hc idx ltac:(lia)) as [c [H1 H2]]. rewrite H1.
    destruct (Z.eq_dec idx p) as [->|Hne].
    + rewrite calc_width_same in *. assert (c = cp_) by congruence. subst c.
      replace (cw cp_ + cols >? pc) with true by lia. f_equal. f_equal. lia.
    + rewrite (calc_width_step t idx p c H1) in Hr by lia.
      assert (0 <= calc_width t (idx + 1) p).
      { apply (calc_width_nonneg t (Z.to_nat (p - (idx + 1)))); try lia. intros i Hi'. apply Hc. lia. }
      replace (cw c + cols >? pc) with false by lia.
      rewrite (IH (idx + 1) (cols + cw c)); try lia.
      * f_equal. f_equal. rewrite (calc_width_step t idx p c H1) by lia. lia.
      * intros i Hi'. apply Hc. lia.
Qed.

Lemma ctp_pos_hit t o e p c col :
  nthz t p = Some c -> 0 <= o <= p -> p < e -> chars_ok t o e ->
  calc_width t o p <= col < calc_width t o p + cw c ->
  ctp_pos cw t o e col = Ok p.
Proof.
  intros Hp Ho He Hc Hr. unfold ctp_pos, calc_text_pos.
  replace (o >? e) with false by lia.
  rewrite (ctp_loop_hit t col e p c Hp (Z.to_nat (e - o)) o 0); try lia; auto.
Qed.

(* ---------- click_cell ---------- *)
Definition nonneg_segs (l : line) : Prop := Forall (fun s => 0 <= seg_sc s) l.

Definition csc_ok (csc : option Z) (col : Z) : Prop :=
  match csc with None => True | Some c => c <= col end.

Lemma clp_int_pre t col rest : forall pre cur csc cp,
  nonneg_segs pre -> cur + sumsc pre <= col -> csc_ok csc col ->
  exists csc' cp', csc_ok csc' col /\
    clp_int cw t (pre ++ rest) col csc cp cur = clp_int cw t rest col csc' cp' (cur + sumsc pre).
Proof.
  induction pre as [|s r IH]; intros cur csc cp Hn Hs Hk.
  - exists csc, cp. cbn [app sumsc]. split; [exact Hk|]. f_equal. lia.
  - inversion Hn as [|s' r' Hs0 Hr]; subst.
    cbn [sumsc] in Hs.
    assert (Hrs: 0 <= sumsc r).
    { clear - Hr. induction Hr; cbn [sumsc]; lia. }
    destruct s as [sc|sc o|sc o e]; cbn [seg_sc] in *; cbn [app clp_int].
    + destruct (IH (cur + sc) csc cp Hr ltac:(lia) Hk) as [c' [p' [K E]]].
      exists c', p'. split; [exact K|]. rewrite E. f_equal. cbn [sumsc seg_sc]. lia.
    + unfold clp_common.
      destruct csc as [c|]; cbn [csc_ok] in Hk.
      * destruct (Z.abs (col - cur) <? Z.abs (col - c)) eqn:Ea.
        -- replace (cur >? cur) with false by lia.
           destruct (IH (cur + sc) (Some cur) (CInt o) Hr ltac:(lia) ltac:(cbn; lia)) as [c' [p' [K E]]].
           exists c', p'. split; [exact K|]. rewrite E. f_equal. cbn [sumsc seg_sc]. lia.
        -- replace (cur >? c) with false by lia.
           destruct (IH (cur + sc) (Some c) cp Hr ltac:(lia) ltac:(cbn; lia)) as [c' [p' [K E]]].
           exists c', p'. split; [exact K|]. rewrite E. f_equal. cbn [sumsc seg_sc]. lia.
      * replace (cur >? cur) with false by lia.
        destruct (IH (cur + sc) (Some cur) (CInt o) Hr ltac:(lia) ltac:(cbn; lia)) as [c' [p' [K E]]].
        exists c', p'. split; [exact K|]. rewrite E. f_equal. cbn [sumsc seg_sc]. lia.
    + replace ((cur <=? col) && (col <? cur + sc)) with false by lia.
      replace (cur <=? col) with true by lia.
      unfold clp_common.
      destruct (Z.abs (col - cur) <? Z.abs (col - (cur + sc - 1))) eqn:Ea.
      * replace (cur >? cur) with false by lia.
        destruct (IH (cur + sc) (Some cur) (CInt o) Hr ltac:(lia) ltac:(cbn; lia)) as [c' [p' [K E]]].
        exists c', p'. split; [exact K|]. rewrite E. f_equal. cbn [sumsc seg_sc]. lia.
      * replace (cur >? cur + sc - 1) with false by lia.
        destruct (IH (cur + sc) (Some (cur + sc - 1)) (CSeg sc o e) Hr ltac:(lia) ltac:(cbn; lia)) as [c' [p' [K E]]].
        exists c', p'. split; [exact K|]. rewrite E. f_equal. cbn [sumsc seg_sc]. lia.
Qed.

(* a display row, split at the text segment that shows offset p in the cells [x0+c, x0+c+w) *)
Inductive cell_in_row (t : list Z) (l : line) (p x0 c : Z) : Prop :=
  CellInRow (pad : Z) (pre : line) (sc o e : Z) (post : line) (ch : Z)
    (cr_split : l = SPad pad :: pre ++ SText sc o e :: post \/
                l = pre ++ SText sc o e :: post /\ pad = 0)
    (cr_nonneg : nonneg_segs pre)                 (* only a leading pad may be negative *)
    (cr_x0 : x0 = pad + sumsc pre)                (* column where the segment starts *)
    (cr_in : 0 <= o <= p /\ p < e)
    (cr_chars : chars_ok t o e)                   (* the characters exist, widths are not negative *)
    (cr_width : sc = calc_width t o e)            (* the segment is as wide as its text *)
    (cr_char : nthz t p = Some ch)
    (cr_c : c = calc_width t o p).                (* columns of the segment's text before p *)

Theorem calc_line_pos_cell t l p x0 c col :
  cell_in_row t l p x0 c ->
  (exists ch, nthz t p = Some ch /\ x0 + c <= col < x0 + c + cw ch) ->
  calc_line_pos t l (PInt col) = Ok (Some p).
Proof.
  intros [pad pre sc o e post ch Hsplit Hnn Hx0 Hin Hchars Hw Hch Hc] [ch' [Hch' Hcol]].
  assert (ch' = ch) by congruence. subst ch'.
  cbn [Edit.calc_line_pos].
  assert (Hc0: 0 <= c).
  { subst c. apply (calc_width_nonneg t (Z.to_nat (p - o))); try lia. intros i Hi. apply Hchars. lia. }
  assert (Hsc: c + cw ch <= sc).
  { subst sc c. rewrite (calc_width_split t (Z.to_nat (p - o)) o p e) by (auto; lia).
    rewrite (calc_width_step t p e ch Hch) by lia.
    assert (0 <= calc_width t (p + 1) e).
    { apply (calc_width_nonneg t (Z.to_nat (e - (p + 1)))); try lia. intros i Hi. apply Hchars. lia. }
    lia. }
  assert (Main: forall cur csc cp, cur + sumsc pre = x0 -> csc_ok csc col ->
            clp_int cw t (pre ++ SText sc o e :: post) col csc cp cur = Ok (Some p)).
  { intros cur csc cp Hcur Hk.
    destruct (clp_int_pre t col (SText sc o e :: post) pre cur csc cp Hnn ltac:(lia) Hk) as [c' [p' [K E]]].
    rewrite E. cbn [clp_int]. rewrite Hcur.
    replace ((x0 <=? col) && (col <? x0 + sc)) with true by lia.
    rewrite (ctp_pos_hit t o e p ch (col - x0)); auto; lia. }
  destruct Hsplit as [Hl|[Hl Hp0]]; subst l.
  - cbn [clp_int]. apply Main; [lia|exact I].
  - apply Main; [lia|exact I].
Qed.

Theorem calc_pos_cell t (lay : layout) row p x0 c col :
  0 <= row < zlen lay ->
  cell_in_row t (nth (Z.to_nat row) lay []) p x0 c ->
  (exists ch, nthz t p = Some ch /\ x0 + c <= col < x0 + c + cw ch) ->
  calc_pos t lay (PInt col) row = Ok p.
Proof.
  intros Hr Hc Hx. unfold Edit.calc_pos.
  replace ((row <? 0) || (row >=? zlen lay)) with false by lia.
  rewrite (calc_line_pos_cell t _ p x0 c col Hc Hx). reflexivity.
Qed.

(* the cell map and the coordinate map agree: the offset shown in that cell has these coordinates *)
Lemma find_seg_pre t p post : forall pre x,
  (forall s, In s pre -> seg_has s p = false) ->
  find_seg t (pre ++ post) p x = find_seg t post p (x + sumsc pre).
Proof.
  induction pre as [|s r IH]; intros x H; cbn [app find_seg sumsc].
  - f_equal. lia.
  - rewrite (H s (or_introl eq_refl)). rewrite IH by (intros s' Hs'; apply H; right; exact Hs').
    f_equal. lia.
Qed.


(* ---------- start and end of a display row ---------- *)
Definition is_pad (s : seg) : bool := match s with SPad _ => true | _ => false end.

Lemma clp_last_app pre s : is_pad s = false -> forall acc, clp_last (pre ++ [s]) acc = Some s.
Proof.
  intros Hs. induction pre as [|s0 r IH]; intros acc; cbn [app clp_last].
  - destruct s; try discriminate; reflexivity.
  - destruct s0; apply IH.
Qed.

Lemma clp_left_pads pads s r : forallb is_pad pads = true -> is_pad s = false ->
  clp_left (pads ++ s :: r) = match s with SHint _ o => Some o | SText _ o _ => Some o | SPad _ => None end.
Proof.
  intros Hp Hs. induction pads as [|q r' IH]; cbn [app clp_left].
  - destruct s; try discriminate; reflexivity.
  - cbn [forallb] in Hp. apply andb_true_iff in Hp. destruct Hp as [Hq Hp].
    destruct q; try discriminate. apply IH. exact Hp.
Qed.

(* home: the first offset shown on the row *)
Theorem row_start t pads s r :
  forallb is_pad pads = true -> is_pad s = false ->
  calc_line_pos t (pads ++ s :: r) PLeft =
  Ok (match s with SHint _ o => Some o | SText _ o _ => Some o | SPad _ => None end).
Proof. intros. cbn [Edit.calc_line_pos]. f_equal. apply clp_left_pads; assumption. Qed.

(* end: a row that ends with a removed blank / newline / the end of the text: that offset *)
Theorem row_end_hint t pre sc o :
  calc_line_pos t (pre ++ [SHint sc o]) PRight = Ok (Some o).
Proof.
  cbn [Edit.calc_line_pos]. unfold clp_right. rewrite clp_last_app by reflexivity. reflexivity.
Qed.

(* end: a row that continues on the next one: the character in the last column of the row *)
Theorem row_end_text t pre sc o e p ch :
  nthz t p = Some ch -> 0 <= o <= p -> p < e -> chars_ok t o e ->
  calc_width t o p <= sc - 1 < calc_width t o p + cw ch ->
  calc_line_pos t (pre ++ [SText sc o e]) PRight = Ok (Some p).
Proof.
  intros Hp Ho He Hc Hr. cbn [Edit.calc_line_pos]. unfold clp_right.
  rewrite clp_last_app by reflexivity.
  rewrite (ctp_pos_hit t o e p ch (sc - 1)); auto.
Qed.

(* ---------- the view shifted to the cursor ---------- *)
Lemma find_seg_shift t p segs : forall x a,
  find_seg t segs p (x + a) = option_map (fun v => v + a) (find_seg t segs p x).
Proof.
  induction segs as [|s r IH]; intros x a; cbn [find_seg option_map]; [reflexivity|].
  destruct (seg_has s p).
  - cbn [option_map]. f_equal. lia.
  - replace (x + a + seg_sc s) with (x + seg_sc s + a) by lia. apply IH.
Qed.

Lemma find_seg_shift_line t p l a x :
  find_seg t l p 0 = Some x -> find_seg t (shift_line l a) p 0 = Some (x + a).
Proof.
  intros H. unfold shift_line.
  assert (G: forall r sc, find_seg t (SPad sc :: r) p 0 = find_seg t r p sc).
  { intros r sc. cbn [find_seg seg_has seg_sc]. f_equal. }
  destruct l as [|[sc|sc o|sc o e] r].
  - discriminate.
  - rewrite G in H. destruct (a + sc =? 0) eqn:E.
    + replace sc with (0 + sc) in H by lia. rewrite find_seg_shift in H.
      destruct (find_seg t r p 0) as [v|]; [|discriminate]. cbn [option_map] in H. f_equal. inversion H. lia.
    + rewrite G. replace sc with (0 + sc) in H by lia. rewrite find_seg_shift in H.
      replace (a + sc) with (0 + (a + sc)) by lia. rewrite find_seg_shift.
      destruct (find_seg t r p 0) as [v|]; [|discriminate]. cbn [option_map] in *. f_equal. inversion H. lia.
  - destruct (a =? 0) eqn:E.
    + rewrite H. f_equal. lia.
    + rewrite G. replace a with (0 + a) at 1 by lia. rewrite find_seg_shift, H. reflexivity.
  - destruct (a =? 0) eqn:E.
    + rewrite H. f_equal. lia.
    + rewrite G. replace a with (0 + a) at 1 by lia. rewrite find_seg_shift, H. reflexivity.
Qed.

Lemma find_row_split t p : forall (lay : layout) y0 x y,
  find_row t lay p y0 = Some (x, y) ->
  exists pre l post, lay = pre ++ l :: post /\ y = y0 + zlen pre /\
    (forall l0, In l0 pre -> find_seg t l0 p 0 = None) /\ find_seg t l p 0 = Some x.
Proof.
  induction lay as [|l r IH]; intros y0 x y H; cbn [find_row] in H; [discriminate|].
  destruct (find_seg t l p 0) as [x'|] eqn:E.
  - inversion H; subst. exists [], l, r. cbn [app zlen length]. repeat split; auto.
    + unfold zlen. cbn. lia.
    + intros l0 [].
  - destruct (IH (y0 + 1) x y H) as [pre [l1 [post [A [B [C D]]]]]].
    exists (l :: pre), l1, post. subst r. repeat split; auto.
    + rewrite zlen_cons. lia.
    + intros l0 [<-|Hin]; auto.
Qed.

Lemma find_row_build t p : forall (pre : layout) l post y0 x,
  (forall l0, In l0 pre -> find_seg t l0 p 0 = None) -> find_seg t l p 0 = Some x ->
  find_row t (pre ++ l :: post) p y0 = Some (x, y0 + zlen pre).
Proof.
  induction pre as [|l0 r IH]; intros l post y0 x Hn Hs; cbn [app find_row].
  - rewrite Hs. f_equal. f_equal. unfold zlen. cbn. lia.
  - rewrite (Hn l0 (or_introl eq_refl)). rewrite (IH l post (y0 + 1) x); auto.
    + rewrite zlen_cons. f_equal. f_equal. lia.
    + intros l1 H1. apply Hn. right. exact H1.
Qed.

Lemma takez_app_len {A} (a b : list A) : takez (zlen a) (a ++ b) = a.
Proof.
  unfold takez, zlen. rewrite Nat2Z.id. rewrite firstn_app, Nat.sub_diag, firstn_all. cbn. apply app_nil_r.
Qed.

Lemma dropz_app_len1 {A} (a : list A) x b : dropz (zlen a + 1) (a ++ x :: b) = b.
Proof.
  unfold dropz, zlen. replace (Z.to_nat (Z.of_nat (length a) + 1)) with (length a + 1)%nat by lia.
  rewrite skipn_app. rewrite skipn_all2 by lia. replace (length a + 1 - length a)%nat with 1%nat by lia. reflexivity.
Qed.

Lemma nth_app_len {A} (a : list A) x b d : nth (Z.to_nat (zlen a)) (a ++ x :: b) d = x.
Proof.
  unfold zlen. rewrite Nat2Z.id. rewrite app_nth2 by lia. rewrite Nat.sub_diag. reflexivity.
Qed.

End Layout.

(* ---------- the Edit widget ---------- *)
Section EditCells.
Variable cw : Z -> Z.
Variable upper : Z -> list Z.
Variable lower : list Z -> list Z.

(* cursor_cell: when the offset is shown in the view, the cursor coordinates of a focused
   render are the cell where it is shown *)
Theorem edit_cursor_cell s w lay xy :
  find_row cw (disp s) (get_line_translation cw (look s) w lay) (pos s + zlen (caption s)) 0 = Some xy ->
  snd (get_cursor_coords cw s w lay) = xy /\
  snd (step cw upper lower s (ERender true w lay)) = Ok (RCoords (fst xy) (snd xy) (zlen (get_line_translation cw (look s) w lay))).
Proof.
  intros H.
  assert (E: snd (get_cursor_coords cw s w lay) = xy).
  { unfold get_cursor_coords, position_coords. cbn [snd]. fold (look s).
    change (pos (look s)) with (pos s). change (disp (look s)) with (disp s). change (caption (look s)) with (caption s).
    apply calc_coords_find. exact H. }
  split; [exact E|].
  cbn [Edit.step]. unfold get_cursor_coords in *. cbn [snd] in E.
  change (with_shiftv (with_shiftv s true) true) with (look s).
  change (with_shiftv s true) with (look s) in *.
  change (pos (look s)) with (pos s) in *.
  rewrite E. destruct xy as [x y].
  destruct (match rcache s with Some (w', f') => (w' =? w) && Bool.eqb f' true | None => false end); reflexivity.
Qed.

(* the view of a focused Edit is shifted so that the place where the offset is shown lies inside
   the w columns: if the layout shows the offset at column x of row y, the view shows it at
   column clamp(x, 0, w-1) of row y, and that is where the cursor is drawn *)
Theorem edit_cursor_visible s w lay x y :
  1 <= w ->
  find_row cw (disp s) lay (pos s + zlen (caption s)) 0 = Some (x, y) ->
  find_row cw (disp s) (get_line_translation cw (look s) w lay) (pos s + zlen (caption s)) 0
    = Some (clampz x 0 (w - 1), y)
  /\ snd (get_cursor_coords cw s w lay) = (clampz x 0 (w - 1), y).
Proof.
  intros Hw H.
  assert (G: find_row cw (disp s) (get_line_translation cw (look s) w lay) (pos s + zlen (caption s)) 0
             = Some (clampz x 0 (w - 1), y)).
  { unfold get_line_translation. change (shiftv (look s)) with true. cbn [negb].
    change (disp (look s)) with (disp s). change (pos (look s)) with (pos s). change (caption (look s)) with (caption s).
    rewrite (calc_coords_find cw _ _ _ _ H).
    destruct (find_row_split cw _ _ _ _ _ _ H) as [pre [l [post [A [B [C D]]]]]].
    assert (Hy: y = zlen pre) by lia. subst lay. rewrite Hy.
    rewrite takez_app_len, dropz_app_len1, nth_app_len.
    destruct (x <? 0) eqn:E1.
    - cbn [app]. rewrite (find_row_build cw _ _ pre (shift_line l (- x)) post 0 (x + - x)); auto.
      + f_equal. f_equal; unfold clampz; lia.
      + apply find_seg_shift_line. exact D.
    - destruct (x >=? w) eqn:E2.
      + cbn [app]. rewrite (find_row_build cw _ _ pre (shift_line l (- (x - w + 1))) post 0 (x + - (x - w + 1))); auto.
        * f_equal. f_equal; unfold clampz; lia.
        * apply find_seg_shift_line. exact D.
      + rewrite (find_row_build cw _ _ pre l post 0 x); auto.
        f_equal. f_equal; unfold clampz; lia. }
  split; [exact G|]. exact (proj1 (edit_cursor_cell s w lay _ G)).
Qed.

(* click_cell: a click with button 1 on any cell of a character of the view puts the cursor on
   that character *)
Theorem edit_click_cell s w lay col row p x0 c :
  let view := get_line_translation cw s w lay in
  snd (position_coords cw s w lay 0) <= row < zlen view ->
  0 <= row ->
  cell_in_row cw (disp s) (nth (Z.to_nat row) view []) p x0 c ->
  (exists ch, nthz (disp s) p = Some ch /\ x0 + c <= col < x0 + c + cw ch) ->
  step cw upper lower s (EClick 1 col row w lay) =
  (with_pref (put s (text s) (clampz (p - zlen (caption s)) 0 (zlen (text s)))) (Some (PInt col, w)), [], Ok (RBool true)).
Proof.
  intros view Hrow Hr0 Hc Hx.
  cbn [Edit.step]. replace (1 =? 1) with true by reflexivity.
  unfold move_cursor_to_coords. fold view.
  destruct (position_coords cw s w lay 0) as [tx ty]. cbn [snd] in Hrow.
  replace ((row <? ty) || (row >=? zlen view)) with false by lia.
  rewrite (calc_pos_cell cw (disp s) view row p x0 c col ltac:(lia) Hc Hx).
  pose proof (clampz_range (p - zlen (caption s)) 0 (zlen (text s)) (zlen_nonneg _)).
  rewrite set_edit_pos_put by lia. reflexivity.
Qed.

End EditCells.
