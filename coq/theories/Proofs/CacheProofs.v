(* Proofs for C06: the invariant of the canvas cache and its preservation by every operation.
   Statements of the property theorems are in Properties/C06.v. *)
From Coq Require Import ZArith List Bool Lia.
Import ListNotations.
From Urwid Require Import PyBase Cache CacheFacts.
Open Scope Z_scope.
Arguments Z.add : simpl never.
Arguments Z.sub : simpl never.
Arguments Z.eqb : simpl never.
Arguments Z.ltb : simpl never.

(* every child a render body may ask for has a smaller rank than the widget: the widget graph is acyclic *)
Fixpoint prog_ranked {C} (r : nat) (rank : widget -> nat) (p : prog C) : Prop :=
  match p with
  | Ret _ => True
  | Ask x _ cont => (rank x < r)%nat /\ forall y, prog_ranked r rank (cont y)
  end.

Section Proofs.
  Variable C : Type.
  Variable body : widget -> Z -> key -> prog C.
  Variable rbody : widget -> Z -> key -> rprog.
  Variable rows_of : C -> Z.
  Variable cacheable : widget -> bool.
  Variable rcache : widget -> bool.
  Variable rank : widget -> nat.

  Notation state := (state C).
  Notation canvas := (canvas C).
  Notation fresh := (fresh C body).
  Notation crender := (crender C body cacheable).
  Notation run_prog := (run_prog C).
  Notation fetch := (fetch C).
  Notation step := (step C body rbody rows_of cacheable rcache).
  Notation run := (run C body rbody rows_of cacheable rcache).

  (* a canvas that the cache would hand out *)
  Definition cached (st : state) (cv : canvas) : Prop :=
    In cv (heap st) /\ lookup2 (cc st) (c_w cv) (c_k cv) = Some (c_id cv).

  (* the children a cached canvas of widget w holds are exactly the canvases its render body, run
     under the CURRENT version of w, asks for; each is itself cached and lists w as a dependant *)
  Fixpoint trace (st : state) (w : widget) (ids : list cid) (p : prog C) : Prop :=
    match ids, p with
    | [], Ret _ => True
    | i :: r, Ask x k cont =>
      exists cx, In cx (heap st) /\ c_id cx = i /\ c_w cx = x /\ c_k cx = k /\
                 lookup2 (cc st) x k = Some i /\ In w (deps_of (cc st) x) /\
                 trace st w r (cont (c_content cx))
    | _, _ => False
    end.

  Record Inv (st : state) : Prop := {
    inv_live : forall w k c, lookup2 (cc st) w k = Some c ->
                 exists cv, In cv (heap st) /\ c_id cv = c /\ c_w cv = w /\ c_k cv = k;
    inv_refs : RefsOK (cc st);
    inv_ids : forall cv, In cv (heap st) -> c_id cv < next st;
    inv_nodup : NoDup (map c_id (heap st));
    (* Fresh *)
    inv_fresh : forall cv, cached st cv ->
                 forall n x, fresh (ver st) n (c_w cv) (c_k cv) = Some x -> c_content cv = x;
    (* DepsComplete *)
    inv_trace : forall cv, cached st cv ->
                 trace st (c_w cv) (c_children cv) (body (c_w cv) (version (ver st) (c_w cv)) (c_k cv)) }.

  (* ---------- the heap ---------- *)
  Lemma find_canvas_some h r cv : find_canvas C h r = Some cv -> In cv h /\ c_id cv = r.
  Proof.
    induction h as [|a h IH]; cbn [find_canvas]; [discriminate|].
    destruct (c_id a =? r) eqn:E; intros H.
    - inversion H. subst. split; [left; reflexivity|apply Z.eqb_eq; exact E].
    - destruct (IH H). split; [right|]; assumption.
  Qed.

  Lemma find_canvas_in h cv : In cv h -> exists cv', find_canvas C h (c_id cv) = Some cv'.
  Proof.
    induction h as [|a h IH]; cbn [find_canvas In]; [tauto|].
    intros [->|I].
    - rewrite Z.eqb_refl. eauto.
    - destruct (c_id a =? c_id cv); eauto.
  Qed.

  Lemma heap_unique (h : list canvas) a b :
    NoDup (map c_id h) -> In a h -> In b h -> c_id a = c_id b -> a = b.
  Proof.
    induction h as [|x h IH]; cbn [map In]; [tauto|].
    intros N. inversion N as [|? ? NI ND]. subst. intros [->|Ia] [->|Ib] E; auto.
    - exfalso. apply NI. rewrite E. apply in_map. exact Ib.
    - exfalso. apply NI. rewrite <- E. apply in_map. exact Ia.
  Qed.

  Lemma in_remove_canvas h r cv : In cv (remove_canvas C h r) <-> In cv h /\ c_id cv <> r.
  Proof.
    induction h as [|a h IH]; cbn [remove_canvas In]; [tauto|].
    destruct (c_id a =? r) eqn:E.
    - apply Z.eqb_eq in E. rewrite IH. split; [tauto|]. intros [[->|I] N]; [contradiction|tauto].
    - apply Z.eqb_neq in E. cbn [In]. rewrite IH. split; [intros [->|[I N]]; tauto|tauto].
  Qed.

  Lemma remove_canvas_nodup h r : NoDup (map c_id h) -> NoDup (map c_id (remove_canvas C h r)).
  Proof.
    induction h as [|a h IH]; cbn [remove_canvas map]; [auto|].
    intros N. inversion N as [|? ? NI ND]. subst. destruct (c_id a =? r); [auto|].
    cbn [map]. constructor; [|auto].
    intros I. apply in_map_iff in I. destruct I as [b [E I]]. apply in_remove_canvas in I.
    apply NI. rewrite <- E. apply in_map. tauto.
  Qed.

  (* ---------- fetch ---------- *)
  Lemma fetch_some st w k cv : Inv st -> fetch st w k = Some cv -> cached st cv /\ c_w cv = w /\ c_k cv = k.
  Proof.
    intros I H. unfold Cache.fetch in H.
    destruct (alookup (widgets (cc st)) w) as [sizes|] eqn:W; [|discriminate].
    destruct (alookup sizes k) as [r|] eqn:K; [|discriminate].
    apply find_canvas_some in H. destruct H as [Hin Hid].
    assert (L : lookup2 (cc st) w k = Some r) by (unfold lookup2, sizes_of; rewrite W; exact K).
    destruct (inv_live st I _ _ _ L) as [cv' [I' [E1 [E2 E3]]]].
    assert (cv = cv') by (eapply heap_unique; eauto using inv_nodup; congruence). subst cv'.
    unfold cached. subst. auto.
  Qed.

  Lemma fetch_none st w k : Inv st -> fetch st w k = None -> lookup2 (cc st) w k = None.
  Proof.
    intros I H. destruct (lookup2 (cc st) w k) as [r|] eqn:L; [|reflexivity]. exfalso.
    destruct (inv_live st I _ _ _ L) as [cv [I' [E1 [E2 E3]]]].
    unfold Cache.fetch in H. unfold lookup2, sizes_of in L.
    destruct (alookup (widgets (cc st)) w) as [sizes|]; [|cbn in L; discriminate].
    rewrite L in H. destruct (find_canvas_in _ _ I') as [cv' F]. rewrite E1 in F. congruence.
  Qed.

  (* ---------- growing states: what a render leaves untouched ---------- *)
  Record Ext (a b : state) : Prop := {
    ext_heap : forall cv, In cv (heap a) -> In cv (heap b);
    ext_entries : forall w k c, lookup2 (cc a) w k = Some c -> lookup2 (cc b) w k = Some c;
    ext_deps : forall x y, In y (deps_of (cc a) x) -> In y (deps_of (cc b) x);
    ext_next : next a <= next b }.

  Lemma Ext_refl a : Ext a a.
  Proof. split; auto. lia. Qed.
  Lemma Ext_trans a b c : Ext a b -> Ext b c -> Ext a c.
  Proof. intros [A1 A2 A3 A4] [B1 B2 B3 B4]. split; auto. lia. Qed.

  Lemma cached_ext a b cv : Ext a b -> cached a cv -> cached b cv.
  Proof. intros E [I L]. split; [apply (ext_heap _ _ E)|apply (ext_entries _ _ E)]; assumption. Qed.

  Lemma trace_ext a b w ids p : Ext a b -> trace a w ids p -> trace b w ids p.
  Proof.
    intros E. revert p. induction ids as [|i r IH]; intros p; destruct p as [c|x k cont]; cbn [trace]; auto.
    intros [cx [I [E1 [E2 [E3 [L [D T]]]]]]]. exists cx.
    repeat split; auto; try (apply (ext_heap _ _ E)); try (apply (ext_entries _ _ E)); try (apply (ext_deps _ _ E)); auto.
  Qed.

  (* ================= rendering through the cache ================= *)
  Hypothesis body_ranked : forall w v k, prog_ranked (rank w) rank (body w v k).
  Hypothesis all_cacheable : forall w, cacheable w = true.

  (* the canvases returned by the children follow the render body *)
  Fixpoint ktrace (kids : list canvas) (p : prog C) (c : C) : Prop :=
    match kids, p with
    | [], Ret c' => c' = c
    | cx :: r, Ask x k cont => c_w cx = x /\ c_k cx = k /\ ktrace r (cont (c_content cx)) c
    | _, _ => False
    end.

  Definition render_ok (n : nat) : Prop :=
    forall st w k cv st', Inv st -> crender n st w k = Some (cv, st') ->
      Inv st' /\ Ext st st' /\ cached st' cv /\ c_w cv = w /\ c_k cv = k /\ ver st' = ver st /\
      (forall x, (rank w < rank x)%nat -> alookup (widgets (cc st')) x = alookup (widgets (cc st)) x).

  Lemma run_prog_ok n : render_ok n -> forall r p st c kids st',
    Inv st -> prog_ranked r rank p -> run_prog (crender n) p st = Some (c, kids, st') ->
    Inv st' /\ Ext st st' /\ ver st' = ver st /\ Forall (cached st') kids /\ ktrace kids p c /\
    (forall x, (r <= rank x)%nat -> alookup (widgets (cc st')) x = alookup (widgets (cc st)) x).
  Proof.
    intros RO r p. induction p as [c0|x k cont IH]; intros st c kids st' I PR H; cbn [Cache.run_prog] in H.
    - inversion H. subst. split; [exact I|]. split; [apply Ext_refl|]. repeat split; auto.
    - destruct (crender n st x k) as [[cx st1]|] eqn:E1; [|discriminate].
      destruct (run_prog (crender n) (cont (c_content cx)) st1) as [[[c1 kids1] st2]|] eqn:E2; [|discriminate].
      inversion H. subst c1 kids st2. clear H.
      destruct PR as [PR1 PR2].
      destruct (RO _ _ _ _ _ I E1) as [I1 [X1 [C1 [W1 [K1 [V1 R1]]]]]].
      destruct (IH _ _ _ _ _ I1 (PR2 _) E2) as [I2 [X2 [V2 [F2 [T2 R2]]]]].
      split; [exact I2|]. split; [eapply Ext_trans; eauto|]. split; [congruence|].
      split; [constructor; [eapply cached_ext; eauto|exact F2]|].
      split; [cbn [ktrace]; auto|].
      intros y Hy. rewrite R2 by exact Hy. apply R1. lia.
  Qed.

  Lemma ktrace_fresh st kids p c m x :
    Inv st -> Forall (cached st) kids -> ktrace kids p c ->
    run_fresh C (fresh (ver st) m) p = Some x -> x = c.
  Proof.
    intros I. revert p. induction kids as [|cx r IH]; intros p F T H; destruct p as [c0|y k cont]; cbn [ktrace] in T; try contradiction.
    - cbn in H. congruence.
    - cbn [run_fresh] in H. destruct T as [E1 [E2 T]]. inversion F as [|? ? Cx Fr]. subst.
      destruct (fresh (ver st) m (c_w cx) (c_k cx)) as [y|] eqn:Fy; [|discriminate].
      rewrite <- (inv_fresh st I cx Cx _ _ Fy) in H. eapply IH; eauto.
  Qed.

  Lemma ktrace_trace st1 st2 w kids p c :
    Ext st1 st2 -> Forall (cached st1) kids -> ktrace kids p c ->
    (forall cx, In cx kids -> In w (deps_of (cc st2) (c_w cx))) ->
    trace st2 w (map c_id kids) p.
  Proof.
    intros X. revert p. induction kids as [|cx r IH]; intros p F T D; destruct p as [c0|y k cont]; cbn [ktrace] in T; try contradiction; cbn [map trace]; auto.
    destruct T as [E1 [E2 T]]. inversion F as [|? ? Cx Fr]. subst.
    exists cx. destruct (cached_ext _ _ _ X Cx) as [Hin Hl].
    repeat split; auto.
    - apply D. left. reflexivity.
    - apply IH; auto. intros c' I'. apply D. right. exact I'.
  Qed.

  Lemma cached_amem st cv : cached st cv -> amem (widgets (cc st)) (c_w cv) = true.
  Proof.
    intros [_ L]. apply lookup2_has in L. unfold amem. destruct (alookup (widgets (cc st)) (c_w cv)); [reflexivity|contradiction].
  Qed.

  Lemma crender_ok : forall n, render_ok n.
  Proof.
    induction n as [|m IHm]; intros st w k cv st' I H; [discriminate|].
    cbn [Cache.crender] in H.
    destruct (fetch st w k) as [cv0|] eqn:F.
    - inversion H. subst cv0 st'. destruct (fetch_some _ _ _ _ I F) as [Cc [Ew Ek]].
      split; [exact I|]. split; [apply Ext_refl|]. repeat split; auto; apply Cc.
    - destruct (run_prog (crender m) (body w (version (ver st) w) k) st) as [[[c kids] st1]|] eqn:R; [|discriminate].
      inversion H. subst cv st'. clear H.
      destruct (run_prog_ok m IHm _ _ _ _ _ _ I (body_ranked w _ k) R) as [I1 [X1 [V1 [F1 [T1 R1]]]]].
      set (cv := Canvas (next st1) w k c (map c_id kids)) in *.
      assert (Lnone : lookup2 (cc st1) w k = None).
      { rewrite (lookup2_same_widgets (cc st) (cc st1)); [apply fetch_none; auto|]. apply R1. lia. }
      assert (HD : forall x, In x (map c_w kids) -> amem (widgets (cc st1)) x = true).
      { intros x Hx. apply in_map_iff in Hx. destruct Hx as [cx [<- Hx]].
        apply cached_amem. rewrite Forall_forall in F1. auto. }
      destruct (store_spec C cacheable (cc st1) cv (map c_w kids) (all_cacheable _) HD) as [S1 [S2 [S3 [S4 [S5 S6]]]]].
      cbn zeta in *. change (c_w cv) with w in *. change (c_k cv) with k in *. change (c_id cv) with (next st1) in *.
      set (c2 := store C cacheable (cc st1) cv (map c_w kids)) in *.
      set (st2 := State c2 (cv :: heap st1) (next st1 + 1) (ver st1)).
      assert (Hlt : forall cv', In cv' (heap st1) -> c_id cv' < next st1) by (apply inv_ids; exact I1).
      assert (Lold : forall x y r, lookup2 (cc st1) x y = Some r -> lookup2 c2 x y = Some r).
      { intros x y r L. rewrite S1. destruct ((x =? w) && (y =? k)) eqn:E; [|exact L].
        apply andb_true_iff in E. destruct E as [E1 E2]. apply Z.eqb_eq in E1, E2. subst. congruence. }
      assert (X2 : Ext st1 st2).
      { split; unfold st2; cbn [heap cc next].
        - intros a Ha. right. exact Ha.
        - exact Lold.
        - exact S3.
        - lia. }
      assert (Cold : forall cv', cached st2 cv' -> cv' = cv \/ cached st1 cv').
      { intros cv' [Hin Hl]. unfold st2 in Hin, Hl. cbn [heap cc] in Hin, Hl. destruct Hin as [<-|Hin]; [left; reflexivity|right].
        split; [exact Hin|]. rewrite S1 in Hl.
        destruct ((c_w cv' =? w) && (c_k cv' =? k)); [|exact Hl].
        inversion Hl as [Hid]. specialize (Hlt _ Hin). lia. }
      assert (Cnew : cached st2 cv).
      { split; unfold st2; cbn [heap cc]; [left; reflexivity|]. change (c_w cv) with w. change (c_k cv) with k. change (c_id cv) with (next st1). rewrite S1, !Z.eqb_refl. reflexivity. }
      assert (I2 : Inv st2).
      { split; unfold st2; cbn [heap cc next ver].
        - intros x y r L. rewrite S1 in L. destruct ((x =? w) && (y =? k)) eqn:E.
          + apply andb_true_iff in E. destruct E as [E1 E2]. apply Z.eqb_eq in E1, E2. subst.
            inversion L. exists cv. repeat split; auto. left. reflexivity.
          + destruct (inv_live st1 I1 _ _ _ L) as [cv' [A1 [A2 [A3 A4]]]]. exists cv'. repeat split; auto. right. exact A1.
        - destruct (inv_refs st1 I1) as [RA RB RN]. split.
          + intros r x y Hr. rewrite S2 in Hr. destruct (next st1 =? r) eqn:E.
            * apply Z.eqb_eq in E. subst r. inversion Hr. subst. rewrite S1, !Z.eqb_refl. reflexivity.
            * apply Lold. apply RA. exact Hr.
          + intros x y r L. rewrite S1 in L. rewrite S2. destruct ((x =? w) && (y =? k)) eqn:E.
            * apply andb_true_iff in E. destruct E as [E1 E2]. apply Z.eqb_eq in E1, E2. subst.
              inversion L. rewrite Z.eqb_refl. reflexivity.
            * destruct (next st1 =? r) eqn:E3.
              -- apply Z.eqb_eq in E3. subst r. destruct (inv_live st1 I1 _ _ _ L) as [cv' [A1 [A2 _]]].
                 specialize (Hlt _ A1). lia.
              -- apply RB. exact L.
          + apply S6. exact RN.
        - intros a [<-|Ha]; [cbn; lia|]. specialize (Hlt _ Ha). lia.
        - cbn [map c_id]. constructor; [|apply inv_nodup; exact I1].
          intros Hi. apply in_map_iff in Hi. destruct Hi as [a [Ea Ha]]. specialize (Hlt _ Ha). cbn in Ea. lia.
        - intros cv' Cc n x Hf. destruct (Cold _ Cc) as [->|Co].
          + destruct n as [|n0]; [discriminate|]. cbn [Cache.fresh] in Hf.
            change (c_w cv) with w in Hf. change (c_k cv) with k in Hf. change (c_content cv) with c.
            rewrite <- V1 in T1. symmetry. exact (ktrace_fresh st1 kids _ c n0 x I1 F1 T1 Hf).
          + eapply (inv_fresh st1 I1); eauto.
        - intros cv' Cc. destruct (Cold _ Cc) as [->|Co].
          + change (c_w cv) with w. change (c_k cv) with k. change (c_children cv) with (map c_id kids).
            rewrite <- V1 in T1. apply (ktrace_trace st1 st2 w kids _ c X2 F1 T1).
            intros cx Hx. unfold st2. cbn [cc]. apply S4. apply in_map. exact Hx.
          + apply (trace_ext st1 st2); [exact X2|]. apply (inv_trace st1 I1). exact Co. }
      split; [exact I2|]. split; [eapply Ext_trans; eauto|]. split; [exact Cnew|].
      repeat split; auto.
      intros x Hx. cbn [cc]. rewrite S5; [apply R1; lia|]. intros ->. lia.
  Qed.


  (* ================= Mutate: new own state, then CanvasCache.invalidate ================= *)
  Lemma version_aset vr w v x : version (aset vr w v) x = if w =? x then v else version vr x.
  Proof. unfold version. rewrite alookup_aset. destruct (w =? x); reflexivity. Qed.

  Section Mutate.
    Variable st : state.
    Variable w : widget.
    Variable v : Z.
    Variable c' : cache.
    Hypothesis I : Inv st.
    Hypothesis P : Post (cc st) c'.
    Hypothesis Wn : alookup (widgets c') w = None.
    Hypothesis R : RefsOK c'.
    Let st' := State c' (heap st) (next st) (aset (ver st) w v).

    Lemma mut_entries_sub x y r : lookup2 c' x y = Some r -> lookup2 (cc st) x y = Some r.
    Proof.
      intros L. destruct (p_widgets _ _ P x) as [E|E].
      - rewrite <- (lookup2_same_widgets (cc st) c' x y E). exact L.
      - apply lookup2_has in L. contradiction.
    Qed.

    Lemma mut_cached_sub cv : cached st' cv -> cached st cv.
    Proof. intros [Hin L]. split; [exact Hin|]. apply mut_entries_sub. exact L. Qed.

    Lemma mut_trace w0 : alookup (widgets c') w0 <> None ->
      forall ids p, trace st w0 ids p -> trace st' w0 ids p.
    Proof.
      intros W0. induction ids as [|i r IH]; intros p; destruct p as [c|x k cont]; cbn [trace]; auto.
      intros [cx [Hin [E1 [E2 [E3 [L [D T]]]]]]]. exists cx.
      assert (Wx : alookup (widgets c') x = alookup (widgets (cc st)) x).
      { destruct (p_widgets _ _ P x) as [E|E]; [exact E|]. exfalso. apply W0.
        apply (p_closed _ _ P x w0); [eapply lookup2_has; eauto|exact E|exact D]. }
      assert (Lx : lookup2 c' x k = Some i) by (rewrite (lookup2_same_widgets _ _ _ _ Wx); exact L).
      repeat split; auto.
      - unfold st'. cbn [cc]. destruct (olz_eq_dec (alookup (deps c') x) (alookup (deps (cc st)) x)) as [E|E].
        + rewrite (deps_of_same _ _ _ E). exact D.
        + apply (p_deps_changed _ _ P) in E. apply lookup2_has in Lx. contradiction.
    Qed.

    Lemma mut_fresh_inner m :
      (forall cv, cached st' cv -> fresh (ver st') m (c_w cv) (c_k cv) = fresh (ver st) m (c_w cv) (c_k cv)) ->
      forall w0 ids p, trace st' w0 ids p ->
        run_fresh C (fresh (ver st') m) p = run_fresh C (fresh (ver st) m) p.
    Proof.
      intros IH w0. induction ids as [|i r IHr]; intros p; destruct p as [c|x k cont]; cbn [trace]; try tauto.
      intros [cx [Hin [E1 [E2 [E3 [L [D T]]]]]]]. cbn [run_fresh].
      assert (Cx : cached st' cx) by (split; [exact Hin|rewrite E2, E3, E1; exact L]).
      pose proof (IH cx Cx) as F. rewrite E2, E3 in F. rewrite F.
      destruct (fresh (ver st) m x k) as [y|] eqn:Fy; [|reflexivity].
      pose proof (inv_fresh st I cx (mut_cached_sub _ Cx) m y) as Ey. rewrite E2, E3 in Ey. rewrite <- (Ey Fy).
      apply IHr. exact T.
    Qed.

    Lemma mut_not_w cv : cached st' cv -> (w =? c_w cv) = false.
    Proof.
      intros [_ L]. apply lookup2_has in L. destruct (w =? c_w cv) eqn:E; [|reflexivity].
      apply Z.eqb_eq in E. subst w. contradiction.
    Qed.

    Lemma mut_fresh m : forall cv, cached st' cv ->
      fresh (ver st') m (c_w cv) (c_k cv) = fresh (ver st) m (c_w cv) (c_k cv).
    Proof.
      induction m as [|m IH]; intros cv Cc; [reflexivity|].
      cbn [Cache.fresh]. unfold st' at 2. cbn [ver]. rewrite version_aset, (mut_not_w _ Cc).
      apply (mut_fresh_inner m IH (c_w cv) (c_children cv)).
      apply mut_trace; [destruct Cc as [_ L]; eapply lookup2_has; eauto|].
      apply (inv_trace st I). apply mut_cached_sub. exact Cc.
    Qed.

    Lemma mutate_inv : Inv st'.
    Proof.
      split.
      - intros x y r L. apply (inv_live st I). apply mut_entries_sub. exact L.
      - exact R.
      - apply (inv_ids st I).
      - apply (inv_nodup st I).
      - intros cv Cc n x F. rewrite (mut_fresh n cv Cc) in F. eapply (inv_fresh st I); eauto using mut_cached_sub.
      - intros cv Cc. unfold st' at 2. cbn [ver]. rewrite version_aset, (mut_not_w _ Cc).
        apply mut_trace; [destruct Cc as [_ L]; eapply lookup2_has; eauto|].
        apply (inv_trace st I). apply mut_cached_sub. exact Cc.
    Qed.
  End Mutate.


  (* ================= entries disappear by a complete invalidate cascade, versions unchanged ================= *)
  Section Shrink.
    Variable st : state.
    Variable c' : cache.
    Hypothesis I : Inv st.
    Hypothesis P : Post (cc st) c'.
    Hypothesis R : RefsOK c'.
    Let st' := State c' (heap st) (next st) (ver st).

    Lemma shr_entries_sub x y r : lookup2 c' x y = Some r -> lookup2 (cc st) x y = Some r.
    Proof.
      intros L. destruct (p_widgets _ _ P x) as [E|E].
      - rewrite <- (lookup2_same_widgets (cc st) c' x y E). exact L.
      - apply lookup2_has in L. contradiction.
    Qed.

    Lemma shr_cached_sub cv : cached st' cv -> cached st cv.
    Proof. intros [Hin L]. split; [exact Hin|]. apply shr_entries_sub. exact L. Qed.

    Lemma shr_trace w0 : alookup (widgets c') w0 <> None ->
      forall ids p, trace st w0 ids p -> trace st' w0 ids p.
    Proof.
      intros W0. induction ids as [|i r IH]; intros p; destruct p as [c|x k cont]; cbn [trace]; auto.
      intros [cx [Hin [E1 [E2 [E3 [L [D T]]]]]]]. exists cx.
      assert (Wx : alookup (widgets c') x = alookup (widgets (cc st)) x).
      { destruct (p_widgets _ _ P x) as [E|E]; [exact E|]. exfalso. apply W0.
        apply (p_closed _ _ P x w0); [eapply lookup2_has; eauto|exact E|exact D]. }
      assert (Lx : lookup2 c' x k = Some i) by (rewrite (lookup2_same_widgets _ _ _ _ Wx); exact L).
      repeat split; auto.
      - unfold st'. cbn [cc]. destruct (olz_eq_dec (alookup (deps c') x) (alookup (deps (cc st)) x)) as [E|E].
        + rewrite (deps_of_same _ _ _ E). exact D.
        + apply (p_deps_changed _ _ P) in E. apply lookup2_has in Lx. contradiction.
    Qed.

    Lemma shrink_inv : Inv st'.
    Proof.
      split.
      - intros x y r L. apply (inv_live st I). apply shr_entries_sub. exact L.
      - exact R.
      - apply (inv_ids st I).
      - apply (inv_nodup st I).
      - intros cv Cc. apply (inv_fresh st I). apply shr_cached_sub. exact Cc.
      - intros cv Cc. apply shr_trace; [destruct Cc as [_ L]; eapply lookup2_has; eauto|].
        apply (inv_trace st I). apply shr_cached_sub. exact Cc.
    Qed.
  End Shrink.

  (* ================= Collect: a canvas nobody references dies, its weakref callback runs ================= *)
  Lemma collectable_spec st c0 : collectable C st c0 = true ->
    forall cv, In cv (heap st) -> ~ In c0 (c_children cv).
  Proof.
    unfold collectable. intros H cv Hin Hc. apply andb_true_iff in H. destruct H as [_ H].
    rewrite forallb_forall in H. specialize (H cv Hin). apply negb_true_iff in H.
    assert (existsb (Z.eqb c0) (c_children cv) = true) as T.
    { apply existsb_exists. exists c0. split; [exact Hc|apply Z.eqb_refl]. }
    congruence.
  Qed.

  Section Collect.
    Variable st : state.
    Variable c0 : cid.
    Variable c' : cache.
    Hypothesis I : Inv st.
    Hypothesis NoRef : forall cv, In cv (heap st) -> ~ In c0 (c_children cv).
    Hypothesis H1 : forall x y r, lookup2 c' x y = Some r -> lookup2 (cc st) x y = Some r /\ r <> c0.
    Hypothesis H2 : forall x y r, lookup2 (cc st) x y = Some r -> r <> c0 -> lookup2 c' x y = Some r.
    Hypothesis H3 : forall x, alookup (deps c') x = alookup (deps (cc st)) x \/ alookup (widgets c') x = None.
    Hypothesis R : RefsOK c'.
    Let st' := State c' (remove_canvas C (heap st) c0) (next st) (ver st).

    Lemma col_cached_sub cv : cached st' cv -> cached st cv /\ c_id cv <> c0.
    Proof.
      intros [Hin L]. unfold st' in Hin. cbn [heap] in Hin. apply in_remove_canvas in Hin.
      destruct Hin as [Hin Hne]. destruct (H1 _ _ _ L) as [L0 _]. split; [split|]; assumption.
    Qed.

    Lemma col_trace w0 : forall ids p, (forall i, In i ids -> i <> c0) ->
      trace st w0 ids p -> trace st' w0 ids p.
    Proof.
      induction ids as [|i r IH]; intros p N; destruct p as [c|x k cont]; cbn [trace]; auto.
      intros [cx [Hin [E1 [E2 [E3 [L [D T]]]]]]]. exists cx.
      assert (Ni : i <> c0) by (apply N; left; reflexivity).
      assert (Lx : lookup2 c' x k = Some i) by (apply H2; assumption).
      repeat split; auto.
      - unfold st'. cbn [heap]. apply in_remove_canvas. split; [exact Hin|congruence].
      - unfold st'. cbn [cc]. destruct (H3 x) as [E|E].
        + rewrite (deps_of_same _ _ _ E). exact D.
        + apply lookup2_has in Lx. contradiction.
      - apply IH; [|exact T]. intros j Hj. apply N. right. exact Hj.
    Qed.

    Lemma collect_inv : Inv st'.
    Proof.
      split.
      - intros x y r L. destruct (H1 _ _ _ L) as [L0 Nr].
        destruct (inv_live st I _ _ _ L0) as [cv [A1 [A2 [A3 A4]]]]. exists cv.
        repeat split; auto. unfold st'. cbn [heap]. apply in_remove_canvas. split; [exact A1|congruence].
      - exact R.
      - intros cv Hin. unfold st' in Hin. cbn [heap] in Hin. apply in_remove_canvas in Hin.
        apply (inv_ids st I). tauto.
      - apply remove_canvas_nodup. apply (inv_nodup st I).
      - intros cv Cc. destruct (col_cached_sub _ Cc) as [C0 _]. apply (inv_fresh st I). exact C0.
      - intros cv Cc. destruct (col_cached_sub _ Cc) as [C0 _]. apply col_trace.
        + intros i Hi ->. destruct C0 as [Hin _]. exact (NoRef _ Hin Hi).
        + apply (inv_trace st I). exact C0.
    Qed.
  End Collect.

  Lemma collect_entry_inv st c0 :
    Inv st -> collectable C st c0 = true ->
    Inv (State (cleanup_entry (cc st) c0) (remove_canvas C (heap st) c0) (next st) (ver st)).
  Proof.
    intros I Hc. pose proof (collectable_spec _ _ Hc) as NoRef.
    pose proof (inv_refs st I) as R0. destruct R0 as [RA RB RN].
    destruct (alookup (refs (cc st)) c0) as [[w k]|] eqn:Er.
    - destruct (cleanup_spec (cc st) c0 w k (inv_refs st I) Er) as [S1 [S2 [S3 S4]]]. cbn zeta in *.
      pose proof (RA _ _ _ Er) as Lc.
      apply collect_inv; auto.
      + intros x y r L. rewrite S1 in L. destruct ((x =? w) && (y =? k)) eqn:E; [discriminate|].
        split; [exact L|]. intros ->. pose proof (RB _ _ _ L) as Er2. rewrite Er in Er2. inversion Er2. subst.
        rewrite !Z.eqb_refl in E. discriminate.
      + intros x y r L Nr. rewrite S1. destruct ((x =? w) && (y =? k)) eqn:E; [|exact L].
        apply andb_true_iff in E. destruct E as [E1 E2]. apply Z.eqb_eq in E1, E2. subst. congruence.
      + intros x. destruct (S3 x) as [E|[-> E]]; auto.
      + split.
        * intros r x y Hr. rewrite S2 in Hr. destruct (c0 =? r) eqn:E; [discriminate|].
          pose proof (RA _ _ _ Hr) as L. rewrite S1. destruct ((x =? w) && (y =? k)) eqn:E2; [|exact L].
          apply andb_true_iff in E2. destruct E2 as [E1 E2]. apply Z.eqb_eq in E1, E2. subst.
          rewrite Lc in L. inversion L. subst. rewrite Z.eqb_refl in E. discriminate.
        * intros x y r L. rewrite S1 in L. destruct ((x =? w) && (y =? k)) eqn:E; [discriminate|].
          rewrite S2. destruct (c0 =? r) eqn:E2; [|apply RB; exact L].
          apply Z.eqb_eq in E2. subst r. pose proof (RB _ _ _ L) as Er2. rewrite Er in Er2. inversion Er2. subst.
          rewrite !Z.eqb_refl in E. discriminate.
        * exact S4.
    - rewrite (cleanup_absent _ _ Er).
      apply collect_inv; auto.
      + intros x y r L. split; [exact L|]. intros ->. pose proof (RB _ _ _ L) as Er2. congruence.
      + apply (inv_refs st I).
  Qed.

  Lemma collect_step_inv st c0 :
    Inv st -> collectable C st c0 = true ->
    Inv (State (cleanup (cc st) c0) (remove_canvas C (heap st) c0) (next st) (ver st)).
  Proof.
    intros I Hc. pose proof (collect_entry_inv st c0 I Hc) as I1.
    unfold cleanup.
    destruct (invalidate_all_total (S (length (deps (cleanup_entry (cc st) c0)))) (cleanup_popped (cc st) c0)
                (cleanup_entry (cc st) c0) ltac:(lia)) as [c2 [E _]].
    rewrite E. destruct (invalidate_all_spec _ _ _ _ E) as [P [_ R]].
    exact (shrink_inv _ c2 I1 P (R (inv_refs _ I1))).
  Qed.

  (* ================= every operation keeps the invariant ================= *)
  Lemma Inv_cleared st : Inv st -> Inv (State empty_cache (heap st) (next st) (ver st)).
  Proof.
    intros I. split; cbn [cc heap next ver].
    - intros w k c L. discriminate.
    - split; try discriminate. intros w. constructor.
    - apply (inv_ids st I).
    - apply (inv_nodup st I).
    - intros cv [_ L]. discriminate.
    - intros cv [_ L]. discriminate.
  Qed.

  Lemma Inv_init : Inv init.
  Proof.
    split; cbn.
    - intros w k c L. discriminate.
    - split; try discriminate. intros w. constructor.
    - intros cv [].
    - constructor.
    - intros cv [[] _].
    - intros cv [[] _].
  Qed.

  Lemma step_inv n st o : Inv st -> Inv (fst (step n st o)).
  Proof.
    intros I. destruct o as [w k|w k|w v|c|]; cbn [Cache.step].
    - destruct (crender n st w k) as [[cv st']|] eqn:E; cbn [fst]; [|exact I].
      exact (proj1 (crender_ok n _ _ _ _ _ I E)).
    - exact I.
    - destruct (invalidate_total (S (length (deps (cc st)))) (cc st) w ltac:(lia)) as [c' [E _]].
      rewrite E. cbn [fst]. destruct (invalidate_spec _ _ _ _ E) as [P [Wn R]].
      apply (mutate_inv st w v c' I P Wn). apply R. apply (inv_refs st I).
    - destruct (collectable C st c) eqn:E; cbn [fst]; [|exact I]. apply collect_step_inv; assumption.
    - cbn [fst]. apply Inv_cleared. exact I.
  Qed.

  Lemma run_inv n ops : forall st, Inv st -> Inv (run n st ops).
  Proof.
    induction ops as [|o ops IH]; intros st I; cbn [Cache.run fold_left]; [exact I|].
    apply IH. apply step_inv. exact I.
  Qed.


  (* ================= enough fuel: more than the rank of the widget ================= *)
  Lemma run_fresh_total vr m r p :
    (forall w k, (rank w < r)%nat -> exists x, fresh vr m w k = Some x) ->
    prog_ranked r rank p -> exists x, run_fresh C (fresh vr m) p = Some x.
  Proof.
    intros T. induction p as [c|x k cont IH]; intros PR; cbn [run_fresh]; [eauto|].
    destruct PR as [P1 P2]. destruct (T x k P1) as [y ->]. apply IH. apply P2.
  Qed.

  Lemma fresh_total vr : forall n w k, (rank w < n)%nat -> exists x, fresh vr n w k = Some x.
  Proof.
    induction n as [|m IH]; intros w k L; [lia|]. cbn [Cache.fresh].
    apply (run_fresh_total vr m (rank w)); [|apply body_ranked].
    intros x kx Lx. apply IH. lia.
  Qed.

  Lemma run_prog_total m r p : forall st,
    (forall st w k, Inv st -> (rank w < r)%nat -> exists cv st', crender m st w k = Some (cv, st')) ->
    Inv st -> prog_ranked r rank p -> exists c kids st', run_prog (crender m) p st = Some (c, kids, st').
  Proof.
    induction p as [c|x k cont IH]; intros st T I PR; cbn [Cache.run_prog]; [eauto|].
    destruct PR as [P1 P2]. destruct (T st x k I P1) as [cx [st1 E]]. rewrite E.
    destruct (crender_ok m _ _ _ _ _ I E) as [I1 _].
    destruct (IH (c_content cx) st1 T I1 (P2 _)) as [c [kids [st2 E2]]]. rewrite E2. eauto.
  Qed.

  Lemma crender_total : forall n st w k, Inv st -> (rank w < n)%nat -> exists cv st', crender n st w k = Some (cv, st').
  Proof.
    induction n as [|m IH]; intros st w k I L; [lia|]. cbn [Cache.crender].
    destruct (fetch st w k) as [cv|]; [eauto|].
    destruct (run_prog_total m (rank w) (body w (version (ver st) w) k) st) as [c [kids [st1 E]]]; auto.
    - intros st0 x kx I0 Lx. apply IH; [exact I0|lia].
    - rewrite E. eauto.
  Qed.

  (* ================= the property theorems ================= *)
  (* what the cache hands out is what a render without any cache produces, now *)
  Lemma cached_render_is_fresh n m st w k cv st' x :
    Inv st -> crender n st w k = Some (cv, st') -> fresh (ver st) m w k = Some x -> c_content cv = x.
  Proof.
    intros I E F. destruct (crender_ok n _ _ _ _ _ I E) as [I' [_ [Cc [Ew [Ek [V _]]]]]].
    apply (inv_fresh st' I' cv Cc m). rewrite Ew, Ek, V. exact F.
  Qed.

  Lemma cache_invisible_lemma n m1 m2 ops w k cv st1 cv' st2 :
    let st := run n init ops in
    crender m1 st w k = Some (cv, st1) ->
    crender m2 (State empty_cache (heap st) (next st) (ver st)) w k = Some (cv', st2) ->
    c_content cv = c_content cv'.
  Proof.
    cbn zeta. intros E1 E2.
    pose proof (run_inv n ops init Inv_init) as I.
    destruct (fresh_total (ver (run n init ops)) (S (rank w)) w k ltac:(lia)) as [x F].
    rewrite (cached_render_is_fresh _ _ _ _ _ _ _ _ I E1 F).
    symmetry. apply (cached_render_is_fresh _ (S (rank w)) _ _ _ _ _ _ (Inv_cleared _ I) E2). exact F.
  Qed.

  (* rows *)
  Notation crows := (crows C rbody rows_of rcache).
  Notation frows := (frows rbody).
  Hypothesis rows_consistent :
    forall vr n m w k x r, fresh vr n w k = Some x -> frows vr m w k = Some r -> rows_of x = r.

  Lemma rows_lemma st : Inv st -> forall n m w k r r',
    crows n st w k = Some r -> frows (ver st) m w k = Some r' -> r = r'.
  Proof.
    intros I. induction n as [|n IH]; intros m w k r r' H1 H2; [discriminate|].
    cbn [Cache.crows] in H1.
    destruct (if rcache w then fetch st w k else None) as [cv|] eqn:F.
    - destruct (rcache w); [|discriminate].
      destruct (fetch_some _ _ _ _ I F) as [Cc [Ew Ek]].
      destruct (fresh_total (ver st) (S (rank w)) w k ltac:(lia)) as [x Fx].
      inversion H1. subst r. rewrite (inv_fresh st I cv Cc (S (rank w)) x); [|rewrite Ew, Ek; exact Fx].
      eapply rows_consistent; eauto.
    - destruct m as [|m]; [discriminate|]. cbn [Cache.frows] in H2.
      revert H1 H2. generalize (rbody w (version (ver st) w) k). intros p. revert r r'.
      induction p as [z|x kx cont IHp]; intros r r' H1 H2; cbn [run_rows] in *.
      + congruence.
      + destruct (crows n st x kx) as [r1|] eqn:E1; [|discriminate].
        destruct (frows (ver st) m x kx) as [r2|] eqn:E2; [|discriminate].
        rewrite (IH _ _ _ _ _ E1 E2) in H1. eapply IHp; eauto.
  Qed.

  (* canvases are never written to: a live canvas is the record that was created under its id *)
  Definition HeapStable (a b : state) : Prop :=
    (forall cv, In cv (heap b) -> In cv (heap a) \/ next a <= c_id cv) /\ next a <= next b.

  Lemma HeapStable_refl a : HeapStable a a.
  Proof. split; [auto|lia]. Qed.

  Lemma HeapStable_trans a b c : HeapStable a b -> HeapStable b c -> HeapStable a c.
  Proof.
    intros [A1 A2] [B1 B2]. split; [|lia]. intros cv Hc. destruct (B1 _ Hc) as [Hb|Hb].
    - destruct (A1 _ Hb); auto.
    - right. lia.
  Qed.

  Lemma run_prog_stable n : (forall st w k cv st', crender n st w k = Some (cv, st') -> HeapStable st st') ->
    forall p st c kids st', run_prog (crender n) p st = Some (c, kids, st') -> HeapStable st st'.
  Proof.
    intros RO. induction p as [c0|x k cont IH]; intros st c kids st' H; cbn [Cache.run_prog] in H.
    - inversion H. apply HeapStable_refl.
    - destruct (crender n st x k) as [[cx st1]|] eqn:E1; [|discriminate].
      destruct (run_prog (crender n) (cont (c_content cx)) st1) as [[[c1 kids1] st2]|] eqn:E2; [|discriminate].
      inversion H. subst. eapply HeapStable_trans; eauto.
  Qed.

  Lemma crender_stable : forall n st w k cv st', crender n st w k = Some (cv, st') -> HeapStable st st'.
  Proof.
    induction n as [|m IH]; intros st w k cv st' H; [discriminate|]. cbn [Cache.crender] in H.
    destruct (fetch st w k) as [cv0|].
    - inversion H. apply HeapStable_refl.
    - destruct (run_prog (crender m) (body w (version (ver st) w) k) st) as [[[c kids] st1]|] eqn:R; [|discriminate].
      inversion H. subst. pose proof (run_prog_stable m IH _ _ _ _ _ R) as [A1 A2].
      split; cbn [heap next]; [|lia]. intros a [<-|Ha]; [right; cbn; lia|auto].
  Qed.

  Lemma step_stable n st o : HeapStable st (fst (step n st o)).
  Proof.
    destruct o as [w k|w k|w v|c|]; cbn [Cache.step]; try apply HeapStable_refl.
    - destruct (crender n st w k) as [[cv st']|] eqn:E; cbn [fst]; [|apply HeapStable_refl].
      eapply crender_stable; eauto.
    - destruct (invalidate _ _ _); cbn [fst]; split; cbn [heap next]; auto; lia.
    - destruct (collectable C st c); cbn [fst]; [|apply HeapStable_refl].
      split; cbn [heap next]; [|lia]. intros cv Hc. apply in_remove_canvas in Hc. tauto.
    - cbn [fst]. split; cbn [heap next]; auto; lia.
  Qed.

  Lemma run_stable n ops : forall st, HeapStable st (run n st ops).
  Proof.
    induction ops as [|o ops IH]; intros st; cbn [Cache.run fold_left]; [apply HeapStable_refl|].
    eapply HeapStable_trans; [apply step_stable|apply IH].
  Qed.

  Lemma never_mutated_lemma n ops st cv cv' :
    Inv st -> In cv (heap st) -> In cv' (heap (run n st ops)) -> c_id cv' = c_id cv -> cv' = cv.
  Proof.
    intros I Hin Hin' E. destruct (run_stable n ops st) as [A _]. destruct (A _ Hin') as [H|H].
    - eapply heap_unique; eauto using inv_nodup.
    - pose proof (inv_ids st I _ Hin). lia.
  Qed.


  (* ================= statements over all histories (used by Properties/C06.v) ================= *)
  Lemma fresh_invariant_lemma n ops :
    let st := run n init ops in
    forall cv, cached st cv -> forall m x, fresh (ver st) m (c_w cv) (c_k cv) = Some x -> c_content cv = x.
  Proof. cbn zeta. apply inv_fresh. apply run_inv. apply Inv_init. Qed.

  Lemma deps_complete_lemma n ops :
    let st := run n init ops in
    forall cv, cached st cv ->
      trace st (c_w cv) (c_children cv) (body (c_w cv) (version (ver st) (c_w cv)) (c_k cv)).
  Proof. cbn zeta. apply inv_trace. apply run_inv. apply Inv_init. Qed.

  Lemma render_equals_fresh_lemma n ops m m' w k cv st1 x :
    let st := run n init ops in
    crender m st w k = Some (cv, st1) -> fresh (ver st) m' w k = Some x -> c_content cv = x.
  Proof. cbn zeta. apply cached_render_is_fresh. apply run_inv. apply Inv_init. Qed.

  Lemma render_total_lemma n ops m w k :
    (rank w < m)%nat -> exists cv st', crender m (run n init ops) w k = Some (cv, st').
  Proof. intros L. apply crender_total; [|exact L]. apply run_inv. apply Inv_init. Qed.

  Lemma fresh_total_lemma vr m w k : (rank w < m)%nat -> exists x, fresh vr m w k = Some x.
  Proof. apply fresh_total. Qed.

  Lemma rows_ok_lemma n ops m m' w k r r' :
    let st := run n init ops in
    crows m st w k = Some r -> frows (ver st) m' w k = Some r' -> r = r'.
  Proof. cbn zeta. apply rows_lemma. apply run_inv. apply Inv_init. Qed.

  Lemma never_mutated_history n ops1 ops2 cv cv' :
    let st := run n init ops1 in
    In cv (heap st) -> In cv' (heap (run n st ops2)) -> c_id cv' = c_id cv -> cv' = cv.
  Proof. cbn zeta. apply never_mutated_lemma. apply run_inv. apply Inv_init. Qed.

  Lemma mutate_fuel_lemma n (st : state) w v : snd (step n st (Mutate w v)) = ODone C.
  Proof.
    cbn [Cache.step]. destruct (invalidate_total (S (length (deps (cc st)))) (cc st) w ltac:(lia)) as [c' [E _]].
    rewrite E. reflexivity.
  Qed.

  Lemma change_visible_lemma n ops d v :
    let st := run n init (ops ++ [Mutate d v]) in
    version (ver st) d = v /\
    forall m m' w k cv st1 x, crender m st w k = Some (cv, st1) -> fresh (ver st) m' w k = Some x -> c_content cv = x.
  Proof.
    cbn zeta. split.
    - unfold Cache.run. rewrite fold_left_app. cbn [fold_left Cache.step].
      destruct (invalidate _ _ _); cbn [fst ver]; rewrite version_aset, Z.eqb_refl; reflexivity.
    - intros m m' w k cv st1 x. apply render_equals_fresh_lemma.
  Qed.

End Proofs.
