(* Basics shared by the C06 proofs: ranked render bodies, heap lemmas, growing states, fuel of the cache-less render.
   The invariant and its preservation are in Proofs/CacheGC.v; the statements in Properties/C06.v. *)
From Coq Require Import ZArith List Bool Lia.
Import ListNotations.
From Urwid Require Import PyBase Cache CacheFacts.
Open Scope Z_scope.
Arguments Z.add : simpl never.
Arguments Z.sub : simpl never.
Arguments Z.eqb : simpl never.
Arguments Z.ltb : simpl never.

(* every child a render body may ask for has a smaller rank than the widget: the widget graph is acyclic *)
Fixpoint prog_ranked {C} (r : nat) (rank : widget -> nat) (p : prog C) : Prop :=
  match p with
  | Ret _ => True
  | Ask x _ cont => (rank x < r)%nat /\ forall y, prog_ranked r rank (cont y)
  end.

Section Proofs.
  Variable C : Type.
  Variable body : widget -> Z -> key -> prog C.
  Variable rbody : widget -> Z -> key -> rprog.
  Variable rows_of : C -> Z.
  Variable cacheable : widget -> bool.
  Variable rcache : widget -> bool.
  Variable rank : widget -> nat.

  Notation state := (state C).
  Notation canvas := (canvas C).
  Notation fresh := (fresh C body).
  Notation crender := (crender C body cacheable).
  Notation run_prog := (run_prog C).
  Notation fetch := (fetch C).
  Notation step := (step C body rbody rows_of cacheable rcache).
  Notation run := (run C body rbody rows_of cacheable rcache).

  (* a canvas that the cache would hand out *)
  Definition cached (st : state) (cv : canvas) : Prop :=
    In cv (heap st) /\ lookup2 (cc st) (c_w cv) (c_k cv) = Some (c_id cv).


  (* ---------- the heap ---------- *)
  Lemma find_canvas_some h r cv : find_canvas C h r = Some cv -> In cv h /\ c_id cv = r.
  Proof.
    induction h as [|a h IH]; cbn [find_canvas]; [discriminate|].
    destruct (c_id a =? r) eqn:E; intros H.
    - inversion H. subst. split; [left; reflexivity|apply Z.eqb_eq; exact E].
    - destruct (IH H). split; [right|]; assumption.
  Qed.

  Lemma find_canvas_in h cv : In cv h -> exists cv', find_canvas C h (c_id cv) = Some cv'.
  Proof.
    induction h as [|a h IH]; cbn [find_canvas In]; [tauto|].
    intros [->|I].
    - rewrite Z.eqb_refl. eauto.
    - destruct (c_id a =? c_id cv); eauto.
  Qed.

  Lemma heap_unique (h : list canvas) a b :
    NoDup (map c_id h) -> In a h -> In b h -> c_id a = c_id b -> a = b.
  Proof.
    induction h as [|x h IH]; cbn [map In]; [tauto|].
    intros N. inversion N as [|? ? NI ND]. subst. intros [->|Ia] [->|Ib] E; auto.
    - exfalso. apply NI. rewrite E. apply in_map. exact Ib.
    - exfalso. apply NI. rewrite <- E. apply in_map. exact Ia.
  Qed.

  Lemma in_remove_canvas h r cv : In cv (remove_canvas C h r) <-> In cv h /\ c_id cv <> r.
  Proof.
    induction h as [|a h IH]; cbn [remove_canvas In]; [tauto|].
    destruct (c_id a =? r) eqn:E.
    - apply Z.eqb_eq in E. rewrite IH. split; [tauto|]. intros [[->|I] N]; [contradiction|tauto].
    - apply Z.eqb_neq in E. cbn [In]. rewrite IH. split; [intros [->|[I N]]; tauto|tauto].
  Qed.

  Lemma remove_canvas_nodup h r : NoDup (map c_id h) -> NoDup (map c_id (remove_canvas C h r)).
  Proof.
    induction h as [|a h IH]; cbn [remove_canvas map]; [auto|].
    intros N. inversion N as [|? ? NI ND]. subst. destruct (c_id a =? r); [auto|].
    cbn [map]. constructor; [|auto].
    intros I. apply in_map_iff in I. destruct I as [b [E I]]. apply in_remove_canvas in I.
    apply NI. rewrite <- E. apply in_map. tauto.
  Qed.

  (* ---------- growing states: what a render leaves untouched ---------- *)
  Record Ext (a b : state) : Prop := {
    ext_heap : forall cv, In cv (heap a) -> In cv (heap b);
    ext_entries : forall w k c, lookup2 (cc a) w k = Some c -> lookup2 (cc b) w k = Some c;
    ext_deps : forall x y, In y (deps_of (cc a) x) -> In y (deps_of (cc b) x);
    ext_next : next a <= next b }.

  Lemma Ext_refl a : Ext a a.
  Proof. split; auto. lia. Qed.
  Lemma Ext_trans a b c : Ext a b -> Ext b c -> Ext a c.
  Proof. intros [A1 A2 A3 A4] [B1 B2 B3 B4]. split; auto. lia. Qed.

  Lemma cached_ext a b cv : Ext a b -> cached a cv -> cached b cv.
  Proof. intros E [I L]. split; [apply (ext_heap _ _ E)|apply (ext_entries _ _ E)]; assumption. Qed.

  (* ================= rendering through the cache ================= *)
  Hypothesis body_ranked : forall w v k, prog_ranked (rank w) rank (body w v k).
  Hypothesis all_cacheable : forall w, cacheable w = true.

  (* the canvases returned by the children follow the render body *)
  Fixpoint ktrace (kids : list canvas) (p : prog C) (c : C) : Prop :=
    match kids, p with
    | [], Ret c' => c' = c
    | cx :: r, Ask x k cont => c_w cx = x /\ c_k cx = k /\ ktrace r (cont (c_content cx)) c
    | _, _ => False
    end.

  (* ================= Mutate: new own state, then CanvasCache.invalidate ================= *)
  Lemma version_aset vr w v x : version (aset vr w v) x = if w =? x then v else version vr x.
  Proof. unfold version. rewrite alookup_aset. destruct (w =? x); reflexivity. Qed.

  (* ================= enough fuel: more than the rank of the widget ================= *)
  Lemma run_fresh_total vr m r p :
    (forall w k, (rank w < r)%nat -> exists x, fresh vr m w k = Some x) ->
    prog_ranked r rank p -> exists x, run_fresh C (fresh vr m) p = Some x.
  Proof.
    intros T. induction p as [c|x k cont IH]; intros PR; cbn [run_fresh]; [eauto|].
    destruct PR as [P1 P2]. destruct (T x k P1) as [y ->]. apply IH. apply P2.
  Qed.

  Lemma fresh_total vr : forall n w k, (rank w < n)%nat -> exists x, fresh vr n w k = Some x.
  Proof.
    induction n as [|m IH]; intros w k L; [lia|]. cbn [Cache.fresh].
    apply (run_fresh_total vr m (rank w)); [|apply body_ranked].
    intros x kx Lx. apply IH. lia.
  Qed.

  Lemma fresh_total_lemma vr m w k : (rank w < m)%nat -> exists x, fresh vr m w k = Some x.
  Proof. apply fresh_total. Qed.

  Lemma mutate_fuel_lemma n (st : state) w v : snd (step n st (Mutate w v)) = ODone C.
  Proof.
    cbn [Cache.step]. destruct (invalidate_total (S (length (deps (cc st)))) (cc st) w ltac:(lia)) as [c' [E _]].
    rewrite E. reflexivity.
  Qed.
End Proofs.
