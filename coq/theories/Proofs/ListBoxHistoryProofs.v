(* C07 - proofs, part 3: every modelled operation (and any history of them) keeps the view state
   inside ViewOK (offset_rows >= 0, 0 <= inum < iden): the only writers are shift_focus and
   change_focus. *)
From Coq Require Import ZArith List Bool Lia ZifyBool.
Import ListNotations.
From Urwid Require Import PyBase ListBoxView ListBoxViewProofs ListBoxWindowProofs.
Open Scope Z_scope.

Lemma viewok_set_pend s p : ViewOK (set_pend s p) <-> ViewOK s.
Proof. unfold ViewOK. cbn. tauto. Qed.
Lemma viewok_set_body_focus s f : ViewOK (set_body_focus s f) <-> ViewOK s.
Proof. unfold ViewOK. cbn. tauto. Qed.
Lemma viewok_set_items s its f : ViewOK (set_items s its f) <-> ViewOK s.
Proof. unfold ViewOK. cbn. tauto. Qed.
Lemma viewok_set_vpend s v : ViewOK (set_vpend s v) <-> ViewOK s.
Proof. unfold ViewOK. cbn. tauto. Qed.
Lemma viewok_clear_pending s : ViewOK (clear_pending s) <-> ViewOK s.
Proof. unfold ViewOK. cbn. tauto. Qed.

Lemma pres_shift s m oi s' : shift_focus s m oi = Ok s' -> ViewOK s'.
Proof. intros H. now destruct (shift_focus_writes _ _ _ _ H). Qed.
Lemma pres_change s m p oi cf s' : change_focus s m p oi cf = Ok s' -> ViewOK s'.
Proof. intros H. now destruct (change_focus_writes _ _ _ _ _ _ H). Qed.
Lemma pres_change_sr s m p oi cf sr s' : change_focus_sr s m p oi cf sr = Ok s' -> ViewOK s'.
Proof. intros H. now destruct (change_focus_sr_writes _ _ _ _ _ _ _ H). Qed.

Lemma pres_mcv s m s' : ViewOK s -> make_cursor_visible s m = Ok s' -> ViewOK s'.
Proof.
  intros Hs. unfold make_cursor_visible.
  destruct (nthz (items s) (focus s)) as [w|]; [|now intros [= <-]].
  destruct (negb (i_sel w)); [now intros [= <-]|].
  destruct (i_cy w) as [cy|]; [|now intros [= <-]].
  destruct (focus_offset_inset _ _ _ _) as [[o i]|]; [|discriminate].
  destruct (cy <? i); [apply pres_shift|].
  destruct (m <=? o - i + cy); [apply pres_shift|]. now intros [= <-].
Qed.

Lemma pres_first_selectable s m ff s' : ViewOK s -> set_focus_first_selectable s m ff = Ok s' -> ViewOK s'.
Proof.
  intros Hs. unfold set_focus_first_selectable.
  destruct (visible _ _ _ _ _ _ _) as [[v|]|]; [| |discriminate].
  - destruct (sel_at _ _); [intros [= <-]; now apply viewok_clear_pending|].
    destruct (first_sel_scan _ _ _) as [[pos nro]|]; [apply pres_shift|].
    intros [= <-]. now apply viewok_clear_pending.
  - intros [= <-]. now apply viewok_clear_pending.
Qed.

Lemma pres_valign_complete s m ff va s' : ViewOK s -> set_focus_valign_complete s m ff va = Ok s' -> ViewOK s'.
Proof.
  intros Hs. unfold set_focus_valign_complete.
  destruct (nthz _ _); [apply pres_shift|]. intros [= <-]. now apply viewok_clear_pending.
Qed.

Lemma pres_pending_complete s m ff s' : ViewOK s -> set_focus_pending_complete s m ff = Ok s' -> ViewOK s'.
Proof.
  intros Hs. unfold set_focus_pending_complete.
  destruct (pend s) as [| |cf old]; [now intros [= <-] | now intros [= <-] |].
  cbn [items focus set_pend].
  destruct (nthz (items s) (focus s)) as [neww|]; [|intros [= <-]; now apply viewok_set_pend].
  destruct (old =? focus s); [intros [= <-]; now apply viewok_set_pend|].
  destruct (nthz (items s) old); [|intros [= <-]; now apply viewok_set_pend].
  destruct (visible _ _ _ _ _ _ _) as [[v|]|]; [| discriminate | discriminate].
  destruct (find_above _ _ _); [apply pres_change|].
  destruct (find_below _ _ _); [apply pres_change|].
  apply pres_shift.
Qed.

Lemma pres_complete s m ff s' : ViewOK s -> set_focus_complete s m ff = Ok s' -> ViewOK s'.
Proof.
  intros Hs. unfold set_focus_complete.
  destruct (pend s) as [| |cf old]; try (now apply pres_first_selectable);
    (destruct (vpend s) as [va|]; [now apply pres_valign_complete | now apply pres_pending_complete]).
Qed.

Lemma pres_calculate_visible s m ff s' ov : ViewOK s -> calculate_visible s m ff = Ok (s', ov) -> ViewOK s'.
Proof.
  intros Hs. unfold calculate_visible.
  destruct (set_focus_complete s m ff) as [s1|] eqn:E; [|discriminate].
  destruct (visible _ _ _ _ _ _ _); [|discriminate]. intros [= <- _]. eapply pres_complete; eassumption.
Qed.

Lemma pres_render s m ff s' out : ViewOK s -> render s m ff = Ok (s', out) -> ViewOK s'.
Proof.
  intros Hs. unfold render.
  destruct (calculate_visible s m ff) as [[s1 [v|]]|] eqn:E; [| |discriminate].
  - destruct (render_vis _ _ _); [|discriminate]. intros [= <- _]. eapply pres_calculate_visible; eassumption.
  - intros [= <- _]. eapply pres_calculate_visible; eassumption.
Qed.

Definition kres_ok (r : kres) : Prop := match r with KDone s' => ViewOK s' | _ => True end.

Lemma pres_up_for s m : forall fa l r, up_for s m fa l = Ok r -> kres_ok r.
Proof.
  induction fa as [|[pos rows] fa IH]; intros l r; cbn [up_for]; [now intros [= <-]|].
  destruct (negb (rows =? 0) && sel_at (items s) pos); [|apply IH].
  destruct (change_focus _ _ _ _ _) eqn:E; [|discriminate]. intros [= <-]. cbn. eapply pres_change; eassumption.
Qed.

Lemma pres_up_while s m : forall pv l r, up_while s m pv l = Ok r -> kres_ok r.
Proof.
  induction pv as [|[pos rows] pv IH]; intros l r; cbn [up_while].
  - destruct (l_ro l <=? 0); now intros [= <-].
  - destruct (l_ro l <=? 0); [now intros [= <-]|].
    destruct (negb (rows =? 0) && sel_at (items s) pos); [|apply IH].
    destruct (change_focus _ _ _ _ _) eqn:E; [|discriminate]. intros [= <-]. cbn. eapply pres_change; eassumption.
Qed.

Lemma pres_down_for s m : forall fb l r, down_for s m fb l = Ok r -> kres_ok r.
Proof.
  induction fb as [|[pos rows] fb IH]; intros l r; cbn [down_for]; [now intros [= <-]|].
  destruct (negb (rows =? 0) && sel_at (items s) pos); [|apply IH].
  destruct (change_focus _ _ _ _ _) eqn:E; [|discriminate]. intros [= <-]. cbn. eapply pres_change; eassumption.
Qed.

Lemma pres_down_while s m : forall nx l r, down_while s m nx l = Ok r -> kres_ok r.
Proof.
  induction nx as [|[pos rows] nx IH]; intros l r; cbn [down_while].
  - destruct (m <=? l_ro l); now intros [= <-].
  - destruct (m <=? l_ro l); [now intros [= <-]|].
    destruct (negb (rows =? 0) && sel_at (items s) pos); [|apply IH].
    destruct (change_focus _ _ _ _ _) eqn:E; [|discriminate]. intros [= <-]. cbn. eapply pres_change; eassumption.
Qed.

Lemma pres_lift_k r s' b : lift_k r = Ok (s', b) -> (forall s1, r = Ok s1 -> ViewOK s1) -> ViewOK s'.
Proof. unfold lift_k. destruct r; [|discriminate]. intros [= <- _] H. now apply H. Qed.

Lemma pres_keypress_up s m s' b : ViewOK s -> keypress_up s m = Ok (s', b) -> ViewOK s'.
Proof.
  intros Hs. unfold keypress_up.
  destruct (visible _ _ _ _ _ _ _) as [[v|]|]; [| now intros [= <- _] | discriminate].
  destruct (up_for _ _ _ _) as [[s1| |l1]|] eqn:E1; [| | |discriminate].
  - intros [= <- _]. apply (pres_up_for _ _ _ _ _ E1).
  - now intros [= <- _].
  - destruct (up_while _ _ _ _) as [[s2| |l2]|] eqn:E2; [| | |discriminate].
    + intros [= <- _]. apply (pres_up_while _ _ _ _ _ E2).
    + now intros [= <- _].
    + destruct (negb (sel_at (items s) (v_fpos v)) || (m <=? v_off_inset v + 1)).
      * destruct (l_wnone l2); intros H; apply (pres_lift_k _ _ _ H); intros s1; [apply pres_shift | apply pres_change].
      * destruct (v_cursor v) as [y|].
        -- destruct (m <=? y + v_off_inset v + 1).
           ++ match goal with |- context [match ?ol with Some _ => _ | None => _ end] => destruct ol as [l3|] end.
              ** intros H; apply (pres_lift_k _ _ _ H); intros s1; apply pres_change.
              ** now intros [= <- _].
           ++ intros H; apply (pres_lift_k _ _ _ H); intros s1; apply pres_shift.
        -- intros H; apply (pres_lift_k _ _ _ H); intros s1; apply pres_shift.
Qed.

Lemma pres_keypress_down s m s' b : ViewOK s -> keypress_down s m = Ok (s', b) -> ViewOK s'.
Proof.
  intros Hs. unfold keypress_down.
  destruct (visible _ _ _ _ _ _ _) as [[v|]|]; [| now intros [= <- _] | discriminate].
  destruct (down_for _ _ _ _) as [[s1| |l1]|] eqn:E1; [| | |discriminate].
  - intros [= <- _]. apply (pres_down_for _ _ _ _ _ E1).
  - now intros [= <- _].
  - destruct (down_while _ _ _ _) as [[s2| |l2]|] eqn:E2; [| | |discriminate].
    + intros [= <- _]. apply (pres_down_while _ _ _ _ _ E2).
    + now intros [= <- _].
    + destruct (negb (sel_at (items s) (v_fpos v)) || (v_off_inset v + v_frows v - 1 <=? 0)).
      * destruct (l_wnone l2); intros H; apply (pres_lift_k _ _ _ H); intros s1; [apply pres_shift | apply pres_change].
      * destruct (v_cursor v) as [y|].
        -- destruct (y + v_off_inset v - 1 <? 0).
           ++ match goal with |- context [match ?ol with Some _ => _ | None => _ end] => destruct ol as [l3|] end.
              ** intros H; apply (pres_lift_k _ _ _ H); intros s1; apply pres_change.
              ** now intros [= <- _].
           ++ intros H; apply (pres_lift_k _ _ _ H); intros s1; apply pres_shift.
        -- intros H; apply (pres_lift_k _ _ _ H); intros s1; apply pres_shift.
Qed.

(* ------------------------------------------------------------------------------------- *)
(* page up / page down: every state they can return was written by one of the two writers *)
Definition pres_ok (r : pres) : Prop :=
  match r with PDone s' => ViewOK s' | PCont st => ViewOK (p_s st) end.

Lemma pres_pd_loop1 m sr t : forall order st r, ViewOK (p_s st) -> pd_loop1 m sr t order st = Ok r -> pres_ok r.
Proof.
  induction order as [|i rest IH]; intros st r Hs; cbn [pd_loop1]; [now intros [= <-]|].
  destruct (nthz t i) as [[[ro pos] rows]|]; [|discriminate]. cbn [p_s].
  destruct (negb (sel_at (items (p_s st)) pos)); [apply IH; assumption|].
  destruct (rows =? 0); [apply IH; assumption|].
  destruct (ro + rows <=? 0); [apply IH; assumption|].
  match goal with |- context [match ?c with Ok _ => _ | Err _ => _ end] => destruct c as [s'|] eqn:Ec end; [|discriminate].
  assert (Hs' : ViewOK s').
  { destruct (m <=? ro); eapply pres_change_sr; eassumption. }
  destruct (visible _ _ _ _ _ _ _) as [[v|]|]; [| discriminate | discriminate].
  destruct (v_off_inset v <? ro - sr); [apply IH; assumption|].
  destruct (ro <? v_off_inset v); [apply IH; assumption|].
  destruct (m <? v_off_inset v + rows); [apply IH; assumption|].
  now intros [= <-].
Qed.

Lemma pres_pu_loop1 m sr t : forall order st r, ViewOK (p_s st) -> pu_loop1 m sr t order st = Ok r -> pres_ok r.
Proof.
  induction order as [|i rest IH]; intros st r Hs; cbn [pu_loop1]; [now intros [= <-]|].
  destruct (nthz t i) as [[[ro pos] rows]|]; [|discriminate]. cbn [p_s].
  destruct (negb (sel_at (items (p_s st)) pos)); [apply IH; assumption|].
  destruct (rows =? 0); [apply IH; assumption|].
  match goal with |- context [match ?c with Ok _ => _ | Err _ => _ end] => destruct c as [s'|] eqn:Ec end; [|discriminate].
  assert (Hs' : ViewOK s').
  { destruct (rows + ro <=? 0); eapply pres_change_sr; eassumption. }
  destruct (visible _ _ _ _ _ _ _) as [[v|]|]; [| discriminate | discriminate].
  destruct (ro + sr <? v_off_inset v); [apply IH; assumption|].
  destruct (v_off_inset v <? ro); [apply IH; assumption|].
  destruct (v_off_inset v <? 0); [apply IH; assumption|].
  now intros [= <-].
Qed.

Lemma pres_pd_loop2 s m sr fpos t : forall order ro s' ro', pd_loop2 s m sr fpos t order ro = Ok (Some s', ro') -> ViewOK s'.
Proof.
  induction order as [|i rest IH]; intros ro s' ro'; cbn [pd_loop2]; [discriminate|].
  destruct (nthz t i) as [[[ro0 pos] rows]|]; [|discriminate].
  destruct (pos =? fpos); [apply IH|]. destruct (rows =? 0); [apply IH|].
  destruct (ro0 + rows <=? 0); [apply IH|].
  destruct (m <=? ro0);
    (destruct (change_focus_sr _ _ _ _ _ _) as [s1|] eqn:Ec; [|discriminate]; intros [= <- _]; eapply pres_change_sr; eassumption).
Qed.

Lemma pres_pu_loop2 s m sr fpos t : forall order ro s' ro', pu_loop2 s m sr fpos t order ro = Ok (Some s', ro') -> ViewOK s'.
Proof.
  induction order as [|i rest IH]; intros ro s' ro'; cbn [pu_loop2]; [discriminate|].
  destruct (nthz t i) as [[[ro0 pos] rows]|]; [|discriminate].
  destruct (pos =? fpos); [apply IH|]. destruct (rows =? 0); [apply IH|].
  destruct (rows + ro0 <=? 0);
    (destruct (change_focus_sr _ _ _ _ _ _) as [s1|] eqn:Ec; [|discriminate]; intros [= <- _]; eapply pres_change_sr; eassumption).
Qed.

Lemma pres_page_down s m s' b : ViewOK s -> keypress_page_down s m = Ok (s', b) -> ViewOK s'.
Proof.
  intros Hs. unfold keypress_page_down.
  destruct (visible _ _ _ _ _ _ _) as [[v|]|]; [| now intros [= <- _] | discriminate].
  destruct (pd_gather s m v) as [[sr t0] srs]. destruct t0 as [|x0 tl]; [discriminate|].
  set (t := pd_candidates s m v).
  destruct (pd_loop1 _ _ _ _ _) as [[s1|st]|] eqn:E1; [| |discriminate].
  - intros [= <- _]. change (pres_ok (PDone s1)). eapply pres_pd_loop1; [|exact E1]. exact Hs.
  - assert (Hst : pres_ok (PCont st)) by (eapply pres_pd_loop1; [|exact E1]; exact Hs). cbn in Hst.
    destruct (p_cut st); [now intros [= <- _]|].
    destruct (pd_loop2 _ _ _ _ _ _ _) as [[[s2|] ro2]|] eqn:E2; [| |discriminate].
    + intros [= <- _]. eapply pres_pd_loop2; eassumption.
    + destruct (shift_focus _ _ _) as [s3|] eqn:E3; [|discriminate].
      pose proof (pres_shift _ _ _ _ E3) as Hs3.
      destruct (visible _ _ _ _ _ _ _) as [[v2|]|]; [| discriminate | discriminate].
      destruct (v_off_inset v2 <=? ro2); [now intros [= <- _]|].
      destruct (rev t) as [|xl rt]; [now intros [= <- _]|].
      destruct (nthz (items s3) (t_pos xl + 1)); [|now intros [= <- _]].
      intros H. apply (pres_lift_k _ _ _ H). intros sx. apply pres_change_sr.
Qed.

Lemma pres_page_up s m s' b : ViewOK s -> keypress_page_up s m = Ok (s', b) -> ViewOK s'.
Proof.
  intros Hs. unfold keypress_page_up.
  destruct (visible _ _ _ _ _ _ _) as [[v|]|]; [| now intros [= <- _] | discriminate].
  destruct (pu_gather s m v) as [[sr t0] srs]. destruct t0 as [|x0 tl]; [discriminate|].
  set (t := pu_candidates s m v).
  destruct (pu_loop1 _ _ _ _ _) as [[s1|st]|] eqn:E1; [| |discriminate].
  - intros [= <- _]. change (pres_ok (PDone s1)). eapply pres_pu_loop1; [|exact E1]. exact Hs.
  - assert (Hst : pres_ok (PCont st)) by (eapply pres_pu_loop1; [|exact E1]; exact Hs). cbn in Hst.
    destruct (p_cut st); [now intros [= <- _]|].
    destruct (pu_loop2 _ _ _ _ _ _ _) as [[[s2|] ro2]|] eqn:E2; [| |discriminate].
    + intros [= <- _]. eapply pres_pu_loop2; eassumption.
    + destruct (shift_focus _ _ _) as [s3|] eqn:E3; [|discriminate].
      pose proof (pres_shift _ _ _ _ E3) as Hs3.
      destruct (visible _ _ _ _ _ _ _) as [[v2|]|]; [| discriminate | discriminate].
      destruct (ro2 <=? v_off_inset v2); [now intros [= <- _]|].
      destruct (rev t) as [|xl rt]; [now intros [= <- _]|].
      destruct (nthz (items s3) (t_pos xl - 1)); [|now intros [= <- _]].
      intros H. apply (pres_lift_k _ _ _ H). intros sx. apply pres_change_sr.
Qed.

Lemma pres_set_focus s position cf s' : ViewOK s -> set_focus s position cf = Ok s' -> ViewOK s'.
Proof.
  intros Hs. unfold set_focus. destruct (nthz (items s) (focus s)); [|discriminate].
  cbn [items set_pend]. destruct (nthz (items s) position); [|discriminate]. intros [= <-].
  apply viewok_set_body_focus. now apply viewok_set_pend.
Qed.

Lemma pres_keypress s m k s' b : ViewOK s -> keypress s m k = Ok (s', b) -> ViewOK s'.
Proof.
  intros Hs. unfold keypress.
  destruct (set_focus_complete s m true) as [s1|] eqn:E; [|discriminate].
  pose proof (pres_complete _ _ _ _ Hs E) as Hs1.
  destruct (nthz (items s1) (focus s1)) as [w|]; [|now intros [= <- _]].
  destruct k as [| |dir| | | | |].
  - now apply pres_keypress_up.
  - now apply pres_keypress_down.
  - destruct (item_key w dir) as [w'|]; [|now intros [= <- _]].
    destruct (make_cursor_visible _ _) as [s2|] eqn:E2; [|discriminate]. intros [= <- _].
    eapply pres_mcv; [|eassumption]. now apply viewok_set_items.
  - destruct (set_focus s1 0 CNone) as [s2|] eqn:E2; [|discriminate]. intros [= <- _].
    apply viewok_set_vpend. eapply pres_set_focus; eassumption.
  - destruct (set_focus s1 _ CNone) as [s2|] eqn:E2; [|discriminate]. intros [= <- _].
    apply viewok_set_vpend. eapply pres_set_focus; eassumption.
  - now apply pres_page_up.
  - now apply pres_page_down.
  - now intros [= <- _].
Qed.

Lemma pres_mouse s m button row s' b : ViewOK s -> mouse_press s m button row = Ok (s', b) -> ViewOK s'.
Proof.
  intros Hs. unfold mouse_press.
  destruct (calculate_visible s m true) as [[s1 [v|]]|] eqn:E; [| |discriminate].
  2: { intros [= <- _]. eapply pres_calculate_visible; eassumption. }
  pose proof (pres_calculate_visible _ _ _ _ _ Hs E) as Hs1.
  destruct (find_row _ _ _) as [[w_pos wrow]|]; [|now intros [= <- _]].
  match goal with |- context [match ?r1 with Ok _ => _ | Err _ => _ end] => destruct r1 as [s2|] eqn:E2 end; [|discriminate].
  assert (Hs2 : ViewOK s2).
  { destruct ((button =? 1) && sel_at (items s1) w_pos); [eapply pres_change; eassumption|]. now inversion E2; subst. }
  destruct (button =? 4).
  - destruct (keypress_up s2 m) as [[s3 u]|] eqn:E3; [|discriminate]. intros [= <- _]. eapply pres_keypress_up; eassumption.
  - destruct (button =? 5).
    + destruct (keypress_down s2 m) as [[s3 u]|] eqn:E3; [|discriminate]. intros [= <- _]. eapply pres_keypress_down; eassumption.
    + now intros [= <- _].
Qed.

(* an OSync stands for an operation that is not modelled (page up/down, home/end, set_focus_valign):
   by the syntactic scan of listbox.py its writes also go through the two writers, so the state
   it leaves is ViewOK - that is the premise [op_ok] *)
Definition op_ok (o : op) : Prop :=
  match o with OSync _ o n d _ _ => 0 <= o /\ 0 <= n < d | _ => True end.

Lemma pres_step s o s' out : ViewOK s -> op_ok o -> step s o = Ok (s', out) -> ViewOK s'.
Proof.
  intros Hs Ho. destruct o; cbn [step].
  - destruct (render s maxrow fflag) as [[s1 [rows cur]]|] eqn:E; [|discriminate]. intros [= <- _]. eapply pres_render; eassumption.
  - destruct (keypress s maxrow k) as [[s1 b]|] eqn:E; [|discriminate]. intros [= <- _]. eapply pres_keypress; eassumption.
  - destruct (mouse_press s maxrow button row) as [[s1 b]|] eqn:E; [|discriminate]. intros [= <- _]. eapply pres_mouse; eassumption.
  - destruct (set_focus s position cf) as [s1|] eqn:E; [|discriminate]. intros [= <- _].
    eapply pres_set_focus; eassumption.
  - intros [= <- _]. exact Ho.
  - intros [= <- _]. unfold set_focus_valign. now apply viewok_set_vpend.
  - intros [= <- _]. now apply viewok_set_items.
  - destruct (shift_focus s maxrow oi) as [s1|] eqn:E; [|discriminate]. intros [= <- _]. eapply pres_shift; eassumption.
  - destruct (change_focus s maxrow position oi cf) as [s1|] eqn:E; [|discriminate]. intros [= <- _]. eapply pres_change; eassumption.
  - destruct (make_cursor_visible s maxrow) as [s1|] eqn:E; [|discriminate]. intros [= <- _]. eapply pres_mcv; eassumption.
Qed.

Lemma history_view_ok : forall ops s, ViewOK s -> Forall op_ok ops ->
  forall s' out, In (Ok (s', out)) (run s ops) -> ViewOK s'.
Proof.
  induction ops as [|o ops IH]; intros s Hs Hops s' out Hin; cbn [run] in Hin; [contradiction|].
  inversion Hops as [|? ? Ho Hrest]; subst.
  destruct (step s o) as [[s1 out1]|] eqn:E.
  - pose proof (pres_step _ _ _ _ Hs Ho E) as Hs1.
    destruct Hin as [Heq|Hin]; [inversion Heq; subst; assumption|]. eapply IH; eassumption.
  - destruct Hin as [Heq|[]]. discriminate.
Qed.

(* ------------------------------------------------------------------------------------- *)
(* renders without a pending focus request, after any history *)
Lemma render_view_empty : forall its f o n d maxrow fflag, nthz its f = None ->
  render_view its f o n d maxrow fflag = Ok (repeat blank (Z.to_nat maxrow), None).
Proof. intros. unfold render_view, visible. now rewrite H. Qed.

Lemma render_no_pending s m ff : pend s = PNone -> vpend s = None ->
  render s m ff = match render_view (items s) (focus s) (off s) (inum s) (iden s) m ff with
                  | Ok r => Ok (s, r) | Err e => Err e end.
Proof.
  intros Hp Hvp. unfold render, calculate_visible, set_focus_complete, set_focus_pending_complete, render_view.
  rewrite Hp, Hvp.
  destruct (visible _ _ _ _ _ _ _) as [[v|]|]; reflexivity.
Qed.

Lemma render_after_history_lemma :
  forall ops s s' out maxrow fflag w,
    ViewOK s -> Forall op_ok ops -> In (Ok (s', out)) (run s ops) ->
    pend s' = PNone -> vpend s' = None -> heights_ok (items s') -> 1 <= maxrow ->
    nthz (items s') (focus s') = Some w -> cursor_ok w ->
    exists p,
      0 <= p <= zlen (all_rows (items s')) /\
      render s' maxrow fflag
        = Ok (s', (window (items s') p maxrow, cur_out (items s') (focus s') p (cursor_of w maxrow fflag))) /\
      (zlen (all_rows (items s')) - p < maxrow -> p = 0) /\
      (1 <= i_rows w -> exists r, 0 <= r < i_rows w /\
                                  In (focus s', r) (takez maxrow (dropz p (all_rows (items s'))))) /\
      (forall cy, cursor_of w maxrow fflag = Some cy ->
         nthz (window (items s') p maxrow) (rows_before (items s') (focus s') + cy - p) = Some (focus s', cy)).
Proof.
  intros ops s s' out maxrow fflag w Hs Hops Hin Hp Hvp Hh Hmr Hw Hc.
  destruct (history_view_ok ops s Hs Hops s' out Hin) as [Ho Hnd].
  destruct (view_ok_lemma (items s') (focus s') (off s') (inum s') (iden s') maxrow fflag w)
    as (p & Hp1 & Er & Hbl & Hfoc & Hcur); try assumption.
  { constructor; assumption. }
  exists p. rewrite (render_no_pending _ _ _ Hp Hvp), Er. splits; try assumption; try lia; try reflexivity.
  intros cy Hcy. now destruct (Hcur cy Hcy).
Qed.
