(* Proofs about the MonitoredFocusList model (C16). *)
From Coq Require Import ZArith List Bool Lia ZifyBool.
Import ListNotations.
From Urwid Require Import PyBase PyList monitored_list_gen MonitoredList PyListFacts.
Open Scope Z_scope.

Arguments Z.mul : simpl never.
Arguments Z.add : simpl never.
Arguments Z.sub : simpl never.
Arguments Z.div : simpl never.
Arguments Z.modulo : simpl never.
Arguments Z.ltb : simpl never.
Arguments Z.leb : simpl never.
Arguments Z.eqb : simpl never.
Arguments Z.min : simpl never.
Arguments Z.max : simpl never.

(* ---------- a readable specification of the translated focus arithmetic ---------- *)
(* the positions of range(s,e,t) in ascending order with a non-inverted stop *)
Definition norm_range (s e t : Z) : Z * Z * Z :=
  if t <? 0 then
    (if range_len s e t =? 0 then (s, s, - t)
     else (s + (range_len s e t - 1) * t, s + 1, - t))
  else (s, Z.max s e, t).

Definition adjust_spec (n f : Z) (a b st : oz) (k : Z) : Z :=
  let '(s0, e0, t0) := slice_indices n a b st in
  let removed := range_len s0 e0 t0 in
  let '(s, e, t) := norm_range s0 e0 t0 in
  let f' :=
    if t =? 1 then
      let f1 := if (s + k <=? f) && (f <? e) then e else f in
      if e <=? f1 then f1 + (k - (e - s)) else f1
    else if k =? 0 then
      let f1 := if in_range f s e t then f + 1 else f in
      f1 - range_len s (Z.min f1 e) t
    else f in
  Z.min f' (n + k - removed - 1).

(* the generated definition IS that specification (re-checked against the regenerated
   text on every run: any edit of the Python function that changes its meaning breaks
   this lemma or the ones below) *)
Lemma adjust_focus_gen_spec n f a b st k :
  adjust_focus_gen n f a b st k = adjust_spec n f a b st k.
Proof.
  unfold adjust_focus_gen, adjust_spec, norm_range.
  destruct (slice_indices n a b st) as [[s0 e0] t0].
  cbv zeta beta iota.
  destruct (t0 <? 0) eqn:Hneg.
  - destruct (range_len s0 e0 t0 =? 0) eqn:Hz; cbn [negb]; cbv zeta beta iota;
      repeat match goal with |- context[if ?c then _ else _] => destruct c eqn:? end;
      try reflexivity; try lia.
  - cbv zeta beta iota. destruct (e0 <? s0) eqn:Hinv; cbv zeta beta iota.
    + replace (Z.max s0 e0) with s0 by lia.
      repeat match goal with |- context[if ?c then _ else _] => destruct c eqn:? end;
      try reflexivity; try lia.
    + replace (Z.max s0 e0) with e0 by lia.
      repeat match goal with |- context[if ?c then _ else _] => destruct c eqn:? end;
      try reflexivity; try lia.
Qed.

(* ---------- the focus computed before a mutation is a valid index afterwards ---------- *)
Lemma norm_range_props s0 e0 t0 s e t :
  norm_range s0 e0 t0 = (s, e, t) -> t0 <> 0 ->
  (0 < t0 -> 0 <= s0) -> (t0 < 0 -> -1 <= e0 /\ -1 <= s0) ->
  0 < t /\ s <= e /\ -1 <= s /\ (s = -1 -> e = -1).
Proof.
  unfold norm_range. intros H Ht0 Hp Hn.
  destruct (t0 <? 0) eqn:Hneg.
  - assert (Ht0n : t0 < 0) by lia. destruct (Hn Ht0n) as [He0 Hs0].
    destruct (range_len s0 e0 t0 =? 0) eqn:Hlen; injection H as <- <- <-.
    + lia.
    + assert (Hpos : 0 < range_len s0 e0 t0) by (pose proof (range_len_nonneg s0 e0 t0 Ht0); lia).
      pose proof (range_first_gt s0 e0 t0 Ht0n Hpos) as Hfirst.
      assert (s0 + (range_len s0 e0 t0 - 1) * t0 <= s0) by nia. lia.
  - injection H as <- <- <-. specialize (Hp ltac:(lia)). lia.
Qed.

Lemma adjust_core_nonneg s e t f k :
  0 < t -> s <= e -> -1 <= s -> (s = -1 -> e = -1) -> 0 <= f -> 0 <= k ->
  0 <= (if t =? 1 then
          if e <=? (if (s + k <=? f) && (f <? e) then e else f)
          then (if (s + k <=? f) && (f <? e) then e else f) + (k - (e - s))
          else if (s + k <=? f) && (f <? e) then e else f
        else if k =? 0 then
          (if in_range f s e t then f + 1 else f) -
          range_len s (Z.min (if in_range f s e t then f + 1 else f) e) t
        else f).
Proof.
  intros Ht Hse Hs Hs1 Hf Hk.
  destruct (t =? 1) eqn:Ht1.
  - destruct ((s + k <=? f) && (f <? e)) eqn:Hc.
    + assert (Hc2 : (e <=? e) = true) by lia. rewrite Hc2. lia.
    + destruct (e <=? f) eqn:Hc2; lia.
  - destruct (k =? 0) eqn:Hk0; [|lia].
    destruct (in_range f s e t) eqn:Hir.
    + pose proof (range_len_le s (Z.min (f + 1) e) t Ht).
      unfold in_range in Hir. assert (Hp : (0 <? t) = true) by lia. rewrite Hp in Hir. lia.
    + pose proof (range_len_le s (Z.min f e) t Ht).
      destruct (Z.eq_dec s (-1)) as [Hm|Hm]; [|lia].
      specialize (Hs1 Hm). subst s e.
      assert (Hr : range_len (-1) (Z.min f (-1)) t = 0).
      { unfold range_len. assert (Hp : (0 <? t) = true) by lia. rewrite Hp.
        assert (Hq : (-1 <? Z.min f (-1)) = false) by lia. rewrite Hq. reflexivity. }
      lia.
Qed.

Lemma adjust_spec_range n f a b st k s0 e0 t0 :
  0 <= n -> 0 <= f -> 0 <= k -> step_is_zero st = false ->
  slice_indices n a b st = (s0, e0, t0) ->
  1 <= n + k - range_len s0 e0 t0 ->
  0 <= adjust_spec n f a b st k <= n + k - range_len s0 e0 t0 - 1.
Proof.
  intros Hn Hf Hk Hz Hs Hn'. unfold adjust_spec. rewrite Hs.
  pose proof (slice_indices_step _ _ _ _ _ _ _ Hs Hz) as Ht0.
  destruct (norm_range s0 e0 t0) as [[s e] t] eqn:Hnr.
  destruct (norm_range_props _ _ _ _ _ _ Hnr Ht0) as (Ht & Hse & Hs1 & Hs2).
  { intro Hp. destruct (slice_indices_pos _ _ _ _ _ _ _ Hn Hs Hp). lia. }
  { intro Hq. destruct (slice_indices_neg _ _ _ _ _ _ _ Hn Hs Hq). lia. }
  split; [|apply Z.le_min_r].
  apply Z.min_glb; [|lia].
  apply adjust_core_nonneg; assumption.
Qed.

(* ---------- validity of states ---------- *)
Definition Valid (s : state) : Prop :=
  (items s = [] /\ focus_raw s = 0) \/ (0 <= focus_raw s < zlen (items s)).

(* contents and errors are those of a plain Python list *)
Definition list_step (l : list Z) (o : op) : result (list Z) :=
  match o with
  | DelItem y => del_index l y
  | SetItem i x => set_index l i x
  | DelSlice a b st => del_slice l a b st
  | SetSlice a b st xs => set_slice l a b st xs
  | Insert i x => Ok (insert l i x)
  | Append x => Ok (l ++ [x])
  | Extend xs => Ok (l ++ xs)
  | Pop i => match pop l i with Ok (_, l') => Ok l' | Err e => Err e end
  | Remove x => remove_val l x
  | Reverse => Ok (rev l)
  | Sort rv => Ok (sort_list rv l)
  | IAdd xs => Ok (l ++ xs)
  | IMul k => Ok (imul l k)
  | Clear => Ok []
  | SetFocus i =>
      match l with
      | [] => Ok l
      | _ => if (i <? 0) || (zlen l <=? i) then Err IndexError else Ok l
      end
  end.

(* what a call must look like from outside, given what a plain list does *)
Definition outcome_ok (s : state) (R : state * out) (r : result (list Z)) : Prop :=
  match r with
  | Ok l' => items (fst R) = l' /\ o_err (snd R) = None
  | Err e => fst R = s /\ o_err (snd R) = Some e /\ o_events (snd R) = []
  end.

Definition step_good (s : state) (R : state * out) (r : result (list Z)) : Prop :=
  Valid (fst R) /\ outcome_ok s R r.

Lemma set_focus_good s its idx evs :
  (its <> [] -> 0 <= idx < zlen its) ->
  Valid (fst (set_focus its (focus_raw s) idx evs)) /\
  items (fst (set_focus its (focus_raw s) idx evs)) = its /\
  o_err (snd (set_focus its (focus_raw s) idx evs)) = None.
Proof.
  intros H. unfold set_focus. destruct its as [|x r].
  - cbn. split; [left; split; reflexivity | split; reflexivity].
  - specialize (H ltac:(discriminate)).
    assert (Hc : (idx <? 0) || (zlen (x :: r) <=? idx) = false) by lia. rewrite Hc.
    destruct (negb (idx =? focus_raw s)); cbn; (split; [right; assumption | split; reflexivity]).
Qed.

Lemma finish_good s f' r :
  Valid s ->
  (forall its', r = Ok its' -> its' <> [] -> 0 <= f' < zlen its') ->
  step_good s (finish s f' r) r.
Proof.
  intros Hv0 H. unfold step_good, outcome_ok, finish. destruct r as [its'|e].
  - destruct (set_focus_good s its' f' [Modified] (H its' eq_refl)) as (Hv & Hi & He).
    split; [exact Hv | split; assumption].
  - cbn [fail fst snd o_err o_events]. split; [exact Hv0 | repeat split; reflexivity].
Qed.

Lemma valid_focus_nonneg s : Valid s -> 0 <= focus_raw s.
Proof. intros [[_ H]|H]; lia. Qed.

Lemma nonempty_zlen {A} (l : list A) : l <> [] -> 1 <= zlen l.
Proof. destruct l; [congruence|]. intros _. rewrite zlen_cons. pose proof (zlen_nonneg l). lia. Qed.

(* generic obligation: the adjusted focus is in range of a list of the predicted length *)
Lemma adjust_in_range s a b st k (its' : list Z) s0 e0 t0 :
  Valid s -> 0 <= k -> step_is_zero st = false ->
  slice_indices (zlen (items s)) a b st = (s0, e0, t0) ->
  zlen its' = zlen (items s) + k - range_len s0 e0 t0 ->
  its' <> [] ->
  0 <= adjust_focus_gen (zlen (items s)) (focus_raw s) a b st k < zlen its'.
Proof.
  intros Hv Hk Hz Hs Hlen Hne. rewrite adjust_focus_gen_spec.
  pose proof (nonempty_zlen its' Hne) as H1.
  pose proof (adjust_spec_range (zlen (items s)) (focus_raw s) a b st k s0 e0 t0
                (zlen_nonneg _) (valid_focus_nonneg s Hv) Hk Hz Hs ltac:(lia)). lia.
Qed.

Lemma zlen_del_at {A} (l : list A) j : 0 <= j < zlen l ->
  zlen (takez j l ++ dropz (j + 1) l) = zlen l - 1.
Proof. intros. rewrite zlen_app, zlen_takez, zlen_dropz by lia. lia. Qed.

Lemma zlen_set_at {A} (l : list A) j x : 0 <= j < zlen l ->
  zlen (takez j l ++ x :: dropz (j + 1) l) = zlen l.
Proof. intros. rewrite zlen_app, zlen_cons, zlen_takez, zlen_dropz by lia. lia. Qed.

Lemma zlen_insert {A} (l : list A) i x : zlen (insert l i x) = zlen l + 1.
Proof.
  unfold insert, insert_pos. pose proof (zlen_nonneg l).
  destruct (i <? 0) eqn:Hi; rewrite zlen_app, zlen_cons, zlen_takez, zlen_dropz by lia; lia.
Qed.

Lemma succ_or_none_eq y : succ_or_none y = (if y + 1 =? 0 then None else Some (y + 1)).
Proof. reflexivity. Qed.

(* ---------- one step preserves validity; a failed call changes nothing ---------- *)
Theorem step_sound s o : Valid s -> step_good s (step s o) (list_step (items s) o).
Proof.
  intros Hv. pose proof (zlen_nonneg (items s)) as Hn.
  destruct o as [y|i x|a b st|a b st xs|i x|x|xs|i|x| |rv|xs|k| |i]; cbn [step list_step].
  - (* DelItem *)
    apply finish_good; [exact Hv|]. intros its' Hr Hne. unfold del_index in Hr.
    destruct (index_ok (zlen (items s)) (norm_index (zlen (items s)) y)) eqn:Hok; [|discriminate].
    injection Hr as <-. rewrite succ_or_none_eq.
    eapply adjust_in_range; eauto using slice_single; try lia; try reflexivity.
    rewrite range_len_1. unfold index_ok in Hok. rewrite zlen_del_at by lia. lia.
  - (* SetItem *)
    apply finish_good; [exact Hv|]. intros its' Hr Hne. unfold set_index in Hr.
    destruct (index_ok (zlen (items s)) (norm_index (zlen (items s)) i)) eqn:Hok; [|discriminate].
    injection Hr as <-. rewrite succ_or_none_eq.
    eapply adjust_in_range; eauto using slice_single; try lia; try reflexivity.
    rewrite range_len_1. unfold index_ok in Hok. rewrite zlen_set_at by lia. lia.
  - (* DelSlice *)
    destruct (step_is_zero st) eqn:Hz.
    + unfold del_slice. rewrite Hz. split; [exact Hv | repeat split; reflexivity].
    + apply finish_good; [exact Hv|]. intros its' Hr Hne.
      destruct (slice_indices (zlen (items s)) a b st) as [[s0 e0] t0] eqn:Hs.
      eapply adjust_in_range; eauto; try lia.
      rewrite (zlen_del_slice _ _ _ _ _ _ _ _ Hr Hs). lia.
  - (* SetSlice *)
    destruct (step_is_zero st) eqn:Hz.
    + unfold set_slice. rewrite Hz. split; [exact Hv | repeat split; reflexivity].
    + apply finish_good; [exact Hv|]. intros its' Hr Hne.
      destruct (slice_indices (zlen (items s)) a b st) as [[s0 e0] t0] eqn:Hs.
      eapply adjust_in_range; eauto; try apply zlen_nonneg.
      rewrite (zlen_set_slice _ _ _ _ _ _ _ _ _ Hr Hs). lia.
  - (* Insert *)
    apply finish_good; [exact Hv|]. intros its' Hr Hne. injection Hr as <-.
    destruct (slice_indices (zlen (items s)) (Some i) (Some i) None) as [[s0 e0] t0] eqn:Hs.
    destruct (slice_same _ _ _ _ _ Hs) as [-> ->].
    eapply adjust_in_range; eauto; try lia; try reflexivity.
    rewrite range_len_1, zlen_insert. lia.
  - (* Append *)
    apply finish_good; [exact Hv|]. intros its' Hr Hne. injection Hr as <-.
    destruct (slice_indices (zlen (items s)) (Some (zlen (items s))) (Some (zlen (items s))) None) as [[s0 e0] t0] eqn:Hs.
    destruct (slice_same _ _ _ _ _ Hs) as [-> ->].
    eapply adjust_in_range; eauto; try lia; try reflexivity.
    rewrite range_len_1, zlen_app, zlen_cons, zlen_nil. lia.
  - (* Extend *)
    apply finish_good; [exact Hv|]. intros its' Hr Hne. injection Hr as <-.
    destruct (slice_indices (zlen (items s)) (Some (zlen (items s))) (Some (zlen (items s))) None) as [[s0 e0] t0] eqn:Hs.
    destruct (slice_same _ _ _ _ _ Hs) as [-> ->].
    eapply adjust_in_range; eauto; try apply zlen_nonneg; try reflexivity.
    rewrite range_len_1, zlen_app. lia.
  - (* Pop *)
    apply finish_good; [exact Hv|]. intros its' Hr Hne. unfold pop in Hr.
    destruct (index_ok (zlen (items s)) (norm_index (zlen (items s)) i)) eqn:Hok; [|discriminate].
    destruct (nthz (items s) (norm_index (zlen (items s)) i)); [|discriminate].
    injection Hr as <-. rewrite succ_or_none_eq.
    eapply adjust_in_range; eauto using slice_single; try lia; try reflexivity.
    rewrite range_len_1. unfold index_ok in Hok. rewrite zlen_del_at by lia. lia.
  - (* Remove *)
    destruct (index_of (items s) x) as [j|] eqn:Hj.
    + apply finish_good; [exact Hv|]. intros its' Hr Hne. unfold remove_val in Hr. rewrite Hj in Hr.
      injection Hr as <-. unfold index_of in Hj. apply index_from_bounds in Hj.
      assert (Hok : index_ok (zlen (items s)) (norm_index (zlen (items s)) j) = true).
      { unfold index_ok, norm_index. assert (Hc : (j <? 0) = false) by lia. rewrite Hc. lia. }
      assert (Hnj : norm_index (zlen (items s)) j = j).
      { unfold norm_index. assert (Hc : (j <? 0) = false) by lia. rewrite Hc. reflexivity. }
      rewrite succ_or_none_eq.
      eapply adjust_in_range; eauto using slice_single; try lia; try reflexivity.
      rewrite range_len_1, Hnj, zlen_del_at by lia. lia.
    + unfold remove_val. rewrite Hj. split; [exact Hv | repeat split; reflexivity].
  - (* Reverse *)
    unfold step_good, outcome_ok.
    destruct (set_focus_good s (rev (items s)) (Z.max 0 (zlen (items s) - focus_raw s - 1)) [Modified]) as (H1 & H2 & H3).
    { intros Hne. rewrite zlen_rev. destruct Hv as [[He _]|Hr]; [rewrite He in Hne; cbn in Hne; congruence | lia]. }
    split; [exact H1 | split; assumption].
  - (* Sort *)
    destruct (items s) as [|x0 r0] eqn:Hits.
    + split; [exact Hv|]. unfold outcome_ok. cbn [fst snd o_err items]. rewrite Hits.
      split; [destruct rv; reflexivity | reflexivity].
    + rewrite <- Hits in *.
      destruct (nthz (items s) (focus_raw s)) as [v|] eqn:Hnth.
      2:{ exfalso. destruct Hv as [[He _]|Hr]; [rewrite He in Hits; discriminate|].
          unfold nthz in Hnth. assert (Hc : (focus_raw s <? 0) = false) by lia. rewrite Hc in Hnth.
          apply nth_error_None in Hnth. unfold zlen in Hr. lia. }
      assert (Hin : In v (sort_list rv (items s))).
      { apply nthz_in in Hnth. unfold sort_list. destruct rv; apply sort_by_in; exact Hnth. }
      destruct (index_of (sort_list rv (items s)) v) as [j|] eqn:Hj.
      2:{ exfalso. unfold index_of in Hj. revert Hj. apply index_from_in. exact Hin. }
      unfold step_good, outcome_ok.
      destruct (set_focus_good s (sort_list rv (items s)) j [Modified]) as (H1 & H2 & H3).
      { intros _. unfold index_of in Hj. apply index_from_bounds in Hj. lia. }
      split; [exact H1 | split; assumption].
  - (* IAdd *)
    unfold step_good, outcome_ok. cbn [fst snd o_err items]. split; [|split; reflexivity].
    unfold Valid. cbn [items focus_raw]. rewrite zlen_app. pose proof (zlen_nonneg xs) as Hx.
    destruct Hv as [[He Hf]|Hr].
    + rewrite He, Hf. cbn [app]. destruct xs as [|x1 xr]; [left; split; reflexivity|].
      right. rewrite zlen_cons. pose proof (zlen_nonneg xr). cbn. lia.
    + right. lia.
  - (* IMul *)
    destruct (0 <? k) eqn:Hk.
    + apply finish_good; [exact Hv|]. intros its' Hr Hne. injection Hr as <-.
      destruct (slice_indices (zlen (items s)) (Some (zlen (items s))) (Some (zlen (items s))) None) as [[s0 e0] t0] eqn:Hs.
      destruct (slice_same _ _ _ _ _ Hs) as [-> ->].
      eapply adjust_in_range; eauto; try nia; try reflexivity.
      rewrite range_len_1. unfold imul. assert (Hc : (k <=? 0) = false) by lia. rewrite Hc.
      rewrite zlen_repeat_list. rewrite Z2Nat.id by lia. lia.
    + apply finish_good; [exact Hv|]. intros its' Hr Hne. injection Hr as <-.
      unfold imul in Hne. assert (Hc : (k <=? 0) = true) by lia. rewrite Hc in Hne. congruence.
  - (* Clear *)
    apply finish_good; [exact Hv|]. intros its' Hr Hne. injection Hr as <-. congruence.
  - (* SetFocus *)
    unfold step_good, outcome_ok, set_focus.
    destruct (items s) as [|x0 r0] eqn:Hits.
    + cbn [fst snd o_err items]. split; [left; split; reflexivity | split; reflexivity].
    + destruct ((i <? 0) || (zlen (x0 :: r0) <=? i)) eqn:Hc.
      * cbn [fst snd o_err o_events]. rewrite <- Hits. destruct s; cbn in *. split; [exact Hv | repeat split; reflexivity].
      * destruct (negb (i =? focus_raw s)); cbn [fst snd o_err items];
          (split; [right; cbn [items focus_raw]; lia | split; reflexivity]).
Qed.

(* ---------- every reachable state ---------- *)
Lemma run_app s ops1 ops2 :
  run s (ops1 ++ ops2) =
  let '(s1, o1) := run s ops1 in let '(s2, o2) := run s1 ops2 in (s2, o1 ++ o2).
Proof.
  unfold run. rewrite fold_left_app.
  generalize (fold_left
       (fun (acc : state * list (out * option Z)) (o : op) =>
        let '(s0, outs) := acc in let '(s', ou) := step s0 o in (s', outs ++ [(ou, focus s')])) ops1
       (s, [])). intros [s1 o1].
  revert s1 o1. induction ops2 as [|o ops2 IH]; intros s1 o1; cbn [fold_left].
  - rewrite app_nil_r. reflexivity.
  - destruct (step s1 o) as [s' ou]. rewrite IH. rewrite (IH s' ([] ++ [(ou, focus s')])).
    destruct (fold_left _ ops2 (s', [])) as [s2 o2]. cbn [app]. rewrite <- app_assoc. reflexivity.
Qed.

Lemma run_cons s o ops :
  run s (o :: ops) =
  let '(s1, ou) := step s o in let '(s2, o2) := run s1 ops in (s2, (ou, focus s1) :: o2).
Proof.
  change (o :: ops) with ([o] ++ ops). rewrite run_app. unfold run at 1. cbn [fold_left].
  destruct (step s o) as [s1 ou]. cbn [app]. destruct (run s1 ops) as [s2 o2]. reflexivity.
Qed.

Theorem run_preserves ops : forall s, Valid s -> Valid (fst (run s ops)).
Proof.
  induction ops as [|o ops IH]; intros s Hv; [exact Hv|].
  rewrite run_cons. pose proof (step_sound s o Hv) as [Hv1 _].
  destruct (step s o) as [s1 ou]. cbn [fst] in Hv1. specialize (IH s1 Hv1).
  destruct (run s1 ops) as [s2 o2]. exact IH.
Qed.

(* the observable focus: None exactly when empty, otherwise a valid index *)
Lemma valid_focus_observable s : Valid s ->
  match focus s with
  | None => items s = []
  | Some f => items s <> [] /\ 0 <= f < zlen (items s)
  end.
Proof.
  unfold focus. intros [[He Hf]|Hr].
  - rewrite He. reflexivity.
  - destruct (items s) eqn:E; [cbn in Hr; lia|]. split; [discriminate|exact Hr].
Qed.


(* ---------- callbacks ---------- *)
Definition is_modified (e : event) : bool := match e with Modified => true | _ => false end.
Definition n_modified (evs : list event) : nat := length (filter is_modified evs).
Definition focus_events (evs : list event) : list Z :=
  flat_map (fun e => match e with FocusChanged n => [n] | _ => [] end) evs.

Inductive shape (s : state) : state * out -> Prop :=
  | sh_fail e : shape s (fail s e)
  | sh_mut its' idx : shape s (set_focus its' (focus_raw s) idx [Modified])
  | sh_setfocus idx : shape s (set_focus (items s) (focus_raw s) idx [])
  | sh_iadd xs : shape s (St (items s ++ xs) (focus_raw s), Out None [Modified])
  | sh_noop : items s = [] -> shape s (s, Out None [])
  | sh_sorterr l' : shape s (St l' (focus_raw s), Out (Some ValueError) [Modified]).

Lemma step_shape s o : shape s (step s o).
Proof.
  destruct o; cbn [step]; unfold finish;
    repeat match goal with
           | |- shape _ (match ?r with _ => _ end) => destruct r eqn:?
           | |- shape _ (if ?c then _ else _) => destruct c eqn:?
           end; try constructor.
  assumption.
Qed.

Lemma set_focus_events its old idx evs :
  its <> [] -> 0 <= idx < zlen its ->
  set_focus its old idx evs =
  (St its idx, Out None (evs ++ (if idx =? old then [] else [FocusChanged idx]))).
Proof.
  intros Hne Hr. unfold set_focus. destruct its as [|x r]; [congruence|].
  assert (Hc : (idx <? 0) || (zlen (x :: r) <=? idx) = false) by lia. rewrite Hc.
  destruct (idx =? old) eqn:E; cbn [negb]; [rewrite app_nil_r|]; reflexivity.
Qed.

Lemma set_focus_empty old idx evs : set_focus [] old idx evs = (St [] 0, Out None evs).
Proof. reflexivity. Qed.

Lemma n_modified_app a b : n_modified (a ++ b) = (n_modified a + n_modified b)%nat.
Proof. unfold n_modified. rewrite filter_app, app_length. reflexivity. Qed.

Lemma focus_events_app a b : focus_events (a ++ b) = focus_events a ++ focus_events b.
Proof. unfold focus_events. apply flat_map_app. Qed.

Theorem step_callbacks s o : Valid s ->
  let R := step s o in
  (* never for a failed call *)
  (o_err (snd R) <> None -> o_events (snd R) = []) /\
  (* at most once; exactly once when the contents changed *)
  (n_modified (o_events (snd R)) <= 1)%nat /\
  (o_err (snd R) = None -> items (fst R) <> items s -> n_modified (o_events (snd R)) = 1%nat) /\
  (* focus-changed fires exactly when the focus index changes, with the new index *)
  (forall a b, o_err (snd R) = None -> focus s = Some a -> focus (fst R) = Some b ->
     focus_events (o_events (snd R)) = if b =? a then [] else [b]).
Proof.
  intros Hv R. pose proof (step_sound s o Hv) as [Hv' Hout]. fold R in Hv', Hout.
  pose proof (step_shape s o) as Hsh. fold R in Hsh.
  assert (Herr : o_err (snd R) <> None -> o_events (snd R) = []).
  { intro Hne. unfold outcome_ok in Hout. destruct (list_step (items s) o).
    - destruct Hout as [_ Hn]. congruence.
    - tauto. }
  split; [exact Herr|].
  destruct Hsh as [e | its' idx | idx | xs | Hnil | l'].
  - cbn. repeat split; try lia; try congruence; intros a b He; discriminate.
  - (* a mutator followed by the focus setter *)
    destruct its' as [|x r].
    + rewrite set_focus_empty. cbn. repeat split; try lia. intros a b _ _ Hb. discriminate.
    + destruct ((idx <? 0) || (zlen (x :: r) <=? idx)) eqn:Hc.
      * (* setter failure: has an error, so events must be [] by Herr: impossible *)
        exfalso. unfold set_focus in Herr. rewrite Hc in Herr. cbn in Herr.
        specialize (Herr ltac:(discriminate)). discriminate.
      * rewrite set_focus_events by (try discriminate; lia).
        cbn [fst snd o_err o_events items]. rewrite n_modified_app, focus_events_app.
        destruct (idx =? focus_raw s) eqn:E; cbn; repeat split; try lia.
        -- intros a b _ Ha Hb. unfold focus in Ha, Hb. cbn in Hb.
           destruct (items s); [discriminate|]. injection Ha as <-. injection Hb as <-. rewrite E. reflexivity.
        -- intros a b _ Ha Hb. unfold focus in Ha, Hb. cbn in Hb.
           destruct (items s); [discriminate|]. injection Ha as <-. injection Hb as <-. rewrite E. reflexivity.
  - (* the focus setter alone *)
    destruct (items s) as [|x r] eqn:Hits.
    + rewrite set_focus_empty. cbn. repeat split; try lia;
        try (intros _ C; exfalso; apply C; reflexivity);
        try (intros a b _ Ha; unfold focus in Ha; rewrite Hits in Ha; discriminate).
    + destruct ((idx <? 0) || (zlen (x :: r) <=? idx)) eqn:Hc.
      * unfold set_focus. rewrite Hc. cbn. repeat split; try lia; try congruence;
          intros a b C; discriminate.
      * rewrite set_focus_events by (try discriminate; lia).
        cbn [fst snd o_err o_events items app]. unfold n_modified, focus_events.
        destruct (idx =? focus_raw s) eqn:E; cbn; repeat split; try lia; try congruence;
          (intros a b _ Ha Hb; unfold focus in Ha, Hb; cbn in Hb; rewrite Hits in Ha;
           injection Ha as <-; injection Hb as <-; rewrite E; reflexivity).
  - (* in-place concatenation: focus untouched *)
    cbn. repeat split; try lia. intros a b _ Ha Hb. unfold focus in Ha, Hb. cbn in Hb.
    destruct (items s) as [|x r]; [discriminate|]. cbn in Hb. injection Ha as <-. injection Hb as <-.
    rewrite Z.eqb_refl. reflexivity.
  - cbn. repeat split; try lia;
      try (intros _ C; exfalso; apply C; reflexivity);
      try (intros a b _ Ha; unfold focus in Ha; rewrite Hnil in Ha; discriminate).
  - cbn in Herr. specialize (Herr ltac:(discriminate)). discriminate.
Qed.

(* ---------- the focus follows its item (contiguous operations) ---------- *)
(* every operation that removes one contiguous block [p,q) and inserts xs at p *)
Definition splice_of (l : list Z) (o : op) : option (Z * Z * list Z) :=
  let n := zlen l in
  match o with
  | DelItem y | Pop y =>
      let j := norm_index n y in if index_ok n j then Some (j, j + 1, []) else None
  | SetItem i x =>
      let j := norm_index n i in if index_ok n j then Some (j, j + 1, [x]) else None
  | DelSlice a b st =>
      if step_is_zero st then None else
      let '(s, e, t) := slice_indices n a b st in
      if t =? 1 then Some (s, Z.max s e, []) else None
  | SetSlice a b st xs =>
      if step_is_zero st then None else
      let '(s, e, t) := slice_indices n a b st in
      if t =? 1 then Some (s, Z.max s e, xs) else None
  | Insert i x => Some (insert_pos n i, insert_pos n i, [x])
  | Append x => Some (n, n, [x])
  | Extend xs | IAdd xs => Some (n, n, xs)
  | Remove x => match index_of l x with Some j => Some (j, j + 1, []) | None => None end
  | IMul k => if 0 <? k then Some (n, n, repeat_list (Z.to_nat (k - 1)) l) else Some (0, n, [])
  | Clear => Some (0, n, [])
  | Reverse | Sort _ | SetFocus _ => None
  end.

Definition contig_focus (n f p q k : Z) : Z :=
  Z.min (if (p + k <=? f) && (f <? q) then p + k
         else if q <=? f then f + k - (q - p) else f)
        (n + k - (q - p) - 1).

Lemma adjust_contig n f a b st k p q0 :
  slice_indices n a b st = (p, q0, 1) ->
  adjust_focus_gen n f a b st k = contig_focus n f p (Z.max p q0) k.
Proof.
  intros Hs. rewrite adjust_focus_gen_spec. unfold adjust_spec, contig_focus, norm_range.
  rewrite Hs. cbv beta iota zeta. change (1 <? 0) with false. cbv beta iota zeta.
  change (1 =? 1) with true. cbv beta iota zeta. rewrite range_len_1.
  destruct ((p + k <=? f) && (f <? Z.max p q0)) eqn:Hc.
  - assert (Hc2 : (Z.max p q0 <=? Z.max p q0) = true) by lia. rewrite Hc2. f_equal; lia.
  - destruct (Z.max p q0 <=? f) eqn:Hc2; f_equal; lia.
Qed.

Lemma finish_focus s F l' :
  l' <> [] -> o_err (snd (finish s F (Ok l'))) = None ->
  focus_raw (fst (finish s F (Ok l'))) = F.
Proof.
  unfold finish, set_focus. intros Hne. destruct l' as [|x r]; [congruence|].
  destruct ((F <? 0) || (zlen (x :: r) <=? F)); cbn; [discriminate|].
  destruct (negb (F =? focus_raw s)); reflexivity.
Qed.

(* what "follows its item" means for a splice: l' = l[:p] + xs + l[q:], k = len xs *)
Definition tracks (l : list Z) (f : Z) (l' : list Z) (f' p q k : Z) : Prop :=
  ((f < p \/ q <= f) -> nthz l' f' = nthz l f) /\
  (p <= f < Z.min q (p + k) -> f' = f) /\
  (p + k <= f < q ->
     if q <? zlen l then nthz l' f' = nthz l q else f' = zlen l' - 1).

Lemma tracks_contig (l xs : list Z) f p q :
  0 <= p <= q -> q <= zlen l -> 0 <= f < zlen l -> splice l p q xs <> [] ->
  tracks l f (splice l p q xs) (contig_focus (zlen l) f p q (zlen xs)) p q (zlen xs).
Proof.
  intros Hp Hq Hf Hne. pose proof (zlen_nonneg xs) as Hk.
  pose proof (nonempty_zlen _ Hne) as Hlen. rewrite zlen_splice in Hlen by lia.
  unfold tracks, contig_focus. repeat split.
  - intros Hcase.
    assert (Hc : (p + zlen xs <=? f) && (f <? q) = false) by lia. rewrite Hc.
    destruct (q <=? f) eqn:Hqf.
    + replace (Z.min (f + zlen xs - (q - p)) (zlen l + zlen xs - (q - p) - 1))
        with (f + zlen xs - (q - p)) by lia.
      rewrite nthz_splice by lia.
      assert (H1 : (f + zlen xs - (q - p) <? p) = false) by lia.
      assert (H2 : (f + zlen xs - (q - p) <? p + zlen xs) = false) by lia.
      rewrite H1, H2. f_equal. lia.
    + replace (Z.min f (zlen l + zlen xs - (q - p) - 1)) with f by lia.
      rewrite nthz_splice by lia. assert (H1 : (f <? p) = true) by lia. rewrite H1. reflexivity.
  - intros Hcase.
    assert (Hc : (p + zlen xs <=? f) && (f <? q) = false) by lia. rewrite Hc.
    assert (Hqf : (q <=? f) = false) by lia. rewrite Hqf. lia.
  - intros Hcase.
    assert (Hc : (p + zlen xs <=? f) && (f <? q) = true) by lia. rewrite Hc.
    destruct (q <? zlen l) eqn:Hql.
    + replace (Z.min (p + zlen xs) (zlen l + zlen xs - (q - p) - 1)) with (p + zlen xs) by lia.
      rewrite nthz_splice by lia.
      assert (H1 : (p + zlen xs <? p) = false) by lia.
      assert (H2 : (p + zlen xs <? p + zlen xs) = false) by lia.
      rewrite H1, H2. f_equal. lia.
    + rewrite zlen_splice by lia. lia.
Qed.

Theorem step_splice s o p q xs :
  Valid s -> items s <> [] -> splice_of (items s) o = Some (p, q, xs) ->
  0 <= p <= q /\ q <= zlen (items s) /\
  items (fst (step s o)) = splice (items s) p q xs /\
  (splice (items s) p q xs <> [] ->
     focus_raw (fst (step s o)) = contig_focus (zlen (items s)) (focus_raw s) p q (zlen xs)).
Proof.
  intros Hv Hne Hsp.
  pose proof (step_sound s o Hv) as [_ Hout]. unfold outcome_ok in Hout.
  pose proof (zlen_nonneg (items s)) as Hn.
  assert (Hfr : 0 <= focus_raw s < zlen (items s)).
  { destruct Hv as [[He _]|Hr]; [congruence | exact Hr]. }
  set (l := items s) in *. set (n := zlen l) in *. set (f := focus_raw s) in *.
  destruct o as [y|i x|a b st|a b st ys|i x|x|ys|y|x| |rv|ys|k| |i];
    cbn [splice_of] in Hsp; fold n in Hsp; cbn [step list_step] in *; fold l n f in Hout |- *;
    try discriminate.
  - (* DelItem *)
    destruct (index_ok n (norm_index n y)) eqn:Hok; [|discriminate]. injection Hsp as <- <- <-.
    unfold del_index in *. fold n in Hout |- *. rewrite Hok in *.
    change (takez (norm_index n y) l ++ dropz (norm_index n y + 1) l) with (splice l (norm_index n y) (norm_index n y + 1) []) in *.
    destruct Hout as [Hi He].
    unfold index_ok in Hok. repeat split; try lia; [exact Hi|]. intros Hne'.
    rewrite (finish_focus s _ _ Hne' He), succ_or_none_eq.
    rewrite (adjust_contig _ _ _ _ _ _ _ _ (slice_single n y ltac:(unfold index_ok; lia))).
    f_equal; lia.
  - (* SetItem *)
    destruct (index_ok n (norm_index n i)) eqn:Hok; [|discriminate]. injection Hsp as <- <- <-.
    unfold set_index in *. fold n in Hout |- *. rewrite Hok in *.
    change (takez (norm_index n i) l ++ x :: dropz (norm_index n i + 1) l) with (splice l (norm_index n i) (norm_index n i + 1) [x]) in *.
    destruct Hout as [Hi He].
    unfold index_ok in Hok. repeat split; try lia; [exact Hi|]. intros Hne'.
    rewrite (finish_focus s _ _ Hne' He), succ_or_none_eq.
    rewrite (adjust_contig _ _ _ _ _ _ _ _ (slice_single n i ltac:(unfold index_ok; lia))).
    f_equal; lia.
  - (* DelSlice *)
    destruct (step_is_zero st) eqn:Hz; [discriminate|].
    destruct (slice_indices n a b st) as [[s0 e0] t0] eqn:Hs.
    destruct (t0 =? 1) eqn:Ht; [|discriminate]. assert (t0 = 1) by lia. subst t0.
    injection Hsp as <- <- <-.
    destruct (slice_indices_pos _ _ _ _ _ _ _ Hn Hs ltac:(lia)) as [Hsr Her].
    unfold del_slice in *. fold n in Hout |- *. rewrite Hz, Hs in *. change (1 =? 1) with true in *. cbv iota in *.
    change (takez s0 l ++ dropz (Z.max s0 e0) l) with (splice l s0 (Z.max s0 e0) []) in *.
    destruct Hout as [Hi He]. repeat split; try lia; [exact Hi|]. intros Hne'.
    rewrite (finish_focus s _ _ Hne' He). rewrite (adjust_contig _ _ _ _ _ _ _ _ Hs). reflexivity.
  - (* SetSlice *)
    destruct (step_is_zero st) eqn:Hz; [discriminate|].
    destruct (slice_indices n a b st) as [[s0 e0] t0] eqn:Hs.
    destruct (t0 =? 1) eqn:Ht; [|discriminate]. assert (t0 = 1) by lia. subst t0.
    injection Hsp as <- <- <-.
    destruct (slice_indices_pos _ _ _ _ _ _ _ Hn Hs ltac:(lia)) as [Hsr Her].
    unfold set_slice in *. fold n in Hout |- *. rewrite Hz, Hs in *. change (1 =? 1) with true in *. cbv iota in *.
    change (takez s0 l ++ ys ++ dropz (Z.max s0 e0) l) with (splice l s0 (Z.max s0 e0) ys) in *.
    destruct Hout as [Hi He]. repeat split; try lia; [exact Hi|]. intros Hne'.
    rewrite (finish_focus s _ _ Hne' He). rewrite (adjust_contig _ _ _ _ _ _ _ _ Hs). reflexivity.
  - (* Insert *)
    injection Hsp as <- <- <-.
    change (insert l i x) with (splice l (insert_pos n i) (insert_pos n i) [x]) in *.
    destruct Hout as [Hi He].
    assert (Hip : 0 <= insert_pos n i <= n) by (unfold insert_pos; destruct (i <? 0) eqn:?; lia).
    repeat split; try lia; [exact Hi|]. intros Hne'.
    rewrite (finish_focus s _ _ Hne' He). rewrite (adjust_contig _ _ _ _ _ _ _ _ (slice_insert n i Hn)).
    f_equal; lia.
  - (* Append *)
    injection Hsp as <- <- <-. destruct Hout as [Hi He].
    assert (Hl : l ++ [x] = splice l n n [x]).
    { unfold splice. rewrite takez_all, dropz_all by (fold n; lia). reflexivity. }
    rewrite Hl in *. repeat split; try lia; [exact Hi|]. intros Hne'.
    rewrite (finish_focus s _ _ Hne' He). rewrite (adjust_contig _ _ _ _ _ _ _ _ (slice_insert n n Hn)).
    unfold insert_pos. assert (Hc : (n <? 0) = false) by lia. rewrite Hc.
    replace (Z.min n n) with n by lia. f_equal; lia.
  - (* Extend *)
    injection Hsp as <- <- <-. destruct Hout as [Hi He].
    assert (Hl : l ++ ys = splice l n n ys).
    { unfold splice. rewrite takez_all, dropz_all by (fold n; lia). rewrite app_nil_r. reflexivity. }
    rewrite Hl in *. repeat split; try lia; [exact Hi|]. intros Hne'.
    rewrite (finish_focus s _ _ Hne' He). rewrite (adjust_contig _ _ _ _ _ _ _ _ (slice_insert n n Hn)).
    unfold insert_pos. assert (Hc : (n <? 0) = false) by lia. rewrite Hc.
    replace (Z.min n n) with n by lia. f_equal; lia.
  - (* Pop *)
    destruct (index_ok n (norm_index n y)) eqn:Hok; [|discriminate]. injection Hsp as <- <- <-.
    unfold pop in *. fold n in Hout |- *. rewrite Hok in *.
    destruct (nthz l (norm_index n y)) as [v|] eqn:Hnth.
    2:{ exfalso. unfold index_ok in Hok. unfold nthz in Hnth.
        assert (Hc : (norm_index n y <? 0) = false) by lia. rewrite Hc in Hnth.
        apply nth_error_None in Hnth. subst n. unfold zlen in *. lia. }
    change (takez (norm_index n y) l ++ dropz (norm_index n y + 1) l) with (splice l (norm_index n y) (norm_index n y + 1) []) in *.
    destruct Hout as [Hi He].
    unfold index_ok in Hok. repeat split; try lia; [exact Hi|]. intros Hne'.
    rewrite (finish_focus s _ _ Hne' He), succ_or_none_eq.
    rewrite (adjust_contig _ _ _ _ _ _ _ _ (slice_single n y ltac:(unfold index_ok; lia))).
    f_equal; lia.
  - (* Remove *)
    destruct (index_of l x) as [j|] eqn:Hj; [|discriminate]. injection Hsp as <- <- <-.
    unfold remove_val in *. rewrite Hj in *.
    change (takez j l ++ dropz (j + 1) l) with (splice l j (j + 1) []) in *.
    destruct Hout as [Hi He].
    unfold index_of in Hj. pose proof (index_from_bounds _ _ _ _ Hj) as Hb. fold n in Hb.
    assert (Hnj : norm_index n j = j).
    { unfold norm_index. assert (Hc : (j <? 0) = false) by lia. rewrite Hc. reflexivity. }
    repeat split; try lia; [exact Hi|]. intros Hne'.
    rewrite (finish_focus s _ _ Hne' He), succ_or_none_eq.
    rewrite (adjust_contig _ _ _ _ _ _ _ _ (slice_single n j ltac:(unfold index_ok; rewrite Hnj; lia))).
    rewrite Hnj. f_equal; lia.
  - (* IAdd *)
    injection Hsp as <- <- <-. destruct Hout as [Hi He]. cbn [fst items focus_raw] in *.
    assert (Hl : l ++ ys = splice l n n ys).
    { unfold splice. rewrite takez_all, dropz_all by (fold n; lia). rewrite app_nil_r. reflexivity. }
    pose proof (zlen_nonneg ys) as Hys.
    repeat split; try lia; [exact Hl|]. intros _. unfold contig_focus. fold f.
    assert (Hc : (n + zlen ys <=? f) && (f <? n) = false) by lia. rewrite Hc.
    assert (Hc2 : (n <=? f) = false) by lia. rewrite Hc2. lia.
  - (* IMul *)
    destruct (0 <? k) eqn:Hk.
    + injection Hsp as <- <- <-. destruct Hout as [Hi He].
      assert (Hl : imul l k = splice l n n (repeat_list (Z.to_nat (k - 1)) l)).
      { unfold splice, imul. assert (Hc : (k <=? 0) = false) by lia. rewrite Hc.
        rewrite takez_all, dropz_all by (fold n; lia). rewrite app_nil_r.
        replace (Z.to_nat k) with (S (Z.to_nat (k - 1))) by lia. reflexivity. }
      rewrite Hl in *. repeat split; try lia; [exact Hi|]. intros Hne'.
      rewrite (finish_focus s _ _ Hne' He). rewrite (adjust_contig _ _ _ _ _ _ _ _ (slice_insert n n Hn)).
      unfold insert_pos. assert (Hc : (n <? 0) = false) by lia. rewrite Hc.
      replace (Z.min n n) with n by lia.
      rewrite zlen_repeat_list. fold n. rewrite Z2Nat.id by lia. f_equal; lia.
    + injection Hsp as <- <- <-. destruct Hout as [Hi He].
      assert (Hl : imul l k = splice l 0 n []).
      { unfold splice, imul. assert (Hc : (k <=? 0) = true) by lia. rewrite Hc.
        rewrite takez_0, dropz_all by (fold n; lia). reflexivity. }
      rewrite Hl in *. repeat split; try lia; [exact Hi|]. intros Hne'. exfalso. apply Hne'.
      unfold splice. rewrite takez_0, dropz_all by (fold n; lia). reflexivity.
  - (* Clear *)
    injection Hsp as <- <- <-. destruct Hout as [Hi He].
    assert (Hl : [] = splice l 0 n []).
    { unfold splice. rewrite takez_0, dropz_all by (fold n; lia). reflexivity. }
    repeat split; try lia; [rewrite Hi; exact Hl|]. intros Hne'. exfalso. apply Hne'. symmetry. exact Hl.
Qed.

Theorem focus_tracks_contiguous s o p q xs :
  Valid s -> items s <> [] -> splice_of (items s) o = Some (p, q, xs) ->
  items (fst (step s o)) = splice (items s) p q xs /\
  (items (fst (step s o)) <> [] ->
   tracks (items s) (focus_raw s) (items (fst (step s o))) (focus_raw (fst (step s o))) p q (zlen xs)).
Proof.
  intros Hv Hne Hsp. destruct (step_splice s o p q xs Hv Hne Hsp) as (Hp & Hq & Hi & Hf).
  split; [exact Hi|]. rewrite Hi. intros Hne'. rewrite (Hf Hne').
  apply tracks_contig; try assumption.
  destruct Hv as [[He _]|Hr]; [congruence | exact Hr].
Qed.

(* reverse and sort keep the focus on its item *)
Theorem focus_tracks_reverse s : Valid s -> items s <> [] ->
  nthz (items (fst (step s Reverse))) (focus_raw (fst (step s Reverse))) = nthz (items s) (focus_raw s).
Proof.
  intros Hv Hne. assert (Hfr : 0 <= focus_raw s < zlen (items s)).
  { destruct Hv as [[He _]|Hr]; [congruence | exact Hr]. }
  cbn [step]. rewrite set_focus_events.
  2:{ intro C. apply Hne. apply (f_equal (@rev Z)) in C. rewrite rev_involutive in C. exact C. }
  2:{ rewrite zlen_rev. lia. }
  cbn [fst items focus_raw].
  replace (Z.max 0 (zlen (items s) - focus_raw s - 1)) with (zlen (items s) - focus_raw s - 1) by lia.
  unfold nthz.
  assert (Hc1 : (zlen (items s) - focus_raw s - 1 <? 0) = false) by lia.
  assert (Hc2 : (focus_raw s <? 0) = false) by lia. rewrite Hc1, Hc2.
  unfold zlen in *.
  destruct (nth_error (items s) (Z.to_nat (focus_raw s))) as [v|] eqn:Hn.
  - rewrite (nth_error_nth' _ v) by (rewrite rev_length; lia).
    rewrite rev_nth by lia. f_equal.
    replace (length (items s) - S (Z.to_nat (Z.of_nat (length (items s)) - focus_raw s - 1)))%nat
      with (Z.to_nat (focus_raw s)) by lia.
    apply nth_error_nth. exact Hn.
  - apply nth_error_None in Hn. lia.
Qed.

Theorem focus_tracks_sort s rv : Valid s -> items s <> [] ->
  nthz (items (fst (step s (Sort rv)))) (focus_raw (fst (step s (Sort rv)))) = nthz (items s) (focus_raw s).
Proof.
  intros Hv Hne. assert (Hfr : 0 <= focus_raw s < zlen (items s)).
  { destruct Hv as [[He _]|Hr]; [congruence | exact Hr]. }
  cbn [step]. destruct (items s) as [|x0 r0] eqn:Hits; [congruence|]. rewrite <- Hits in *.
  destruct (nthz (items s) (focus_raw s)) as [v|] eqn:Hnth.
  2:{ exfalso. unfold nthz in Hnth. assert (Hc : (focus_raw s <? 0) = false) by lia. rewrite Hc in Hnth.
      apply nth_error_None in Hnth. unfold zlen in Hfr. lia. }
  assert (Hin : In v (sort_list rv (items s))).
  { apply nthz_in in Hnth. unfold sort_list. destruct rv; apply sort_by_in; exact Hnth. }
  destruct (index_of (sort_list rv (items s)) v) as [j|] eqn:Hj.
  2:{ exfalso. unfold index_of in Hj. revert Hj. apply index_from_in. exact Hin. }
  unfold index_of in Hj. pose proof (index_from_bounds _ _ _ _ Hj) as Hb.
  rewrite set_focus_events; [| intro C; rewrite C in Hin; contradiction | lia].
  cbn [fst items focus_raw]. apply index_from_nth in Hj. replace (j - 0) with j in Hj by lia. exact Hj.
Qed.

(* ---------- the focus follows its item: slices with any step ---------- *)
Lemma in_range_norm x s0 e0 t0 s e t :
  t0 <> 0 -> norm_range s0 e0 t0 = (s, e, t) -> in_range x s0 e0 t0 = in_range x s e t.
Proof.
  unfold norm_range. intros Ht0 H.
  destruct (t0 <? 0) eqn:Hneg.
  - assert (Ht0n : t0 < 0) by lia. pose proof (range_len_nonneg s0 e0 t0 Ht0) as Hnn.
    destruct (range_len s0 e0 t0 =? 0) eqn:Hlen; injection H as <- <- <-.
    + rewrite in_range_neg_empty by lia. unfold in_range.
      assert (Hp : (0 <? - t0) = true) by lia. rewrite Hp.
      destruct (s0 <=? x) eqn:?, (x <? s0) eqn:?; cbn [andb]; try reflexivity; lia.
    + apply in_range_neg_norm; lia.
  - injection H as <- <- <-. unfold in_range. assert (Hp : (0 <? t0) = true) by lia. rewrite Hp.
    destruct (s0 <=? x) eqn:?, (x <? e0) eqn:?, (x <? Z.max s0 e0) eqn:?; cbn [andb]; try reflexivity; lia.
Qed.

Lemma range_len_norm_eq s0 e0 t0 s e t :
  t0 <> 0 -> norm_range s0 e0 t0 = (s, e, t) -> range_len s e t = range_len s0 e0 t0.
Proof.
  unfold norm_range. intros Ht0 H.
  destruct (t0 <? 0) eqn:Hneg.
  - assert (Ht0n : t0 < 0) by lia. pose proof (range_len_nonneg s0 e0 t0 Ht0) as Hnn.
    destruct (range_len s0 e0 t0 =? 0) eqn:Hlen; injection H as <- <- <-.
    + unfold range_len at 1. assert (Hp : (0 <? - t0) = true) by lia. rewrite Hp.
      assert (Hc : (s0 <? s0) = false) by lia. rewrite Hc. lia.
    + apply range_len_norm; lia.
  - injection H as <- <- <-. unfold range_len. assert (Hp : (0 <? t0) = true) by lia. rewrite Hp.
    destruct (s0 <? e0) eqn:H1.
    + replace (Z.max s0 e0) with e0 by lia. rewrite H1. reflexivity.
    + replace (Z.max s0 e0) with s0 by lia. assert (Hc : (s0 <? s0) = false) by lia. rewrite Hc. reflexivity.
Qed.

Definition next_kept (f e t : Z) : Z := if t =? 1 then e else f + 1.

Lemma in_range_t1 x s e : in_range x s e 1 = (s <=? x) && (x <? e).
Proof.
  unfold in_range. change (0 <? 1) with true. cbv iota. rewrite Z.mod_1_r.
  change (0 =? 0) with true. rewrite andb_true_r. reflexivity.
Qed.

Lemma next_kept_not_in_range f s e t : 0 < t -> in_range f s e t = true -> in_range (next_kept f e t) s e t = false.
Proof.
  intros Ht Hin. unfold next_kept. destruct (t =? 1) eqn:Ht1.
  - assert (t = 1) by lia. subst t. rewrite in_range_t1. lia.
  - unfold in_range in *. assert (Hp : (0 <? t) = true) by lia. rewrite Hp in *.
    apply andb_true_iff in Hin. destruct Hin as [Hin Hm]. apply Z.eqb_eq in Hm.
    assert (H1 : (f + 1 - s) mod t = 1).
    { replace (f + 1 - s) with ((f - s) + 1) by lia. rewrite Z.add_mod by lia. rewrite Hm.
      rewrite Z.add_0_l. rewrite Z.mod_mod by lia. apply Z.mod_small. lia. }
    rewrite H1. change (1 =? 0) with false. apply andb_false_r.
Qed.

(* the focus arithmetic for a deletion, in terms of the ascending range (s,e,t):
   F = g - (number of removed positions below g), g = the focus or the next kept position *)
Lemma adjust_core_delete s e t f :
  0 < t -> s <= e ->
  (if t =? 1 then
     if e <=? (if (s + 0 <=? f) && (f <? e) then e else f)
     then (if (s + 0 <=? f) && (f <? e) then e else f) + (0 - (e - s))
     else if (s + 0 <=? f) && (f <? e) then e else f
   else if 0 =? 0 then
     (if in_range f s e t then f + 1 else f) -
     range_len s (Z.min (if in_range f s e t then f + 1 else f) e) t
   else f)
  = let g := if in_range f s e t then next_kept f e t else f in g - range_len s (Z.min g e) t.
Proof.
  intros Ht Hse. cbv zeta. unfold next_kept.
  destruct (t =? 1) eqn:Ht1.
  - assert (t = 1) by lia. subst t. rewrite in_range_t1. replace (s + 0) with s by lia.
    destruct ((s <=? f) && (f <? e)) eqn:Hc.
    + assert (Hc2 : (e <=? e) = true) by lia. rewrite Hc2. rewrite range_len_1. lia.
    + rewrite range_len_1. destruct (e <=? f) eqn:Hc2; lia.
  - change (0 =? 0) with true. cbv iota. reflexivity.
Qed.

Lemma nthz_some_lt {A} (l : list A) i v : nthz l i = Some v -> 0 <= i < zlen l.
Proof.
  unfold nthz. destruct (i <? 0) eqn:Hi; [discriminate|]. intros H.
  assert (Hn : nth_error l (Z.to_nat i) <> None) by congruence.
  apply nth_error_Some in Hn. unfold zlen. lia.
Qed.

Lemma nthz_lt_some {A} (l : list A) i : 0 <= i < zlen l -> exists v, nthz l i = Some v.
Proof.
  intros H. unfold nthz. assert (Hi : (i <? 0) = false) by lia. rewrite Hi.
  destruct (nth_error l (Z.to_nat i)) eqn:E; [eauto|].
  apply nth_error_None in E. unfold zlen in H. lia.
Qed.

Theorem focus_tracks_delete_any_step s a b st s0 e0 t0 sn en tn :
  Valid s -> items s <> [] -> step_is_zero st = false ->
  slice_indices (zlen (items s)) a b st = (s0, e0, t0) -> t0 <> 1 ->
  norm_range s0 e0 t0 = (sn, en, tn) ->
  let l := items s in let f := focus_raw s in
  let l' := items (fst (step s (DelSlice a b st))) in
  let f' := focus_raw (fst (step s (DelSlice a b st))) in
  l' = drop_range 0 sn en tn l /\
  (l' <> [] ->
   (in_range f sn en tn = false -> nthz l' f' = nthz l f) /\
   (in_range f sn en tn = true ->
      if next_kept f en tn <? zlen l then nthz l' f' = nthz l (next_kept f en tn)
      else f' = zlen l' - 1)).
Proof.
  intros Hv Hne Hz Hs Ht1 Hnr. cbv zeta.
  pose proof (zlen_nonneg (items s)) as Hn.
  assert (Hfr : 0 <= focus_raw s < zlen (items s)).
  { destruct Hv as [[He _]|Hr]; [congruence | exact Hr]. }
  pose proof (slice_indices_step _ _ _ _ _ _ _ Hs Hz) as Ht0.
  destruct (norm_range_props _ _ _ _ _ _ Hnr Ht0) as (Htn & Hse & Hs1 & Hs2).
  { intro Hp. destruct (slice_indices_pos _ _ _ _ _ _ _ Hn Hs Hp). lia. }
  { intro Hq. destruct (slice_indices_neg _ _ _ _ _ _ _ Hn Hs Hq). lia. }
  (* upper end of the ascending range is inside the list *)
  assert (Hen : en <= zlen (items s)).
  { unfold norm_range in Hnr. destruct (t0 <? 0) eqn:Hneg.
    - destruct (slice_indices_neg _ _ _ _ _ _ _ Hn Hs ltac:(lia)) as [Hsr Her].
      destruct (range_len s0 e0 t0 =? 0); injection Hnr as <- <- <-; lia.
    - destruct (slice_indices_pos _ _ _ _ _ _ _ Hn Hs ltac:(lia)) as [Hsr Her].
      injection Hnr as <- <- <-. lia. }
  pose proof (step_sound s (DelSlice a b st) Hv) as [_ Hout]. unfold outcome_ok in Hout.
  cbn [step list_step] in *. rewrite Hz in *.
  assert (Hdel : del_slice (items s) a b st = Ok (drop_range 0 sn en tn (items s))).
  { unfold del_slice. rewrite Hz, Hs. assert (Hc : (t0 =? 1) = false) by lia. rewrite Hc.
    f_equal. apply drop_range_ext. intro x. apply in_range_norm; assumption. }
  rewrite Hdel in *. destruct Hout as [Hi He]. split; [exact Hi|]. rewrite Hi. intros Hne'.
  rewrite (finish_focus s _ _ Hne' He).
  rewrite adjust_focus_gen_spec. unfold adjust_spec. rewrite Hs, Hnr.
  rewrite (adjust_core_delete sn en tn (focus_raw s) Htn Hse). cbv zeta.
  pose proof (range_len_norm_eq _ _ _ _ _ _ Ht0 Hnr) as Hrl.
  assert (Hlen' : zlen (drop_range 0 sn en tn (items s)) = zlen (items s) - range_len s0 e0 t0).
  { exact (zlen_del_slice _ _ _ _ _ _ _ _ Hdel Hs). }
  assert (Hcnt0 : range_len sn (Z.min 0 en) tn = 0).
  { unfold range_len. assert (Hp : (0 <? tn) = true) by lia. rewrite Hp.
    destruct (sn <? Z.min 0 en) eqn:Hc; [|reflexivity]. exfalso.
    destruct (Z.eq_dec sn (-1)) as [Hm|Hm]; [specialize (Hs2 Hm)|]; lia. }
  (* position of a kept index g in the new list *)
  assert (Hpos : forall g, 0 <= g -> in_range g sn en tn = false ->
            nthz (drop_range 0 sn en tn (items s)) (g - range_len sn (Z.min g en) tn) = nthz (items s) g).
  { intros g Hg Hgr. pose proof (nthz_drop_range (items s) sn en tn Htn 0 g Hg Hgr) as P.
    rewrite Hcnt0 in P. replace (g - 0 - (range_len sn (Z.min g en) tn - 0)) with (g - range_len sn (Z.min g en) tn) in P by lia.
    replace (g - 0) with g in P by lia. exact P. }
  split.
  - intros Hin. rewrite Hin.
    pose proof (Hpos (focus_raw s) ltac:(lia) Hin) as P.
    destruct (nthz_lt_some (items s) (focus_raw s) Hfr) as [v Hv'].
    rewrite Hv' in P. pose proof (nthz_some_lt _ _ _ P) as Hb. rewrite Hlen' in Hb.
    rewrite Z.min_l by lia. rewrite P, Hv'. reflexivity.
  - intros Hin. rewrite Hin.
    pose proof (next_kept_not_in_range _ _ _ _ Htn Hin) as Hnk.
    set (g := next_kept (focus_raw s) en tn) in *.
    assert (Hg0 : 0 <= g).
    { unfold g, next_kept. destruct (tn =? 1); [|lia].
      unfold in_range in Hin. assert (Hp : (0 <? tn) = true) by lia. rewrite Hp in Hin. lia. }
    assert (Hgn : g <= zlen (items s)).
    { unfold g, next_kept. destruct (tn =? 1); lia. }
    destruct (g <? zlen (items s)) eqn:Hgl.
    + pose proof (Hpos g Hg0 Hnk) as P.
      destruct (nthz_lt_some (items s) g ltac:(lia)) as [v Hv'].
      rewrite Hv' in P. pose proof (nthz_some_lt _ _ _ P) as Hb. rewrite Hlen' in Hb.
      rewrite Z.min_l by lia. rewrite P, Hv'. reflexivity.
    + assert (g = zlen (items s)) by lia.
      assert (Hge : Z.min g en = en) by lia. rewrite Hge, Hrl, Hlen'. lia.
Qed.

Theorem focus_tracks_assign_extended s a b st xs s0 e0 t0 :
  Valid s -> items s <> [] -> step_is_zero st = false ->
  slice_indices (zlen (items s)) a b st = (s0, e0, t0) -> t0 <> 1 ->
  o_err (snd (step s (SetSlice a b st xs))) = None ->
  let l := items s in let f := focus_raw s in
  let l' := items (fst (step s (SetSlice a b st xs))) in
  let f' := focus_raw (fst (step s (SetSlice a b st xs))) in
  (* an extended-slice assignment replaces items in place: the focus index never moves *)
  f' = f /\ (in_range f s0 e0 t0 = false -> nthz l' f' = nthz l f).
Proof.
  intros Hv Hne Hz Hs Ht1 Herr. cbv zeta.
  pose proof (zlen_nonneg (items s)) as Hn.
  assert (Hfr : 0 <= focus_raw s < zlen (items s)).
  { destruct Hv as [[He _]|Hr]; [congruence | exact Hr]. }
  pose proof (slice_indices_step _ _ _ _ _ _ _ Hs Hz) as Ht0.
  pose proof (step_sound s (SetSlice a b st xs) Hv) as [_ Hout]. unfold outcome_ok in Hout.
  cbn [step list_step] in *. rewrite Hz in *.
  unfold set_slice in Hout. rewrite Hz, Hs in Hout. assert (Hc : (t0 =? 1) = false) by lia. rewrite Hc in Hout.
  destruct (zlen xs =? range_len s0 e0 t0) eqn:Hlen.
  2:{ destruct Hout as (_ & He & _). unfold set_slice in Herr. rewrite Hz, Hs, Hc, Hlen in Herr.
      cbn in Herr. discriminate. }
  assert (Hset : set_slice (items s) a b st xs = Ok (put_range 0 s0 e0 t0 xs (items s))).
  { unfold set_slice. rewrite Hz, Hs, Hc, Hlen. reflexivity. }
  rewrite Hset in *. destruct Hout as [Hi He]. rewrite Hi.
  assert (Hne' : put_range 0 s0 e0 t0 xs (items s) <> []).
  { intro C. apply (f_equal zlen) in C. rewrite zlen_put_range in C. cbn in C. lia. }
  rewrite (finish_focus s _ _ Hne' He).
  assert (Hf : adjust_focus_gen (zlen (items s)) (focus_raw s) a b st (zlen xs) = focus_raw s).
  { rewrite adjust_focus_gen_spec. unfold adjust_spec. rewrite Hs.
    destruct (norm_range s0 e0 t0) as [[sn en] tn] eqn:Hnr.
    destruct (norm_range_props _ _ _ _ _ _ Hnr Ht0) as (Htn & Hse & Hs1 & Hs2).
    { intro Hp. destruct (slice_indices_pos _ _ _ _ _ _ _ Hn Hs Hp). lia. }
    { intro Hq. destruct (slice_indices_neg _ _ _ _ _ _ _ Hn Hs Hq). lia. }
    pose proof (range_len_norm_eq _ _ _ _ _ _ Ht0 Hnr) as Hrl.
    assert (Hk : zlen xs = range_len s0 e0 t0) by lia. rewrite Hk.
    replace (zlen (items s) + range_len s0 e0 t0 - range_len s0 e0 t0 - 1) with (zlen (items s) - 1) by lia.
    destruct (tn =? 1) eqn:Htn1.
    - assert (tn = 1) by lia. subst tn. rewrite range_len_1 in Hrl.
      destruct ((sn + range_len s0 e0 t0 <=? focus_raw s) && (focus_raw s <? en)) eqn:Hcc; [lia|].
      destruct (en <=? focus_raw s) eqn:Hc2; lia.
    - destruct (range_len s0 e0 t0 =? 0) eqn:Hk0; [|lia].
      assert (Hemp : range_len sn en tn = 0) by lia.
      assert (Hir : in_range (focus_raw s) sn en tn = false).
      { unfold in_range. assert (Hp : (0 <? tn) = true) by lia. rewrite Hp.
        unfold range_len in Hemp. rewrite Hp in Hemp.
        destruct (sn <? en) eqn:Hlt.
        - assert (0 <= (en - sn - 1) / tn) by (apply Z.div_pos; lia). lia.
        - destruct (sn <=? focus_raw s) eqn:?, (focus_raw s <? en) eqn:?; cbn [andb]; try reflexivity; lia. }
      rewrite Hir.
      pose proof (range_len_le sn (Z.min (focus_raw s) en) tn Htn) as Hle.
      pose proof (range_len_nonneg sn (Z.min (focus_raw s) en) tn ltac:(lia)) as Hge.
      assert (Hz0 : range_len sn (Z.min (focus_raw s) en) tn = 0).
      { unfold range_len in *. assert (Hp : (0 <? tn) = true) by lia. rewrite Hp in *.
        destruct (sn <? en) eqn:Hlt.
        - assert (0 <= (en - sn - 1) / tn) by (apply Z.div_pos; lia). lia.
        - assert (Hc3 : (sn <? Z.min (focus_raw s) en) = false) by lia. rewrite Hc3. reflexivity. }
      lia. }
  rewrite Hf. split; [reflexivity|]. intros Hin.
  pose proof (nthz_put_range (items s) xs s0 e0 t0 0 (focus_raw s) ltac:(lia) Hin) as P.
  replace (focus_raw s - 0) with (focus_raw s) in P by lia. exact P.
Qed.

(* every successful operation belongs to one of the families the tracking theorems cover *)
Theorem tracking_families_exhaustive l o l' :
  list_step l o = Ok l' ->
  splice_of l o <> None \/ o = Reverse \/ (exists rv, o = Sort rv) \/ (exists i, o = SetFocus i) \/
  (exists a b st, (o = DelSlice a b st \/ exists xs, o = SetSlice a b st xs) /\
                  step_is_zero st = false /\ snd (slice_indices (zlen l) a b st) <> 1).
Proof.
  destruct o as [y|i x|a b st|a b st xs|i x|x|xs|y|x| |rv|xs|k| |i]; cbn [list_step splice_of]; intros H.
  - left. unfold del_index in H. destruct (index_ok _ _); [discriminate|discriminate].
  - left. unfold set_index in H. destruct (index_ok _ _); [discriminate|discriminate].
  - unfold del_slice in H. destruct (step_is_zero st) eqn:Hz; [discriminate|].
    destruct (slice_indices (zlen l) a b st) as [[s0 e0] t0] eqn:Hs.
    destruct (t0 =? 1) eqn:Ht.
    + left. discriminate.
    + right. right. right. right. exists a, b, st. rewrite Hs. cbn [snd]. split; [left; reflexivity|]. split; [exact Hz|lia].
  - unfold set_slice in H. destruct (step_is_zero st) eqn:Hz; [discriminate|].
    destruct (slice_indices (zlen l) a b st) as [[s0 e0] t0] eqn:Hs.
    destruct (t0 =? 1) eqn:Ht.
    + left. discriminate.
    + right. right. right. right. exists a, b, st. rewrite Hs. cbn [snd]. split; [right; eauto|]. split; [exact Hz|lia].
  - left. discriminate.
  - left. discriminate.
  - left. discriminate.
  - left. unfold pop in H. destruct (index_ok _ _); [discriminate|discriminate].
  - left. unfold remove_val in H. destruct (index_of l x); [discriminate|discriminate].
  - right. left. reflexivity.
  - right. right. left. eauto.
  - left. discriminate.
  - left. destruct (0 <? k); discriminate.
  - left. discriminate.
  - right. right. right. left. eauto.
Qed.
