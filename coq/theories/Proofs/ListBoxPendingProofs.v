(* C07 - proofs, part 5: completing a pending focus request inside render ("first selectable" of a
   fresh list box; set_focus - also when its old position was removed meanwhile or the list was
   emptied) never raises. *)
From Coq Require Import ZArith List Bool Lia ZifyBool.
Import ListNotations.
From Urwid Require Import PyBase ListBoxView ListBoxViewProofs ListBoxWindowProofs ListBoxHistoryProofs ListBoxMouseProofs.
Open Scope Z_scope.

Arguments Z.add : simpl never.
Arguments Z.sub : simpl never.
Arguments Z.mul : simpl never.
Arguments Z.div : simpl never.
Arguments Z.ltb : simpl never.
Arguments Z.leb : simpl never.
Arguments Z.eqb : simpl never.
Arguments Z.min : simpl never.
Arguments Z.max : simpl never.

Definition topvis (oi rows : Z) : Prop := 0 <= oi \/ 0 < oi + rows.

Lemma snap_sr_ok : forall sr m rows oi sel cf, 1 <= m -> (is_below cf = true -> 0 <= sr) ->
  topvis oi rows -> topvis (snap_sr sr m rows oi sel cf) rows.
Proof.
  intros sr m rows oi sel cf Hm Hsr H. unfold topvis, snap_sr in *.
  destruct cf; cbn [is_above is_below andb] in *;
    repeat match goal with |- context [if ?c then _ else _] => destruct c eqn:? end; try lia.
  all: specialize (Hsr eq_refl); lia.
Qed.

Lemma change_focus_sr_ok : forall s m position oi cf sr w,
  1 <= m -> (is_below cf = true -> 0 <= sr) -> nthz (items s) position = Some w -> topvis oi (i_rows w) ->
  exists s', change_focus_sr s m position oi cf sr = Ok s' /\ pend s' = pend s /\ items s' = items s /\
             focus s' = position /\ ViewOK s' /\ vpend s' = vpend s.
Proof.
  intros s m position oi cf sr w Hm Hsr Hw Ht. unfold change_focus_sr. rewrite Hw.
  pose proof (snap_sr_ok sr m (i_rows w) oi (i_sel w) cf Hm Hsr Ht) as Hs. unfold topvis in Hs.
  remember (snap_sr sr m (i_rows w) oi (i_sel w) cf) as oi' eqn:E. clear E.
  destruct (0 <=? oi') eqn:E1.
  - eexists. split; [reflexivity|]. unfold ViewOK. cbn. splits; try reflexivity; lia.
  - destruct (oi' + i_rows w <=? 0) eqn:E2; [lia|].
    eexists. split; [reflexivity|]. unfold ViewOK. cbn. splits; try reflexivity; lia.
Qed.

Lemma change_focus_ok : forall s m position oi cf w,
  1 <= m -> nthz (items s) position = Some w -> topvis oi (i_rows w) ->
  exists s', change_focus s m position oi cf = Ok s' /\ pend s' = pend s /\ items s' = items s /\
             focus s' = position /\ ViewOK s' /\ vpend s' = vpend s.
Proof.
  intros s m position oi cf w Hm Hw Ht. unfold change_focus.
  apply change_focus_sr_ok with (w := w); try assumption. intros _. lia.
Qed.

Lemma shift_focus_ok : forall s m oi,
  (0 <= oi < m \/ (oi < 0 /\ 0 < oi + rows_at (items s) (focus s))) ->
  exists s', shift_focus s m oi = Ok s' /\ pend s' = pend s /\ items s' = items s /\ focus s' = focus s /\
             ViewOK s' /\ vpend s' = vpend s.
Proof.
  intros s m oi H. unfold shift_focus.
  destruct (0 <=? oi) eqn:E1.
  - destruct (m <=? oi) eqn:E2; [lia|]. eexists. split; [reflexivity|]. unfold ViewOK. cbn. splits; try reflexivity; lia.
  - destruct (oi + rows_at (items s) (focus s) <=? 0) eqn:E2; [lia|].
    eexists. split; [reflexivity|]. unfold ViewOK. cbn. splits; try reflexivity; lia.
Qed.

(* ------------------------------------------------------------------------------------- *)
(* "first selectable" *)
Lemma first_sel_scan_bound : forall its fb off pos nro,
  first_sel_scan its fb off = Some (pos, nro) -> (forall x, In x fb -> 1 <= snd x) ->
  off <= nro /\ nro + 1 <= off + tot fb.
Proof.
  induction fb as [|[p rows] fb IH]; intros off pos nro H Hpos; cbn [first_sel_scan] in H; [discriminate|].
  assert (Hr : 1 <= rows) by (apply (Hpos (p, rows)); now left).
  assert (Ht : 0 <= tot fb).
  { apply tot_nonneg. unfold nonneg. apply Forall_forall. intros x Hx. specialize (Hpos x (or_intror Hx)). lia. }
  cbn [tot snd]. destruct (sel_at its p).
  - inversion H; subst. lia.
  - destruct (IH _ _ _ H (fun x Hx => Hpos x (or_intror Hx))). lia.
Qed.

Lemma filter_nzf_pos l : nonneg l -> forall x, In x (filter nzf l) -> 1 <= snd x.
Proof.
  intros Hn x Hx. apply filter_In in Hx. destruct Hx as [Hin Hz]. unfold nonneg in Hn. rewrite Forall_forall in Hn.
  specialize (Hn x Hin). unfold nzf in Hz. lia.
Qed.

Lemma filter_app_last l x : nzf x = true -> filter nzf (l ++ [x]) = filter nzf l ++ [x].
Proof. intros H. rewrite filter_app. cbn [filter]. now rewrite H. Qed.

Lemma visfacts_offset_nonneg above below fpos h maxrow cur v :
  nonneg above -> 0 <= h -> VisFacts above below fpos h maxrow cur v -> 0 <= v_off_inset v + h.
Proof.
  intros Hna Hh (_ & _ & _ & t2 & t4 & restA & takenB & restB & Hab & _ & _ & _ & _ & _ & F).
  cbv zeta in F. destruct F as (FJ & Ftt & _ & _ & _ & Ftt2 & Ffoc & _).
  rewrite Hab in Hna. apply nonneg_app in Hna. destruct Hna as [HnA _]. pose proof (tot_nonneg _ HnA).
  destruct (Z.ltb_spec 0 (v_trim_top v)); [specialize (Ftt2 ltac:(lia)); lia | lia].
Qed.

Lemma first_selectable_ok : forall s m ff,
  ViewOK s -> heights_ok (items s) -> 1 <= m ->
  (forall w, nthz (items s) (focus s) = Some w -> cursor_ok w) ->
  exists s', set_focus_first_selectable s m ff = Ok s' /\ pend s' = PNone /\ items s' = items s /\ ViewOK s' /\
             vpend s' = None.
Proof.
  intros s m ff [Ho Hnd] Hh Hm Hc. unfold set_focus_first_selectable, clear_pending. cbn [items focus off inum iden set_pend set_vpend].
  destruct (nthz (items s) (focus s)) as [w|] eqn:Hw.
  2: { unfold visible. rewrite Hw. eexists. split; [reflexivity|]. unfold ViewOK. cbn. splits; try reflexivity; lia. }
  destruct (visible_ok (items s) (focus s) (off s) (inum s) (iden s) m ff w) as (v & Ev & HV & Hna & Hnb & Hh0);
    [constructor; assumption | assumption | now apply Hc |].
  rewrite Ev.
  destruct (sel_at (items s) (v_fpos v)).
  { eexists. split; [reflexivity|]. unfold ViewOK. cbn. splits; try reflexivity; lia. }
  pose proof (visfacts_offset_nonneg _ _ _ _ _ _ _ Hna Hh0 HV) as Hoff.
  destruct HV as (Efp & Efr & Ecu & t2 & t4 & restA & takenB & restB & Hab & Hbe & Eva & Evb & Ftop & Fbot & F).
  cbv zeta in F. destruct F as (FJ & Ftt & Ftb & Ffr & Fex & Ftt2 & Ffoc & Fcur).
  rewrite Hbe in Hnb. apply nonneg_app in Hnb. destruct Hnb as [HnB _].
  set (fb := if negb (v_trim_bottom v =? 0) then removelast (v_below v) else v_below v).
  assert (Hfb : (forall x, In x fb -> 1 <= snd x) /\ (fb = [] \/ v_off_inset v + i_rows w + tot fb <= m)).
  { unfold fb. rewrite Evb. destruct (v_trim_bottom v =? 0) eqn:E0; cbn [negb].
    - split; [now apply filter_nzf_pos|]. right. rewrite tot_filter. lia.
    - destruct takenB as [|y takenB'] eqn:EtB.
      + cbn. split; [intros x []|]. now left.
      + rewrite <- EtB in *. destruct (Fbot ltac:(lia) ltac:(rewrite EtB; discriminate)) as (pre & x & Ex & Hlt).
        assert (Hnz : nzf x = true) by (unfold nzf; lia).
        rewrite Ex, (filter_app_last _ _ Hnz), removelast_last.
        rewrite Ex in HnB. apply nonneg_app in HnB. destruct HnB as [Hnpre _].
        split; [now apply filter_nzf_pos|]. right. rewrite tot_filter.
        rewrite Ex, tot_app in Ffr. cbn [tot] in Ffr. lia. }
  destruct Hfb as [Hfb1 Hfb2].
  rewrite Efr.
  destruct (first_sel_scan (items s) fb (v_off_inset v + i_rows w)) as [[pos nro]|] eqn:Es.
  2: { eexists. split; [reflexivity|]. unfold ViewOK. cbn. splits; try reflexivity; lia. }
  destruct (first_sel_scan_bound _ _ _ _ _ Es Hfb1) as [Hb1 Hb2].
  destruct Hfb2 as [Hfb2|Hfb2]; [rewrite Hfb2 in Es; discriminate|].
  destruct (shift_focus_ok (set_body_focus (set_vpend (set_pend s PNone) None) pos) m nro ltac:(left; lia)) as (s' & Es' & Hp' & Hi' & Hf' & Hv' & Hvp').
  exists s'. splits; try assumption.
Qed.

(* ------------------------------------------------------------------------------------- *)
(* set_focus *)
Lemma find_above_spec : forall fa off position offset,
  find_above fa off position = Some offset ->
  exists pre x post, fa = pre ++ x :: post /\ fst x = position /\ offset = off - tot pre - snd x.
Proof.
  induction fa as [|[p rows] fa IH]; intros off position offset H; cbn [find_above] in H; [discriminate|].
  destruct (p =? position) eqn:E.
  - inversion H; subst. exists [], (p, rows), fa. cbn [app tot fst snd]. splits; [reflexivity | lia | lia].
  - destruct (IH _ _ _ H) as (pre & x & post & Efa & Hx & Ho).
    exists ((p, rows) :: pre), x, post. rewrite Efa. cbn [app tot snd]. splits; [reflexivity | assumption | lia].
Qed.

Lemma find_below_spec : forall fb off position offset,
  find_below fb off position = Some offset ->
  exists pre x post, fb = pre ++ x :: post /\ fst x = position /\ offset = off + tot pre.
Proof.
  induction fb as [|[p rows] fb IH]; intros off position offset H; cbn [find_below] in H; [discriminate|].
  destruct (p =? position) eqn:E.
  - inversion H; subst. exists [], (p, rows), fb. cbn [app tot fst]. splits; [reflexivity | lia | lia].
  - destruct (IH _ _ _ H) as (pre & x & post & Efb & Hx & Ho).
    exists ((p, rows) :: pre), x, post. rewrite Efb. cbn [app tot snd]. splits; [reflexivity | assumption | lia].
Qed.

Lemma last_cases {A} (l : list A) : l = [] \/ exists pre x, l = pre ++ [x].
Proof. destruct l as [|a l] using rev_ind; [now left | right; now eexists; eexists]. Qed.

(* the outermost widget of fill_above is the only one cut by trim_top *)
Lemma last_above_trim : forall t2 t4 trt h fa,
  nonneg (t2 ++ t4) ->
  (0 < trt -> (exists pre x, t2 ++ t4 = pre ++ [x] /\ trt < snd x) \/ (t2 ++ t4 = [] /\ trt < h)) ->
  fa = filter nzf t2 ++ t4 -> 0 < trt ->
  forall pre y, fa = pre ++ [y] -> trt < snd y.
Proof.
  intros t2 t4 trt h fa Hnn Ftop Efa Hpos pre y Hfa.
  destruct (Ftop Hpos) as [(pre' & x & Ex & Hlt)|[Ex _]].
  - assert (Hnz : nzf x = true) by (unfold nzf; lia).
    assert (Elast : exists pre'', fa = pre'' ++ [x]).
    { rewrite Efa. destruct (last_cases t4) as [->|(t4' & z & ->)].
      - rewrite app_nil_r in *. rewrite Ex, (filter_app_last _ _ Hnz). now eexists.
      - rewrite app_assoc in Ex. apply app_inj_tail in Ex. destruct Ex as [_ ->].
        exists (filter nzf t2 ++ t4'). now rewrite app_assoc. }
    destruct Elast as (pre'' & Efa2). rewrite Hfa in Efa2. apply app_inj_tail in Efa2. destruct Efa2 as [_ ->]. assumption.
  - apply app_eq_nil in Ex. destruct Ex as [-> ->]. cbn in Efa. rewrite Efa in Hfa. now destruct pre.
Qed.

Lemma In_number_rows its p rw w : In (p, rw) (number 0 its) -> nthz its p = Some w -> rw = i_rows w.
Proof.
  intros Hin Hw. destruct (number_In _ _ _ _ Hin) as (w' & Hw' & ->). replace (p - 0) with p in Hw' by lia. congruence.
Qed.

Lemma top_filler_nonneg m va h : 0 <= top_filler m va h.
Proof.
  unfold top_filler.
  match goal with |- context [let '(top, bottom) := ?c in _] => destruct c as [top bottom] end. lia.
Qed.

Lemma valign_complete_ok : forall s m ff va,
  ViewOK s -> 1 <= m ->
  exists s', set_focus_valign_complete s m ff va = Ok s' /\ pend s' = PNone /\ items s' = items s /\ ViewOK s' /\
             vpend s' = None.
Proof.
  intros s m ff va [Ho Hnd] Hm. unfold set_focus_valign_complete, clear_pending.
  cbn [items focus set_pend set_vpend].
  destruct (nthz (items s) (focus s)) as [w|].
  - pose proof (top_filler_nonneg m va (i_rows w)).
    destruct (shift_focus_ok (set_vpend (set_pend s PNone) None) m (Z.min (top_filler m va (i_rows w)) (m - 1)) ltac:(left; lia))
      as (s' & Es' & Hp' & Hi' & Hf' & Hv' & Hvp').
    exists s'. splits; assumption.
  - eexists. split; [reflexivity|]. unfold ViewOK. cbn. splits; try reflexivity; lia.
Qed.

Lemma pending_complete_ok : forall s m ff,
  ViewOK s -> heights_ok (items s) -> 1 <= m ->
  (forall w, In w (items s) -> cursor_ok w) -> vpend s = None -> pend s <> PFirst ->
  exists s', set_focus_pending_complete s m ff = Ok s' /\ pend s' = PNone /\ items s' = items s /\ ViewOK s' /\
             vpend s' = None.
Proof.
  intros s m ff Hv Hh Hm Hc Hvp0 Hnf. unfold set_focus_pending_complete.
  destruct (pend s) as [| |cf old] eqn:Epend.
  - exists s. splits; auto.
  - congruence.
  - destruct Hv as [Ho Hnd].
    cbn [items focus off inum iden set_pend set_body_focus].
    destruct (nthz (items s) (focus s)) as [neww|] eqn:Hnew.
    2: { (* the walker is empty: nothing to do *)
         eexists. split; [reflexivity|]. unfold ViewOK. cbn. splits; try reflexivity; try assumption; lia. }
    destruct (old =? focus s) eqn:Eold.
    { eexists. split; [reflexivity|]. unfold ViewOK. cbn. splits; try reflexivity; try assumption; lia. }
    destruct (nthz (items s) old) as [oldw|] eqn:Hold.
    2: { (* the old position was removed meanwhile: the current offset is kept *)
         eexists. split; [reflexivity|]. unfold ViewOK. cbn. splits; try reflexivity; try assumption; lia. }
    destruct (visible_ok (items s) old (off s) (inum s) (iden s) m ff oldw) as (v & Ev & HV & Hna & Hnb & Hh0);
      [constructor; assumption | assumption | apply Hc; now apply nthz_In in Hold |].
    rewrite Ev.
    pose proof (visfacts_offset_nonneg _ _ _ _ _ _ _ Hna Hh0 HV) as Hoff.
    destruct HV as (Efp & Efr & Ecu & t2 & t4 & restA & takenB & restB & Hab & Hbe & Eva & Evb & Ftop & Fbot & F).
    cbv zeta in F. destruct F as (FJ & Ftt & Ftb & Ffr & Fex & Ftt2 & Ffoc & Fcur).
    assert (HnA : nonneg (t2 ++ t4)) by (rewrite Hab in Hna; now apply nonneg_app in Hna).
    assert (HnB : nonneg takenB) by (rewrite Hbe in Hnb; now apply nonneg_app in Hnb).
    assert (Hnfa : nonneg (v_above v)).
    { rewrite Eva. apply nonneg_app in HnA. destruct HnA. apply nonneg_app. split; [now apply nonneg_filter | assumption]. }
    assert (Etfa : tot (v_above v) = tot (t2 ++ t4)) by (rewrite Eva, !tot_app, tot_filter; reflexivity).
    set (s2 := set_body_focus (set_pend s PNone) old).
    destruct (find_above (v_above v) (v_off_inset v) (focus s)) as [offset|] eqn:Efa.
    + (* the new focus is among the widgets drawn above the old one *)
      destruct (find_above_spec _ _ _ _ Efa) as (pre & x & post & Efa2 & Hx & Hoffs).
      assert (Hin : In x (number 0 (items s))).
      { assert (Hin1 : In x (v_above v)) by (rewrite Efa2; apply in_or_app; right; now left).
        rewrite Eva in Hin1. assert (Hin2 : In x (above_of (items s) old)).
        { rewrite Hab. apply in_or_app. left. apply in_app_or in Hin1. apply in_or_app.
          destruct Hin1 as [H1|H1]; [left; now apply filter_In in H1 | now right]. }
        unfold above_of in Hin2. apply in_rev in Hin2. now apply In_number_takez in Hin2. }
      destruct x as [xp xr]. cbn [fst snd] in *. subst xp.
      pose proof (In_number_rows _ _ _ _ Hin Hnew) as Hxr. subst xr.
      rewrite Efa2 in Hnfa, Etfa. rewrite tot_app in Etfa. cbn [tot snd] in Etfa.
      apply nonneg_app in Hnfa. destruct Hnfa as [Hnpre Hnxp]. pose proof (Forall_inv Hnxp) as Hxr0. pose proof (Forall_inv_tail Hnxp) as Hnpost. cbn [snd] in Hxr0. fold (nonneg post) in Hnpost.
      pose proof (tot_nonneg _ Hnpre). pose proof (tot_nonneg _ Hnpost).
      assert (Htv : topvis offset (i_rows neww)).
      { unfold topvis. destruct (Z.ltb_spec 0 (v_trim_top v)) as [Hpos|Hpos]; [|lia].
        pose proof (last_above_trim t2 t4 (v_trim_top v) (i_rows oldw) (v_above v) HnA Ftop Eva Hpos) as Hlast.
        destruct (last_cases post) as [->|(post' & z & ->)].
        - specialize (Hlast pre (focus s, i_rows neww) Efa2). cbn [snd tot] in *. lia.
        - specialize (Hlast (pre ++ (focus s, i_rows neww) :: post') z).
          rewrite Efa2 in Hlast. specialize (Hlast ltac:(now rewrite <- app_assoc)).
          rewrite (tot_app post' [z]) in *. cbn [tot] in *. apply nonneg_app in Hnpost. destruct Hnpost as [Hnp' _].
          pose proof (tot_nonneg _ Hnp'). lia. }
      destruct (change_focus_ok s2 m (focus s) offset CBelow neww Hm Hnew Htv) as (s' & Es' & Hp' & Hi' & Hf' & Hv' & Hvp').
      exists s'. splits; try assumption; rewrite Hvp'; cbn; assumption.
    + destruct (find_below (v_below v) (v_off_inset v + v_frows v) (focus s)) as [offset|] eqn:Efb.
      * destruct (find_below_spec _ _ _ _ Efb) as (pre & x & post & Efb2 & Hx & Hoffs).
        assert (Hnpre : nonneg pre).
        { assert (Hnfb : nonneg (v_below v)) by (rewrite Evb; now apply nonneg_filter).
          rewrite Efb2 in Hnfb. now apply nonneg_app in Hnfb. }
        pose proof (tot_nonneg _ Hnpre).
        assert (Htv : topvis offset (i_rows neww)) by (unfold topvis; left; rewrite Efr in Hoffs; lia).
        destruct (change_focus_ok s2 m (focus s) offset CAbove neww Hm Hnew Htv) as (s' & Es' & Hp' & Hi' & Hf' & Hv' & Hvp').
        exists s'. splits; try assumption; rewrite Hvp'; cbn; assumption.
      * (* not visible: place it by coming_from *)
        set (s3 := set_body_focus s2 (focus s)).
        assert (Hra : rows_at (items s3) (focus s3) = i_rows neww) by (unfold rows_at; cbn; now rewrite Hnew).
        assert (Hr0 : 0 <= i_rows neww).
        { apply nthz_In in Hnew. unfold heights_ok in Hh. rewrite Forall_forall in Hh. now apply Hh. }
        match goal with |- context [shift_focus s3 m ?o] =>
          destruct (shift_focus_ok s3 m o) as (s' & Es' & Hp' & Hi' & Hf' & Hv' & Hvp') end.
        { rewrite Hra. destruct cf.
          - pose proof (Z.div_mod (m - i_rows neww) 2 ltac:(lia)). pose proof (Z.mod_pos_bound (m - i_rows neww) 2 ltac:(lia)).
            remember ((m - i_rows neww) / 2) as q. lia.
          - lia.
          - lia. }
        exists s'. splits; try assumption; rewrite Hvp'; cbn; assumption.
Qed.

Lemma set_focus_complete_ok : forall s m ff,
  ViewOK s -> heights_ok (items s) -> 1 <= m ->
  (forall w, In w (items s) -> cursor_ok w) ->
  exists s', set_focus_complete s m ff = Ok s' /\ pend s' = PNone /\ items s' = items s /\ ViewOK s' /\
             vpend s' = None.
Proof.
  intros s m ff Hv Hh Hm Hc. unfold set_focus_complete.
  assert (Hfirst : forall w, nthz (items s) (focus s) = Some w -> cursor_ok w)
    by (intros w Hw; apply Hc; now apply nthz_In in Hw).
  destruct (pend s) as [| |cf old] eqn:Epend; try (now apply first_selectable_ok);
    (destruct (vpend s) as [va|] eqn:Evp;
     [now apply valign_complete_ok | apply pending_complete_ok; try assumption; rewrite Epend; discriminate]).
Qed.

(* ------------------------------------------------------------------------------------- *)
(* render with a pending request = complete it, then render the resulting state *)
Lemma render_via_complete s m ff s' :
  set_focus_complete s m ff = Ok s' -> pend s' = PNone -> vpend s' = None -> render s m ff = render s' m ff.
Proof.
  intros H Hp Hvp. unfold render, calculate_visible. rewrite H.
  unfold set_focus_complete at 1. unfold set_focus_pending_complete. rewrite Hp, Hvp. reflexivity.
Qed.

Definition WidgetsOK (its : list item) : Prop := heights_ok its /\ forall w, In w its -> cursor_ok w.

(* the window clauses of view_ok for a state *)
Definition ShowsWindow (s : lb) (maxrow : Z) (fflag : bool) (win : list (Z * Z)) (cur : option Z) : Prop :=
  match nthz (items s) (focus s) with
  | None => win = repeat blank (Z.to_nat maxrow) /\ cur = None
  | Some w =>
      exists p,
        0 <= p <= zlen (all_rows (items s)) /\
        win = window (items s) p maxrow /\
        cur = cur_out (items s) (focus s) p (cursor_of w maxrow fflag) /\
        (zlen (all_rows (items s)) - p < maxrow -> p = 0) /\
        (1 <= i_rows w -> exists r, 0 <= r < i_rows w /\
                                    In (focus s, r) (takez maxrow (dropz p (all_rows (items s))))) /\
        (forall cy, cursor_of w maxrow fflag = Some cy ->
           nthz win (rows_before (items s) (focus s) + cy - p) = Some (focus s, cy))
  end.

Lemma render_ok_lemma : forall s m ff,
  ViewOK s -> WidgetsOK (items s) -> 1 <= m ->
  exists s' win cur,
    render s m ff = Ok (s', (win, cur)) /\
    pend s' = PNone /\ items s' = items s /\ ViewOK s' /\ ShowsWindow s' m ff win cur /\ vpend s' = None.
Proof.
  intros s m ff Hv [Hh Hc] Hm.
  destruct (set_focus_complete_ok s m ff Hv Hh Hm Hc) as (s' & Ec & Hp' & Hi' & Hv' & Hvp').
  rewrite (render_via_complete _ _ _ _ Ec Hp' Hvp'), (render_no_pending _ _ _ Hp' Hvp').
  destruct (nthz (items s') (focus s')) as [w|] eqn:Hw.
  - destruct Hv' as [Ho' Hnd'].
    destruct (view_ok_lemma (items s') (focus s') (off s') (inum s') (iden s') m ff w)
      as (p & Hp1 & Er & Hbl & Hfoc & Hcur).
    { constructor; try assumption. now rewrite Hi'. }
    { assumption. }
    { apply Hc. rewrite <- Hi'. now apply nthz_In in Hw. }
    rewrite Er. eexists; eexists; eexists. split; [reflexivity|]. unfold ShowsWindow. rewrite Hw.
    splits; try assumption; try (split; assumption).
    exists p. splits; try assumption; try reflexivity; try lia.
    intros cy Hcy. now destruct (Hcur cy Hcy).
  - rewrite render_view_empty by assumption.
    eexists; eexists; eexists. split; [reflexivity|]. unfold ShowsWindow. rewrite Hw.
    splits; try assumption; try reflexivity.
Qed.

Lemma render_any_history_lemma :
  forall ops s s' out maxrow fflag,
    ViewOK s -> Forall op_ok ops -> In (Ok (s', out)) (run s ops) ->
    WidgetsOK (items s') -> 1 <= maxrow ->
    exists s'' win cur,
      render s' maxrow fflag = Ok (s'', (win, cur)) /\
      pend s'' = PNone /\ items s'' = items s' /\ ViewOK s'' /\ ShowsWindow s'' maxrow fflag win cur /\
      vpend s'' = None.
Proof.
  intros ops s s' out maxrow fflag Hs Hops Hin Hw Hm.
  apply render_ok_lemma; try assumption. eapply history_view_ok; eassumption.
Qed.
