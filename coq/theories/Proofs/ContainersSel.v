(* C08 - proofs, part 2: selectable() after a contents assignment; which writes leave selectable() alone *)
From Coq Require Import ZArith List Bool Lia ZifyBool.
Import ListNotations.
From Urwid Require Import PyBase PyList c08_container_gen Containers ContainersBase.
From Urwid Require MonitoredList PyListFacts MonitoredListProofs.
Open Scope Z_scope.
Arguments Z.add : simpl never. Arguments Z.sub : simpl never. Arguments Z.mul : simpl never.
Arguments Z.ltb : simpl never. Arguments Z.leb : simpl never. Arguments Z.eqb : simpl never.

(* the nodes whose stored data [sel fuel h c] reads *)
Fixpoint sel_reads (fuel : nat) (h : heap) (c : Z) : list Z :=
  match fuel with
  | O => []
  | S f => c :: match getn h c with
                | None => []
                | Some n => match nk n with
                            | KGrid => flat_map (sel_reads f h) (items n)
                            | KOvl => sel_reads f h (n_a n)
                            | _ => []
                            end
                end
  end.

Lemma existsb_ext_in {A} (f g : A -> bool) l : (forall x, In x l -> f x = g x) -> existsb f l = existsb g l.
Proof.
  induction l as [|a r IH]; intros H; [reflexivity|]. cbn [existsb]. rewrite (H a (or_introl eq_refl)).
  rewrite IH; [reflexivity|]. intros x Hx. apply H. right. exact Hx.
Qed.

(* writing a node that [sel] does not read does not change the answer *)
Lemma sel_setn_indep f : forall h id m c, ~ In id (sel_reads f h c) -> sel f (setn h id m) c = sel f h c.
Proof.
  induction f as [|f IH]; intros h id m c Hn; [reflexivity|].
  cbn [sel sel_reads] in *. rewrite getn_setn.
  destruct ((c =? id) && (0 <=? id) && (id <? zlen h)) eqn:E.
  - exfalso. apply Hn. left. lia.
  - destruct (getn h c) as [n|]; [|reflexivity]. destruct (is_dis n); [reflexivity|]. unfold sel_node.
    destruct (nk n); try reflexivity.
    + apply existsb_ext_in. intros x Hx. apply IH. intros Hin. apply Hn. right. apply in_flat_map. exists x. split; assumption.
    + apply IH. intros Hin. apply Hn. right. exact Hin.
Qed.

(* a write that keeps the kind, the leaf data, the cache, the contents and the parts keeps selectable() everywhere *)
Definition sel_same_node (n m : node) : Prop :=
  nk m = nk n /\ n_sel m = n_sel n /\ n_selc m = n_selc n /\ items m = items n /\ n_a m = n_a n /\ n_deco m = n_deco n.

Lemma sel_setn_same f : forall h id n m c, getn h id = Some n -> sel_same_node n m -> sel f (setn h id m) c = sel f h c.
Proof.
  induction f as [|f IH]; intros h id n m c G Hs; [reflexivity|].
  cbn [sel]. rewrite getn_setn.
  destruct ((c =? id) && (0 <=? id) && (id <? zlen h)) eqn:E.
  - assert (c = id) by lia. subst c. rewrite G. pose proof Hs as Hs0. destruct Hs as (Hk & H1 & H2 & H3 & H4 & H5).
    unfold is_dis. rewrite H5. destruct (n_deco n =? 2); [reflexivity|]. unfold sel_node.
    rewrite Hk. destruct (nk n) eqn:Kn; try reflexivity; try assumption.
    + rewrite H3. apply existsb_ext_in. intros x _. eapply IH; [exact G|exact Hs0].
    + rewrite H4. eapply IH; [exact G|exact Hs0].
  - destruct (getn h c) as [k|]; [|reflexivity]. destruct (is_dis k); [reflexivity|]. unfold sel_node. destruct (nk k); try reflexivity.
    + apply existsb_ext_in. intros x _. eapply IH; eauto.
    + eapply IH; eauto.
Qed.

(* ---------- selectable() right after the contents were set ---------- *)
Theorem edit_selectable_iff_child f id e h h' n :
  getn h id = Some n -> nk n = KPile \/ nk n = KCols ->
  edit f id e h = (h', ROk tt) ->
  exists n', getn h' id = Some n' /\ items n' = MonitoredList.items (fst (MonitoredList.step (n_c n) e)) /\
    ((forall c, In c (items n') -> ~ In id (sel_reads f h' c)) ->
     n_selc n' = existsb (sel f h') (items n')).
Proof.
  intros G Hk. unfold edit, mbind, rd. rewrite G.
  assert (Hsw : is_simple_walker n = false) by (unfold is_simple_walker; destruct Hk as [Hk|Hk]; rewrite Hk; reflexivity).
  rewrite Hsw.
  destruct (MonitoredList.o_err (snd (MonitoredList.step (n_c n) e))); [discriminate|].
  set (s' := fst (MonitoredList.step (n_c n) e)).
  unfold w_contents, w_node at 1. rewrite G.
  pose proof (getn_some_bounds _ _ _ G) as Hb.
  set (h1 := setn h id (set_c n s')).
  assert (G1 : getn h1 id = Some (set_c n s')) by (apply getn_setn_same; exact Hb).
  assert (Hsel : (h1, ROk tt) = (h1, ROk tt)) by reflexivity.
  destruct Hk as [Hk|Hk]; rewrite Hk; unfold get_heap, mbind, w_selc, w_node; rewrite G1; intros H; injection H as <-;
    (exists (set_selc (set_c n s') (existsb (sel f h1) (MonitoredList.items s')));
     split; [apply getn_setn_same; unfold h1; rewrite zlen_setn; exact Hb|];
     split; [reflexivity|];
     intros Hind; cbn [n_selc set_selc]; apply existsb_ext_in; intros c Hc; symmetry;
     apply sel_setn_indep;
     (* the reads are the same in h1 and in the final heap *)
     specialize (Hind c Hc); intros Hin; apply Hind; clear Hind).
  all: revert Hin; generalize c; clear c Hc.
  all: assert (Hrd : forall fuel c, sel_reads fuel (setn h1 id (set_selc (set_c n s') (existsb (sel f h1) (MonitoredList.items s')))) c
                                   = sel_reads fuel h1 c).
  1,3: induction fuel as [|fuel IHf]; intros c; [reflexivity|]; cbn [sel_reads]; rewrite getn_setn;
       destruct ((c =? id) && (0 <=? id) && (id <? zlen h1)) eqn:E;
       [ assert (c = id) by lia; subst c; rewrite G1; cbn [nk set_selc set_c]; f_equal;
         destruct (nk n); try reflexivity; [apply flat_map_ext; intros; apply IHf | apply IHf]
       | f_equal; destruct (getn h1 c) as [k|]; [|reflexivity]; destruct (nk k); try reflexivity;
         [apply flat_map_ext; intros; apply IHf | apply IHf] ].
  all: intros c Hin; rewrite Hrd; exact Hin.
Qed.

(* GridFlow.selectable() is computed from the contents at every call *)
Theorem grid_selectable_iff_child f h id n :
  getn h id = Some n -> nk n = KGrid -> sel_own (S f) h id = existsb (sel f h) (items n).
Proof. intros G K. unfold sel_own, sel_node. rewrite G, K. reflexivity. Qed.
