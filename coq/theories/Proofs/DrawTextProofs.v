(* C04 - the row spec with combining characters threaded across runs, its agreement with row_cells on the
   canvases of the theorems, and what is false of the code for other texts (witness). *)
From Coq Require Import ZArith List Bool Lia ZifyBool.
From Urwid Require Import PyBase TermRef DrawScreen PaintSpec TermRefFacts DrawScreenProofs.
Import ListNotations.
Open Scope Z_scope.

Lemma row_threaded_fold c row : forall P, WFc P -> Forall (run_ok' c) row ->
  fold_left (fun P (r : crun) => let '(a, cs, text) := r in
               paint_text P cs (attr_vis c a) (out_text c cs text)) row P
  = P ++ row_cells c row.
Proof.
  induction row as [|[[a cs] text] row IH]; intros P HP Hok.
  - cbn. now rewrite app_nil_r.
  - apply Forall_cons_iff in Hok as [(Ht & Hb & Hcs) Hrest]. cbn [fold_left].
    destruct (out_text_ok c cs text Ht) as (Hw & _ & Ob & _).
    rewrite paint_text_base; [|exact Hw|apply Ob; exact Hb].
    rewrite IH; [|apply WFc_app; [exact HP|apply WFc_text_cells; exact Hw]|exact Hrest].
    cbn [row_cells flat_map run_cells]. fold (row_cells c row). unfold text_cells. now rewrite app_assoc.
Qed.

(* on the canvases of the theorems the flat row spec is the threaded one *)
Lemma row_cells_threaded_eq_lemma c cols row : row_ok c cols row -> row_cells_threaded c row = row_cells c row.
Proof.
  intros H. unfold row_cells_threaded. rewrite row_threaded_fold; [reflexivity|constructor|eapply row_ok_weak; eauto].
Qed.

Lemma visual_colours_lemma bib bbb s :
    a_fg (visual bib bbb s) =
      (if s_fgk s =? 3 then CRgb (s_fr s) (s_fg s) (s_fb s)
       else if s_fgk s =? 2 then CHigh (s_fgn s)
       else if s_fgk s =? 1 then (if (7 <? s_fgn s) && bib then CBasic (s_fgn s - 8) else CBasic (s_fgn s))
       else CDef) /\
    a_bg (visual bib bbb s) =
      (if s_bgk s =? 3 then CRgb (s_br s) (s_bg s) (s_bb s)
       else if s_bgk s =? 2 then CHigh (s_bgn s)
       else if s_bgk s =? 1 then (if (7 <? s_bgn s) && bbb then CBasic (s_bgn s - 8) else CBasic (s_bgn s))
       else CDef).
Proof.
  unfold visual, color_of. cbn [a_fg a_bg]. split.
  - destruct (s_fgk s =? 3) eqn:K3; [assert (E : s_fgk s =? 1 = false) by lia; rewrite E; reflexivity|].
    destruct (s_fgk s =? 2) eqn:K2; [assert (E : s_fgk s =? 1 = false) by lia; rewrite E; reflexivity|].
    destruct (s_fgk s =? 1); cbn [andb]; [|reflexivity]. destruct ((7 <? s_fgn s) && bib); reflexivity.
  - destruct (s_bgk s =? 3) eqn:K3; [assert (E : s_bgk s =? 1 = false) by lia; rewrite E; reflexivity|].
    destruct (s_bgk s =? 2) eqn:K2; [assert (E : s_bgk s =? 1 = false) by lia; rewrite E; reflexivity|].
    destruct (s_bgk s =? 1); cbn [andb]; [|reflexivity]. destruct ((7 <? s_bgn s) && bbb); reflexivity.
Qed.

